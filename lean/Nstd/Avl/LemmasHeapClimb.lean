import Nstd.Avl.LemmasOrd
import Nstd.Avl.LemmasHeapLoops
/-
  The upward loop of the private insert (translated into Generated/AvlRot.lean as `insertRebalance_loop`) against the
  model's way back to the root.  The loop walks up the parent links; the model comes back from its recursion
  (`goL` / `goR`).  `Ctx` is the path from the root to the cell the new subtree was linked into, `ReprCtx` says that the
  heap holds that path, `Ctx.climb` is what the model does along it.
-/
namespace Nstd.Avl
open Tree
open Nstd.Avl.Heap
open Nstd.Generated.AvlRot

theorem mem_iff_ids' (j : Nat) (t : Tree) : Mem j t ↔ j ∈ ids t := by
  induction t with
  | nil => simp [Mem]
  | node i k v h s l r ihl ihr => simp only [Mem, ids_node, List.mem_append, List.mem_cons, ihl, ihr]; grind

theorem distinct_iff_nodup' (t : Tree) : Distinct t ↔ (ids t).Nodup := by
  induction t with
  | nil => simp [Distinct]
  | node i k v h s l r ihl ihr =>
    simp only [Distinct, ids_node, List.nodup_append, List.nodup_cons, List.mem_cons, ihl, ihr, mem_iff_ids']
    grind

/-- a tree with a hole: the path from the root down to the cell the hole is in.  `left i … r up`: the hole is the LEFT
    child of item `i`, `r` is its right subtree, `up` the context of item `i` itself. -/
inductive Ctx where
  | top : Ctx
  | left (i : Nat) (k v : Int) (h : Nat) (s : Int) (r : Tree) (up : Ctx) : Ctx
  | right (i : Nat) (k v : Int) (h : Nat) (s : Int) (l : Tree) (up : Ctx) : Ctx

namespace Ctx

def plug : Ctx → Tree → Tree
  | top, t => t
  | left i k v h s r up, t => up.plug (node i k v h s t r)
  | right i k v h s l up, t => up.plug (node i k v h s l t)

/-- what the upward loops of the model do on the way back to the root -/
def climb : Ctx → Tree × Bool → Tree × Bool
  | top, p => p
  | left i k v h s r up, p => up.climb (goL i k v h s r p)
  | right i k v h s l up, p => up.climb (goR i k v h s l p)

/-- pointer of the item the hole hangs under (null for the root cell) -/
def par : Ctx → Nat
  | top => 0
  | left i _ _ _ _ _ _ => i + 1
  | right i _ _ _ _ _ _ => i + 1

/-- the cell the hole is -/
def cell : Ctx → Cell
  | top => .root
  | left i _ _ _ _ _ _ => .left (i + 1)
  | right i _ _ _ _ _ _ => .right (i + 1)

/-- ids of all items of the context (path items and their other subtrees) -/
def ids : Ctx → List Nat
  | top => []
  | left i _ _ _ _ r up => i :: Avl.ids r ++ up.ids
  | right i _ _ _ _ l up => i :: Avl.ids l ++ up.ids

def depth : Ctx → Nat
  | top => 0
  | left _ _ _ _ _ _ up => up.depth + 1
  | right _ _ _ _ _ _ up => up.depth + 1

end Ctx

/-- the heap holds the context: every path item with its fields, its parent link, the link from its parent's cell to
    it, and its other subtree (the content of the hole's cell is not constrained) -/
def ReprCtx (h : Heap) : Ctx → Prop
  | .top => True
  | .left i k v hh s r up =>
    h.key (i + 1) = k ∧ h.value (i + 1) = v ∧ h.height (i + 1) = hh ∧ h.slope (i + 1) = s ∧
      h.parent (i + 1) = up.par ∧ h.get up.cell = i + 1 ∧ Repr h (h.right (i + 1)) (i + 1) r ∧ ReprCtx h up
  | .right i k v hh s l up =>
    h.key (i + 1) = k ∧ h.value (i + 1) = v ∧ h.height (i + 1) = hh ∧ h.slope (i + 1) = s ∧
      h.parent (i + 1) = up.par ∧ h.get up.cell = i + 1 ∧ Repr h (h.left (i + 1)) (i + 1) l ∧ ReprCtx h up

theorem cellAt_ctx (ctx : Ctx) : CellAt ctx.cell ctx.par := by
  cases ctx <;> simp [Ctx.cell, Ctx.par, CellAt]

theorem repr_plug (h : Heap) : ∀ (ctx : Ctx) (sub : Tree), ReprCtx h ctx → Repr h (h.get ctx.cell) ctx.par sub →
    Repr h h.root 0 (ctx.plug sub) := by
  intro ctx
  induction ctx with
  | top => intro sub _ hs; exact hs
  | left i k v hh s r up ih =>
    intro sub hc hs
    obtain ⟨a1, a2, a3, a4, a5, a6, a7, a8⟩ := hc
    simp only [Ctx.plug]
    apply ih _ a8
    rw [a6, repr_node_iff]
    exact ⟨rfl, a1, a2, a5, a3, a4, hs, a7⟩
  | right i k v hh s l up ih =>
    intro sub hc hs
    obtain ⟨a1, a2, a3, a4, a5, a6, a7, a8⟩ := hc
    simp only [Ctx.plug]
    apply ih _ a8
    rw [a6, repr_node_iff]
    exact ⟨rfl, a1, a2, a5, a3, a4, a7, hs⟩

theorem climb_false : ∀ (ctx : Ctx) (t : Tree), ctx.climb (t, false) = (ctx.plug t, false) := by
  intro ctx
  induction ctx with
  | top => intro t; rfl
  | left i k v hh s r up ih => intro t; simp only [Ctx.climb, Ctx.plug, goL]; exact ih _
  | right i k v hh s l up ih => intro t; simp only [Ctx.climb, Ctx.plug, goR]; exact ih _

theorem par_eq_zero (ctx : Ctx) : ctx.par = 0 ↔ ctx = .top := by
  cases ctx <;> simp [Ctx.par]

theorem repr_sameframe {h h' : Heap} {c : Cell} {t r : Tree} {p par : Nat} (hr : Repr h p par r) (f : Frame h h' c t)
    (hout : ∀ j, Mem j r → ¬ Mem j t) (hc : ∀ j, Mem j r → c ≠ .left (j + 1) ∧ c ≠ .right (j + 1)) : Repr h' p par r := by
  refine repr_frame hr ?_ ?_
  · intro j hj
    have o : ∀ j', Mem j' t → j + 1 ≠ j' + 1 := by
      intro j' hj' e; have : j = j' := by omega
      subst this; exact hout j hj hj'
    exact ⟨by rw [f.key], by rw [f.value], f.left _ o (hc j hj).1, f.right _ o (hc j hj).2, f.height _ o, f.slope _ o⟩
  · intro j hj
    refine f.parent _ ?_
    intro j' hj' e; have : j = j' := by omega
    subst this; exact hout j hj hj'

/-- a heap change that leaves everything outside the items of `t` and the cell `c` alone keeps a context none of whose
    items is in `t` or owns `c` -/
theorem reprCtx_frame_gen {h h' : Heap} {c : Cell} {t : Tree} : ∀ (ctx : Ctx), ReprCtx h ctx → Frame h h' c t →
    (∀ j ∈ ctx.ids, ¬ Mem j t) → (∀ j ∈ ctx.ids, c ≠ .left (j + 1) ∧ c ≠ .right (j + 1)) → c ≠ .root → ReprCtx h' ctx := by
  intro ctx
  induction ctx with
  | top => intro _ _ _ _ _; trivial
  | left i k v hh s r up ih =>
    intro hc f hout hcell hroot
    obtain ⟨a1, a2, a3, a4, a5, a6, a7, a8⟩ := hc
    have mi : i ∈ (Ctx.left i k v hh s r up).ids := by simp [Ctx.ids]
    have mr : ∀ j, j ∈ Avl.ids r → j ∈ (Ctx.left i k v hh s r up).ids := by intro j hj; simp [Ctx.ids, hj]
    have mu : ∀ j, j ∈ up.ids → j ∈ (Ctx.left i k v hh s r up).ids := by intro j hj; simp [Ctx.ids, hj]
    have o : ∀ j', Mem j' t → i + 1 ≠ j' + 1 := by
      intro j' hj' e; have : i = j' := by omega
      subst this; exact hout i mi hj'
    have hg : h'.get up.cell = h.get up.cell := by
      cases up with
      | top => exact f.root hroot
      | left q _ _ _ _ _ _ =>
        refine f.left _ ?_ (hcell q (mu q (by simp [Ctx.ids]))).1
        intro j' hj' e; have : q = j' := by omega
        subst this; exact hout q (mu q (by simp [Ctx.ids])) hj'
      | right q _ _ _ _ _ _ =>
        refine f.right _ ?_ (hcell q (mu q (by simp [Ctx.ids]))).2
        intro j' hj' e; have : q = j' := by omega
        subst this; exact hout q (mu q (by simp [Ctx.ids])) hj'
    refine ⟨by rw [f.key]; exact a1, by rw [f.value]; exact a2, by rw [f.height _ o]; exact a3, by rw [f.slope _ o]; exact a4,
      by rw [f.parent _ o]; exact a5, by rw [hg]; exact a6, ?_, ?_⟩
    · rw [f.right _ o (hcell i mi).2]
      exact repr_sameframe a7 f (fun j hj => hout j (mr j ((mem_iff_ids' j r).mp hj)))
        (fun j hj => hcell j (mr j ((mem_iff_ids' j r).mp hj)))
    · exact ih a8 f (fun j hj => hout j (mu j hj)) (fun j hj => hcell j (mu j hj)) hroot
  | right i k v hh s l up ih =>
    intro hc f hout hcell hroot
    obtain ⟨a1, a2, a3, a4, a5, a6, a7, a8⟩ := hc
    have mi : i ∈ (Ctx.right i k v hh s l up).ids := by simp [Ctx.ids]
    have mr : ∀ j, j ∈ Avl.ids l → j ∈ (Ctx.right i k v hh s l up).ids := by intro j hj; simp [Ctx.ids, hj]
    have mu : ∀ j, j ∈ up.ids → j ∈ (Ctx.right i k v hh s l up).ids := by intro j hj; simp [Ctx.ids, hj]
    have o : ∀ j', Mem j' t → i + 1 ≠ j' + 1 := by
      intro j' hj' e; have : i = j' := by omega
      subst this; exact hout i mi hj'
    have hg : h'.get up.cell = h.get up.cell := by
      cases up with
      | top => exact f.root hroot
      | left q _ _ _ _ _ _ =>
        refine f.left _ ?_ (hcell q (mu q (by simp [Ctx.ids]))).1
        intro j' hj' e; have : q = j' := by omega
        subst this; exact hout q (mu q (by simp [Ctx.ids])) hj'
      | right q _ _ _ _ _ _ =>
        refine f.right _ ?_ (hcell q (mu q (by simp [Ctx.ids]))).2
        intro j' hj' e; have : q = j' := by omega
        subst this; exact hout q (mu q (by simp [Ctx.ids])) hj'
    refine ⟨by rw [f.key]; exact a1, by rw [f.value]; exact a2, by rw [f.height _ o]; exact a3, by rw [f.slope _ o]; exact a4,
      by rw [f.parent _ o]; exact a5, by rw [hg]; exact a6, ?_, ?_⟩
    · rw [f.left _ o (hcell i mi).1]
      exact repr_sameframe a7 f (fun j hj => hout j (mr j ((mem_iff_ids' j l).mp hj)))
        (fun j hj => hcell j (mr j ((mem_iff_ids' j l).mp hj)))
    · exact ih a8 f (fun j hj => hout j (mu j hj)) (fun j hj => hcell j (mu j hj)) hroot

/-- … and whose hole is the cell `c` itself -/
theorem reprCtx_frame_hole {h h' : Heap} {t : Tree} : ∀ (up : Ctx), ReprCtx h up → Frame h h' up.cell t →
    (∀ j ∈ up.ids, ¬ Mem j t) → (up.ids).Nodup → ReprCtx h' up := by
  intro up
  cases up with
  | top => intro _ _ _ _; trivial
  | left q k v hh s r upup =>
    intro hc f hout hnd
    obtain ⟨a1, a2, a3, a4, a5, a6, a7, a8⟩ := hc
    simp only [Ctx.cell] at f
    simp only [Ctx.ids] at hnd
    have hq := (List.nodup_cons.mp hnd).1
    have n1 : q ∉ Avl.ids r := fun hm => hq (List.mem_append_left _ hm)
    have n2 : q ∉ upup.ids := fun hm => hq (List.mem_append_right _ hm)
    have mi : q ∈ (Ctx.left q k v hh s r upup).ids := by simp [Ctx.ids]
    have mr : ∀ j, j ∈ Avl.ids r → j ∈ (Ctx.left q k v hh s r upup).ids := by intro j hj; simp [Ctx.ids, hj]
    have mu : ∀ j, j ∈ upup.ids → j ∈ (Ctx.left q k v hh s r upup).ids := by intro j hj; simp [Ctx.ids, hj]
    have o : ∀ j', Mem j' t → q + 1 ≠ j' + 1 := by
      intro j' hj' e; have : q = j' := by omega
      subst this; exact hout q mi hj'
    have hcu : ∀ j ∈ upup.ids, (Cell.left (q + 1) : Cell) ≠ .left (j + 1) ∧ (Cell.left (q + 1) : Cell) ≠ .right (j + 1) := by
      intro j hj
      have : j ≠ q := fun e => n2 (e ▸ hj)
      constructor <;> simp <;> omega
    have hg : h'.get upup.cell = h.get upup.cell := by
      cases upup with
      | top => exact f.root (by simp)
      | left q' _ _ _ _ _ _ =>
        refine f.left _ ?_ (hcu q' (by simp [Ctx.ids])).1
        intro j' hj' e; have : q' = j' := by omega
        subst this; exact hout q' (mu q' (by simp [Ctx.ids])) hj'
      | right q' _ _ _ _ _ _ =>
        refine f.right _ ?_ (hcu q' (by simp [Ctx.ids])).2
        intro j' hj' e; have : q' = j' := by omega
        subst this; exact hout q' (mu q' (by simp [Ctx.ids])) hj'
    refine ⟨by rw [f.key]; exact a1, by rw [f.value]; exact a2, by rw [f.height _ o]; exact a3, by rw [f.slope _ o]; exact a4,
      by rw [f.parent _ o]; exact a5, by rw [hg]; exact a6, ?_, ?_⟩
    · rw [f.right _ o (by simp)]
      refine repr_sameframe a7 f (fun j hj => hout j (mr j ((mem_iff_ids' j r).mp hj))) ?_
      intro j hj
      have : j ≠ q := fun e => n1 (e ▸ (mem_iff_ids' j r).mp hj)
      constructor <;> simp <;> omega
    · exact reprCtx_frame_gen upup a8 f (fun j hj => hout j (mu j hj)) hcu (by simp)
  | right q k v hh s l upup =>
    intro hc f hout hnd
    obtain ⟨a1, a2, a3, a4, a5, a6, a7, a8⟩ := hc
    simp only [Ctx.cell] at f
    simp only [Ctx.ids] at hnd
    have hq := (List.nodup_cons.mp hnd).1
    have n1 : q ∉ Avl.ids l := fun hm => hq (List.mem_append_left _ hm)
    have n2 : q ∉ upup.ids := fun hm => hq (List.mem_append_right _ hm)
    have mi : q ∈ (Ctx.right q k v hh s l upup).ids := by simp [Ctx.ids]
    have mr : ∀ j, j ∈ Avl.ids l → j ∈ (Ctx.right q k v hh s l upup).ids := by intro j hj; simp [Ctx.ids, hj]
    have mu : ∀ j, j ∈ upup.ids → j ∈ (Ctx.right q k v hh s l upup).ids := by intro j hj; simp [Ctx.ids, hj]
    have o : ∀ j', Mem j' t → q + 1 ≠ j' + 1 := by
      intro j' hj' e; have : q = j' := by omega
      subst this; exact hout q mi hj'
    have hcu : ∀ j ∈ upup.ids, (Cell.right (q + 1) : Cell) ≠ .left (j + 1) ∧ (Cell.right (q + 1) : Cell) ≠ .right (j + 1) := by
      intro j hj
      have : j ≠ q := fun e => n2 (e ▸ hj)
      constructor <;> simp <;> omega
    have hg : h'.get upup.cell = h.get upup.cell := by
      cases upup with
      | top => exact f.root (by simp)
      | left q' _ _ _ _ _ _ =>
        refine f.left _ ?_ (hcu q' (by simp [Ctx.ids])).1
        intro j' hj' e; have : q' = j' := by omega
        subst this; exact hout q' (mu q' (by simp [Ctx.ids])) hj'
      | right q' _ _ _ _ _ _ =>
        refine f.right _ ?_ (hcu q' (by simp [Ctx.ids])).2
        intro j' hj' e; have : q' = j' := by omega
        subst this; exact hout q' (mu q' (by simp [Ctx.ids])) hj'
    refine ⟨by rw [f.key]; exact a1, by rw [f.value]; exact a2, by rw [f.height _ o]; exact a3, by rw [f.slope _ o]; exact a4,
      by rw [f.parent _ o]; exact a5, by rw [hg]; exact a6, ?_, ?_⟩
    · rw [f.left _ o (by simp)]
      refine repr_sameframe a7 f (fun j hj => hout j (mr j ((mem_iff_ids' j l).mp hj))) ?_
      intro j hj
      have : j ≠ q := fun e => n1 (e ▸ (mem_iff_ids' j l).mp hj)
      constructor <;> simp <;> omega
    · exact reprCtx_frame_gen upup a8 f (fun j hj => hout j (mu j hj)) hcu (by simp)

theorem upd_repr_frame (h : Heap) (c : Cell) (p par i : Nat) (k v : Int) (hh : Nat) (s : Int) (l r : Tree)
    (hr : Repr h p par (node i k v hh s l r)) (hd : (ids (node i k v hh s l r)).Nodup) :
    Repr (Map.updateHeightAndSlope h p) p par (Tree.upd (node i k v hh s l r)) ∧
    Frame h (Map.updateHeightAndSlope h p) c (node i k v hh s l r) := by
  have hd' := (distinct_iff_nodup' _).mpr hd
  simp only [Distinct] at hd'
  rw [repr_node_iff] at hr
  obtain ⟨eP, kP, vP, pP, hP, sP, rL, rR⟩ := hr
  have hl := repr_ht rL
  have hr' := repr_ht rR
  rw [upd_fields]
  simp only [lhOf, rhOf, hl, hr']
  constructor
  · simp only [Tree.upd]
    rw [repr_node_iff]
    simp only [upd1_same]
    refine ⟨eP, kP, vP, pP, trivial, trivial, ?_, ?_⟩
    · refine repr_frame rL ?_ (fun j hj => rfl)
      intro j hj
      have : j + 1 ≠ p := by grind
      simp only [upd1_apply, this, if_false, and_self]
    · refine repr_frame rR ?_ (fun j hj => rfl)
      intro j hj
      have : j + 1 ≠ p := by grind
      simp only [upd1_apply, this, if_false, and_self]
  · refine ⟨rfl, rfl, fun _ _ => rfl, ?_, ?_, fun _ _ _ => rfl, fun _ _ _ => rfl, fun _ => rfl⟩
    · intro q hq
      have : q ≠ p := by have := hq i (by simp [Mem]); omega
      simp only [upd1_apply, this, if_false]
    · intro q hq
      have : q ≠ p := by have := hq i (by simp [Mem]); omega
      simp only [upd1_apply, this, if_false]

theorem repr_node_fields {h : Heap} {p par : Nat} {t : Tree} (hr : Repr h p par t) (hn : t ≠ .nil) :
    h.height p = t.ht ∧ h.parent p = par := by
  cases t with
  | nil => exact absurd rfl hn
  | node i k v hh s l r => rw [repr_node_iff] at hr; exact ⟨hr.2.2.2.2.1, hr.2.2.2.1⟩

theorem rebal_upd_ne_nil (i : Nat) (k v : Int) (hh : Nat) (s : Int) (l r : Tree) :
    Tree.rebal (Tree.upd (node i k v hh s l r)) ≠ .nil := by
  intro e
  have := inorder_rebal (Tree.upd (node i k v hh s l r))
  rw [e, inorder_upd] at this
  simp at this

theorem ids_rebal_upd (t : Tree) : ids (Tree.rebal (Tree.upd t)) = ids t := by
  simp [ids]

/-- the stored slope fields let every `rebal` of the climb dereference only items that exist -/
def ClimbOk : Ctx → Tree × Bool → Prop
  | .top, _ => True
  | .left i k v hh s r up, p =>
    (p.2 = true → RebalOk (Tree.upd (node i k v hh s p.1 r))) ∧ ClimbOk up (goL i k v hh s r p)
  | .right i k v hh s l up, p =>
    (p.2 = true → RebalOk (Tree.upd (node i k v hh s l p.1))) ∧ ClimbOk up (goR i k v hh s l p)

/-- **The upward loop of the private insert** (`do { oldHeight = parent->height; parent->updateHeightAndSlope(); parent =
    rebal(parent); if(oldHeight == parent->height) break; parent = parent->parent; } while(parent);`), translated from
    Map.hpp, is the model's way back to the root (`goL` / `goR` / `fixup`): started at the item the new subtree `sub`
    hangs under, it leaves a heap that holds `(ctx.climb (sub, true)).1`; fuel: the depth of the hole. -/
theorem insertRebalance_loop_eq : ∀ (ctx : Ctx) (h : Heap) (sub : Tree) (fuel old : Nat),
    ctx ≠ .top → ReprCtx h ctx → Repr h (h.get ctx.cell) ctx.par sub → (ids sub ++ ctx.ids).Nodup →
    ClimbOk ctx (sub, true) → ctx.depth ≤ fuel →
    ∃ h', Map.insertRebalance_loop fuel h ctx.par old = some h' ∧ Repr h' h'.root 0 (ctx.climb (sub, true)).1 ∧
      h'.key = h.key ∧ h'.value = h.value := by
  intro ctx
  induction ctx with
  | top => intro _ _ _ _ hn; exact absurd rfl hn
  | left i k v hh s r up ih =>
    intro h sub fuel old _ hc hs hnd hok hf
    obtain ⟨a1, a2, a3, a4, a5, a6, a7, a8⟩ := hc
    simp only [Ctx.cell, Ctx.par, Heap.get] at hs
    have ht : Repr h (h.get up.cell) up.par (node i k v hh s sub r) := by
      rw [a6, repr_node_iff]; exact ⟨rfl, a1, a2, a5, a3, a4, hs, a7⟩
    -- the id bookkeeping
    have hndt : (ids (node i k v hh s sub r)).Nodup ∧ (∀ j ∈ up.ids, j ∉ ids (node i k v hh s sub r)) ∧ up.ids.Nodup := by
      simp only [Ctx.ids, ids_node] at hnd ⊢
      simp only [List.nodup_append, List.nodup_cons, List.mem_append, List.mem_cons] at hnd ⊢
      grind
    obtain ⟨nd1, nd2, nd3⟩ := hndt
    have hpar : ∀ j, Mem j (node i k v hh s sub r) → up.par ≠ j + 1 := by
      intro j hj e
      have hj' := (mem_iff_ids' _ _).mp hj
      cases up with
      | top => simp [Ctx.par] at e
      | left q _ _ _ _ _ _ =>
        simp only [Ctx.par] at e
        have : q = j := by omega
        subst this; exact nd2 q (by simp [Ctx.ids]) hj'
      | right q _ _ _ _ _ _ =>
        simp only [Ctx.par] at e
        have : q = j := by omega
        subst this; exact nd2 q (by simp [Ctx.ids]) hj'
    cases fuel with
    | zero => simp [Ctx.depth] at hf
    | succ f =>
      simp only [Ctx.depth] at hf
      change ∃ h', Map.insertRebalance_loop (f + 1) h (i + 1) old = some h' ∧ _
      rw [Map.insertRebalance_loop]
      -- parent->updateHeightAndSlope()
      obtain ⟨u1, u2⟩ := upd_repr_frame h up.cell (h.get up.cell) up.par i k v hh s sub r ht nd1
      have g1 := get_upd h (h.get up.cell) up.cell
      rw [a6] at u1 u2 g1
      obtain ⟨h1, eh1⟩ : ∃ x, x = Map.updateHeightAndSlope h (i + 1) := ⟨_, rfl⟩
      rw [← eh1] at u1 u2 g1 ⊢
      clear eh1
      -- parent = rebal(parent)
      have hcell : up.cell = .right up.par → h1.left up.par ≠ h1.get up.cell := by
        intro e
        cases up with
        | top => simp [Ctx.cell] at e
        | left q _ _ _ _ _ _ => simp [Ctx.cell, Ctx.par] at e
        | right q qk qv qh qs ql upup =>
          simp only [Ctx.par]
          have hl : Repr h (h.left (q + 1)) (q + 1) ql := a8.2.2.2.2.2.2.1
          have hq : ∀ j', Mem j' (node i k v hh s sub r) → q + 1 ≠ j' + 1 := by
            intro j' hj' e2; have : q = j' := by omega
            subst this; exact nd2 q (by simp [Ctx.ids]) ((mem_iff_ids' _ _).mp hj')
          rw [u2.left (q + 1) hq (by simp [Ctx.cell]), g1]
          rcases repr_root hl with e0 | ⟨j, hj, e0⟩
          · omega
          · rw [e0]; intro e3
            have : j = i := by omega
            subst this
            exact nd2 j (by simp [Ctx.ids, (mem_iff_ids' _ _).mp hj]) (by simp [ids_node])
      have hd1 : Distinct (Tree.upd (node i k v hh s sub r)) := by
        rw [distinct_iff_nodup']; simp only [ids, inorder_upd]; exact nd1
      have hpar1 : ∀ j, Mem j (Tree.upd (node i k v hh s sub r)) → up.par ≠ j + 1 := by
        intro j hj
        apply hpar j
        rw [mem_iff_ids'] at hj ⊢
        simpa only [ids, inorder_upd] using hj
      rw [← g1] at u1
      obtain ⟨b1, b2, b3⟩ := rebal_repr h1 up.cell up.par _ (cellAt_ctx up) hcell hpar1 hd1 u1 (hok.1 rfl)
      rw [g1] at b1 b2 b3
      obtain ⟨hp, ehp⟩ : ∃ x, x = Map.rebal h1 (i + 1) := ⟨_, rfl⟩
      rw [← ehp] at b1 b2 b3 ⊢
      clear ehp
      obtain ⟨h2, p'⟩ := hp
      simp only at b1 b2 b3 ⊢
      have hn2 := rebal_upd_ne_nil i k v hh s sub r
      obtain ⟨f1, f2⟩ := repr_node_fields b1 hn2
      -- the context survives both steps
      have memeq : ∀ j, Mem j (Tree.upd (node i k v hh s sub r)) ↔ Mem j (node i k v hh s sub r) := by
        intro j; rw [mem_iff_ids', mem_iff_ids']; simp only [ids, inorder_upd]
      have c1 : ReprCtx h1 up := reprCtx_frame_hole up a8 u2 (fun j hj hm => nd2 j hj ((mem_iff_ids' _ _).mp hm)) nd3
      have c2 : ReprCtx h2 up := reprCtx_frame_hole up c1 b3
        (fun j hj hm => nd2 j hj ((mem_iff_ids' _ _).mp ((memeq j).mp hm))) nd3
      have kv : h2.key = h.key ∧ h2.value = h.value := ⟨by rw [b3.key, u2.key], by rw [b3.value, u2.value]⟩
      -- the model
      have hm : (Ctx.left i k v hh s r up).climb (sub, true) =
          up.climb (Tree.rebal (Tree.upd (node i k v hh s sub r)), (Tree.rebal (Tree.upd (node i k v hh s sub r))).ht != hh) := by
        simp [Ctx.climb, goL, fixup]
      rw [hm, a3, f1]
      by_cases e : hh = (Tree.rebal (Tree.upd (node i k v hh s sub r))).ht
      · rw [if_pos e]
        refine ⟨h2, rfl, ?_, kv⟩
        have : ((Tree.rebal (Tree.upd (node i k v hh s sub r))).ht != hh) = false := by simp [e.symm]
        rw [this, climb_false]
        exact repr_plug h2 up _ c2 (by rw [← b2]; exact b1)
      · rw [if_neg e]
        have hflag : ((Tree.rebal (Tree.upd (node i k v hh s sub r))).ht != hh) = true := by
          simp only [bne_iff_ne, ne_eq]; exact fun x => e x.symm
        rw [hflag, f2]
        by_cases e2 : up.par = 0
        · simp only [e2, ne_eq, not_true_eq_false, if_false]
          have : up = .top := (par_eq_zero up).mp e2
          subst this
          refine ⟨h2, rfl, ?_, kv⟩
          simp only [Ctx.climb]
          simp only [Ctx.cell, Ctx.par, Heap.get] at b1 b2
          rw [← b2]; exact b1
        · simp only [e2, ne_eq, not_false_eq_true, if_true]
          have hup : up ≠ .top := fun x => e2 ((par_eq_zero up).mpr x)
          have hok2 : ClimbOk up (Tree.rebal (Tree.upd (node i k v hh s sub r)), true) := by
            have := hok.2
            simp only [goL, fixup, if_true] at this
            rw [hflag] at this
            exact this
          obtain ⟨h', r1, r2, r3, r4⟩ := ih h2 (Tree.rebal (Tree.upd (node i k v hh s sub r))) f hh hup c2
            (by rw [← b2]; exact b1)
            (by rw [ids_rebal_upd]
                simp only [Ctx.ids, ids_node] at hnd ⊢
                simp only [List.nodup_append, List.nodup_cons, List.mem_append, List.mem_cons] at hnd ⊢
                grind)
            hok2 (by omega)
          exact ⟨h', r1, r2, by rw [r3, kv.1], by rw [r4, kv.2]⟩
  | right i k v hh s l up ih =>
    intro h sub fuel old _ hc hs hnd hok hf
    obtain ⟨a1, a2, a3, a4, a5, a6, a7, a8⟩ := hc
    simp only [Ctx.cell, Ctx.par, Heap.get] at hs
    have ht : Repr h (h.get up.cell) up.par (node i k v hh s l sub) := by
      rw [a6, repr_node_iff]; exact ⟨rfl, a1, a2, a5, a3, a4, a7, hs⟩
    -- the id bookkeeping
    have hndt : (ids (node i k v hh s l sub)).Nodup ∧ (∀ j ∈ up.ids, j ∉ ids (node i k v hh s l sub)) ∧ up.ids.Nodup := by
      simp only [Ctx.ids, ids_node] at hnd ⊢
      simp only [List.nodup_append, List.nodup_cons, List.mem_append, List.mem_cons] at hnd ⊢
      grind
    obtain ⟨nd1, nd2, nd3⟩ := hndt
    have hpar : ∀ j, Mem j (node i k v hh s l sub) → up.par ≠ j + 1 := by
      intro j hj e
      have hj' := (mem_iff_ids' _ _).mp hj
      cases up with
      | top => simp [Ctx.par] at e
      | left q _ _ _ _ _ _ =>
        simp only [Ctx.par] at e
        have : q = j := by omega
        subst this; exact nd2 q (by simp [Ctx.ids]) hj'
      | right q _ _ _ _ _ _ =>
        simp only [Ctx.par] at e
        have : q = j := by omega
        subst this; exact nd2 q (by simp [Ctx.ids]) hj'
    cases fuel with
    | zero => simp [Ctx.depth] at hf
    | succ f =>
      simp only [Ctx.depth] at hf
      change ∃ h', Map.insertRebalance_loop (f + 1) h (i + 1) old = some h' ∧ _
      rw [Map.insertRebalance_loop]
      -- parent->updateHeightAndSlope()
      obtain ⟨u1, u2⟩ := upd_repr_frame h up.cell (h.get up.cell) up.par i k v hh s l sub ht nd1
      have g1 := get_upd h (h.get up.cell) up.cell
      rw [a6] at u1 u2 g1
      obtain ⟨h1, eh1⟩ : ∃ x, x = Map.updateHeightAndSlope h (i + 1) := ⟨_, rfl⟩
      rw [← eh1] at u1 u2 g1 ⊢
      clear eh1
      -- parent = rebal(parent)
      have hcell : up.cell = .right up.par → h1.left up.par ≠ h1.get up.cell := by
        intro e
        cases up with
        | top => simp [Ctx.cell] at e
        | left q _ _ _ _ _ _ => simp [Ctx.cell, Ctx.par] at e
        | right q qk qv qh qs ql upup =>
          simp only [Ctx.par]
          have hl : Repr h (h.left (q + 1)) (q + 1) ql := a8.2.2.2.2.2.2.1
          have hq : ∀ j', Mem j' (node i k v hh s l sub) → q + 1 ≠ j' + 1 := by
            intro j' hj' e2; have : q = j' := by omega
            subst this; exact nd2 q (by simp [Ctx.ids]) ((mem_iff_ids' _ _).mp hj')
          rw [u2.left (q + 1) hq (by simp [Ctx.cell]), g1]
          rcases repr_root hl with e0 | ⟨j, hj, e0⟩
          · omega
          · rw [e0]; intro e3
            have : j = i := by omega
            subst this
            exact nd2 j (by simp [Ctx.ids, (mem_iff_ids' _ _).mp hj]) (by simp [ids_node])
      have hd1 : Distinct (Tree.upd (node i k v hh s l sub)) := by
        rw [distinct_iff_nodup']; simp only [ids, inorder_upd]; exact nd1
      have hpar1 : ∀ j, Mem j (Tree.upd (node i k v hh s l sub)) → up.par ≠ j + 1 := by
        intro j hj
        apply hpar j
        rw [mem_iff_ids'] at hj ⊢
        simpa only [ids, inorder_upd] using hj
      rw [← g1] at u1
      obtain ⟨b1, b2, b3⟩ := rebal_repr h1 up.cell up.par _ (cellAt_ctx up) hcell hpar1 hd1 u1 (hok.1 rfl)
      rw [g1] at b1 b2 b3
      obtain ⟨hp, ehp⟩ : ∃ x, x = Map.rebal h1 (i + 1) := ⟨_, rfl⟩
      rw [← ehp] at b1 b2 b3 ⊢
      clear ehp
      obtain ⟨h2, p'⟩ := hp
      simp only at b1 b2 b3 ⊢
      have hn2 := rebal_upd_ne_nil i k v hh s l sub
      obtain ⟨f1, f2⟩ := repr_node_fields b1 hn2
      -- the context survives both steps
      have memeq : ∀ j, Mem j (Tree.upd (node i k v hh s l sub)) ↔ Mem j (node i k v hh s l sub) := by
        intro j; rw [mem_iff_ids', mem_iff_ids']; simp only [ids, inorder_upd]
      have c1 : ReprCtx h1 up := reprCtx_frame_hole up a8 u2 (fun j hj hm => nd2 j hj ((mem_iff_ids' _ _).mp hm)) nd3
      have c2 : ReprCtx h2 up := reprCtx_frame_hole up c1 b3
        (fun j hj hm => nd2 j hj ((mem_iff_ids' _ _).mp ((memeq j).mp hm))) nd3
      have kv : h2.key = h.key ∧ h2.value = h.value := ⟨by rw [b3.key, u2.key], by rw [b3.value, u2.value]⟩
      -- the model
      have hm : (Ctx.right i k v hh s l up).climb (sub, true) =
          up.climb (Tree.rebal (Tree.upd (node i k v hh s l sub)), (Tree.rebal (Tree.upd (node i k v hh s l sub))).ht != hh) := by
        simp [Ctx.climb, goR, fixup]
      rw [hm, a3, f1]
      by_cases e : hh = (Tree.rebal (Tree.upd (node i k v hh s l sub))).ht
      · rw [if_pos e]
        refine ⟨h2, rfl, ?_, kv⟩
        have : ((Tree.rebal (Tree.upd (node i k v hh s l sub))).ht != hh) = false := by simp [e.symm]
        rw [this, climb_false]
        exact repr_plug h2 up _ c2 (by rw [← b2]; exact b1)
      · rw [if_neg e]
        have hflag : ((Tree.rebal (Tree.upd (node i k v hh s l sub))).ht != hh) = true := by
          simp only [bne_iff_ne, ne_eq]; exact fun x => e x.symm
        rw [hflag, f2]
        by_cases e2 : up.par = 0
        · simp only [e2, ne_eq, not_true_eq_false, if_false]
          have : up = .top := (par_eq_zero up).mp e2
          subst this
          refine ⟨h2, rfl, ?_, kv⟩
          simp only [Ctx.climb]
          simp only [Ctx.cell, Ctx.par, Heap.get] at b1 b2
          rw [← b2]; exact b1
        · simp only [e2, ne_eq, not_false_eq_true, if_true]
          have hup : up ≠ .top := fun x => e2 ((par_eq_zero up).mpr x)
          have hok2 : ClimbOk up (Tree.rebal (Tree.upd (node i k v hh s l sub)), true) := by
            have := hok.2
            simp only [goR, fixup, if_true] at this
            rw [hflag] at this
            exact this
          obtain ⟨h', r1, r2, r3, r4⟩ := ih h2 (Tree.rebal (Tree.upd (node i k v hh s l sub))) f hh hup c2
            (by rw [← b2]; exact b1)
            (by rw [ids_rebal_upd]
                simp only [Ctx.ids, ids_node] at hnd ⊢
                simp only [List.nodup_append, List.nodup_cons, List.mem_append, List.mem_cons] at hnd ⊢
                grind)
            hok2 (by omega)
          exact ⟨h', r1, r2, by rw [r3, kv.1], by rw [r4, kv.2]⟩


end Nstd.Avl
