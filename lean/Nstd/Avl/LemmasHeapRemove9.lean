import Nstd.Avl.PropsComp4
import Nstd.Avl.LemmasHeapRemove8
/-
  The end of `remove(it)` (list unlinking, `--_size`, free list) on a heap whose tree part already is the model's result.
-/
namespace Nstd.Avl
open Tree
open Nstd.Avl.Heap
open Nstd.Generated.AvlRot

theorem remove_tail_finish (multi : Bool) (s : St) (h h1 : Heap) (p i : Nat)
    (hreach : Reach multi s) (hr : ReprSt h s) (hp : p < s.size) (hoi : s.order[p]? = some i)
    (t2 : Repr h1 h1.root 0 (Tree.delIdx p s.t).1) (LS : ListSame h h1) :
    ∃ s' out, step s (.removeAt p) = some (s', out) ∧ out.ret = .it p ∧
      ReprSt (Map.removeTail h1 (i + 1)).1 s' ∧ (Map.removeTail h1 (i + 1)).1.endItem = h.endItem ∧
      (Map.removeTail h1 (i + 1)).2 = headPtr (Map.removeTail h1 (i + 1)).1 (s'.order.drop p) := by
  obtain ⟨hT, hO, hm⟩ := invs_reach hreach
  have hpl : p < s.order.length := by rw [hT.olen]; exact hp
  have hgi : s.order[p] = i := by
    have := List.getElem?_eq_getElem hpl; rw [hoi] at this; exact (Option.some.inj this).symm
  have hstep : step s (.removeAt p) = some (St.mk s.multi (Tree.delIdx p s.t).1 (s.order.eraseIdx p) (s.size - 1) (i :: s.free) s.blocks,
      Out.mk (.it p) 0) := by
    simp only [step, St.removeAt, hoi]
  refine ⟨_, _, hstep, rfl, ?_⟩
  have hsplit : s.order = s.order.take p ++ i :: s.order.drop (p + 1) := by
    rw [← hgi, List.getElem_cons_drop_succ_eq_drop hpl, List.take_append_drop]
  obtain ⟨pre, epre⟩ : ∃ pre, pre = s.order.take p := ⟨_, rfl⟩
  obtain ⟨post, epost⟩ : ∃ post, post = s.order.drop (p + 1) := ⟨_, rfl⟩
  rw [← epre, ← epost] at hsplit
  have herase : s.order.eraseIdx p = pre ++ post := by rw [List.eraseIdx_eq_take_drop_succ, epre, epost]
  have hprelen : pre.length = p := by rw [epre, List.length_take]; omega
  have hndt : (ids s.t).Nodup := (List.nodup_append.mp hO.nodup).1
  -- the list in h1
  have hd1 : DList h1 h1.beginItem 0 (pre ++ i :: post) := by
    rw [← hsplit, LS.beginItem]
    exact dlist_frame _ _ _ hr.list LS.endItem (fun j _ => ⟨by rw [LS.next], by rw [LS.prev]⟩) (by rw [LS.prev])
  have hndo : (pre ++ i :: post).Nodup := by rw [← hsplit, hO.order]; exact hndt
  have he1 : ∀ j ∈ pre ++ i :: post, j + 1 ≠ h1.endItem := by
    intro j hj; rw [LS.endItem]; exact hr.endSep j (Or.inl (by rw [hsplit]; exact hj))
  have hq := dlist_prevq (i :: post) pre _ _ hd1
  simp only [headPtr] at hq
  obtain ⟨pvx, dx⟩ := dlist_at (i :: post) pre _ _ hd1
  have hnxt : h1.next (i + 1) = headPtr h1 post := (dlist_head dx.2.2).1
  have hXp : i + 1 ≠ h1.prev (i + 1) := by
    rw [hq]
    cases hgl : pre.getLast? with
    | none => simp
    | some l' =>
      simp only
      intro e; have : i = l' := by omega
      have hlm : l' ∈ pre := List.mem_of_getLast? hgl
      exact (List.nodup_append.mp hndo).2.2 l' hlm i (by simp) this.symm
  obtain ⟨TO, tptr⟩ := removeTail_fields h1 (i + 1) hXp
  obtain ⟨h', eh'⟩ : ∃ y, y = (Map.removeTail h1 (i + 1)).1 := ⟨_, rfl⟩
  rw [← eh'] at TO
  have hdl := dlist_unlink i post TO.endItem TO.next TO.prev pre _ 0 hd1 hndo he1 (fun j _ => by omega)
  have hbegin : h'.beginItem = (if pre = [] then headPtr h1 post else h1.beginItem) := by
    rw [TO.beginItem, hq]
    cases pre with
    | nil => simp [hnxt]
    | cons b bs =>
      have : ∃ l', (b :: bs).getLast? = some l' := by
        cases hgl : (b :: bs).getLast? with
        | none => simp at hgl
        | some l' => exact ⟨l', rfl⟩
      obtain ⟨l', hl'⟩ := this
      rw [hl']; simp
  rw [← eh']
  refine ⟨⟨?_, ?_, ?_, ?_, ?_, ?_⟩, by rw [TO.endItem, LS.endItem], ?_⟩
  · show Repr h' h'.root 0 (Tree.delIdx p s.t).1
    rw [TO.root]
    exact repr_agree t2 (fun j _ => ⟨by rw [TO.key], by rw [TO.value], by rw [TO.parent], by rw [TO.height], by rw [TO.slope],
      by rw [TO.left], by rw [TO.right]⟩)
  · show DList h' h'.beginItem 0 (s.order.eraseIdx p)
    rw [herase, hbegin]; exact hdl
  · show h'.size = s.size - 1
    rw [TO.size, LS.size, hr.size]
  · show FreeRepr h' h'.freeItem (i :: s.free)
    rw [TO.freeItem]
    refine ⟨rfl, ?_⟩
    rw [TO.prevX, LS.freeItem]
    refine freeRepr_frame _ _ hr.free ?_
    intro j hj
    have hjo : j ∉ s.order := fun m => (List.nodup_append.mp hO.nodup).2.2 j (by rw [← hO.order]; exact m) j hj rfl
    have b1 : j + 1 ≠ i + 1 := by
      intro e; have : j = i := by omega
      exact hjo (by rw [hsplit, this]; simp)
    have b2 : j + 1 ≠ h1.next (i + 1) := by
      rw [hnxt]
      cases post with
      | nil => simp only [headPtr]; rw [LS.endItem]; exact hr.endSep j (Or.inr hj)
      | cons b bs => simp only [headPtr]; intro e; have : j = b := by omega
                     exact hjo (by rw [hsplit, this]; simp)
    rw [TO.prev _ b1, if_neg b2, LS.prev]
  · show h'.nblocks = s.blocks
    rw [TO.nblocks, LS.nblocks, hr.blocks]
  · intro j hj
    rw [TO.endItem, LS.endItem]
    rcases hj with e | e
    · exact hr.endSep j (Or.inl (List.mem_of_mem_eraseIdx e))
    · rcases List.mem_cons.mp e with e' | e'
      · rw [e']; exact hr.endSep i (Or.inl (by rw [hsplit]; simp))
      · exact hr.endSep j (Or.inr e')
  · show (Map.removeTail h1 (i + 1)).2 = headPtr h' ((s.order.eraseIdx p).drop p)
    rw [tptr, hnxt, herase, List.drop_left' hprelen]
    cases post <;> simp [headPtr, TO.endItem]

end Nstd.Avl
