import Nstd.Avl.LemmasHeapInsert6
/-
  Where the descent of the private insert ends, as a context of the tree (with the model's result along it), and the
  case that it ends at an item with the key (Map: the value is replaced).
-/
namespace Nstd.Avl
open Tree
open Nstd.Avl.Heap
open Nstd.Generated.AvlRot

/-- the Map descent that ends in an empty cell: that cell is the hole of a context of the tree; climbing it with the
    new item is what the model's `ins` does from the cell the descent was started in -/
theorem land_ctx2 (h : Heap) (k : Int) (id : Nat) (v : Int) : ∀ (t : Tree) (ctx0 : Ctx) (mc' : Option (Nat × Bool)),
    Tree.land k ctx0.mcell t = .leaf mc' → ReprCtx h ctx0 → Repr h (h.get ctx0.cell) ctx0.par t →
    ∃ ctx : Ctx, ctx.plug .nil = ctx0.plug t ∧ ctx.mcell = mc' ∧ ReprCtx h ctx ∧ h.get ctx.cell = 0 ∧
      ctx.climb (node id k v 1 0 nil nil, true) = ctx0.climb (Tree.ins id k v t) ∧ ctx.depth ≤ ctx0.depth + t.height := by
  intro t
  induction t with
  | nil =>
    intro ctx0 mc' hl hc hr
    simp only [Tree.land, Landing.leaf.injEq] at hl
    exact ⟨ctx0, rfl, hl, hc, hr, rfl, by simp [Tree.height]⟩
  | node i k' v' hh s l r ihl ihr =>
    intro ctx0 mc' hl hc hr
    rw [repr_node_iff] at hr
    obtain ⟨eP, kP, vP, pP, hP, sP, rL, rR⟩ := hr
    simp only [Tree.land] at hl
    by_cases h1 : k > k'
    · simp only [h1, if_true] at hl
      obtain ⟨ctx, a1, a2, a3, a4, a5, a6⟩ := ihr (Ctx.right i k' v' hh s l ctx0) mc' hl
        (by rw [eP] at kP vP pP hP sP rL; exact ⟨kP, vP, hP, sP, pP, eP, rL, hc⟩)
        (by rw [eP] at rR; exact rR)
      refine ⟨ctx, a1, a2, a3, a4, ?_, ?_⟩
      · rw [a5]; simp only [Ctx.climb, Tree.ins, h1, if_true]
      · simp only [Ctx.depth, Tree.height] at a6 ⊢; omega
    · simp only [h1, if_false] at hl
      by_cases h2 : k < k'
      · simp only [h2, if_true] at hl
        obtain ⟨ctx, a1, a2, a3, a4, a5, a6⟩ := ihl (Ctx.left i k' v' hh s r ctx0) mc' hl
          (by rw [eP] at kP vP pP hP sP rR; exact ⟨kP, vP, hP, sP, pP, eP, rR, hc⟩)
          (by rw [eP] at rL; exact rL)
        refine ⟨ctx, a1, a2, a3, a4, ?_, ?_⟩
        · rw [a5]; simp only [Ctx.climb, Tree.ins, h1, h2, if_true, if_false]
        · simp only [Ctx.depth, Tree.height] at a6 ⊢; omega
      · simp only [h2, if_false] at hl; cases hl

/-- the same for the MultiMap descent (`landM` / `insM`), which always ends in an empty cell -/
theorem landM_ctx2 (h : Heap) (k : Int) (id : Nat) (v : Int) : ∀ (t : Tree) (ctx0 : Ctx) (mc' : Option (Nat × Bool)),
    Tree.landM k ctx0.mcell t = .leaf mc' → ReprCtx h ctx0 → Repr h (h.get ctx0.cell) ctx0.par t →
    ∃ ctx : Ctx, ctx.plug .nil = ctx0.plug t ∧ ctx.mcell = mc' ∧ ReprCtx h ctx ∧ h.get ctx.cell = 0 ∧
      ctx.climb (node id k v 1 0 nil nil, true) = ctx0.climb (Tree.insM id k v t) ∧ ctx.depth ≤ ctx0.depth + t.height := by
  intro t
  induction t with
  | nil =>
    intro ctx0 mc' hl hc hr
    simp only [Tree.landM, Landing.leaf.injEq] at hl
    exact ⟨ctx0, rfl, hl, hc, hr, rfl, by simp [Tree.height]⟩
  | node i k' v' hh s l r ihl ihr =>
    intro ctx0 mc' hl hc hr
    rw [repr_node_iff] at hr
    obtain ⟨eP, kP, vP, pP, hP, sP, rL, rR⟩ := hr
    simp only [Tree.landM] at hl
    by_cases h2 : k < k'
    · simp only [h2, if_true] at hl
      obtain ⟨ctx, a1, a2, a3, a4, a5, a6⟩ := ihl (Ctx.left i k' v' hh s r ctx0) mc' hl
        (by rw [eP] at kP vP pP hP sP rR; exact ⟨kP, vP, hP, sP, pP, eP, rR, hc⟩)
        (by rw [eP] at rL; exact rL)
      refine ⟨ctx, a1, a2, a3, a4, ?_, ?_⟩
      · rw [a5]; simp only [Ctx.climb, Tree.insM, h2, if_true]
      · simp only [Ctx.depth, Tree.height] at a6 ⊢; omega
    · simp only [h2, if_false] at hl
      obtain ⟨ctx, a1, a2, a3, a4, a5, a6⟩ := ihr (Ctx.right i k' v' hh s l ctx0) mc' hl
        (by rw [eP] at kP vP pP hP sP rL; exact ⟨kP, vP, hP, sP, pP, eP, rL, hc⟩)
        (by rw [eP] at rR; exact rR)
      refine ⟨ctx, a1, a2, a3, a4, ?_, ?_⟩
      · rw [a5]; simp only [Ctx.climb, Tree.insM, h2, if_false]
      · simp only [Ctx.depth, Tree.height] at a6 ⊢; omega

theorem repr_setValue_other {h : Heap} {t : Tree} {p par : Nat} (i : Nat) (v : Int) (hr : Repr h p par t) (hi : i ∉ ids t) :
    Repr (h.setValue (i + 1) v) p par t := by
  refine repr_agree hr ?_
  intro j hj
  have : j ≠ i := by intro e; exact hi (e ▸ hj)
  exact ⟨rfl, by simp [Heap.setValue, upd1_apply, this], rfl, rfl, rfl, rfl, rfl⟩

/-- the Map descent that ends at the item with the key: `position->value = value` leaves the heap holding the tree the
    model's `ins` returns (same shape, value replaced, loop flag off) -/
theorem land_found_repr (h : Heap) (k : Int) (id : Nat) (v : Int) : ∀ (t : Tree) (mc : Option (Nat × Bool)) (p par i : Nat),
    Repr h p par t → (ids t).Nodup → Tree.land k mc t = .found i →
    Repr (h.setValue (i + 1) v) p par (Tree.ins id k v t).1 ∧ (Tree.ins id k v t).2 = false ∧ i ∈ ids t ∧
      ids (Tree.ins id k v t).1 = ids t := by
  intro t
  induction t with
  | nil => intro mc p par i _ _ hl; simp [Tree.land] at hl
  | node i' k' v' hh s l r ihl ihr =>
    intro mc p par i hr hnd hl
    rw [repr_node_iff] at hr
    obtain ⟨eP, kP, vP, pP, hP, sP, rL, rR⟩ := hr
    rw [ids_node, List.nodup_append] at hnd
    obtain ⟨n1, n2, n3⟩ := hnd
    obtain ⟨n4, n5⟩ := List.nodup_cons.mp n2
    simp only [Tree.land] at hl
    by_cases h1 : k > k'
    · simp only [h1, if_true] at hl
      obtain ⟨b1, b2, b3, b4⟩ := ihr _ _ _ _ rR n5 hl
      have hne : i ≠ i' := fun e => n4 (e ▸ b3)
      have hil : i ∉ ids l := fun m => n3 i m i (by simp [b3]) rfl
      have hpi : p ≠ i + 1 := by omega
      simp only [Tree.ins, h1, if_true, goR, b2, Bool.false_eq_true, if_false]
      refine ⟨?_, trivial, by simp [ids_node, b3], by simp [ids_node, b4]⟩
      rw [repr_node_iff]
      refine ⟨eP, kP, by simp [Heap.setValue, upd1_apply, hpi]; exact vP, pP, hP, sP, repr_setValue_other i v rL hil, b1⟩
    · simp only [h1, if_false] at hl
      by_cases h2 : k < k'
      · simp only [h2, if_true] at hl
        obtain ⟨b1, b2, b3, b4⟩ := ihl _ _ _ _ rL n1 hl
        have hne : i ≠ i' := fun e => n3 i b3 i' (by simp) e
        have hir : i ∉ ids r := fun m => n3 i b3 i (by simp [m]) rfl
        have hpi : p ≠ i + 1 := by omega
        simp only [Tree.ins, h1, h2, if_true, if_false, goL, b2, Bool.false_eq_true]
        refine ⟨?_, trivial, by simp [ids_node, b3], by simp [ids_node, b4]⟩
        rw [repr_node_iff]
        refine ⟨eP, kP, by simp [Heap.setValue, upd1_apply, hpi]; exact vP, pP, hP, sP, b1, repr_setValue_other i v rR hir⟩
      · simp only [h2, if_false, Landing.found.injEq] at hl
        subst hl
        have hil : i' ∉ ids l := fun m => n3 i' m i' (by simp) rfl
        simp only [Tree.ins, h1, h2, if_false]
        refine ⟨?_, trivial, by simp [ids_node], by simp [ids_node]⟩
        rw [repr_node_iff]
        refine ⟨eP, kP, by simp [Heap.setValue, upd1_apply, eP], pP, hP, sP, repr_setValue_other i' v rL hil,
          repr_setValue_other i' v rR n4⟩

end Nstd.Avl
