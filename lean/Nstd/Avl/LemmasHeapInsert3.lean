import Nstd.Avl.LemmasHeapInsert2
import Nstd.Avl.LemmasPool
/-
  The part of the private insert that links the new item (translated as `insertLeaf`): normal form (`leafOf`), and
  what it does to a heap that holds a context with an empty hole, the prev/next list and the free list.
-/
namespace Nstd.Avl
open Tree
open Nstd.Avl.Heap
open Nstd.Generated.AvlRot

/-- `new(item) Item(parent, key, value); freeItem = item->prev; *cell = item; ++_size;` -/
def linkNew (h : Heap) (cell : Cell) (par X : Nat) (k v : Int) : Heap :=
  let h := h.setKey X k
  let h := h.setValue X v
  let h := h.setParent X par
  let h := h.setLeft X 0
  let h := h.setRight X 0
  let h := h.setHeight X 1
  let h := h.setSlope X (0 : Int)
  let h := h.setFree (h.prev X)
  let h := h.set cell X
  h.setSize (h.size + 1)

/-- the first-item case -/
def linkFirst (h : Heap) (X : Nat) : Heap :=
  let h := h.setPrev X 0
  let h := h.setNext X h.beginItem
  let h := h.setBegin X
  h.setPrev h.endItem X

/-- what follows the allocation in the linking part of the private insert -/
def leafTail (fuel : Nat) (h : Heap) (c : Nat) (cell : Cell) (par X : Nat) (k v : Int) : Option (Heap × Nat × Nat) :=
  if par ≠ 0 then
    match Map.insertRebalance fuel (Map.insertThread (linkNew h cell par X k v) cell par X) par with
    | none => none
    | some h => some (h, X, c)
  else some (linkFirst (linkNew h cell par X k v) X, X, c)

/-- the linking part with a block size `n` -/
def leafOf (n : Nat) (fuel : Nat) (h : Heap) (c : Nat) (cell : Cell) (par : Nat) (k v : Int) : Option (Heap × Nat × Nat) :=
  if h.freeItem ≠ 0 then leafTail fuel h c cell par h.freeItem k v
  else leafTail fuel ((h.allocBlock n 0).1.setFree (h.allocBlock n 0).2) c cell par (h.allocBlock n 0).2 k v

theorem map_insertLeaf_eq (fuel : Nat) (h : Heap) (c : Nat) (cell : Cell) (par : Nat) (k v : Int) :
    Map.insertLeaf fuel h c cell par k v = leafOf (ipbOf false) fuel h c cell par k v := by
  unfold Map.insertLeaf leafOf leafTail linkNew linkFirst
  simp only [ipbOf, Nstd.Generated.Avl.itemsPerBlockMap, Bool.false_eq_true, if_false]
  by_cases h1 : h.freeItem ≠ 0
  · by_cases h2 : par ≠ 0
    · simp only [if_pos h1, if_pos h2]
      first
        | (generalize Map.insertRebalance fuel _ par = r; cases r <;> rfl)
        | rfl
    · simp only [if_pos h1, if_neg h2]
      try rfl
  · have h0 : h.freeItem = 0 := by omega
    by_cases h2 : par ≠ 0
    · simp only [if_neg h1, if_pos h2]
      try simp only [h0]
      try simp only [Heap.setFree]
      first
        | (generalize Map.insertRebalance fuel _ par = r; cases r <;> rfl)
        | rfl
    · simp only [if_neg h1, if_neg h2]
      try simp only [h0]
      try simp only [Heap.setFree]
      try rfl

theorem multi_insertRebalance : Multi.insertRebalance = Map.insertRebalance := by
  funext fuel h p
  unfold Multi.insertRebalance Map.insertRebalance
  simp only []
  induction fuel generalizing h p with
  | zero => rw [Multi.insertRebalance_loop, Map.insertRebalance_loop]
  | succ f ih => exact multi_insertLoop_aux (f + 1) h p 0
where
  multi_insertLoop_aux : ∀ (fuel : Nat) (h : Heap) (p old : Nat),
      Multi.insertRebalance_loop fuel h p old = Map.insertRebalance_loop fuel h p old := by
    intro fuel
    induction fuel with
    | zero => intro h p old; rw [Multi.insertRebalance_loop, Map.insertRebalance_loop]
    | succ f ih =>
      intro h p old
      rw [Multi.insertRebalance_loop, Map.insertRebalance_loop]
      simp only [multi_upd, multi_rebal, ih]

theorem multi_insertLeaf_eq (fuel : Nat) (h : Heap) (c : Nat) (cell : Cell) (par : Nat) (k v : Int) :
    Multi.insertLeaf fuel h c cell par k v = leafOf (ipbOf true) fuel h c cell par k v := by
  unfold Multi.insertLeaf leafOf leafTail linkNew linkFirst
  simp only [multi_insertRebalance, multi_insertThread, ipbOf, Nstd.Generated.Avl.itemsPerBlockMulti, if_true]
  by_cases h1 : h.freeItem ≠ 0
  · by_cases h2 : par ≠ 0
    · simp only [if_pos h1, if_pos h2]
      first
        | (generalize Map.insertRebalance fuel _ par = r; cases r <;> rfl)
        | rfl
    · simp only [if_pos h1, if_neg h2]
      try rfl
  · have h0 : h.freeItem = 0 := by omega
    by_cases h2 : par ≠ 0
    · simp only [if_neg h1, if_pos h2]
      try simp only [h0]
      try simp only [Heap.setFree]
      first
        | (generalize Map.insertRebalance fuel _ par = r; cases r <;> rfl)
        | rfl
    · simp only [if_neg h1, if_neg h2]
      try simp only [h0]
      try simp only [Heap.setFree]
      try rfl

end Nstd.Avl
