import Nstd.Avl.LemmasHeapThread
/-
  The neighbour tests of the hinted insert `insert(position, key, value)` (translated into Generated/AvlRot.lean as
  `insertHint`: every `return insert(&cell, parent, key, value)` became "start the private insert in that cell") against
  the decision of the model's `St.insertAt`.
-/
namespace Nstd.Avl
open Tree
open Nstd.Avl.Heap
open Nstd.Generated.AvlRot

/-- what `insert(position, key, value)` decides before it calls the private insert -/
inductive HintGo where
  | under (right : Bool) (idx : Nat) (hid : Nat) (c0 : Nat) : HintGo   -- `insert(&hint->left/right, hint, …)`
  | root (c0 : Nat) : HintGo                                            -- `insert(&root, 0, …)`
  | replace (idx : Nat) : HintGo                                        -- `insertPos->value = value`
deriving DecidableEq

/-- the decision of `St.insertAt` (Model.lean), separated from what is done with it -/
def hintGo (multi : Bool) (es : List (Nat × Int × Int)) (size p : Nat) (k : Int) : Option HintGo :=
  if p = size then
    match es.getLast? with
    | some (pi, pk, _) => if k > pk then some (.under true (size - 1) pi 1) else some (.root 1)
    | none => some (.root 0)
  else
    match es[p]? with
    | none => none
    | some (hi, hk, _) =>
      let prev := if p = 0 then none else es[p - 1]?
      let next := es[p + 1]?
      if multi then
        if k < hk then
          match prev with
          | none => some (.under false p hi 1)
          | some (_, pk, _) => if k ≥ pk then some (.under false p hi 2) else some (.root 2)
        else
          match next with
          | none => some (.under true p hi 1)
          | some (_, nk, _) => if k ≤ nk then some (.under true p hi 2) else some (.root 2)
      else
        if k < hk then
          match prev with
          | none => some (.under false p hi 1)
          | some (_, pk, _) => if k > pk then some (.under false p hi 2) else some (.root 2)
        else if k > hk then
          match next with
          | none => some (.under true p hi 2)
          | some (_, nk, _) => if k < nk then some (.under true p hi 3) else some (.root 3)
        else some (.replace p)

/-- `St.insertAt` is that decision followed by the private insert in the chosen cell -/
theorem insertAt_eq_hintGo (s : St) (p : Nat) (k v : Int) :
    s.insertAt p k v = (hintGo s.multi s.t.inorder s.size p k).map (fun g =>
      match g with
      | .under right idx hid c0 => s.insertUnder right idx hid k v c0
      | .root c0 => s.insertRoot k v c0
      | .replace idx => ({ s with t := setAt v idx s.t }, ⟨.it idx, 2⟩)) := by
  unfold St.insertAt hintGo
  simp only []
  repeat' split
  all_goals first | rfl | (exfalso; omega) | (simp_all; done) | (exfalso; simp_all; omega)

theorem getLast?_take_eq {α : Type} (es : List α) (p : Nat) (hp : p ≤ es.length) :
    (es.take p).getLast? = if p = 0 then none else es[p - 1]? := by
  cases p with
  | zero => simp
  | succ q =>
    simp only [Nat.succ_ne_zero, if_false, Nat.add_sub_cancel]
    rw [List.getLast?_eq_getElem?, List.length_take, Nat.min_eq_left hp, Nat.add_sub_cancel,
      List.getElem?_take_of_lt (by omega)]

/-- what the heap shows around the hint at in-order position `p` (`p = length`: the hint is `end()`) -/
theorem hint_view (h : Heap) (es : List (Nat × Int × Int)) (p : Nat)
    (hd : DList h h.beginItem 0 (es.map (fun e => e.1))) (hp : p ≤ es.length) :
    h.prev (headPtr h ((es.drop p).map (fun e => e.1))) =
      (match (if p = 0 then none else es[p - 1]?) with | none => 0 | some e' => e'.1 + 1) ∧
    (∀ e, es[p]? = some e → h.next (e.1 + 1) = headPtr h ((es.drop (p + 1)).map (fun e => e.1))) := by
  have hsplit : es.map (fun e => e.1) = (es.take p).map (fun e => e.1) ++ (es.drop p).map (fun e => e.1) := by
    rw [← List.map_append, List.take_append_drop]
  rw [hsplit] at hd
  constructor
  · have := dlist_prevq ((es.drop p).map (fun e => e.1)) ((es.take p).map (fun e => e.1)) _ _ hd
    rw [this, List.getLast?_map, getLast?_take_eq es p hp]
    cases (if p = 0 then none else es[p - 1]?) <;> rfl
  · intro e he
    have hlt : p < es.length := (List.getElem?_eq_some_iff.mp he).1
    have hdrop : es.drop p = e :: es.drop (p + 1) := by
      rw [List.drop_eq_getElem_cons hlt]; congr 1; exact (List.getElem?_eq_some_iff.mp he).2
    rw [hdrop, List.map_cons] at hd
    obtain ⟨pv', d⟩ := dlist_at _ _ _ _ hd
    exact (dlist_head d.2.2).1

/-- **the neighbour tests of `Map::insert(position, key, value)`** (Map.hpp:125-155), translated, decide what the model's
    `St.insertAt` decides (`hintGo`): in which cell the private insert is started (tag 1: under the hint / under the last
    item / at the root) or that the hint's value is replaced (tag 0), with the same number of key comparisons. -/
theorem map_insertHint_eq (h : Heap) (es : List (Nat × Int × Int)) (p : Nat) (k v : Int) (c : Nat)
    (hd : DList h h.beginItem 0 (es.map (fun e => e.1))) (hk : ∀ e ∈ es, h.key (e.1 + 1) = e.2.1)
    (he : ∀ e ∈ es, e.1 + 1 ≠ h.endItem) (hp : p ≤ es.length) :
    Map.insertHint h c (headPtr h ((es.drop p).map (fun e => e.1))) k v =
      (match hintGo false es es.length p k with
        | some (.under right _ hid c0) => (h, 1, hid + 1, cellOf (some (hid, right)), c + c0)
        | some (.root c0) => (h, 1, 0, Cell.root, c + c0)
        | some (.replace _) => (h.setValue (headPtr h ((es.drop p).map (fun e => e.1))) v, 0,
            headPtr h ((es.drop p).map (fun e => e.1)), Cell.root, c + 2)
        | none => (h, 1, 0, Cell.root, c)) := by
  obtain ⟨v1, v2⟩ := hint_view h es p hd hp
  unfold Map.insertHint hintGo
  simp only []
  by_cases hpe : p = es.length
  · subst hpe
    simp only [List.drop_length, List.map_nil, headPtr, if_true] at v1 ⊢
    rw [v1]
    have hl : (if es.length = 0 then none else es[es.length - 1]?) = es.getLast? := by
      rw [List.getLast?_eq_getElem?]
      cases es with
      | nil => rfl
      | cons a as => simp
    rw [hl]
    cases hgl : es.getLast? with
    | none => simp
    | some e =>
      obtain ⟨pi, pk, pv⟩ := e
      have hm : (pi, pk, pv) ∈ es := List.mem_of_getLast? hgl
      have hkey := hk _ hm
      simp only [ne_eq, Nat.add_eq_zero_iff, Nat.succ_ne_self, and_false, not_false_eq_true, if_true, hkey, cellOf]
      split <;> rfl
  · have hlt : p < es.length := by omega
    have hep : es[p]? = some es[p] := List.getElem?_eq_getElem hlt
    rcases hpv : es[p] with ⟨hi, hkk, hv⟩
    have hm : (hi, hkk, hv) ∈ es := by rw [← hpv]; exact List.getElem_mem hlt
    have hdrop : es.drop p = (hi, hkk, hv) :: es.drop (p + 1) := by
      rw [List.drop_eq_getElem_cons hlt, hpv]
    rw [hpv] at hep
    have hnext := v2 _ hep
    simp only [hdrop, List.map_cons, headPtr] at v1 ⊢
    have hne := he _ hm
    have hkey := hk _ hm
    simp only [hne, hpe, if_false, hep, hkey, v1, hnext, Bool.false_eq_true]
    -- the neighbours
    have hprev : ∀ e', (if p = 0 then none else es[p - 1]?) = some e' → h.key (e'.1 + 1) = e'.2.1 := by
      intro e' h1
      by_cases h0 : p = 0
      · simp [h0] at h1
      · simp only [h0, if_false] at h1; exact hk _ (List.mem_of_getElem? h1)
    have hnx : ∀ e', es[p + 1]? = some e' → h.key (e'.1 + 1) = e'.2.1 ∧ e'.1 + 1 ≠ h.endItem :=
      fun e' h1 => ⟨hk _ (List.mem_of_getElem? h1), he _ (List.mem_of_getElem? h1)⟩
    have hdn : headPtr h ((es.drop (p + 1)).map (fun e => e.1)) =
        (match es[p + 1]? with | none => h.endItem | some e' => e'.1 + 1) := by
      cases hx : es[p + 1]? with
      | none =>
        have : es.drop (p + 1) = [] := List.drop_eq_nil_of_le (by
          have := List.getElem?_eq_none_iff.mp hx; omega)
        simp [this, headPtr]
      | some e' =>
        have hlt2 : p + 1 < es.length := (List.getElem?_eq_some_iff.mp hx).1
        rw [List.drop_eq_getElem_cons hlt2]
        simp [headPtr, (List.getElem?_eq_some_iff.mp hx).2]
    rw [hdn]
    generalize (if p = 0 then none else es[p - 1]?) = prev at hprev ⊢
    generalize es[p + 1]? = next at hnx ⊢
    by_cases c1 : k < hkk
    · have c1' : ¬ k > hkk := by omega
      cases prev with
      | none => simp [c1, cellOf]
      | some pe =>
        have hpk := hprev pe rfl
        by_cases c3 : k > pe.2.1
        · simp [c1, c3, hpk, cellOf]
        · simp [c1, c3, hpk, cellOf]
    · by_cases c2 : k > hkk
      · cases next with
        | none => simp [c1, c2, cellOf]
        | some ne =>
          have := hnx ne rfl
          by_cases c3 : k < ne.2.1
          · simp [c1, c2, c3, this.1, this.2, cellOf]
          · simp [c1, c2, c3, this.1, this.2, cellOf]
      · simp [c1, c2]
/-- **the neighbour tests of `MultiMap::insert(position, key, value)`** (`>=` / `<=` towards the neighbours, no replacement) -/
theorem multi_insertHint_eq (h : Heap) (es : List (Nat × Int × Int)) (p : Nat) (k v : Int) (c : Nat)
    (hd : DList h h.beginItem 0 (es.map (fun e => e.1))) (hk : ∀ e ∈ es, h.key (e.1 + 1) = e.2.1)
    (he : ∀ e ∈ es, e.1 + 1 ≠ h.endItem) (hp : p ≤ es.length) :
    Multi.insertHint h c (headPtr h ((es.drop p).map (fun e => e.1))) k v =
      (match hintGo true es es.length p k with
        | some (.under right _ hid c0) => (1, hid + 1, cellOf (some (hid, right)), c + c0)
        | some (.root c0) => (1, 0, Cell.root, c + c0)
        | _ => (1, 0, Cell.root, c)) := by
  obtain ⟨v1, v2⟩ := hint_view h es p hd hp
  unfold Multi.insertHint hintGo
  simp only []
  by_cases hpe : p = es.length
  · subst hpe
    simp only [List.drop_length, List.map_nil, headPtr, if_true] at v1 ⊢
    rw [v1]
    have hl : (if es.length = 0 then none else es[es.length - 1]?) = es.getLast? := by
      rw [List.getLast?_eq_getElem?]
      cases es with
      | nil => rfl
      | cons a as => simp
    rw [hl]
    cases hgl : es.getLast? with
    | none => simp
    | some e =>
      obtain ⟨pi, pk, pv⟩ := e
      have hm : (pi, pk, pv) ∈ es := List.mem_of_getLast? hgl
      have hkey := hk _ hm
      simp only [ne_eq, Nat.add_eq_zero_iff, Nat.succ_ne_self, and_false, not_false_eq_true, if_true, hkey, cellOf]
      split <;> rfl
  · have hlt : p < es.length := by omega
    have hep : es[p]? = some es[p] := List.getElem?_eq_getElem hlt
    rcases hpv : es[p] with ⟨hi, hkk, hv⟩
    have hm : (hi, hkk, hv) ∈ es := by rw [← hpv]; exact List.getElem_mem hlt
    have hdrop : es.drop p = (hi, hkk, hv) :: es.drop (p + 1) := by
      rw [List.drop_eq_getElem_cons hlt, hpv]
    rw [hpv] at hep
    have hnext := v2 _ hep
    simp only [hdrop, List.map_cons, headPtr] at v1 ⊢
    have hne := he _ hm
    have hkey := hk _ hm
    simp only [hne, hpe, if_false, if_true, hep, hkey, v1, hnext]
    -- the neighbours
    have hprev : ∀ e', (if p = 0 then none else es[p - 1]?) = some e' → h.key (e'.1 + 1) = e'.2.1 := by
      intro e' h1
      by_cases h0 : p = 0
      · simp [h0] at h1
      · simp only [h0, if_false] at h1; exact hk _ (List.mem_of_getElem? h1)
    have hnx : ∀ e', es[p + 1]? = some e' → h.key (e'.1 + 1) = e'.2.1 ∧ e'.1 + 1 ≠ h.endItem :=
      fun e' h1 => ⟨hk _ (List.mem_of_getElem? h1), he _ (List.mem_of_getElem? h1)⟩
    have hdn : headPtr h ((es.drop (p + 1)).map (fun e => e.1)) =
        (match es[p + 1]? with | none => h.endItem | some e' => e'.1 + 1) := by
      cases hx : es[p + 1]? with
      | none =>
        have : es.drop (p + 1) = [] := List.drop_eq_nil_of_le (by
          have := List.getElem?_eq_none_iff.mp hx; omega)
        simp [this, headPtr]
      | some e' =>
        have hlt2 : p + 1 < es.length := (List.getElem?_eq_some_iff.mp hx).1
        rw [List.drop_eq_getElem_cons hlt2]
        simp [headPtr, (List.getElem?_eq_some_iff.mp hx).2]
    rw [hdn]
    generalize (if p = 0 then none else es[p - 1]?) = prev at hprev ⊢
    generalize es[p + 1]? = next at hnx ⊢
    by_cases c1 : k < hkk
    · cases prev with
      | none => simp [c1, cellOf]
      | some pe =>
        have hpk := hprev pe rfl
        by_cases c3 : k ≥ pe.2.1
        · simp [c1, c3, hpk, cellOf]
        · simp [c1, c3, hpk, cellOf]
    · cases next with
      | none => simp [c1, cellOf]
      | some ne =>
        have := hnx ne rfl
        by_cases c3 : k ≤ ne.2.1
        · simp [c1, c3, this.1, this.2, cellOf]
        · simp [c1, c3, this.1, this.2, cellOf]


end Nstd.Avl
