import Nstd.Avl.PropsComp2
import Nstd.Avl.LemmasHeapRemove3
/-
  Property C01 — tie by translation, composed (continued): `remove(it)`.

  tools/gen_avl.py translates the COMPLETE `remove(const Iterator&)` of the current headers into one function `remove`
  (the labels `rebalParent:` / `rebalParentUpwards:` are continuations: the `rebalParent` do-while loop = `removeRebal`, the
  `rebalParentUpwards` while loop = `removeUpwards`, the statements behind it = `removeTail`).  Proved here: for an item
  without left or without right child the complete function is the model's `step s (removeAt p)` — tree (`delIdx` with
  the climb and its early exit), prev/next list, `_size`, free list, returned iterator.  The two-children paths are proved in PropsComp5.lean.
-/
namespace Nstd.Avl
open Tree
open Nstd.Avl.Heap
open Nstd.Generated.AvlRot

/-- the item at in-order position `p`, with the context it hangs in -/
theorem ctx_of_pos (h : Heap) : ∀ (t : Tree) (up : Ctx) (p : Nat), p < t.size → ReprCtx h up →
    Repr h (h.get up.cell) up.par t →
    ∃ (ctx : Ctx) (i : Nat) (k v : Int) (hh : Nat) (s : Int) (l r : Tree),
      ctx.plug (node i k v hh s l r) = up.plug t ∧ ReprCtx h ctx ∧ Repr h (h.get ctx.cell) ctx.par (node i k v hh s l r) ∧
      (ids t)[p]? = some i ∧ ctx.pos l.size = up.pos p ∧ Tree.subAt false p t = l ∧ Tree.subAt true p t = r ∧
      ctx.depth < up.depth + t.height := by
  intro t
  induction t with
  | nil => intro up p hp; simp [Tree.size] at hp
  | node i k v hh s l r ihl ihr =>
    intro up p hp hc hr
    have hr0 := hr
    rw [repr_node_iff] at hr
    obtain ⟨eP, kP, vP, pP, hP, sP, rL, rR⟩ := hr
    rw [eP] at kP vP pP hP sP rL rR
    have hll := ids_len l
    by_cases h1 : p < l.size
    · obtain ⟨ctx, i', k', v', hh', s', l', r', a1, a2, a3, a4, a5, a6, a7, a8⟩ :=
        ihl (Ctx.left i k v hh s r up) p h1 ⟨kP, vP, hP, sP, pP, eP, rR, hc⟩ rL
      refine ⟨ctx, i', k', v', hh', s', l', r', a1, a2, a3, ?_, a5, ?_, ?_, ?_⟩
      · rw [ids_node, List.getElem?_append_left (by omega)]; exact a4
      · simp only [Tree.subAt, h1, if_true]; exact a6
      · simp only [Tree.subAt, h1, if_true]; exact a7
      · simp only [Ctx.depth, Tree.height] at a8 ⊢; omega
    · by_cases h2 : p = l.size
      · subst h2
        refine ⟨up, i, k, v, hh, s, l, r, rfl, hc, hr0, ?_, rfl, ?_, ?_, ?_⟩
        · rw [ids_node, List.getElem?_append_right (by omega)]; simp [hll]
        · simp [Tree.subAt]
        · simp [Tree.subAt]
        · simp only [Tree.height]; omega
      · simp only [Tree.size] at hp
        obtain ⟨ctx, i', k', v', hh', s', l', r', a1, a2, a3, a4, a5, a6, a7, a8⟩ :=
          ihr (Ctx.right i k v hh s l up) (p - l.size - 1) (by omega) ⟨kP, vP, hP, sP, pP, eP, rL, hc⟩ rR
        refine ⟨ctx, i', k', v', hh', s', l', r', a1, a2, a3, ?_, ?_, ?_, ?_, ?_⟩
        · rw [ids_node, List.getElem?_append_right (by omega), hll]
          have : p - l.size = (p - l.size - 1) + 1 := by omega
          rw [this, List.getElem?_cons_succ]; exact a4
        · rw [a5]; simp only [Ctx.pos]; congr 1; omega
        · simp only [Tree.subAt, h1, h2, if_false]; exact a6
        · simp only [Tree.subAt, h1, h2, if_false]; exact a7
        · simp only [Ctx.depth, Tree.height] at a8 ⊢; omega

/-- **`remove(it)` of an item without left or without right child, complete, by translation** (Map.hpp): cell computation,
    relinking of the only child, the `rebalParentUpwards` loop with its early exit, unlinking from the prev/next list,
    `--_size`, push onto the free list, `return item->next`.  For every reachable state, every heap that represents it and
    every position `p < size` whose item has an empty left or right cell: the translated `remove` terminates and leaves a
    heap that represents the model's `step s (removeAt p)`; the returned pointer is the item now at position `p` (or the
    sentinel). -/
theorem gen_remove_trivial_map_eq_step (multi : Bool) (s : St) (h : Heap) (p fuel : Nat)
    (hreach : Reach multi s) (hr : ReprSt h s) (hp : p < s.size) (hf : s.t.height < fuel)
    (htriv : Tree.subAt false p s.t = .nil ∨ Tree.subAt true p s.t = .nil) :
    ∃ s' out, step s (.removeAt p) = some (s', out) ∧ out.ret = .it p ∧
    ∃ h' ptr, Map.remove fuel h (headPtr h (s.order.drop p)) = some (h', ptr) ∧ ReprSt h' s' ∧
      h'.endItem = h.endItem ∧ ptr = headPtr h' (s'.order.drop p) := by
  obtain ⟨hT, hO, hm⟩ := invs_reach hreach
  have hps : p < s.t.size := by rw [← hT.size]; exact hp
  obtain ⟨ctx, i, k, v, hh, sl, l, r, a1, a2, a3, a4, a5, a6, a7, a8⟩ := ctx_of_pos h s.t .top p hps trivial hr.tree
  simp only [Ctx.plug, Ctx.pos, Ctx.depth] at a1 a5 a8
  rw [a6, a7] at htriv
  have hoi : s.order[p]? = some i := by rw [hO.order]; exact a4
  have hpl : p < s.order.length := by rw [hT.olen]; exact hp
  have hgi : s.order[p] = i := by
    have := List.getElem?_eq_getElem hpl; rw [hoi] at this; exact (Option.some.inj this).symm
  -- the model
  have hstep : step s (.removeAt p) = some (St.mk s.multi (Tree.delIdx p s.t).1 (s.order.eraseIdx p) (s.size - 1) (i :: s.free) s.blocks,
      Out.mk (.it p) 0) := by
    simp only [step, St.removeAt, hoi]
  refine ⟨_, _, hstep, rfl, ?_⟩
  -- the list around the item
  have hsplit : s.order = s.order.take p ++ i :: s.order.drop (p + 1) := by
    rw [← hgi, List.getElem_cons_drop_succ_eq_drop hpl, List.take_append_drop]
  obtain ⟨pre, epre⟩ : ∃ pre, pre = s.order.take p := ⟨_, rfl⟩
  obtain ⟨post, epost⟩ : ∃ post, post = s.order.drop (p + 1) := ⟨_, rfl⟩
  rw [← epre, ← epost] at hsplit
  have hdrop : s.order.drop p = i :: post := by rw [epost, ← hgi]; exact (List.getElem_cons_drop_succ_eq_drop hpl).symm
  have herase : s.order.eraseIdx p = pre ++ post := by rw [List.eraseIdx_eq_take_drop_succ, epre, epost]
  have hprelen : pre.length = p := by rw [epre, List.length_take]; omega
  rw [hdrop]
  have hX : headPtr h (i :: post) = i + 1 := rfl
  rw [hX]
  have hgc : h.get ctx.cell = i + 1 := a3.1
  -- ids
  have hndt : (ids s.t).Nodup := (List.nodup_append.mp hO.nodup).1
  have hperm := ids_plug_perm ctx (node i k v hh sl l r)
  rw [a1] at hperm
  have hnd : (ids (node i k v hh sl l r) ++ ctx.ids).Nodup := hperm.nodup_iff.mp hndt
  have hcell : ctx.cell = .right ctx.par → h.left ctx.par ≠ h.get ctx.cell := by
    intro e
    cases ctx with
    | top => simp [Ctx.cell] at e
    | left q _ _ _ _ _ _ => simp [Ctx.cell, Ctx.par] at e
    | right q qk qv qh qs ql upup =>
      simp only [Ctx.par]
      have hl : Repr h (h.left (q + 1)) (q + 1) ql := a2.2.2.2.2.2.2.1
      rw [hgc]
      rcases repr_root hl with e0 | ⟨j, hj, e0⟩
      · omega
      · rw [e0]; intro e3
        have : j = i := by omega
        subst this
        exact (List.nodup_append.mp hnd).2.2 j (by simp [ids_node]) j
          (by simp [Ctx.ids, (mem_iff_ids' _ _).mp hj]) rfl
  have hsep : Sep ctx.par (node i k v hh sl l r) := by
    refine ⟨(List.nodup_append.mp hnd).1, ?_⟩
    intro j hj e
    cases ctx with
    | top => simp [Ctx.par] at e
    | left q _ _ _ _ _ _ =>
      simp only [Ctx.par] at e
      have : q = j := by omega
      subst this; exact (List.nodup_append.mp hnd).2.2 q hj q (by simp [Ctx.ids]) rfl
    | right q _ _ _ _ _ _ =>
      simp only [Ctx.par] at e
      have : q = j := by omega
      subst this; exact (List.nodup_append.mp hnd).2.2 q hj q (by simp [Ctx.ids]) rfl
  -- head
  obtain ⟨g1, g2, _⟩ := gen_remove_head_eq_model false h ctx.cell ctx.par i k v hh sl l r (cellAt_ctx ctx) hcell hsep a3
  simp only [Bool.false_eq_true, if_false] at g1 g2
  obtain ⟨g3, _, _⟩ := g2 htriv
  rw [hgc] at g1 g3
  rw [map_remove_trivial fuel h (i + 1) g3]
  -- rebalParentUpwards
  have T := gen_remove_trivial_eq_model false ctx h i k v hh sl l r fuel 0 htriv a2 a3 hcell hnd (by rw [a1]; exact hT.avl) (by omega)
  simp only [Bool.false_eq_true, if_false, removeUpLoop] at T
  rw [hgc] at T
  obtain ⟨h1, t1, t2⟩ := T
  have t1' : Map.removeUpwards fuel (Map.removeHead h (i + 1)).1 (Map.removeHead h (i + 1)).2.1 = some h1 := t1
  rw [t1']
  simp only
  rw [a1, a5] at t2
  have LS := listSame_trans (listSame_removeHead h (i + 1)) (listSame_removeUp _ _ _ _ _ t1)
  -- the list in h1
  have hd1 : DList h1 h1.beginItem 0 (pre ++ i :: post) := by
    rw [← hsplit, LS.beginItem]
    exact dlist_frame _ _ _ hr.list LS.endItem (fun j _ => ⟨by rw [LS.next], by rw [LS.prev]⟩) (by rw [LS.prev])
  have hndo : (pre ++ i :: post).Nodup := by rw [← hsplit, hO.order]; exact hndt
  have he1 : ∀ j ∈ pre ++ i :: post, j + 1 ≠ h1.endItem := by
    intro j hj; rw [LS.endItem]; exact hr.endSep j (Or.inl (by rw [hsplit]; exact hj))
  have hq := dlist_prevq (i :: post) pre _ _ hd1
  simp only [headPtr] at hq
  obtain ⟨pvx, dx⟩ := dlist_at (i :: post) pre _ _ hd1
  have hnxt : h1.next (i + 1) = headPtr h1 post := (dlist_head dx.2.2).1
  have hXp : i + 1 ≠ h1.prev (i + 1) := by
    rw [hq]
    cases hgl : pre.getLast? with
    | none => simp
    | some l' =>
      simp only
      intro e; have : i = l' := by omega
      have hlm : l' ∈ pre := List.mem_of_getLast? hgl
      exact (List.nodup_append.mp hndo).2.2 l' hlm i (by simp) this.symm
  obtain ⟨TO, tptr⟩ := removeTail_fields h1 (i + 1) hXp
  obtain ⟨h', eh'⟩ : ∃ y, y = (Map.removeTail h1 (i + 1)).1 := ⟨_, rfl⟩
  rw [← eh'] at TO
  have hdl := dlist_unlink i post TO.endItem TO.next TO.prev pre _ 0 hd1 hndo he1 (fun j _ => by omega)
  have hbegin : h'.beginItem = (if pre = [] then headPtr h1 post else h1.beginItem) := by
    rw [TO.beginItem, hq]
    cases pre with
    | nil => simp [hnxt]
    | cons b bs =>
      have : ∃ l', (b :: bs).getLast? = some l' := by
        cases hgl : (b :: bs).getLast? with
        | none => simp at hgl
        | some l' => exact ⟨l', rfl⟩
      obtain ⟨l', hl'⟩ := this
      rw [hl']; simp
  refine ⟨h', (Map.removeTail h1 (i + 1)).2, by rw [eh'], ⟨?_, ?_, ?_, ?_, ?_, ?_⟩, by rw [TO.endItem, LS.endItem], ?_⟩
  · show Repr h' h'.root 0 (Tree.delIdx p s.t).1
    rw [TO.root]
    exact repr_agree t2 (fun j _ => ⟨by rw [TO.key], by rw [TO.value], by rw [TO.parent], by rw [TO.height], by rw [TO.slope],
      by rw [TO.left], by rw [TO.right]⟩)
  · show DList h' h'.beginItem 0 (s.order.eraseIdx p)
    rw [herase, hbegin]; exact hdl
  · show h'.size = s.size - 1
    rw [TO.size, LS.size, hr.size]
  · show FreeRepr h' h'.freeItem (i :: s.free)
    rw [TO.freeItem]
    refine ⟨rfl, ?_⟩
    rw [TO.prevX, LS.freeItem]
    refine freeRepr_frame _ _ hr.free ?_
    intro j hj
    have hjo : j ∉ s.order := fun m => (List.nodup_append.mp hO.nodup).2.2 j (by rw [← hO.order]; exact m) j hj rfl
    have b1 : j + 1 ≠ i + 1 := by
      intro e; have : j = i := by omega
      exact hjo (by rw [hsplit, this]; simp)
    have b2 : j + 1 ≠ h1.next (i + 1) := by
      rw [hnxt]
      cases post with
      | nil => simp only [headPtr]; rw [LS.endItem]; exact hr.endSep j (Or.inr hj)
      | cons b bs => simp only [headPtr]; intro e; have : j = b := by omega
                     exact hjo (by rw [hsplit, this]; simp)
    rw [TO.prev _ b1, if_neg b2, LS.prev]
  · show h'.nblocks = s.blocks
    rw [TO.nblocks, LS.nblocks, hr.blocks]
  · intro j hj
    rw [TO.endItem, LS.endItem]
    rcases hj with e | e
    · exact hr.endSep j (Or.inl (List.mem_of_mem_eraseIdx e))
    · rcases List.mem_cons.mp e with e' | e'
      · rw [e']; exact hr.endSep i (Or.inl (by rw [hsplit]; simp))
      · exact hr.endSep j (Or.inr e')
  · show (Map.removeTail h1 (i + 1)).2 = headPtr h' ((s.order.eraseIdx p).drop p)
    rw [tptr, hnxt, herase, List.drop_left' hprelen]
    cases post <;> simp [headPtr, TO.endItem]

theorem multi_removeRebal_loop : ∀ (fuel : Nat) (h : Heap) (c : Cell) (o p old : Nat),
    Multi.removeRebal_loop fuel h c o p old = Map.removeRebal_loop fuel h c o p old := by
  intro fuel
  induction fuel with
  | zero => intro h c o p old; rw [Multi.removeRebal_loop, Map.removeRebal_loop]
  | succ f ih =>
    intro h c o p old
    rw [Multi.removeRebal_loop, Map.removeRebal_loop]
    simp only [multi_upd, multi_rebal, ih]

theorem multi_removeTail : Multi.removeTail = Map.removeTail := by
  first
  | rfl
  | (funext h x; simp only [Multi.removeTail, Map.removeTail]; done)
  | (funext h x; simp only [Multi.removeTail, Map.removeTail]; grind)

theorem multi_remove : Multi.remove = Map.remove := by
  funext fuel h it
  unfold Multi.remove Map.remove Multi.removeRebal Map.removeRebal Multi.removeUpwards Map.removeUpwards
  simp only [multi_removeRebal_loop, multi_removeUp, multi_removeTail]

/-- the translated `remove(const Iterator&)` of one header -/
def removeCode (multi : Bool) : Nat → Heap → Nat → Option (Heap × Nat) := if multi then Multi.remove else Map.remove

/-- **`remove(it)` of an item without left or without right child, both containers** (the MultiMap.hpp copy of `remove` is
    proved equal to the Map.hpp one: `multi_remove`). -/
theorem gen_remove_trivial_eq_step (multi : Bool) (s : St) (h : Heap) (p fuel : Nat)
    (hreach : Reach multi s) (hr : ReprSt h s) (hp : p < s.size) (hf : s.t.height < fuel)
    (htriv : Tree.subAt false p s.t = .nil ∨ Tree.subAt true p s.t = .nil) :
    ∃ s' out, step s (.removeAt p) = some (s', out) ∧ out.ret = .it p ∧
    ∃ h' ptr, removeCode multi fuel h (headPtr h (s.order.drop p)) = some (h', ptr) ∧ ReprSt h' s' ∧
      h'.endItem = h.endItem ∧ ptr = headPtr h' (s'.order.drop p) := by
  have := gen_remove_trivial_map_eq_step multi s h p fuel hreach hr hp hf htriv
  cases multi with
  | false => exact this
  | true => simp only [removeCode, if_true, multi_remove]; exact this

/-- non-vacuity: insert 7 and 9 with the translated code, remove the first (it has no left child): one item is left, the
    removed one heads the free list, the iterator returned is the remaining item -/
example : ∃ h1 p1 h2 p2 h3 q, Map.insertPlain 5 emptyHeap 0 7 70 = some (h1, p1, 0) ∧ Map.insertPlain 5 h1 0 9 90 = some (h2, p2, 1) ∧
    Map.remove 5 h2 p1 = some (h3, q) ∧ q = p2 ∧ h3.root = p2 ∧ h3.size = 1 ∧ h3.freeItem = p1 ∧ h3.beginItem = p2 ∧
    h3.height p2 = 1 ∧ h3.parent p2 = 0 :=
  ⟨_, _, _, _, _, _, rfl, rfl, rfl, rfl, rfl, rfl, rfl, rfl, rfl, rfl⟩

/-
The two-children paths of `remove(it)` are closed in PropsComp5.lean (`gen_remove_eq_step`, `gen_remove_key_eq_step`); the one-line
bodies `contains` / `removeFront` / `removeBack` / `remove(key)` in PropsComp4.lean / PropsComp5.lean.
OPEN: the copy loops of the copy constructor / `operator=` / `insert(const Map&)` run over a second container (two heaps) and are
not translated; each `insert` they call is covered by `gen_insert_plain_eq_model` / `gen_insert_at_eq_model`.
-/

end Nstd.Avl
