import Nstd.Avl.LemmasBal
/-
  The height bound: an AVL tree of height h has at least fib(h+2)-1 nodes, and
  fib(h+2) ≥ 1.618^h, hence  h ≤ 1.4405·log2(n+2)  (stated without reals).  Core Lean only.
-/
namespace Nstd.Avl
namespace Tree

def fib : Nat → Nat
  | 0 => 0
  | 1 => 1
  | n+2 => fib (n+1) + fib n

theorem fib_mono_step (n : Nat) : fib n ≤ fib (n+1) := by
  induction n using Nat.strongRecOn with
  | _ n ih =>
    match n with
    | 0 => simp [fib]
    | 1 => simp [fib]
    | n+2 => simp only [fib]; omega

/-- an AVL tree of height h has at least fib(h+2)-1 nodes -/
theorem height_fib (t : Tree) (hA : Avl t) : fib (t.height + 2) ≤ t.size + 1 := by
  induction t with
  | nil => simp [fib]
  | node i k v h s l r ihl ihr =>
    rw [avl_node] at hA
    obtain ⟨hl, hr, hh, hs, hs1, hs2⟩ := hA
    have il := ihl hl
    have ir := ihr hr
    simp only [height_node, size_node]
    rcases Nat.lt_trichotomy l.height r.height with hlt | heq | hgt
    · have e : r.height = l.height + 1 := by omega
      have hm : max l.height r.height = l.height + 1 := by omega
      rw [e] at ir
      rw [hm]
      have : fib (l.height + 1 + 1 + 2) = fib (l.height + 1 + 2) + fib (l.height + 2) := by simp [fib]
      omega
    · have hm : max l.height r.height = l.height := by omega
      rw [← heq] at ir
      rw [hm]
      have h1 : fib (l.height + 1 + 2) = fib (l.height + 2) + fib (l.height + 1) := by simp [fib]
      have h2 : fib (l.height + 1) ≤ fib (l.height + 2) := fib_mono_step (l.height + 1)
      omega
    · have e : l.height = r.height + 1 := by omega
      have hm : max l.height r.height = r.height + 1 := by omega
      rw [e] at il
      rw [hm]
      have : fib (r.height + 1 + 1 + 2) = fib (r.height + 1 + 2) + fib (r.height + 2) := by simp [fib]
      omega

theorem fib_lower (h : Nat) : 809^h ≤ 500^h * fib (h+2) := by
  induction h using Nat.strongRecOn with
  | _ h ih =>
    match h with
    | 0 => simp [fib]
    | 1 => simp [fib]
    | h+2 =>
      have h1 := ih (h+1) (by omega)
      have h0 := ih h (by omega)
      have e : fib (h+2+2) = fib (h+1+2) + fib (h+2) := by simp [fib]
      rw [e]
      generalize fib (h+1+2) = F1 at *
      generalize fib (h+2) = F0 at *
      have p2 : 809^(h+2) = 654481 * 809^h := by
        rw [Nat.pow_succ, Nat.pow_succ]; generalize 809^h = C; omega
      have p1 : 809^(h+1) = 809 * 809^h := by
        rw [Nat.pow_succ]; generalize 809^h = C; omega
      have e2 : 500^(h+2) = 250000 * 500^h := by
        rw [Nat.pow_succ, Nat.pow_succ]; generalize 500^h = P; omega
      have e1 : 500^(h+1) = 500 * 500^h := by
        rw [Nat.pow_succ]; generalize 500^h = P; omega
      rw [p2, e2]
      rw [p1, e1] at h1
      generalize 500^h = P at *
      generalize 809^h = C at *
      have q1 : 500 * P * F1 = 500 * (P * F1) := Nat.mul_assoc _ _ _
      have q2 : 250000 * P * (F1 + F0) = 250000 * (P * F1) + 250000 * (P * F0) := by
        rw [Nat.mul_assoc, Nat.mul_add, Nat.mul_add]
      rw [q1] at h1
      rw [q2]
      generalize P * F1 = A at *
      generalize P * F0 = B at *
      omega

set_option exponentiation.threshold 20000 in
theorem num_fact : 2^10000 * 500^14405 ≤ 809^14405 := by decide +kernel

set_option exponentiation.threshold 20000 in
/-- `height ≤ 1.4405 · log2 (n+2)` in integer form: `2^(h/1.4405) ≤ n+2`. -/
theorem height_log (t : Tree) (hA : Avl t) : 2^(10000 * t.height) ≤ (t.size + 2)^14405 := by
  have h1 := height_fib t hA
  have h2 := fib_lower t.height
  generalize t.height = h at *
  generalize t.size = n at *
  have h3 : 809^h ≤ 500^h * (n + 2) := by
    calc 809^h ≤ 500^h * fib (h+2) := h2
      _ ≤ 500^h * (n + 2) := Nat.mul_le_mul_left _ (by omega)
  have h4 : (809^h)^14405 ≤ (500^h * (n+2))^14405 := Nat.pow_le_pow_left h3 _
  have h5 : (2^10000 * 500^14405)^h ≤ (809^14405)^h := Nat.pow_le_pow_left num_fact _
  have e1 : (809^14405)^h = (809^h)^14405 := by rw [← Nat.pow_mul, ← Nat.pow_mul, Nat.mul_comm]
  have e2 : (2^10000 * 500^14405)^h = 2^(10000*h) * 500^(14405*h) := by
    rw [Nat.mul_pow, ← Nat.pow_mul, ← Nat.pow_mul]
  have e3 : (500^h * (n+2))^14405 = (n+2)^14405 * 500^(14405*h) := by
    rw [Nat.mul_pow, ← Nat.pow_mul, Nat.mul_comm h 14405, Nat.mul_comm]
  have h6 : 2^(10000*h) * 500^(14405*h) ≤ (n+2)^14405 * 500^(14405*h) := by
    rw [← e2, ← e3]; rw [e1] at h5; exact Nat.le_trans h5 h4
  exact Nat.le_of_mul_le_mul_right h6 (Nat.pow_pos (by omega))

end Tree
end Nstd.Avl
