import Nstd.Avl.LemmasHeapInsert8
/-
  Property C01 — tie by translation, composed: the COMPLETE private insert and the public plain insert.

  tools/gen_avl.py translates, besides the pieces of PropsRot.lean, the part of the private `insert(cell, parent, key, value)`
  that links the new item (`insertLeaf`: `Item* item = freeItem;`, the block allocation — recognised as a unit —, `new(item)
  Item(parent, key, value)` as the stores of the constructor's initialiser list read from `struct Item`, `freeItem = item->prev`,
  `*cell = item`, `++_size`, the first-item case, the threading and the upward loop — the last two by calling the
  fragments `insertThread` / `insertRebalance` cut from the same text), and composes `insertPrivate` (descent, then the
  linking part in the cell the descent reached) and `insertPlain` (`insert(key, value)`: the private insert at `&root`).

  `ReprSt h s`: heap `h` represents the model state `s` — `root` holds `s.t` (every stored field, child and parent link),
  `_begin.item` / `next` / `prev` / the sentinel thread `s.order`, `_size = s.size`, `freeItem` heads `s.free` chained through
  `prev`, `s.blocks` blocks have been allocated, the sentinel is no pool item.
-/
namespace Nstd.Avl
open Tree
open Nstd.Avl.Heap
open Nstd.Generated.AvlRot

theorem get_congr {h h' : Heap} (c : Cell) (hl : h'.left = h.left) (hr : h'.right = h.right) (ho : h'.root = h.root) :
    h'.get c = h.get c := by
  cases c <;> simp only [Heap.get, hl, hr, ho]

/-- the linking part of the private insert on a heap that represents `s`, in the empty cell that is the hole of `ctx`:
    it takes the item `St.alloc` names, and leaves a heap that represents the state with the item climbed in from that
    cell, threaded beside its parent, counted, and taken off the free list -/
theorem leaf_step (s : St) (h : Heap) (ctx : Ctx) (k v : Int) (c fuel : Nat) (mk : Nat → Tree)
    (hA : Avl s.t) (hO : InvO s) (hr : ReprSt h s)
    (hfresh : s.free = [] → ∀ j, ipbOf s.multi * s.blocks ≤ j → j < ipbOf s.multi * (s.blocks + 1) → j + 1 ≠ h.endItem)
    (hplug : ctx.plug .nil = s.t) (hc : ReprCtx h ctx) (he : h.get ctx.cell = 0) (hf : ctx.depth ≤ fuel)
    (hmk : (ctx.climb (node s.alloc.1 k v 1 0 nil nil, true)).1 = mk s.alloc.1) :
    ∃ h', leafOf (ipbOf s.multi) fuel h c ctx.cell ctx.par k v = some (h', s.alloc.1 + 1, c) ∧
      ReprSt h' { s.alloc.2 with t := mk s.alloc.1, order := threadIn s.order s.alloc.1 ctx.mcell, size := s.size + 1 } ∧
      h'.endItem = h.endItem := by
  obtain ⟨h0, e0, a1, a2, a3, a4, a5, a6, a7, a8, a9, a10, a11, a12, a13, a14, a15, a16, a17, a18⟩ := alloc_heap s h hr hO hfresh
  obtain ⟨sp1, sp2⟩ := alloc_spec s hO
  have hord : s.order = ids (ctx.plug .nil) := by rw [hplug]; exact hO.order
  have hperm := ids_plug_perm ctx .nil
  have hndc : ctx.ids.Nodup := by
    have : (ids (ctx.plug .nil)).Nodup := by
      rw [hplug]; exact (List.nodup_append.mp hO.nodup).1
    have := hperm.nodup_iff.mp this
    simpa [ids, Tree.inorder] using this
  have hc0 : ReprCtx h0 ctx := by
    refine reprCtx_agree ctx hc ?_ ?_ ?_ (fun _ => a8) hndc
    · intro j _; exact ⟨by rw [a1], by rw [a2], by rw [a3], by rw [a6], by rw [a7]⟩
    · intro j _ _; rw [a4]
    · intro j _ _; rw [a5]
  have he0 : h0.get ctx.cell = 0 := by rw [get_congr ctx.cell a4 a5 a8]; exact he
  have hd0 : DList h0 h0.beginItem 0 (ids (ctx.plug .nil)) := by
    rw [a10, ← hord]
    exact dlist_frame _ _ _ hr.list a11 (fun j hj => ⟨by rw [a9], a13 j hj⟩) a14
  have hnd0 : (s.alloc.1 :: ids (ctx.plug .nil)).Nodup := by
    rw [hplug]
    rw [List.nodup_cons] at sp1 ⊢
    exact ⟨fun m => sp1.1 (List.mem_append_left _ m), (List.nodup_append.mp sp1.2).1⟩
  have hrest : ∀ j ∈ s.alloc.2.free, j ≠ s.alloc.1 ∧ j ∉ ids (ctx.plug .nil) := by
    intro j hj
    rw [hplug]
    rw [List.nodup_cons] at sp1
    refine ⟨fun e => sp1.1 (e ▸ List.mem_append_right _ hj), fun m => ?_⟩
    exact (List.nodup_append.mp sp1.2).2.2 j m j hj rfl
  have hend0 : ∀ j, j = s.alloc.1 ∨ j ∈ ids (ctx.plug .nil) ∨ j ∈ s.alloc.2.free → j + 1 ≠ h0.endItem := by
    intro j hj
    rw [a11]
    rcases hj with e | e | e
    · rw [e]; exact a18
    · exact hr.endSep j (Or.inl (by rw [hord]; exact e))
    · exact a17 j e
  obtain ⟨h', r1, r2, r3, r4, r5, r6, r7, _, _⟩ := leafTail_spec ctx h0 s.alloc.1 k v c fuel s.alloc.2.free hc0 he0 hd0 hnd0 hend0
    a15 hrest (by rw [hplug]; exact hA) hf
  refine ⟨h', by rw [e0]; exact r1, ⟨by rw [← hmk]; exact r2, by rw [hord]; exact r3, by rw [r4, a12, hr.size], r5,
    by rw [r6]; exact a16, ?_⟩, by rw [r7, a11]⟩
  intro j hj
  rw [r7]
  apply hend0 j
  rcases hj with e | e
  · have := (threadIn_perm s.order s.alloc.1 ctx.mcell).mem_iff.mp e
    rcases List.mem_cons.mp this with e' | e'
    · exact Or.inl e'
    · exact Or.inr (Or.inl (by rw [← hord]; exact e'))
  · exact Or.inr (Or.inr e)

/-- the hypothesis on the memory layout: the sentinel `endItem` (a member of the container) does not lie inside the block
    the pool allocates next -/
def EndOutsideNextBlock (h : Heap) (s : St) : Prop :=
  s.free = [] → ∀ j, ipbOf s.multi * s.blocks ≤ j → j < ipbOf s.multi * (s.blocks + 1) → j + 1 ≠ h.endItem

/-- **The complete private `Map::insert(cell, parent, key, value)`** of the current Map.hpp — descent, allocation,
    construction, linking, threading, upward loop, as composed by the translator — started in a cell `ctx0.cell` that holds
    the subtree `t` of the tree of a state `s` the heap represents: it leaves a heap that represents the model's
    `St.insertIn` (the tree with `ins` climbed in from that cell, the list with the new item threaded beside its parent,
    `_size`, the free list), returns the item at the returned position, after `insCmps` key comparisons. -/
theorem gen_insert_private_map_eq_model (s : St) (h : Heap) (ctx0 : Ctx) (t : Tree) (k v : Int) (c c0 fuel : Nat)
    (hm : s.multi = false) (hA : Avl s.t) (hO : InvO s) (hr : ReprSt h s) (hfresh : EndOutsideNextBlock h s)
    (hplug : ctx0.plug t = s.t) (hc0 : ReprCtx h ctx0) (ht : Repr h (h.get ctx0.cell) ctx0.par t)
    (hf : ctx0.depth + t.height < fuel) :
    let r := s.insertIn k ctx0.mcell t (fun id => (ctx0.climb (Tree.ins id k v t)).1) c0
    ∃ h' p, Map.insertPrivate fuel h c ctx0.cell ctx0.par k v = some (h', p, c + Tree.insCmps k t) ∧
      r.2.cmps = c0 + Tree.insCmps k t ∧ ReprSt h' r.1 ∧
      h'.endItem = h.endItem ∧ ∃ q i, r.2.ret = .it q ∧ r.1.order[q]? = some i ∧ p = i + 1 := by
  intro r
  obtain ⟨ce, pe⟩ := cellOf_mcell ctx0
  have hnd : (ids s.t).Nodup := (List.nodup_append.mp hO.nodup).1
  have hpermt := ids_plug_perm ctx0 t
  rw [hplug] at hpermt
  have hndt : (ids t ++ ctx0.ids).Nodup := hpermt.nodup_iff.mp hnd
  unfold Map.insertPrivate
  rw [← ce, ← pe, gen_insert_descend_map_eq_model h k v t ctx0.mcell c fuel (by rw [ce, pe]; exact ht) (by omega)]
  have hr_def : r = s.insertIn k ctx0.mcell t (fun id => (ctx0.climb (Tree.ins id k v t)).1) c0 := rfl
  unfold St.insertIn at hr_def
  simp only [hm, Bool.false_eq_true, if_false] at hr_def
  cases hl : Tree.land k ctx0.mcell t with
  | found i =>
    rw [hl] at hr_def
    simp only at hr_def ⊢
    obtain ⟨b1, b2, b3, b4⟩ := land_found_repr h k 0 v t ctx0.mcell _ _ i ht (List.nodup_append.mp hndt).1 hl
    have his : i ∈ ids s.t := hpermt.mem_iff.mpr (List.mem_append_left _ b3)
    have hic : ∀ j ∈ ctx0.ids, j + 1 ≠ i + 1 := by
      intro j hj e; have : i = j := by omega
      exact (List.nodup_append.mp hndt).2.2 i b3 j hj this
    refine ⟨h.setValue (i + 1) v, i + 1, by simp, by rw [hr_def], ?_, rfl, idxOf i s.order, i, ?_, ?_, rfl⟩
    · rw [hr_def]
      refine ⟨?_, ?_, hr.size, freeRepr_frame _ _ hr.free (fun _ _ => rfl), hr.blocks, hr.endSep⟩
      · show Repr (h.setValue (i + 1) v) h.root 0 (ctx0.climb (Tree.ins 0 k v t)).1
        have : Tree.ins 0 k v t = ((Tree.ins 0 k v t).1, false) := by rw [← b2]
        rw [this, climb_false]
        refine repr_plug _ ctx0 _ ?_ ?_
        · refine reprCtx_agree ctx0 hc0 ?_ (fun _ _ _ => rfl) (fun _ _ _ => rfl) (fun _ => rfl)
            (List.nodup_append.mp hndt).2.1
          intro j hj
          have := hic j hj
          exact ⟨rfl, by simp [Heap.setValue, upd1_apply]; omega, rfl, rfl, rfl⟩
        · rw [get_congr (h := h) (h' := h.setValue (i + 1) v) ctx0.cell rfl rfl rfl]; exact b1
      · exact dlist_frame _ _ _ hr.list rfl (fun _ _ => ⟨rfl, rfl⟩) rfl
    · rw [hr_def]
    · rw [hr_def]; exact getElem_idxOf i s.order (by rw [hO.order]; exact his)
  | leaf mc' =>
    rw [hl] at hr_def
    simp only at hr_def ⊢
    obtain ⟨ctx, g1, g2, g3, g4, g5, g6⟩ := land_ctx2 h k s.alloc.1 v t ctx0 mc' hl hc0 ht
    obtain ⟨cce, cpe⟩ := cellOf_mcell ctx
    rw [← g2, cce, cpe, map_insertLeaf_eq]
    have hle := leaf_step s h ctx k v (c + Tree.insCmps k t) fuel (fun id => (ctx0.climb (Tree.ins id k v t)).1) hA hO hr hfresh
      (by rw [g1, hplug]) g3 g4 (by omega) (by rw [g5])
    rw [hm] at hle
    obtain ⟨h', l1, l2, l3⟩ := hle
    simp only [Nat.succ_ne_zero, if_false, show (1 : Nat) ≠ 0 from by omega]
    refine ⟨h', s.alloc.1 + 1, l1, by rw [hr_def], ?_, l3, idxOf s.alloc.1 (threadIn s.order s.alloc.1 mc'), s.alloc.1, ?_, ?_, rfl⟩
    · rw [hr_def, ← g2]; exact l2
    · rw [hr_def]
    · rw [hr_def]; exact getElem_idxOf _ _ (mem_threadIn _ _ _)

/-- **The complete private `MultiMap::insert(cell, parent, key, value)`** of the current MultiMap.hpp: the same with the
    MultiMap descent (`insM`, one `<` per level, never ends at an existing item). -/
theorem gen_insert_private_multi_eq_model (s : St) (h : Heap) (ctx0 : Ctx) (t : Tree) (k v : Int) (c c0 fuel : Nat)
    (hm : s.multi = true) (hA : Avl s.t) (hO : InvO s) (hr : ReprSt h s) (hfresh : EndOutsideNextBlock h s)
    (hplug : ctx0.plug t = s.t) (hc0 : ReprCtx h ctx0) (ht : Repr h (h.get ctx0.cell) ctx0.par t)
    (hf : ctx0.depth + t.height < fuel) :
    let r := s.insertIn k ctx0.mcell t (fun id => (ctx0.climb (Tree.insM id k v t)).1) c0
    ∃ h' p, Multi.insertPrivate fuel h c ctx0.cell ctx0.par k v = some (h', p, c + Tree.insMCmps k t) ∧
      r.2.cmps = c0 + Tree.insMCmps k t ∧ ReprSt h' r.1 ∧
      h'.endItem = h.endItem ∧ ∃ q i, r.2.ret = .it q ∧ r.1.order[q]? = some i ∧ p = i + 1 := by
  intro r
  obtain ⟨ce, pe⟩ := cellOf_mcell ctx0
  unfold Multi.insertPrivate
  obtain ⟨mc', hl, hdesc⟩ := gen_insert_descend_multi_eq_model h k v t ctx0.mcell c fuel (by rw [ce, pe]; exact ht) (by omega)
  rw [← ce, ← pe, hdesc]
  have hr_def : r = s.insertIn k ctx0.mcell t (fun id => (ctx0.climb (Tree.insM id k v t)).1) c0 := rfl
  unfold St.insertIn at hr_def
  simp only [hm, if_true] at hr_def
  rw [hl] at hr_def
  simp only at hr_def ⊢
  obtain ⟨ctx, g1, g2, g3, g4, g5, g6⟩ := landM_ctx2 h k s.alloc.1 v t ctx0 mc' hl hc0 ht
  obtain ⟨cce, cpe⟩ := cellOf_mcell ctx
  rw [← g2, cce, cpe, multi_insertLeaf_eq]
  have hle := leaf_step s h ctx k v (c + Tree.insMCmps k t) fuel (fun id => (ctx0.climb (Tree.insM id k v t)).1) hA hO hr hfresh
    (by rw [g1, hplug]) g3 g4 (by omega) (by rw [g5])
  rw [hm] at hle
  obtain ⟨h', l1, l2, l3⟩ := hle
  simp only [show (1 : Nat) ≠ 0 from by omega, if_false]
  refine ⟨h', s.alloc.1 + 1, l1, by rw [hr_def], ?_, l3, idxOf s.alloc.1 (threadIn s.order s.alloc.1 mc'), s.alloc.1, ?_, ?_, rfl⟩
  · rw [hr_def, ← g2]; exact l2
  · rw [hr_def]
  · rw [hr_def]; exact getElem_idxOf _ _ (mem_threadIn _ _ _)

/-- the translated `insert(key, value)` of one header -/
def insertPlainCode (multi : Bool) : Nat → Heap → Nat → Int → Int → Option (Heap × Nat × Nat) :=
  if multi then Multi.insertPlain else Map.insertPlain

/-- **`Map::insert(key, value)` / `MultiMap::insert(key, value)`, complete, by translation.**  For every state `s` reachable
    in the model and every heap that represents it: the code of the CURRENT header (public insert → private insert at
    `&root`: descent, allocation from the free list or a fresh block, construction, linking into the cell, `++_size`,
    first-item case or threading + upward loop with its early exit), run with `height + 1` units of fuel, terminates,
    leaves a heap that represents the state the model's `step s (insert k v)` yields — tree with every stored field and
    link, prev/next list, `_size`, free list, block count —, makes exactly the model's number of key comparisons and
    returns the pointer to the item at the position the model returns. -/
theorem gen_insert_plain_eq_model (multi : Bool) (s : St) (h : Heap) (k v : Int) (c fuel : Nat)
    (hreach : Reach multi s) (hr : ReprSt h s) (hfresh : EndOutsideNextBlock h s) (hf : s.t.height < fuel) :
    ∃ s' out, step s (.insert k v) = some (s', out) ∧
    ∃ h' p, insertPlainCode multi fuel h c k v = some (h', p, c + out.cmps) ∧ ReprSt h' s' ∧ h'.endItem = h.endItem ∧
      ∃ q i, out.ret = .it q ∧ s'.order[q]? = some i ∧ p = i + 1 := by
  obtain ⟨hT, hO, hm⟩ := invs_reach hreach
  refine ⟨(s.insertRoot k v 0).1, (s.insertRoot k v 0).2, rfl, ?_⟩
  have hroot : Repr h (h.get Ctx.top.cell) Ctx.top.par s.t := hr.tree
  cases multi with
  | false =>
    have := gen_insert_private_map_eq_model s h .top s.t k v c 0 fuel hm hT.avl hO hr hfresh rfl trivial hroot
      (by simp only [Ctx.depth]; omega)
    simp only [Ctx.climb, Ctx.mcell, Ctx.cell, Ctx.par] at this
    have e : s.insertRoot k v 0 = s.insertIn k none s.t (fun id => (Tree.ins id k v s.t).1) 0 := by
      unfold St.insertRoot St.insSub; simp only [hm, Bool.false_eq_true, if_false]
    rw [e]
    obtain ⟨h', p, w1, w2, w3⟩ := this
    exact ⟨h', p, by rw [w2, Nat.zero_add]; exact w1, w3⟩
  | true =>
    have := gen_insert_private_multi_eq_model s h .top s.t k v c 0 fuel hm hT.avl hO hr hfresh rfl trivial hroot
      (by simp only [Ctx.depth]; omega)
    simp only [Ctx.climb, Ctx.mcell, Ctx.cell, Ctx.par] at this
    have e : s.insertRoot k v 0 = s.insertIn k none s.t (fun id => (Tree.insM id k v s.t).1) 0 := by
      unfold St.insertRoot St.insSub; simp only [hm, if_true]
    rw [e]
    obtain ⟨h', p, w1, w2, w3⟩ := this
    exact ⟨h', p, by rw [w2, Nat.zero_add]; exact w1, w3⟩

theorem ids_getElem?_of_inorder {t : Tree} {idx : Nat} {e : Nat × Int × Int} (he : t.inorder[idx]? = some e) :
    (ids t)[idx]? = some e.1 := by
  simp [ids, List.getElem?_map, he]

/-- **`Map::insert(position, key, value)`, complete, by translation**: the neighbour tests of the current Map.hpp, then the
    complete private insert in the cell they choose (under the hint on the left / right, under the last item, or at the
    root), or the replacement of the hint's value.  For every reachable Map state `s`, every heap that represents it and
    every iterator position `p ≤ size` (`p = size`: `end()`): the translated code terminates, leaves a heap that represents
    the model's `step s (insertAt p k v)`, makes exactly the model's number of key comparisons and returns the item at
    the returned position. -/
theorem gen_insert_at_map_eq_model (s : St) (h : Heap) (p : Nat) (k v : Int) (c fuel : Nat)
    (hreach : Reach false s) (hr : ReprSt h s) (hfresh : EndOutsideNextBlock h s) (hp : p ≤ s.size) (hf : s.t.height < fuel) :
    ∃ s' out, step s (.insertAt p k v) = some (s', out) ∧
    ∃ h' ptr, Map.insertAt fuel h c (headPtr h (s.order.drop p)) k v = some (h', ptr, c + out.cmps) ∧ ReprSt h' s' ∧
      h'.endItem = h.endItem ∧ ∃ q i, out.ret = .it q ∧ s'.order[q]? = some i ∧ ptr = i + 1 := by
  obtain ⟨hT, hO, hm⟩ := invs_reach hreach
  have hsz : s.size = s.t.inorder.length := by rw [hT.size, size_eq_length]
  have hord : s.order = s.t.inorder.map (fun e => e.1) := hO.order
  have hstep : step s (.insertAt p k v) = s.insertAt p k v := by simp [step, hp]
  rw [hstep, insertAt_is_hintGo]
  have hH := gen_insert_hint_map_eq_model h s.t.inorder p k v c (by rw [← hord]; exact hr.list) (repr_keys hr.tree)
    (fun e he => hr.endSep e.1 (Or.inl (by rw [hord]; exact List.mem_map_of_mem he))) (by omega)
  have hH' : hintGo false s.t.inorder s.t.inorder.length p k = hintGo s.multi s.t.inorder s.size p k := by rw [hm, hsz]
  rw [hH'] at hH
  have hptr : headPtr h (s.order.drop p) = headPtr h ((s.t.inorder.drop p).map (fun e => e.1)) := by
    rw [hord, List.map_drop]
  unfold Map.insertAt
  rw [hptr, hH]
  cases hg0 : hintGo s.multi s.t.inorder s.size p k with
  | none => rw [← hH'] at hg0; exact absurd hg0 (hintGo_some _ _ _ _ (by omega))
  | some g =>
    have hg : hintGo false s.t.inorder s.t.inorder.length p k = some g := by rw [hH']; exact hg0
    cases g with
    | under right idx hid c0 =>
      obtain ⟨e, he1, he2⟩ := hintGo_under _ _ _ _ _ _ _ _ hg
      have hidx : idx < s.t.size := by
        rw [size_eq_length]; exact (List.getElem?_eq_some_iff.mp he1).1
      obtain ⟨ctx0, hid', a1, a2, a3, a4, a5, a6, a7⟩ := ctx_of_idx h right s.t .top idx hidx trivial hr.tree
      have : hid' = hid := by
        rw [ids_getElem?_of_inorder he1, he2] at a5; exact (Option.some.inj a5).symm
      subst this
      obtain ⟨ce, pe⟩ := cellOf_mcell ctx0
      rw [a4] at ce pe
      have P := gen_insert_private_map_eq_model s h ctx0 (Tree.subAt right idx s.t) k v (c + c0) c0 fuel hm hT.avl hO hr hfresh a1 a2 a3
        (by simp only [Ctx.depth] at a7; omega)
      have em : s.insertIn k ctx0.mcell (Tree.subAt right idx s.t) (fun id => (ctx0.climb (Tree.ins id k v (Tree.subAt right idx s.t))).1) c0
          = s.insertUnder right idx hid' k v c0 := by
        unfold St.insertUnder St.insSub
        rw [a4]; simp only [hm, Bool.false_eq_true, if_false]
        congr 1
        funext id
        rw [a6 (Tree.ins id k v)]; rfl
      rw [em, ← ce, ← pe] at P
      obtain ⟨h', ptr, w1, w2, w3⟩ := P
      refine ⟨_, _, rfl, h', ptr, ?_, w3⟩
      show Map.insertPrivate fuel h (c + c0) (cellOf (some (hid', right))) (hid' + 1) k v =
        some (h', ptr, c + (s.insertUnder right idx hid' k v c0).2.cmps)
      rw [w2, ← Nat.add_assoc]; exact w1
    | root c0 =>
      have P := gen_insert_private_map_eq_model s h .top s.t k v (c + c0) c0 fuel hm hT.avl hO hr hfresh rfl trivial hr.tree
        (by simp only [Ctx.depth]; omega)
      have em : s.insertIn k Ctx.top.mcell s.t (fun id => (Ctx.top.climb (Tree.ins id k v s.t)).1) c0 = s.insertRoot k v c0 := by
        unfold St.insertRoot St.insSub; simp only [hm, Bool.false_eq_true, if_false]; rfl
      rw [em] at P
      obtain ⟨h', ptr, w1, w2, w3⟩ := P
      refine ⟨_, _, rfl, h', ptr, ?_, w3⟩
      show Map.insertPrivate fuel h (c + c0) Cell.root 0 k v = some (h', ptr, c + (s.insertRoot k v c0).2.cmps)
      rw [w2, ← Nat.add_assoc]; exact w1
    | replace idx =>
      obtain ⟨_, e1, e, he1, he2⟩ := hintGo_replace _ _ _ _ _ hg
      subst e1
      have hi := ids_getElem?_of_inorder he1
      have hdrop : headPtr h (List.map (fun e => e.1) (List.drop idx s.t.inorder)) = e.1 + 1 := by
        rw [List.drop_eq_getElem_cons (List.getElem?_eq_some_iff.mp he1).1, (List.getElem?_eq_some_iff.mp he1).2]; rfl
      have hnd : (ids s.t).Nodup := (List.nodup_append.mp hO.nodup).1
      refine ⟨_, _, rfl, h.setValue (e.1 + 1) v, e.1 + 1, ?_, ?_, rfl, idx, e.1, rfl, ?_, rfl⟩
      · simp only [if_true, hdrop]
      · refine ⟨setAt_repr h v e.1 s.t _ _ idx hr.tree hnd hi, dlist_frame _ _ _ hr.list rfl (fun _ _ => ⟨rfl, rfl⟩) rfl,
          hr.size, freeRepr_frame _ _ hr.free (fun _ _ => rfl), hr.blocks, hr.endSep⟩
      · show s.order[idx]? = some e.1
        rw [hO.order]; exact hi

/-- **`MultiMap::insert(position, key, value)`, complete, by translation**: the neighbour tests of the current MultiMap.hpp
    (`>=` / `<=` towards the neighbours), then the complete private insert in the cell they choose (under the hint on the left /
    right, under the last item, or at the root).  For every reachable MultiMap state `s`, every heap that represents it and
    every iterator position `p ≤ size` (`p = size`: `end()`): the translated code terminates, leaves a heap that represents
    the model's `step s (insertAt p k v)`, makes exactly the model's number of key comparisons and returns the item at
    the returned position. -/
theorem gen_insert_at_multi_eq_model (s : St) (h : Heap) (p : Nat) (k v : Int) (c fuel : Nat)
    (hreach : Reach true s) (hr : ReprSt h s) (hfresh : EndOutsideNextBlock h s) (hp : p ≤ s.size) (hf : s.t.height < fuel) :
    ∃ s' out, step s (.insertAt p k v) = some (s', out) ∧
    ∃ h' ptr, Multi.insertAt fuel h c (headPtr h (s.order.drop p)) k v = some (h', ptr, c + out.cmps) ∧ ReprSt h' s' ∧
      h'.endItem = h.endItem ∧ ∃ q i, out.ret = .it q ∧ s'.order[q]? = some i ∧ ptr = i + 1 := by
  obtain ⟨hT, hO, hm⟩ := invs_reach hreach
  have hsz : s.size = s.t.inorder.length := by rw [hT.size, size_eq_length]
  have hord : s.order = s.t.inorder.map (fun e => e.1) := hO.order
  have hstep : step s (.insertAt p k v) = s.insertAt p k v := by simp [step, hp]
  rw [hstep, insertAt_is_hintGo]
  have hH := gen_insert_hint_multi_eq_model h s.t.inorder p k v c (by rw [← hord]; exact hr.list) (repr_keys hr.tree)
    (fun e he => hr.endSep e.1 (Or.inl (by rw [hord]; exact List.mem_map_of_mem he))) (by omega)
  have hH' : hintGo true s.t.inorder s.t.inorder.length p k = hintGo s.multi s.t.inorder s.size p k := by rw [hm, hsz]
  rw [hH'] at hH
  have hptr : headPtr h (s.order.drop p) = headPtr h ((s.t.inorder.drop p).map (fun e => e.1)) := by
    rw [hord, List.map_drop]
  unfold Multi.insertAt
  rw [hptr, hH]
  cases hg0 : hintGo s.multi s.t.inorder s.size p k with
  | none => rw [← hH'] at hg0; exact absurd hg0 (hintGo_some _ _ _ _ (by omega))
  | some g =>
    have hg : hintGo true s.t.inorder s.t.inorder.length p k = some g := by rw [hH']; exact hg0
    cases g with
    | under right idx hid c0 =>
      obtain ⟨e, he1, he2⟩ := hintGo_under _ _ _ _ _ _ _ _ hg
      have hidx : idx < s.t.size := by
        rw [size_eq_length]; exact (List.getElem?_eq_some_iff.mp he1).1
      obtain ⟨ctx0, hid', a1, a2, a3, a4, a5, a6, a7⟩ := ctx_of_idx h right s.t .top idx hidx trivial hr.tree
      have : hid' = hid := by
        rw [ids_getElem?_of_inorder he1, he2] at a5; exact (Option.some.inj a5).symm
      subst this
      obtain ⟨ce, pe⟩ := cellOf_mcell ctx0
      rw [a4] at ce pe
      have P := gen_insert_private_multi_eq_model s h ctx0 (Tree.subAt right idx s.t) k v (c + c0) c0 fuel hm hT.avl hO hr hfresh a1 a2 a3
        (by simp only [Ctx.depth] at a7; omega)
      have em : s.insertIn k ctx0.mcell (Tree.subAt right idx s.t) (fun id => (ctx0.climb (Tree.insM id k v (Tree.subAt right idx s.t))).1) c0
          = s.insertUnder right idx hid' k v c0 := by
        unfold St.insertUnder St.insSub
        rw [a4]; simp only [hm, if_true]
        congr 1
        funext id
        rw [a6 (Tree.insM id k v)]; rfl
      rw [em, ← ce, ← pe] at P
      obtain ⟨h', ptr, w1, w2, w3⟩ := P
      refine ⟨_, _, rfl, h', ptr, ?_, w3⟩
      show Multi.insertPrivate fuel h (c + c0) (cellOf (some (hid', right))) (hid' + 1) k v =
        some (h', ptr, c + (s.insertUnder right idx hid' k v c0).2.cmps)
      rw [w2, ← Nat.add_assoc]; exact w1
    | root c0 =>
      have P := gen_insert_private_multi_eq_model s h .top s.t k v (c + c0) c0 fuel hm hT.avl hO hr hfresh rfl trivial hr.tree
        (by simp only [Ctx.depth]; omega)
      have em : s.insertIn k Ctx.top.mcell s.t (fun id => (Ctx.top.climb (Tree.insM id k v s.t)).1) c0 = s.insertRoot k v c0 := by
        unfold St.insertRoot St.insSub; simp only [hm, if_true]; rfl
      rw [em] at P
      obtain ⟨h', ptr, w1, w2, w3⟩ := P
      refine ⟨_, _, rfl, h', ptr, ?_, w3⟩
      show Multi.insertPrivate fuel h (c + c0) Cell.root 0 k v = some (h', ptr, c + (s.insertRoot k v c0).2.cmps)
      rw [w2, ← Nat.add_assoc]; exact w1
    | replace idx =>
      have := (hintGo_replace _ _ _ _ _ hg).1
      cases this

/-- the translated `insert(position, key, value)` of one header -/
def insertAtCode (multi : Bool) : Nat → Heap → Nat → Nat → Int → Int → Option (Heap × Nat × Nat) :=
  if multi then Multi.insertAt else Map.insertAt

/-- **`insert(position, key, value)` of both containers** — the two theorems above in one statement. -/
theorem gen_insert_at_eq_model (multi : Bool) (s : St) (h : Heap) (p : Nat) (k v : Int) (c fuel : Nat)
    (hreach : Reach multi s) (hr : ReprSt h s) (hfresh : EndOutsideNextBlock h s) (hp : p ≤ s.size) (hf : s.t.height < fuel) :
    ∃ s' out, step s (.insertAt p k v) = some (s', out) ∧
    ∃ h' ptr, insertAtCode multi fuel h c (headPtr h (s.order.drop p)) k v = some (h', ptr, c + out.cmps) ∧ ReprSt h' s' ∧
      h'.endItem = h.endItem ∧ ∃ q i, out.ret = .it q ∧ s'.order[q]? = some i ∧ ptr = i + 1 := by
  cases multi with
  | false => exact gen_insert_at_map_eq_model s h p k v c fuel hreach hr hfresh hp hf
  | true => exact gen_insert_at_multi_eq_model s h p k v c fuel hreach hr hfresh hp hf

/-! ### `find`, `count` on a heap that represents a model state -/

theorem nextRepr_of_dlist (h : Heap) : ∀ (es : List (Nat × Int × Int)) (p pv : Nat), DList h p pv (es.map (fun e => e.1)) →
    (∀ e ∈ es, h.key (e.1 + 1) = e.2.1) → (∀ e ∈ es, e.1 + 1 ≠ h.endItem) → NextRepr h p es := by
  intro es
  induction es with
  | nil => intro p pv hd _ _; exact hd.1
  | cons e es ih =>
    intro p pv hd hk he
    obtain ⟨e1, _, e3⟩ := hd
    refine ⟨e1, by rw [e1]; exact he e (by simp), by rw [e1]; exact hk e (by simp), ?_⟩
    exact ih _ _ e3 (fun x hx => hk x (by simp [hx])) (fun x hx => he x (by simp [hx]))

/-- the translated `find` of one header -/
def findCode (multi : Bool) : Nat → Heap → Nat → Int → Option (Nat × Nat) := if multi then Multi.find else Map.find

/-- **`find(key)` of both containers, by translation**: on every heap that represents a reachable state the loop of the
    current header terminates (`height + 1` units of fuel), returns the pointer to the item at the position the model's
    `step s (find k)` returns — `_end` (the sentinel) when the model returns `size` — and makes exactly the model's number
    of key comparisons. -/
theorem gen_find_eq_step (multi : Bool) (s : St) (h : Heap) (k : Int) (c fuel : Nat)
    (hreach : Reach multi s) (hr : ReprSt h s) (hf : s.t.height < fuel) :
    ∃ out q, step s (.find k) = some (s, out) ∧ out.ret = .it q ∧
      findCode multi fuel h c k = some ((match s.order[q]? with | some i => i + 1 | none => h.endItem), c + out.cmps) := by
  obtain ⟨hT, hO, hm⟩ := invs_reach hreach
  refine ⟨_, _, rfl, rfl, ?_⟩
  have hnone : s.order[s.size]? = none := by rw [List.getElem?_eq_none_iff, hT.olen]; exact Nat.le_refl _
  cases multi with
  | false =>
    show Map.find fuel h c k = _
    rw [gen_find_map_eq_model h s.t k c fuel hr.tree hf]
    simp only [St.findIdx, St.findCmps, hm, Bool.false_eq_true, if_false]
    cases hfi : Tree.findIdx k s.t with
    | none => simp only [Option.bind_none, Option.getD_none, hnone]
    | some j => simp only [Option.bind_some, Option.getD_some, hO.order]; rfl
  | true =>
    show Multi.find fuel h c k = _
    rw [gen_find_multi_eq_model h s.t k c fuel hr.tree hf]
    simp only [St.findIdx, St.findCmps, hm, if_true]
    cases hfi : Tree.findMIdx k s.t with
    | none => simp only [Option.bind_none, Option.getD_none, hnone]
    | some j => simp only [Option.bind_some, Option.getD_some, hO.order]; rfl

/-- **`MultiMap::count(key)`, by translation**: `find`, then the walk over `next` while the keys are equal — the number the
    model's `step s (count k)` returns, with exactly its number of key comparisons (`size + 1` units of fuel). -/
theorem gen_count_eq_step (s : St) (h : Heap) (k : Int) (c fuel : Nat)
    (hreach : Reach true s) (hr : ReprSt h s) (hf : s.t.height < fuel) (hf2 : s.t.size < fuel) :
    ∃ out n, step s (.count k) = some (s, out) ∧ out.ret = .num n ∧ Multi.count fuel h c k = some (n, c + out.cmps) := by
  obtain ⟨hT, hO, hm⟩ := invs_reach hreach
  have hl : NextRepr h h.beginItem s.t.inorder :=
    nextRepr_of_dlist h s.t.inorder _ 0 (by have := hr.list; rw [hO.order] at this; exact this) (repr_keys hr.tree)
      (fun e he => hr.endSep e.1 (Or.inl (by rw [hO.order]; exact List.mem_map_of_mem he)))
  rw [gen_count_eq_model h s.t k c fuel h.beginItem hr.tree hl hf hf2]
  simp only [step, hm, if_true, St.findIdx, St.findCmps]
  cases hfi : Tree.findMIdx k s.t with
  | none => exact ⟨_, _, rfl, rfl, rfl⟩
  | some p => exact ⟨_, _, rfl, rfl, by simp only [Nat.add_assoc]⟩

/-! ### non-vacuity -/

/-- the empty container: a heap whose sentinel lives at address 1000 -/
def emptyHeap : Heap where
  key := fun _ => 0
  value := fun _ => 0
  parent := fun _ => 0
  left := fun _ => 0
  right := fun _ => 0
  height := fun _ => 0
  slope := fun _ => 0
  root := 0
  next := fun _ => 0
  prev := fun _ => 0
  endItem := 1000
  beginItem := 1000

example : ReprSt emptyHeap (St.init false) ∧ EndOutsideNextBlock emptyHeap (St.init false) := by
  refine ⟨⟨rfl, ⟨rfl, rfl⟩, rfl, rfl, rfl, by simp [St.init]⟩, ?_⟩
  intro _ j _ h2
  have h3 : j < ipbOf false * 1 := h2
  have : ipbOf false ≤ 16 := by decide
  show j + 1 ≠ 1000
  omega

/-- the translated code of both headers, run on the empty container: the first insert allocates a block, puts the item
    into `root`, makes it the only element of the list, and a second insert of a larger key hangs to its right -/
example : ∃ h' p, Map.insertPlain 5 emptyHeap 0 7 70 = some (h', p, 0) ∧ h'.root = p ∧ h'.size = 1 ∧ h'.key p = 7 ∧
    h'.beginItem = p ∧ h'.next p = 1000 ∧ h'.prev 1000 = p ∧ h'.nblocks = 1 ∧
    ∃ h'' p', Multi.insertPlain 5 h' 0 9 90 = some (h'', p', 1) ∧ h''.right p = p' ∧ h''.next p = p' ∧ h''.height p = 2 ∧
      h''.slope p = -1 ∧ h''.size = 2 :=
  ⟨_, _, rfl, rfl, rfl, rfl, rfl, rfl, rfl, rfl, _, _, rfl, rfl, rfl, rfl, rfl, rfl⟩

end Nstd.Avl
