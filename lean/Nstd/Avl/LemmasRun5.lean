import Nstd.Avl.LemmasOrder3
/-
  Full one-step refinement for the deterministic operations: acceptance, contents and every
  returned value (including the iterator an insert returns and front/back, which the model
  reads through the prev/next list).
-/
namespace Nstd.Avl
open Tree

theorem step_full (s : St) (hI : InvT s) (hO : InvO s) (op : Op)
    (hop : ∀ p k v, ¬ (s.multi = true ∧ op = .insertAt p k v)) :
    match step s op with
    | some r => ∃ xs' ret, Spec.stepF s.multi (abs s) op = some (xs', ret) ∧ abs r.1 = xs' ∧ r.2.ret = ret
    | none => Spec.stepF s.multi (abs s) op = none := by
  have hsp := step_spec s hI op hop
  have hlen := abs_length s hI
  cases hb : op.retByTree with
  | true =>
    cases hst : step s op with
    | none => rw [hst] at hsp; exact hsp
    | some r =>
      rw [hst] at hsp
      obtain ⟨xs', ret, h1, h2, h3⟩ := hsp
      exact ⟨xs', ret, h1, h2, h3 hb⟩
  | false =>
    cases op with
    | insert k v =>
      simp only [step, Spec.stepF]
      have ha := insertRoot_abs s hI k v 0
      have hr := insertRoot_ret s hI hO k v 0
      cases hm : s.multi with
      | false => rw [hm] at ha hr; exact ⟨_, _, rfl, by simpa using ha, by simpa using hr⟩
      | true => rw [hm] at ha hr; exact ⟨_, _, rfl, by simpa using ha, by simpa using hr⟩
    | insertAt p k v =>
      have hm : s.multi = false := by
        cases h : s.multi with
        | false => rfl
        | true => exact absurd ⟨h, rfl⟩ (hop p k v)
      simp only [step, Spec.stepF, hm, Bool.false_eq_true, if_false, hlen]
      by_cases hp : p ≤ s.size
      · rw [if_pos hp, if_pos hp]
        obtain ⟨r, c, h1, h2, h3⟩ := insertAt_map_state s hI hm p k v hp
        rw [h1]
        refine ⟨_, _, rfl, ?_, ?_⟩
        · rw [h2, insertRoot_abs s hI k v c, hm]; simp
        · rcases h3 with h3 | ⟨h3, hi, hv, h4⟩
          · rw [h3, insertRoot_ret s hI hO k v c, hm]; simp
          · rw [h3]
            have := lower_at _ (hI.sortedS hm) p _ h4
            simp only at this
            simp only [abs]; rw [this]
      · rw [if_neg hp, if_neg hp]
    | front =>
      simp only [step, Spec.stepF]
      have hsp' := hsp
      simp only [step, Spec.stepF] at hsp'
      cases ho : s.order.head? with
      | none => rw [ho] at hsp'; exact hsp'
      | some id =>
        rw [ho] at hsp'
        simp only at hsp' ⊢
        obtain ⟨xs', ret, h1, h2, _⟩ := hsp'
        cases hx : (abs s).head? with
        | none => rw [hx] at h1; simp at h1
        | some e =>
          simp only
          refine ⟨_, _, rfl, rfl, ?_⟩
          -- the first id of the list is the id of the first in-order entry
          cases hes : s.t.inorder with
          | nil => simp [abs, kv, hes] at hx
          | cons a as =>
            have h0 : s.order = a.1 :: as.map (fun e => e.1) := by rw [hO.order]; simp [ids, hes]
            rw [h0] at ho
            simp only [List.head?_cons, Option.some.injEq] at ho
            subst ho
            rw [valueOf_spec s hO a (by rw [hes]; simp)]
            simp only [abs, kv, hes, List.map_cons, List.head?_cons, Option.some.injEq] at hx
            rw [← hx]
    | back =>
      simp only [step, Spec.stepF]
      have hsp' := hsp
      simp only [step, Spec.stepF] at hsp'
      cases ho : s.order.getLast? with
      | none => rw [ho] at hsp'; exact hsp'
      | some id =>
        rw [ho] at hsp'
        simp only at hsp' ⊢
        obtain ⟨xs', ret, h1, h2, _⟩ := hsp'
        cases hx : (abs s).getLast? with
        | none => rw [hx] at h1; simp at h1
        | some e =>
          simp only
          refine ⟨_, _, rfl, rfl, ?_⟩
          have h0 : s.order = s.t.inorder.map (fun e => e.1) := hO.order
          rw [h0, List.getLast?_map] at ho
          simp only [abs, kv, List.getLast?_map] at hx
          cases hl : s.t.inorder.getLast? with
          | none => rw [hl] at ho; simp at ho
          | some a =>
            rw [hl] at ho hx
            simp only [Option.map_some, Option.some.injEq] at ho hx
            subst ho
            rw [valueOf_spec s hO a (List.mem_of_getLast? hl), ← hx]
    | removeKey k => simp [Op.retByTree] at hb
    | removeAt p => simp [Op.retByTree] at hb
    | removeFront => simp [Op.retByTree] at hb
    | removeBack => simp [Op.retByTree] at hb
    | clear => simp [Op.retByTree] at hb
    | find k => simp [Op.retByTree] at hb
    | contains k => simp [Op.retByTree] at hb
    | count k => simp [Op.retByTree] at hb

end Nstd.Avl
