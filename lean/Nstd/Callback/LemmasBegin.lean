import Nstd.Callback.LemmasNext
/-
  Obligation `SimOK.begin`: `SignalActivation::SignalActivation` against the start of an
  emission of the specification.  Also the helper lemmas shared by the other obligations.
-/
namespace Nstd.Callback
open Spec

theorem abs_congr {m : State} {s s' : SState} (h : Abs m s) (hc : s'.clock = s.clock)
    (he : ∀ e, s'.eAlive e = s.eAlive e) (hl : ∀ l, s'.lAlive l = s.lAlive l)
    (hs : ∀ e g, s'.sig e g = s.sig e g) : Abs m s' := by
  refine ⟨by rw [hc]; exact h.clock, fun e => by rw [he]; exact h.eAlive e, fun l => by rw [hl]; exact h.lAlive l,
    fun e g => by rw [hs]; exact h.live e g, fun e g => by rw [hs]; exact h.depth e g,
    fun e g => by rw [hs]; exact h.outer e g, fun e g d t => by rw [hs]; exact h.born e g d t,
    fun e g t => by rw [hs, hc]; exact h.startLe e g t⟩

theorem countFrames_pos {fs : List Frame} {eg : Nat × Nat} (h : countFrames fs eg ≠ 0) : ∃ f ∈ fs, f.data = eg := by
  induction fs with
  | nil => simp [countFrames] at h
  | cons f fs ih =>
    by_cases c : f.data = eg
    · exact ⟨f, List.mem_cons_self .., c⟩
    · simp only [countFrames, c, if_false, Nat.zero_add] at h
      obtain ⟨f', hf', hd⟩ := ih h
      exact ⟨f', List.mem_cons_of_mem _ hf', hd⟩

theorem setSig_keys {em : Emitter} (g : Nat) (d' : SignalData)
    (h : ∀ g', (em.sig g').isSome → g' ∈ em.sigKeys) :
    ∀ g', ((em.setSig g d').sig g').isSome → g' ∈ (em.setSig g d').sigKeys := by
  intro g' hg'
  simp only [Emitter.setSig] at hg' ⊢
  by_cases c : g' = g
  · subst c
    by_cases c2 : (em.sig g').isSome = true
    · simp only [c2, if_true]; exact h g' c2
    · simp [c2]
  · simp only [c, if_false] at hg'
    have := h g' hg'
    by_cases c2 : (em.sig g).isSome = true
    · simp only [c2, if_true]; exact this
    · simp only [c2]; simp [this]

/-- cursors survive a change that keeps the loop invariants of the signals on the stack -/
theorem cursors_mono {m m' : State} {K : MStack} {fs : List Frame}
    (hn : m.nextNode ≤ m'.nextNode)
    (hd : ∀ e g d', (e, g) ∈ fs.map (·.data) → (m'.emitters e).isSome → m'.data e g = some d' →
      (m.emitters e).isSome ∧ ∃ d, m.data e g = some d ∧
        ∀ pos snap, (∀ u ∈ snap, u < m.nextNode) → LIo d.slots pos snap → LIo d'.slots pos snap)
    (h : Cursors m K fs) : Cursors m' K fs := by
  induction K generalizing fs with
  | nil => cases fs with
    | nil => trivial
    | cons _ _ => exact absurd h (by simp [Cursors])
  | cons k K ih =>
    obtain ⟨⟨fid, pos⟩, ⟨eg, snap⟩⟩ := k
    cases fs with
    | nil => exact absurd h (by simp [Cursors])
    | cons f fs =>
      obtain ⟨h1, h2, h3, h4, h5⟩ := h
      refine ⟨h1, h2, fun u hu => Nat.lt_of_lt_of_le (h3 u hu) hn, ?_, ?_⟩
      · intro hal d' hd'
        obtain ⟨hal0, d, hd0, hli⟩ := hd eg.1 eg.2 d' (by simp [← h2]) hal hd'
        exact hli pos snap h3 (h4 hal0 d hd0)
      · exact ih (fun e g d' hm => hd e g d' (by simp only [List.map_cons, List.mem_cons]; exact Or.inr hm)) h5

theorem sim_begin {m : State} {s : SState} {K : MStack} (e g : Nat) (h : Sim m s K)
    (hal : machine.aliveE m e = true) :
    BeginRel Spec.machine Sim K (machine.begin e g m) (Spec.machine.begin e g s) := by
  simp only [machine] at hal
  cases hem : m.emitters e with
  | none => rw [hem] at hal; simp at hal
  | some em =>
  have hea : s.eAlive e = true := by rw [h.abs.eAlive, hem]; rfl
  simp only [machine, Spec.machine, actBegin, Spec.begin, hem]
  cases hsg : em.sig g with
  | none =>
    -- inert activation: the specification's emission is over at once
    have hdn : m.data e g = none := by simp [State.data, hem, hsg]
    have hlive : (s.sig e g).live = [] := by rw [h.abs.live, hdn]; rfl
    have hcnt : countFrames m.frames (e, g) = 0 := by
      apply Classical.byContradiction
      intro hne
      obtain ⟨f, hf, hfd⟩ := countFrames_pos hne
      have := h.f.hasData f hf (by rw [hfd]; simp [hem])
      rw [hfd, hdn] at this
      simp at this
    have hdep : (s.sig e g).depth = 0 := by rw [h.abs.depth e g (by simp [hem]), hcnt]
    have hout : (s.sig e g).outerStart = none := (h.abs.outer e g (by simp [hem])).2 hcnt
    simp only [BeginRel, hlive, List.filter_nil, List.map_nil, Spec.next, SState.setSig, hea, if_true, nextLive, true_and]
    refine ⟨h.nofault, h.f, h.sl, h.b, ?_, h.cur⟩
    apply abs_congr h.abs
    · simp [Spec.finish, SState.setSig, hea]
    · intro e'; simp [Spec.finish, SState.setSig, hea]
    · intro l; simp [Spec.finish, SState.setSig, hea]
    · intro e' g'
      simp only [Spec.finish, SState.setSig, hea, if_true, and_self, hdep, hout]
      by_cases c : e' = e ∧ g' = g
      · obtain ⟨rfl, rfl⟩ := c
        simp only [and_self, if_true]
        cases hx : s.sig e' g' with
        | mk lv os dp =>
          rw [hx] at hdep hout hlive
          simp only at hdep hout hlive
          simp [hdep, hout, hlive]
      · simp only [c, if_false]
  | some d =>
    have hdd : m.data e g = some d := by simp [State.data, hem, hsg]
    simp only [BeginRel]
    -- abbreviations
    have hdata : ∀ e' g', (({ m with frames := ({ next := d.activation, invalidated := false, data := (e, g) } : Frame) :: m.frames } : State).setEmitter e
        (some (em.setSig g { d with activation := some m.frames.length }))).data e' g' =
        if e' = e ∧ g' = g then some { d with activation := some m.frames.length } else m.data e' g' :=
      fun e' g' => data_put (st := { m with frames := _ }) _ hem e' g'
    have hems : ∀ e', ((({ m with frames := ({ next := d.activation, invalidated := false, data := (e, g) } : Frame) :: m.frames } : State).setEmitter e
        (some (em.setSig g { d with activation := some m.frames.length }))).emitters e').isSome = (m.emitters e').isSome := by
      intro e'
      simp only [State.setEmitter]
      by_cases c : e' = e
      · subst c; simp [hem]
      · simp [c]
    generalize hm' : (({ m with frames := ({ next := d.activation, invalidated := false, data := (e, g) } : Frame) :: m.frames } : State).setEmitter e
        (some (em.setSig g { d with activation := some m.frames.length }))) = m' at hdata hems
    have hfr : m'.frames = ({ next := d.activation, invalidated := false, data := (e, g) } : Frame) :: m.frames := by
      rw [← hm']; rfl
    have hli : m'.listeners = m.listeners := by rw [← hm']; rfl
    have hnn : m'.nextNode = m.nextNode := by rw [← hm']; rfl
    have hfa : m'.fault = m.fault := by rw [← hm']; rfl
    have hlive := h.abs.live e g
    rw [hdd] at hlive
    have hcntact : countFrames m.frames (e, g) = 0 → ∀ x ∈ d.slots, x.state = .connected := by
      intro h0
      have h1 := h.f.act e g d hdd
      rw [topOf_none_iff.2 h0] at h1
      exact h.sl.allConn e g d hdd (h.sl.clean e g d hdd h1)
    refine ⟨by rw [hfa]; exact h.nofault, ?_, ?_, ?_, ?_, ?_⟩
    · -- FInv
      refine ⟨?_, ?_, ?_, ?_, ?_⟩
      · rw [hfr]; exact ⟨h.f.act e g d hdd, h.f.links⟩
      · intro e' g' d' hd'
        rw [hdata] at hd'
        rw [hfr]
        by_cases c : e' = e ∧ g' = g
        · obtain ⟨rfl, rfl⟩ := c
          simp only [and_self, if_true, Option.some.injEq] at hd'
          subst hd'
          simp [topOf]
        · simp only [c, if_false] at hd'
          have : ¬ ((e, g) = (e', g')) := by
            intro hh; simp only [Prod.mk.injEq] at hh; exact c ⟨hh.1.symm, hh.2.symm⟩
          simp only [topOf, this, if_false]
          exact h.f.act e' g' d' hd'
      · intro f hf hfe
        rw [hfr] at hf
        rw [hdata]
        rw [hems] at hfe
        rcases List.mem_cons.1 hf with rfl | hf
        · simp
        · by_cases c : f.data.1 = e ∧ f.data.2 = g
          · simp [c]
          · simp only [c, if_false]; exact h.f.hasData f hf hfe
      · intro f hf hfi
        rw [hfr] at hf
        have hnone : ∀ e', m'.emitters e' = none ↔ m.emitters e' = none := by
          intro e'
          have := hems e'
          cases h1 : m'.emitters e' <;> cases h2 : m.emitters e' <;> simp [h1, h2] at this ⊢
        rcases List.mem_cons.1 hf with rfl | hf
        · simp at hfi
        · exact (hnone _).2 (h.f.invDead f hf hfi)
      · intro e' g' i he' htop
        have he0 : m.emitters e' = none := by
          have := hems e'
          cases h2 : m.emitters e' with
          | none => rfl
          | some _ => rw [he', h2] at this; simp at this
        have hne : e' ≠ e := by intro hh; rw [hh, hem] at he0; simp at he0
        rw [hfr] at htop ⊢
        have : ¬ ((e, g) = (e', g')) := by
          intro hh; simp only [Prod.mk.injEq] at hh; exact hne hh.1.symm
        simp only [topOf, this, if_false] at htop
        rw [frameAt_cons_lt (topOf_lt htop)]
        exact h.f.deadInv e' g' i he0 htop
    · -- SInv
      refine ⟨?_, ?_, ?_, ?_, ?_⟩ <;> intro e' g' d' hd' <;> rw [hdata] at hd' <;> by_cases c : e' = e ∧ g' = g
      · obtain ⟨rfl, rfl⟩ := c
        simp only [and_self, if_true, Option.some.injEq] at hd'
        subst hd'; intro hh; simp at hh
      · simp only [c, if_false] at hd'; exact h.sl.clean e' g' d' hd'
      · obtain ⟨rfl, rfl⟩ := c
        simp only [and_self, if_true, Option.some.injEq] at hd'
        subst hd'; exact h.sl.allConn e' g' d hdd
      · simp only [c, if_false] at hd'; exact h.sl.allConn e' g' d' hd'
      · obtain ⟨rfl, rfl⟩ := c
        simp only [and_self, if_true, Option.some.injEq] at hd'
        subst hd'; exact h.sl.sorted e' g' d hdd
      · simp only [c, if_false] at hd'; exact h.sl.sorted e' g' d' hd'
      · obtain ⟨rfl, rfl⟩ := c
        simp only [and_self, if_true, Option.some.injEq] at hd'
        subst hd'; rw [hnn]; exact h.sl.bound e' g' d hdd
      · simp only [c, if_false] at hd'; rw [hnn]; exact h.sl.bound e' g' d' hd'
      · obtain ⟨rfl, rfl⟩ := c
        simp only [and_self, if_true, Option.some.injEq] at hd'
        subst hd'; exact h.sl.obj e' g' d hdd
      · simp only [c, if_false] at hd'; exact h.sl.obj e' g' d' hd'
    · -- BInv
      refine ⟨?_, ?_, ?_, ?_⟩
      · intro e' g' d' hd'
        rw [hdata] at hd'
        rw [hli]
        by_cases c : e' = e ∧ g' = g
        · obtain ⟨rfl, rfl⟩ := c
          simp only [and_self, if_true, Option.some.injEq] at hd'
          subst hd'; exact h.b.recv e' g' d hdd
        · simp only [c, if_false] at hd'; exact h.b.recv e' g' d' hd'
      · intro l li e' g' x hl
        rw [hli] at hl
        rw [hdata, h.b.count l li e' g' x hl]
        by_cases c : e' = e ∧ g' = g
        · obtain ⟨rfl, rfl⟩ := c
          simp [hdd]
        · simp only [c, if_false]
      · intro e' em' g' hem' hsg'
        rw [← hm'] at hem'
        simp only [State.setEmitter] at hem'
        by_cases c : e' = e
        · subst c
          simp only [if_true, Option.some.injEq] at hem'
          subst hem'
          exact setSig_keys g _ (fun g'' => h.b.ekeys e' em g'' hem) g' hsg'
        · simp only [c, if_false] at hem'
          exact h.b.ekeys e' em' g' hem' hsg'
      · intro l li e' hl; rw [hli] at hl; exact h.b.lkeys l li e' hl
    · -- Abs
      refine ⟨?_, ?_, ?_, ?_, ?_, ?_, ?_, ?_⟩
      · rw [hnn]; exact h.abs.clock
      · intro e'; rw [hems]; exact h.abs.eAlive e'
      · intro l; rw [hli]; exact h.abs.lAlive l
      · intro e' g'
        rw [hdata]
        simp only [SState.setSig]
        by_cases c : e' = e ∧ g' = g
        · obtain ⟨rfl, rfl⟩ := c
          simp only [and_self, if_true]
          rw [hlive]; rfl
        · simp only [c, if_false]; exact h.abs.live e' g'
      · intro e' g' hal'
        rw [hems] at hal'
        rw [hfr]
        simp only [SState.setSig, countFrames]
        by_cases c : e' = e ∧ g' = g
        · obtain ⟨rfl, rfl⟩ := c
          simp only [and_self, if_true]
          rw [h.abs.depth e' g' hal']; omega
        · have : ¬ ((e, g) = (e', g')) := by
            intro hh; simp only [Prod.mk.injEq] at hh; exact c ⟨hh.1.symm, hh.2.symm⟩
          simp only [c, this, if_false, Nat.zero_add]
          exact h.abs.depth e' g' hal'
      · intro e' g' hal'
        rw [hems] at hal'
        rw [hfr]
        simp only [SState.setSig, countFrames]
        by_cases c : e' = e ∧ g' = g
        · obtain ⟨rfl, rfl⟩ := c
          simp only [and_self, if_true]
          constructor
          · intro hh; simp at hh
          · intro hh; omega
        · have : ¬ ((e, g) = (e', g')) := by
            intro hh; simp only [Prod.mk.injEq] at hh; exact c ⟨hh.1.symm, hh.2.symm⟩
          simp only [c, this, if_false, Nat.zero_add]
          exact h.abs.outer e' g' hal'
      · intro e' g' d' t hd' ht x hx hnd
        rw [hdata] at hd'
        simp only [SState.setSig] at ht
        by_cases c : e' = e ∧ g' = g
        · obtain ⟨rfl, rfl⟩ := c
          simp only [and_self, if_true, Option.some.injEq] at hd' ht
          subst hd'
          cases hos : (s.sig e' g').outerStart with
          | some t0 =>
            rw [hos] at ht
            simp only [Option.getD_some, Option.getD_none] at ht
            subst ht
            exact h.abs.born e' g' d _ hdd hos x hx hnd
          | none =>
            rw [hos] at ht
            simp only [Option.getD_some, Option.getD_none] at ht
            subst ht
            have h0 := (h.abs.outer e' g' (by simp [hem])).1 hos
            have hcx := hcntact h0 x hx
            have hb := h.sl.bound e' g' d hdd x hx
            rw [h.abs.clock]
            simp [hcx, hb]
        · simp only [c, if_false] at hd' ht
          exact h.abs.born e' g' d' t hd' ht x hx hnd
      · intro e' g' t ht
        simp only [SState.setSig] at ht
        show t ≤ s.clock
        by_cases c : e' = e ∧ g' = g
        · obtain ⟨rfl, rfl⟩ := c
          simp only [and_self, if_true, Option.some.injEq] at ht
          cases hos : (s.sig e' g').outerStart with
          | some t0 => rw [hos] at ht; simp only [Option.getD_some, Option.getD_none] at ht; subst ht; exact h.abs.startLe e' g' _ hos
          | none => rw [hos] at ht; simp only [Option.getD_some, Option.getD_none] at ht; subst ht; exact Nat.le_refl _
        · simp only [c, if_false] at ht
          exact h.abs.startLe e' g' t ht
    · -- Cursors
      rw [hfr]
      refine ⟨rfl, rfl, ?_, ?_, ?_⟩
      · intro u hu
        rw [hlive] at hu
        simp only [List.mem_map, List.mem_filter] at hu
        obtain ⟨c, ⟨hc, _⟩, rfl⟩ := hu
        obtain ⟨x, hx, _, rfl⟩ := mem_liveOf hc
        rw [hnn]
        exact h.sl.bound e g d hdd x hx
      · intro _ d' hd'
        rw [hdata] at hd'
        simp only [and_self, if_true, Option.some.injEq] at hd'
        subst hd'
        simp only
        by_cases hemp : d.slots.isEmpty = true
        · simp only [hemp, if_true]
          show (((s.sig e g).live.filter _).map _) = []
          have hnil : d.slots = [] := by simpa using hemp
          rw [hlive]; simp [liveOf, liveSlots, hnil]
        · simp only [hemp, Bool.false_eq_true, if_false]
          show LI d.slots 0 _
          unfold LI
          rw [hlive]
          simp only [List.drop_zero]
          -- every uid of the snapshot is live; the snapshot is the list of connected nodes
          generalize hst : (s.sig e g).outerStart.getD s.clock = start
          have hborn : ∀ x ∈ d.slots, x.state ≠ .disconnected → (x.state = .connected ↔ x.node < start) := by
            intro x hx hnd
            cases hos : (s.sig e g).outerStart with
            | some t0 =>
              rw [hos] at hst; simp only [Option.getD_some, Option.getD_none] at hst; subst hst
              exact h.abs.born e g d _ hdd hos x hx hnd
            | none =>
              rw [hos] at hst; simp only [Option.getD_some, Option.getD_none] at hst; subst hst
              have h0 := (h.abs.outer e g (by simp [hem])).1 hos
              have hcx := hcntact h0 x hx
              have hb := h.sl.bound e g d hdd x hx
              rw [h.abs.clock]
              simp [hcx, hb]
          have hall : ∀ u ∈ ((liveOf (some d)).filter (fun c => decide (c.uid < start))).map (·.uid), liveNode d.slots u = true := by
            intro u hu
            simp only [List.mem_map, List.mem_filter] at hu
            obtain ⟨c, ⟨hc, _⟩, rfl⟩ := hu
            obtain ⟨x, hx, hnd, rfl⟩ := mem_liveOf hc
            simp only [liveNode, List.any_eq_true]
            exact ⟨x, hx, by simp [Slot.toConn, hnd]⟩
          rw [List.filter_eq_self.2 hall]
          simp only [liveOf, liveSlots, List.filter_map, List.map_map, List.filter_filter]
          have : (d.slots.filter (fun x => (decide (x.toConn.uid < start)) && (x.state != .disconnected))) =
              d.slots.filter (fun x => x.state == .connected) := by
            apply List.filter_congr
            intro x hx
            by_cases hnd : x.state = .disconnected
            · simp [hnd]
            · have := hborn x hx hnd
              by_cases hc : x.state = .connected
              · simp [hc, Slot.toConn, this.1 hc]
              · have hlt : ¬ x.node < start := fun hh => hc (this.2 hh)
                simp [hc, hnd, Slot.toConn, hlt]
          simp only [Function.comp_def] at this ⊢
          rw [this]
          rfl
      · apply cursors_mono (m := m) (Nat.le_of_eq hnn.symm) _ h.cur
        intro e' g' d' _ hal' hd'
        rw [hems] at hal'
        rw [hdata] at hd'
        refine ⟨hal', ?_⟩
        by_cases c : e' = e ∧ g' = g
        · obtain ⟨rfl, rfl⟩ := c
          simp only [and_self, if_true, Option.some.injEq] at hd'
          subst hd'
          exact ⟨d, hdd, fun _ _ _ hh => hh⟩
        · simp only [c, if_false] at hd'
          exact ⟨d', hd', fun _ _ _ hh => hh⟩

end Nstd.Callback
