import Nstd.Callback.LemmasReuseSpec3
/-
  Property C12 — listener address reuse, the refinement to the model WITHOUT reuse (closes OPEN (1) of PropsReuse.lean).

  `reuse_listener_refines`: for every program that names the listener variables the harness has (`li[i]`, i < nl — see below),
  every history and every fuel, the model in which a re-created listener is constructed at the id (address) of its destroyed
  predecessor (`execRL machineRL`) writes the same log as the model in which it gets a new id (`exec machine`), and the live
  connections of every signal are the same once every receiver is read as the variable that holds it (which is how the
  harness and the driver print them).  Chain: model with reuse = specification with reuse (`reuse_listener_refines_spec`,
  simulation `Sim` kept by `reviveL`) = specification without (`execRL_spec`: the state with reuse is the state without with
  every listener id replaced by `lIdx` of it; `Spec.delL` leaves no trace of a destroyed listener, so there are no
  don't-cares) = model without (`emit_refines`).
  The restriction to variables < nl is needed: in `exec`, `Run.init` lets a variable i >= nl hold the object id i, which `newL`
  later hands out to another variable (the two then alias), while with reuse every variable keeps an id of its own; the
  theorems about `exec` alone quantify over all programs.
-/
namespace Nstd.Callback
open Spec

theorem specrel_init (ne nl : Nat) : SpecRel nl (Run.init SState.fresh ne nl) (Run.init SState.fresh ne nl) where
  sq :=
    { sig := by intro e g; simp [Run.init, SState.fresh, Sig.empty]
      lsig := fun _ _ _ => rfl
      lAlive := fun _ _ => rfl
      eAlive := rfl
      clock := rfl
      idx := fun _ _ => rfl
      cur := by intro e g c hc; simp [Run.init, SState.fresh, Sig.empty] at hc
      used := fun i hi => hi
      pristine := fun _ _ => ⟨rfl, fun _ => rfl⟩ }
  emId := rfl
  nextE := rfl
  lId' := fun _ => rfl
  lIdx' := fun _ => rfl
  inv := rfl
  log := rfl
  bad := rfl
  oof := rfl

theorem runOpsRL_spec (P : Prog) {nl : Nat} (hP : P.lvarOK nl) (fuel : Nat) (ops : List Action) (hops : ∀ a ∈ ops, a.lvarOK nl)
    {r' r : Run SState} (h : SpecRel nl r' r) :
    SpecRel nl (runOpsRL Spec.machineRL P fuel r' ops) (runOps Spec.machine P fuel r ops) := by
  induction ops generalizing r' r with
  | nil => exact h
  | cons a as ih =>
    refine ih (fun b hb => hops b (List.mem_cons_of_mem _ hb)) ?_
    exact (execRL_spec P hP fuel).1 [a] r' r (fun b hb => by
      rw [List.mem_singleton] at hb; subst hb; exact hops _ (List.mem_cons_self ..)) h

/-- **Listener address reuse is unobservable.**  For every program and history that name listener variables < nl, every
    numbers of objects and every fuel: the model of Callback.cpp in which a re-created listener gets the id (address) of its
    destroyed predecessor — while slot entries marked `disconnected` may still hold that id — writes exactly the log of the
    model in which every new object gets a new id; it never uses a freed object; and for every signal the live connections
    (the entries not marked `disconnected`, in order) are those of the other run with every receiver replaced by the variable
    that holds it. -/
theorem reuse_listener_refines (P : Prog) (ne nl fuel : Nat) (ops : List Action) (hP : P.lvarOK nl) (hops : ∀ a ∈ ops, a.lvarOK nl) :
    let rr := runOpsRL machineRL P fuel (Run.init State.fresh ne nl) ops
    let rf := runOps machine P fuel (Run.init State.fresh ne nl) ops
    rr.log = rf.log ∧ rr.bad = false ∧ rr.m.fault = false ∧
      (∀ i, rr.lId i = i) ∧
      ∀ e g, liveOf (rr.m.data (rr.emId e) g) = (liveOf (rf.m.data (rf.emId e) g)).map (ren rf.lIdx) := by
  intro rr rf
  have h1 := runOpsRL_rel P fuel ops (init_rel ne nl)
  have h2 := runOpsRL_spec P hP fuel ops hops (specrel_init ne nl)
  have h3 := runOps_rel P fuel ops (init_rel ne nl)
  refine ⟨?_, h1.bad₁, h1.sim.nofault, ?_, ?_⟩
  · rw [h1.log, h2.log, ← h3.log]
  · intro i; rw [h1.vars.2.1]; exact h2.lId' i
  · intro e g
    rw [← h1.sim.abs.live, ← h3.sim.abs.live, h1.vars.1, h2.emId, h3.vars.1, h2.sq.sig, h3.vars.2.2.1]

/-- the hypotheses are met by the program of `reuseProg` (PropsReuse.lean), and the conclusion is not trivial there: the variable
    holds id 0 in one run and id 2 in the other -/
example : reuseProg.lvarOK 2 := by
  intro l s k a ha
  simp only [reuseProg] at ha
  split at ha
  · simp only [List.mem_cons, List.mem_nil_iff, or_false] at ha
    rcases ha with rfl | rfl | rfl <;> simp [Action.lvarOK]
  · simp at ha

/-! ### the restriction to listener variables < nl is needed

  One listener variable in the harness (nl = 1).  `delL 0; newL 0` gives variable 0 a new object: in `exec` that is object id 1 =
  `nextL`, which `Run.init` also lets the out-of-range variable 1 hold (`lId = id`), and `lIdx 1` becomes 0.  A connection made
  through variable 1 is then invoked under listener index 0 in `exec`, but under index 1 with reuse (there variable 1 keeps an
  object of its own).  The harness, the driver and the generators only use variables < nl (the parsers reject the others). -/

def aliasOps : List Action := [.delL 0, .newL 0, .connect 0 0 1 0, .emit 0 0 1]
def noScripts : Prog := { script := fun _ _ _ => [] }

/-- **`reuse_listener_refines` fails without its hypothesis**: a history that names listener variable 1 with nl = 1, on which
    the two evaluators write different logs. -/
theorem reuse_restriction_needed :
    (¬ ∀ a ∈ aliasOps, a.lvarOK 1) ∧ noScripts.lvarOK 1 ∧
    (runOps machine noScripts 20 (Run.init State.fresh 1 1) aliasOps).log.reverse = [.emitBegin 0 0 1, .call 0 0 1, .emitEnd] ∧
    (runOpsRL machineRL noScripts 20 (Run.init State.fresh 1 1) aliasOps).log.reverse = [.emitBegin 0 0 1, .call 1 0 1, .emitEnd] := by
  refine ⟨fun h => ?_, fun l s k a ha => by simp [noScripts] at ha, by decide, by decide⟩
  have := h (.connect 0 0 1 0) (by simp [aliasOps])
  simp [Action.lvarOK] at this

end Nstd.Callback
