import Nstd.Callback.Heap
import Nstd.Callback.LemmasAudit
/-
  Algebra of the heap operations of Heap.lean on states in the normal form `st.setEmitter e (some (em.setSig g d))` /
  `st.setListener l (some li)`, and the bridges between index-based list operations (`findIdx?`, `modify`, `eraseIdx`) and the
  model's search loops (`hasMatch`, `markFirst`, `eraseFirst`, `List.erase`).
-/
namespace Nstd.Callback

/-! ### lists -/

theorem modify_append_last {α} (xs : List α) (a : α) (f : α → α) : (xs ++ [a]).modify xs.length f = xs ++ [f a] := by
  induction xs with
  | nil => rfl
  | cons x xs ih => simp [ih]

theorem findIdx_none_hasMatch (l s : Nat) (xs : List Slot) (h : xs.findIdx? (fun x => x.isMatch l s) = none) :
    hasMatch l s xs = false := by
  induction xs with
  | nil => rfl
  | cons x xs ih =>
    simp only [List.findIdx?_cons] at h
    by_cases hx : x.isMatch l s = true
    · simp [hx] at h
    · simp only [hx, Bool.false_eq_true, if_false, Option.map_eq_none_iff] at h
      simp [hasMatch, hx, ih h]

theorem findIdx_some_hasMatch (l s : Nat) (xs : List Slot) (k : Nat) (h : xs.findIdx? (fun x => x.isMatch l s) = some k) :
    hasMatch l s xs = true ∧ xs.modify k (fun x => { x with state := .disconnected }) = markFirst l s xs ∧
      xs.eraseIdx k = eraseFirst l s xs := by
  induction xs generalizing k with
  | nil => simp at h
  | cons x xs ih =>
    simp only [List.findIdx?_cons] at h
    by_cases hx : x.isMatch l s = true
    · simp only [hx, if_true, Option.some.injEq] at h
      subst h
      simp [hasMatch, markFirst, eraseFirst, hx]
    · simp only [hx, Bool.false_eq_true, if_false, Option.map_eq_some_iff] at h
      obtain ⟨k', hk', rfl⟩ := h
      obtain ⟨h1, h2, h3⟩ := ih k' hk'
      simp [hasMatch, markFirst, eraseFirst, hx, h1, h2, h3]

theorem findIdx_erase (g s : Nat) (xs : List (Nat × Nat)) :
    (match xs.findIdx? (fun x => x.1 == g && x.2 == s) with
      | none => xs
      | some k => xs.eraseIdx k) = xs.erase (g, s) := by
  induction xs with
  | nil => rfl
  | cons x xs ih =>
    simp only [List.findIdx?_cons]
    by_cases hx : (x.1 == g && x.2 == s) = true
    · simp only [hx, if_true, List.eraseIdx_zero, List.tail_cons]
      have : x = (g, s) := by
        simp only [Bool.and_eq_true, beq_iff_eq] at hx
        exact Prod.ext hx.1 hx.2
      subst this
      simp
    · have hne : ¬ x = (g, s) := by
        intro he; subst he; simp at hx
      simp only [hx, Bool.false_eq_true, if_false]
      rw [List.erase_cons_tail (by simpa using hne)]
      rw [← ih]
      cases xs.findIdx? (fun x => x.1 == g && x.2 == s) <;> simp

/-! ### states -/

@[simp] theorem setEmitter_emitters_self (st : State) (e : Nat) (a : Option Emitter) : (st.setEmitter e a).emitters e = a := by
  simp [State.setEmitter]

@[simp] theorem setEmitter_listeners (st : State) (e : Nat) (a : Option Emitter) : (st.setEmitter e a).listeners = st.listeners := rfl
@[simp] theorem setEmitter_frames (st : State) (e : Nat) (a : Option Emitter) : (st.setEmitter e a).frames = st.frames := rfl
@[simp] theorem setEmitter_nextNode (st : State) (e : Nat) (a : Option Emitter) : (st.setEmitter e a).nextNode = st.nextNode := rfl
@[simp] theorem setEmitter_fault (st : State) (e : Nat) (a : Option Emitter) : (st.setEmitter e a).fault = st.fault := rfl
@[simp] theorem setListener_listeners_self (st : State) (l : Nat) (a : Option Listener) : (st.setListener l a).listeners l = a := by
  simp [State.setListener]
@[simp] theorem setListener_emitters (st : State) (l : Nat) (a : Option Listener) : (st.setListener l a).emitters = st.emitters := rfl
@[simp] theorem setListener_frames (st : State) (l : Nat) (a : Option Listener) : (st.setListener l a).frames = st.frames := rfl
@[simp] theorem setListener_nextNode (st : State) (l : Nat) (a : Option Listener) : (st.setListener l a).nextNode = st.nextNode := rfl
@[simp] theorem setListener_fault (st : State) (l : Nat) (a : Option Listener) : (st.setListener l a).fault = st.fault := rfl
@[simp] theorem bumpNode_emitters (st : State) : st.bumpNode.emitters = st.emitters := rfl
@[simp] theorem bumpNode_listeners (st : State) : st.bumpNode.listeners = st.listeners := rfl
@[simp] theorem bumpNode_frames (st : State) : st.bumpNode.frames = st.frames := rfl
@[simp] theorem bumpNode_fault (st : State) : st.bumpNode.fault = st.fault := rfl
@[simp] theorem bumpNode_nextNode (st : State) : st.bumpNode.nextNode = st.nextNode + 1 := rfl

@[simp] theorem setEmitter_setEmitter (st : State) (e : Nat) (a b : Option Emitter) :
    (st.setEmitter e a).setEmitter e b = st.setEmitter e b := by
  simp only [State.setEmitter, State.mk.injEq, and_true, true_and]
  funext e'
  by_cases h : e' = e <;> simp [h]

@[simp] theorem setListener_setListener (st : State) (l : Nat) (a b : Option Listener) :
    (st.setListener l a).setListener l b = st.setListener l b := by
  simp only [State.setListener, State.mk.injEq, and_true, true_and]
  funext l'
  by_cases h : l' = l <;> simp [h]

theorem setEmitter_bumpNode (st : State) (e : Nat) (a : Option Emitter) :
    (st.setEmitter e a).bumpNode = st.bumpNode.setEmitter e a := rfl

theorem setListener_setEmitter (st : State) (e l : Nat) (a : Option Emitter) (b : Option Listener) :
    (st.setEmitter e a).setListener l b = (st.setListener l b).setEmitter e a := rfl

@[simp] theorem setSig_sig_self (em : Emitter) (g : Nat) (d : SignalData) : (em.setSig g d).sig g = some d := by
  simp [Emitter.setSig]

@[simp] theorem setSig_setSig (em : Emitter) (g : Nat) (d d' : SignalData) : (em.setSig g d).setSig g d' = em.setSig g d' := by
  simp only [Emitter.setSig, if_true, Option.isSome_some, Emitter.mk.injEq, true_and]
  funext g'
  by_cases h : g' = g <;> simp [h]

theorem setSig_same {em : Emitter} {g : Nat} {d : SignalData} (h : em.sig g = some d) : em.setSig g d = em := by
  cases em with
  | mk keys sig =>
    simp only [Emitter.setSig, Emitter.mk.injEq]
    simp only at h
    refine ⟨by simp [h], ?_⟩
    funext g'
    by_cases hg : g' = g
    · subst hg; simp [h]
    · simp [hg]

theorem setEmitter_same {st : State} {e : Nat} {em : Emitter} (h : st.emitters e = some em) : st.setEmitter e (some em) = st := by
  cases st with
  | mk ems lis fr nn fl =>
    simp only [State.setEmitter, State.mk.injEq, and_true]
    funext e'
    by_cases he : e' = e
    · subst he; simp [← h]
    · simp [he]

theorem setListener_same {st : State} {l : Nat} {li : Listener} (h : st.listeners l = some li) : st.setListener l (some li) = st := by
  cases st with
  | mk ems lis fr nn fl =>
    simp only [State.setListener, State.mk.injEq, and_true, true_and]
    funext l'
    by_cases he : l' = l
    · subst he; simp [← h]
    · simp [he]

/-! ### the emitter side in normal form -/

section
variable (st : State) (e g : Nat) (em : Emitter) (d : SignalData)

@[simp] theorem nf_derefE : H.derefE (st.setEmitter e (some em)) e = st.setEmitter e (some em) := by simp [H.derefE]
@[simp] theorem nf_data : (st.setEmitter e (some (em.setSig g d))).data e g = some d := by simp [State.data]
@[simp] theorem nf_sigHas : H.sigHas (st.setEmitter e (some (em.setSig g d))) e g = true := by simp [H.sigHas]
@[simp] theorem nf_activation : H.activation (st.setEmitter e (some (em.setSig g d))) e g = d.activation := by simp [H.activation]
@[simp] theorem nf_dirty : H.dirty (st.setEmitter e (some (em.setSig g d))) e g = d.dirty := by simp [H.dirty]
@[simp] theorem nf_slots : H.slots (st.setEmitter e (some (em.setSig g d))) e g = d.slots := by simp [H.slots]
@[simp] theorem nf_modData (f : SignalData → SignalData) :
    H.modData (st.setEmitter e (some (em.setSig g d))) e g f = st.setEmitter e (some (em.setSig g (f d))) := by
  simp [H.modData]
@[simp] theorem nf_sigInsert : H.sigInsert (st.setEmitter e (some em)) e g = st.setEmitter e (some (em.setSig g SignalData.empty)) := by
  simp [H.sigInsert]
@[simp] theorem nf_slotAppend :
    H.slotAppend (st.setEmitter e (some (em.setSig g d))) e g =
      st.bumpNode.setEmitter e (some (em.setSig g { d with slots := d.slots ++ [H.Slot.fresh st.nextNode] })) := by
  simp [H.slotAppend, setEmitter_bumpNode]
@[simp] theorem nf_slotLast : H.slotLast (st.setEmitter e (some (em.setSig g d))) e g = d.slots.length - 1 := by simp [H.slotLast]
@[simp] theorem nf_modSlot (k : Nat) (f : Slot → Slot) :
    H.modSlot (st.setEmitter e (some (em.setSig g d))) e g k f = st.setEmitter e (some (em.setSig g { d with slots := d.slots.modify k f })) := by
  simp [H.modSlot]
@[simp] theorem nf_slotRemove (k : Nat) :
    H.slotRemove (st.setEmitter e (some (em.setSig g d))) e g k = st.setEmitter e (some (em.setSig g { d with slots := d.slots.eraseIdx k })) := by
  simp [H.slotRemove]
@[simp] theorem nf_slotsFilterMap (f : Slot → Option Slot) :
    H.slotsFilterMap (st.setEmitter e (some (em.setSig g d))) e g f = st.setEmitter e (some (em.setSig g { d with slots := d.slots.filterMap f })) := by
  simp [H.slotsFilterMap]
end

/-! ### the listener side in normal form -/

section
variable (st : State) (l e : Nat) (li : Listener)

@[simp] theorem nf_derefL : H.derefL (st.setListener l (some li)) l = st.setListener l (some li) := by simp [H.derefL]
@[simp] theorem nf_lHas : H.lHas (st.setListener l (some li)) l e = decide (e ∈ li.emKeys) := by simp [H.lHas]
@[simp] theorem nf_lsigs : H.lsigs (st.setListener l (some li)) l e = li.sigs e := by simp [H.lsigs]
@[simp] theorem nf_lLast : H.lLast (st.setListener l (some li)) l e = (li.sigs e).length - 1 := by simp [H.lLast]
@[simp] theorem nf_lInsert : H.lInsert (st.setListener l (some li)) l e = st.setListener l (some (li.setSigs e [])) := by simp [H.lInsert]
@[simp] theorem nf_modL (f : List (Nat × Nat) → List (Nat × Nat)) :
    H.modL (st.setListener l (some li)) l e f =
      st.setListener l (some { li with sigs := fun e' => if e' = e then f (li.sigs e) else li.sigs e' }) := by
  simp [H.modL]
end

/-! ### frame rules: listener-side operations pass an emitter update and vice versa -/

section
variable (st : State) (e : Nat) (a : Option Emitter) (l e' : Nat)

@[simp] theorem fr_derefL : H.derefL (st.setEmitter e a) l = (H.derefL st l).setEmitter e a := by
  simp only [H.derefL, setEmitter_listeners]; by_cases h : (st.listeners l).isSome = true <;> simp only [h, if_true, if_false] <;> rfl
@[simp] theorem fr_lHas : H.lHas (st.setEmitter e a) l e' = H.lHas st l e' := rfl
@[simp] theorem fr_lsigs : H.lsigs (st.setEmitter e a) l e' = H.lsigs st l e' := rfl
@[simp] theorem fr_lLast : H.lLast (st.setEmitter e a) l e' = H.lLast st l e' := rfl
@[simp] theorem fr_lInsert : H.lInsert (st.setEmitter e a) l e' = (H.lInsert st l e').setEmitter e a := by
  simp only [H.lInsert, setEmitter_listeners]; split <;> rfl
@[simp] theorem fr_modL (f : List (Nat × Nat) → List (Nat × Nat)) : H.modL (st.setEmitter e a) l e' f = (H.modL st l e' f).setEmitter e a := by
  simp only [H.modL, setEmitter_listeners]; split <;> rfl
@[simp] theorem frb_derefL : H.derefL st.bumpNode l = (H.derefL st l).bumpNode := by
  simp only [H.derefL, bumpNode_listeners]; by_cases h : (st.listeners l).isSome = true <;> simp only [h, if_true, if_false] <;> rfl
@[simp] theorem frb_lHas : H.lHas st.bumpNode l e' = H.lHas st l e' := rfl
@[simp] theorem frb_lsigs : H.lsigs st.bumpNode l e' = H.lsigs st l e' := rfl
@[simp] theorem frb_lLast : H.lLast st.bumpNode l e' = H.lLast st l e' := rfl
@[simp] theorem frb_lInsert : H.lInsert st.bumpNode l e' = (H.lInsert st l e').bumpNode := by
  simp only [H.lInsert, bumpNode_listeners]; split <;> rfl
@[simp] theorem frb_modL (f : List (Nat × Nat) → List (Nat × Nat)) : H.modL st.bumpNode l e' f = (H.modL st l e' f).bumpNode := by
  simp only [H.modL, bumpNode_listeners]; split <;> rfl
end

/-! ### helpers of PropsTie.lean -/

theorem nf_state {st : State} {e l : Nat} {em : Emitter} {li : Listener} (he : st.emitters e = some em) (hl : st.listeners l = some li) :
    st = (st.setListener l (some li)).setEmitter e (some em) := by
  rw [setListener_same hl, setEmitter_same he]

theorem ite_ite_same {α} (c : Prop) [Decidable c] (a b d : α) : (if c then a else if c then b else d) = if c then a else d := by
  by_cases h : c <;> simp [h]

theorem ite_self_fn {α} (f : Nat → α) (e : Nat) : (fun e' => if e' = e then f e else f e') = f := by
  funext e'; by_cases h : e' = e <;> simp [h]

theorem findIdx_erase_none {g s : Nat} {xs : List (Nat × Nat)} (h : xs.findIdx? (fun x => x.1 == g && x.2 == s) = none) :
    xs.erase (g, s) = xs := by
  have := findIdx_erase g s xs; rw [h] at this; exact this.symm

theorem findIdx_erase_some {g s k : Nat} {xs : List (Nat × Nat)} (h : xs.findIdx? (fun x => x.1 == g && x.2 == s) = some k) :
    xs.eraseIdx k = xs.erase (g, s) := by
  have := findIdx_erase g s xs; rw [h] at this; exact this

theorem isMatch_eq (l s : Nat) : (fun x : Slot => (((x.receiver == l) && (x.slot == s)) && (x.state != SlotState.disconnected))) = fun x => x.isMatch l s := rfl

theorem foldl_inv_congr {α β : Type} (f g : β → α → β) (I : β → Prop) (hstep : ∀ b a, I b → f b a = g b a ∧ I (g b a)) :
    ∀ (xs : List α) (b : β), I b → xs.foldl f b = xs.foldl g b := by
  intro xs
  induction xs with
  | nil => intro _ _; rfl
  | cons x xs ih =>
    intro b hb
    simp only [List.foldl_cons]
    rw [(hstep b x hb).1]
    exact ih _ (hstep b x hb).2

/-- a key that is not in a listener's map has no list (`*end()` is the empty list) -/
def LKeys (st : State) : Prop := ∀ l li e, st.listeners l = some li → e ∉ li.emKeys → li.sigs e = []

theorem lkeys_of_audit {st : State} (h : Audit st) : LKeys st := by
  intro l li e hl hne
  apply Classical.byContradiction
  intro hn
  exact hne (h.lemit l li e hl hn).2

theorem dropSlot_listeners (l e : Nat) (h : State) (x : Nat × Nat) : (dropSlot l e h x).listeners = h.listeners := by
  unfold dropSlot
  cases h.emitters e with
  | none => rfl
  | some em =>
    simp only
    cases em.sig x.1 <;> rfl

theorem foldl_dropSlot_listeners (l e : Nat) (xs : List (Nat × Nat)) (h : State) : (xs.foldl (dropSlot l e) h).listeners = h.listeners := by
  induction xs generalizing h with
  | nil => rfl
  | cons x xs ih => simp [List.foldl_cons, ih, dropSlot_listeners]

theorem lkeys_dropSignal (e g : Nat) (h : State) (hk : LKeys h) (x : Slot) : LKeys (dropSignal e g h x) := by
  unfold dropSignal
  by_cases hs : x.state = .disconnected
  · simpa [hs] using hk
  · simp only [hs, if_false]
    cases hl : h.listeners x.receiver with
    | none => exact hk
    | some li =>
      intro l' li' e' hl' hne
      by_cases hll : l' = x.receiver
      · subst hll
        simp only [setListener_listeners_self, Option.some.injEq] at hl'
        subst hl'
        simp only at hne ⊢
        have := hk _ li e' hl hne
        by_cases hee : e' = e
        · subst hee; simp [this]
        · simp [hee, this]
      · simp only [State.setListener, hll, if_false] at hl'
        exact hk l' li' e' hl' hne

theorem dropSignal_emitters (e g : Nat) (h : State) (x : Slot) : (dropSignal e g h x).emitters = h.emitters := by
  unfold dropSignal
  by_cases hs : x.state = .disconnected
  · simp [hs]
  · simp only [hs, if_false]
    cases h.listeners x.receiver <;> rfl

theorem foldl_dropSignal_inv (e g : Nat) (xs : List Slot) (h : State) (hk : LKeys h) :
    LKeys (xs.foldl (dropSignal e g) h) ∧ (xs.foldl (dropSignal e g) h).emitters = h.emitters := by
  induction xs generalizing h with
  | nil => exact ⟨hk, rfl⟩
  | cons x xs ih =>
    simp only [List.foldl_cons]
    obtain ⟨h1, h2⟩ := ih _ (lkeys_dropSignal e g h hk x)
    exact ⟨h1, by rw [h2, dropSignal_emitters]⟩

theorem lkeys_invalidate (h : State) (a : Nat) (hk : LKeys h) : LKeys (invalidate h a) := by
  unfold invalidate; cases frameAt h.frames a <;> exact hk

theorem invalidate_emitters (h : State) (a : Nat) : (invalidate h a).emitters = h.emitters := by
  unfold invalidate; cases frameAt h.frames a <;> rfl

end Nstd.Callback
