import Nstd.Callback.Model
/-
  Specification of property C12 (DESIGN.md 3/C12) as a second `Machine` for the generic
  program evaluator `exec`.

  Per (emitter, signal): the ordered list of *live* connections `(uid, receiver, slot)` —
  the uid is the value of the clock when the connection was made, so it is also its time of
  birth — `outerStart` = clock value when the outermost emission in progress began, and the
  number of emissions in progress.

    connect      appends a connection born now
    disconnect   removes the oldest live connection of that receiver/slot
    destroy      removes every connection of the listener / of the emitter
    emit         takes the snapshot of the uids live now and born before `outerStart`; each
                 uid of the snapshot, in order, is invoked at its turn iff it is still live
                 (an emission of a destroyed emitter invokes nothing any more)

  The listener's view `lsig` is kept alongside (connect appends, disconnect removes the oldest entry
  of that signal/slot, destroying clears); `Props.listener_side_exact` shows it is consistent with the
  live lists and is what the listener-side bookkeeping of the code holds, in order.

  Nothing here mentions slot states, dirty flags, activation frames or deferred removal.
-/
namespace Nstd.Callback.Spec
open Nstd.Callback

structure Conn where
  uid : Nat
  receiver : Nat
  slot : Nat
  deriving Repr, DecidableEq, Inhabited

structure Sig where
  live : List Conn
  outerStart : Option Nat
  depth : Nat
  deriving Inhabited

def Sig.empty : Sig := { live := [], outerStart := none, depth := 0 }

/-- `lsig l e` = the listener's view: the live connections of listener `l` to emitter `e` as
    (uid, signal, slot), in order of birth -/
structure SState where
  sig : Nat → Nat → Sig
  lsig : Nat → Nat → List (Nat × Nat × Nat)
  eAlive : Nat → Bool
  lAlive : Nat → Bool
  clock : Nat

/-- remove the first (= oldest) element satisfying `p` -/
def rmFirst {α : Type} (p : α → Bool) : List α → List α
  | [] => []
  | a :: as => if p a then as else a :: rmFirst p as

def SState.setSig (s : SState) (e g : Nat) (x : Sig) : SState :=
  { s with sig := fun e' g' => if e' = e ∧ g' = g then x else s.sig e' g' }

def connect (e g l sl : Nat) (s : SState) : SState :=
  let x := s.sig e g
  { (s.setSig e g { x with live := x.live ++ [{ uid := s.clock, receiver := l, slot := sl }] }) with
    lsig := fun l' e' => if l' = l ∧ e' = e then s.lsig l e ++ [(s.clock, g, sl)] else s.lsig l' e'
    clock := s.clock + 1 }

/-- remove the oldest connection of receiver `l` / slot `sl` -/
def removeOldest (l sl : Nat) : List Conn → List Conn
  | [] => []
  | c :: cs => if c.receiver = l ∧ c.slot = sl then cs else c :: removeOldest l sl cs

def disconnect (e g l sl : Nat) (s : SState) : SState :=
  let x := s.sig e g
  { (s.setSig e g { x with live := removeOldest l sl x.live }) with
    lsig := fun l' e' => if l' = l ∧ e' = e then rmFirst (fun t => t.2.1 == g && t.2.2 == sl) (s.lsig l e) else s.lsig l' e' }

def delL (l : Nat) (s : SState) : SState :=
  { s with lAlive := fun l' => if l' = l then false else s.lAlive l'
           lsig := fun l' e => if l' = l then [] else s.lsig l' e
           sig := fun e g => { s.sig e g with live := (s.sig e g).live.filter (fun c => c.receiver ≠ l) } }

def delE (e : Nat) (s : SState) : SState :=
  { s with eAlive := fun e' => if e' = e then false else s.eAlive e'
           lsig := fun l e' => if e' = e then [] else s.lsig l e'
           sig := fun e' g => if e' = e then Sig.empty else s.sig e' g }

/-- an emission in progress is identified by (emitter, signal); its position is the rest of
    the snapshot -/
def begin (e g : Nat) (s : SState) : SState × Option ((Nat × Nat) × List Nat) :=
  let x := s.sig e g
  let start := x.outerStart.getD s.clock
  let x' : Sig := { x with outerStart := some start, depth := x.depth + 1 }
  (s.setSig e g x', some ((e, g), (x.live.filter (fun c => c.uid < start)).map (·.uid)))

/-- next uid of the snapshot that is still live -/
def nextLive (live : List Conn) : List Nat → Option (Conn × List Nat)
  | [] => none
  | u :: us =>
    match live.find? (fun c => c.uid = u) with
    | some c => some (c, us)
    | none => nextLive live us

def next (s : SState) (a : Nat × Nat) (snap : List Nat) : Step (List Nat) :=
  if s.eAlive a.1 then
    match nextLive (s.sig a.1 a.2).live snap with
    | none => .done
    | some (c, rest) => .call c.receiver c.slot rest
  else .done

def finish (a : Nat × Nat) (s : SState) : SState :=
  if s.eAlive a.1 then
    let x := s.sig a.1 a.2
    s.setSig a.1 a.2 { x with depth := x.depth - 1, outerStart := if x.depth ≤ 1 then none else x.outerStart }
  else s

def machine : Machine SState (Nat × Nat) (List Nat) where
  connect := connect
  disconnect := disconnect
  delL := delL
  delE := delE
  aliveE := fun s e => s.eAlive e
  aliveL := fun s l => s.lAlive l
  begin := begin
  next := next
  finish := finish

/-- nothing connected, no emission in progress, every object exists -/
def SState.fresh : SState :=
  { sig := fun _ _ => Sig.empty, lsig := fun _ _ => [], eAlive := fun _ => true, lAlive := fun _ => true, clock := 0 }

end Nstd.Callback.Spec
