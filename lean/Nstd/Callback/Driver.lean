import Nstd.Common.Basic
import Nstd.Callback.Model
import Nstd.Callback.Spec
import Nstd.Callback.ModelReuse
/-
  Line protocol of the Callback area (property C12).  Universe of the harness: 3 emitters
  with 10 signals each (signal `g < 9` has `g` `int` parameters: it goes through the arity-`g` overloads of
  `emit` / `connect` / `disconnect`; signal 9 has one `int&` parameter: script action `aD` = the slot adds D to its
  parameter before it returns, ` =w` in the log = a slot called with the reference left `w` in it), 3 listeners with 2 slots each, script cells (listener, slot,
  invocation# < 8) of at most 8 actions.  An emission carries one number `v < 10`: the harness passes
  `(v, v+1, …, v+g-1)`, the slot checks the tuple and logs `v` (`v` must be 0 for signal 0).

    reset | reuse                         (`reuse`: the harness re-creates objects at the address of their predecessor)
    script <l> <s> <k> <action>*          body of slot s of listener l at its k-th invocation
    connect <e> <g> <l> <s> | disconnect <e> <g> <l> <s> | emit <e> <g> <v> | dell <l> | dele <e>
    newl <l> | newe <e>                   a destroyed object is replaced by a new one
    end                                   destroys the remaining listeners, then the remaining emitters
    refargs <v>                           fixed scenario with reference parameters (not modelled: the line is
                                          computed by `refArgs` below from the C++ rules for references)

  script actions: `cEGLS` connect, `dEGLS` disconnect, `mEGV` emit, `Ll` delete listener,
  `Ee` delete emitter, `nl` new listener, `we` new emitter (single digits).

  Observation after a top-level action: the invocation log of that action and the
  bookkeeping of both sides,
    log <ev> <ev> ... | E0:g0=<slots> g4=<slots> E1:x E2:- ... | L0:e0=<pairs> e1=.. e2=.. L1:x ...
  `<ev>` = `l.s:v` slot s of listener l invoked with argument v, `<e.g:v` start of an `emit` call, `>` its return;
  only the signals with entries (or a set flag) are listed, `-` when there is none;
  `<slots>` = `-` or comma separated `l.s` (+ `n`/`d` when the state is connecting /
  disconnected) + `!` when the dirty flag or the activation pointer is set; `<pairs>` = `-` or
  comma separated `g.s`; `x` = destroyed.  The driver also runs the specification machine on the
  same lines and appends ` SPECDIFF` when the two invocation logs differ (a test of theorem
  `emit_refines`), ` REUSEDIFF` when the run of the model with address reuse (`execR`) shows another log or bookkeeping, ` LSDIFF` when a listener-side list differs from the specification's view, ` FAULT` when the model touched freed memory, ` OOF` when the fuel ran out.
-/
open Nstd.Common
namespace Nstd.Callback

def NE : Nat := 3
def NG : Nat := 10
def NV : Nat := 10
def NL : Nat := 3
def NS : Nat := 2
def MAXK : Nat := 8
def MAXACT : Nat := 8
def FUEL : Nat := 1000000

structure DState where
  table : List ((Nat × Nat × Nat) × List Action)
  mr : Run State
  sr : Run Spec.SState
  /-- the run of the model with ADDRESS REUSE (`execR`, ModelReuse.lean): a re-created object gets the id of its predecessor -/
  rr : Run State

def DState.init : DState :=
  { table := [], mr := Run.init State.fresh NE NL, sr := Run.init Spec.SState.fresh NE NL, rr := Run.init State.fresh NE NL }

def digit (c : Char) (bound : Nat) : Option Nat :=
  if '0' ≤ c ∧ c ≤ '9' ∧ c.toNat - 48 < bound then some (c.toNat - 48) else none

def parseAction (t : String) : Option Action :=
  match t.toList with
  | ['c', e, g, l, s] => do pure (.connect (← digit e NE) (← digit g NG) (← digit l NL) (← digit s NS))
  | ['d', e, g, l, s] => do pure (.disconnect (← digit e NE) (← digit g NG) (← digit l NL) (← digit s NS))
  | ['m', e, g, v] => do
    let g ← digit g NG
    let v ← digit v NV
    if g = 0 ∧ v ≠ 0 then none else pure (.emit (← digit e NE) g v)
  | ['a', d] => do pure (.bump (← digit d 10))
  | ['L', l] => do pure (.delL (← digit l NL))
  | ['E', e] => do pure (.delE (← digit e NE))
  | ['n', l] => do pure (.newL (← digit l NL))
  | ['w', e] => do pure (.newE (← digit e NE))
  | _ => none

def num (t : String) (bound : Nat) : Option Nat :=
  match t.toNat? with
  | some n => if n < bound then some n else none
  | none => none

def parseTop (ws : List String) : Option Action :=
  match ws with
  | ["connect", e, g, l, s] => do pure (.connect (← num e NE) (← num g NG) (← num l NL) (← num s NS))
  | ["disconnect", e, g, l, s] => do pure (.disconnect (← num e NE) (← num g NG) (← num l NL) (← num s NS))
  | ["emit", e, g, v] => do
    let g ← num g NG
    let v ← num v NV
    if g = 0 ∧ v ≠ 0 then none else pure (.emit (← num e NE) g v)
  | ["dell", l] => do pure (.delL (← num l NL))
  | ["dele", e] => do pure (.delE (← num e NE))
  | ["newl", l] => do pure (.newL (← num l NL))
  | ["newe", e] => do pure (.newE (← num e NE))
  | _ => none

def slotStr (lIdx : Nat → Nat) (x : Slot) : String :=
  s!"{lIdx x.receiver}.{x.slot}" ++ (match x.state with | .connected => "" | .connecting => "n" | .disconnected => "d")

def slotsStr (lIdx : Nat → Nat) (d : Option SignalData) : String :=
  match d with
  | none => "-"
  | some d =>
    (if d.slots.isEmpty then "-" else ",".intercalate (d.slots.map (slotStr lIdx))) ++
      (if d.dirty || d.activation.isSome then "!" else "")

def emitterStr (r : Run State) (e : Nat) : String :=
  s!"E{e}:" ++
    match r.m.emitters (r.emId e) with
    | none => "x"
    | some em =>
      let gs := (List.range NG).filter (fun g => match em.sig g with
        | none => false
        | some d => !d.slots.isEmpty || d.dirty || d.activation.isSome)
      if gs.isEmpty then "-" else " ".intercalate (gs.map (fun g => s!"g{g}=" ++ slotsStr r.lIdx (em.sig g)))

def pairsStr (l : List (Nat × Nat)) : String :=
  if l.isEmpty then "-" else ",".intercalate (l.map (fun p => s!"{p.1}.{p.2}"))

def listenerStr (r : Run State) (l : Nat) : String :=
  s!"L{l}:" ++
    match r.m.listeners (r.lId l) with
    | none => "x"
    | some li => " ".intercalate ((List.range NE).map (fun e => s!"e{e}=" ++ pairsStr (li.sigs (r.emId e))))

def evStr : Ev → String
  | .call l s v => s!" {l}.{s}:{v}"
  | .emitBegin e g v => s!" <{e}.{g}:{v}"
  | .emitEnd => " >"
  | .ret w => s!" ={w}"

def logStr (log : List Ev) : String :=
  "log" ++ String.join (log.reverse.map evStr)

/-- The `refargs` scenario of the harness (reference parameters; NOT part of the model, written
    from the C++ rules): signal `(int& a, const int& b, int* c)` emitted with `a = v`, `b = 2`,
    `*c = 0` to three connected slots; each slot logs `a:b:*c`, then does `a += 1; *c += b`.  All
    slots share the caller's objects, which the caller reads afterwards. -/
def refArgs (v : Nat) : String :=
  "ref" ++ String.join ((List.range 3).map (fun i => s!" {v + i}:2:{2 * i}")) ++ s!" | {v + 3} 6"


/-- a test of theorem `listener_side_exact`: some listener-side list differs from the
    specification's view -/
def lsDiff (d : DState) : Bool :=
  (List.range NL).any (fun l =>
    match d.mr.m.listeners (d.mr.lId l) with
    | none => false
    | some li => (List.range NE).any (fun e =>
        li.sigs (d.mr.emId e) != (d.sr.m.lsig (d.mr.lId l) (d.mr.emId e)).map (·.2)))

/-- log and bookkeeping of a run, read through its own variables -/
def obsCore (r : Run State) : String :=
  logStr r.log ++ " | " ++ " ".intercalate ((List.range NE).map (emitterStr r)) ++ " | " ++
    " ".intercalate ((List.range NL).map (listenerStr r))

def obs (d : DState) : String :=
  let st := d.mr.m
  obsCore d.mr ++
    (if d.mr.log != d.sr.log then " SPECDIFF" else "") ++
    -- a test of the OPEN refinement `reuse_refines` (PropsReuse.lean): the run with address reuse must show the same log and
    -- the same bookkeeping, and must not touch freed memory either
    (if obsCore d.rr != obsCore d.mr || d.rr.m.fault || d.rr.bad || d.rr.m.frames.length != st.frames.length then " REUSEDIFF" else "") ++
    (if lsDiff d then " LSDIFF" else "") ++
    (if st.fault || d.mr.bad || !st.frames.isEmpty then " FAULT" else "") ++
    (if d.mr.oof || d.sr.oof then " OOF" else "")

def stepLine (d : DState) (ws : List String) : DState × String :=
  match ws with
  | ["reset"] => (DState.init, "ok")
  -- `reuse` = `reset`; the harness constructs its objects in place from then on, so that a re-created object
  -- has the address of its destroyed predecessor (the model knows no addresses: nothing may change)
  | ["reuse"] => (DState.init, "ok")
  | "script" :: l :: s :: k :: toks =>
    match num l NL, num s NS, num k MAXK, toks.mapM parseAction with
    | some l, some s, some k, some as =>
      if as.length ≤ MAXACT then
        ({ d with table := ((l, s, k), as) :: d.table }, "ok")
      else (d, "bad-op")
    | _, _, _, _ => (d, "bad-op")
  -- `mfp`: the harness checks what the model assumes of `MemberFuncPtr` on its 10 signal and 20 slot pointers (equal size,
  -- `==` = identity = equality of the bytes, `<`/`>` a strict total order); the model has ids
  | ["mfp"] => (d, s!"mfp ok sigs={NG} slots={NS * NG}")
  | ["refargs", v] =>
    match num v NV with
    | some v => (d, refArgs v)
    | none => (d, "bad-op")
  | _ =>
    -- `end`: the harness destroys whatever is left (listeners first, then emitters)
    let top : Option (List Action) :=
      if ws = ["end"] then some ((List.range NL).map Action.delL ++ (List.range NE).map Action.delE)
      else (parseTop ws).map (fun a => [a])
    match top with
    | none => (d, "bad-op")
    | some as =>
      let P : Prog := Prog.ofTable d.table (fun g => g == 9)
      let mr := exec machine P FUEL { d.mr with log := [] } (.acts as)
      let sr := exec Spec.machine P FUEL { d.sr with log := [] } (.acts as)
      let rr := execR P FUEL { d.rr with log := [] } (.acts as)
      let d' := { d with mr := mr, sr := sr, rr := rr }
      (d', obs d')

end Nstd.Callback

def main : IO Unit := Nstd.Common.ioLoop Nstd.Callback.DState.init Nstd.Callback.stepLine
