import Nstd.Callback.LemmasPut
/-
  Obligation `SimOK.finish`: `SignalActivation::~SignalActivation` (deferred purge, propagation
  of the invalidation) against the end of an emission of the specification.
-/
namespace Nstd.Callback
open Spec

theorem countFrames_ne_zero_of_mem {fs : List Frame} {eg : Nat × Nat} {f : Frame} (hf : f ∈ fs) (hd : f.data = eg) :
    countFrames fs eg ≠ 0 := by
  induction fs with
  | nil => simp at hf
  | cons a as ih =>
    simp only [countFrames]
    rcases List.mem_cons.1 hf with rfl | hf'
    · simp [hd]
    · have := ih hf'; omega

theorem data_frames (m : State) (fs : List Frame) (e g : Nat) :
    ({ m with frames := fs } : State).data e g = m.data e g := rfl

/-- the innermost frame belonged to a destroyed emitter: the frames below (one of them possibly
    newly invalidated) still satisfy everything -/
theorem sim_pop_dead {m : State} {s : SState} {K : MStack} {f : Frame} {fs fs' : List Frame} {e g : Nat}
    (h : Sim m s K') (hfr : m.frames = f :: fs) (hfd : f.data = (e, g)) (hdead : m.emitters e = none)
    (hcur : Cursors m K fs)
    (hd : fs'.map (·.data) = fs.map (·.data)) (hn : fs'.map (·.next) = fs.map (·.next))
    (hm : ∀ f' ∈ fs', ∃ f0 ∈ fs, f'.data = f0.data ∧ (f' = f0 ∨ (f'.invalidated = true ∧ f0.data = (e, g))))
    (hdi : ∀ e' g' i, m.emitters e' = none → topOf fs' (e', g') = some i →
      ∃ f', frameAt fs' i = some f' ∧ f'.invalidated = true) :
    Sim { m with frames := fs' } s K := by
  have hlinks := h.f.links
  rw [hfr] at hlinks
  have hne : ∀ e' g', (m.emitters e').isSome → ¬ (f.data = (e', g')) := by
    intro e' g' hal hh
    rw [hfd] at hh
    simp only [Prod.mk.injEq] at hh
    rw [← hh.1, hdead] at hal
    simp at hal
  refine ⟨h.nofault, ⟨?_, ?_, ?_, ?_, hdi⟩, ⟨h.sl.clean, h.sl.allConn, h.sl.sorted, h.sl.bound, h.sl.obj⟩,
    ⟨h.b.recv, h.b.count, h.b.ekeys, h.b.lkeys⟩, ⟨h.abs.clock, h.abs.eAlive, h.abs.lAlive, h.abs.live, ?_, ?_, h.abs.born, h.abs.startLe⟩, ?_⟩
  · exact links_congr hd.symm hn.symm hlinks.2
  · intro e' g' d' hd'
    have hal : (m.emitters e').isSome := by
      simp only [State.data] at hd'
      cases hx : m.emitters e' with
      | none => rw [hx] at hd'; simp at hd'
      | some _ => rfl
    have := h.f.act e' g' d' hd'
    rw [hfr] at this
    simp only [topOf, hne e' g' hal, if_false] at this
    rw [this]
    exact (topOf_congr hd (e', g')).symm
  · intro f' hf' hal
    obtain ⟨f0, hf0, hdat, _⟩ := hm f' hf'
    have := h.f.hasData f0 (by rw [hfr]; exact List.mem_cons_of_mem _ hf0)
    rw [hdat]
    rw [hdat] at hal
    exact this hal
  · intro f' hf' hi
    obtain ⟨f0, hf0, hdat, hc⟩ := hm f' hf'
    rcases hc with rfl | ⟨_, h0⟩
    · exact h.f.invDead f' (by rw [hfr]; exact List.mem_cons_of_mem _ hf0) hi
    · show m.emitters f'.data.1 = none
      rw [hdat, h0]; exact hdead
  · intro e' g' hal
    have := h.abs.depth e' g' hal
    rw [hfr] at this
    simp only [countFrames, hne e' g' hal, if_false, Nat.zero_add] at this
    rw [this]
    exact (countFrames_congr hd (e', g')).symm
  · intro e' g' hal
    have := h.abs.outer e' g' hal
    rw [hfr] at this
    simp only [countFrames, hne e' g' hal, if_false, Nat.zero_add] at this
    rw [this]
    show _ ↔ countFrames fs' (e', g') = 0
    rw [countFrames_congr hd (e', g')]
  · show Cursors { m with frames := fs' } K fs'
    apply cursors_frames_congr hd.symm
    exact cursors_mono (m := m) (Nat.le_refl _) (fun e' g' d' _ hal hd' => ⟨hal, d', hd', fun _ _ _ hh => hh⟩) hcur

theorem sim_finish {m : State} {s : SState} {fid : Nat} {idx : Option Nat} {eg : Nat × Nat} {snap : List Nat} {K : MStack}
    (h : Sim m s (((fid, idx), (eg, snap)) :: K)) :
    Sim (machine.finish fid m) (Spec.machine.finish eg s) K := by
  obtain ⟨e, g⟩ := eg
  have hc := h.cur
  cases hfr : m.frames with
  | nil => rw [hfr] at hc; exact absurd hc (by simp [Cursors])
  | cons f fs =>
    rw [hfr] at hc
    obtain ⟨rfl, hdata, hbound, hli, hrest⟩ := hc
    have hfm : f ∈ m.frames := by rw [hfr]; exact List.mem_cons_self ..
    have hlinks : f.next = topOf fs f.data ∧ LinksOK fs := by
      have := h.f.links
      rw [hfr] at this
      exact this
    rw [hdata] at hlinks
    simp only [machine, Spec.machine, actEnd, hfr, frameAt_top, popTo_top]
    by_cases hinv : f.invalidated = true
    · have hdead := h.f.invDead f hfm hinv
      rw [hdata] at hdead
      simp only at hdead
      have hea : s.eAlive e = false := by rw [h.abs.eAlive, hdead]; rfl
      simp only [hinv, Bool.not_true, Bool.false_eq_true, if_false, Spec.finish, hea]
      cases hnx : f.next with
      | none =>
        simp only
        apply sim_pop_dead h hfr hdata hdead hrest rfl rfl
        · intro f' hf'; exact ⟨f', hf', rfl, Or.inl rfl⟩
        · intro e' g' i he' htop
          by_cases c : (e, g) = (e', g')
          · rw [← c, ← hlinks.1, hnx] at htop; simp at htop
          · have := h.f.deadInv e' g' i he'
            rw [hfr] at this
            simp only [topOf, hdata, c, if_false] at this
            obtain ⟨f', hf', hi'⟩ := this htop
            rw [frameAt_cons_lt (topOf_lt htop)] at hf'
            exact ⟨f', hf', hi'⟩
      | some n =>
        have htop : topOf fs (e, g) = some n := by rw [← hlinks.1, hnx]
        obtain ⟨fn, hfn⟩ := frameAt_of_lt (topOf_lt htop)
        simp only [invalidate, hfn]
        apply sim_pop_dead h hfr hdata hdead hrest (setInvalid_data fs n) (setInvalid_next fs n)
        · intro f' hf'
          obtain ⟨f0, hf0, h1, _, h3⟩ := mem_setInvalid hf'
          refine ⟨f0, hf0, h1, ?_⟩
          rcases h3 with h3 | ⟨h3, h4⟩
          · exact Or.inl h3
          · rw [hfn] at h4; cases h4
            exact Or.inr ⟨h3, topOf_data htop hfn⟩
        · intro e' g' i he' htop'
          rw [topOf_congr (setInvalid_data fs n)] at htop'
          rw [frameAt_setInvalid]
          by_cases c : (e, g) = (e', g')
          · rw [← c, htop] at htop'
            cases htop'
            simp [hfn]
          · have := h.f.deadInv e' g' i he'
            rw [hfr] at this
            simp only [topOf, hdata, c, if_false] at this
            obtain ⟨f', hf', hi'⟩ := this htop'
            rw [frameAt_cons_lt (topOf_lt htop')] at hf'
            rw [hf']
            by_cases c2 : i = n
            · simp [c2]
            · simp [c2, hi']
    · -- the emitter is alive: unregister, purge when this was the outermost emission
      have hinv' : f.invalidated = false := by simpa using hinv
      have halive : (m.emitters e).isSome = true := by
        cases hem : m.emitters e with
        | some _ => rfl
        | none =>
          have htop : topOf m.frames (e, g) = some fs.length := by simp [hfr, topOf, hdata]
          obtain ⟨f', hf', hi'⟩ := h.f.deadInv e g _ hem htop
          rw [hfr, frameAt_top] at hf'
          cases hf'
          exact absurd hi' hinv
      cases hem : m.emitters e with
      | none => rw [hem] at halive; simp at halive
      | some em =>
      have hsd := h.f.hasData f hfm (by rw [hdata]; exact halive)
      rw [hdata] at hsd
      simp only at hsd
      cases hsg : em.sig g with
      | none => simp [State.data, hem, hsg] at hsd
      | some d =>
      have hdd : m.data e g = some d := by simp [State.data, hem, hsg]
      have hea : s.eAlive e = true := by rw [h.abs.eAlive]; exact halive
      have hnext : f.next = topOf fs (e, g) := hlinks.1
      simp only [hinv', Bool.not_false, if_true, hdata, hem, hsg, Spec.finish, hea]
      have hx : (s.sig e g).depth = 1 + countFrames fs (e, g) := by
        have := h.abs.depth e g halive
        rw [hfr] at this
        simpa [countFrames, hdata] using this
      have hother : ∀ e' g', ¬ (e' = e ∧ g' = g) → ¬ (f.data = (e', g')) := by
        intro e' g' c hh
        rw [hdata] at hh
        simp only [Prod.mk.injEq] at hh
        exact c ⟨hh.1.symm, hh.2.symm⟩
      have key : ∀ d2 : SignalData, d2.activation = f.next →
          (d2.activation = none → d2.dirty = false) →
          (d2.dirty = false → ∀ x ∈ d2.slots, x.state = .connected) →
          Sorted d2.slots → (∀ x ∈ d2.slots, x.node < m.nextNode) → (∀ x ∈ d2.slots, x.object = x.receiver) →
          (∀ x ∈ d2.slots, x.state ≠ .disconnected → (m.listeners x.receiver).isSome) →
          (∀ l x, d2.slots.countP (fun y => y.isMatch l x) = d.slots.countP (fun y => y.isMatch l x)) →
          liveOf (some d2) = liveOf (some d) →
          (f.next ≠ none → d2.slots = d.slots) →
          Sim (({ m with frames := fs } : State).setEmitter e (some (em.setSig g d2)))
            (s.setSig e g { s.sig e g with depth := (s.sig e g).depth - 1,
                                           outerStart := if (s.sig e g).depth ≤ 1 then none else (s.sig e g).outerStart }) K := by
        intro d2 ha h1 h2 h3 h4 h5 hrecv hcnt hlv hsame
        have hdata' : ∀ e' g', ((({ m with frames := fs } : State).setEmitter e (some (em.setSig g d2))).data e' g') =
            if e' = e ∧ g' = g then some d2 else m.data e' g' :=
          fun e' g' => data_put (st := { m with frames := fs }) d2 hem e' g'
        have hems' : ∀ e', ((({ m with frames := fs } : State).setEmitter e (some (em.setSig g d2))).emitters e').isSome =
            (m.emitters e').isSome := fun e' => isSome_put (m0 := { m with frames := fs }) hem e'
        have hkeys := ekeys_put (m0 := { m with frames := fs }) (d' := d2) (g := g) h.b hem rfl
        have hfr' : (({ m with frames := fs } : State).setEmitter e (some (em.setSig g d2))).frames = fs := rfl
        have hli' : (({ m with frames := fs } : State).setEmitter e (some (em.setSig g d2))).listeners = m.listeners := rfl
        have hnn' : (({ m with frames := fs } : State).setEmitter e (some (em.setSig g d2))).nextNode = m.nextNode := rfl
        have hfa' : (({ m with frames := fs } : State).setEmitter e (some (em.setSig g d2))).fault = m.fault := rfl
        generalize (({ m with frames := fs } : State).setEmitter e (some (em.setSig g d2))) = m' at hdata' hems' hkeys hfr' hli' hnn' hfa' ⊢
        have hnone : ∀ e', m'.emitters e' = none ↔ m.emitters e' = none := by
          intro e'
          have := hems' e'
          cases h1 : m'.emitters e' <;> cases h2 : m.emitters e' <;> simp [h1, h2] at this ⊢
        have hcntnext : countFrames fs (e, g) ≠ 0 → f.next ≠ none := by
          intro h0 hh
          rw [hnext] at hh
          exact h0 (topOf_none_iff.1 hh)
        refine ⟨by rw [hfa']; exact h.nofault, ⟨?_, ?_, ?_, ?_, ?_⟩, ?_, ⟨?_, ?_, hkeys, ?_⟩, ⟨?_, ?_, ?_, ?_, ?_, ?_, ?_, ?_⟩, ?_⟩
        · rw [hfr']; exact hlinks.2
        · intro e' g' d' hd'
          rw [hdata'] at hd'
          rw [hfr']
          by_cases c : e' = e ∧ g' = g
          · obtain ⟨rfl, rfl⟩ := c
            simp only [and_self, if_true, Option.some.injEq] at hd'
            subst hd'
            rw [ha, hnext]
          · simp only [c, if_false] at hd'
            have := h.f.act e' g' d' hd'
            rw [hfr] at this
            simpa only [topOf, hother e' g' c, if_false] using this
        · intro f' hf' hal
          rw [hfr'] at hf'
          rw [hems'] at hal
          rw [hdata']
          by_cases c : f'.data.1 = e ∧ f'.data.2 = g
          · simp [c]
          · simp only [c, if_false]
            exact h.f.hasData f' (by rw [hfr]; exact List.mem_cons_of_mem _ hf') hal
        · intro f' hf' hi
          rw [hfr'] at hf'
          exact (hnone _).2 (h.f.invDead f' (by rw [hfr]; exact List.mem_cons_of_mem _ hf') hi)
        · intro e' g' i he' htop
          rw [hfr'] at htop ⊢
          have he0 := (hnone e').1 he'
          have hne : ¬ (e' = e ∧ g' = g) := by
            intro hh; rw [hh.1, hem] at he0; simp at he0
          have := h.f.deadInv e' g' i he0
          rw [hfr] at this
          simp only [topOf, hother e' g' hne, if_false] at this
          obtain ⟨f', hf', hi'⟩ := this htop
          rw [frameAt_cons_lt (topOf_lt htop)] at hf'
          exact ⟨f', hf', hi'⟩
        · exact sinv_put h.sl hdata' (Nat.le_of_eq hnn'.symm) h1 h2 h3 (by rw [hnn']; exact h4) h5
        · intro e' g' d' hd'
          rw [hdata'] at hd'
          rw [hli']
          by_cases c : e' = e ∧ g' = g
          · simp only [c, and_self, if_true, Option.some.injEq] at hd'
            subst hd'; exact hrecv
          · simp only [c, if_false] at hd'; exact h.b.recv e' g' d' hd'
        · intro l li e' g' x hl
          rw [hli'] at hl
          rw [hdata', h.b.count l li e' g' x hl]
          by_cases c : e' = e ∧ g' = g
          · obtain ⟨rfl, rfl⟩ := c
            simp [hdd, hcnt]
          · simp only [c, if_false]
        · intro l li e' hl; rw [hli'] at hl; exact h.b.lkeys l li e' hl
        · rw [hnn']; exact h.abs.clock
        · intro e'; rw [hems']; exact h.abs.eAlive e'
        · intro l; rw [hli']; exact h.abs.lAlive l
        · intro e' g'
          rw [hdata']
          simp only [SState.setSig]
          by_cases c : e' = e ∧ g' = g
          · obtain ⟨rfl, rfl⟩ := c
            simp only [and_self, if_true]
            rw [hlv, h.abs.live, hdd]
          · simp only [c, if_false]; exact h.abs.live e' g'
        · intro e' g' hal'
          rw [hems'] at hal'
          rw [hfr']
          simp only [SState.setSig]
          by_cases c : e' = e ∧ g' = g
          · obtain ⟨rfl, rfl⟩ := c
            simp only [and_self, if_true]
            omega
          · simp only [c, if_false]
            have := h.abs.depth e' g' hal'
            rw [hfr] at this
            simpa only [countFrames, hother e' g' c, if_false, Nat.zero_add] using this
        · intro e' g' hal'
          rw [hems'] at hal'
          rw [hfr']
          simp only [SState.setSig]
          by_cases c : e' = e ∧ g' = g
          · obtain ⟨rfl, rfl⟩ := c
            simp only [and_self, if_true]
            have hold := h.abs.outer e' g' hal'
            rw [hfr] at hold
            simp only [countFrames, hdata, if_true] at hold
            by_cases c0 : countFrames fs (e', g') = 0
            · have : (s.sig e' g').depth ≤ 1 := by omega
              simp [this, c0]
            · have : ¬ (s.sig e' g').depth ≤ 1 := by omega
              simp only [this, if_false, c0, iff_false]
              intro hh
              have := hold.1 hh
              omega
          · simp only [c, if_false]
            have := h.abs.outer e' g' hal'
            rw [hfr] at this
            simpa only [countFrames, hother e' g' c, if_false, Nat.zero_add] using this
        · intro e' g' d' t hd' ht x hx hnd
          rw [hdata'] at hd'
          simp only [SState.setSig] at ht
          by_cases c : e' = e ∧ g' = g
          · obtain ⟨rfl, rfl⟩ := c
            simp only [and_self, if_true, Option.some.injEq] at hd' ht
            subst hd'
            by_cases c0 : (s.sig e' g').depth ≤ 1
            · simp [c0] at ht
            · simp only [c0, if_false] at ht
              have hs := hsame (hcntnext (by omega))
              rw [hs] at hx
              exact h.abs.born e' g' d t hdd ht x hx hnd
          · simp only [c, if_false] at hd' ht
            exact h.abs.born e' g' d' t hd' ht x hx hnd
        · intro e' g' t ht
          simp only [SState.setSig] at ht
          show t ≤ s.clock
          by_cases c : e' = e ∧ g' = g
          · obtain ⟨rfl, rfl⟩ := c
            simp only [and_self, if_true] at ht
            by_cases c0 : (s.sig e' g').depth ≤ 1
            · simp [c0] at ht
            · simp only [c0, if_false] at ht
              exact h.abs.startLe e' g' t ht
          · simp only [c, if_false] at ht
            exact h.abs.startLe e' g' t ht
        · rw [hfr']
          apply cursors_mono (m := m) (Nat.le_of_eq hnn'.symm) _ hrest
          intro e' g' d' hmem hal' hd'
          rw [hems'] at hal'
          rw [hdata'] at hd'
          refine ⟨hal', ?_⟩
          by_cases c : e' = e ∧ g' = g
          · obtain ⟨rfl, rfl⟩ := c
            simp only [and_self, if_true, Option.some.injEq] at hd'
            subst hd'
            have hc0 : countFrames fs (e', g') ≠ 0 := by
              simp only [List.mem_map] at hmem
              obtain ⟨f', hf', hfd'⟩ := hmem
              exact countFrames_ne_zero_of_mem hf' hfd'
            exact ⟨d, hdd, fun _ _ _ hh => by rw [hsame (hcntnext hc0)]; exact hh⟩
          · simp only [c, if_false] at hd'
            exact ⟨d', hd', fun _ _ _ hh => hh⟩
      -- the two cases of the destructor
      have hb := h.sl.bound e g d hdd
      have hso := h.sl.sorted e g d hdd
      have hob := h.sl.obj e g d hdd
      have hre := h.b.recv e g d hdd
      by_cases c : (f.next.isNone && d.dirty) = true
      · simp only [c, if_true]
        have c' := c
        simp only [Bool.and_eq_true, Option.isNone_iff_eq_none] at c'
        apply key
        · rfl
        · intro _; rfl
        · intro _ x hx
          obtain ⟨x', _, _, rfl⟩ := mem_purge hx
          rfl
        · exact purge_sorted hso
        · intro x hx
          obtain ⟨x', hx', _, rfl⟩ := mem_purge hx
          exact hb x' hx'
        · intro x hx
          obtain ⟨x', hx', _, rfl⟩ := mem_purge hx
          exact hob x' hx'
        · intro x hx _
          obtain ⟨x', hx', hnd', rfl⟩ := mem_purge hx
          exact hre x' hx' hnd'
        · intro l x; exact purge_countP l x d.slots
        · simp only [liveOf]; exact purge_live d.slots
        · intro hh; exact absurd c'.1 hh
      · simp only [c, if_false]
        apply key
        · rfl
        · intro hh
          have hact := h.f.act e g d hdd
          rw [hfr] at hact
          simp only [Bool.and_eq_true, Option.isNone_iff_eq_none, not_and, Bool.not_eq_true] at c
          exact c hh
        · exact h.sl.allConn e g d hdd
        · exact hso
        · exact hb
        · exact hob
        · exact hre
        · intro l x; rfl
        · rfl
        · intro _; rfl

end Nstd.Callback
