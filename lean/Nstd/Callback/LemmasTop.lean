import Nstd.Callback.LemmasDelE
/-
  The nine obligations assembled (`simOK`), the initial states, and runs of top-level actions.
-/
namespace Nstd.Callback
open Spec

theorem simOK : SimOK machine Spec.machine Sim (fun _ => True) where
  aliveE := fun e h => by simp only [machine, Spec.machine]; exact (h.abs.eAlive e).symm
  aliveL := fun l h => by simp only [machine, Spec.machine]; exact (h.abs.lAlive l).symm
  connect := fun e g l x _ h he hl => sim_connect e g l x h he hl
  disconnect := fun e g l x _ h he hl => sim_disconnect e g l x h he hl
  delL := fun l _ h hl => sim_delL l h hl
  delE := fun e _ h he => sim_delE e h he
  begin := fun e g _ h he => sim_begin e g h he
  next := fun h => sim_next h
  finish := fun h => sim_finish h

theorem sim_init (ne nl : Nat) : Sim (State.create ne nl) (SState.create ne nl) [] := by
  have hdata : ∀ e g, (State.create ne nl).data e g = none := by
    intro e g
    simp only [State.data, State.create]
    by_cases c : e < ne <;> simp [c]
  refine ⟨rfl, ⟨trivial, ?_, ?_, ?_, ?_⟩, ⟨?_, ?_, ?_, ?_, ?_⟩, ⟨?_, ?_, ?_, ?_⟩, ⟨rfl, ?_, ?_, ?_, ?_, ?_, ?_, ?_⟩, trivial⟩
  · intro e g d hd; rw [hdata] at hd; cases hd
  · intro f hf; simp [State.create, State.init] at hf
  · intro f hf; simp [State.create, State.init] at hf
  · intro e g i _ ht; simp [State.create, State.init, topOf] at ht
  · intro e g d hd; rw [hdata] at hd; cases hd
  · intro e g d hd; rw [hdata] at hd; cases hd
  · intro e g d hd; rw [hdata] at hd; cases hd
  · intro e g d hd; rw [hdata] at hd; cases hd
  · intro e g d hd; rw [hdata] at hd; cases hd
  · intro e g d hd; rw [hdata] at hd; cases hd
  · intro l li e g x hl
    rw [hdata]
    simp only [State.create] at hl
    by_cases c : l < nl
    · simp only [c, if_true, Option.some.injEq] at hl; subst hl; simp
    · simp [c] at hl
  · intro e em g hem hsg
    simp only [State.create] at hem
    by_cases c : e < ne
    · simp only [c, if_true, Option.some.injEq] at hem; subst hem; simp at hsg
    · simp [c] at hem
  · intro l li e hl hne
    simp only [State.create] at hl
    by_cases c : l < nl
    · simp only [c, if_true, Option.some.injEq] at hl; subst hl; simp at hne
    · simp [c] at hl
  · intro e
    simp only [SState.create, State.create]
    by_cases c : e < ne <;> simp [c]
  · intro l
    simp only [SState.create, State.create]
    by_cases c : l < nl <;> simp [c]
  · intro e g; rw [hdata]; rfl
  · intro e g _; rfl
  · intro e g _; simp [SState.create, Sig.empty, State.create, State.init, countFrames]
  · intro e g d t hd; rw [hdata] at hd; cases hd
  · intro e g t ht; simp [SState.create, Sig.empty] at ht

/-- what the driver does: every top-level action is run to completion with its own fuel -/
def runOps {σ α π : Type} (M : Machine σ α π) (P : Prog) (fuel : Nat) (r : Run σ) : List Action → Run σ
  | [] => r
  | a :: as => runOps M P fuel (exec M P fuel r (.acts [a])) as

theorem runOps_rel (P : Prog) (fuel : Nat) (ops : List Action) {r₁ : Run State} {r₂ : Run SState}
    (h : RunRel Sim [] r₁ r₂) : RunRel Sim [] (runOps machine P fuel r₁ ops) (runOps Spec.machine P fuel r₂ ops) := by
  induction ops generalizing r₁ r₂ with
  | nil => exact h
  | cons a as ih =>
    exact ih ((exec_sim simOK P (fun _ _ _ _ _ => trivial) fuel).1 [] [a] r₁ r₂ (fun _ _ => trivial) h)

theorem init_rel (ne nl : Nat) : RunRel Sim [] (Run.init (State.create ne nl)) (Run.init (SState.create ne nl)) :=
  ⟨sim_init ne nl, rfl, rfl, rfl, rfl⟩

/-- what a quiescent state (no emission in progress) looks like -/
theorem sim_quiescent {m : State} {s : SState} (h : Sim m s []) :
    m.frames = [] ∧ ∀ e g d, m.data e g = some d →
      d.activation = none ∧ d.dirty = false ∧ ∀ x ∈ d.slots, x.state = .connected := by
  have hfr : m.frames = [] := by
    have := h.cur
    cases hf : m.frames with
    | nil => rfl
    | cons f fs => rw [hf] at this; exact absurd this (by simp [Cursors])
  refine ⟨hfr, ?_⟩
  intro e g d hd
  have ha : d.activation = none := by
    have := h.f.act e g d hd
    rw [hfr] at this
    exact this
  have hdirty := h.sl.clean e g d hd ha
  exact ⟨ha, hdirty, h.sl.allConn e g d hd hdirty⟩

end Nstd.Callback
