import Nstd.Callback.LemmasDelE
/-
  The nine obligations assembled (`simOK`), the initial states, and runs of top-level actions.
-/
namespace Nstd.Callback
open Spec

theorem simOK : SimOK machine Spec.machine Sim where
  aliveE := fun e h => by simp only [machine, Spec.machine]; exact (h.abs.eAlive e).symm
  aliveL := fun l h => by simp only [machine, Spec.machine]; exact (h.abs.lAlive l).symm
  connect := fun e g l x h he hl => sim_connect e g l x h he hl
  disconnect := fun e g l x h he hl => sim_disconnect e g l x h he hl
  delL := fun l h hl => sim_delL l h hl
  delE := fun e h he => sim_delE e h he
  begin := fun e g h he => sim_begin e g h he
  next := fun h => sim_next h
  finish := fun h => sim_finish h

theorem sim_init : Sim State.fresh SState.fresh [] := by
  have hdata : ∀ e g, State.fresh.data e g = none := fun e g => rfl
  refine ⟨rfl, ⟨trivial, ?_, ?_, ?_, ?_⟩, ⟨?_, ?_, ?_, ?_, ?_⟩, ⟨?_, ?_, ?_, ?_⟩, ⟨rfl, ?_, ?_, ?_, ?_, ?_, ?_, ?_⟩, trivial⟩
  · intro e g d hd; rw [hdata] at hd; cases hd
  · intro f hf; simp [State.fresh] at hf
  · intro f hf; simp [State.fresh] at hf
  · intro e g i he; simp [State.fresh] at he
  · intro e g d hd; rw [hdata] at hd; cases hd
  · intro e g d hd; rw [hdata] at hd; cases hd
  · intro e g d hd; rw [hdata] at hd; cases hd
  · intro e g d hd; rw [hdata] at hd; cases hd
  · intro e g d hd; rw [hdata] at hd; cases hd
  · intro e g d hd; rw [hdata] at hd; cases hd
  · intro l li e g x hl
    rw [hdata]
    simp only [State.fresh, Option.some.injEq] at hl
    subst hl; simp
  · intro e em g hem hsg
    simp only [State.fresh, Option.some.injEq] at hem
    subst hem; simp at hsg
  · intro l li e hl hne
    simp only [State.fresh, Option.some.injEq] at hl
    subst hl; simp at hne
  · intro e; rfl
  · intro l; rfl
  · intro e g; rfl
  · intro e g _; rfl
  · intro e g _; simp [SState.fresh, Sig.empty, State.fresh, countFrames]
  · intro e g d t hd; rw [hdata] at hd; cases hd
  · intro e g t ht; simp [SState.fresh, Sig.empty] at ht

/-- what the driver does: every top-level action is run to completion with its own fuel -/
def runOps {σ α π : Type} (M : Machine σ α π) (P : Prog) (fuel : Nat) (r : Run σ) : List Action → Run σ
  | [] => r
  | a :: as => runOps M P fuel (exec M P fuel r (.acts [a])) as

theorem runOps_rel (P : Prog) (fuel : Nat) (ops : List Action) {r₁ : Run State} {r₂ : Run SState}
    (h : RunRel Sim [] r₁ r₂) : RunRel Sim [] (runOps machine P fuel r₁ ops) (runOps Spec.machine P fuel r₂ ops) := by
  induction ops generalizing r₁ r₂ with
  | nil => exact h
  | cons a as ih =>
    exact ih ((exec_sim simOK P fuel).1 [] [a] r₁ r₂ h)

theorem init_rel (ne nl : Nat) : RunRel Sim [] (Run.init State.fresh ne nl) (Run.init SState.fresh ne nl) :=
  ⟨sim_init, ⟨rfl, rfl, rfl, rfl, rfl⟩, rfl, rfl, rfl, rfl, fun hh => hh⟩

/-- what a quiescent state (no emission in progress) looks like -/
theorem sim_quiescent {m : State} {s : SState} (h : Sim m s []) :
    m.frames = [] ∧ ∀ e g d, m.data e g = some d →
      d.activation = none ∧ d.dirty = false ∧ ∀ x ∈ d.slots, x.state = .connected := by
  have hfr : m.frames = [] := by
    have := h.cur
    cases hf : m.frames with
    | nil => rfl
    | cons f fs => rw [hf] at this; exact absurd this (by simp [Cursors])
  refine ⟨hfr, ?_⟩
  intro e g d hd
  have ha : d.activation = none := by
    have := h.f.act e g d hd
    rw [hfr] at this
    exact this
  have hdirty := h.sl.clean e g d hd ha
  exact ⟨ha, hdirty, h.sl.allConn e g d hd hdirty⟩

end Nstd.Callback
