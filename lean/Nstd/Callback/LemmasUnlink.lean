import Nstd.Callback.LemmasConnect
/-
  Facts about the search loops of `disconnect` / `~Listener` (`markFirst`, `eraseFirst`,
  `unlinkOrMark`).
-/
namespace Nstd.Callback
open Spec

/-- entry with node `u` becomes `disconnected` -/
def kill (u : Nat) (xs : List Slot) : List Slot :=
  xs.map (fun y => if y.node = u then { y with state := .disconnected } else y)

theorem kill_of_lt {u : Nat} {xs : List Slot} (h : ∀ y ∈ xs, u < y.node) : kill u xs = xs := by
  induction xs with
  | nil => rfl
  | cons y ys ih =>
    have hy := h y (List.mem_cons_self ..)
    have : ¬ y.node = u := by omega
    simp only [kill, List.map_cons, this, if_false]
    congr 1
    exact ih (fun z hz => h z (List.mem_cons_of_mem _ hz))

theorem markFirst_eq_kill {l x : Nat} {xs : List Slot} (hs : Sorted xs) (hm : hasMatch l x xs = true) :
    ∃ y ∈ xs, y.isMatch l x = true ∧ markFirst l x xs = kill y.node xs := by
  induction xs with
  | nil => simp [hasMatch] at hm
  | cons y ys ih =>
    simp only [Sorted, List.pairwise_cons] at hs
    by_cases c : y.isMatch l x = true
    · refine ⟨y, List.mem_cons_self .., c, ?_⟩
      simp only [markFirst, c, if_true, kill, List.map_cons]
      congr 1
      exact (kill_of_lt hs.1).symm
    · simp only [hasMatch, c, Bool.false_or] at hm
      obtain ⟨z, hz, hzm, hk⟩ := ih hs.2 hm
      refine ⟨z, List.mem_cons_of_mem _ hz, hzm, ?_⟩
      have : ¬ y.node = z.node := by have := hs.1 z hz; omega
      simp only [markFirst, c, Bool.false_eq_true, if_false, kill, List.map_cons, this]
      congr 1

theorem markFirst_of_no_match {l x : Nat} {xs : List Slot} (hm : hasMatch l x xs = false) : markFirst l x xs = xs := by
  induction xs with
  | nil => rfl
  | cons y ys ih =>
    simp only [hasMatch, Bool.or_eq_false_iff] at hm
    simp only [markFirst, hm.1, Bool.false_eq_true, if_false, ih hm.2]

theorem eraseFirst_of_no_match {l x : Nat} {xs : List Slot} (hm : hasMatch l x xs = false) : eraseFirst l x xs = xs := by
  induction xs with
  | nil => rfl
  | cons y ys ih =>
    simp only [hasMatch, Bool.or_eq_false_iff] at hm
    simp only [eraseFirst, hm.1, Bool.false_eq_true, if_false, ih hm.2]

theorem liveNode_kill (u : Nat) (xs : List Slot) (v : Nat) :
    liveNode (kill u xs) v = (liveNode xs v && v != u) := by
  induction xs with
  | nil => rfl
  | cons y ys ih =>
    simp only [liveNode, kill, List.map_cons, List.any_cons] at ih ⊢
    rw [ih]
    by_cases c : y.node = u
    · simp only [c, if_true]
      by_cases c2 : u = v
      · simp [c2]
      · have h1 : (u == v) = false := by simpa using c2
        have h2 : (v != u) = true := by simpa using fun hh => c2 hh.symm
        simp [h1, h2]
    · simp only [c, Bool.false_eq_true, if_false]
      by_cases c2 : y.node = v
      · have : (v != u) = true := by simp; rw [← c2]; exact c
        simp [c2, this]
      · have h1 : (y.node == v) = false := by simpa using c2
        simp [h1]

theorem kill_connected (u : Nat) (xs : List Slot) :
    ((kill u xs).filter (fun x => x.state == .connected)).map (·.node) =
      ((xs.filter (fun x => x.state == .connected)).map (·.node)).filter (· != u) := by
  induction xs with
  | nil => rfl
  | cons y ys ih =>
    simp only [kill, List.map_cons] at ih ⊢
    by_cases c : y.node = u
    · simp only [c, if_true, List.filter_cons]
      by_cases c2 : y.state = .connected
      · simp [c2, c, ih]
      · simp [c2, ih]
    · simp only [c, Bool.false_eq_true, if_false, List.filter_cons]
      by_cases c2 : y.state = .connected
      · have : (y.node != u) = true := by simpa using c
        simp [c2, this, ih]
      · simp [c2, ih]

theorem kill_drop (u : Nat) (xs : List Slot) (i : Nat) : (kill u xs).drop i = kill u (xs.drop i) := by
  simp [kill, List.map_drop]

theorem LI_kill {xs : List Slot} {idx : Nat} {snap : List Nat} (u : Nat) (h : LI xs idx snap) :
    LI (kill u xs) idx snap := by
  unfold LI at h ⊢
  rw [kill_drop, kill_connected, ← h]
  have : snap.filter (liveNode (kill u xs)) = (snap.filter (liveNode xs)).filter (· != u) := by
    rw [List.filter_filter]
    apply List.filter_congr
    intro v _
    rw [liveNode_kill, Bool.and_comm]
  exact this

theorem LI_markFirst {xs : List Slot} {idx : Nat} {snap : List Nat} (l x : Nat) (hs : Sorted xs)
    (h : LI xs idx snap) : LI (markFirst l x xs) idx snap := by
  by_cases hm : hasMatch l x xs = true
  · obtain ⟨y, _, _, hk⟩ := markFirst_eq_kill hs hm
    rw [hk]; exact LI_kill _ h
  · rw [markFirst_of_no_match (by simpa using hm)]; exact h

/-! ### the live view -/

theorem markFirst_live (l x : Nat) (xs : List Slot) :
    (liveSlots (markFirst l x xs)).map Slot.toConn = removeOldest l x ((liveSlots xs).map Slot.toConn) := by
  induction xs with
  | nil => rfl
  | cons y ys ih =>
    simp only [liveSlots] at ih ⊢
    by_cases c : y.isMatch l x = true
    · have c' := c
      simp only [Slot.isMatch, Bool.and_eq_true, beq_iff_eq, bne_iff_ne, ne_eq] at c'
      have hnd : (y.state != SlotState.disconnected) = true := by simpa using c'.2
      simp [markFirst, c, List.filter_cons, hnd, removeOldest, Slot.toConn, c'.1.1, c'.1.2]
    · simp only [markFirst, c, Bool.false_eq_true, if_false, List.filter_cons]
      by_cases hnd : y.state = .disconnected
      · simp [hnd, ih]
      · have hnd' : (y.state != SlotState.disconnected) = true := by simpa using hnd
        simp only [hnd', if_true, List.map_cons, removeOldest]
        have : ¬ (y.toConn.receiver = l ∧ y.toConn.slot = x) := by
          intro hh
          apply c
          simp [Slot.isMatch, Slot.toConn] at hh ⊢
          exact ⟨⟨hh.1, hh.2⟩, hnd⟩
        simp only [this, if_false, ih]

theorem eraseFirst_live (l x : Nat) (xs : List Slot) :
    (liveSlots (eraseFirst l x xs)).map Slot.toConn = removeOldest l x ((liveSlots xs).map Slot.toConn) := by
  induction xs with
  | nil => rfl
  | cons y ys ih =>
    simp only [liveSlots] at ih ⊢
    by_cases c : y.isMatch l x = true
    · have c' := c
      simp only [Slot.isMatch, Bool.and_eq_true, beq_iff_eq, bne_iff_ne, ne_eq] at c'
      have hnd : (y.state != SlotState.disconnected) = true := by simpa using c'.2
      simp [eraseFirst, c, List.filter_cons, hnd, removeOldest, Slot.toConn, c'.1.1, c'.1.2]
    · simp only [eraseFirst, c, Bool.false_eq_true, if_false, List.filter_cons]
      by_cases hnd : y.state = .disconnected
      · simp [hnd, ih]
      · have hnd' : (y.state != SlotState.disconnected) = true := by simpa using hnd
        simp only [hnd', if_true, List.map_cons, removeOldest]
        have : ¬ (y.toConn.receiver = l ∧ y.toConn.slot = x) := by
          intro hh
          apply c
          simp [Slot.isMatch, Slot.toConn] at hh ⊢
          exact ⟨⟨hh.1, hh.2⟩, hnd⟩
        simp only [this, if_false, ih]

theorem unlinkOrMark_live (d : SignalData) (l x : Nat) :
    liveOf (some (unlinkOrMark d l x)) = removeOldest l x (liveOf (some d)) := by
  simp only [liveOf, unlinkOrMark]
  by_cases hm : hasMatch l x d.slots = true
  · simp only [hm, if_true]
    by_cases ha : d.activation.isSome = true
    · simp only [ha, if_true]; exact markFirst_live l x d.slots
    · simp only [ha, Bool.false_eq_true, if_false]; exact eraseFirst_live l x d.slots
  · simp only [hm, if_false]
    have := markFirst_live l x d.slots
    rw [markFirst_of_no_match (by simpa using hm)] at this
    exact this

/-! ### membership, order, counting -/

theorem mem_markFirst {l x : Nat} {xs : List Slot} {y : Slot} (h : y ∈ markFirst l x xs) :
    ∃ z ∈ xs, y.node = z.node ∧ y.receiver = z.receiver ∧ y.object = z.object ∧ y.slot = z.slot ∧
      (y = z ∨ y.state = .disconnected) := by
  induction xs with
  | nil => simp [markFirst] at h
  | cons z zs ih =>
    simp only [markFirst] at h
    by_cases c : z.isMatch l x = true
    · simp only [c, if_true, List.mem_cons] at h
      rcases h with rfl | h
      · exact ⟨z, List.mem_cons_self .., rfl, rfl, rfl, rfl, Or.inr rfl⟩
      · exact ⟨y, List.mem_cons_of_mem _ h, rfl, rfl, rfl, rfl, Or.inl rfl⟩
    · simp only [c, Bool.false_eq_true, if_false, List.mem_cons] at h
      rcases h with rfl | h
      · exact ⟨y, List.mem_cons_self .., rfl, rfl, rfl, rfl, Or.inl rfl⟩
      · obtain ⟨w, hw, h1⟩ := ih h
        exact ⟨w, List.mem_cons_of_mem _ hw, h1⟩

theorem markFirst_nodes (l x : Nat) (xs : List Slot) : (markFirst l x xs).map (·.node) = xs.map (·.node) := by
  induction xs with
  | nil => rfl
  | cons z zs ih =>
    simp only [markFirst]
    by_cases c : z.isMatch l x = true <;> simp [c, ih]

theorem sorted_iff (xs : List Slot) : Sorted xs ↔ (xs.map (·.node)).Pairwise (· < ·) := by
  simp [Sorted, List.pairwise_map]

theorem eraseFirst_sublist (l x : Nat) (xs : List Slot) : (eraseFirst l x xs).Sublist xs := by
  induction xs with
  | nil => exact List.Sublist.slnil
  | cons z zs ih =>
    simp only [eraseFirst]
    by_cases c : z.isMatch l x = true
    · simp only [c, if_true]; exact List.sublist_cons_self z zs
    · simp only [c, Bool.false_eq_true, if_false]; exact ih.cons_cons z

theorem hasMatch_iff_countP (l x : Nat) (xs : List Slot) :
    hasMatch l x xs = true ↔ 0 < xs.countP (fun y => y.isMatch l x) := by
  induction xs with
  | nil => simp [hasMatch]
  | cons z zs ih =>
    simp only [hasMatch, Bool.or_eq_true, List.countP_cons, ih]
    by_cases c : z.isMatch l x = true
    · simp [c]
    · simp [c]

theorem markFirst_countP (l x l' x' : Nat) (xs : List Slot) :
    (markFirst l x xs).countP (fun y => y.isMatch l' x') =
      xs.countP (fun y => y.isMatch l' x') - (if l' = l ∧ x' = x ∧ hasMatch l x xs = true then 1 else 0) := by
  induction xs with
  | nil => simp [markFirst]
  | cons z zs ih =>
    by_cases c : z.isMatch l x = true
    · have c' := c
      simp only [Slot.isMatch, Bool.and_eq_true, beq_iff_eq, bne_iff_ne, ne_eq] at c'
      simp only [markFirst, c, if_true, List.countP_cons, hasMatch, Bool.true_or, and_true]
      have h1 : ({ z with state := SlotState.disconnected } : Slot).isMatch l' x' = false := by simp [Slot.isMatch]
      simp only [h1, Bool.false_eq_true, if_false, Nat.add_zero]
      by_cases c2 : l' = l ∧ x' = x
      · obtain ⟨rfl, rfl⟩ := c2
        simp [c]
      · have : z.isMatch l' x' = false := by
          simp only [Slot.isMatch, c'.1.1, c'.1.2]
          by_cases hl : l = l'
          · by_cases hx : x = x'
            · exact absurd ⟨hl.symm, hx.symm⟩ c2
            · simp [hx]
          · simp [hl]
        simp [c2, this]
    · simp only [markFirst, c, Bool.false_eq_true, if_false, List.countP_cons, hasMatch, Bool.false_or, ih]
      by_cases c2 : l' = l ∧ x' = x ∧ hasMatch l x zs = true
      · have hz : z.isMatch l' x' = false := by rw [c2.1, c2.2.1]; simpa using c
        have hpos := (hasMatch_iff_countP l x zs).1 c2.2.2
        obtain ⟨rfl, rfl, _⟩ := c2
        simp only [hz, Bool.false_eq_true, if_false, Nat.add_zero]
        try simp_all
      · simp only [c2, if_false, Nat.sub_zero]

theorem eraseFirst_countP (l x l' x' : Nat) (xs : List Slot) :
    (eraseFirst l x xs).countP (fun y => y.isMatch l' x') =
      xs.countP (fun y => y.isMatch l' x') - (if l' = l ∧ x' = x ∧ hasMatch l x xs = true then 1 else 0) := by
  induction xs with
  | nil => simp [eraseFirst]
  | cons z zs ih =>
    by_cases c : z.isMatch l x = true
    · have c' := c
      simp only [Slot.isMatch, Bool.and_eq_true, beq_iff_eq, bne_iff_ne, ne_eq] at c'
      simp only [eraseFirst, c, if_true, List.countP_cons, hasMatch, Bool.true_or, and_true]
      by_cases c2 : l' = l ∧ x' = x
      · obtain ⟨rfl, rfl⟩ := c2
        simp [c]
      · have : z.isMatch l' x' = false := by
          simp only [Slot.isMatch, c'.1.1, c'.1.2]
          by_cases hl : l = l'
          · by_cases hx : x = x'
            · exact absurd ⟨hl.symm, hx.symm⟩ c2
            · simp [hx]
          · simp [hl]
        simp [c2, this]
    · simp only [eraseFirst, c, Bool.false_eq_true, if_false, List.countP_cons, hasMatch, Bool.false_or, ih]
      by_cases c2 : l' = l ∧ x' = x ∧ hasMatch l x zs = true
      · have hz : z.isMatch l' x' = false := by rw [c2.1, c2.2.1]; simpa using c
        have hpos := (hasMatch_iff_countP l x zs).1 c2.2.2
        obtain ⟨rfl, rfl, _⟩ := c2
        simp only [hz, Bool.false_eq_true, if_false, Nat.add_zero]
        try simp_all
      · simp only [c2, if_false, Nat.sub_zero]

theorem unlinkOrMark_countP (d : SignalData) (l x l' x' : Nat) :
    (unlinkOrMark d l x).slots.countP (fun y => y.isMatch l' x') =
      d.slots.countP (fun y => y.isMatch l' x') - (if l' = l ∧ x' = x ∧ hasMatch l x d.slots = true then 1 else 0) := by
  simp only [unlinkOrMark]
  by_cases hm : hasMatch l x d.slots = true
  · simp only [hm, if_true]
    by_cases ha : d.activation.isSome = true
    · simp only [ha, if_true]; rw [markFirst_countP]; simp [hm]
    · simp only [ha, Bool.false_eq_true, if_false]; rw [eraseFirst_countP]; simp [hm]
  · simp [hm]

end Nstd.Callback
