import Nstd.Callback.LemmasTie
/-
  Property C12 — the destructors do not depend on the order in which they visit the keys of their maps.

  `~Listener` walks `Map<Emitter*, List<Signal>>` in ascending ADDRESS of the emitters and `~Emitter` walks
  `Map<MemberFuncPtr, SignalData>` in `memcmp` order of the member-pointer bytes; the model (and the translated bodies,
  PropsTie.lean) walk the key lists in insertion order.  `dtor_listener_order_irrelevant`: for every state and every
  listener, visiting the emitter keys in ANY order (any permutation of the key list, hence also the address order of the
  real map) gives the same state.  Together with `destructor_invokes_no_slot` (PropsTie.lean: a destructor is one step that
  invokes nothing) the order of the visits is unobservable.
  OPEN: the same for `~Emitter` over the signal keys (`delEmitter` with a permuted `sigKeys`).  What is needed: the step for
  signal g (invalidate the frame `d.activation`, erase the pairs (g, ·) under `e` from the receivers' lists) commutes with the
  step for g' — `setInvalid` at two frame ids commutes, `List.erase_comm` for the pairs, the fault cases keep `listeners`/`frames`
  defined-ness; not proved yet.  The correspondence run compares the bookkeeping after every destructor (heap addresses give
  varying orders; member-pointer order differs from insertion order whenever signals are connected in another order than
  their addresses).
-/
set_option linter.unusedSimpArgs false
namespace Nstd.Callback

/-- `~Listener` visiting the emitter keys in the order `ks` -/
def delListenerVia (ks : List Nat) (l : Nat) (st : State) : State :=
  match st.listeners l with
  | none => st.faulted
  | some li => (ks.foldl (fun st e => (li.sigs e).foldl (dropSlot l e) st) st).setListener l none

/-- what `~Listener` does to ONE emitter object, as a function of that object alone -/
def stepE (l : Nat) (em : Emitter) (x : Nat × Nat) : Emitter :=
  match em.sig x.1 with
  | none => em
  | some d => em.setSig x.1 (unlinkOrMark d l x.2)

theorem foldl_dropSlot_some (l e : Nat) (xs : List (Nat × Nat)) (st : State) (em : Emitter) (he : st.emitters e = some em) :
    xs.foldl (dropSlot l e) st = st.setEmitter e (some (xs.foldl (stepE l) em)) := by
  induction xs generalizing st em with
  | nil => exact (setEmitter_same he).symm
  | cons x xs ih =>
    simp only [List.foldl_cons]
    have h1 : dropSlot l e st x = st.setEmitter e (some (stepE l em x)) := by
      unfold dropSlot stepE
      simp only [he]
      cases em.sig x.1 with
      | none => exact (setEmitter_same he).symm
      | some d => rfl
    rw [h1, ih _ _ (setEmitter_emitters_self ..), setEmitter_setEmitter]

theorem foldl_dropSlot_none (l e : Nat) (xs : List (Nat × Nat)) (st : State) (he : st.emitters e = none) :
    xs.foldl (dropSlot l e) st = if xs = [] then st else st.faulted := by
  induction xs generalizing st with
  | nil => rfl
  | cons x xs ih =>
    simp only [List.foldl_cons]
    have h1 : dropSlot l e st x = st.faulted := by unfold dropSlot; simp only [he]
    rw [h1, ih _ (by exact he)]
    by_cases hx : xs = [] <;> simp [hx, State.faulted]

theorem setEmitter_comm (st : State) (e e' : Nat) (a b : Option Emitter) (hne : e ≠ e') :
    (st.setEmitter e a).setEmitter e' b = (st.setEmitter e' b).setEmitter e a := by
  simp only [State.setEmitter, State.mk.injEq, and_true]
  funext x
  by_cases h1 : x = e'
  · subst h1
    have : ¬ x = e := fun h => hne h.symm
    simp [this]
  · simp [h1]

theorem setEmitter_emitters_ne (st : State) (e e' : Nat) (a : Option Emitter) (hne : e' ≠ e) :
    (st.setEmitter e a).emitters e' = st.emitters e' := by
  simp [State.setEmitter, hne]

/-- the visits of two emitter keys commute -/
theorem visit_comm (l : Nat) (f : Nat → List (Nat × Nat)) (st : State) (e e' : Nat) :
    (f e').foldl (dropSlot l e') ((f e).foldl (dropSlot l e) st) = (f e).foldl (dropSlot l e) ((f e').foldl (dropSlot l e') st) := by
  by_cases hne : e = e'
  · subst hne; rfl
  · have hne' : e' ≠ e := fun h => hne h.symm
    cases he : st.emitters e with
    | none =>
      cases he' : st.emitters e' with
      | none =>
        rw [foldl_dropSlot_none l e _ st he, foldl_dropSlot_none l e' _ st he']
        by_cases h1 : f e = [] <;> by_cases h2 : f e' = [] <;> simp only [h1, h2, if_true, if_false, List.foldl_nil]
        · rw [foldl_dropSlot_none l e' _ _ (by exact he')]; simp [h2]
        · rw [foldl_dropSlot_none l e _ _ (by exact he)]; simp [h1]
        · rw [foldl_dropSlot_none l e' _ _ (by exact he'), foldl_dropSlot_none l e _ _ (by exact he)]; simp [h1, h2]
      | some em' =>
        rw [foldl_dropSlot_none l e _ st he, foldl_dropSlot_some l e' _ st em' he']
        rw [foldl_dropSlot_none l e _ _ (by rw [setEmitter_emitters_ne _ _ _ _ hne]; exact he)]
        by_cases h1 : f e = [] <;> simp only [h1, if_true, if_false]
        · exact foldl_dropSlot_some l e' _ st em' he'
        · rw [foldl_dropSlot_some l e' _ st.faulted em' (by exact he')]; rfl
    | some em =>
      cases he' : st.emitters e' with
      | none =>
        rw [foldl_dropSlot_some l e _ st em he, foldl_dropSlot_none l e' _ st he']
        rw [foldl_dropSlot_none l e' _ _ (by rw [setEmitter_emitters_ne _ _ _ _ hne']; exact he')]
        by_cases h1 : f e' = [] <;> simp only [h1, if_true, if_false]
        · exact (foldl_dropSlot_some l e _ st em he).symm
        · rw [foldl_dropSlot_some l e _ st.faulted em (by exact he)]; rfl
      | some em' =>
        rw [foldl_dropSlot_some l e _ st em he, foldl_dropSlot_some l e' _ st em' he']
        rw [foldl_dropSlot_some l e' _ _ em' (by rw [setEmitter_emitters_ne _ _ _ _ hne']; exact he')]
        rw [foldl_dropSlot_some l e _ _ em (by rw [setEmitter_emitters_ne _ _ _ _ hne]; exact he)]
        exact setEmitter_comm _ _ _ _ _ hne

theorem perm_foldl_eq {α β : Type} (f : β → α → β) (comm : ∀ b a a', f (f b a) a' = f (f b a') a) {l₁ l₂ : List α}
    (hp : l₁.Perm l₂) : ∀ b, l₁.foldl f b = l₂.foldl f b := by
  induction hp with
  | nil => intro b; rfl
  | cons x _ ih => intro b; simp only [List.foldl_cons]; exact ih _
  | swap x y l => intro b; simp only [List.foldl_cons]; rw [comm]
  | trans _ _ ih1 ih2 => intro b; rw [ih1, ih2]

/-- the model's `~Listener` is the visit of the keys in the order of its key list -/
theorem delListener_via (l : Nat) (st : State) (li : Listener) (hl : st.listeners l = some li) :
    delListener l st = delListenerVia li.emKeys l st := by
  simp [delListener, delListenerVia, hl]

/-- **The order in which `~Listener` visits the emitters is immaterial**: for every state, every listener and any two orders
    of the same keys (e.g. insertion order, as in the model, and ascending address, as in `Map<Emitter*, …>`) the result is
    the same state — fault flag included, and also when some of the emitters are dangling. -/
theorem dtor_listener_order_irrelevant (l : Nat) (st : State) (ks ks' : List Nat) (hp : ks.Perm ks') :
    delListenerVia ks l st = delListenerVia ks' l st := by
  unfold delListenerVia
  cases st.listeners l with
  | none => rfl
  | some li =>
    simp only
    congr 1
    exact perm_foldl_eq _ (fun b a a' => visit_comm l li.sigs b a a') hp st

/-- non-vacuity: a listener connected to two emitters, destroyed visiting them in either order -/
example : delListenerVia [0, 1] 0 (connect 1 0 0 0 (connect 0 0 0 0 State.fresh)) =
    delListenerVia [1, 0] 0 (connect 1 0 0 0 (connect 0 0 0 0 State.fresh)) :=
  dtor_listener_order_irrelevant 0 _ _ _ (List.Perm.swap 1 0 [])

end Nstd.Callback
