import Nstd.Callback.LemmasTie
/-
  Property C12 — the destructors do not depend on the order in which they visit the keys of their maps.

  `~Listener` walks `Map<Emitter*, List<Signal>>` in ascending ADDRESS of the emitters and `~Emitter` walks
  `Map<MemberFuncPtr, SignalData>` in `memcmp` order of the member-pointer bytes; the model (and the translated bodies,
  PropsTie.lean) walk the key lists in insertion order.  `dtor_listener_order_irrelevant`: for every state and every
  listener, visiting the emitter keys in ANY order (any permutation of the key list, hence also the address order of the
  real map) gives the same state.  Together with `destructor_invokes_no_slot` (PropsTie.lean: a destructor is one step that
  invokes nothing) the order of the visits is unobservable.
  `dtor_emitter_order_irrelevant`: the same for `~Emitter` over the signal keys: the visit of a signal is a sequence of
  elementary steps (`EOp`: set `invalidated` in one frame; erase one pair from one receiver's list under this emitter, or
  fault when the receiver is gone), any two of which commute (`setInvalid` at two frames, `List.erase_comm`, different
  receivers), so the visits commute and any permutation of the keys gives the same state.
  The model's destructors are these visits in the order of the model's key lists (`delListener_via`, `delEmitter_via`).
-/
set_option linter.unusedSimpArgs false
namespace Nstd.Callback

/-- `~Listener` visiting the emitter keys in the order `ks` -/
def delListenerVia (ks : List Nat) (l : Nat) (st : State) : State :=
  match st.listeners l with
  | none => st.faulted
  | some li => (ks.foldl (fun st e => (li.sigs e).foldl (dropSlot l e) st) st).setListener l none

/-- what `~Listener` does to ONE emitter object, as a function of that object alone -/
def stepE (l : Nat) (em : Emitter) (x : Nat × Nat) : Emitter :=
  match em.sig x.1 with
  | none => em
  | some d => em.setSig x.1 (unlinkOrMark d l x.2)

theorem foldl_dropSlot_some (l e : Nat) (xs : List (Nat × Nat)) (st : State) (em : Emitter) (he : st.emitters e = some em) :
    xs.foldl (dropSlot l e) st = st.setEmitter e (some (xs.foldl (stepE l) em)) := by
  induction xs generalizing st em with
  | nil => exact (setEmitter_same he).symm
  | cons x xs ih =>
    simp only [List.foldl_cons]
    have h1 : dropSlot l e st x = st.setEmitter e (some (stepE l em x)) := by
      unfold dropSlot stepE
      simp only [he]
      cases em.sig x.1 with
      | none => exact (setEmitter_same he).symm
      | some d => rfl
    rw [h1, ih _ _ (setEmitter_emitters_self ..), setEmitter_setEmitter]

theorem foldl_dropSlot_none (l e : Nat) (xs : List (Nat × Nat)) (st : State) (he : st.emitters e = none) :
    xs.foldl (dropSlot l e) st = if xs = [] then st else st.faulted := by
  induction xs generalizing st with
  | nil => rfl
  | cons x xs ih =>
    simp only [List.foldl_cons]
    have h1 : dropSlot l e st x = st.faulted := by unfold dropSlot; simp only [he]
    rw [h1, ih _ (by exact he)]
    by_cases hx : xs = [] <;> simp [hx, State.faulted]

theorem setEmitter_comm (st : State) (e e' : Nat) (a b : Option Emitter) (hne : e ≠ e') :
    (st.setEmitter e a).setEmitter e' b = (st.setEmitter e' b).setEmitter e a := by
  simp only [State.setEmitter, State.mk.injEq, and_true]
  funext x
  by_cases h1 : x = e'
  · subst h1
    have : ¬ x = e := fun h => hne h.symm
    simp [this]
  · simp [h1]

theorem setEmitter_emitters_ne (st : State) (e e' : Nat) (a : Option Emitter) (hne : e' ≠ e) :
    (st.setEmitter e a).emitters e' = st.emitters e' := by
  simp [State.setEmitter, hne]

/-- the visits of two emitter keys commute -/
theorem visit_comm (l : Nat) (f : Nat → List (Nat × Nat)) (st : State) (e e' : Nat) :
    (f e').foldl (dropSlot l e') ((f e).foldl (dropSlot l e) st) = (f e).foldl (dropSlot l e) ((f e').foldl (dropSlot l e') st) := by
  by_cases hne : e = e'
  · subst hne; rfl
  · have hne' : e' ≠ e := fun h => hne h.symm
    cases he : st.emitters e with
    | none =>
      cases he' : st.emitters e' with
      | none =>
        rw [foldl_dropSlot_none l e _ st he, foldl_dropSlot_none l e' _ st he']
        by_cases h1 : f e = [] <;> by_cases h2 : f e' = [] <;> simp only [h1, h2, if_true, if_false, List.foldl_nil]
        · rw [foldl_dropSlot_none l e' _ _ (by exact he')]; simp [h2]
        · rw [foldl_dropSlot_none l e _ _ (by exact he)]; simp [h1]
        · rw [foldl_dropSlot_none l e' _ _ (by exact he'), foldl_dropSlot_none l e _ _ (by exact he)]; simp [h1, h2]
      | some em' =>
        rw [foldl_dropSlot_none l e _ st he, foldl_dropSlot_some l e' _ st em' he']
        rw [foldl_dropSlot_none l e _ _ (by rw [setEmitter_emitters_ne _ _ _ _ hne]; exact he)]
        by_cases h1 : f e = [] <;> simp only [h1, if_true, if_false]
        · exact foldl_dropSlot_some l e' _ st em' he'
        · rw [foldl_dropSlot_some l e' _ st.faulted em' (by exact he')]; rfl
    | some em =>
      cases he' : st.emitters e' with
      | none =>
        rw [foldl_dropSlot_some l e _ st em he, foldl_dropSlot_none l e' _ st he']
        rw [foldl_dropSlot_none l e' _ _ (by rw [setEmitter_emitters_ne _ _ _ _ hne']; exact he')]
        by_cases h1 : f e' = [] <;> simp only [h1, if_true, if_false]
        · exact (foldl_dropSlot_some l e _ st em he).symm
        · rw [foldl_dropSlot_some l e _ st.faulted em (by exact he)]; rfl
      | some em' =>
        rw [foldl_dropSlot_some l e _ st em he, foldl_dropSlot_some l e' _ st em' he']
        rw [foldl_dropSlot_some l e' _ _ em' (by rw [setEmitter_emitters_ne _ _ _ _ hne']; exact he')]
        rw [foldl_dropSlot_some l e _ _ em (by rw [setEmitter_emitters_ne _ _ _ _ hne]; exact he)]
        exact setEmitter_comm _ _ _ _ _ hne

theorem perm_foldl_eq {α β : Type} (f : β → α → β) (comm : ∀ b a a', f (f b a) a' = f (f b a') a) {l₁ l₂ : List α}
    (hp : l₁.Perm l₂) : ∀ b, l₁.foldl f b = l₂.foldl f b := by
  induction hp with
  | nil => intro b; rfl
  | cons x _ ih => intro b; simp only [List.foldl_cons]; exact ih _
  | swap x y l => intro b; simp only [List.foldl_cons]; rw [comm]
  | trans _ _ ih1 ih2 => intro b; rw [ih1, ih2]

/-- the model's `~Listener` is the visit of the keys in the order of its key list -/
theorem delListener_via (l : Nat) (st : State) (li : Listener) (hl : st.listeners l = some li) :
    delListener l st = delListenerVia li.emKeys l st := by
  simp [delListener, delListenerVia, hl]

/-- **The order in which `~Listener` visits the emitters is immaterial**: for every state, every listener and any two orders
    of the same keys (e.g. insertion order, as in the model, and ascending address, as in `Map<Emitter*, …>`) the result is
    the same state — fault flag included, and also when some of the emitters are dangling. -/
theorem dtor_listener_order_irrelevant (l : Nat) (st : State) (ks ks' : List Nat) (hp : ks.Perm ks') :
    delListenerVia ks l st = delListenerVia ks' l st := by
  unfold delListenerVia
  cases st.listeners l with
  | none => rfl
  | some li =>
    simp only
    congr 1
    exact perm_foldl_eq _ (fun b a a' => visit_comm l li.sigs b a a') hp st

/-- non-vacuity: a listener connected to two emitters, destroyed visiting them in either order -/
example : delListenerVia [0, 1] 0 (connect 1 0 0 0 (connect 0 0 0 0 State.fresh)) =
    delListenerVia [1, 0] 0 (connect 1 0 0 0 (connect 0 0 0 0 State.fresh)) :=
  dtor_listener_order_irrelevant 0 _ _ _ (List.Perm.swap 1 0 [])

/-! ### `~Emitter` -/

/-- `~Emitter` visiting the signal keys in the order `ks` -/
def delEmitterVia (ks : List Nat) (e : Nat) (st : State) : State :=
  match st.emitters e with
  | none => st.faulted
  | some em => (ks.foldl (delEmitterSig e em) st).setEmitter e none

theorem setInvalid_comm (fs : List Frame) (a b : Nat) : setInvalid (setInvalid fs a) b = setInvalid (setInvalid fs b) a := by
  induction fs with
  | nil => rfl
  | cons f fs ih =>
    simp only [setInvalid]
    by_cases ca : a = fs.length <;> by_cases cb : b = fs.length <;> simp [ca, cb, setInvalid, setInvalid_length, ih]

theorem frameAt_setInvalid_isSome (fs : List Frame) (a b : Nat) : (frameAt (setInvalid fs a) b).isSome = (frameAt fs b).isSome := by
  rw [frameAt_setInvalid]; cases frameAt fs b <;> rfl

/-- two elementary steps of `~Emitter` … -/
inductive EOp where
  | inv (a : Nat)
  | drop (e g : Nat) (sl : Slot)

def EOp.run : EOp → State → State
  | .inv a, st => invalidate st a
  | .drop e g sl, st => dropSignal e g st sl

theorem invalidate_eq (st : State) (a : Nat) :
    invalidate st a = if (frameAt st.frames a).isSome then { st with frames := setInvalid st.frames a } else st.faulted := by
  unfold invalidate; cases frameAt st.frames a <;> rfl

theorem inv_inv_comm (st : State) (a b : Nat) : invalidate (invalidate st a) b = invalidate (invalidate st b) a := by
  simp only [invalidate_eq]
  by_cases ha : (frameAt st.frames a).isSome = true <;> by_cases hb : (frameAt st.frames b).isSome = true <;>
    simp [ha, hb, frameAt_setInvalid_isSome, State.faulted, setInvalid_comm]

theorem dropSignal_frames (e g : Nat) (st : State) (sl : Slot) : (dropSignal e g st sl).frames = st.frames := by
  unfold dropSignal
  by_cases hs : sl.state = .disconnected
  · simp [hs]
  · simp only [hs, if_false]; cases st.listeners sl.receiver <;> rfl

theorem inv_drop_comm (st : State) (a e g : Nat) (sl : Slot) :
    dropSignal e g (invalidate st a) sl = invalidate (dropSignal e g st sl) a := by
  simp only [invalidate_eq, dropSignal_frames]
  unfold dropSignal
  by_cases hs : sl.state = .disconnected
  · simp [hs]
  · simp only [hs, if_false]
    by_cases ha : (frameAt st.frames a).isSome = true
    · simp only [ha, if_true]
      cases st.listeners sl.receiver <;> rfl
    · simp only [ha, if_false, Bool.false_eq_true]
      show (match st.listeners sl.receiver with | none => _ | some li => _) = _
      cases st.listeners sl.receiver <;> rfl

theorem drop_drop_comm (st : State) (e g g' : Nat) (sl sl' : Slot) :
    dropSignal e g' (dropSignal e g st sl) sl' = dropSignal e g (dropSignal e g' st sl') sl := by
  unfold dropSignal
  by_cases hs : sl.state = .disconnected <;> by_cases hs' : sl'.state = .disconnected <;> simp only [hs, hs', if_true, if_false]
  by_cases hr : sl'.receiver = sl.receiver
  · rw [hr]
    cases hl : st.listeners sl.receiver with
    | none => simp [State.faulted, hl]
    | some li =>
      simp only [setListener_listeners_self, setListener_setListener]
      congr 3
      funext e'
      by_cases he : e' = e
      · simp [he, List.erase_comm]
      · simp [he]
  · have hr' : ¬ sl.receiver = sl'.receiver := fun h => hr h.symm
    cases hl : st.listeners sl.receiver with
    | none =>
      cases hl' : st.listeners sl'.receiver with
      | none => simp [State.faulted, hl, hl']
      | some li' => simp [State.faulted, State.setListener, hl, hl', hr, hr']
    | some li =>
      cases hl' : st.listeners sl'.receiver with
      | none => simp [State.faulted, State.setListener, hl, hl', hr, hr']
      | some li' =>
        simp only [State.setListener, hr, hr', if_false, hl, hl', State.mk.injEq, and_true, true_and]
        funext x
        by_cases h1 : x = sl'.receiver
        · subst h1; simp [hr]
        · by_cases h2 : x = sl.receiver
          · subst h2; simp [hr']
          · simp [h1, h2]

theorem eop_comm (p q : EOp) (e : Nat) (hp : ∀ e' g sl, p = .drop e' g sl → e' = e) (hq : ∀ e' g sl, q = .drop e' g sl → e' = e)
    (st : State) : q.run (p.run st) = p.run (q.run st) := by
  cases p with
  | inv a =>
    cases q with
    | inv b => exact inv_inv_comm st a b
    | drop e' g sl => exact inv_drop_comm st a e' g sl
  | drop e1 g sl =>
    cases q with
    | inv b => exact (inv_drop_comm st b e1 g sl).symm
    | drop e2 g' sl' =>
      have h1 := hp _ _ _ rfl
      have h2 := hq _ _ _ rfl
      subst h1; subst h2
      exact drop_drop_comm st _ g g' sl sl'

def runOps' (ops : List EOp) (st : State) : State := ops.foldl (fun s op => op.run s) st

theorem run_comm_one (p : EOp) (ops : List EOp) (hc : ∀ q ∈ ops, ∀ s, q.run (p.run s) = p.run (q.run s)) (st : State) :
    runOps' ops (p.run st) = p.run (runOps' ops st) := by
  induction ops generalizing st with
  | nil => rfl
  | cons q qs ih =>
    simp only [runOps', List.foldl_cons]
    rw [hc q (List.mem_cons_self ..) st]
    exact ih (fun q' hq' => hc q' (List.mem_cons_of_mem _ hq')) _

theorem run_comm (ps qs : List EOp) (hc : ∀ p ∈ ps, ∀ q ∈ qs, ∀ s, q.run (p.run s) = p.run (q.run s)) (st : State) :
    runOps' qs (runOps' ps st) = runOps' ps (runOps' qs st) := by
  induction ps generalizing st with
  | nil => rfl
  | cons p ps ih =>
    simp only [runOps', List.foldl_cons]
    have h1 := run_comm_one p qs (fun q hq s => hc p (List.mem_cons_self ..) q hq s) st
    simp only [runOps'] at h1 ih
    rw [← h1]
    exact ih (fun p' hp' => hc p' (List.mem_cons_of_mem _ hp')) _

/-- the elementary steps of the visit of signal `g` -/
def sigOps (e : Nat) (em : Emitter) (g : Nat) : List EOp :=
  match em.sig g with
  | none => []
  | some d => (match d.activation with | some a => [EOp.inv a] | none => []) ++ d.slots.map (fun sl => EOp.drop e g sl)

theorem delEmitterSig_ops (e : Nat) (em : Emitter) (st : State) (g : Nat) :
    delEmitterSig e em st g = runOps' (sigOps e em g) st := by
  unfold delEmitterSig sigOps runOps'
  cases em.sig g with
  | none => rfl
  | some d =>
    simp only [List.foldl_append, List.foldl_map]
    cases d.activation <;> rfl

theorem sigOps_drop (e : Nat) (em : Emitter) (g : Nat) : ∀ p ∈ sigOps e em g, ∀ e' g' sl, p = .drop e' g' sl → e' = e := by
  intro p hp e' g' sl hpe
  unfold sigOps at hp
  cases hsg : em.sig g with
  | none => rw [hsg] at hp; simp at hp
  | some d =>
    rw [hsg] at hp
    simp only [List.mem_append, List.mem_map] at hp
    rcases hp with hp | ⟨sl', _, rfl⟩
    · cases hd : d.activation with
      | none => rw [hd] at hp; simp at hp
      | some a => rw [hd] at hp; simp at hp; subst hp; cases hpe
    · cases hpe; rfl

/-- the visits of two signal keys commute -/
theorem sig_visit_comm (e : Nat) (em : Emitter) (st : State) (g g' : Nat) :
    delEmitterSig e em (delEmitterSig e em st g) g' = delEmitterSig e em (delEmitterSig e em st g') g := by
  simp only [delEmitterSig_ops]
  exact run_comm _ _ (fun p hp q hq s => eop_comm p q e (sigOps_drop e em g p hp) (sigOps_drop e em g' q hq) s) st

theorem delEmitter_via (e : Nat) (st : State) (em : Emitter) (he : st.emitters e = some em) :
    delEmitter e st = delEmitterVia em.sigKeys e st := by
  simp [delEmitter, delEmitterVia, he]

/-- **The order in which `~Emitter` visits its signals is immaterial**: for every state, every emitter and any two orders of
    the same signal keys (insertion order, as in the model, or `memcmp` order of the member-pointer bytes, as in
    `Map<MemberFuncPtr, SignalData>`) the result is the same state, fault flag included. -/
theorem dtor_emitter_order_irrelevant (e : Nat) (st : State) (ks ks' : List Nat) (hp : ks.Perm ks') :
    delEmitterVia ks e st = delEmitterVia ks' e st := by
  unfold delEmitterVia
  cases st.emitters e with
  | none => rfl
  | some em =>
    simp only
    congr 1
    exact perm_foldl_eq _ (fun b a a' => sig_visit_comm e em b a a') hp st

/-- non-vacuity: an emitter with two connected signals, destroyed visiting them in either order -/
example : delEmitterVia [0, 1] 0 (connect 0 1 1 0 (connect 0 0 0 0 State.fresh)) =
    delEmitterVia [1, 0] 0 (connect 0 1 1 0 (connect 0 0 0 0 State.fresh)) :=
  dtor_emitter_order_irrelevant 0 _ _ _ (List.Perm.swap 1 0 [])

end Nstd.Callback
