import Nstd.Callback.LemmasMonitor
/-
  Memory safety and two-sided consistency as an audit of the model's own data, at EVERY step.

  `Audit m` says, in terms of the pointers Callback.cpp stores, that every pointer that can still be
  followed points to a live object, and that the two sides of the bookkeeping are inverse to each
  other as multisets.  `audited` is the model whose every primitive (connect, disconnect, ~Listener,
  ~Emitter, the activation's constructor, every step of the emission loop, the activation's
  destructor) first evaluates the audit on the state it starts from and raises the fault flag when it
  fails; the destructor of an activation also checks that it is the innermost one (activations are
  destroyed in reverse order of construction, each exactly once).  `audit_transparent_sim` shows that
  the audit never fails in any run: the audited model is, state and log, the plain model.
-/
namespace Nstd.Callback
open Spec

/-- entries of (e, g) that stand for a live connection of listener `l` to slot `x`, emitter side -/
def emitterSide (m : State) (e g l x : Nat) : Nat :=
  match m.data e g with
  | none => 0
  | some d => d.slots.countP (fun y => y.isMatch l x)

/-- pairs (g, x) listener `l` stores under emitter `e`, listener side -/
def listenerSide (m : State) (e g l x : Nat) : Nat :=
  match m.listeners l with
  | none => 0
  | some li => (li.sigs e).count (g, x)

structure Audit (m : State) : Prop where
  /-- `SignalActivation::next` points to a live activation (a frame below) of the same signal -/
  frameNext : ∀ f ∈ m.frames, ∀ i, f.next = some i → ∃ f', frameAt m.frames i = some f' ∧ f'.data = f.data
  /-- `SignalData::activation` points to a live activation of that very signal -/
  dataAct : ∀ e g d i, m.data e g = some d → d.activation = some i →
    ∃ f, frameAt m.frames i = some f ∧ f.data = (e, g)
  /-- an activation that is not invalidated while its emitter exists has its `SignalData` (`data` is valid) -/
  frameData : ∀ f ∈ m.frames, (m.emitters f.data.1).isSome → (m.data f.data.1 f.data.2).isSome
  /-- an invalidated activation belongs to a destroyed emitter (it will touch nothing) … -/
  invDead : ∀ f ∈ m.frames, f.invalidated = true → m.emitters f.data.1 = none
  /-- … and of the activations of a destroyed emitter the innermost one of every signal is invalidated
      (the ones below get the flag when it is destroyed, before they run again) -/
  deadInv : ∀ e g i, m.emitters e = none → topOf m.frames (e, g) = some i →
    ∃ f, frameAt m.frames i = some f ∧ f.invalidated = true
  /-- `Slot::receiver` / `Slot::object` of every entry that is not marked `disconnected` is a live listener
      (marked entries are compared by address only, never dereferenced) -/
  recv : ∀ e g d, m.data e g = some d → ∀ x ∈ d.slots, x.state ≠ .disconnected →
    (m.listeners x.receiver).isSome = true ∧ x.object = x.receiver
  /-- an `Emitter*` key under which a listener stores anything is a live emitter, and is a key of the map
      (`~Listener` dereferences exactly these) -/
  lemit : ∀ l li e, m.listeners l = some li → li.sigs e ≠ [] → (m.emitters e).isSome = true ∧ e ∈ li.emKeys
  /-- every signal with data is a key of the emitter's map (`~Emitter` visits it) -/
  ekeys : ∀ e em g, m.emitters e = some em → (em.sig g).isSome → g ∈ em.sigKeys
  /-- every slot list is in connection order: the node numbers (time of connection: `connect` stamps the
      allocation counter, which only grows) increase strictly along the list and lie in the past — a new
      connection, also a re-connection of a pair disconnected before, is the youngest and goes to the end -/
  order : ∀ e g d, m.data e g = some d → Sorted d.slots ∧ ∀ x ∈ d.slots, x.node < m.nextNode
  /-- the two sides are inverse to each other as multisets: for every emitter, signal, listener and slot —
      destroyed objects included — the emitter side holds as many entries not marked `disconnected` as the
      listener side holds pairs -/
  inverse : ∀ e g l x, emitterSide m e g l x = listenerSide m e g l x

theorem links_next {fs : List Frame} (h : LinksOK fs) :
    ∀ f ∈ fs, ∀ i, f.next = some i → ∃ f', frameAt fs i = some f' ∧ f'.data = f.data := by
  induction fs with
  | nil => intro f hf; simp at hf
  | cons g fs ih =>
    obtain ⟨hg, hl⟩ := h
    intro f hf i hi
    rcases List.mem_cons.1 hf with rfl | hf
    · rw [hg] at hi
      have hlt := topOf_lt hi
      obtain ⟨f', hf'⟩ := frameAt_of_lt hlt
      exact ⟨f', by rw [frameAt_cons_lt hlt]; exact hf', topOf_data hi hf'⟩
    · obtain ⟨f', hf', hd⟩ := ih hl f hf i hi
      exact ⟨f', by rw [frameAt_cons_lt (frameAt_lt hf')]; exact hf', hd⟩

/-- the simulation invariant contains the audit -/
theorem audit_of_sim {m : State} {s : SState} {K : MStack} (h : Sim m s K) : Audit m where
  frameNext := links_next h.f.links
  dataAct := by
    intro e g d i hd ha
    have ht := h.f.act e g d hd
    rw [ha] at ht
    obtain ⟨f, hf⟩ := frameAt_of_lt (topOf_lt ht.symm)
    exact ⟨f, hf, topOf_data ht.symm hf⟩
  frameData := h.f.hasData
  invDead := h.f.invDead
  deadInv := h.f.deadInv
  recv := fun e g d hd x hx hn => ⟨h.b.recv e g d hd x hx hn, h.sl.obj e g d hd x hx⟩
  lemit := by
    intro l li e hl hne
    refine ⟨?_, h.b.lkeys l li e hl hne⟩
    cases hs : li.sigs e with
    | nil => exact absurd hs hne
    | cons a as =>
      have hc := h.b.count l li e a.1 a.2 hl
      rw [hs] at hc
      cases hem : m.emitters e with
      | some em => rfl
      | none =>
        simp only [State.data, hem] at hc
        simp at hc
  ekeys := h.b.ekeys
  order := fun e g d hd => ⟨h.sl.sorted e g d hd, h.sl.bound e g d hd⟩
  inverse := by
    intro e g l x
    unfold emitterSide listenerSide
    cases hl : m.listeners l with
    | some li => exact (h.b.count l li e g x hl).symm
    | none =>
      cases hd : m.data e g with
      | none => rfl
      | some d =>
        simp only
        rw [List.countP_eq_zero]
        intro y hy hm
        simp only [Slot.isMatch, Bool.and_eq_true, beq_iff_eq, bne_iff_ne, ne_eq] at hm
        have := h.b.recv e g d hd y hy hm.2
        rw [hm.1.1, hl] at this
        simp at this

/-! ### the audited model -/

open Classical in
noncomputable def auditOK (m : State) : Bool := decide (Audit m)

/-- result `m'` of a primitive started in state `m`: flagged when the audit of `m` fails -/
noncomputable def audit (m m' : State) : State := if auditOK m then m' else m'.faulted

noncomputable def audited : Machine State Nat (Option Nat) where
  connect := fun e g l x m => audit m (connect e g l x m)
  disconnect := fun e g l x m => audit m (disconnect e g l x m)
  delL := fun l m => audit m (delListener l m)
  delE := fun e m => audit m (delEmitter e m)
  aliveE := fun st e => (st.emitters e).isSome
  aliveL := fun st l => (st.listeners l).isSome
  begin := fun e g m => (audit m (actBegin e g m).1, (actBegin e g m).2)
  next := fun m fid pos => if auditOK m then next m fid pos else .fault
  -- `~SignalActivation`: the activation destroyed is the innermost one, so exactly one frame goes
  finish := fun fid m => if auditOK m && m.frames.length == fid + 1 then actEnd fid m else (actEnd fid m).faulted

theorem auditOK_of_sim {m : State} {s : SState} {K : MStack} (h : Sim m s K) : auditOK m = true := by
  simp only [auditOK, decide_eq_true_eq]
  exact audit_of_sim h

theorem audit_eq {m m' : State} {s : SState} {K : MStack} (h : Sim m s K) : audit m m' = m' := by
  simp only [audit, auditOK_of_sim h, if_true]

theorem audit_transparent_sim : SimOK audited machine SimM where
  aliveE := by intro m m' K e h; obtain ⟨rfl, _⟩ := h; rfl
  aliveL := by intro m m' K l h; obtain ⟨rfl, _⟩ := h; rfl
  connect := by
    intro m m' K e g l x h he hl
    obtain ⟨rfl, hK, s, Ks, hs, hm⟩ := h
    show SimM (audit m (connect e g l x m)) (connect e g l x m) K
    rw [audit_eq hs]
    exact ⟨rfl, hK, _, Ks, sim_connect e g l x hs he hl, hm⟩
  disconnect := by
    intro m m' K e g l x h he hl
    obtain ⟨rfl, hK, s, Ks, hs, hm⟩ := h
    show SimM (audit m (disconnect e g l x m)) (disconnect e g l x m) K
    rw [audit_eq hs]
    exact ⟨rfl, hK, _, Ks, sim_disconnect e g l x hs he hl, hm⟩
  delL := by
    intro m m' K l h hl
    obtain ⟨rfl, hK, s, Ks, hs, hm⟩ := h
    show SimM (audit m (delListener l m)) (delListener l m) K
    rw [audit_eq hs]
    exact ⟨rfl, hK, _, Ks, sim_delL l hs hl, hm⟩
  delE := by
    intro m m' K e h he
    obtain ⟨rfl, hK, s, Ks, hs, hm⟩ := h
    show SimM (audit m (delEmitter e m)) (delEmitter e m) K
    rw [audit_eq hs]
    exact ⟨rfl, hK, _, Ks, sim_delE e hs he, hm⟩
  begin := by
    intro m m' K e g h he
    obtain ⟨rfl, hK, s, Ks, hs, hm⟩ := h
    have hb := sim_begin e g hs he
    show BeginRel machine SimM K (audit m (actBegin e g m).1, (actBegin e g m).2) (actBegin e g m)
    rw [audit_eq hs]
    simp only [machine] at hb
    rcases h1 : actBegin e g m with ⟨m1, o1⟩
    rcases h2 : Spec.machine.begin e g s with ⟨s1, o2⟩
    rw [h1, h2] at hb
    cases o1 with
    | none =>
      cases o2 with
      | none => exact ⟨rfl, hK, s1, Ks, hb, hm⟩
      | some bq => exact ⟨rfl, hK, _, Ks, hb.2, hm⟩
    | some ap =>
      cases o2 with
      | none => exact absurd hb (by simp [BeginRel])
      | some bq =>
        refine ⟨rfl, ?_, s1, (ap, bq) :: Ks, hb, by simp [hm]⟩
        intro k hk
        rcases List.mem_cons.1 hk with rfl | hk
        · rfl
        · exact hK k hk
  next := by
    intro m m' a p b q K h
    obtain ⟨rfl, hK, s, Ks, hs, hm⟩ := h
    have hab := hK ((a, p), (b, q)) (List.mem_cons_self ..)
    simp only [Prod.mk.injEq] at hab
    obtain ⟨rfl, rfl⟩ := hab
    cases Ks with
    | nil => simp at hm
    | cons k Ks =>
      obtain ⟨⟨a', p'⟩, ⟨b', q'⟩⟩ := k
      simp only [List.map_cons, List.cons.injEq, Prod.mk.injEq] at hm
      obtain ⟨⟨rfl, rfl⟩, hm⟩ := hm
      have hn := sim_next hs
      simp only [machine] at hn
      show StepRel audited SimM m m a' a' K (if auditOK m then next m a' p' else .fault) (next m a' p')
      rw [auditOK_of_sim hs]
      simp only [if_true]
      cases hc : next m a' p' with
      | done => trivial
      | fault => rw [hc] at hn; cases hsn : Spec.machine.next s b' q' <;> (rw [hsn] at hn; exact absurd hn (by simp [StepRel]))
      | call l x p'' =>
        rw [hc] at hn
        cases hsn : Spec.machine.next s b' q' with
        | done => rw [hsn] at hn; exact absurd hn (by simp [StepRel])
        | fault => rw [hsn] at hn; exact absurd hn (by simp [StepRel])
        | call l' x' q'' =>
          rw [hsn] at hn
          obtain ⟨_, _, hal, hs'⟩ := hn
          refine ⟨rfl, rfl, hal, rfl, ?_, s, ((a', p''), (b', q'')) :: Ks, hs', by simp [hm]⟩
          intro k hk
          rcases List.mem_cons.1 hk with rfl | hk
          · rfl
          · exact hK k (List.mem_cons_of_mem _ hk)
  finish := by
    intro m m' a p b q K h
    obtain ⟨rfl, hK, s, Ks, hs, hm⟩ := h
    have hab := hK ((a, p), (b, q)) (List.mem_cons_self ..)
    simp only [Prod.mk.injEq] at hab
    obtain ⟨rfl, rfl⟩ := hab
    cases Ks with
    | nil => simp at hm
    | cons k Ks =>
      obtain ⟨⟨a', p'⟩, ⟨b', q'⟩⟩ := k
      simp only [List.map_cons, List.cons.injEq, Prod.mk.injEq] at hm
      obtain ⟨⟨rfl, rfl⟩, hm⟩ := hm
      have hlen : m.frames.length = a' + 1 := by
        have hc := hs.cur
        cases hfr : m.frames with
        | nil => rw [hfr] at hc; exact absurd hc (by simp [Cursors])
        | cons f fs =>
          rw [hfr] at hc
          obtain ⟨rfl, _⟩ := hc
          simp
      show SimM (if auditOK m && m.frames.length == a' + 1 then actEnd a' m else (actEnd a' m).faulted) (actEnd a' m) K
      rw [auditOK_of_sim hs, hlen]
      simp only [beq_self_eq_true, Bool.and_self, if_true]
      exact ⟨rfl, fun k hk => hK k (List.mem_cons_of_mem _ hk), _, Ks, sim_finish hs, hm⟩

theorem runOps_relA (P : Prog) (fuel : Nat) (ops : List Action) {r₁ r₂ : Run State}
    (h : RunRel SimM [] r₁ r₂) : RunRel SimM [] (runOps audited P fuel r₁ ops) (runOps machine P fuel r₂ ops) := by
  induction ops generalizing r₁ r₂ with
  | nil => exact h
  | cons a as ih =>
    exact ih ((exec_sim audit_transparent_sim P fuel).1 [] [a] r₁ r₂ h)

end Nstd.Callback
