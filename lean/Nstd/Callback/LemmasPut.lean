import Nstd.Callback.LemmasBegin
/-
  Generic preservation lemmas for a write to the data of one signal, and list lemmas about
  `purge`, `setInvalid`, `frameAt`.
-/
namespace Nstd.Callback
open Spec

/-! ### frames -/

theorem frameAt_of_lt {fs : List Frame} {i : Nat} (h : i < fs.length) : ∃ f, frameAt fs i = some f := by
  induction fs with
  | nil => simp at h
  | cons g fs ih =>
    by_cases c : i = fs.length
    · exact ⟨g, by simp [frameAt, c]⟩
    · simp only [List.length_cons] at h
      obtain ⟨f, hf⟩ := ih (by omega)
      exact ⟨f, by simp [frameAt, c, hf]⟩

theorem topOf_data {fs : List Frame} {eg : Nat × Nat} {i : Nat} {f : Frame} (h : topOf fs eg = some i)
    (hf : frameAt fs i = some f) : f.data = eg := by
  induction fs with
  | nil => simp [topOf] at h
  | cons g fs ih =>
    simp only [topOf] at h
    by_cases c : g.data = eg
    · simp only [c, if_true, Option.some.injEq] at h
      subst h
      rw [frameAt_top] at hf
      cases hf
      exact c
    · simp only [c, if_false] at h
      rw [frameAt_cons_lt (topOf_lt h)] at hf
      exact ih h hf

theorem frameAt_setInvalid (fs : List Frame) (n i : Nat) :
    frameAt (setInvalid fs n) i = (frameAt fs i).map (fun f => if i = n then { f with invalidated := true } else f) := by
  induction fs with
  | nil => rfl
  | cons g fs ih =>
    simp only [setInvalid]
    by_cases c : n = fs.length
    · simp only [c, if_true, frameAt]
      by_cases c2 : i = fs.length
      · simp [c2]
      · simp only [c2, if_false]
        cases hfa : frameAt fs i with
        | none => rfl
        | some f => simp
    · simp only [c, if_false, frameAt, setInvalid_length]
      by_cases c2 : i = fs.length
      · have : ¬ i = n := by omega
        simp [c2, this, Ne.symm c]
      · simp only [c2, if_false]; exact ih

theorem mem_setInvalid {fs : List Frame} {n : Nat} {f' : Frame} (h : f' ∈ setInvalid fs n) :
    ∃ f0 ∈ fs, f'.data = f0.data ∧ f'.next = f0.next ∧
      (f' = f0 ∨ (f'.invalidated = true ∧ frameAt fs n = some f0)) := by
  induction fs with
  | nil => simp [setInvalid] at h
  | cons g fs ih =>
    simp only [setInvalid] at h
    by_cases c : n = fs.length
    · simp only [c, if_true, List.mem_cons] at h
      rcases h with rfl | h
      · exact ⟨g, List.mem_cons_self .., rfl, rfl, Or.inr ⟨rfl, by simp [frameAt, c]⟩⟩
      · exact ⟨f', List.mem_cons_of_mem _ h, rfl, rfl, Or.inl rfl⟩
    · simp only [c, if_false, List.mem_cons] at h
      rcases h with rfl | h
      · exact ⟨f', List.mem_cons_self .., rfl, rfl, Or.inl rfl⟩
      · obtain ⟨f0, hf0, h1, h2, h3⟩ := ih h
        refine ⟨f0, List.mem_cons_of_mem _ hf0, h1, h2, ?_⟩
        rcases h3 with h3 | ⟨h3, h4⟩
        · exact Or.inl h3
        · exact Or.inr ⟨h3, by simp [frameAt, c, h4]⟩

theorem links_congr {fs gs : List Frame} (hd : fs.map (·.data) = gs.map (·.data))
    (hn : fs.map (·.next) = gs.map (·.next)) (h : LinksOK fs) : LinksOK gs := by
  induction fs generalizing gs with
  | nil => cases gs with
    | nil => trivial
    | cons _ _ => simp at hd
  | cons f fs ih =>
    cases gs with
    | nil => simp at hd
    | cons g gs =>
      simp only [List.map_cons, List.cons.injEq] at hd hn
      refine ⟨?_, ih hd.2 hn.2 h.2⟩
      rw [← hn.1, ← hd.1, ← topOf_congr hd.2]
      exact h.1

theorem setInvalid_next (fs : List Frame) (i : Nat) : (setInvalid fs i).map (·.next) = fs.map (·.next) := by
  induction fs with
  | nil => rfl
  | cons f fs ih =>
    simp only [setInvalid]
    by_cases c : i = fs.length <;> simp [c, ih]

theorem cursors_frames_congr {m : State} {K : MStack} {fs gs : List Frame}
    (hd : fs.map (·.data) = gs.map (·.data)) (h : Cursors m K fs) : Cursors m K gs := by
  induction K generalizing fs gs with
  | nil =>
    cases fs with
    | nil => cases gs with
      | nil => trivial
      | cons _ _ => simp at hd
    | cons _ _ => exact absurd h (by simp [Cursors])
  | cons k K ih =>
    obtain ⟨⟨fid, idx⟩, ⟨eg, snap⟩⟩ := k
    cases fs with
    | nil => exact absurd h (by simp [Cursors])
    | cons f fs =>
      cases gs with
      | nil => simp at hd
      | cons g gs =>
        simp only [List.map_cons, List.cons.injEq] at hd
        obtain ⟨h1, h2, h3, h4, h5⟩ := h
        have hl : fs.length = gs.length := by simpa using congrArg List.length hd.2
        exact ⟨by rw [← hl]; exact h1, by rw [← hd.1]; exact h2, h3, h4, ih hd.2 h5⟩

/-! ### purge -/

theorem mem_purge {xs : List Slot} {y : Slot} (h : y ∈ purge xs) :
    ∃ x ∈ xs, x.state ≠ .disconnected ∧ y = { x with state := .connected } := by
  induction xs with
  | nil => simp [purge] at h
  | cons x xs ih =>
    cases hs : x.state with
    | disconnected =>
      simp only [purge, hs] at h
      obtain ⟨x', hx', h1, h2⟩ := ih h
      exact ⟨x', List.mem_cons_of_mem _ hx', h1, h2⟩
    | connecting =>
      simp only [purge, hs, List.mem_cons] at h
      rcases h with rfl | h
      · exact ⟨x, List.mem_cons_self .., by simp [hs], rfl⟩
      · obtain ⟨x', hx', h1, h2⟩ := ih h
        exact ⟨x', List.mem_cons_of_mem _ hx', h1, h2⟩
    | connected =>
      simp only [purge, hs, List.mem_cons] at h
      rcases h with rfl | h
      · exact ⟨y, List.mem_cons_self .., by simp [hs], by cases y; simp_all⟩
      · obtain ⟨x', hx', h1, h2⟩ := ih h
        exact ⟨x', List.mem_cons_of_mem _ hx', h1, h2⟩

theorem purge_sorted {xs : List Slot} (h : Sorted xs) : Sorted (purge xs) := by
  induction xs with
  | nil => exact List.Pairwise.nil
  | cons x xs ih =>
    simp only [Sorted, List.pairwise_cons] at h
    have hrest := ih h.2
    have hlt : ∀ y ∈ purge xs, x.node < y.node := by
      intro y hy
      obtain ⟨x', hx', _, rfl⟩ := mem_purge hy
      exact h.1 x' hx'
    cases hs : x.state with
    | disconnected => simp only [purge, hs]; exact hrest
    | connecting => simp only [purge, hs]; exact List.pairwise_cons.2 ⟨hlt, hrest⟩
    | connected => simp only [purge, hs]; exact List.pairwise_cons.2 ⟨hlt, hrest⟩

theorem purge_countP (l s : Nat) (xs : List Slot) :
    (purge xs).countP (fun x => x.isMatch l s) = xs.countP (fun x => x.isMatch l s) := by
  induction xs with
  | nil => rfl
  | cons x xs ih =>
    simp only [Slot.isMatch] at ih ⊢
    cases hs : x.state with
    | disconnected => simp [purge, hs, List.countP_cons, ih]
    | connecting => simp [purge, hs, List.countP_cons, ih]
    | connected => simp [purge, hs, List.countP_cons, ih]

theorem purge_live (xs : List Slot) :
    (liveSlots (purge xs)).map Slot.toConn = (liveSlots xs).map Slot.toConn := by
  induction xs with
  | nil => rfl
  | cons x xs ih =>
    simp only [liveSlots] at ih ⊢
    cases hs : x.state with
    | disconnected => simp [purge, hs, List.filter_cons, ih]
    | connecting => simp [purge, hs, List.filter_cons, ih, Slot.toConn]
    | connected => simp [purge, hs, List.filter_cons, ih]

/-! ### a write to one signal -/

theorem sinv_put {m m' : State} {e g : Nat} {d' : SignalData} (h : SInv m)
    (hdata : ∀ e' g', m'.data e' g' = if e' = e ∧ g' = g then some d' else m.data e' g')
    (hnn : m.nextNode ≤ m'.nextNode)
    (h1 : d'.activation = none → d'.dirty = false)
    (h2 : d'.dirty = false → ∀ x ∈ d'.slots, x.state = .connected)
    (h3 : Sorted d'.slots) (h4 : ∀ x ∈ d'.slots, x.node < m'.nextNode)
    (h5 : ∀ x ∈ d'.slots, x.object = x.receiver) : SInv m' := by
  refine ⟨?_, ?_, ?_, ?_, ?_⟩ <;> intro e' g' d'' hd'' <;> rw [hdata] at hd'' <;> by_cases c : e' = e ∧ g' = g
  · simp only [c, and_self, if_true, Option.some.injEq] at hd''; subst hd''; exact h1
  · simp only [c, if_false] at hd''; exact h.clean e' g' d'' hd''
  · simp only [c, and_self, if_true, Option.some.injEq] at hd''; subst hd''; exact h2
  · simp only [c, if_false] at hd''; exact h.allConn e' g' d'' hd''
  · simp only [c, and_self, if_true, Option.some.injEq] at hd''; subst hd''; exact h3
  · simp only [c, if_false] at hd''; exact h.sorted e' g' d'' hd''
  · simp only [c, and_self, if_true, Option.some.injEq] at hd''; subst hd''; exact h4
  · simp only [c, if_false] at hd''
    exact fun x hx => Nat.lt_of_lt_of_le (h.bound e' g' d'' hd'' x hx) hnn
  · simp only [c, and_self, if_true, Option.some.injEq] at hd''; subst hd''; exact h5
  · simp only [c, if_false] at hd''; exact h.obj e' g' d'' hd''

theorem ekeys_put {m : State} {e g : Nat} {em : Emitter} {d' : SignalData} {m0 : State}
    (h : BInv m) (hem : m.emitters e = some em) (hm0 : m0.emitters = m.emitters) :
    ∀ e' em' g', (m0.setEmitter e (some (em.setSig g d'))).emitters e' = some em' → (em'.sig g').isSome → g' ∈ em'.sigKeys := by
  intro e' em' g' hem' hsg'
  simp only [State.setEmitter, hm0] at hem'
  by_cases c : e' = e
  · subst c
    simp only [if_true, Option.some.injEq] at hem'
    subst hem'
    exact setSig_keys g _ (fun g'' => h.ekeys e' em g'' hem) g' hsg'
  · simp only [c, if_false] at hem'
    exact h.ekeys e' em' g' hem' hsg'

theorem isSome_put {m0 : State} {e : Nat} {em em2 : Emitter} (hem : m0.emitters e = some em) (e' : Nat) :
    ((m0.setEmitter e (some em2)).emitters e').isSome = (m0.emitters e').isSome := by
  simp only [State.setEmitter]
  by_cases c : e' = e
  · subst c; simp [hem]
  · simp [c]

end Nstd.Callback
