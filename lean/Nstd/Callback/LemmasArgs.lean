import Nstd.Callback.LemmasTop
/-
  Argument forwarding.  `emit(signal, arg0, …)` declares its parameters with the parameter types of the signal
  (Callback.hpp:42-59: `A arg0` lives in the frame of that `emit` call) and hands `arg0, …` to every slot its loop
  invokes: a copy per slot for a value type, the caller's object itself for a reference type.  In the evaluator the
  argument of an emission is a parameter of the loop task (`Arg`: current content + whether it is a reference); slot
  invocations, what a slot called by reference left in the object (`ret`), the start and the return of every `emit`
  call are written to the log.  `fwd` reads such a log with the stack of the arguments of the `emit` calls in progress:
  it accepts iff every invocation happens inside an `emit` call and carries exactly the current content of the argument
  of the innermost `emit` call in progress (which is the call whose loop makes the invocation: everything a slot starts
  has returned before the loop goes on), `ret` occurs only for reference arguments, and every return matches a start.
-/
namespace Nstd.Callback

/-- read a log (oldest event first) with the stack of the arguments of the `emit` calls in progress, innermost
    first (`ref g` = the parameter type of signal `g` is a reference).  An invocation must carry the current content
    of the argument of the innermost emission; a slot returning from a reference parameter (`ret w`) leaves `w` in
    it; `none` = an invocation outside every emission or with another argument, a `ret` for a by-value emission, a
    return without a call. -/
def fwd (ref : Nat → Bool) : List Arg → List Ev → Option (List Arg)
  | st, [] => some st
  | st, .emitBegin _ g v :: es => fwd ref (⟨v, ref g⟩ :: st) es
  | [], .call _ _ _ :: _ => none
  | c :: st, .call _ _ v :: es => if v = c.val then fwd ref (c :: st) es else none
  | [], .emitEnd :: _ => none
  | _ :: st, .emitEnd :: es => fwd ref st es
  | [], .ret _ :: _ => none
  | c :: st, .ret w :: es => if c.ref then fwd ref (⟨w, true⟩ :: st) es else none

theorem fwd_append (ref : Nat → Bool) (st : List Arg) (xs ys : List Ev) :
    fwd ref st (xs ++ ys) = (fwd ref st xs).bind (fun st' => fwd ref st' ys) := by
  induction xs generalizing st with
  | nil => rfl
  | cons x xs ih =>
    cases x with
    | emitBegin e g v => simp only [List.cons_append, fwd, ih]
    | call l s v =>
      cases st with
      | nil => simp [fwd]
      | cons c st =>
        simp only [List.cons_append, fwd]
        by_cases h : v = c.val
        · simp only [h, if_true, ih]
        · simp [h]
    | emitEnd =>
      cases st with
      | nil => simp [fwd]
      | cons c st => simp only [List.cons_append, fwd, ih]
    | ret w =>
      cases st with
      | nil => simp [fwd]
      | cons c st =>
        simp only [List.cons_append, fwd]
        by_cases h : c.ref = true
        · simp only [h, if_true, ih]
        · simp [h]

variable {σ α π : Type}

theorem prim_log (M : Machine σ α π) (r : Run σ) (a : Action) : (r.prim M a).log = r.log := by
  cases a <;> simp only [Run.prim] <;> (try split) <;> rfl

/-- what a script adds to the log is balanced (every stack is left as it was); what the loop of an emission adds
    is accepted under its argument `v` and leaves the argument as the last slot left it (a by-value argument unchanged) -/
theorem exec_fwd (M : Machine σ α π) (P : Prog) (n : Nat) :
    (∀ (r : Run σ) (as : List Action), ∃ new, (exec M P n r (.acts as)).log = new ++ r.log ∧
        ∀ st, fwd P.ref st new.reverse = some st) ∧
    (∀ (r : Run σ) (a : α) (p : π) (v : Arg), ∃ new v', (exec M P n r (.loop a p v)).log = new ++ r.log ∧
        (v.ref = false → v' = v) ∧ ∀ st, fwd P.ref (v :: st) new.reverse = some (v' :: st)) := by
  induction n with
  | zero =>
    exact ⟨fun r as => ⟨[], by rw [exec_zero]; rfl, fun st => rfl⟩,
      fun r a p v => ⟨[], v, by rw [exec_zero]; rfl, fun _ => rfl, fun st => rfl⟩⟩
  | succ n ih =>
    obtain ⟨ihA, ihL⟩ := ih
    constructor
    · intro r as
      cases as with
      | nil => exact ⟨[], rfl, fun st => rfl⟩
      | cons a as =>
        by_cases hem : ∃ e g v, a = .emit e g v
        · obtain ⟨e, g, v, rfl⟩ := hem
          rw [exec_acts_emit]
          -- the emission itself
          have hsub : ∃ new, (if M.aliveE r.m (r.emId e) then
                match M.begin (r.emId e) g r.m with
                | (m1, none) => ({ r with m := m1 }.mark (.emitBegin e g v)).mark .emitEnd
                | (m1, some (a, p)) =>
                  { exec M P n ({ r with m := m1 }.mark (.emitBegin e g v)) (.loop a p ⟨v, P.ref g⟩) with
                    m := M.finish a (exec M P n ({ r with m := m1 }.mark (.emitBegin e g v)) (.loop a p ⟨v, P.ref g⟩)).m }.mark .emitEnd
              else r).log = new ++ r.log ∧ ∀ st, fwd P.ref st new.reverse = some st := by
            by_cases c : M.aliveE r.m (r.emId e) = true
            · simp only [c, if_true]
              rcases hb : M.begin (r.emId e) g r.m with ⟨m1, o⟩
              cases o with
              | none =>
                refine ⟨[.emitEnd, .emitBegin e g v], rfl, fun st => ?_⟩
                simp [fwd]
              | some ap =>
                obtain ⟨a, p⟩ := ap
                obtain ⟨new, v', hlog, _, hf⟩ := ihL ({ r with m := m1 }.mark (.emitBegin e g v)) a p ⟨v, P.ref g⟩
                refine ⟨.emitEnd :: (new ++ [.emitBegin e g v]), ?_, fun st => ?_⟩
                · simp only [Run.mark] at hlog ⊢
                  rw [hlog]
                  simp only [List.append_assoc, List.cons_append, List.nil_append]
                · simp only [List.reverse_cons, List.reverse_append, List.reverse_nil, List.nil_append,
                    List.cons_append, fwd, fwd_append, hf, Option.bind_some]
            · simp only [c]
              exact ⟨[], rfl, fun st => rfl⟩
          obtain ⟨new1, h1, hf1⟩ := hsub
          generalize (if M.aliveE r.m (r.emId e) = true then _ else r : Run σ) = r1 at h1 ⊢
          obtain ⟨new2, h2, hf2⟩ := ihA r1 as
          refine ⟨new2 ++ new1, ?_, fun st => ?_⟩
          · rw [h2, h1, List.append_assoc]
          · simp only [List.reverse_append, fwd_append, hf1, hf2, Option.bind_some]
        · have hne : ∀ e g v, a ≠ .emit e g v := fun e g v he => hem ⟨e, g, v, he⟩
          rw [exec_acts_prim _ _ _ _ _ _ hne]
          obtain ⟨new, h, hf⟩ := ihA (r.prim M a) as
          exact ⟨new, by rw [h, prim_log], hf⟩
    · intro r a p v
      rw [exec_loop]
      cases hn : M.next r.m a p with
      | done => exact ⟨[], v, rfl, fun _ => rfl, fun st => rfl⟩
      | fault => exact ⟨[], v, rfl, fun _ => rfl, fun st => rfl⟩
      | call l s p' =>
        simp only
        by_cases c : M.aliveL r.m l = true
        · simp only [c, if_true]
          generalize hw : v.val + bumpOf (P.script (r.lIdx l) s (r.inv (r.lIdx l) s)) = w
          obtain ⟨new1, h1, hf1⟩ := ihA (r.enter (r.lIdx l) s v.val) (P.script (r.lIdx l) s (r.inv (r.lIdx l) s))
          obtain ⟨new2, v', h2, hv2, hf2⟩ := ihL ((exec M P n (r.enter (r.lIdx l) s v.val)
            (.acts (P.script (r.lIdx l) s (r.inv (r.lIdx l) s)))).markIf v.ref (.ret w)) a p' (v.after w)
          refine ⟨new2 ++ ((if v.ref then [Ev.ret w] else []) ++ (new1 ++ [.call (r.lIdx l) s v.val])), v', ?_, ?_, fun st => ?_⟩
          · rw [h2, markIf_log, h1]
            simp only [Run.enter, List.append_assoc, List.cons_append, List.nil_append]
          · intro hr
            have : v.after w = v := by simp [Arg.after, hr]
            rw [this] at hv2
            exact hv2 hr
          · cases hr : v.ref with
            | false =>
              have ha : v.after w = v := by simp [Arg.after, hr]
              rw [ha] at hf2
              simp only [Bool.false_eq_true, if_false, List.nil_append, List.reverse_append, List.reverse_cons, List.reverse_nil,
                List.cons_append, fwd_append, fwd, if_true, hf1, hf2, Option.bind_some]
            | true =>
              have ha : v.after w = ⟨w, true⟩ := by simp [Arg.after, hr]
              rw [ha] at hf2
              simp only [if_true, List.reverse_append, List.reverse_cons, List.reverse_nil, List.nil_append,
                List.cons_append, fwd_append, fwd, hf1, hf2, hr, Option.bind_some]
        · simp only [c]
          exact ⟨[], v, rfl, fun _ => rfl, fun st => rfl⟩

theorem runOps_fwd (M : Machine σ α π) (P : Prog) (fuel : Nat) (ops : List Action) :
    ∀ r : Run σ, ∃ new, (runOps M P fuel r ops).log = new ++ r.log ∧ ∀ st, fwd P.ref st new.reverse = some st := by
  induction ops with
  | nil => intro r; exact ⟨[], rfl, fun st => rfl⟩
  | cons a as ih =>
    intro r
    obtain ⟨new1, h1, hf1⟩ := (exec_fwd M P fuel).1 r [a]
    obtain ⟨new2, h2, hf2⟩ := ih (exec M P fuel r (.acts [a]))
    refine ⟨new2 ++ new1, ?_, fun st => ?_⟩
    · simp only [runOps]; rw [h2, h1, List.append_assoc]
    · simp only [List.reverse_append, fwd_append, hf1, hf2, Option.bind_some]

end Nstd.Callback
