import Nstd.Callback.Model
/-
  The model with ADDRESS REUSE.  `Run.prim` (Model.lean) gives a re-created object (`newL` / `newE`: `new Li(i)` / `new Em(i)`
  into a variable whose object was destroyed) an id never used before.  The allocator may hand out the address of the
  destroyed object again (the harness's `reuse` mode forces exactly that).  `execR` is the same evaluator over the same
  primitives of the model of Callback.cpp, except that a re-created object gets THE ID OF ITS PREDECESSOR: the variable keeps
  its id and `reviveL` / `reviveE` construct an empty object there.  Whatever still mentions the old id (slot entries marked
  `disconnected`, keys of listeners' maps with empty lists, invalidated activation frames) now mentions the new object.

  The driver runs `execR` beside `exec` on every op line and flags any difference in log or bookkeeping (`REUSEDIFF`); the
  theorem that there is none is the OPEN block of PropsReuse.lean.
-/
namespace Nstd.Callback

/-- `new (addr) Listener` at the address of a destroyed listener -/
def reviveL (l : Nat) (st : State) : State := st.setListener l (some { emKeys := [], sigs := fun _ => [] })

/-- `new (addr) Emitter` at the address of a destroyed emitter -/
def reviveE (e : Nat) (st : State) : State := st.setEmitter e (some { sigKeys := [], sig := fun _ => none })

/-- `Run.prim` with address reuse: the variables keep their ids for ever (`emId`, `lId`, `lIdx` never change) -/
def Run.primR (r : Run State) : Action → Run State
  | .newL l => if (r.m.listeners (r.lId l)).isSome then r else { r with m := reviveL (r.lId l) r.m }
  | .newE e => if (r.m.emitters (r.emId e)).isSome then r else { r with m := reviveE (r.emId e) r.m }
  | a => r.prim machine a

/-- `exec machine` with `primR` in the place of `prim` (the same text otherwise) -/
def execR (P : Prog) : Nat → Run State → Task Nat (Option Nat) → Run State
  | 0, r, _ => { r with oof := true }
  | _ + 1, r, .acts [] => r
  | n + 1, r, .acts (.emit e g v :: as) =>
    let r1 : Run State :=
      if machine.aliveE r.m (r.emId e) then
        match machine.begin (r.emId e) g r.m with
        | (m1, none) => ({ r with m := m1 }.mark (.emitBegin e g v)).mark .emitEnd
        | (m1, some (a, p)) =>
          let r2 := execR P n ({ r with m := m1 }.mark (.emitBegin e g v)) (.loop a p ⟨v, P.ref g⟩)
          { r2 with m := machine.finish a r2.m }.mark .emitEnd
      else r
    execR P n r1 (.acts as)
  | n + 1, r, .acts (a :: as) => execR P n (r.primR a) (.acts as)
  | n + 1, r, .loop a p v =>
    match machine.next r.m a p with
    | .done => r
    | .fault => { r with bad := true }
    | .call l s p' =>
      if machine.aliveL r.m l then
        let body := P.script (r.lIdx l) s (r.inv (r.lIdx l) s)
        let r2 := execR P n (r.enter (r.lIdx l) s v.val) (.acts body)
        execR P n (r2.markIf v.ref (.ret (v.val + bumpOf body))) (.loop a p' (v.after (v.val + bumpOf body)))
      else { r with bad := true }

/-! ### listener address reuse, generic in the machine (for the refinement proof) -/

/-- a machine that can construct a new listener at the id of a destroyed one -/
structure MachineR (σ α π : Type) extends Machine σ α π where
  reviveL : Nat → σ → σ

/-- `Run.prim` with listener address reuse: `newL` constructs the new listener at the id the variable holds (`lId`, `lIdx`,
    `nextL` never change); a new emitter gets a new id as in `Run.prim` -/
def Run.primRL {σ α π : Type} (M : MachineR σ α π) (r : Run σ) : Action → Run σ
  | .newL l => if M.aliveL r.m (r.lId l) then r else { r with m := M.reviveL (r.lId l) r.m }
  | a => r.prim M.toMachine a

/-- `exec` with `primRL` in the place of `prim` (the same text otherwise) -/
def execRL {σ α π : Type} (M : MachineR σ α π) (P : Prog) : Nat → Run σ → Task α π → Run σ
  | 0, r, _ => { r with oof := true }
  | _ + 1, r, .acts [] => r
  | n + 1, r, .acts (.emit e g v :: as) =>
    let r1 : Run σ :=
      if M.aliveE r.m (r.emId e) then
        match M.begin (r.emId e) g r.m with
        | (m1, none) => ({ r with m := m1 }.mark (.emitBegin e g v)).mark .emitEnd
        | (m1, some (a, p)) =>
          let r2 := execRL M P n ({ r with m := m1 }.mark (.emitBegin e g v)) (.loop a p ⟨v, P.ref g⟩)
          { r2 with m := M.finish a r2.m }.mark .emitEnd
      else r
    execRL M P n r1 (.acts as)
  | n + 1, r, .acts (a :: as) => execRL M P n (r.primRL M a) (.acts as)
  | n + 1, r, .loop a p v =>
    match M.next r.m a p with
    | .done => r
    | .fault => { r with bad := true }
    | .call l s p' =>
      if M.aliveL r.m l then
        let body := P.script (r.lIdx l) s (r.inv (r.lIdx l) s)
        let r2 := execRL M P n (r.enter (r.lIdx l) s v.val) (.acts body)
        execRL M P n (r2.markIf v.ref (.ret (v.val + bumpOf body))) (.loop a p' (v.after (v.val + bumpOf body)))
      else { r with bad := true }

/-- the model of Callback.cpp with listener address reuse -/
def machineRL : MachineR State Nat (Option Nat) := { machine with reviveL := reviveL }

end Nstd.Callback
