/-
  Executable model of `Callback` (include/nstd/Callback.hpp, src/Callback.cpp), function by
  function.  Core Lean only (the compiled driver links this file).

  * Pointers become ids: emitters, listeners, signals (pointer-to-member of the emitter
    class) and slots (pointer-to-member of the listener class) are natural numbers.  An object
    id denotes one object for ever: a destroyed object is `none` in the object table, a new
    object (`new Emitter`) is an id never used before, even when the allocator hands out the
    address of a destroyed object again (the harness does re-create objects, see `Run.prim`).
    The node of `List<Slot>` that holds a connection has an identity of its own (`Slot.node`,
    its address): a fresh number from the allocation counter `nextNode`.  No control flow of
    the model reads `node`; it only lets the theorems speak about "the same connection".
  * `Map<MemberFuncPtr, SignalData>` / `Map<Emitter*, List<Signal>>` are a key list plus a
    lookup function.  The destructors visit the keys in insertion order where the C++ code
    visits them in key order; the visits touch different lists, so the order is immaterial.
  * The `SignalActivation` objects live on the C++ call stack: `State.frames` is that stack
    (innermost first), a frame id is its distance from the bottom (`frameAt`), `SignalData.activation`
    and `Frame.next` are frame ids exactly as the C++ pointers.
  * Touching freed memory is a *fault* (`State.fault := true`), never a silent default:
    `~Listener` reaching a destroyed emitter, `~Emitter` reaching a destroyed listener,
    `~SignalActivation` of a non-invalidated frame whose emitter is gone, an emission loop
    reading the slot list of a destroyed emitter, invoking a slot of a destroyed listener.
  * `emit` (Callback.hpp:42-59) together with the slot bodies of the test program is the
    generic evaluator `exec` over a `Machine` (the primitive functions of this file); slot
    bodies are scripts (`Prog`) indexed by (listener, slot, invocation number) whose actions
    name the harness's variables `em[i]` / `li[i]`.  The evaluator takes fuel; every theorem is
    for all fuel.
  * A `SignalActivation` constructed while the emitter has no data for the signal is inert
    (`data = 0`: constructor, loop and destructor touch nothing); the model pushes no frame for it.
  * The iterator of the emission loop is an index into the slot list, or `none` for the `end`
    iterator captured when the list was empty at construction.  (Entries are never
    unlinked while an activation of that signal exists, so an index denotes the same node
    for the whole emission.)  Skipping non-`connected` entries between two invocations
    happens without any state change and is one call of `nextConnected`.

  The model follows the code *with the repair of defect D18*
  (fixes/callback/0001-*.patch): `disconnect` and `~Listener` skip entries that are already
  `disconnected` when they look for the entry to unlink.
-/
namespace Nstd.Callback

inductive SlotState where
  | connected | connecting | disconnected
  deriving DecidableEq, Repr, Inhabited

/-- `Callback::Emitter::Slot` (+ the identity of the list node holding it) -/
structure Slot where
  receiver : Nat
  object : Nat
  slot : Nat
  node : Nat
  state : SlotState
  deriving Repr, Inhabited

/-- `Callback::Emitter::SignalData` -/
structure SignalData where
  activation : Option Nat
  slots : List Slot
  dirty : Bool
  deriving Inhabited

/-- `SignalData()` -/
def SignalData.empty : SignalData := { activation := none, slots := [], dirty := false }

/-- `Callback::Emitter` : `Map<MemberFuncPtr, SignalData> signalData` -/
structure Emitter where
  sigKeys : List Nat
  sig : Nat → Option SignalData

/-- `Callback::Listener` : `Map<Emitter*, List<Signal>> slotData`; `sigs e` is the list of
    (signal, slot) pairs stored under key `e` (empty when the key is absent: every reader
    of the map treats an absent key like an empty list, Callback.cpp:17-18,147-148 — the
    end item of `Map` holds a default-constructed, i.e. empty, list) -/
structure Listener where
  emKeys : List Nat
  sigs : Nat → List (Nat × Nat)

/-- `Callback::Emitter::SignalActivation` (the iterators are held by the evaluator's cursor) -/
structure Frame where
  next : Option Nat
  invalidated : Bool
  data : Nat × Nat
  deriving Repr, Inhabited

structure State where
  emitters : Nat → Option Emitter
  listeners : Nat → Option Listener
  frames : List Frame
  nextNode : Nat
  fault : Bool


/-! ### the stack of activation frames (innermost first; id = distance from the bottom) -/

def frameAt : List Frame → Nat → Option Frame
  | [], _ => none
  | f :: fs, i => if i = fs.length then some f else frameAt fs i

/-- `frame(i)->invalidated = true` -/
def setInvalid : List Frame → Nat → List Frame
  | [], _ => []
  | f :: fs, i => if i = fs.length then { f with invalidated := true } :: fs else f :: setInvalid fs i

/-- the stack below frame `i` (frame `i` and everything above it is gone) -/
def popTo : List Frame → Nat → List Frame
  | [], _ => []
  | f :: fs, i => if fs.length < i then f :: fs else popTo fs i

/-! ### small helpers -/

def State.setEmitter (st : State) (e : Nat) (em : Option Emitter) : State :=
  { st with emitters := fun e' => if e' = e then em else st.emitters e' }

def State.setListener (st : State) (l : Nat) (li : Option Listener) : State :=
  { st with listeners := fun l' => if l' = l then li else st.listeners l' }

def State.faulted (st : State) : State := { st with fault := true }

/-- store `d` under key `g` (`insert` when the key is new) -/
def Emitter.setSig (em : Emitter) (g : Nat) (d : SignalData) : Emitter :=
  { sigKeys := if (em.sig g).isSome then em.sigKeys else em.sigKeys ++ [g]
    sig := fun g' => if g' = g then some d else em.sig g' }

def Listener.setSigs (li : Listener) (e : Nat) (l : List (Nat × Nat)) : Listener :=
  { emKeys := if e ∈ li.emKeys then li.emKeys else li.emKeys ++ [e]
    sigs := fun e' => if e' = e then l else li.sigs e' }

/-- write back the signal data of a live emitter -/
def State.setData (st : State) (e g : Nat) (d : SignalData) : State :=
  match st.emitters e with
  | some em => st.setEmitter e (some (em.setSig g d))
  | none => st.faulted

def State.data (st : State) (e g : Nat) : Option SignalData :=
  match st.emitters e with
  | some em => em.sig g
  | none => none

/-! ### the search loops of `disconnect` / `~Listener` (Callback.cpp:88-99, 134-145) -/

/-- the loop condition (with the D18 repair: an entry already `disconnected` is skipped) -/
def Slot.isMatch (x : Slot) (l s : Nat) : Bool :=
  x.receiver == l && x.slot == s && x.state != .disconnected

def hasMatch (l s : Nat) : List Slot → Bool
  | [] => false
  | x :: xs => x.isMatch l s || hasMatch l s xs

/-- first match gets `state = disconnected` (an activation exists) -/
def markFirst (l s : Nat) : List Slot → List Slot
  | [] => []
  | x :: xs => if x.isMatch l s then { x with state := .disconnected } :: xs else x :: markFirst l s xs

/-- first match is unlinked (`slots.remove(i)`, no activation) -/
def eraseFirst (l s : Nat) : List Slot → List Slot
  | [] => []
  | x :: xs => if x.isMatch l s then xs else x :: eraseFirst l s xs

/-- body shared by `disconnect` and `~Listener` once the signal data is found -/
def unlinkOrMark (d : SignalData) (l s : Nat) : SignalData :=
  if hasMatch l s d.slots then
    if d.activation.isSome then { d with slots := markFirst l s d.slots, dirty := true }
    else { d with slots := eraseFirst l s d.slots }
  else d

/-! ### `Callback::connect` (Callback.cpp:105-125) -/

def connect (e g l s : Nat) (st : State) : State :=
  match st.emitters e, st.listeners l with
  | some em, some li =>
    let d := match em.sig g with
      | some d => d
      | none => SignalData.empty
    let sl : Slot := { receiver := l, object := l, slot := s, node := st.nextNode,
                       state := if d.activation.isSome then .connecting else .connected }
    let d' : SignalData := { d with slots := d.slots ++ [sl], dirty := d.dirty || d.activation.isSome }
    let st1 := { st with nextNode := st.nextNode + 1 }
    let st2 := st1.setEmitter e (some (em.setSig g d'))
    st2.setListener l (some (li.setSigs e (li.sigs e ++ [(g, s)])))
  | _, _ => st.faulted

/-! ### `Callback::disconnect` (Callback.cpp:127-155) -/

def disconnect (e g l s : Nat) (st : State) : State :=
  match st.emitters e, st.listeners l with
  | some em, some li =>
    match em.sig g with
    | none => st
    | some d =>
      let st1 := st.setEmitter e (some (em.setSig g (unlinkOrMark d l s)))
      -- listener side: first (signal, slot) pair under key `e` is removed
      st1.setListener l (some { li with sigs := fun e' => if e' = e then (li.sigs e).erase (g, s) else li.sigs e' })
  | _, _ => st.faulted

/-! ### `Callback::Listener::~Listener` (Callback.cpp:75-103) -/

/-- inner-most body: one (signal, slot) pair stored under emitter key `e` -/
def dropSlot (l e : Nat) (st : State) (gs : Nat × Nat) : State :=
  match st.emitters e with
  | none => st.faulted                       -- dangling `Emitter*`
  | some em =>
    match em.sig gs.1 with
    | none => st
    | some d => st.setEmitter e (some (em.setSig gs.1 (unlinkOrMark d l gs.2)))

def delListener (l : Nat) (st : State) : State :=
  match st.listeners l with
  | none => st.faulted
  | some li =>
    let st1 := li.emKeys.foldl (fun st e => (li.sigs e).foldl (dropSlot l e) st) st
    st1.setListener l none

/-! ### `Callback::Emitter::~Emitter` (Callback.cpp:4-30) -/

def invalidate (st : State) (a : Nat) : State :=
  match frameAt st.frames a with
  | some _ => { st with frames := setInvalid st.frames a }
  | none => st.faulted

/-- body of the slot loop: remove the (signal, slot) pair from the receiver's list -/
def dropSignal (e g : Nat) (st : State) (sl : Slot) : State :=
  if sl.state = .disconnected then st
  else
    match st.listeners sl.receiver with
    | none => st.faulted                      -- dangling `Listener*` (defect D18 before the repair)
    | some li =>
      st.setListener sl.receiver
        (some { li with sigs := fun e' => if e' = e then (li.sigs e).erase (g, sl.slot) else li.sigs e' })

def delEmitterSig (e : Nat) (em : Emitter) (st : State) (g : Nat) : State :=
  match em.sig g with
  | none => st
  | some d =>
    let st1 := match d.activation with
      | some a => invalidate st a
      | none => st
    d.slots.foldl (dropSignal e g) st1

def delEmitter (e : Nat) (st : State) : State :=
  match st.emitters e with
  | none => st.faulted
  | some em => (em.sigKeys.foldl (delEmitterSig e em) st).setEmitter e none

/-! ### `SignalActivation::SignalActivation` (Callback.cpp:32-48)

  Returns the activation (its frame id) and the iterator `begin`: `some 0` = the first entry, `none` =
  the `end` iterator when the list is empty at construction (then `begin == end` for good: entries
  appended later are never reached, Callback.cpp:45-46).  When the emitter
  has no data for the signal the C++ object is inert (`data = 0`, `next = 0`, `begin == end`:
  constructor, loop and destructor touch nothing): no frame is pushed and `none` is returned. -/

def actBegin (e g : Nat) (st : State) : State × Option (Nat × Option Nat) :=
  match st.emitters e with
  | none => (st.faulted, none)
  | some em =>
    match em.sig g with
    | none => (st, none)
    | some d =>
      let fid := st.frames.length
      let st1 : State := { st with frames := ({ next := d.activation, invalidated := false, data := (e, g) } : Frame) :: st.frames }
      (st1.setEmitter e (some (em.setSig g { d with activation := some fid })),
        some (fid, if d.slots.isEmpty then none else some 0))

/-! ### the loop of `emit` between two invocations (Callback.hpp:42-43) -/

/-- first entry at index `≥ i` whose state is `connected` -/
def nextConnectedAux : List Slot → Nat → Option (Nat × Slot)
  | [], _ => none
  | x :: xs, j => if x.state = .connected then some (j, x) else nextConnectedAux xs (j + 1)

def nextConnected (slots : List Slot) (i : Nat) : Option (Nat × Slot) :=
  nextConnectedAux (slots.drop i) i

inductive Step (π : Type) where
  | done
  | call (l s : Nat) (p : π)
  | fault

/-- from iterator position `pos` of activation `fid` (`none` = the `end` iterator captured for a list
    that was empty at construction, `some idx` = the entry with that index, or the end of the
    current list when there is none): the next slot to invoke -/
def next (st : State) (fid : Nat) (pos : Option Nat) : Step (Option Nat) :=
  match frameAt st.frames fid with
  | none => .fault
  | some f =>
    if f.invalidated then .done                  -- `if(activation.invalidated) return;`
    else
      match pos with
      | none => .done                            -- `begin == end`
      | some idx =>
        match st.data f.data.1 f.data.2 with
        | none => .fault                         -- the slot list is gone
        | some d =>
          match nextConnected d.slots idx with
          | none => .done
          | some (j, sl) => .call sl.object sl.slot (some (j + 1))

/-! ### `SignalActivation::~SignalActivation` (Callback.cpp:50-72) -/

/-- the purge loop (Callback.cpp:56-66) -/
def purge : List Slot → List Slot
  | [] => []
  | x :: xs =>
    match x.state with
    | .disconnected => purge xs
    | .connecting => { x with state := .connected } :: purge xs
    | .connected => x :: purge xs

def actEnd (fid : Nat) (st : State) : State :=
  match frameAt st.frames fid with
  | none => st.faulted
  | some f =>
    let st0 : State := { st with frames := popTo st.frames fid }
    if !f.invalidated then
      match st0.emitters f.data.1 with
      | none => st0.faulted
      | some em =>
        match em.sig f.data.2 with
        | none => st0.faulted
        | some d =>
          let d1 : SignalData := { d with activation := f.next }
          let d2 : SignalData := if f.next.isNone && d.dirty then { d1 with slots := purge d.slots, dirty := false } else d1
          st0.setEmitter f.data.1 (some (em.setSig f.data.2 d2))
    else
      match f.next with
      | some n => invalidate st0 n
      | none => st0

/-! ### programs and the generic evaluator -/

inductive Action where
  | connect (e g l s : Nat)
  | disconnect (e g l s : Nat)
  | emit (e g v : Nat)
  | delL (l : Nat)
  | delE (e : Nat)
  | newL (l : Nat)
  | newE (e : Nat)
  /-- the slot adds `d` to its own parameter before it returns (`a += d`): lost when the parameter is a copy,
      seen by the next slot and by the caller when the parameter type of the signal is a reference -/
  | bump (d : Nat)
  deriving Repr, Inhabited, DecidableEq

/-- the script table: body of slot `s` of listener `l` at its `k`-th invocation -/
structure Prog where
  script : Nat → Nat → Nat → List Action
  /-- the signals whose parameter types are references (`void sig(int&)`): `emit` then declares `int& arg0`, every
      slot gets the caller's object itself -/
  ref : Nat → Bool := fun _ => false

/-- what a slot body adds to its parameter -/
def bumpOf : List Action → Nat
  | [] => 0
  | .bump d :: as => d + bumpOf as
  | _ :: as => bumpOf as

/-- the argument of an emission while its loop runs: the current content of `arg0` and whether it is a reference
    to the caller's object -/
structure Arg where
  val : Nat
  ref : Bool
  deriving Repr, DecidableEq

/-- after a slot that left `w` in its parameter: a reference parameter now holds `w`, a copy is gone -/
def Arg.after (v : Arg) (w : Nat) : Arg := if v.ref then { v with val := w } else v

abbrev Table := List ((Nat × Nat × Nat) × List Action)

/-- the program a finite script table stands for (what the driver builds from the `script` lines;
    the first entry of a cell counts) -/
def Prog.ofTable (T : Table) (ref : Nat → Bool := fun _ => false) : Prog :=
  { script := fun l s k =>
      match T.find? (fun x => x.1 == (l, s, k)) with
      | some x => x.2
      | none => []
    ref := ref }

/-- the primitive operations an emission/program evaluator needs; implemented by the model
    of Callback.cpp (`machine` below) and by the specification (Spec.lean).  `α` identifies an
    emission in progress (the activation), `π` is the position of its loop. -/
structure Machine (σ α π : Type) where
  connect : Nat → Nat → Nat → Nat → σ → σ
  disconnect : Nat → Nat → Nat → Nat → σ → σ
  delL : Nat → σ → σ
  delE : Nat → σ → σ
  aliveE : σ → Nat → Bool
  aliveL : σ → Nat → Bool
  begin : Nat → Nat → σ → σ × Option (α × π)
  next : σ → α → π → Step π
  finish : α → σ → σ

def machine : Machine State Nat (Option Nat) where
  connect := connect
  disconnect := disconnect
  delL := delListener
  delE := delEmitter
  aliveE := fun st e => (st.emitters e).isSome
  aliveL := fun st l => (st.listeners l).isSome
  begin := actBegin
  next := next
  finish := actEnd

/-- what the harness writes into its log: a slot invocation (listener index, slot, the argument
    the slot received), the start of an `emit` call (emitter variable, signal, the argument given
    to `emit`) and its return.  One number `v` stands for the argument tuple: the harness passes
    `(v, v+1, …, v+k-1)` to the arity-`k` overload and the slot checks the whole tuple. -/
inductive Ev where
  | call (l s v : Nat)
  | emitBegin (e g v : Nat)
  | emitEnd
  /-- a slot called with a reference parameter returns, leaving `w` in the caller's object -/
  | ret (w : Nat)
  deriving Repr, Inhabited, DecidableEq

/-- evaluator state: the machine; the harness's variables `em[i]` / `li[i]` (`emId i` / `lId i` = the
    object the variable refers to, `lIdx` = the index a listener object carries in its `id` field;
    `nextE` / `nextL` = the next unused object); the invocation counters; the invocation log (newest
    first); `bad` = a freed object was used by the evaluator; `oof` = out of fuel -/
structure Run (σ : Type) where
  m : σ
  emId : Nat → Nat
  lId : Nat → Nat
  lIdx : Nat → Nat
  nextE : Nat
  nextL : Nat
  inv : Nat → Nat → Nat
  log : List Ev
  bad : Bool
  oof : Bool

/-- `.loop a p v`: the `for` loop of the `emit` call whose activation is `a`, at iterator position `p`;
    `v` is the argument `arg0 …` of that `emit` call: a parameter of `emit` of the declared type, living in its
    frame, handed to every slot the loop invokes — a copy per slot for a value type (`v.ref = false`), the caller's
    object itself for a reference type (`v.ref = true`: `v.val` is its current content) -/
inductive Task (α π : Type) where
  | acts (as : List Action)
  | loop (a : α) (p : π) (v : Arg)

/-- one action that is not an emission (harness `doAct`; the actions name harness variables;
    guards: the objects the variables refer to still exist).  `newL` / `newE`: a variable whose
    object was destroyed gets a new object (`new Li(i)` / `new Em(i)`), which is an object never
    used before. -/
def Run.prim {σ α π : Type} (M : Machine σ α π) (r : Run σ) : Action → Run σ
  | .connect e g l s =>
    if M.aliveE r.m (r.emId e) && M.aliveL r.m (r.lId l) then { r with m := M.connect (r.emId e) g (r.lId l) s r.m } else r
  | .disconnect e g l s =>
    if M.aliveE r.m (r.emId e) && M.aliveL r.m (r.lId l) then { r with m := M.disconnect (r.emId e) g (r.lId l) s r.m } else r
  | .delL l => if M.aliveL r.m (r.lId l) then { r with m := M.delL (r.lId l) r.m } else r
  | .delE e => if M.aliveE r.m (r.emId e) then { r with m := M.delE (r.emId e) r.m } else r
  | .newL l =>
    if M.aliveL r.m (r.lId l) then r
    else { r with lId := fun l' => if l' = l then r.nextL else r.lId l',
                  lIdx := fun i => if i = r.nextL then l else r.lIdx i, nextL := r.nextL + 1 }
  | .newE e =>
    if M.aliveE r.m (r.emId e) then r
    else { r with emId := fun e' => if e' = e then r.nextE else r.emId e', nextE := r.nextE + 1 }
  | .emit _ _ _ => r
  | .bump _ => r

/-- the harness's slot body prologue: log the invocation and the argument received, count it -/
def Run.enter {σ : Type} (r : Run σ) (l s v : Nat) : Run σ :=
  { r with inv := fun l' s' => if l' = l ∧ s' = s then r.inv l s + 1 else r.inv l' s',
           log := .call l s v :: r.log }

/-- the harness's `fire` writes a mark before and after the `emit` call -/
def Run.mark {σ : Type} (r : Run σ) (ev : Ev) : Run σ := { r with log := ev :: r.log }

def Run.markIf {σ : Type} (r : Run σ) (c : Bool) (ev : Ev) : Run σ := if c then r.mark ev else r

/-- The harness's `doAct`, the `emit` template and the slot bodies.  `.loop a p` is the `for`
    loop of `emit` of activation `a` from position `p`; `.acts` a script. -/
def exec {σ α π : Type} (M : Machine σ α π) (P : Prog) : Nat → Run σ → Task α π → Run σ
  | 0, r, _ => { r with oof := true }
  | _ + 1, r, .acts [] => r
  | n + 1, r, .acts (.emit e g v :: as) =>
    let r1 : Run σ :=
      if M.aliveE r.m (r.emId e) then
        match M.begin (r.emId e) g r.m with
        | (m1, none) => ({ r with m := m1 }.mark (.emitBegin e g v)).mark .emitEnd
        | (m1, some (a, p)) =>
          let r2 := exec M P n ({ r with m := m1 }.mark (.emitBegin e g v)) (.loop a p ⟨v, P.ref g⟩)
          { r2 with m := M.finish a r2.m }.mark .emitEnd
      else r
    exec M P n r1 (.acts as)
  | n + 1, r, .acts (a :: as) => exec M P n (r.prim M a) (.acts as)
  | n + 1, r, .loop a p v =>
    match M.next r.m a p with
    | .done => r
    | .fault => { r with bad := true }
    | .call l s p' =>
      if M.aliveL r.m l then
        -- the slot is called with (a copy of) `emit`'s argument; its body reads the listener's `id` field,
        -- logs it with the argument received and runs its script
        let body := P.script (r.lIdx l) s (r.inv (r.lIdx l) s)
        let r2 := exec M P n (r.enter (r.lIdx l) s v.val) (.acts body)
        -- a reference parameter: what the slot left in it is what the next slot (and the caller) finds
        exec M P n (r2.markIf v.ref (.ret (v.val + bumpOf body))) (.loop a p' (v.after (v.val + bumpOf body)))
      else { r with bad := true }

/-- no emission in progress; every object id denotes a freshly constructed (`new Emitter` /
    `new Listener`), so far unused object -/
def State.fresh : State :=
  { emitters := fun _ => some { sigKeys := [], sig := fun _ => none }
    listeners := fun _ => some { emKeys := [], sigs := fun _ => [] }
    frames := [], nextNode := 0, fault := false }

/-- the harness at `reset`: variables `em[i]`, `li[i]` (`i < ne`, `i < nl`) hold the objects `i` -/
def Run.init {σ : Type} (m : σ) (ne nl : Nat) : Run σ :=
  { m := m, emId := fun e => e, lId := fun l => l, lIdx := fun l => l, nextE := ne, nextL := nl,
    inv := fun _ _ => 0, log := [], bad := false, oof := false }

end Nstd.Callback
