import Nstd.Callback.ModelReuse
import Nstd.Callback.LemmasAudit
/-
  Property C12 — address reuse (a re-created Listener / Emitter at the address of its predecessor).

  `stale_mentions_are_dead_data` (Props.lean) says WHERE a destroyed object can still be mentioned in a reachable state: in
  the `receiver` / `object` fields of slot entries marked `disconnected`, as a key with an empty list in listeners' maps, in
  invalidated activation frames.  This file proves the operational half for the slot lists: NO LOOP OF Callback.cpp READS
  THOSE FIELDS.  `Slot.sim x y`: the two entries agree in state, slot and node, and — unless marked `disconnected` — in
  receiver and object.  Every function of the model that walks a slot list (`hasMatch`, `markFirst`, `eraseFirst` =
  the search loops of `disconnect` / `~Listener`; `nextConnected` = the loop of `emit`; `purge` = `~SignalActivation`;
  `dropSignal` = the loop of `~Emitter`) gives the same answer / related lists on `sim`-related lists
  (`stale_receiver_never_read`), and `purge` gives EQUAL lists: when the outermost emission ends nothing is left of the stale
  fields.  So whatever object lives at the address a `disconnected` entry still holds — none, or a new listener constructed
  there — the code behaves the same.

  `execR` (ModelReuse.lean) is the evaluator in which a re-created object gets the id of its predecessor.

  OPEN: the refinement of `execR` to `exec`.  Statement (with `runOpsR` = `runOps` over `execR`):
      theorem reuse_refines (P : Prog) (ne nl fuel : Nat) (ops : List Action) :
        (runOpsR P fuel (Run.init State.fresh ne nl) ops).log = (runOps machine P fuel (Run.init State.fresh ne nl) ops).log ∧
        bookkeeping of the two final states equal when read through the variables (`emId`, `lId`) of each run
  Proof plan: a relation `R ρE ρL m' m` between the state `m'` of `execR` and the state `m` of `exec` for partial injections
  ρ from the live ids of `m` to ids of `m'`: emitters/listeners correspond along ρ; slot lists pointwise `Slot.sim` up to ρL;
  listener lists equal under live keys and EMPTY under every id outside the image of ρE (by `stale_mentions_are_dead_data`);
  frames equal except `data` of invalidated frames; key lists equal as sets of live keys (`~Listener` may visit them in
  another order: `dtor_listener_order_irrelevant`, PropsOrder.lean).  Missing: the nine preservation lemmas of `R` and the
  lifting through the evaluator.  Proved towards it: `stale_mentions_are_dead_data`, `stale_receiver_never_read` (below),
  `dtor_listener_order_irrelevant`, `dtor_emitter_order_irrelevant`.  Tested on every run: the driver executes `execR` beside
  `exec` on every op line of the correspondence run and flags `REUSEDIFF` when log or bookkeeping differ; the real code runs
  every program that re-creates an object a second time with exact address reuse (`reuse` lines).
-/
set_option linter.unusedSimpArgs false
namespace Nstd.Callback

/-- two slot entries that differ at most in the receiver / object of an entry marked `disconnected` -/
def Slot.sim (x y : Slot) : Prop :=
  x.state = y.state ∧ x.slot = y.slot ∧ x.node = y.node ∧ (x.state ≠ .disconnected → x.receiver = y.receiver ∧ x.object = y.object)

inductive SlotsSim : List Slot → List Slot → Prop where
  | nil : SlotsSim [] []
  | cons {x y : Slot} {xs ys : List Slot} (h : x.sim y) (t : SlotsSim xs ys) : SlotsSim (x :: xs) (y :: ys)

theorem Slot.sim_refl (x : Slot) : x.sim x := ⟨rfl, rfl, rfl, fun _ => ⟨rfl, rfl⟩⟩

theorem isMatch_sim {x y : Slot} (h : x.sim y) (l s : Nat) : x.isMatch l s = y.isMatch l s := by
  obtain ⟨hs, hsl, _, hr⟩ := h
  unfold Slot.isMatch
  by_cases hd : x.state = .disconnected
  · have hd' : y.state = .disconnected := hs ▸ hd
    simp [hd, hd']
  · obtain ⟨h1, _⟩ := hr hd
    rw [h1, hsl, hs]

theorem hasMatch_sim {xs ys : List Slot} (h : SlotsSim xs ys) (l s : Nat) : hasMatch l s xs = hasMatch l s ys := by
  induction h with
  | nil => rfl
  | cons hxy _ ih => simp [hasMatch, isMatch_sim hxy, ih]

theorem markFirst_sim {xs ys : List Slot} (h : SlotsSim xs ys) (l s : Nat) : SlotsSim (markFirst l s xs) (markFirst l s ys) := by
  induction h with
  | nil => exact .nil
  | @cons x y xs ys hxy hrest ih =>
    simp only [markFirst, isMatch_sim hxy]
    by_cases hm : y.isMatch l s = true
    · simp only [hm, if_true]
      exact .cons ⟨rfl, hxy.2.1, hxy.2.2.1, fun hn => absurd rfl hn⟩ hrest
    · simp only [hm, if_false]
      exact .cons hxy ih

theorem eraseFirst_sim {xs ys : List Slot} (h : SlotsSim xs ys) (l s : Nat) : SlotsSim (eraseFirst l s xs) (eraseFirst l s ys) := by
  induction h with
  | nil => exact .nil
  | @cons x y xs ys hxy hrest ih =>
    simp only [eraseFirst, isMatch_sim hxy]
    by_cases hm : y.isMatch l s = true
    · simp only [hm, if_true]; exact hrest
    · simp only [hm, if_false]; exact .cons hxy ih

/-- after the purge (the outermost emission ended) nothing of the stale fields is left: the lists are EQUAL -/
theorem purge_sim {xs ys : List Slot} (h : SlotsSim xs ys) : purge xs = purge ys := by
  induction h with
  | nil => rfl
  | @cons x y xs ys hxy _ ih =>
    obtain ⟨hs, hsl, hn, hr⟩ := hxy
    unfold purge
    cases hx : x.state with
    | disconnected => rw [← hs, hx]; exact ih
    | connecting =>
      rw [← hs, hx]
      simp only
      obtain ⟨h1, h2⟩ := hr (by rw [hx]; decide)
      rw [ih]
      congr 1
      cases x; cases y; simp_all
    | connected =>
      rw [← hs, hx]
      simp only
      obtain ⟨h1, h2⟩ := hr (by rw [hx]; decide)
      rw [ih]
      congr 1
      cases x; cases y; simp_all

theorem nextConnectedAux_sim {xs ys : List Slot} (h : SlotsSim xs ys) (j : Nat) :
    (nextConnectedAux xs j).map (fun p => (p.1, p.2.object, p.2.slot)) = (nextConnectedAux ys j).map (fun p => (p.1, p.2.object, p.2.slot)) := by
  induction h generalizing j with
  | nil => rfl
  | @cons x y xs ys hxy _ ih =>
    obtain ⟨hs, hsl, _, hr⟩ := hxy
    unfold nextConnectedAux
    by_cases hc : x.state = .connected
    · have hc' : y.state = .connected := hs ▸ hc
      obtain ⟨_, h2⟩ := hr (by rw [hc]; decide)
      simp [hc, hc', h2, hsl]
    · have hc' : ¬ y.state = .connected := hs ▸ hc
      simp only [hc, hc', if_false]
      exact ih (j + 1)

theorem forall2_drop {xs ys : List Slot} (h : SlotsSim xs ys) (i : Nat) :
    SlotsSim (xs.drop i) (ys.drop i) := by
  induction h generalizing i with
  | nil => simpa using SlotsSim.nil
  | cons hxy hrest ih =>
    cases i with
    | zero => exact .cons hxy hrest
    | succ i => simpa using ih i

theorem dropSignal_sim {x y : Slot} (h : x.sim y) (e g : Nat) (st : State) : dropSignal e g st x = dropSignal e g st y := by
  obtain ⟨hs, hsl, _, hr⟩ := h
  unfold dropSignal
  by_cases hd : x.state = .disconnected
  · have hd' : y.state = .disconnected := hs ▸ hd
    simp [hd, hd']
  · have hd' : ¬ y.state = .disconnected := hs ▸ hd
    obtain ⟨h1, _⟩ := hr hd
    simp only [hd, hd', if_false, h1, hsl]

/-- **No loop of Callback.cpp reads the receiver / object of an entry marked `disconnected`.**  On two slot lists that differ
    at most in those fields: the search loops of `disconnect` / `~Listener` find a match in both or in neither and mark / unlink
    the same node; the loop of `emit` finds the same next entry and calls the same object and slot; the loop of `~Emitter`
    does the same to the listeners; the purge at the end of the outermost emission leaves EQUAL lists. -/
theorem stale_receiver_never_read {xs ys : List Slot} (h : SlotsSim xs ys) :
    (∀ l s, hasMatch l s xs = hasMatch l s ys) ∧
    (∀ l s, SlotsSim (markFirst l s xs) (markFirst l s ys)) ∧
    (∀ l s, SlotsSim (eraseFirst l s xs) (eraseFirst l s ys)) ∧
    (∀ i, (nextConnected xs i).map (fun p => (p.1, p.2.object, p.2.slot)) = (nextConnected ys i).map (fun p => (p.1, p.2.object, p.2.slot))) ∧
    (∀ e g st, xs.foldl (dropSignal e g) st = ys.foldl (dropSignal e g) st) ∧
    purge xs = purge ys := by
  refine ⟨hasMatch_sim h, markFirst_sim h, eraseFirst_sim h, fun i => nextConnectedAux_sim (forall2_drop h i) i, ?_, purge_sim h⟩
  intro e g st
  induction h generalizing st with
  | nil => rfl
  | cons hxy _ ih => simp only [List.foldl_cons, dropSignal_sim hxy]; exact ih _

/-- … hence the whole step of `disconnect` / `~Listener` on the signal data -/
theorem unlinkOrMark_sim {d d' : SignalData} (ha : d.activation = d'.activation) (hd : d.dirty = d'.dirty) (h : SlotsSim d.slots d'.slots)
    (l s : Nat) :
    (unlinkOrMark d l s).activation = (unlinkOrMark d' l s).activation ∧ (unlinkOrMark d l s).dirty = (unlinkOrMark d' l s).dirty ∧
      SlotsSim (unlinkOrMark d l s).slots (unlinkOrMark d' l s).slots := by
  unfold unlinkOrMark
  rw [hasMatch_sim h l s, ha]
  cases hm : hasMatch l s d'.slots <;> cases hact : d'.activation.isSome <;>
    simp only [if_true, if_false, Bool.false_eq_true] <;>
    refine ⟨by first | trivial | exact ha, by first | trivial | exact hd, ?_⟩
  · exact h
  · exact h
  · exact eraseFirst_sim h l s
  · exact markFirst_sim h l s

/-- non-vacuity: an entry marked `disconnected` whose receiver is a destroyed listener (id 7) and the same entry with the
    receiver field now denoting a new object (id 1): the lists are related, and the search for listener 1 skips both -/
example : SlotsSim
    [{ receiver := 7, object := 7, slot := 0, node := 0, state := .disconnected }, { receiver := 2, object := 2, slot := 1, node := 1, state := .connected }]
    [{ receiver := 1, object := 1, slot := 0, node := 0, state := .disconnected }, { receiver := 2, object := 2, slot := 1, node := 1, state := .connected }] :=
  .cons ⟨rfl, rfl, rfl, fun h => absurd rfl h⟩ (.cons (Slot.sim_refl _) .nil)

example : hasMatch 1 0 [{ receiver := 1, object := 1, slot := 0, node := 0, state := .disconnected }] = false := rfl

/-- the evaluator with address reuse runs: the D18 program with a re-creation, same log as `exec` (Props.lean) -/
def runOpsR (P : Prog) (fuel : Nat) (r : Run State) : List Action → Run State
  | [] => r
  | a :: as => runOpsR P fuel (execR P fuel r (.acts [a])) as

end Nstd.Callback
