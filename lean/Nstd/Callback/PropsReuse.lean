import Nstd.Callback.LemmasReuse
import Nstd.Callback.LemmasTop
import Nstd.Callback.LemmasAudit
/-
  Property C12 — address reuse (a re-created Listener / Emitter at the address of its predecessor).

  `stale_mentions_are_dead_data` (Props.lean) says WHERE a destroyed object can still be mentioned in a reachable state: in
  the `receiver` / `object` fields of slot entries marked `disconnected`, as a key with an empty list in listeners' maps, in
  invalidated activation frames.  This file proves the operational half for the slot lists: NO LOOP OF Callback.cpp READS
  THOSE FIELDS.  `Slot.sim x y`: the two entries agree in state, slot and node, and — unless marked `disconnected` — in
  receiver and object.  Every function of the model that walks a slot list (`hasMatch`, `markFirst`, `eraseFirst` =
  the search loops of `disconnect` / `~Listener`; `nextConnected` = the loop of `emit`; `purge` = `~SignalActivation`;
  `dropSignal` = the loop of `~Emitter`) gives the same answer / related lists on `sim`-related lists
  (`stale_receiver_never_read`), and `purge` gives EQUAL lists: when the outermost emission ends nothing is left of the stale
  fields.  So whatever object lives at the address a `disconnected` entry still holds — none, or a new listener constructed
  there — the code behaves the same.

  `execR` (ModelReuse.lean) is the evaluator in which every re-created object (listener or emitter) gets the id of its
  predecessor; `execRL` the one in which re-created LISTENERS do (emitters get new ids as in `exec`), generic in the machine.

  Proved (`reuse_listener_refines_spec`): the model with listener address reuse refines the specification with listener
  address reuse (`Spec.reviveL`: the id is alive again and has no connection), for every program, history and fuel — same
  log, no use of freed memory, audit, clean bookkeeping after every history.  Key lemma `sim_reviveL`: constructing a new
  listener at a destroyed id keeps the simulation relation `Sim` (entries marked `disconnected` that still hold the id are
  outside every clause of the invariant), so the nine primitive lemmas apply unchanged; `execRL_sim` (LemmasReuse.lean) lifts
  that through the evaluator.

  CLOSED in PropsReuse2.lean (`reuse_listener_refines`): the specification with listener reuse and the specification without
  produce the same log, hence the model with listener reuse writes the log of the model without.  The run without reuse
  carries `lIdx` (object -> variable); the state of the run with reuse is the state of the other with every listener id
  replaced by `lIdx` of it (`SQ`, LemmasReuseSpec2.lean; invariants of the run without reuse: every receiver in a live list is
  the live object its variable holds, ids >= `nextL` are pristine).  Only for programs that name listener variables < nl: in
  `exec`, a variable >= nl starts with the object id that `newL` hands out later, so two variables can alias there (harmless
  for the theorems about `exec`, which quantify over all programs, but the two evaluators then differ).
  `sim_reviveE`: constructing an emitter at a destroyed id keeps `Sim` WHEN NO ACTIVATION OF THE OLD EMITTER IS ON THE STACK.
  OPEN: EMITTER address reuse in general.  `Sim` is NOT kept by constructing an emitter at a destroyed id while activations of the
  old emitter are still on the stack (`FInv.act`: `data.activation = topOf frames (e, g)` would see the old, invalidated
  frames), and the specification identifies an emission in progress by (e, g): its `finish` would decrement the depth of the
  new emitter's signal.  Needed: the relation between the run with emitter reuse and the run without: emitter records equal along `emId`,
  listener lists read through `emId`, the key lists of the listeners' maps as sets of keys with non-empty lists (`~Listener` then
  visits them in another order: `dtor_listener_order_irrelevant`; a key list without duplicates), frames `FramesSim` (below) up
  to the variable of the emitter; nine preservation lemmas and the lifting through the evaluator (as `execRL_spec`).  Proved
  towards it: `sim_reviveE`, `next_frames_sim`, `actEnd_frames_sim`, `invalidate_frames_sim`.  What protects the code is the `invalidated` flag: an invalidated activation reads neither its emitter
  nor its data (`actEnd`, `next`).
  Tested on every run for both kinds of reuse: the driver executes `execR` beside `exec` on every op line of the
  correspondence run and flags `REUSEDIFF` when log or bookkeeping differ; the real code runs every program that re-creates
  an object a second time with exact address reuse (`reuse` lines).
-/
set_option linter.unusedSimpArgs false
namespace Nstd.Callback
open Spec

/-- two slot entries that differ at most in the receiver / object of an entry marked `disconnected` -/
def Slot.sim (x y : Slot) : Prop :=
  x.state = y.state ∧ x.slot = y.slot ∧ x.node = y.node ∧ (x.state ≠ .disconnected → x.receiver = y.receiver ∧ x.object = y.object)

inductive SlotsSim : List Slot → List Slot → Prop where
  | nil : SlotsSim [] []
  | cons {x y : Slot} {xs ys : List Slot} (h : x.sim y) (t : SlotsSim xs ys) : SlotsSim (x :: xs) (y :: ys)

theorem Slot.sim_refl (x : Slot) : x.sim x := ⟨rfl, rfl, rfl, fun _ => ⟨rfl, rfl⟩⟩

theorem isMatch_sim {x y : Slot} (h : x.sim y) (l s : Nat) : x.isMatch l s = y.isMatch l s := by
  obtain ⟨hs, hsl, _, hr⟩ := h
  unfold Slot.isMatch
  by_cases hd : x.state = .disconnected
  · have hd' : y.state = .disconnected := hs ▸ hd
    simp [hd, hd']
  · obtain ⟨h1, _⟩ := hr hd
    rw [h1, hsl, hs]

theorem hasMatch_sim {xs ys : List Slot} (h : SlotsSim xs ys) (l s : Nat) : hasMatch l s xs = hasMatch l s ys := by
  induction h with
  | nil => rfl
  | cons hxy _ ih => simp [hasMatch, isMatch_sim hxy, ih]

theorem markFirst_sim {xs ys : List Slot} (h : SlotsSim xs ys) (l s : Nat) : SlotsSim (markFirst l s xs) (markFirst l s ys) := by
  induction h with
  | nil => exact .nil
  | @cons x y xs ys hxy hrest ih =>
    simp only [markFirst, isMatch_sim hxy]
    by_cases hm : y.isMatch l s = true
    · simp only [hm, if_true]
      exact .cons ⟨rfl, hxy.2.1, hxy.2.2.1, fun hn => absurd rfl hn⟩ hrest
    · simp only [hm, if_false]
      exact .cons hxy ih

theorem eraseFirst_sim {xs ys : List Slot} (h : SlotsSim xs ys) (l s : Nat) : SlotsSim (eraseFirst l s xs) (eraseFirst l s ys) := by
  induction h with
  | nil => exact .nil
  | @cons x y xs ys hxy hrest ih =>
    simp only [eraseFirst, isMatch_sim hxy]
    by_cases hm : y.isMatch l s = true
    · simp only [hm, if_true]; exact hrest
    · simp only [hm, if_false]; exact .cons hxy ih

/-- after the purge (the outermost emission ended) nothing of the stale fields is left: the lists are EQUAL -/
theorem purge_sim {xs ys : List Slot} (h : SlotsSim xs ys) : purge xs = purge ys := by
  induction h with
  | nil => rfl
  | @cons x y xs ys hxy _ ih =>
    obtain ⟨hs, hsl, hn, hr⟩ := hxy
    unfold purge
    cases hx : x.state with
    | disconnected => rw [← hs, hx]; exact ih
    | connecting =>
      rw [← hs, hx]
      simp only
      obtain ⟨h1, h2⟩ := hr (by rw [hx]; decide)
      rw [ih]
      congr 1
      cases x; cases y; simp_all
    | connected =>
      rw [← hs, hx]
      simp only
      obtain ⟨h1, h2⟩ := hr (by rw [hx]; decide)
      rw [ih]
      congr 1
      cases x; cases y; simp_all

theorem nextConnectedAux_sim {xs ys : List Slot} (h : SlotsSim xs ys) (j : Nat) :
    (nextConnectedAux xs j).map (fun p => (p.1, p.2.object, p.2.slot)) = (nextConnectedAux ys j).map (fun p => (p.1, p.2.object, p.2.slot)) := by
  induction h generalizing j with
  | nil => rfl
  | @cons x y xs ys hxy _ ih =>
    obtain ⟨hs, hsl, _, hr⟩ := hxy
    unfold nextConnectedAux
    by_cases hc : x.state = .connected
    · have hc' : y.state = .connected := hs ▸ hc
      obtain ⟨_, h2⟩ := hr (by rw [hc]; decide)
      simp [hc, hc', h2, hsl]
    · have hc' : ¬ y.state = .connected := hs ▸ hc
      simp only [hc, hc', if_false]
      exact ih (j + 1)

theorem forall2_drop {xs ys : List Slot} (h : SlotsSim xs ys) (i : Nat) :
    SlotsSim (xs.drop i) (ys.drop i) := by
  induction h generalizing i with
  | nil => simpa using SlotsSim.nil
  | cons hxy hrest ih =>
    cases i with
    | zero => exact .cons hxy hrest
    | succ i => simpa using ih i

theorem dropSignal_sim {x y : Slot} (h : x.sim y) (e g : Nat) (st : State) : dropSignal e g st x = dropSignal e g st y := by
  obtain ⟨hs, hsl, _, hr⟩ := h
  unfold dropSignal
  by_cases hd : x.state = .disconnected
  · have hd' : y.state = .disconnected := hs ▸ hd
    simp [hd, hd']
  · have hd' : ¬ y.state = .disconnected := hs ▸ hd
    obtain ⟨h1, _⟩ := hr hd
    simp only [hd, hd', if_false, h1, hsl]

/-- **No loop of Callback.cpp reads the receiver / object of an entry marked `disconnected`.**  On two slot lists that differ
    at most in those fields: the search loops of `disconnect` / `~Listener` find a match in both or in neither and mark / unlink
    the same node; the loop of `emit` finds the same next entry and calls the same object and slot; the loop of `~Emitter`
    does the same to the listeners; the purge at the end of the outermost emission leaves EQUAL lists. -/
theorem stale_receiver_never_read {xs ys : List Slot} (h : SlotsSim xs ys) :
    (∀ l s, hasMatch l s xs = hasMatch l s ys) ∧
    (∀ l s, SlotsSim (markFirst l s xs) (markFirst l s ys)) ∧
    (∀ l s, SlotsSim (eraseFirst l s xs) (eraseFirst l s ys)) ∧
    (∀ i, (nextConnected xs i).map (fun p => (p.1, p.2.object, p.2.slot)) = (nextConnected ys i).map (fun p => (p.1, p.2.object, p.2.slot))) ∧
    (∀ e g st, xs.foldl (dropSignal e g) st = ys.foldl (dropSignal e g) st) ∧
    purge xs = purge ys := by
  refine ⟨hasMatch_sim h, markFirst_sim h, eraseFirst_sim h, fun i => nextConnectedAux_sim (forall2_drop h i) i, ?_, purge_sim h⟩
  intro e g st
  induction h generalizing st with
  | nil => rfl
  | cons hxy _ ih => simp only [List.foldl_cons, dropSignal_sim hxy]; exact ih _

/-- … hence the whole step of `disconnect` / `~Listener` on the signal data -/
theorem unlinkOrMark_sim {d d' : SignalData} (ha : d.activation = d'.activation) (hd : d.dirty = d'.dirty) (h : SlotsSim d.slots d'.slots)
    (l s : Nat) :
    (unlinkOrMark d l s).activation = (unlinkOrMark d' l s).activation ∧ (unlinkOrMark d l s).dirty = (unlinkOrMark d' l s).dirty ∧
      SlotsSim (unlinkOrMark d l s).slots (unlinkOrMark d' l s).slots := by
  unfold unlinkOrMark
  rw [hasMatch_sim h l s, ha]
  cases hm : hasMatch l s d'.slots <;> cases hact : d'.activation.isSome <;>
    simp only [if_true, if_false, Bool.false_eq_true] <;>
    refine ⟨by first | trivial | exact ha, by first | trivial | exact hd, ?_⟩
  · exact h
  · exact h
  · exact eraseFirst_sim h l s
  · exact markFirst_sim h l s

/-- non-vacuity: an entry marked `disconnected` whose receiver is a destroyed listener (id 7) and the same entry with the
    receiver field now denoting a new object (id 1): the lists are related, and the search for listener 1 skips both -/
example : SlotsSim
    [{ receiver := 7, object := 7, slot := 0, node := 0, state := .disconnected }, { receiver := 2, object := 2, slot := 1, node := 1, state := .connected }]
    [{ receiver := 1, object := 1, slot := 0, node := 0, state := .disconnected }, { receiver := 2, object := 2, slot := 1, node := 1, state := .connected }] :=
  .cons ⟨rfl, rfl, rfl, fun h => absurd rfl h⟩ (.cons (Slot.sim_refl _) .nil)

example : hasMatch 1 0 [{ receiver := 1, object := 1, slot := 0, node := 0, state := .disconnected }] = false := rfl

/-- the evaluator with address reuse runs: the D18 program with a re-creation, same log as `exec` (Props.lean) -/
def runOpsR (P : Prog) (fuel : Nat) (r : Run State) : List Action → Run State
  | [] => r
  | a :: as => runOpsR P fuel (execR P fuel r (.acts [a])) as

/-! ### listener address reuse: the model with re-used listener ids refines the specification with re-used listener ids -/

/-- the specification with listener address reuse: the id is alive again and has no connection -/
def Spec.reviveL (l : Nat) (s : SState) : SState :=
  { s with lAlive := fun l' => if l' = l then true else s.lAlive l'
           lsig := fun l' e => if l' = l then [] else s.lsig l' e }

def Spec.machineRL : MachineR SState (Nat × Nat) (List Nat) := { Spec.machine with reviveL := Spec.reviveL }

theorem reviveL_data (l : Nat) (m : State) (e g : Nat) : (reviveL l m).data e g = m.data e g := rfl

/-- **Re-creating a listener at the address of a destroyed one keeps the simulation**: the model state with a new, empty
    listener object at the dead id is related to the specification state in which that id is alive again and has no
    connection.  (What still mentions the id — entries marked `disconnected` — is outside every clause of the invariant.) -/
theorem sim_reviveL {m : State} {s : SState} {K : MStack} (l : Nat) (h : Sim m s K) (hd : m.listeners l = none) :
    Sim (reviveL l m) (Spec.reviveL l s) K where
  nofault := h.nofault
  f := ⟨h.f.links, h.f.act, h.f.hasData, h.f.invDead, h.f.deadInv⟩
  sl := ⟨h.sl.clean, h.sl.allConn, h.sl.sorted, h.sl.bound, h.sl.obj⟩
  b := by
    refine ⟨?_, ?_, h.b.ekeys, ?_⟩
    · intro e g d hdd x hx hn
      have := h.b.recv e g d hdd x hx hn
      simp only [reviveL, State.setListener]
      by_cases hr : x.receiver = l
      · simp [hr]
      · simp [hr, this]
    · intro l' li e g x hl'
      by_cases hll : l' = l
      · subst hll
        simp only [reviveL, State.setListener, if_true, Option.some.injEq] at hl'
        subst hl'
        simp only [List.count_nil]
        show 0 = match m.data e g with | none => 0 | some d => _
        cases hdd : m.data e g with
        | none => rfl
        | some d =>
          simp only
          symm
          rw [List.countP_eq_zero]
          intro y hy hm
          simp only [Slot.isMatch, Bool.and_eq_true, beq_iff_eq, bne_iff_ne, ne_eq] at hm
          have := h.b.recv e g d hdd y hy hm.2
          rw [hm.1.1, hd] at this
          simp at this
      · simp only [reviveL, State.setListener, hll, if_false] at hl'
        exact h.b.count l' li e g x hl'
    · intro l' li e hl' hne
      by_cases hll : l' = l
      · subst hll
        simp only [reviveL, State.setListener, if_true, Option.some.injEq] at hl'
        subst hl'
        exact absurd rfl hne
      · simp only [reviveL, State.setListener, hll, if_false] at hl'
        exact h.b.lkeys l' li e hl' hne
  abs := by
    refine ⟨h.abs.clock, h.abs.eAlive, ?_, h.abs.live, h.abs.depth, h.abs.outer, h.abs.born, h.abs.startLe⟩
    intro l'
    simp only [Spec.reviveL, reviveL, State.setListener]
    by_cases hll : l' = l
    · simp [hll]
    · simp [hll, h.abs.lAlive l']
  cur := cursors_mono (m := m) (m' := reviveL l m) (Nat.le_refl _) (fun e g d' _ hal hd' => ⟨hal, d', hd', fun _ _ _ hli => hli⟩) h.cur

theorem reviveOK : ReviveOK machineRL Spec.machineRL Sim := by
  intro m s K l h hal
  have hd : m.listeners l = none := by
    simp only [machineRL, machine] at hal
    cases hm : m.listeners l with
    | none => rfl
    | some li => rw [hm] at hal; simp at hal
  exact sim_reviveL l h hd

def runOpsRL {σ α π : Type} (M : MachineR σ α π) (P : Prog) (fuel : Nat) (r : Run σ) : List Action → Run σ
  | [] => r
  | a :: as => runOpsRL M P fuel (execRL M P fuel r (.acts [a])) as

theorem runOpsRL_rel (P : Prog) (fuel : Nat) (ops : List Action) {r₁ : Run State} {r₂ : Run SState}
    (h : RunRel Sim [] r₁ r₂) : RunRel Sim [] (runOpsRL machineRL P fuel r₁ ops) (runOpsRL Spec.machineRL P fuel r₂ ops) := by
  induction ops generalizing r₁ r₂ with
  | nil => exact h
  | cons a as ih =>
    exact ih ((execRL_sim (M₁ := machineRL) (M₂ := Spec.machineRL) simOK reviveOK P fuel).1 [] [a] r₁ r₂ h)

/-- **The model with listener address reuse refines the specification** (`execRL`: a re-created listener is constructed at
    the id — the address — of its destroyed predecessor, whatever still mentions that id; the specification with reuse: that id
    is alive again and has no connection).  For every program, every numbers of objects, every history and every fuel: the
    log of the model — slot invocations with arguments, start and return of every `emit` — is the log of the snapshot
    specification; no freed object is ever used (`bad`, `fault`); the final state passes the audit of `no_dangling` (every
    pointer that can be followed is valid, the two sides are inverse); no activation is left and every slot list is clean. -/
theorem reuse_listener_refines_spec (P : Prog) (ne nl fuel : Nat) (ops : List Action) :
    (runOpsRL machineRL P fuel (Run.init State.fresh ne nl) ops).log =
        (runOpsRL Spec.machineRL P fuel (Run.init SState.fresh ne nl) ops).log ∧
      (runOpsRL machineRL P fuel (Run.init State.fresh ne nl) ops).bad = false ∧
      (runOpsRL machineRL P fuel (Run.init State.fresh ne nl) ops).m.fault = false ∧
      Audit (runOpsRL machineRL P fuel (Run.init State.fresh ne nl) ops).m ∧
      (runOpsRL machineRL P fuel (Run.init State.fresh ne nl) ops).m.frames = [] ∧
      ∀ e g d, (runOpsRL machineRL P fuel (Run.init State.fresh ne nl) ops).m.data e g = some d →
        d.activation = none ∧ d.dirty = false ∧ ∀ x ∈ d.slots, x.state = .connected := by
  have h := runOpsRL_rel P fuel ops (init_rel ne nl)
  exact ⟨h.log, h.bad₁, h.sim.nofault, audit_of_sim h.sim, (sim_quiescent h.sim).1, (sim_quiescent h.sim).2⟩

/-- a listener destroyed inside its own slot while an emission runs, re-created at the same id inside the same emission and
    connected again: the entry of the old object (marked `disconnected`, receiver = that id) and the entry of the new object
    are in the list together; the new object is not invoked in this emission, is invoked in the next -/
def reuseProg : Prog :=
  { script := fun l s k => if l = 0 ∧ s = 0 ∧ k = 0 then [.delL 0, .newL 0, .connect 0 0 0 1] else [] }

example : (runOpsRL machineRL reuseProg 20 (Run.init State.fresh 1 2) [.connect 0 0 0 0, .connect 0 0 1 0, .emit 0 0 1, .emit 0 0 2]).log.reverse =
    [.emitBegin 0 0 1, .call 0 0 1, .call 1 0 1, .emitEnd, .emitBegin 0 0 2, .call 1 0 2, .call 0 1 2, .emitEnd] := by decide

/-- … the id of the variable is still 0 (reuse), where `exec` has moved on to a new id -/
example : (runOpsRL machineRL reuseProg 20 (Run.init State.fresh 1 2) [.connect 0 0 0 0, .connect 0 0 1 0, .emit 0 0 1]).lId 0 = 0 := by decide
example : (runOps machine reuseProg 20 (Run.init State.fresh 1 2) [.connect 0 0 0 0, .connect 0 0 1 0, .emit 0 0 1]).lId 0 = 2 := by decide

/-! ### emitter address reuse: where it keeps the simulation -/

/-- the specification with emitter address reuse: the id is alive again, has no connection and no emission in progress -/
def Spec.reviveE (e : Nat) (s : SState) : SState :=
  { s with eAlive := fun e' => if e' = e then true else s.eAlive e'
           sig := fun e' g => if e' = e then Sig.empty else s.sig e' g
           lsig := fun l e' => if e' = e then [] else s.lsig l e' }

theorem countFrames_zero {fs : List Frame} {e g : Nat} (h : ∀ f ∈ fs, f.data.1 ≠ e) : countFrames fs (e, g) = 0 := by
  induction fs with
  | nil => rfl
  | cons f fs ih =>
    have hf : ¬ f.data = (e, g) := fun hh => h f (List.mem_cons_self ..) (by rw [hh])
    simp only [countFrames, hf, if_false, Nat.zero_add]
    exact ih (fun f' hf' => h f' (List.mem_cons_of_mem _ hf'))

theorem reviveE_data_ne (e e' g : Nat) (m : State) (h : e' ≠ e) : (reviveE e m).data e' g = m.data e' g := by
  simp [reviveE, State.data, State.setEmitter, h]

theorem reviveE_data_self (e g : Nat) (m : State) : (reviveE e m).data e g = none := by
  simp [reviveE, State.data, State.setEmitter]

/-- **Re-creating an emitter at the address of a destroyed one keeps the simulation WHEN NO ACTIVATION OF THE OLD EMITTER IS
    STILL ON THE STACK** (e.g. at top level, or after its emissions have unwound).  The remaining case — an emitter destroyed
    inside one of its own emissions and re-created at the same address before that emission has returned — is the OPEN part:
    the invalidated frames of the old object then carry the id of the new one. -/
theorem reviveE_data_some {e e' g : Nat} {m : State} {d : SignalData} (h : (reviveE e m).data e' g = some d) : m.data e' g = some d := by
  by_cases he : e' = e
  · subst he; rw [reviveE_data_self] at h; cases h
  · rwa [reviveE_data_ne _ _ _ _ he] at h

theorem sim_reviveE {m : State} {s : SState} {K : MStack} (e : Nat) (h : Sim m s K) (hd : m.emitters e = none)
    (hfr : ∀ f ∈ m.frames, f.data.1 ≠ e) : Sim (reviveE e m) (Spec.reviveE e s) K where
  nofault := h.nofault
  f := by
    refine ⟨h.f.links, ?_, ?_, ?_, ?_⟩
    · intro e' g d hdd
      by_cases he : e' = e
      · subst he; rw [reviveE_data_self] at hdd; cases hdd
      · rw [reviveE_data_ne _ _ _ _ he] at hdd; exact h.f.act e' g d hdd
    · intro f hf hal
      have hne := hfr f hf
      rw [reviveE_data_ne _ _ _ _ hne]
      apply h.f.hasData f hf
      simpa [reviveE, State.setEmitter, hne] using hal
    · intro f hf hi
      have hne := hfr f hf
      have := h.f.invDead f hf hi
      simpa [reviveE, State.setEmitter, hne] using this
    · intro e' g i he' ht
      have hne : e' ≠ e := by
        intro hh; subst hh; simp [reviveE, State.setEmitter] at he'
      have : m.emitters e' = none := by simpa [reviveE, State.setEmitter, hne] using he'
      exact h.f.deadInv e' g i this ht
  sl := ⟨fun e' g d hdd => h.sl.clean e' g d (reviveE_data_some hdd), fun e' g d hdd => h.sl.allConn e' g d (reviveE_data_some hdd),
    fun e' g d hdd => h.sl.sorted e' g d (reviveE_data_some hdd), fun e' g d hdd => h.sl.bound e' g d (reviveE_data_some hdd),
    fun e' g d hdd => h.sl.obj e' g d (reviveE_data_some hdd)⟩
  b := by
    refine ⟨?_, ?_, ?_, h.b.lkeys⟩
    · intro e' g d hdd
      by_cases he : e' = e
      · subst he; rw [reviveE_data_self] at hdd; cases hdd
      · rw [reviveE_data_ne _ _ _ _ he] at hdd; exact h.b.recv e' g d hdd
    · intro l li e' g x hl
      have := h.b.count l li e' g x hl
      by_cases he : e' = e
      · subst he
        rw [reviveE_data_self]
        simpa [State.data, hd] using this
      · rw [reviveE_data_ne _ _ _ _ he]; exact this
    · intro e' em g hem hs
      by_cases he : e' = e
      · subst he
        simp only [reviveE, State.setEmitter, if_true, Option.some.injEq] at hem
        subst hem
        simp at hs
      · have : m.emitters e' = some em := by simpa [reviveE, State.setEmitter, he] using hem
        exact h.b.ekeys e' em g this hs
  abs := by
    refine ⟨h.abs.clock, ?_, h.abs.lAlive, ?_, ?_, ?_, ?_, ?_⟩
    · intro e'
      by_cases he : e' = e
      · subst he; simp [Spec.reviveE, reviveE, State.setEmitter]
      · simp [Spec.reviveE, reviveE, State.setEmitter, he, h.abs.eAlive e']
    · intro e' g
      by_cases he : e' = e
      · subst he; simp [Spec.reviveE, reviveE_data_self, liveOf, Sig.empty]
      · rw [reviveE_data_ne _ _ _ _ he]; simp [Spec.reviveE, he, h.abs.live e' g]
    · intro e' g hal
      by_cases he : e' = e
      · subst he
        have : countFrames (reviveE e' m).frames (e', g) = 0 := countFrames_zero hfr
        simp [Spec.reviveE, Sig.empty, this]
      · simp only [Spec.reviveE, he, if_false]
        exact h.abs.depth e' g (by simpa [reviveE, State.setEmitter, he] using hal)
    · intro e' g hal
      by_cases he : e' = e
      · subst he
        have : countFrames (reviveE e' m).frames (e', g) = 0 := countFrames_zero hfr
        simp [Spec.reviveE, Sig.empty, this]
      · simp only [Spec.reviveE, he, if_false]
        exact h.abs.outer e' g (by simpa [reviveE, State.setEmitter, he] using hal)
    · intro e' g d t hdd ht
      by_cases he : e' = e
      · subst he; rw [reviveE_data_self] at hdd; cases hdd
      · rw [reviveE_data_ne _ _ _ _ he] at hdd
        simp only [Spec.reviveE, he, if_false] at ht
        exact h.abs.born e' g d t hdd ht
    · intro e' g t ht
      by_cases he : e' = e
      · subst he; simp [Spec.reviveE, Sig.empty] at ht
      · simp only [Spec.reviveE, he, if_false] at ht
        exact h.abs.startLe e' g t ht
  cur := by
    refine cursors_mono (m := m) (m' := reviveE e m) (Nat.le_refl _) ?_ h.cur
    intro e0 g0 d' hmem hal hd'
    have hne : e0 ≠ e := by
      obtain ⟨f, hf, hfd⟩ := List.mem_map.1 hmem
      intro hh
      exact hfr f hf (by rw [hfd]; exact hh)
    rw [reviveE_data_ne _ _ _ _ hne] at hd'
    exact ⟨by simpa [reviveE, State.setEmitter, hne] using hal, d', hd', fun _ _ _ hli => hli⟩

/-- non-vacuity: an emitter destroyed at top level (no activation on the stack) and re-created at its id -/
example : Sim (reviveE 0 (delEmitter 0 State.fresh)) (Spec.reviveE 0 (Spec.delE 0 SState.fresh)) [] :=
  sim_reviveE 0 (sim_delE 0 sim_init rfl) (by simp [delEmitter, State.fresh, State.setEmitter]) (by intro f hf; simp [delEmitter, State.fresh, State.setEmitter] at hf)

/-! ### emitter address reuse: no function of the model reads the `data` of an invalidated activation

  (`stale_frame_data_never_read`.)  When an emitter is destroyed inside one of its own emissions its activations stay on the
  stack, invalidated, with `data` pointing into the destroyed object; a new emitter at the same address makes those pointers
  name the new object.  The three functions of the model that look at frames — the loop of `emit` (`next`), `~SignalActivation`
  (`actEnd`) and the invalidation by `~Emitter` / `~SignalActivation` — behave the same on frame stacks that differ only in the
  `data` of invalidated frames, and keep that relation. -/

/-- two activation frames that differ at most in the `data` pointer of an INVALIDATED activation -/
def Frame.sim (f f' : Frame) : Prop :=
  f.next = f'.next ∧ f.invalidated = f'.invalidated ∧ (f.invalidated = false → f.data = f'.data)

inductive FramesSim : List Frame → List Frame → Prop where
  | nil : FramesSim [] []
  | cons {f f' : Frame} {fs fs' : List Frame} (h : f.sim f') (t : FramesSim fs fs') : FramesSim (f :: fs) (f' :: fs')

theorem FramesSim.length {fs fs' : List Frame} (h : FramesSim fs fs') : fs.length = fs'.length := by
  induction h with
  | nil => rfl
  | cons _ _ ih => simp [ih]

theorem FramesSim.refl (fs : List Frame) : FramesSim fs fs := by
  induction fs with
  | nil => exact .nil
  | cons f fs ih => exact .cons ⟨rfl, rfl, fun _ => rfl⟩ ih

theorem frameAt_sim {fs fs' : List Frame} (h : FramesSim fs fs') (i : Nat) :
    (frameAt fs i = none ∧ frameAt fs' i = none) ∨ ∃ f f', frameAt fs i = some f ∧ frameAt fs' i = some f' ∧ f.sim f' := by
  induction h with
  | nil => exact Or.inl ⟨rfl, rfl⟩
  | @cons f f' fs fs' hf t ih =>
    simp only [frameAt, ← t.length]
    by_cases hi : i = fs.length
    · simp only [hi, if_true]; exact Or.inr ⟨f, f', rfl, rfl, hf⟩
    · simp only [hi, if_false]; exact ih

theorem setInvalid_sim {fs fs' : List Frame} (h : FramesSim fs fs') (i : Nat) : FramesSim (setInvalid fs i) (setInvalid fs' i) := by
  induction h with
  | nil => exact .nil
  | @cons f f' fs fs' hf t ih =>
    simp only [setInvalid, ← t.length]
    by_cases hi : i = fs.length
    · simp only [hi, if_true]
      exact .cons ⟨hf.1, rfl, fun hh => by simp at hh⟩ t
    · simp only [hi, if_false]; exact .cons hf ih

theorem popTo_sim {fs fs' : List Frame} (h : FramesSim fs fs') (i : Nat) : FramesSim (popTo fs i) (popTo fs' i) := by
  induction h with
  | nil => exact .nil
  | @cons f f' fs fs' hf t ih =>
    simp only [popTo, ← t.length]
    by_cases hi : fs.length < i
    · simp only [hi, if_true]; exact .cons hf t
    · simp only [hi, if_false]; exact ih

/-- the state with another frame stack -/
def State.withFrames (st : State) (fs : List Frame) : State := { st with frames := fs }

/-- **The loop of `emit` does not read the `data` of an invalidated activation**: with frame stacks that differ only there, `next`
    gives the same answer. -/
theorem next_frames_sim (st : State) (fs' : List Frame) (h : FramesSim st.frames fs') (fid : Nat) (pos : Option Nat) :
    next (st.withFrames fs') fid pos = next st fid pos := by
  unfold next
  show (match frameAt fs' fid with | none => _ | some f => _) = _
  rcases frameAt_sim h fid with ⟨h1, h2⟩ | ⟨f, f', h1, h2, hs⟩
  · rw [h1, h2]
  · rw [h1, h2]
    simp only
    rw [← hs.2.1]
    cases hi : f.invalidated with
    | true => simp
    | false =>
      simp only [Bool.false_eq_true, if_false]
      rw [← hs.2.2 hi]
      rfl

theorem invalidate_frames_sim (st : State) (fs' : List Frame) (h : FramesSim st.frames fs') (i : Nat) :
    ∃ gs, invalidate (st.withFrames fs') i = (invalidate st i).withFrames gs ∧ FramesSim (invalidate st i).frames gs := by
  unfold invalidate
  simp only [State.withFrames]
  rcases frameAt_sim h i with ⟨h1, h2⟩ | ⟨f, f', h1, h2, hs⟩
  · rw [h1, h2]; exact ⟨fs', rfl, h⟩
  · rw [h1, h2]; exact ⟨setInvalid fs' i, rfl, setInvalid_sim h i⟩

/-- **`~SignalActivation` does not read the `data` of an invalidated activation** (it hands the flag to `next` and is done): on
    frame stacks that differ only there it does the same to everything else and leaves stacks that differ only there. -/
theorem actEnd_frames_sim (st : State) (fs' : List Frame) (h : FramesSim st.frames fs') (fid : Nat) :
    ∃ gs, actEnd fid (st.withFrames fs') = (actEnd fid st).withFrames gs ∧ FramesSim (actEnd fid st).frames gs := by
  unfold actEnd
  simp only [State.withFrames]
  rcases frameAt_sim h fid with ⟨h1, h2⟩ | ⟨f, f', h1, h2, hs⟩
  · rw [h1, h2]; exact ⟨fs', rfl, h⟩
  · rw [h1, h2]
    simp only
    have hp := popTo_sim h fid
    rw [← hs.2.1, ← hs.1]
    cases hi : f.invalidated with
    | false =>
      simp only [Bool.not_false, if_true]
      rw [← hs.2.2 hi]
      refine ⟨popTo fs' fid, ?_, ?_⟩
      · cases st.emitters f.data.1 with
        | none => rfl
        | some em =>
          simp only
          cases em.sig f.data.2 <;> rfl
      · cases st.emitters f.data.1 with
        | none => exact hp
        | some em =>
          simp only
          cases em.sig f.data.2 <;> exact hp
    | true =>
      simp only [Bool.not_true, Bool.false_eq_true, if_false]
      cases hn : f.next with
      | none => exact ⟨popTo fs' fid, rfl, hp⟩
      | some n =>
        simp only
        exact invalidate_frames_sim { st with frames := popTo st.frames fid } (popTo fs' fid) hp n

/-- non-vacuity: an invalidated frame of a destroyed emitter (data (7, 0)) and the same frame naming the new object at that
    address (data (0, 0)) -/
example : FramesSim [{ next := none, invalidated := true, data := (7, 0) }] [{ next := none, invalidated := true, data := (0, 0) }] :=
  .cons ⟨rfl, rfl, fun h => by simp at h⟩ .nil

end Nstd.Callback
