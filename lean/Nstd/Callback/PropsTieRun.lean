import Nstd.Callback.PropsTie
/-
  Property C12, tie by translation, whole runs.  `machineT` is the machine whose nine primitives are the bodies TRANSLATED
  from the current Callback.cpp / Callback.hpp (Generated/CallbackBody.lean) plus the construction / destruction of the
  objects around them (push / pop of the activation frame, death of the Listener / Emitter after its destructor's body).
  `translated_code_runs_as_model`: for every program, every history and every fuel, the evaluator over `machineT` produces
  the same states, the same log and the same flags as over the hand-written model `machine` — so every theorem of Props.lean
  about `machine` (refinement to the snapshot specification, order, safety, bookkeeping) is a theorem about the translated
  code.  Proof: on every state related to a specification state by `Sim` (hence on every state any run reaches) each
  primitive of `machineT` equals the one of `machine` (`tie_*`, PropsTie.lean; their hypotheses follow from `Sim`), lifted
  through the evaluator by `exec_sim` exactly as for the audited model.
-/
set_option linter.unusedSimpArgs false
set_option linter.unusedVariables false
namespace Nstd.Callback
open Nstd.Generated Spec

/-- the loop of `emit` at iterator position `pos` of activation `fid`: `none` = `begin == end` (the loop condition fails at
    once); else the translated rest of the loop body and the following nodes (`emitAfterCall`; at the first node the test of
    `invalidated` it starts with is vacuous: the activation was just constructed — `tie_emit_first`) -/
def nextT (st : State) (fid : Nat) (pos : Option Nat) : Step (Option Nat) :=
  match pos with
  | none => .done
  | some idx =>
    CallbackBody.emitAfterCall (H.frInvalidated st fid) (H.slots st (H.frData st fid).1 (H.frData st fid).2) idx

/-- the machine made of the translated code -/
def machineT : Machine State Nat (Option Nat) where
  connect := fun e g l s st => CallbackBody.connectT st e g l s
  disconnect := fun e g l s st => CallbackBody.disconnectT st e g l s
  delL := fun l st => (CallbackBody.dtorListener st l).setListener l none
  delE := fun e st => (CallbackBody.dtorEmitter st e).setEmitter e none
  aliveE := fun st e => (st.emitters e).isSome
  aliveL := fun st l => (st.listeners l).isSome
  begin := fun e g st => H.pushAct (CallbackBody.ctorActivation st st.frames.length e g) st.frames.length
  next := nextT
  finish := fun fid st => (CallbackBody.dtorActivation st fid).popFrame fid

theorem lkeys_of_sim {m : State} {s : SState} {K : MStack} (h : Sim m s K) : LKeys m :=
  lkeys_of_audit (audit_of_sim h)

/-- wherever the model's `next` does not fault (it never does in a run: `no_use_after_free`) the translated loop agrees -/
theorem nextT_eq (st : State) (fid : Nat) (pos : Option Nat) (h : next st fid pos ≠ .fault) : nextT st fid pos = next st fid pos := by
  unfold nextT
  cases hf : frameAt st.frames fid with
  | none => exact absurd (by simp [next, hf]) h
  | some f =>
    cases pos with
    | none => simp [next, hf]
    | some idx =>
      have hI : H.frInvalidated st fid = f.invalidated := by simp [H.frInvalidated, hf]
      have hD : H.frData st fid = f.data := by simp [H.frData, hf]
      rw [hI, hD]
      cases hi : f.invalidated with
      | true => simp [CallbackBody.emitAfterCall, next, hf, hi]
      | false =>
        cases hd : st.data f.data.1 f.data.2 with
        | none => exact absurd (by simp [next, hf, hi, hd]) h
        | some d =>
          have := tie_emit_next st fid idx f d hf (fun _ => hd)
          rw [hi] at this
          simp only [H.slots, hd]
          exact this

theorem translated_sim : SimOK machineT machine SimM where
  aliveE := by intro m m' K e h; obtain ⟨rfl, _⟩ := h; rfl
  aliveL := by intro m m' K l h; obtain ⟨rfl, _⟩ := h; rfl
  connect := by
    intro m m' K e g l x h he hl
    obtain ⟨rfl, hK, s, Ks, hs, hm⟩ := h
    show SimM (CallbackBody.connectT m e g l x) (connect e g l x m) K
    simp only [machineT] at he hl
    obtain ⟨em, hem⟩ := Option.isSome_iff_exists.1 he
    obtain ⟨li, hli⟩ := Option.isSome_iff_exists.1 hl
    rw [tie_connectT m e g l x em li hem hli (lkeys_of_sim hs)]
    exact ⟨rfl, hK, _, Ks, sim_connect e g l x hs he hl, hm⟩
  disconnect := by
    intro m m' K e g l x h he hl
    obtain ⟨rfl, hK, s, Ks, hs, hm⟩ := h
    show SimM (CallbackBody.disconnectT m e g l x) (disconnect e g l x m) K
    simp only [machineT] at he hl
    obtain ⟨em, hem⟩ := Option.isSome_iff_exists.1 he
    obtain ⟨li, hli⟩ := Option.isSome_iff_exists.1 hl
    rw [tie_disconnectT m e g l x em li hem hli (lkeys_of_sim hs)]
    exact ⟨rfl, hK, _, Ks, sim_disconnect e g l x hs he hl, hm⟩
  delL := by
    intro m m' K l h hl
    obtain ⟨rfl, hK, s, Ks, hs, hm⟩ := h
    show SimM ((CallbackBody.dtorListener m l).setListener l none) (delListener l m) K
    simp only [machineT] at hl
    obtain ⟨li, hli⟩ := Option.isSome_iff_exists.1 hl
    rw [tie_dtorListener m l li hli]
    exact ⟨rfl, hK, _, Ks, sim_delL l hs hl, hm⟩
  delE := by
    intro m m' K e h he
    obtain ⟨rfl, hK, s, Ks, hs, hm⟩ := h
    show SimM ((CallbackBody.dtorEmitter m e).setEmitter e none) (delEmitter e m) K
    simp only [machineT] at he
    obtain ⟨em, hem⟩ := Option.isSome_iff_exists.1 he
    rw [tie_dtorEmitter m e em hem (lkeys_of_sim hs)]
    exact ⟨rfl, hK, _, Ks, sim_delE e hs he, hm⟩
  begin := by
    intro m m' K e g h he
    obtain ⟨rfl, hK, s, Ks, hs, hm⟩ := h
    simp only [machineT] at he
    obtain ⟨em, hem⟩ := Option.isSome_iff_exists.1 he
    have hb := sim_begin e g hs he
    show BeginRel machine SimM K (H.pushAct (CallbackBody.ctorActivation m m.frames.length e g) m.frames.length) (actBegin e g m)
    rw [tie_ctorActivation m e g em hem]
    simp only [machine] at hb
    rcases h1 : actBegin e g m with ⟨m1, o1⟩
    rcases h2 : Spec.machine.begin e g s with ⟨s1, o2⟩
    rw [h1, h2] at hb
    cases o1 with
    | none =>
      cases o2 with
      | none => exact ⟨rfl, hK, s1, Ks, hb, hm⟩
      | some bq => exact ⟨rfl, hK, _, Ks, hb.2, hm⟩
    | some ap =>
      cases o2 with
      | none => exact absurd hb (by simp [BeginRel])
      | some bq =>
        refine ⟨rfl, ?_, s1, (ap, bq) :: Ks, hb, by simp [hm]⟩
        intro k hk
        rcases List.mem_cons.1 hk with rfl | hk
        · rfl
        · exact hK k hk
  next := by
    intro m m' a p b q K h
    obtain ⟨rfl, hK, s, Ks, hs, hm⟩ := h
    have hab := hK ((a, p), (b, q)) (List.mem_cons_self ..)
    simp only [Prod.mk.injEq] at hab
    obtain ⟨rfl, rfl⟩ := hab
    cases Ks with
    | nil => simp at hm
    | cons k Ks =>
      obtain ⟨⟨a', p'⟩, ⟨b', q'⟩⟩ := k
      simp only [List.map_cons, List.cons.injEq, Prod.mk.injEq] at hm
      obtain ⟨⟨rfl, rfl⟩, hm⟩ := hm
      have hn := sim_next hs
      simp only [machine] at hn
      show StepRel machineT SimM m m a' a' K (nextT m a' p') (next m a' p')
      have hnf : next m a' p' ≠ .fault := by
        intro hc
        rw [hc] at hn
        cases hsn : Spec.machine.next s b' q' <;> (rw [hsn] at hn; exact absurd hn (by simp [StepRel]))
      rw [nextT_eq m a' p' hnf]
      cases hc : next m a' p' with
      | done => trivial
      | fault => exact absurd hc hnf
      | call l x p'' =>
        rw [hc] at hn
        cases hsn : Spec.machine.next s b' q' with
        | done => rw [hsn] at hn; exact absurd hn (by simp [StepRel])
        | fault => rw [hsn] at hn; exact absurd hn (by simp [StepRel])
        | call l' x' q'' =>
          rw [hsn] at hn
          obtain ⟨_, _, hal, hs'⟩ := hn
          refine ⟨rfl, rfl, hal, rfl, ?_, s, ((a', p''), (b', q'')) :: Ks, hs', by simp [hm]⟩
          intro k hk
          rcases List.mem_cons.1 hk with rfl | hk
          · rfl
          · exact hK k (List.mem_cons_of_mem _ hk)
  finish := by
    intro m m' a p b q K h
    obtain ⟨rfl, hK, s, Ks, hs, hm⟩ := h
    have hab := hK ((a, p), (b, q)) (List.mem_cons_self ..)
    simp only [Prod.mk.injEq] at hab
    obtain ⟨rfl, rfl⟩ := hab
    cases Ks with
    | nil => simp at hm
    | cons k Ks =>
      obtain ⟨⟨a', p'⟩, ⟨b', q'⟩⟩ := k
      simp only [List.map_cons, List.cons.injEq, Prod.mk.injEq] at hm
      obtain ⟨⟨rfl, rfl⟩, hm⟩ := hm
      show SimM ((CallbackBody.dtorActivation m a').popFrame a') (actEnd a' m) K
      have hc := hs.cur
      have hl := hs.f.links
      cases hfr : m.frames with
      | nil => rw [hfr] at hc; exact absurd hc (by simp [Cursors])
      | cons f fs =>
        rw [hfr] at hc hl
        obtain ⟨rfl, _⟩ := hc
        rw [tie_dtorActivation m fs.length f fs hfr rfl (fun n hn => topOf_lt (hl.1 ▸ hn))]
        exact ⟨rfl, fun k hk => hK k (List.mem_cons_of_mem _ hk), _, Ks, sim_finish hs, hm⟩

theorem runOps_relT (P : Prog) (fuel : Nat) (ops : List Action) {r₁ r₂ : Run State}
    (h : RunRel SimM [] r₁ r₂) : RunRel SimM [] (runOps machineT P fuel r₁ ops) (runOps machine P fuel r₂ ops) := by
  induction ops generalizing r₁ r₂ with
  | nil => exact h
  | cons a as ih =>
    exact ih ((exec_sim translated_sim P fuel).1 [] [a] r₁ r₂ h)

/-- **The translated code runs as the model.**  For every program (scripts of connect / disconnect / emit / destroy /
    re-create, arbitrarily nested), every numbers of objects, every history of top-level actions and every fuel: the evaluator
    over the machine made of the bodies translated from the current Callback.cpp / Callback.hpp reaches the same state, writes
    the same log, and is never flagged — it IS the run of the hand-written model, about which the theorems of Props.lean speak. -/
theorem translated_code_runs_as_model (P : Prog) (ne nl fuel : Nat) (ops : List Action) :
    (runOps machineT P fuel (Run.init State.fresh ne nl) ops).m = (runOps machine P fuel (Run.init State.fresh ne nl) ops).m ∧
    (runOps machineT P fuel (Run.init State.fresh ne nl) ops).log = (runOps machine P fuel (Run.init State.fresh ne nl) ops).log ∧
    (runOps machineT P fuel (Run.init State.fresh ne nl) ops).bad = false ∧
    ((runOps machine P fuel (Run.init State.fresh ne nl) ops).oof = false →
      (runOps machineT P fuel (Run.init State.fresh ne nl) ops).oof = false) := by
  have h0 : RunRel SimM [] (Run.init State.fresh ne nl) (Run.init State.fresh ne nl) :=
    ⟨⟨rfl, fun k hk => by simp at hk, SState.fresh, [], sim_init, rfl⟩, ⟨rfl, rfl, rfl, rfl, rfl⟩, rfl, rfl, rfl, rfl, fun hh => hh⟩
  have h := runOps_relT P fuel ops h0
  exact ⟨h.sim.1, h.log, h.bad₁, h.oof⟩

/-- … and therefore refines the snapshot specification: the log of the translated code is the log of the specification -/
theorem translated_code_refines_spec (P : Prog) (ne nl fuel : Nat) (ops : List Action) :
    (runOps machineT P fuel (Run.init State.fresh ne nl) ops).log =
      (runOps Spec.machine P fuel (Run.init SState.fresh ne nl) ops).log := by
  rw [(translated_code_runs_as_model P ne nl fuel ops).2.1]
  exact (runOps_rel P fuel ops (init_rel ne nl)).log

/-! ### non-vacuity: the translated machine computes — the D18 program (a slot disconnects, re-connects and disconnects itself,
    connects another listener, re-emits and destroys that listener), a re-creation and the destruction of the emitter -/

def tprog : Prog :=
  { script := fun l s k => if l = 0 ∧ s = 0 ∧ k = 0 then
      [.disconnect 0 0 0 0, .connect 0 0 0 0, .disconnect 0 0 0 0, .connect 0 0 1 1, .emit 0 0 4, .delL 1] else [] }

def tops : List Action :=
  [.connect 0 0 0 0, .connect 0 0 1 0, .emit 0 0 3, .emit 0 0 5, .newL 1, .connect 0 0 1 1, .emit 0 0 6, .delE 0]

example : (runOps machineT tprog 20 (Run.init State.fresh 1 2) tops).log.reverse =
    [.emitBegin 0 0 3, .call 0 0 3, .emitBegin 0 0 4, .call 1 0 4, .emitEnd, .emitEnd,
     .emitBegin 0 0 5, .emitEnd, .emitBegin 0 0 6, .call 1 1 6, .emitEnd] := by decide
end Nstd.Callback
