import Nstd.Callback.PropsTie
/-
  Property C12, tie by translation, whole runs.  `machineT` is the machine whose nine primitives are the bodies TRANSLATED
  from the current Callback.cpp / Callback.hpp (Generated/CallbackBody.lean) plus the construction / destruction of the
  objects around them (push / pop of the activation frame, death of the Listener / Emitter after its destructor's body).
  `translated_code_runs_as_model`: for every program, every history and every fuel, the evaluator over `machineT` produces
  the same states, the same log and the same flags as over the hand-written model `machine` — so every theorem of Props.lean
  about `machine` (refinement to the snapshot specification, order, safety, bookkeeping) is a theorem about the translated
  code.  Proof: on every state related to a specification state by `Sim` (hence on every state any run reaches) each
  primitive of `machineT` equals the one of `machine` (`tie_*`, PropsTie.lean; their hypotheses follow from `Sim`), lifted
  through the evaluator by `exec_sim` exactly as for the audited model.
-/
set_option linter.unusedSimpArgs false
set_option linter.unusedVariables false
namespace Nstd.Callback
open Nstd.Generated Spec

/-- the loop of `emit` at iterator position `pos` of activation `fid`: `none` = `begin == end` (the loop condition fails at
    once); else the translated rest of the loop body and the following nodes (`emitAfterCall`; at the first node the test of
    `invalidated` it starts with is vacuous: the activation was just constructed — `tie_emit_first`) -/
def nextT (st : State) (fid : Nat) (pos : Option Nat) : Step (Option Nat) :=
  match pos with
  | none => .done
  | some idx =>
    CallbackBody.emitAfterCall (H.frInvalidated st fid) (H.slots st (H.frData st fid).1 (H.frData st fid).2) idx

/-- the machine made of the translated code -/
def machineT : Machine State Nat (Option Nat) where
  connect := fun e g l s st => CallbackBody.connectT st e g l s
  disconnect := fun e g l s st => CallbackBody.disconnectT st e g l s
  delL := fun l st => (CallbackBody.dtorListener st l).setListener l none
  delE := fun e st => (CallbackBody.dtorEmitter st e).setEmitter e none
  aliveE := fun st e => (st.emitters e).isSome
  aliveL := fun st l => (st.listeners l).isSome
  begin := fun e g st => H.pushAct (CallbackBody.ctorActivation st st.frames.length e g) st.frames.length
  next := nextT
  finish := fun fid st => (CallbackBody.dtorActivation st fid).popFrame fid

theorem lkeys_of_sim {m : State} {s : SState} {K : MStack} (h : Sim m s K) : LKeys m :=
  lkeys_of_audit (audit_of_sim h)

/-- wherever the model's `next` does not fault (it never does in a run: `no_use_after_free`) the translated loop agrees -/
theorem nextT_eq (st : State) (fid : Nat) (pos : Option Nat) (h : next st fid pos ≠ .fault) : nextT st fid pos = next st fid pos := by
  unfold nextT
  cases hf : frameAt st.frames fid with
  | none => exact absurd (by simp [next, hf]) h
  | some f =>
    cases pos with
    | none => simp [next, hf]
    | some idx =>
      have hI : H.frInvalidated st fid = f.invalidated := by simp [H.frInvalidated, hf]
      have hD : H.frData st fid = f.data := by simp [H.frData, hf]
      rw [hI, hD]
      cases hi : f.invalidated with
      | true => simp [CallbackBody.emitAfterCall, next, hf, hi]
      | false =>
        cases hd : st.data f.data.1 f.data.2 with
        | none => exact absurd (by simp [next, hf, hi, hd]) h
        | some d =>
          have := tie_emit_next st fid idx f d hf (fun _ => hd)
          rw [hi] at this
          simp only [H.slots, hd]
          exact this

/-- **The machine made of the translated code simulates the snapshot specification**: each of its nine primitives keeps `Sim`.
    Eight of them ARE the model's primitives on every `Sim` state (`tie_*`); `~Emitter` is the model's or the bulk form
    (`tie_dtorEmitter_sim`). -/
theorem translated_sim : SimOK machineT Spec.machine Sim where
  aliveE := fun e h => simOK.aliveE e h
  aliveL := fun l h => simOK.aliveL l h
  connect := by
    intro m s K e g l x hs he hl
    show Sim (CallbackBody.connectT m e g l x) (Spec.connect e g l x s) K
    simp only [machineT] at he hl
    obtain ⟨em, hem⟩ := Option.isSome_iff_exists.1 he
    obtain ⟨li, hli⟩ := Option.isSome_iff_exists.1 hl
    rw [tie_connectT m e g l x em li hem hli (lkeys_of_sim hs)]
    exact sim_connect e g l x hs he hl
  disconnect := by
    intro m s K e g l x hs he hl
    show Sim (CallbackBody.disconnectT m e g l x) (Spec.disconnect e g l x s) K
    simp only [machineT] at he hl
    obtain ⟨em, hem⟩ := Option.isSome_iff_exists.1 he
    obtain ⟨li, hli⟩ := Option.isSome_iff_exists.1 hl
    rw [tie_disconnectT m e g l x em li hem hli (lkeys_of_sim hs)]
    exact sim_disconnect e g l x hs he hl
  delL := by
    intro m s K l hs hl
    show Sim ((CallbackBody.dtorListener m l).setListener l none) (Spec.delL l s) K
    simp only [machineT] at hl
    obtain ⟨li, hli⟩ := Option.isSome_iff_exists.1 hl
    rw [tie_dtorListener m l li hli]
    exact sim_delL l hs hl
  delE := by
    intro m s K e hs he
    simp only [machineT] at he
    obtain ⟨em, hem⟩ := Option.isSome_iff_exists.1 he
    exact tie_dtorEmitter_sim e em hs hem
  begin := by
    intro m s K e g hs he
    simp only [machineT] at he
    obtain ⟨em, hem⟩ := Option.isSome_iff_exists.1 he
    show BeginRel Spec.machine Sim K (H.pushAct (CallbackBody.ctorActivation m m.frames.length e g) m.frames.length) (Spec.machine.begin e g s)
    rw [tie_ctorActivation m e g em hem]
    exact sim_begin e g hs he
  next := by
    intro m s a p b q K hs
    have hn := sim_next hs
    simp only [machine] at hn
    show StepRel machineT Sim m s a b K (nextT m a p) (Spec.machine.next s b q)
    have hnf : next m a p ≠ .fault := by
      intro hc
      rw [hc] at hn
      cases hsn : Spec.machine.next s b q <;> (rw [hsn] at hn; exact absurd hn (by simp [StepRel]))
    rw [nextT_eq m a p hnf]
    exact hn
  finish := by
    intro m s a p b q K hs
    show Sim ((CallbackBody.dtorActivation m a).popFrame a) (Spec.machine.finish b s) K
    have hc := hs.cur
    have hl := hs.f.links
    cases hfr : m.frames with
    | nil => rw [hfr] at hc; obtain ⟨e, g⟩ := b; exact absurd hc (by simp [Cursors])
    | cons f fs =>
      rw [hfr] at hc hl
      obtain ⟨e, g⟩ := b
      obtain ⟨rfl, _⟩ := hc
      rw [tie_dtorActivation m fs.length f fs hfr rfl (fun n hn => topOf_lt (hl.1 ▸ hn))]
      exact sim_finish hs

theorem runOps_relT (P : Prog) (fuel : Nat) (ops : List Action) {r₁ : Run State} {r₂ : Run SState}
    (h : RunRel Sim [] r₁ r₂) : RunRel Sim [] (runOps machineT P fuel r₁ ops) (runOps Spec.machine P fuel r₂ ops) := by
  induction ops generalizing r₁ r₂ with
  | nil => exact h
  | cons a as ih =>
    exact ih ((exec_sim translated_sim P fuel).1 [] [a] r₁ r₂ h)

/-- **The translated code refines the snapshot specification**, for every program (scripts of connect / disconnect / emit /
    destroy / re-create, arbitrarily nested), every numbers of objects, every history and every fuel: same log (slot invocations
    with arguments, start and return of every `emit`), never flagged, no fault, and the final state is related by `Sim` to the
    specification's — so it passes the audit of `no_dangling`, no activation is left and every slot list is clean. -/
theorem translated_code_refines_spec (P : Prog) (ne nl fuel : Nat) (ops : List Action) :
    (runOps machineT P fuel (Run.init State.fresh ne nl) ops).log =
      (runOps Spec.machine P fuel (Run.init SState.fresh ne nl) ops).log ∧
    (runOps machineT P fuel (Run.init State.fresh ne nl) ops).bad = false ∧
    (runOps machineT P fuel (Run.init State.fresh ne nl) ops).m.fault = false ∧
    Sim (runOps machineT P fuel (Run.init State.fresh ne nl) ops).m (runOps Spec.machine P fuel (Run.init SState.fresh ne nl) ops).m [] ∧
    Audit (runOps machineT P fuel (Run.init State.fresh ne nl) ops).m := by
  have h := runOps_relT P fuel ops (init_rel ne nl)
  exact ⟨h.log, h.bad₁, h.sim.nofault, h.sim, audit_of_sim h.sim⟩

/-- **The translated code runs as the model**: the same log as the hand-written model, and both final states are related by `Sim`
    to the SAME specification state — so the emitter side is, list by list, the specification's live list in both, the listener
    side holds the same pairs in both (`BInv.count`), the same objects exist; what `Sim` does not fix is which keys with an empty
    list a listener's map still holds (the model's `~Emitter` keeps them, the bulk form of C12-h5 drops them). -/
theorem translated_code_runs_as_model (P : Prog) (ne nl fuel : Nat) (ops : List Action) :
    (runOps machineT P fuel (Run.init State.fresh ne nl) ops).log = (runOps machine P fuel (Run.init State.fresh ne nl) ops).log ∧
    (runOps machineT P fuel (Run.init State.fresh ne nl) ops).bad = false ∧
    ∃ s, Sim (runOps machineT P fuel (Run.init State.fresh ne nl) ops).m s [] ∧
         Sim (runOps machine P fuel (Run.init State.fresh ne nl) ops).m s [] := by
  have h := runOps_relT P fuel ops (init_rel ne nl)
  have h' := runOps_rel P fuel ops (init_rel ne nl)
  exact ⟨h.log.trans h'.log.symm, h.bad₁, _, h.sim, h'.sim⟩

/-! ### non-vacuity: the translated machine computes — the D18 program (a slot disconnects, re-connects and disconnects itself,
    connects another listener, re-emits and destroys that listener), a re-creation and the destruction of the emitter -/

def tprog : Prog :=
  { script := fun l s k => if l = 0 ∧ s = 0 ∧ k = 0 then
      [.disconnect 0 0 0 0, .connect 0 0 0 0, .disconnect 0 0 0 0, .connect 0 0 1 1, .emit 0 0 4, .delL 1] else [] }

def tops : List Action :=
  [.connect 0 0 0 0, .connect 0 0 1 0, .emit 0 0 3, .emit 0 0 5, .newL 1, .connect 0 0 1 1, .emit 0 0 6, .delE 0]

example : (runOps machineT tprog 20 (Run.init State.fresh 1 2) tops).log.reverse =
    [.emitBegin 0 0 3, .call 0 0 3, .emitBegin 0 0 4, .call 1 0 4, .emitEnd, .emitEnd,
     .emitBegin 0 0 5, .emitEnd, .emitBegin 0 0 6, .call 1 1 6, .emitEnd] := by decide
end Nstd.Callback
