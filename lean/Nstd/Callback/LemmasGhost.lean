import Nstd.Callback.LemmasTop
/-
  `Slot.node` is a ghost: erasing every node number (`State.strip`) commutes with every
  primitive of the model, and no decision of the evaluator depends on it.  `machine0` is the
  model in which `connect` stores node 0 and the allocation counter stays 0; its runs are the
  stripped runs of `machine` (`ghostOK`).
-/
namespace Nstd.Callback

def Slot.strip (x : Slot) : Slot := { x with node := 0 }
def SignalData.strip (d : SignalData) : SignalData := { d with slots := d.slots.map Slot.strip }
def Emitter.strip (em : Emitter) : Emitter := { em with sig := fun g => (em.sig g).map SignalData.strip }
def State.strip (m : State) : State :=
  { m with emitters := fun e => (m.emitters e).map Emitter.strip, nextNode := 0 }

/-! ### lists -/

theorem isMatch_strip (x : Slot) (l s : Nat) : x.strip.isMatch l s = x.isMatch l s := rfl

theorem hasMatch_strip (l s : Nat) (xs : List Slot) : hasMatch l s (xs.map Slot.strip) = hasMatch l s xs := by
  induction xs with
  | nil => rfl
  | cons x xs ih => simp only [List.map_cons, hasMatch, isMatch_strip, ih]

theorem markFirst_strip (l s : Nat) (xs : List Slot) :
    markFirst l s (xs.map Slot.strip) = (markFirst l s xs).map Slot.strip := by
  induction xs with
  | nil => rfl
  | cons x xs ih =>
    simp only [List.map_cons, markFirst, isMatch_strip]
    by_cases c : x.isMatch l s = true
    · simp only [c, if_true, List.map_cons]; rfl
    · simp only [c, Bool.false_eq_true, if_false, List.map_cons, ih]

theorem eraseFirst_strip (l s : Nat) (xs : List Slot) :
    eraseFirst l s (xs.map Slot.strip) = (eraseFirst l s xs).map Slot.strip := by
  induction xs with
  | nil => rfl
  | cons x xs ih =>
    simp only [List.map_cons, eraseFirst, isMatch_strip]
    by_cases c : x.isMatch l s = true
    · simp only [c, if_true]
    · simp only [c, Bool.false_eq_true, if_false, List.map_cons, ih]

theorem unlinkOrMark_strip (d : SignalData) (l s : Nat) :
    unlinkOrMark d.strip l s = (unlinkOrMark d l s).strip := by
  simp only [unlinkOrMark, SignalData.strip, hasMatch_strip]
  by_cases hm : hasMatch l s d.slots = true
  · by_cases ha : d.activation.isSome = true
    · simp only [hm, ha, if_true, markFirst_strip]
    · simp only [hm, ha, if_true, Bool.false_eq_true, if_false, eraseFirst_strip]
  · simp only [hm, Bool.false_eq_true, if_false]

theorem purge_strip (xs : List Slot) : purge (xs.map Slot.strip) = (purge xs).map Slot.strip := by
  induction xs with
  | nil => rfl
  | cons x xs ih =>
    cases hs : x.state with
    | disconnected =>
      have : x.strip.state = .disconnected := hs
      simp only [List.map_cons, purge, this, hs, ih]
    | connecting =>
      have : x.strip.state = .connecting := hs
      simp only [List.map_cons, purge, this, hs, ih]; rfl
    | connected =>
      have : x.strip.state = .connected := hs
      simp only [List.map_cons, purge, this, hs, ih]

theorem nextConnectedAux_strip (xs : List Slot) (i : Nat) :
    nextConnectedAux (xs.map Slot.strip) i = (nextConnectedAux xs i).map (fun p => (p.1, p.2.strip)) := by
  induction xs generalizing i with
  | nil => rfl
  | cons x xs ih =>
    have hst : x.strip.state = x.state := rfl
    simp only [List.map_cons, nextConnectedAux, hst]
    by_cases c : x.state = .connected
    · simp [c]
    · simp only [c, if_false, ih]

theorem nextConnected_strip (xs : List Slot) (i : Nat) :
    nextConnected (xs.map Slot.strip) i = (nextConnected xs i).map (fun p => (p.1, p.2.strip)) := by
  simp only [nextConnected, ← List.map_drop, nextConnectedAux_strip]

/-! ### states -/

theorem strip_data (m : State) (e g : Nat) : m.strip.data e g = (m.data e g).map SignalData.strip := by
  simp only [State.data, State.strip]
  cases m.emitters e with
  | none => rfl
  | some em => rfl

theorem strip_setEmitter (m : State) (e : Nat) (o : Option Emitter) :
    (m.setEmitter e o).strip = m.strip.setEmitter e (o.map Emitter.strip) := by
  simp only [State.setEmitter, State.strip]
  congr 1
  funext e'
  by_cases c : e' = e <;> simp [c]

theorem strip_setListener (m : State) (l : Nat) (o : Option Listener) :
    (m.setListener l o).strip = m.strip.setListener l o := rfl

theorem strip_setSig (em : Emitter) (g : Nat) (d : SignalData) :
    (em.setSig g d).strip = em.strip.setSig g d.strip := by
  simp only [Emitter.setSig, Emitter.strip, Option.isSome_map]
  congr 1
  funext g'
  by_cases c : g' = g <;> simp [c]

theorem strip_faulted (m : State) : m.faulted.strip = m.strip.faulted := rfl

theorem strip_strip (m : State) : m.strip.strip = m.strip := by
  simp only [State.strip]
  congr 1
  funext e
  cases m.emitters e with
  | none => rfl
  | some em =>
    simp only [Option.map_some, Emitter.strip, Option.some.injEq]
    congr 1
    funext g
    cases em.sig g with
    | none => rfl
    | some d =>
      simp only [Option.map_some, SignalData.strip, List.map_map, Option.some.injEq]
      congr 1

/-! ### the primitives commute with erasure -/

theorem disconnect_strip (e g l s : Nat) (m : State) :
    (disconnect e g l s m).strip = disconnect e g l s m.strip := by
  simp only [disconnect]
  have he : m.strip.emitters e = (m.emitters e).map Emitter.strip := rfl
  have hl : m.strip.listeners l = m.listeners l := rfl
  rw [he, hl]
  cases hem : m.emitters e with
  | none => rfl
  | some em =>
    cases hli : m.listeners l with
    | none => rfl
    | some li =>
      simp only [Option.map_some]
      have hs : em.strip.sig g = (em.sig g).map SignalData.strip := rfl
      rw [hs]
      cases hsg : em.sig g with
      | none => rfl
      | some d =>
        simp only [Option.map_some]
        rw [strip_setListener, strip_setEmitter, Option.map_some, strip_setSig, unlinkOrMark_strip]

theorem dropSlot_strip (l e : Nat) (m : State) (gs : Nat × Nat) :
    (dropSlot l e m gs).strip = dropSlot l e m.strip gs := by
  simp only [dropSlot]
  have he : m.strip.emitters e = (m.emitters e).map Emitter.strip := rfl
  rw [he]
  cases hem : m.emitters e with
  | none => rfl
  | some em =>
    simp only [Option.map_some]
    have hs : em.strip.sig gs.1 = (em.sig gs.1).map SignalData.strip := rfl
    rw [hs]
    cases hsg : em.sig gs.1 with
    | none => rfl
    | some d =>
      simp only [Option.map_some]
      rw [strip_setEmitter, Option.map_some, strip_setSig, unlinkOrMark_strip]

theorem foldl_dropSlot_strip (l e : Nat) (ps : List (Nat × Nat)) (m : State) :
    (ps.foldl (dropSlot l e) m).strip = ps.foldl (dropSlot l e) m.strip := by
  induction ps generalizing m with
  | nil => rfl
  | cons p ps ih => simp only [List.foldl_cons, ih, dropSlot_strip]

theorem foldl_outer_strip (l : Nat) (li : Listener) (es : List Nat) (m : State) :
    (es.foldl (fun st e => (li.sigs e).foldl (dropSlot l e) st) m).strip =
      es.foldl (fun st e => (li.sigs e).foldl (dropSlot l e) st) m.strip := by
  induction es generalizing m with
  | nil => rfl
  | cons e es ih => simp only [List.foldl_cons]; rw [ih, foldl_dropSlot_strip]

theorem delListener_strip (l : Nat) (m : State) : (delListener l m).strip = delListener l m.strip := by
  simp only [delListener]
  have hl : m.strip.listeners l = m.listeners l := rfl
  rw [hl]
  cases hli : m.listeners l with
  | none => rfl
  | some li =>
    simp only
    rw [strip_setListener, foldl_outer_strip]

theorem invalidate_strip (m : State) (a : Nat) : (invalidate m a).strip = invalidate m.strip a := by
  simp only [invalidate]
  have hf : m.strip.frames = m.frames := rfl
  rw [hf]
  cases frameAt m.frames a <;> rfl

theorem dropSignal_strip (e g : Nat) (m : State) (x : Slot) :
    (dropSignal e g m x).strip = dropSignal e g m.strip x.strip := by
  simp only [dropSignal]
  have hst : x.strip.state = x.state := rfl
  have hr : x.strip.receiver = x.receiver := rfl
  have hsl : x.strip.slot = x.slot := rfl
  have hl : ∀ l, m.strip.listeners l = m.listeners l := fun _ => rfl
  rw [hst, hr, hsl, hl]
  by_cases c : x.state = .disconnected
  · simp only [c, if_true]
  · simp only [c, if_false]
    cases m.listeners x.receiver <;> rfl

theorem foldl_dropSignal_strip (e g : Nat) (xs : List Slot) (m : State) :
    (xs.foldl (dropSignal e g) m).strip = (xs.map Slot.strip).foldl (dropSignal e g) m.strip := by
  induction xs generalizing m with
  | nil => rfl
  | cons x xs ih => simp only [List.map_cons, List.foldl_cons, ih, dropSignal_strip]

theorem delEmitterSig_strip (e : Nat) (em : Emitter) (m : State) (g : Nat) :
    (delEmitterSig e em m g).strip = delEmitterSig e em.strip m.strip g := by
  simp only [delEmitterSig]
  have hs : em.strip.sig g = (em.sig g).map SignalData.strip := rfl
  rw [hs]
  cases hsg : em.sig g with
  | none => rfl
  | some d =>
    simp only [Option.map_some]
    rw [foldl_dropSignal_strip]
    have ha : d.strip.activation = d.activation := rfl
    have hsl : d.strip.slots = d.slots.map Slot.strip := rfl
    rw [ha, hsl]
    cases d.activation with
    | none => rfl
    | some a => simp only; rw [invalidate_strip]

theorem foldl_sig_strip (e : Nat) (em : Emitter) (gs : List Nat) (m : State) :
    (gs.foldl (delEmitterSig e em) m).strip = gs.foldl (delEmitterSig e em.strip) m.strip := by
  induction gs generalizing m with
  | nil => rfl
  | cons g gs ih => simp only [List.foldl_cons]; rw [ih, delEmitterSig_strip]

theorem delEmitter_strip (e : Nat) (m : State) : (delEmitter e m).strip = delEmitter e m.strip := by
  simp only [delEmitter]
  have he : m.strip.emitters e = (m.emitters e).map Emitter.strip := rfl
  rw [he]
  cases hem : m.emitters e with
  | none => rfl
  | some em =>
    simp only [Option.map_some]
    rw [strip_setEmitter, foldl_sig_strip]
    rfl

theorem actBegin_strip (e g : Nat) (m : State) :
    (actBegin e g m).1.strip = (actBegin e g m.strip).1 ∧ (actBegin e g m).2 = (actBegin e g m.strip).2 := by
  simp only [actBegin]
  have he : m.strip.emitters e = (m.emitters e).map Emitter.strip := rfl
  rw [he]
  cases hem : m.emitters e with
  | none => exact ⟨rfl, rfl⟩
  | some em =>
    simp only [Option.map_some]
    have hs : em.strip.sig g = (em.sig g).map SignalData.strip := rfl
    rw [hs]
    cases hsg : em.sig g with
    | none => exact ⟨rfl, rfl⟩
    | some d =>
      simp only [Option.map_some]
      have hemp : d.strip.slots.isEmpty = d.slots.isEmpty := by
        simp [SignalData.strip, List.isEmpty_iff]
      refine ⟨?_, by rw [hemp]; rfl⟩
      rw [strip_setEmitter, Option.map_some, strip_setSig]
      rfl

theorem next_strip (m : State) (fid : Nat) (idx : Option Nat) : next m.strip fid idx = next m fid idx := by
  simp only [next]
  have hf : m.strip.frames = m.frames := rfl
  rw [hf]
  cases frameAt m.frames fid with
  | none => rfl
  | some f =>
    simp only
    by_cases hi : f.invalidated = true
    · simp only [hi, if_true]
    · simp only [hi, Bool.false_eq_true, if_false]
      cases idx with
      | none => rfl
      | some idx =>
      simp only
      rw [strip_data]
      cases m.data f.data.1 f.data.2 with
      | none => rfl
      | some d =>
        simp only [Option.map_some]
        have hsl : d.strip.slots = d.slots.map Slot.strip := rfl
        rw [hsl, nextConnected_strip]
        cases nextConnected d.slots idx with
        | none => rfl
        | some p => rfl

theorem actEnd_strip (fid : Nat) (m : State) : (actEnd fid m).strip = actEnd fid m.strip := by
  simp only [actEnd]
  have hf : m.strip.frames = m.frames := rfl
  rw [hf]
  cases frameAt m.frames fid with
  | none => rfl
  | some f =>
    simp only
    by_cases hi : f.invalidated = true
    · simp only [hi, Bool.not_true, Bool.false_eq_true, if_false]
      cases f.next with
      | none => rfl
      | some n => simp only; rw [invalidate_strip]; rfl
    · have hi' : f.invalidated = false := by simpa using hi
      simp only [hi', Bool.not_false, if_true]
      have he : ({ m.strip with frames := popTo m.frames fid } : State).emitters f.data.1 =
          (({ m with frames := popTo m.frames fid } : State).emitters f.data.1).map Emitter.strip := rfl
      rw [he]
      cases hem : ({ m with frames := popTo m.frames fid } : State).emitters f.data.1 with
      | none => rfl
      | some em =>
        simp only [Option.map_some]
        have hs : em.strip.sig f.data.2 = (em.sig f.data.2).map SignalData.strip := rfl
        rw [hs]
        cases hsg : em.sig f.data.2 with
        | none => rfl
        | some d =>
          simp only [Option.map_some]
          rw [strip_setEmitter, Option.map_some, strip_setSig]
          have hd : d.strip.dirty = d.dirty := rfl
          have hsl : d.strip.slots = d.slots.map Slot.strip := rfl
          have ha : d.strip.activation = d.activation := rfl
          rw [hd, hsl]
          by_cases c : (f.next.isNone && d.dirty) = true
          · simp only [c, if_true, purge_strip]; rfl
          · simp only [c, Bool.false_eq_true, if_false]; rfl

theorem Slot.strip_strip (x : Slot) : x.strip.strip = x.strip := rfl

theorem SignalData.strip_strip (d : SignalData) : d.strip.strip = d.strip := by
  simp only [SignalData.strip, List.map_map]
  congr 1

theorem Emitter.strip_strip (em : Emitter) : em.strip.strip = em.strip := by
  simp only [Emitter.strip]
  congr 1
  funext g
  cases em.sig g with
  | none => rfl
  | some d => simp only [Option.map_some, SignalData.strip_strip]

/-- `connect` on the erased state stores node 0; erasing afterwards gives the erased result of
    the real `connect` -/
theorem connect_strip (e g l s : Nat) (m : State) :
    (connect e g l s m).strip = (connect e g l s m.strip).strip := by
  simp only [connect]
  have he : m.strip.emitters e = (m.emitters e).map Emitter.strip := rfl
  have hl : m.strip.listeners l = m.listeners l := rfl
  rw [he, hl]
  cases hem : m.emitters e with
  | none =>
    cases hli : m.listeners l with
    | none => simp only [Option.map_none, strip_faulted, strip_strip]
    | some li => simp only [Option.map_none, strip_faulted, strip_strip]
  | some em =>
    cases hli : m.listeners l with
    | none => simp only [Option.map_some, strip_faulted, strip_strip]
    | some li =>
      simp only [Option.map_some]
      have hs : em.strip.sig g = (em.sig g).map SignalData.strip := rfl
      rw [hs]
      rw [strip_setListener, strip_setListener, strip_setEmitter, strip_setEmitter, Option.map_some, Option.map_some,
        strip_setSig, strip_setSig, Emitter.strip_strip]
      have h1 : ({ m with nextNode := m.nextNode + 1 } : State).strip = m.strip := rfl
      have h2 : ({ m.strip with nextNode := m.strip.nextNode + 1 } : State).strip = m.strip := strip_strip m
      rw [h1, h2]
      cases hsg : em.sig g with
      | none => rfl
      | some d =>
        simp only [Option.map_some]
        congr 4
        simp only [SignalData.strip, List.map_append, List.map_map, List.map_cons, List.map_nil]
        congr 2

/-! ### the model without node numbers -/

/-- the model in which `connect` stores node 0 and the allocation counter stays 0 -/
def machine0 : Machine State Nat (Option Nat) :=
  { machine with connect := fun e g l s m => (connect e g l s m).strip }

/-- real model against erased model: the erased state is the erasure of the real one (and the
    real one is a reachable one: related to some specification state) -/
def SimG (m m0 : State) (K : Stack Nat (Option Nat) Nat (Option Nat)) : Prop :=
  m0 = m.strip ∧ (∀ k ∈ K, k.1 = k.2) ∧ ∃ (s : Spec.SState) (Ks : MStack), Sim m s Ks ∧ Ks.map (·.1) = K.map (·.1)

theorem ghostOK : SimOK machine machine0 SimG where
  aliveE := by
    intro m m0 K e h
    obtain ⟨rfl, _⟩ := h
    show (m.emitters e).isSome = ((m.emitters e).map Emitter.strip).isSome
    rw [Option.isSome_map]
  aliveL := by intro m m0 K l h; obtain ⟨rfl, _⟩ := h; rfl
  connect := by
    intro m m0 K e g l x h he hl
    obtain ⟨rfl, hK, s, Ks, hs, hm⟩ := h
    exact ⟨(connect_strip e g l x m).symm, hK, _, Ks, sim_connect e g l x hs he hl, hm⟩
  disconnect := by
    intro m m0 K e g l x h he hl
    obtain ⟨rfl, hK, s, Ks, hs, hm⟩ := h
    exact ⟨(disconnect_strip e g l x m).symm, hK, _, Ks, sim_disconnect e g l x hs he hl, hm⟩
  delL := by
    intro m m0 K l h hl
    obtain ⟨rfl, hK, s, Ks, hs, hm⟩ := h
    exact ⟨(delListener_strip l m).symm, hK, _, Ks, sim_delL l hs hl, hm⟩
  delE := by
    intro m m0 K e h he
    obtain ⟨rfl, hK, s, Ks, hs, hm⟩ := h
    exact ⟨(delEmitter_strip e m).symm, hK, _, Ks, sim_delE e hs he, hm⟩
  begin := by
    intro m m0 K e g h he
    obtain ⟨rfl, hK, s, Ks, hs, hm⟩ := h
    have hb := sim_begin e g hs he
    obtain ⟨hst, hcur⟩ := actBegin_strip e g m
    show BeginRel machine0 SimG K (actBegin e g m) (actBegin e g m.strip)
    simp only [machine] at hb
    rcases h1 : actBegin e g m with ⟨m1, o1⟩
    rcases h0 : actBegin e g m.strip with ⟨m0', o0⟩
    rcases h2 : Spec.machine.begin e g s with ⟨s1, o2⟩
    rw [h1, h2] at hb
    rw [h1, h0] at hst hcur
    simp only at hst hcur
    subst hcur
    cases o1 with
    | none =>
      cases o2 with
      | none => exact ⟨hst.symm, hK, s1, Ks, hb, hm⟩
      | some bq => exact ⟨hst.symm, hK, _, Ks, hb.2, hm⟩
    | some ap =>
      cases o2 with
      | none => exact absurd hb (by simp [BeginRel])
      | some bq =>
        refine ⟨hst.symm, ?_, s1, (ap, bq) :: Ks, hb, by simp [hm]⟩
        intro k hk
        rcases List.mem_cons.1 hk with rfl | hk
        · rfl
        · exact hK k hk
  next := by
    intro m m0 a p b q K h
    obtain ⟨rfl, hK, s, Ks, hs, hm⟩ := h
    have hab := hK ((a, p), (b, q)) (List.mem_cons_self ..)
    simp only [Prod.mk.injEq] at hab
    obtain ⟨rfl, rfl⟩ := hab
    cases Ks with
    | nil => simp at hm
    | cons k Ks =>
      obtain ⟨⟨a', p'⟩, ⟨b', q'⟩⟩ := k
      simp only [List.map_cons, List.cons.injEq, Prod.mk.injEq] at hm
      obtain ⟨⟨rfl, rfl⟩, hm⟩ := hm
      have hn := sim_next hs
      simp only [machine] at hn
      show StepRel machine SimG m m.strip a' a' K (next m a' p') (next m.strip a' p')
      rw [next_strip]
      cases hc : next m a' p' with
      | done => trivial
      | fault => rw [hc] at hn; cases hsn : Spec.machine.next s b' q' <;> (rw [hsn] at hn; exact absurd hn (by simp [StepRel]))
      | call l x p'' =>
        rw [hc] at hn
        cases hsn : Spec.machine.next s b' q' with
        | done => rw [hsn] at hn; exact absurd hn (by simp [StepRel])
        | fault => rw [hsn] at hn; exact absurd hn (by simp [StepRel])
        | call l' x' q'' =>
          rw [hsn] at hn
          obtain ⟨_, _, hal, hs'⟩ := hn
          refine ⟨rfl, rfl, hal, rfl, ?_, s, ((a', p''), (b', q'')) :: Ks, hs', by simp [hm]⟩
          intro k hk
          rcases List.mem_cons.1 hk with rfl | hk
          · rfl
          · exact hK k (List.mem_cons_of_mem _ hk)
  finish := by
    intro m m0 a p b q K h
    obtain ⟨rfl, hK, s, Ks, hs, hm⟩ := h
    have hab := hK ((a, p), (b, q)) (List.mem_cons_self ..)
    simp only [Prod.mk.injEq] at hab
    obtain ⟨rfl, rfl⟩ := hab
    cases Ks with
    | nil => simp at hm
    | cons k Ks =>
      obtain ⟨⟨a', p'⟩, ⟨b', q'⟩⟩ := k
      simp only [List.map_cons, List.cons.injEq, Prod.mk.injEq] at hm
      obtain ⟨⟨rfl, rfl⟩, hm⟩ := hm
      exact ⟨(actEnd_strip a' m).symm, fun k hk => hK k (List.mem_cons_of_mem _ hk), _, Ks, sim_finish hs, hm⟩

theorem runOps_relG (P : Prog) (fuel : Nat) (ops : List Action) {r₁ r₂ : Run State}
    (h : RunRel SimG [] r₁ r₂) : RunRel SimG [] (runOps machine P fuel r₁ ops) (runOps machine0 P fuel r₂ ops) := by
  induction ops generalizing r₁ r₂ with
  | nil => exact h
  | cons a as ih => exact ih ((exec_sim ghostOK P fuel).1 [] [a] r₁ r₂ h)

theorem fresh_strip : State.fresh.strip = State.fresh := rfl

end Nstd.Callback
