import Nstd.Callback.LemmasDisconnect
/-
  Obligation `SimOK.delL`: `Listener::~Listener` against the removal of all connections of the
  listener in the specification.
-/
namespace Nstd.Callback
open Spec

/-! ### list facts -/

theorem removeOldest_filter (l x : Nat) (L : List Conn) :
    (removeOldest l x L).filter (fun c => c.receiver ≠ l) = L.filter (fun c => c.receiver ≠ l) := by
  induction L with
  | nil => rfl
  | cons c cs ih =>
    simp only [removeOldest]
    by_cases h : c.receiver = l ∧ c.slot = x
    · simp [h, List.filter_cons]
    · simp only [h, if_false, List.filter_cons, ih]

theorem count_foldl_erase {α : Type} [BEq α] [LawfulBEq α] (a : α) (ps T : List α) :
    (ps.foldl List.erase T).count a = T.count a - ps.count a := by
  induction ps generalizing T with
  | nil => simp
  | cons p ps ih =>
    simp only [List.foldl_cons, ih, List.count_erase, List.count_cons]
    omega

theorem eq_nil_of_count_zero {α : Type} [BEq α] [LawfulBEq α] {L : List α} (h : ∀ a, L.count a = 0) : L = [] := by
  cases L with
  | nil => rfl
  | cons a as => have := h a; simp at this

/-! ### the specification side of the loops -/

/-- `s'` differs from `s` only by connections of receiver `l` that were removed -/
structure DelRel (l : Nat) (s s' : SState) : Prop where
  clock : s'.clock = s.clock
  eAlive : ∀ e, s'.eAlive e = s.eAlive e
  lAlive : ∀ l', s'.lAlive l' = s.lAlive l'
  depth : ∀ e g, (s'.sig e g).depth = (s.sig e g).depth
  outer : ∀ e g, (s'.sig e g).outerStart = (s.sig e g).outerStart
  live : ∀ e g, (s'.sig e g).live.filter (fun c => c.receiver ≠ l) = (s.sig e g).live.filter (fun c => c.receiver ≠ l)

theorem DelRel.refl (l : Nat) (s : SState) : DelRel l s s :=
  ⟨rfl, fun _ => rfl, fun _ => rfl, fun _ _ => rfl, fun _ _ => rfl, fun _ _ => rfl⟩

theorem DelRel.step {l : Nat} {s s' : SState} (h : DelRel l s s') (e g x : Nat) :
    DelRel l s (Spec.disconnect e g l x s') := by
  refine ⟨h.clock, h.eAlive, h.lAlive, ?_, ?_, ?_⟩ <;> intro e' g' <;>
    simp only [Spec.disconnect, SState.setSig] <;> by_cases c : e' = e ∧ g' = g
  · obtain ⟨rfl, rfl⟩ := c; simp only [and_self, if_true]; exact h.depth e' g'
  · simp only [c, if_false]; exact h.depth e' g'
  · obtain ⟨rfl, rfl⟩ := c; simp only [and_self, if_true]; exact h.outer e' g'
  · simp only [c, if_false]; exact h.outer e' g'
  · obtain ⟨rfl, rfl⟩ := c; simp only [and_self, if_true]; rw [removeOldest_filter]; exact h.live e' g'
  · simp only [c, if_false]; exact h.live e' g'

def specInner (l e : Nat) (ps : List (Nat × Nat)) (s : SState) : SState :=
  ps.foldl (fun s p => Spec.disconnect e p.1 l p.2 s) s

theorem delRel_inner {l : Nat} (e : Nat) (ps : List (Nat × Nat)) {s s' : SState} (h : DelRel l s s') :
    DelRel l s (specInner l e ps s') := by
  induction ps generalizing s' with
  | nil => exact h
  | cons p ps ih => exact ih (h.step e p.1 p.2)

/-! ### the inner loop (one emitter key) -/

theorem simL_inner {K : MStack} {l : Nat} (e : Nat) (ps : List (Nat × Nat)) :
    ∀ {m : State} {s : SState} {todo : Nat → List (Nat × Nat)}, SimL l todo m s K →
      ((m.emitters e).isSome = true ∨ ps = []) →
      SimL l (fun e' => if e' = e then ps.foldl List.erase (todo e) else todo e')
        (ps.foldl (dropSlot l e) m) (specInner l e ps s) K := by
  induction ps with
  | nil =>
    intro m s todo h _
    have : (fun e' => if e' = e then todo e else todo e') = todo := by
      funext e'; by_cases c : e' = e <;> simp [c]
    simp only [List.foldl_nil, specInner, this]
    exact h
  | cons p ps ih =>
    intro m s todo h hal
    have hal' : (m.emitters e).isSome = true := by
      rcases hal with hal | hal
      · exact hal
      · cases hal
    have hstep := simL_unlink e p.1 p.2 h hal'
    have hal2 : ((dropSlot l e m (p.1, p.2)).emitters e).isSome = true := by
      rw [← hstep.abs.eAlive]
      show s.eAlive e = true
      rw [h.abs.eAlive]; exact hal'
    have := ih hstep (Or.inl hal2)
    simp only [List.foldl_cons, specInner]
    have hfun : (fun e' => if e' = e then List.foldl List.erase
          ((fun e' => if e' = e then (todo e).erase (p.1, p.2) else todo e') e) ps
        else (fun e' => if e' = e then (todo e).erase (p.1, p.2) else todo e') e') =
        (fun e' => if e' = e then List.foldl List.erase ((todo e).erase p) ps else todo e') := by
      funext e'; by_cases c : e' = e <;> simp [c]
    rw [hfun] at this
    exact this

/-! ### the outer loop (all emitter keys) -/

def modelOuter (l : Nat) (li : Listener) (es : List Nat) (m : State) : State :=
  es.foldl (fun st e => (li.sigs e).foldl (dropSlot l e) st) m

def specOuter (l : Nat) (li : Listener) (es : List Nat) (s : SState) : SState :=
  es.foldl (fun s e => specInner l e (li.sigs e) s) s

theorem simL_outer {K : MStack} {l : Nat} {li : Listener} (s0 : SState) (es : List Nat) :
    ∀ {m : State} {s : SState} {todo : Nat → List (Nat × Nat)}, SimL l todo m s K →
      (∀ e a, (todo e).count a ≤ (li.sigs e).count a) →
      (∀ e, s.eAlive e = false → li.sigs e = []) → DelRel l s0 s →
      ∃ todo', SimL l todo' (modelOuter l li es m) (specOuter l li es s) K ∧
        (∀ e a, (todo' e).count a ≤ (li.sigs e).count a) ∧ (∀ e ∈ es, todo' e = []) ∧
        (∀ e, e ∉ es → todo' e = todo e) ∧ DelRel l s0 (specOuter l li es s) := by
  induction es with
  | nil =>
    intro m s todo h hq _ hr
    exact ⟨todo, h, hq, fun e he => by simp at he, fun _ _ => rfl, hr⟩
  | cons e es ih =>
    intro m s todo h hq hdead hr
    have hal : (m.emitters e).isSome = true ∨ li.sigs e = [] := by
      cases hx : s.eAlive e with
      | true => left; rw [← h.abs.eAlive]; exact hx
      | false => right; exact hdead e hx
    have hin := simL_inner e (li.sigs e) h hal
    have hr1 := delRel_inner e (li.sigs e) hr
    have hq1 : ∀ e' a, ((fun e' => if e' = e then (li.sigs e).foldl List.erase (todo e) else todo e') e').count a ≤
        (li.sigs e').count a := by
      intro e' a
      by_cases c : e' = e
      · subst c
        simp only [if_true]
        rw [count_foldl_erase]
        have := hq e' a; omega
      · simp only [c, if_false]; exact hq e' a
    have hdead1 : ∀ e', (specInner l e (li.sigs e) s).eAlive e' = false → li.sigs e' = [] := by
      intro e' he'
      have h1 := (delRel_inner (l := l) e (li.sigs e) (DelRel.refl l s)).eAlive e'
      rw [h1] at he'
      exact hdead e' he'
    obtain ⟨todo', h1, h2, h3, h4, h5⟩ := ih hin hq1 hdead1 hr1
    refine ⟨todo', h1, h2, ?_, ?_, h5⟩
    · intro e' he'
      by_cases c : e' ∈ es
      · exact h3 e' c
      · have hee : e' = e := by
          rcases List.mem_cons.1 he' with hh | hh
          · exact hh
          · exact absurd hh c
        subst hee
        rw [h4 e' c]
        simp only [if_true]
        apply eq_nil_of_count_zero
        intro a
        rw [count_foldl_erase]
        have := hq e' a; omega
    · intro e' he'
      have hne : e' ≠ e := fun hh => he' (hh ▸ List.mem_cons_self ..)
      have hnm : e' ∉ es := fun hh => he' (List.mem_cons_of_mem _ hh)
      rw [h4 e' hnm]
      simp [hne]

/-! ### the obligation -/

theorem sim_delL {m : State} {s : SState} {K : MStack} (l : Nat) (h : Sim m s K)
    (hal : machine.aliveL m l = true) :
    Sim (machine.delL l m) (Spec.machine.delL l s) K := by
  simp only [machine] at hal
  cases hli : m.listeners l with
  | none => rw [hli] at hal; simp at hal
  | some li =>
  simp only [machine, Spec.machine, delListener, hli]
  have hdead : ∀ e, s.eAlive e = false → li.sigs e = [] := by
    intro e he
    apply eq_nil_of_count_zero
    intro a
    have hem : m.emitters e = none := by
      have := h.abs.eAlive e
      rw [he] at this
      cases hx : m.emitters e with
      | none => rfl
      | some _ => rw [hx] at this; simp at this
    have := h.b.count l li e a.1 a.2 hli
    simpa [State.data, hem] using this
  obtain ⟨todo', h1, _, h3, h4, h5⟩ :=
    simL_outer (li := li) s li.emKeys (h.toL hli) (fun _ _ => Nat.le_refl _) hdead (DelRel.refl l s)
  have hnil : ∀ e, todo' e = [] := by
    intro e
    by_cases c : e ∈ li.emKeys
    · exact h3 e c
    · rw [h4 e c]
      apply Classical.byContradiction
      intro hne
      exact c (h.b.lkeys l li e hli hne)
  show Sim ((modelOuter l li li.emKeys m).setListener l none) (Spec.delL l s) K
  generalize modelOuter l li li.emKeys m = mF at h1
  generalize specOuter l li li.emKeys s = sF at h1 h5
  have hlF : (mF.listeners l).isSome = true := by
    rw [← h1.abs.lAlive, h5.lAlive, h.abs.lAlive, hli]; rfl
  cases hliF : mF.listeners l with
  | none => rw [hliF] at hlF; simp at hlF
  | some liF =>
  -- no live entry of receiver `l` is left
  have hnone : ∀ e g d, mF.data e g = some d → ∀ y ∈ d.slots, y.state ≠ .disconnected → y.receiver ≠ l := by
    intro e g d hd y hy hnd hr
    have := h1.b.count l liF e g y.slot hliF
    simp only [if_true, hnil, List.count_nil, hd] at this
    have hpos : 0 < d.slots.countP (fun z => z.isMatch l y.slot) := by
      rw [List.countP_pos_iff]
      exact ⟨y, hy, by simp [Slot.isMatch, hr, hnd]⟩
    omega
  have hlis : ∀ l', (mF.setListener l none).listeners l' = if l' = l then none else mF.listeners l' := fun _ => rfl
  refine ⟨h1.nofault, ⟨h1.f.links, h1.f.act, h1.f.hasData, h1.f.invDead, h1.f.deadInv⟩,
    ⟨h1.sl.clean, h1.sl.allConn, h1.sl.sorted, h1.sl.bound, h1.sl.obj⟩, ⟨?_, ?_, h1.b.ekeys, ?_⟩,
    ⟨?_, ?_, ?_, ?_, ?_, ?_, ?_, ?_⟩, ?_⟩
  · intro e g d hd y hy hnd
    rw [hlis]
    have hne := hnone e g d hd y hy hnd
    simp only [hne, if_false]
    exact h1.b.recv e g d hd y hy hnd
  · intro l' li' e g x hl'
    rw [hlis] at hl'
    by_cases c : l' = l
    · simp [c] at hl'
    · simp only [c, if_false] at hl'
      have := h1.b.count l' li' e g x hl'
      simp only [c, if_false] at this
      exact this
  · intro l' li' e hl' hne
    rw [hlis] at hl'
    by_cases c : l' = l
    · simp [c] at hl'
    · simp only [c, if_false] at hl'
      exact h1.b.lkeys l' li' e hl' hne
  · show s.clock = mF.nextNode
    rw [← h5.clock]; exact h1.abs.clock
  · intro e
    show s.eAlive e = (mF.emitters e).isSome
    rw [← h5.eAlive]; exact h1.abs.eAlive e
  · intro l'
    rw [hlis]
    simp only [Spec.delL]
    by_cases c : l' = l
    · simp [c]
    · simp only [c, if_false]
      rw [← h5.lAlive]; exact h1.abs.lAlive l'
  · intro e g
    show ((s.sig e g).live.filter (fun c => c.receiver ≠ l)) = liveOf (mF.data e g)
    rw [← h5.live, ← h1.abs.live]
    rw [List.filter_eq_self]
    intro c hc
    rw [h1.abs.live] at hc
    cases hd : mF.data e g with
    | none => rw [hd] at hc; simp [liveOf] at hc
    | some d =>
      rw [hd] at hc
      obtain ⟨y, hy, hnd, rfl⟩ := mem_liveOf hc
      have := hnone e g d hd y hy hnd
      exact decide_eq_true this
  · intro e g hal'
    show (s.sig e g).depth = _
    rw [← h5.depth]; exact h1.abs.depth e g hal'
  · intro e g hal'
    show (s.sig e g).outerStart = none ↔ _
    rw [← h5.outer]; exact h1.abs.outer e g hal'
  · intro e g d t hd ht
    have ht' : (sF.sig e g).outerStart = some t := by rw [h5.outer]; exact ht
    exact h1.abs.born e g d t hd ht'
  · intro e g t ht
    have ht' : (sF.sig e g).outerStart = some t := by rw [h5.outer]; exact ht
    show t ≤ s.clock
    rw [← h5.clock]; exact h1.abs.startLe e g t ht'
  · exact cursors_mono (m := mF) (Nat.le_refl _) (fun e' g' d' _ hal hd' => ⟨hal, d', hd', fun _ _ _ hh => hh⟩) h1.cur

end Nstd.Callback
