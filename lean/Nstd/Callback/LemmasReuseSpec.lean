import Nstd.Callback.PropsReuse
/-
  The specification with listener address reuse (`execRL Spec.machineRL`) against the specification without
  (`exec Spec.machine`): the state of the run with reuse is the state of the run without, with every listener id replaced by the
  variable it was created for (`lIdx`).  No don't-cares: `Spec.delL` leaves no trace of a destroyed listener.
-/
set_option linter.unusedSimpArgs false
set_option linter.unusedVariables false
namespace Nstd.Callback
open Spec

/-- a connection with the receiver replaced by its variable -/
def ren (f : Nat → Nat) (c : Conn) : Conn := { c with receiver := f c.receiver }

theorem removeOldest_map (f : Nat → Nat) (l l' sl : Nat) (cs : List Conn)
    (h : ∀ c ∈ cs, (f c.receiver = l' ↔ c.receiver = l)) :
    removeOldest l' sl (cs.map (ren f)) = (removeOldest l sl cs).map (ren f) := by
  induction cs with
  | nil => rfl
  | cons c cs ih =>
    have hc := h c (List.mem_cons_self ..)
    simp only [List.map_cons, removeOldest, ren]
    by_cases hm : c.receiver = l ∧ c.slot = sl
    · have : f c.receiver = l' ∧ c.slot = sl := ⟨hc.2 hm.1, hm.2⟩
      rw [if_pos this, if_pos hm]
    · have : ¬ (f c.receiver = l' ∧ c.slot = sl) := fun hh => hm ⟨hc.1 hh.1, hh.2⟩
      simp only [hm, this, if_false, List.map_cons]
      rw [← ih (fun c' hc' => h c' (List.mem_cons_of_mem _ hc'))]
      rfl

theorem mem_removeOldest {l sl : Nat} {cs : List Conn} {c : Conn} (h : c ∈ removeOldest l sl cs) : c ∈ cs := by
  induction cs with
  | nil => simp [removeOldest] at h
  | cons d cs ih =>
    simp only [removeOldest] at h
    by_cases hm : d.receiver = l ∧ d.slot = sl
    · simp only [hm, and_self, if_true] at h; exact List.mem_cons_of_mem _ h
    · simp only [hm, if_false] at h
      rcases List.mem_cons.1 h with rfl | h
      · exact List.mem_cons_self ..
      · exact List.mem_cons_of_mem _ (ih h)

theorem filter_ne_map (f : Nat → Nat) (l l' : Nat) (cs : List Conn) (h : ∀ c ∈ cs, (f c.receiver = l' ↔ c.receiver = l)) :
    (cs.map (ren f)).filter (fun c => c.receiver ≠ l') = (cs.filter (fun c => c.receiver ≠ l)).map (ren f) := by
  induction cs with
  | nil => rfl
  | cons c cs ih =>
    have hc := h c (List.mem_cons_self ..)
    have ih' := ih (fun c' hc' => h c' (List.mem_cons_of_mem _ hc'))
    simp only [List.map_cons, List.filter_cons, ren]
    by_cases hm : c.receiver = l
    · have : f c.receiver = l' := hc.2 hm
      have e1 : decide (f c.receiver ≠ l') = false := by simp [this]
      have e2 : decide (c.receiver ≠ l) = false := by simp [hm]
      rw [e1, e2]
      exact ih'
    · have : ¬ f c.receiver = l' := fun hh => hm (hc.1 hh)
      have e1 : decide (f c.receiver ≠ l') = true := by simp [this]
      have e2 : decide (c.receiver ≠ l) = true := by simp [hm]
      rw [e1, e2]
      simp only [if_true, List.map_cons]
      rw [← ih']
      rfl

theorem snapshot_map (f : Nat → Nat) (t : Nat) (cs : List Conn) :
    ((cs.map (ren f)).filter (fun c => c.uid < t)).map (·.uid) = (cs.filter (fun c => c.uid < t)).map (·.uid) := by
  induction cs with
  | nil => rfl
  | cons c cs ih =>
    simp only [List.map_cons, List.filter_cons, ren]
    by_cases hm : c.uid < t <;> simp [hm, ih]

theorem find_map (f : Nat → Nat) (u : Nat) (cs : List Conn) :
    (cs.map (ren f)).find? (fun c => c.uid = u) = (cs.find? (fun c => c.uid = u)).map (ren f) := by
  induction cs with
  | nil => rfl
  | cons c cs ih =>
    simp only [List.map_cons, List.find?_cons, ren]
    by_cases hm : c.uid = u <;> simp [hm, ih, ren]

theorem nextLive_map (f : Nat → Nat) (cs : List Conn) (snap : List Nat) :
    nextLive (cs.map (ren f)) snap = (nextLive cs snap).map (fun p => (ren f p.1, p.2)) := by
  induction snap with
  | nil => rfl
  | cons u us ih =>
    simp only [nextLive, find_map]
    cases cs.find? (fun c => c.uid = u) with
    | none => simpa using ih
    | some c => rfl

theorem nextLive_mem {cs : List Conn} {snap : List Nat} {c : Conn} {rest : List Nat} (h : nextLive cs snap = some (c, rest)) : c ∈ cs := by
  induction snap with
  | nil => simp [nextLive] at h
  | cons u us ih =>
    simp only [nextLive] at h
    cases hf : cs.find? (fun c => c.uid = u) with
    | none => rw [hf] at h; exact ih h
    | some d =>
      rw [hf] at h
      simp only [Option.some.injEq, Prod.mk.injEq] at h
      obtain ⟨rfl, _⟩ := h
      exact List.mem_of_find?_eq_some hf

end Nstd.Callback
