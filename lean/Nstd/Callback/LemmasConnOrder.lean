import Nstd.Callback.LemmasTop
/-
  Invocation order = connection order.  The uid of a connection is the value of the clock when it
  was made (Spec.connect; the clock only grows), so "older" = smaller uid.  In every state reachable in
  the middle of any nesting of emissions: the live list of a signal is strictly increasing in uid, what
  an emission in progress will still invoke is strictly increasing in uid, and the connection the loop
  invokes next is the oldest of them.
-/
namespace Nstd.Callback
open Spec

theorem liveOf_sorted {d : SignalData} (h : Sorted d.slots) :
    (liveOf (some d)).Pairwise (fun a b => a.uid < b.uid) := by
  simp only [liveOf, liveSlots]
  exact List.Pairwise.map _ (fun a b hab => hab) (List.Pairwise.filter _ h)

theorem isLive_nil (u : Nat) : isLive [] u = false := rfl

/-- (i) the live list is in connection order and every uid is in the past -/
theorem live_in_connection_order {m : State} {s : SState} {K : MStack} (h : Sim m s K) (e g : Nat) :
    (s.sig e g).live.Pairwise (fun a b => a.uid < b.uid) ∧ ∀ c ∈ (s.sig e g).live, c.uid < s.clock := by
  rw [h.abs.live, h.abs.clock]
  cases hd : m.data e g with
  | none => simp [liveOf]
  | some d =>
    refine ⟨liveOf_sorted (h.sl.sorted e g d hd), ?_⟩
    intro c hc
    obtain ⟨x, hx, _, rfl⟩ := mem_liveOf hc
    exact h.sl.bound e g d hd x hx

/-- (ii) what an emission in progress will still invoke is in connection order -/
theorem pending_in_connection_order {m : State} {s : SState} {K : MStack} {fid e g : Nat} {idx : Option Nat}
    {snap : List Nat} (h : Sim m s (((fid, idx), ((e, g), snap)) :: K)) :
    (snap.filter (isLive (s.sig e g).live)).Pairwise (· < ·) := by
  rw [h.abs.live]
  cases hd : m.data e g with
  | none =>
    have : snap.filter (isLive (liveOf none)) = [] := by
      rw [List.filter_eq_nil_iff]; intro u _; simp [liveOf, isLive_nil]
    rw [this]; exact List.Pairwise.nil
  | some d =>
    rw [filter_isLive_liveOf]
    have hc := h.cur
    cases hfr : m.frames with
    | nil => rw [hfr] at hc; exact absurd hc (by simp [Cursors])
    | cons f fs =>
      rw [hfr] at hc
      obtain ⟨_, _, _, hli, _⟩ := hc
      have hem : (m.emitters e).isSome := by
        simp only [State.data] at hd
        cases hem : m.emitters e with
        | none => rw [hem] at hd; cases hd
        | some em => rfl
      have := hli hem d hd
      cases idx with
      | none => simp only [LIo] at this; subst this; exact List.Pairwise.nil
      | some i =>
        simp only [LIo, LI] at this
        rw [this]
        have hs : Sorted d.slots := h.sl.sorted e g d hd
        have h1 : Sorted (d.slots.drop i) := List.Pairwise.sublist (List.drop_sublist i d.slots) hs
        exact List.Pairwise.map _ (fun a b hab => hab) (List.Pairwise.filter _ h1)

/-- (iii) the connection the loop invokes next is the oldest of those the emission will still invoke -/
theorem next_is_oldest {m : State} {s : SState} {K : MStack} {fid e g : Nat} {idx : Option Nat}
    {snap : List Nat} {l x : Nat} {p' : Option Nat} (h : Sim m s (((fid, idx), ((e, g), snap)) :: K))
    (hcall : machine.next m fid idx = .call l x p') :
    ∃ c rest, nextLive (s.sig e g).live snap = some (c, rest) ∧ c ∈ (s.sig e g).live ∧ c.receiver = l ∧ c.slot = x ∧
      ∀ u ∈ rest.filter (isLive (s.sig e g).live), c.uid < u := by
  have hn := sim_next h
  rw [hcall] at hn
  cases hs : Spec.machine.next s (e, g) snap with
  | done => rw [hs] at hn; exact absurd hn (by simp [StepRel])
  | fault => rw [hs] at hn; exact absurd hn (by simp [StepRel])
  | call l' x' q' =>
    rw [hs] at hn
    obtain ⟨rfl, rfl, _, _⟩ := hn
    simp only [Spec.machine, Spec.next] at hs
    by_cases hea : s.eAlive e = true
    · simp only [hea, if_true] at hs
      cases hnl : nextLive (s.sig e g).live snap with
      | none => rw [hnl] at hs; cases hs
      | some cr =>
        obtain ⟨c, rest⟩ := cr
        rw [hnl] at hs
        simp only [Step.call.injEq] at hs
        obtain ⟨hr, hx, _⟩ := hs
        obtain ⟨hmem, _, hfil⟩ := nextLive_some hnl
        have hp := pending_in_connection_order h
        rw [hfil, List.pairwise_cons] at hp
        exact ⟨c, rest, rfl, hmem, hr, hx, hp.1⟩
    · simp only [hea] at hs
      cases hs

end Nstd.Callback
