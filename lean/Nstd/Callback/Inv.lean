import Nstd.Callback.Eval
import Nstd.Callback.Spec
/-
  The invariant of the model (`FInv` activation frames, `SInv` slot lists, `BInv` two-sided
  bookkeeping), the abstraction to the specification state (`Abs`), the relation between the
  emission loops in progress (`Cursors`) and their conjunction `Sim`.
-/
namespace Nstd.Callback
open Spec

/-! ### frames -/

/-- id of the innermost frame of signal `eg` -/
def topOf : List Frame → Nat × Nat → Option Nat
  | [], _ => none
  | f :: fs, eg => if f.data = eg then some fs.length else topOf fs eg

def countFrames : List Frame → Nat × Nat → Nat
  | [], _ => 0
  | f :: fs, eg => (if f.data = eg then 1 else 0) + countFrames fs eg

/-- every `next` pointer is the innermost frame of the same signal below -/
def LinksOK : List Frame → Prop
  | [] => True
  | f :: fs => f.next = topOf fs f.data ∧ LinksOK fs

theorem topOf_lt {fs : List Frame} {eg : Nat × Nat} {i : Nat} (h : topOf fs eg = some i) : i < fs.length := by
  induction fs with
  | nil => simp [topOf] at h
  | cons f fs ih =>
    simp only [topOf] at h
    by_cases c : f.data = eg
    · simp only [c, if_true, Option.some.injEq] at h; simp only [List.length_cons]; omega
    · simp only [c, if_false] at h; have := ih h; simp only [List.length_cons]; omega

theorem topOf_none_iff {fs : List Frame} {eg : Nat × Nat} : topOf fs eg = none ↔ countFrames fs eg = 0 := by
  induction fs with
  | nil => simp [topOf, countFrames]
  | cons f fs ih =>
    simp only [topOf, countFrames]
    by_cases c : f.data = eg
    · simp [c]
    · simp [c, ih]

theorem frameAt_cons_lt {f : Frame} {fs : List Frame} {i : Nat} (h : i < fs.length) :
    frameAt (f :: fs) i = frameAt fs i := by
  simp only [frameAt]
  have : i ≠ fs.length := by omega
  simp only [this, if_false]

theorem frameAt_top (f : Frame) (fs : List Frame) : frameAt (f :: fs) fs.length = some f := by
  simp [frameAt]

theorem frameAt_mem {fs : List Frame} {i : Nat} {f : Frame} (h : frameAt fs i = some f) : f ∈ fs := by
  induction fs with
  | nil => simp [frameAt] at h
  | cons g fs ih =>
    simp only [frameAt] at h
    by_cases c : i = fs.length
    · simp only [c, if_true, Option.some.injEq] at h; simp [h]
    · simp only [c, if_false] at h; exact List.mem_cons_of_mem _ (ih h)

theorem frameAt_lt {fs : List Frame} {i : Nat} {f : Frame} (h : frameAt fs i = some f) : i < fs.length := by
  induction fs with
  | nil => simp [frameAt] at h
  | cons g fs ih =>
    simp only [frameAt] at h
    by_cases c : i = fs.length
    · simp [c]
    · simp only [c, if_false] at h; have := ih h; simp only [List.length_cons]; omega

theorem popTo_top (f : Frame) (fs : List Frame) : popTo (f :: fs) fs.length = fs := by
  simp only [popTo, Nat.lt_irrefl, if_false]
  cases fs with
  | nil => rfl
  | cons g gs => simp [popTo]

theorem setInvalid_length (fs : List Frame) (i : Nat) : (setInvalid fs i).length = fs.length := by
  induction fs with
  | nil => rfl
  | cons f fs ih =>
    simp only [setInvalid]
    by_cases c : i = fs.length <;> simp [c, ih]

theorem setInvalid_data (fs : List Frame) (i : Nat) : (setInvalid fs i).map (·.data) = fs.map (·.data) := by
  induction fs with
  | nil => rfl
  | cons f fs ih =>
    simp only [setInvalid]
    by_cases c : i = fs.length <;> simp [c, ih]

theorem topOf_congr {fs gs : List Frame} (h : fs.map (·.data) = gs.map (·.data)) (eg : Nat × Nat) :
    topOf fs eg = topOf gs eg := by
  induction fs generalizing gs with
  | nil => cases gs with
    | nil => rfl
    | cons _ _ => simp at h
  | cons f fs ih =>
    cases gs with
    | nil => simp at h
    | cons g gs =>
      simp only [List.map_cons, List.cons.injEq] at h
      have hl : fs.length = gs.length := by simpa using congrArg List.length h.2
      simp only [topOf, h.1, ih h.2, hl]

theorem countFrames_congr {fs gs : List Frame} (h : fs.map (·.data) = gs.map (·.data)) (eg : Nat × Nat) :
    countFrames fs eg = countFrames gs eg := by
  induction fs generalizing gs with
  | nil => cases gs with
    | nil => rfl
    | cons _ _ => simp at h
  | cons f fs ih =>
    cases gs with
    | nil => simp at h
    | cons g gs =>
      simp only [List.map_cons, List.cons.injEq] at h
      simp only [countFrames, h.1, ih h.2]

/-! ### slots -/

def Slot.toConn (x : Slot) : Conn := { uid := x.node, receiver := x.receiver, slot := x.slot }

def liveSlots (xs : List Slot) : List Slot := xs.filter (fun x => x.state != .disconnected)

/-- the live connections a slot list stands for -/
def liveOf : Option SignalData → List Conn
  | none => []
  | some d => (liveSlots d.slots).map Slot.toConn

/-- `u` is the node of an entry that is not `disconnected` -/
def liveNode (xs : List Slot) (u : Nat) : Bool := xs.any (fun x => x.node == u && x.state != .disconnected)

/-- loop invariant of an emission: what is left of the snapshot and still live is exactly
    what the walk over the slot list will still find `connected` -/
def LI (xs : List Slot) (idx : Nat) (snap : List Nat) : Prop :=
  snap.filter (liveNode xs) = ((xs.drop idx).filter (fun x => x.state == .connected)).map (·.node)

/-- ... for an iterator that may be the `end` captured for an empty list (nothing will be found,
    the snapshot was empty) -/
def LIo (xs : List Slot) : Option Nat → List Nat → Prop
  | none, snap => snap = []
  | some idx, snap => LI xs idx snap

def Sorted (xs : List Slot) : Prop := xs.Pairwise (fun a b => a.node < b.node)

/-! ### the invariant -/

structure FInv (m : State) : Prop where
  links : LinksOK m.frames
  act : ∀ e g d, m.data e g = some d → d.activation = topOf m.frames (e, g)
  hasData : ∀ f ∈ m.frames, (m.emitters f.data.1).isSome → (m.data f.data.1 f.data.2).isSome
  invDead : ∀ f ∈ m.frames, f.invalidated = true → m.emitters f.data.1 = none
  deadInv : ∀ e g i, m.emitters e = none → topOf m.frames (e, g) = some i →
    ∃ f, frameAt m.frames i = some f ∧ f.invalidated = true

structure SInv (m : State) : Prop where
  clean : ∀ e g d, m.data e g = some d → d.activation = none → d.dirty = false
  allConn : ∀ e g d, m.data e g = some d → d.dirty = false → ∀ x ∈ d.slots, x.state = .connected
  sorted : ∀ e g d, m.data e g = some d → Sorted d.slots
  bound : ∀ e g d, m.data e g = some d → ∀ x ∈ d.slots, x.node < m.nextNode
  obj : ∀ e g d, m.data e g = some d → ∀ x ∈ d.slots, x.object = x.receiver

structure BInv (m : State) : Prop where
  recv : ∀ e g d, m.data e g = some d → ∀ x ∈ d.slots, x.state ≠ .disconnected → (m.listeners x.receiver).isSome
  count : ∀ l li e g s, m.listeners l = some li →
    (li.sigs e).count (g, s) = match m.data e g with
      | none => 0
      | some d => d.slots.countP (fun x => x.isMatch l s)
  ekeys : ∀ e em g, m.emitters e = some em → (em.sig g).isSome → g ∈ em.sigKeys
  lkeys : ∀ l li e, m.listeners l = some li → li.sigs e ≠ [] → e ∈ li.emKeys

structure Abs (m : State) (s : SState) : Prop where
  clock : s.clock = m.nextNode
  eAlive : ∀ e, s.eAlive e = (m.emitters e).isSome
  lAlive : ∀ l, s.lAlive l = (m.listeners l).isSome
  live : ∀ e g, (s.sig e g).live = liveOf (m.data e g)
  depth : ∀ e g, (m.emitters e).isSome → (s.sig e g).depth = countFrames m.frames (e, g)
  outer : ∀ e g, (m.emitters e).isSome → ((s.sig e g).outerStart = none ↔ countFrames m.frames (e, g) = 0)
  born : ∀ e g d t, m.data e g = some d → (s.sig e g).outerStart = some t →
    ∀ x ∈ d.slots, x.state ≠ .disconnected → (x.state = .connected ↔ x.node < t)
  startLe : ∀ e g t, (s.sig e g).outerStart = some t → t ≤ s.clock

abbrev MStack := Stack Nat (Option Nat) (Nat × Nat) (List Nat)

/-- the emission loops in progress, innermost first, against the frame stack -/
def Cursors (m : State) : MStack → List Frame → Prop
  | [], [] => True
  | ((fid, pos), (eg, snap)) :: K, f :: fs =>
    fid = fs.length ∧ f.data = eg ∧ (∀ u ∈ snap, u < m.nextNode) ∧
    ((m.emitters eg.1).isSome → ∀ d, m.data eg.1 eg.2 = some d → LIo d.slots pos snap) ∧
    Cursors m K fs
  | _, _ => False

structure Sim (m : State) (s : SState) (K : MStack) : Prop where
  nofault : m.fault = false
  f : FInv m
  sl : SInv m
  b : BInv m
  abs : Abs m s
  cur : Cursors m K m.frames

end Nstd.Callback
