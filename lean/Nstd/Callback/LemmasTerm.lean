import Nstd.Callback.LemmasFuel
/-
  Termination of the evaluator for programs given by a finite script table: every cell
  (listener, slot, invocation#) is consumed at most once, so the work is bounded.  Proved for the
  specification machine (its loop walks a snapshot that gets shorter) and carried over to the
  model by the simulation (`RunRel.oof`).
-/
namespace Nstd.Callback
open Spec

/-- actions in cells that can still be invoked -/
def budget : Table → (Nat → Nat → Nat) → Nat
  | [], _ => 0
  | x :: T, inv => (if inv x.1.1 x.1.2.1 ≤ x.1.2.2 then x.2.length else 0) + budget T inv

theorem budget_mono {T : Table} {inv inv' : Nat → Nat → Nat} (h : ∀ l s, inv l s ≤ inv' l s) :
    budget T inv' ≤ budget T inv := by
  induction T with
  | nil => exact Nat.le_refl _
  | cons x T ih =>
    simp only [budget]
    have := h x.1.1 x.1.2.1
    by_cases c : inv' x.1.1 x.1.2.1 ≤ x.1.2.2
    · have c' : inv x.1.1 x.1.2.1 ≤ x.1.2.2 := by omega
      simp only [c, c', if_true]; omega
    · simp only [c, if_false]
      by_cases c' : inv x.1.1 x.1.2.1 ≤ x.1.2.2 <;> simp only [c', if_true, if_false] <;> omega

/-- entering slot (l, s) takes its cell out of the budget -/
theorem budget_enter (T : Table) (rf : Nat → Bool) (inv : Nat → Nat → Nat) (l s : Nat) :
    budget T (fun l' s' => if l' = l ∧ s' = s then inv l s + 1 else inv l' s') +
      ((Prog.ofTable T rf).script l s (inv l s)).length ≤ budget T inv := by
  induction T with
  | nil => simp [budget, Prog.ofTable]
  | cons x T ih =>
    have hmono : budget T (fun l' s' => if l' = l ∧ s' = s then inv l s + 1 else inv l' s') ≤ budget T inv :=
      budget_mono (fun l' s' => by
        by_cases c : l' = l ∧ s' = s
        · obtain ⟨rfl, rfl⟩ := c; simp
        · simp [c])
    simp only [budget, Prog.ofTable, List.find?_cons] at ih ⊢
    by_cases c : x.1 = (l, s, inv l s)
    · have hx1 : x.1.1 = l := by rw [c]
      have hx2 : x.1.2.1 = s := by rw [c]
      have hx3 : x.1.2.2 = inv l s := by rw [c]
      have : (x.1 == (l, s, inv l s)) = true := by simp [c]
      simp only [this, hx1, hx2, hx3, and_self, if_true, Nat.le_refl]
      have : ¬ (inv l s + 1 ≤ inv l s) := by omega
      simp only [this, if_false]
      omega
    · have : (x.1 == (l, s, inv l s)) = false := by simpa using c
      simp only [this]
      have hle : (if (if x.1.1 = l ∧ x.1.2.1 = s then inv l s + 1 else inv x.1.1 x.1.2.1) ≤ x.1.2.2 then x.2.length else 0) ≤
          (if inv x.1.1 x.1.2.1 ≤ x.1.2.2 then x.2.length else 0) := by
        by_cases c2 : x.1.1 = l ∧ x.1.2.1 = s
        · obtain ⟨h1, h2⟩ := c2
          simp only [h1, h2, and_self, if_true]
          by_cases c3 : inv l s + 1 ≤ x.1.2.2
          · have : inv l s ≤ x.1.2.2 := by omega
            simp [c3, this]
          · simp [c3]
        · simp only [c2, if_false]; exact Nat.le_refl _
      omega

variable {σ α π : Type}

theorem prim_inv (M : Machine σ α π) (r : Run σ) (a : Action) : (r.prim M a).inv = r.inv := by
  cases a <;> simp only [Run.prim] <;> (try split) <;> rfl

/-- the invocation counters only grow -/
theorem exec_inv_mono (M : Machine σ α π) (P : Prog) (n : Nat) :
    ∀ (r : Run σ) (t : Task α π) (l s : Nat), r.inv l s ≤ (exec M P n r t).inv l s := by
  induction n with
  | zero => intro r t l s; rw [exec_zero]; exact Nat.le_refl _
  | succ n ih =>
    intro r t l s
    cases t with
    | acts as =>
      cases as with
      | nil => exact Nat.le_refl _
      | cons a as =>
        by_cases hem : ∃ e g v, a = .emit e g v
        · obtain ⟨e, g, v, rfl⟩ := hem
          rw [exec_acts_emit]
          refine Nat.le_trans ?_ (ih _ _ l s)
          split
          · rcases hb : M.begin (r.emId e) g r.m with ⟨m1, o⟩
            cases o with
            | none => exact Nat.le_refl _
            | some ap =>
              obtain ⟨a, p⟩ := ap
              exact ih ({ r with m := m1 }.mark (.emitBegin e g v)) (.loop a p ⟨v, P.ref g⟩) l s
          · exact Nat.le_refl _
        · have hne : ∀ e g v, a ≠ .emit e g v := fun e g v he => hem ⟨e, g, v, he⟩
          rw [exec_acts_prim _ _ _ _ _ _ hne]
          refine Nat.le_trans ?_ (ih _ _ l s)
          rw [prim_inv]; exact Nat.le_refl _
    | loop a p v =>
      rw [exec_loop]
      cases hn : M.next r.m a p with
      | done => exact Nat.le_refl _
      | fault => exact Nat.le_refl _
      | call l' s' p' =>
        simp only
        split
        · refine Nat.le_trans ?_ (ih _ _ l s)
          rw [markIf_inv]
          refine Nat.le_trans ?_ (ih _ _ l s)
          simp only [Run.enter]
          by_cases c : l = r.lIdx l' ∧ s = s'
          · obtain ⟨rfl, rfl⟩ := c; simp
          · simp [c]
        · exact Nat.le_refl _

theorem nextLive_shorter {live : List Conn} {snap rest : List Nat} {c : Conn}
    (h : nextLive live snap = some (c, rest)) : rest.length < snap.length := by
  induction snap with
  | nil => simp [nextLive] at h
  | cons u us ih =>
    simp only [nextLive] at h
    cases hf : live.find? (fun c => c.uid = u) with
    | some c' => rw [hf] at h; simp only [Option.some.injEq, Prod.mk.injEq] at h; rw [← h.2]; simp
    | none => rw [hf] at h; have := ih h; simp only [List.length_cons]; omega

section term
variable (T : Table) (rf : Nat → Bool)

/-- scripts terminate when the budget (+ their length) is at most `b` -/
def TermA (b : Nat) : Prop :=
  ∀ (r : Run SState) (as : List Action), r.oof = false → budget T r.inv + as.length ≤ b →
    ∃ n, (exec Spec.machine (Prog.ofTable T rf) n r (.acts as)).oof = false

/-- emission loops terminate when the budget is at most `b` -/
def TermL (b : Nat) : Prop :=
  ∀ (r : Run SState) (a : Nat × Nat) (snap : List Nat) (v : Arg), r.oof = false → budget T r.inv ≤ b →
    ∃ n, (exec Spec.machine (Prog.ofTable T rf) n r (.loop a snap v)).oof = false

theorem termL_of_termA (b : Nat) (hA : TermA T rf b) : TermL T rf b := by
  intro r a snap v
  induction hl : snap.length using Nat.strongRecOn generalizing r snap v with
  | _ k ih =>
    intro hoof hb
    cases hn : Spec.machine.next r.m a snap with
    | done => exact ⟨1, by rw [exec_loop, hn]; exact hoof⟩
    | fault => exact ⟨1, by rw [exec_loop, hn]; exact hoof⟩
    | call l s rest =>
      by_cases hal : Spec.machine.aliveL r.m l = true
      · -- the slot body
        have hbud := budget_enter T rf r.inv (r.lIdx l) s
        obtain ⟨n1, h1⟩ := hA (r.enter (r.lIdx l) s v.val) ((Prog.ofTable T rf).script (r.lIdx l) s (r.inv (r.lIdx l) s)) hoof
          (by simp only [Run.enter]; omega)
        -- the rest of the loop
        have hrest : rest.length < k := by
          simp only [Spec.machine, Spec.next] at hn
          split at hn
          · split at hn
            · cases hn
            · rename_i c rest' hnl
              simp only [Step.call.injEq] at hn
              rw [← hn.2.2, ← hl]
              exact nextLive_shorter hnl
          · cases hn
        have hb2 : budget T (exec Spec.machine (Prog.ofTable T rf) n1 (r.enter (r.lIdx l) s v.val)
            (.acts ((Prog.ofTable T rf).script (r.lIdx l) s (r.inv (r.lIdx l) s)))).inv ≤ b := by
          refine Nat.le_trans (budget_mono (exec_inv_mono _ _ n1 _ _)) ?_
          simp only [Run.enter] at hbud ⊢
          omega
        obtain ⟨n2, h2⟩ := ih rest.length hrest
          ((exec Spec.machine (Prog.ofTable T rf) n1 (r.enter (r.lIdx l) s v.val)
            (.acts ((Prog.ofTable T rf).script (r.lIdx l) s (r.inv (r.lIdx l) s)))).markIf v.ref
              (.ret (v.val + bumpOf ((Prog.ofTable T rf).script (r.lIdx l) s (r.inv (r.lIdx l) s)))))
          rest (v.after (v.val + bumpOf ((Prog.ofTable T rf).script (r.lIdx l) s (r.inv (r.lIdx l) s)))) rfl
          (by rw [markIf_oof]; exact h1) (by rw [markIf_inv]; exact hb2)
        refine ⟨max n1 n2 + 1, ?_⟩
        rw [exec_loop, hn]
        simp only [hal, if_true]
        rw [exec_fuel_mono _ _ n1 _ _ h1 (max n1 n2) (Nat.le_max_left ..)]
        rw [exec_fuel_mono _ _ n2 _ _ h2 (max n1 n2) (Nat.le_max_right ..)]
        exact h2
      · exact ⟨1, by rw [exec_loop, hn]; simp only [hal]; exact hoof⟩

theorem termA_succ (b : Nat) (hA : TermA T rf b) : TermA T rf (b + 1) := by
  have hL := termL_of_termA T rf b hA
  intro r as
  induction as generalizing r with
  | nil => intro hoof _; exact ⟨1, hoof⟩
  | cons a as ihas =>
    intro hoof hb
    simp only [List.length_cons] at hb
    by_cases hem : ∃ e g v, a = .emit e g v
    · obtain ⟨e, g, v, rfl⟩ := hem
      -- the state after the emission
      have hsub : ∃ n1 r1, (∀ n, n1 ≤ n →
            (if Spec.machine.aliveE r.m (r.emId e) then
              match Spec.machine.begin (r.emId e) g r.m with
              | (m1, none) => ({ r with m := m1 }.mark (.emitBegin e g v)).mark .emitEnd
              | (m1, some (a, p)) =>
                { exec Spec.machine (Prog.ofTable T rf) n ({ r with m := m1 }.mark (.emitBegin e g v)) (.loop a p ⟨v, (Prog.ofTable T rf).ref g⟩) with
                  m := Spec.machine.finish a (exec Spec.machine (Prog.ofTable T rf) n ({ r with m := m1 }.mark (.emitBegin e g v)) (.loop a p ⟨v, (Prog.ofTable T rf).ref g⟩)).m }.mark .emitEnd
            else r) = r1) ∧ r1.oof = false ∧ budget T r1.inv ≤ budget T r.inv := by
        by_cases c : Spec.machine.aliveE r.m (r.emId e) = true
        · simp only [c, if_true]
          rcases hbg : Spec.machine.begin (r.emId e) g r.m with ⟨m1, o⟩
          cases o with
          | none => exact ⟨0, ({ r with m := m1 }.mark (.emitBegin e g v)).mark .emitEnd, fun _ _ => rfl, hoof, Nat.le_refl _⟩
          | some ap =>
            obtain ⟨a, p⟩ := ap
            obtain ⟨n1, h1⟩ := hL ({ r with m := m1 }.mark (.emitBegin e g v)) a p ⟨v, (Prog.ofTable T rf).ref g⟩ hoof (by show budget T r.inv ≤ b; omega)
            refine ⟨n1, { exec Spec.machine (Prog.ofTable T rf) n1 ({ r with m := m1 }.mark (.emitBegin e g v)) (.loop a p ⟨v, (Prog.ofTable T rf).ref g⟩) with
                m := Spec.machine.finish a (exec Spec.machine (Prog.ofTable T rf) n1 ({ r with m := m1 }.mark (.emitBegin e g v)) (.loop a p ⟨v, (Prog.ofTable T rf).ref g⟩)).m }.mark .emitEnd,
              fun n hn => ?_, ?_, ?_⟩
            · simp only
              rw [exec_fuel_mono _ _ n1 _ _ h1 n hn]
            · exact h1
            · exact budget_mono (exec_inv_mono _ _ n1 ({ r with m := m1 }.mark (.emitBegin e g v)) _)
        · simp only [c]
          exact ⟨0, r, fun _ _ => rfl, hoof, Nat.le_refl _⟩
      obtain ⟨n1, r1, hr1, hoof1, hb1⟩ := hsub
      obtain ⟨n2, h2⟩ := ihas r1 hoof1 (by omega)
      refine ⟨max n1 n2 + 1, ?_⟩
      rw [exec_acts_emit]
      have e1 := congrArg (fun x => (exec Spec.machine (Prog.ofTable T rf) (max n1 n2) x (.acts as)).oof)
        (hr1 (max n1 n2) (Nat.le_max_left ..))
      refine Eq.trans e1 ?_
      rw [exec_fuel_mono _ _ n2 _ _ h2 (max n1 n2) (Nat.le_max_right ..)]
      exact h2
    · have hne : ∀ e g v, a ≠ .emit e g v := fun e g v he => hem ⟨e, g, v, he⟩
      obtain ⟨n2, h2⟩ := ihas (r.prim Spec.machine a) (by rw [prim_oof]; exact hoof) (by rw [prim_inv]; omega)
      exact ⟨n2 + 1, by rw [exec_acts_prim _ _ _ _ _ _ hne]; exact h2⟩

theorem termA_all (b : Nat) : TermA T rf b := by
  induction b with
  | zero =>
    intro r as hoof hb
    have : as = [] := by
      cases as with
      | nil => rfl
      | cons _ _ => simp only [List.length_cons] at hb; omega
    subst this
    exact ⟨1, hoof⟩
  | succ b ih => exact termA_succ T rf b ih

theorem spec_runOps_terminates (ops : List Action) :
    ∀ r : Run SState, r.oof = false → ∃ n, (runOps Spec.machine (Prog.ofTable T rf) n r ops).oof = false := by
  induction ops with
  | nil => intro r h; exact ⟨0, h⟩
  | cons a as ih =>
    intro r h
    obtain ⟨n1, h1⟩ := termA_all T rf _ r [a] h (Nat.le_refl _)
    obtain ⟨n2, h2⟩ := ih _ h1
    refine ⟨max n1 n2, ?_⟩
    simp only [runOps]
    rw [exec_fuel_mono _ _ n1 _ _ h1 (max n1 n2) (Nat.le_max_left ..)]
    rw [runOps_fuel_mono _ _ n2 as _ h2 (max n1 n2) (Nat.le_max_right ..)]
    exact h2

end term
end Nstd.Callback
