import Nstd.Callback.LemmasReuseSpec
/-
  State-level lemmas: every primitive of the specification keeps the relation `SQ` between the state of the run with
  listener reuse and the state of the run without.
-/
set_option linter.unusedSimpArgs false
set_option linter.unusedVariables false
namespace Nstd.Callback
open Spec

structure SQ (nl : Nat) (lId lIdx : Nat → Nat) (nextL : Nat) (s' s : SState) : Prop where
  sig : ∀ e g, s'.sig e g = { s.sig e g with live := (s.sig e g).live.map (ren lIdx) }
  lsig : ∀ i, i < nl → ∀ e, s'.lsig i e = s.lsig (lId i) e
  lAlive : ∀ i, i < nl → s'.lAlive i = s.lAlive (lId i)
  eAlive : s'.eAlive = s.eAlive
  clock : s'.clock = s.clock
  idx : ∀ i, i < nl → lIdx (lId i) = i
  cur : ∀ e g, ∀ c ∈ (s.sig e g).live, lIdx c.receiver < nl ∧ lId (lIdx c.receiver) = c.receiver ∧ s.lAlive c.receiver = true
  used : ∀ i, i < nl → lId i < nextL
  pristine : ∀ j, nextL ≤ j → s.lAlive j = true ∧ ∀ e, s.lsig j e = []

variable {nl : Nat} {lId lIdx : Nat → Nat} {nextL : Nat} {s' s : SState}

theorem SQ.inj (h : SQ nl lId lIdx nextL s' s) {i j : Nat} (hi : i < nl) (hj : j < nl) (e : lId i = lId j) : i = j := by
  rw [← h.idx i hi, ← h.idx j hj, e]

theorem SQ.recv_iff (h : SQ nl lId lIdx nextL s' s) {l : Nat} (hl : l < nl) {e g : Nat} :
    ∀ c ∈ (s.sig e g).live, (lIdx c.receiver = l ↔ c.receiver = lId l) := by
  intro c hc
  obtain ⟨h1, h2, _⟩ := h.cur e g c hc
  constructor
  · intro hh; rw [← h2, hh]
  · intro hh; rw [hh, h.idx l hl]

theorem sq_connect (h : SQ nl lId lIdx nextL s' s) (e g l sl : Nat) (hl : l < nl) (hal : s.lAlive (lId l) = true) :
    SQ nl lId lIdx nextL (Spec.connect e g l sl s') (Spec.connect e g (lId l) sl s) where
  sig := by
    intro e0 g0
    simp only [Spec.connect, SState.setSig]
    by_cases hc : e0 = e ∧ g0 = g
    · obtain ⟨rfl, rfl⟩ := hc
      simp only [and_self, if_true, h.sig, List.map_append, List.map_cons, List.map_nil, ren, h.idx l hl, h.clock]
    · simp only [hc, if_false, h.sig]
  lsig := by
    intro i hi e0
    simp only [Spec.connect]
    by_cases hc : i = l ∧ e0 = e
    · obtain ⟨rfl, rfl⟩ := hc
      simp [h.lsig i hi, h.clock]
    · have : ¬ (lId i = lId l ∧ e0 = e) := fun hh => hc ⟨h.inj hi hl hh.1, hh.2⟩
      simp only [hc, this, if_false, h.lsig i hi]
  lAlive := fun i hi => h.lAlive i hi
  eAlive := h.eAlive
  clock := by simp [Spec.connect, h.clock]
  idx := h.idx
  cur := by
    intro e0 g0 c hc
    simp only [Spec.connect, SState.setSig] at hc ⊢
    by_cases hh : e0 = e ∧ g0 = g
    · simp only [hh, and_self, if_true, List.mem_append, List.mem_singleton] at hc
      rcases hc with hc | rfl
      · exact h.cur e g c hc
      · exact ⟨by rw [h.idx l hl]; exact hl, by rw [h.idx l hl], hal⟩
    · simp only [hh, if_false] at hc
      exact h.cur e0 g0 c hc
  used := h.used
  pristine := by
    intro j hj
    obtain ⟨h1, h2⟩ := h.pristine j hj
    refine ⟨h1, fun e0 => ?_⟩
    simp only [Spec.connect]
    have : ¬ (j = lId l ∧ e0 = e) := fun hh => by have := h.used l hl; omega
    simp only [this, if_false, h2]

theorem sq_disconnect (h : SQ nl lId lIdx nextL s' s) (e g l sl : Nat) (hl : l < nl) :
    SQ nl lId lIdx nextL (Spec.disconnect e g l sl s') (Spec.disconnect e g (lId l) sl s) where
  sig := by
    intro e0 g0
    simp only [Spec.disconnect, SState.setSig]
    by_cases hc : e0 = e ∧ g0 = g
    · obtain ⟨rfl, rfl⟩ := hc
      simp only [and_self, if_true, h.sig]
      rw [removeOldest_map lIdx (lId l) l sl _ (h.recv_iff hl)]
    · simp only [hc, if_false, h.sig]
  lsig := by
    intro i hi e0
    simp only [Spec.disconnect]
    by_cases hc : i = l ∧ e0 = e
    · obtain ⟨rfl, rfl⟩ := hc
      simp [h.lsig i hi]
    · have : ¬ (lId i = lId l ∧ e0 = e) := fun hh => hc ⟨h.inj hi hl hh.1, hh.2⟩
      simp only [hc, this, if_false, h.lsig i hi]
  lAlive := fun i hi => h.lAlive i hi
  eAlive := h.eAlive
  clock := h.clock
  idx := h.idx
  cur := by
    intro e0 g0 c hc
    simp only [Spec.disconnect, SState.setSig] at hc ⊢
    by_cases hh : e0 = e ∧ g0 = g
    · simp only [hh, and_self, if_true] at hc
      exact h.cur e g c (mem_removeOldest hc)
    · simp only [hh, if_false] at hc
      exact h.cur e0 g0 c hc
  used := h.used
  pristine := by
    intro j hj
    obtain ⟨h1, h2⟩ := h.pristine j hj
    refine ⟨h1, fun e0 => ?_⟩
    simp only [Spec.disconnect]
    have : ¬ (j = lId l ∧ e0 = e) := fun hh => by have := h.used l hl; omega
    simp only [this, if_false, h2]

theorem sq_delL (h : SQ nl lId lIdx nextL s' s) (l : Nat) (hl : l < nl) :
    SQ nl lId lIdx nextL (Spec.delL l s') (Spec.delL (lId l) s) where
  sig := by
    intro e0 g0
    simp only [Spec.delL, h.sig]
    rw [filter_ne_map lIdx (lId l) l _ (h.recv_iff hl)]
  lsig := by
    intro i hi e0
    simp only [Spec.delL]
    by_cases hc : i = l
    · subst hc; simp
    · have : ¬ lId i = lId l := fun hh => hc (h.inj hi hl hh)
      simp only [hc, this, if_false, h.lsig i hi]
  lAlive := by
    intro i hi
    simp only [Spec.delL]
    by_cases hc : i = l
    · subst hc; simp
    · have : ¬ lId i = lId l := fun hh => hc (h.inj hi hl hh)
      simp only [hc, this, if_false, h.lAlive i hi]
  eAlive := h.eAlive
  clock := h.clock
  idx := h.idx
  cur := by
    intro e0 g0 c hc
    simp only [Spec.delL, List.mem_filter, decide_eq_true_eq] at hc ⊢
    obtain ⟨h1, h2, h3⟩ := h.cur e0 g0 c hc.1
    refine ⟨h1, h2, ?_⟩
    simp only [hc.2, if_false, h3]
  used := h.used
  pristine := by
    intro j hj
    obtain ⟨h1, h2⟩ := h.pristine j hj
    have : ¬ j = lId l := fun hh => by have := h.used l hl; omega
    simp only [Spec.delL, this, if_false]
    exact ⟨h1, h2⟩

theorem sq_delE (h : SQ nl lId lIdx nextL s' s) (e : Nat) :
    SQ nl lId lIdx nextL (Spec.delE e s') (Spec.delE e s) where
  sig := by
    intro e0 g0
    simp only [Spec.delE]
    by_cases hc : e0 = e
    · simp [hc, Sig.empty]
    · simp only [hc, if_false, h.sig]
  lsig := by
    intro i hi e0
    simp only [Spec.delE]
    by_cases hc : e0 = e
    · simp [hc]
    · simp only [hc, if_false, h.lsig i hi]
  lAlive := fun i hi => h.lAlive i hi
  eAlive := by simp only [Spec.delE, h.eAlive]
  clock := h.clock
  idx := h.idx
  cur := by
    intro e0 g0 c hc
    simp only [Spec.delE] at hc ⊢
    by_cases hh : e0 = e
    · simp [hh, Sig.empty] at hc
    · simp only [hh, if_false] at hc
      exact h.cur e0 g0 c hc
  used := h.used
  pristine := by
    intro j hj
    obtain ⟨h1, h2⟩ := h.pristine j hj
    refine ⟨h1, fun e0 => ?_⟩
    simp only [Spec.delE]
    by_cases hc : e0 = e <;> simp [hc, h2]

/-- a new listener: with reuse the variable keeps its id and the id is revived; without, the variable gets the next unused id -/
theorem sq_newL (h : SQ nl lId lIdx nextL s' s) (l : Nat) (hl : l < nl) (hdead : s.lAlive (lId l) = false) :
    SQ nl (fun i => if i = l then nextL else lId i) (fun j => if j = nextL then l else lIdx j) (nextL + 1) (Spec.reviveL l s') s where
  sig := by
    intro e0 g0
    simp only [Spec.reviveL, h.sig]
    congr 1
    apply List.map_congr_left
    intro c hc
    obtain ⟨h1, h2, _⟩ := h.cur e0 g0 c hc
    have hlt := h.used _ h1
    have : ¬ c.receiver = nextL := by rw [← h2]; omega
    simp [ren, this]
  lsig := by
    intro i hi e0
    simp only [Spec.reviveL]
    by_cases hc : i = l
    · subst hc; simp [(h.pristine nextL (Nat.le_refl _)).2 e0]
    · simp only [hc, if_false, h.lsig i hi]
  lAlive := by
    intro i hi
    simp only [Spec.reviveL]
    by_cases hc : i = l
    · subst hc; simp [(h.pristine nextL (Nat.le_refl _)).1]
    · simp only [hc, if_false, h.lAlive i hi]
  eAlive := h.eAlive
  clock := h.clock
  idx := by
    intro i hi
    by_cases hc : i = l
    · subst hc; simp
    · have := h.used i hi
      have hne : ¬ lId i = nextL := by omega
      simp only [hc, if_false, hne, h.idx i hi]
  cur := by
    intro e0 g0 c hc
    obtain ⟨h1, h2, h3⟩ := h.cur e0 g0 c hc
    have hlt := h.used _ h1
    have hne : ¬ c.receiver = nextL := by rw [← h2]; omega
    simp only [hne, if_false]
    refine ⟨h1, ?_, h3⟩
    by_cases hc2 : lIdx c.receiver = l
    · rw [hc2] at h2; rw [h2] at hdead; rw [hdead] at h3; cases h3
    · simp only [hc2, if_false, h2]
  used := by
    intro i hi
    by_cases hc : i = l
    · simp [hc]
    · have := h.used i hi
      simp only [hc, if_false]; omega
  pristine := fun j hj => h.pristine j (by omega)

theorem sq_begin (h : SQ nl lId lIdx nextL s' s) (e g : Nat) :
    (Spec.begin e g s').2 = (Spec.begin e g s).2 ∧ SQ nl lId lIdx nextL (Spec.begin e g s').1 (Spec.begin e g s).1 := by
  refine ⟨?_, ?_⟩
  · simp only [Spec.begin, h.sig, h.clock, snapshot_map]
  · exact
    { sig := by
        intro e0 g0
        simp only [Spec.begin, SState.setSig]
        by_cases hc : e0 = e ∧ g0 = g
        · obtain ⟨rfl, rfl⟩ := hc
          simp only [and_self, if_true, h.sig, h.clock]
        · simp only [hc, if_false, h.sig]
      lsig := fun i hi e0 => h.lsig i hi e0
      lAlive := fun i hi => h.lAlive i hi
      eAlive := h.eAlive
      clock := h.clock
      idx := h.idx
      cur := by
        intro e0 g0 c hc
        simp only [Spec.begin, SState.setSig] at hc ⊢
        by_cases hh : e0 = e ∧ g0 = g
        · simp only [hh, and_self, if_true] at hc
          exact h.cur e g c hc
        · simp only [hh, if_false] at hc
          exact h.cur e0 g0 c hc
      used := h.used
      pristine := h.pristine }

theorem sq_finish (h : SQ nl lId lIdx nextL s' s) (a : Nat × Nat) :
    SQ nl lId lIdx nextL (Spec.finish a s') (Spec.finish a s) := by
  unfold Spec.finish
  rw [h.eAlive]
  by_cases hal : s.eAlive a.1 = true
  · simp only [hal, if_true]
    exact
    { sig := by
        intro e0 g0
        simp only [SState.setSig]
        by_cases hc : e0 = a.1 ∧ g0 = a.2
        · obtain ⟨rfl, rfl⟩ := hc
          simp only [and_self, if_true, h.sig]
        · simp only [hc, if_false, h.sig]
      lsig := fun i hi e0 => h.lsig i hi e0
      lAlive := fun i hi => h.lAlive i hi
      eAlive := h.eAlive
      clock := h.clock
      idx := h.idx
      cur := by
        intro e0 g0 c hc
        simp only [SState.setSig] at hc ⊢
        by_cases hh : e0 = a.1 ∧ g0 = a.2
        · simp only [hh, and_self, if_true] at hc
          exact h.cur a.1 a.2 c hc
        · simp only [hh, if_false] at hc
          exact h.cur e0 g0 c hc
      used := h.used
      pristine := h.pristine }
  · simp only [hal, if_false, Bool.false_eq_true]
    exact h

/-- the next invocation: the same connection, the receiver named by its variable in the run with reuse -/
theorem sq_next (h : SQ nl lId lIdx nextL s' s) (a : Nat × Nat) (snap : List Nat) :
    (Spec.next s' a snap = .done ∧ Spec.next s a snap = .done) ∨
    ∃ c rest, c ∈ (s.sig a.1 a.2).live ∧ Spec.next s a snap = .call c.receiver c.slot rest ∧
      Spec.next s' a snap = .call (lIdx c.receiver) c.slot rest := by
  unfold Spec.next
  rw [h.eAlive, h.sig]
  by_cases hal : s.eAlive a.1 = true
  · simp only [hal, if_true, nextLive_map]
    cases hn : nextLive (s.sig a.1 a.2).live snap with
    | none => exact Or.inl ⟨rfl, rfl⟩
    | some p =>
      obtain ⟨c, rest⟩ := p
      exact Or.inr ⟨c, rest, nextLive_mem hn, rfl, rfl⟩
  · simp only [hal, if_false, Bool.false_eq_true]
    exact Or.inl ⟨trivial, trivial⟩

end Nstd.Callback
