import Nstd.Callback.Inv
/-
  The two `next` functions agree under `Sim` (obligation `SimOK.next`).
-/
namespace Nstd.Callback
open Spec

/-! ### lookups after a write -/

theorem data_put {st : State} {e g : Nat} {em : Emitter} (d' : SignalData) (h : st.emitters e = some em) (e' g' : Nat) :
    (st.setEmitter e (some (em.setSig g d'))).data e' g' = if e' = e ∧ g' = g then some d' else st.data e' g' := by
  simp only [State.data, State.setEmitter, Emitter.setSig]
  by_cases c : e' = e
  · subst c
    by_cases c2 : g' = g
    · simp [c2]
    · simp [c2, h]
  · simp [c]

/-! ### `nextConnected` -/

theorem nextConnectedAux_none {ys : List Slot} {i : Nat} (h : nextConnectedAux ys i = none) :
    ys.filter (fun x => x.state == .connected) = [] := by
  induction ys generalizing i with
  | nil => rfl
  | cons y ys ih =>
    simp only [nextConnectedAux] at h
    by_cases c : y.state = .connected
    · simp [c] at h
    · simp only [c, if_false] at h
      simp [List.filter_cons, c, ih h]

theorem nextConnectedAux_some {ys : List Slot} {i j : Nat} {x : Slot} (h : nextConnectedAux ys i = some (j, x)) :
    ∃ k, j = i + k ∧ x.state = .connected ∧ x ∈ ys ∧
      ys.filter (fun x => x.state == .connected) = x :: (ys.drop (k + 1)).filter (fun x => x.state == .connected) := by
  induction ys generalizing i with
  | nil => simp [nextConnectedAux] at h
  | cons y ys ih =>
    simp only [nextConnectedAux] at h
    by_cases c : y.state = .connected
    · simp only [c, if_true, Option.some.injEq, Prod.mk.injEq] at h
      obtain ⟨rfl, rfl⟩ := h
      exact ⟨0, rfl, c, List.mem_cons_self .., by simp [List.filter_cons, c]⟩
    · simp only [c, if_false] at h
      obtain ⟨k, hj, hc, hm, hf⟩ := ih h
      refine ⟨k + 1, by omega, hc, List.mem_cons_of_mem _ hm, ?_⟩
      simp [List.filter_cons, c, hf]

theorem nextConnected_none {xs : List Slot} {i : Nat} (h : nextConnected xs i = none) :
    (xs.drop i).filter (fun x => x.state == .connected) = [] := nextConnectedAux_none h

theorem nextConnected_some {xs : List Slot} {i j : Nat} {x : Slot} (h : nextConnected xs i = some (j, x)) :
    x.state = .connected ∧ x ∈ xs ∧
      (xs.drop i).filter (fun x => x.state == .connected) = x :: (xs.drop (j + 1)).filter (fun x => x.state == .connected) := by
  obtain ⟨k, hj, hc, hm, hf⟩ := nextConnectedAux_some h
  refine ⟨hc, List.mem_of_mem_drop hm, ?_⟩
  rw [hf, List.drop_drop]
  have : i + (k + 1) = j + 1 := by omega
  rw [this]

/-! ### `nextLive` -/

def isLive (live : List Conn) (u : Nat) : Bool := (live.find? (fun c => c.uid = u)).isSome

theorem nextLive_none {live : List Conn} {snap : List Nat} (h : nextLive live snap = none) :
    snap.filter (isLive live) = [] := by
  induction snap with
  | nil => rfl
  | cons u us ih =>
    simp only [nextLive] at h
    cases hf : live.find? (fun c => c.uid = u) with
    | some c => rw [hf] at h; simp at h
    | none =>
      rw [hf] at h
      simp [List.filter_cons, isLive, hf, ih h]

theorem nextLive_some {live : List Conn} {snap rest : List Nat} {c : Conn} (h : nextLive live snap = some (c, rest)) :
    c ∈ live ∧ (∀ u ∈ rest, u ∈ snap) ∧ snap.filter (isLive live) = c.uid :: rest.filter (isLive live) := by
  induction snap with
  | nil => simp [nextLive] at h
  | cons u us ih =>
    simp only [nextLive] at h
    cases hf : live.find? (fun c => c.uid = u) with
    | some c' =>
      rw [hf] at h
      simp only [Option.some.injEq, Prod.mk.injEq] at h
      obtain ⟨rfl, rfl⟩ := h
      have hu : c'.uid = u := by simpa using List.find?_some hf
      refine ⟨List.mem_of_find?_eq_some hf, fun u hu => List.mem_cons_of_mem _ hu, ?_⟩
      simp [List.filter_cons, isLive, hf, hu]
    | none =>
      rw [hf] at h
      obtain ⟨h1, h2, h3⟩ := ih h
      refine ⟨h1, fun u hu => List.mem_cons_of_mem _ (h2 u hu), ?_⟩
      simp [List.filter_cons, isLive, hf, h3]

theorem isLive_liveOf (d : SignalData) (u : Nat) : isLive (liveOf (some d)) u = liveNode d.slots u := by
  simp only [isLive, liveOf, liveSlots, liveNode]
  induction d.slots with
  | nil => rfl
  | cons x xs ih =>
    by_cases c : x.state = .disconnected
    · have h1 : (x.state != .disconnected) = false := by simp [c]
      simp only [List.filter_cons, h1, Bool.false_eq_true, if_false, List.any_cons, Bool.and_false, Bool.false_or]
      exact ih
    · have h1 : (x.state != .disconnected) = true := by simp [c]
      simp only [List.filter_cons, h1, if_true, List.map_cons, List.find?_cons, List.any_cons, Bool.and_true]
      by_cases c2 : x.node = u
      · simp [Slot.toConn, c2]
      · have h2 : decide ((Slot.toConn x).uid = u) = false := by simp [Slot.toConn, c2]
        have h3 : (x.node == u) = false := by simp [c2]
        simp only [h2, h3, Bool.false_or]
        exact ih

theorem filter_isLive_liveOf (d : SignalData) (snap : List Nat) :
    snap.filter (isLive (liveOf (some d))) = snap.filter (liveNode d.slots) := by
  congr 1
  funext u
  exact isLive_liveOf d u

theorem sorted_node_inj {xs : List Slot} (h : Sorted xs) {x y : Slot} (hx : x ∈ xs) (hy : y ∈ xs)
    (hn : x.node = y.node) : x = y := by
  induction xs with
  | nil => simp at hx
  | cons z zs ih =>
    simp only [Sorted, List.pairwise_cons] at h
    rcases List.mem_cons.1 hx with rfl | hx' <;> rcases List.mem_cons.1 hy with rfl | hy'
    · rfl
    · have := h.1 y hy'; omega
    · have := h.1 x hx'; omega
    · exact ih h.2 hx' hy'

theorem mem_liveOf {d : SignalData} {c : Conn} (h : c ∈ liveOf (some d)) :
    ∃ x ∈ d.slots, x.state ≠ .disconnected ∧ c = x.toConn := by
  simp only [liveOf, liveSlots, List.mem_map, List.mem_filter] at h
  obtain ⟨x, ⟨hx, hs⟩, rfl⟩ := h
  exact ⟨x, hx, by simpa using hs, rfl⟩

/-! ### the obligation -/

theorem sim_next {m : State} {s : SState} {fid : Nat} {pos : Option Nat} {eg : Nat × Nat} {snap : List Nat} {K : MStack}
    (h : Sim m s (((fid, pos), (eg, snap)) :: K)) :
    StepRel machine Sim m s fid eg K (machine.next m fid pos) (Spec.machine.next s eg snap) := by
  obtain ⟨e, g⟩ := eg
  have hc := h.cur
  cases hfr : m.frames with
  | nil => rw [hfr] at hc; exact absurd hc (by simp [Cursors])
  | cons f fs =>
    rw [hfr] at hc
    obtain ⟨rfl, hdata, hbound, hli, hrest⟩ := hc
    have hfm : f ∈ m.frames := by rw [hfr]; exact List.mem_cons_self ..
    simp only [machine, Spec.machine, next, Spec.next, hfr, frameAt_top]
    by_cases hinv : f.invalidated = true
    · -- invalidated: the emitter is gone, the specification stops too
      have hd := h.f.invDead f hfm hinv
      rw [hdata] at hd
      have : s.eAlive e = false := by rw [h.abs.eAlive, hd]; rfl
      simp [hinv, this, StepRel]
    · have halive : (m.emitters e).isSome = true := by
        cases hem : m.emitters e with
        | some _ => rfl
        | none =>
          have htop : topOf m.frames (e, g) = some fs.length := by simp [hfr, topOf, hdata]
          obtain ⟨f', hf', hi'⟩ := h.f.deadInv e g _ hem htop
          rw [hfr, frameAt_top] at hf'
          cases hf'
          exact absurd hi' hinv
      have hsd := h.f.hasData f hfm (by rw [hdata]; exact halive)
      rw [hdata] at hsd
      simp only at hsd
      cases hdd : m.data e g with
      | none => rw [hdd] at hsd; simp at hsd
      | some d =>
        have hLI := hli halive d hdd
        have hea : s.eAlive e = true := by rw [h.abs.eAlive]; exact halive
        have hlive := h.abs.live e g
        rw [hdd] at hlive
        cases pos with
        | none =>
          -- `begin == end`: the snapshot was empty
          have : snap = [] := hLI
          subst this
          simp [hinv, hea, nextLive, StepRel]
        | some idx =>
        have hLI : LI d.slots idx snap := hLI
        simp only [hinv, Bool.false_eq_true, if_false, hdata, hdd, hea, if_true, hlive]
        cases hn : nextConnected d.slots idx with
        | none =>
          have h0 := nextConnected_none hn
          unfold LI at hLI
          rw [h0] at hLI
          cases hl : nextLive (liveOf (some d)) snap with
          | none => simp [StepRel]
          | some cr =>
            obtain ⟨c, rest⟩ := cr
            have := (nextLive_some hl).2.2
            rw [filter_isLive_liveOf, hLI] at this
            simp at this
        | some jx =>
          obtain ⟨j, x⟩ := jx
          obtain ⟨hxc, hxm, hf⟩ := nextConnected_some hn
          unfold LI at hLI
          rw [hf] at hLI
          cases hl : nextLive (liveOf (some d)) snap with
          | none =>
            have := nextLive_none hl
            rw [filter_isLive_liveOf, hLI] at this
            simp at this
          | some cr =>
            obtain ⟨c, rest⟩ := cr
            obtain ⟨hcm, hsub, hflt⟩ := nextLive_some hl
            rw [filter_isLive_liveOf, filter_isLive_liveOf, hLI] at hflt
            simp only [List.map_cons, List.cons.injEq] at hflt
            obtain ⟨y, hym, hyl, rfl⟩ := mem_liveOf hcm
            have hxy : x = y := sorted_node_inj (h.sl.sorted e g d hdd) hxm hym (by simpa [Slot.toConn] using hflt.1)
            subst hxy
            have hobj := h.sl.obj e g d hdd x hxm
            have hrecv := h.b.recv e g d hdd x hxm hyl
            simp only [StepRel, hobj, Slot.toConn, true_and]
            refine ⟨hrecv, h.nofault, h.f, h.sl, h.b, h.abs, ?_⟩
            rw [hfr]
            refine ⟨rfl, hdata, fun u hu => hbound u (hsub u hu), ?_, hrest⟩
            intro _ d' hd'
            rw [hdd] at hd'
            cases hd'
            show LI d.slots (j + 1) rest
            unfold LI
            exact hflt.2.symm ▸ rfl

end Nstd.Callback
