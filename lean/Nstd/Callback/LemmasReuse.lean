import Nstd.Callback.Eval
import Nstd.Callback.ModelReuse
/-
  `exec_sim` for the evaluator with listener address reuse (`execRL`, ModelReuse.lean): a simulation kept by the nine
  primitives and by `reviveL` is kept by every program.  (The text of Eval.lean with `execRL` / `primRL` in the place of `exec` /
  `prim`; the only new case is `newL`.)
-/
namespace Nstd.Callback

variable {σ₁ α₁ π₁ σ₂ α₂ π₂ : Type}

/-- re-creating a listener at a destroyed id keeps the relation -/
def ReviveOK (M₁ : MachineR σ₁ α₁ π₁) (M₂ : MachineR σ₂ α₂ π₂) (Sim : σ₁ → σ₂ → Stack α₁ π₁ α₂ π₂ → Prop) : Prop :=
  ∀ {m s K} l, Sim m s K → M₁.aliveL m l = false → Sim (M₁.reviveL l m) (M₂.reviveL l s) K

theorem execRL_zero {σ α π : Type} (M : MachineR σ α π) (P : Prog) (r : Run σ) (t : Task α π) :
    execRL M P 0 r t = { r with oof := true } := by
  cases t <;> rfl

theorem execRL_acts_nil {σ α π : Type} (M : MachineR σ α π) (P : Prog) (n : Nat) (r : Run σ) :
    execRL M P (n + 1) r (.acts []) = r := rfl

theorem execRL_acts_emit {σ α π : Type} (M : MachineR σ α π) (P : Prog) (n : Nat) (r : Run σ) (e g v : Nat) (as : List Action) :
    execRL M P (n + 1) r (.acts (.emit e g v :: as)) =
      execRL M P n (if M.aliveE r.m (r.emId e) then
        match M.begin (r.emId e) g r.m with
        | (m1, none) => ({ r with m := m1 }.mark (.emitBegin e g v)).mark .emitEnd
        | (m1, some (a, p)) =>
          { execRL M P n ({ r with m := m1 }.mark (.emitBegin e g v)) (.loop a p ⟨v, P.ref g⟩) with
            m := M.finish a (execRL M P n ({ r with m := m1 }.mark (.emitBegin e g v)) (.loop a p ⟨v, P.ref g⟩)).m }.mark .emitEnd
      else r) (.acts as) := rfl

theorem execRL_acts_prim {σ α π : Type} (M : MachineR σ α π) (P : Prog) (n : Nat) (r : Run σ) (a : Action) (as : List Action)
    (h : ∀ e g v, a ≠ .emit e g v) :
    execRL M P (n + 1) r (.acts (a :: as)) = execRL M P n (r.primRL M a) (.acts as) := by
  cases a with
  | emit e g v => exact absurd rfl (h e g v)
  | _ => rfl

theorem execRL_loop {σ α π : Type} (M : MachineR σ α π) (P : Prog) (n : Nat) (r : Run σ) (a : α) (p : π) (v : Arg) :
    execRL M P (n + 1) r (.loop a p v) =
      match M.next r.m a p with
      | .done => r
      | .fault => { r with bad := true }
      | .call l s p' =>
        if M.aliveL r.m l then
          execRL M P n ((execRL M P n (r.enter (r.lIdx l) s v.val) (.acts (P.script (r.lIdx l) s (r.inv (r.lIdx l) s)))).markIf v.ref
              (.ret (v.val + bumpOf (P.script (r.lIdx l) s (r.inv (r.lIdx l) s)))))
            (.loop a p' (v.after (v.val + bumpOf (P.script (r.lIdx l) s (r.inv (r.lIdx l) s)))))
        else { r with bad := true } := rfl


section simRL
variable {M₁ : MachineR σ₁ α₁ π₁} {M₂ : MachineR σ₂ α₂ π₂}
  {Sim : σ₁ → σ₂ → Stack α₁ π₁ α₂ π₂ → Prop}

theorem primRL_sim (ok : SimOK M₁.toMachine M₂.toMachine Sim) (okR : ReviveOK M₁ M₂ Sim) {K : Stack α₁ π₁ α₂ π₂} {r₁ : Run σ₁} {r₂ : Run σ₂}
    (a : Action) (h : RunRel Sim K r₁ r₂) : RunRel Sim K (r₁.primRL M₁ a) (r₂.primRL M₂ a) := by
  obtain ⟨hs, ⟨hv1, hv2, hv3, hv4, hv5⟩, hi, hl, hb1, hb2, ho⟩ := h
  cases r₁
  cases r₂
  simp only at hs hv1 hv2 hv3 hv4 hv5 hi hl hb1 hb2 ho
  subst hv1 hv2 hv3 hv4 hv5 hi hl hb1 hb2
  cases a with
  | connect e g l x =>
    simp only [Run.primRL, Run.prim, ← ok.aliveE _ hs, ← ok.aliveL _ hs]
    split
    · rename_i c
      simp only [Bool.and_eq_true] at c
      exact ⟨ok.connect _ g _ x hs c.1 c.2, ⟨rfl, rfl, rfl, rfl, rfl⟩, rfl, rfl, rfl, rfl, ho⟩
    · exact ⟨hs, ⟨rfl, rfl, rfl, rfl, rfl⟩, rfl, rfl, rfl, rfl, ho⟩
  | disconnect e g l x =>
    simp only [Run.primRL, Run.prim, ← ok.aliveE _ hs, ← ok.aliveL _ hs]
    split
    · rename_i c
      simp only [Bool.and_eq_true] at c
      exact ⟨ok.disconnect _ g _ x hs c.1 c.2, ⟨rfl, rfl, rfl, rfl, rfl⟩, rfl, rfl, rfl, rfl, ho⟩
    · exact ⟨hs, ⟨rfl, rfl, rfl, rfl, rfl⟩, rfl, rfl, rfl, rfl, ho⟩
  | delL l =>
    simp only [Run.primRL, Run.prim, ← ok.aliveL _ hs]
    split
    · rename_i c
      exact ⟨ok.delL _ hs c, ⟨rfl, rfl, rfl, rfl, rfl⟩, rfl, rfl, rfl, rfl, ho⟩
    · exact ⟨hs, ⟨rfl, rfl, rfl, rfl, rfl⟩, rfl, rfl, rfl, rfl, ho⟩
  | delE e =>
    simp only [Run.primRL, Run.prim, ← ok.aliveE _ hs]
    split
    · rename_i c
      exact ⟨ok.delE _ hs c, ⟨rfl, rfl, rfl, rfl, rfl⟩, rfl, rfl, rfl, rfl, ho⟩
    · exact ⟨hs, ⟨rfl, rfl, rfl, rfl, rfl⟩, rfl, rfl, rfl, rfl, ho⟩
  | newL l =>
    simp only [Run.primRL, ← ok.aliveL _ hs]
    split
    · exact ⟨hs, ⟨rfl, rfl, rfl, rfl, rfl⟩, rfl, rfl, rfl, rfl, ho⟩
    · rename_i c
      exact ⟨okR _ hs (by simpa using c), ⟨rfl, rfl, rfl, rfl, rfl⟩, rfl, rfl, rfl, rfl, ho⟩
  | newE e =>
    simp only [Run.primRL, Run.prim, ← ok.aliveE _ hs]
    split <;> exact ⟨hs, ⟨rfl, rfl, rfl, rfl, rfl⟩, rfl, rfl, rfl, rfl, ho⟩
  | emit e g v => exact ⟨hs, ⟨rfl, rfl, rfl, rfl, rfl⟩, rfl, rfl, rfl, rfl, ho⟩
  | bump d => exact ⟨hs, ⟨rfl, rfl, rfl, rfl, rfl⟩, rfl, rfl, rfl, rfl, ho⟩

/-- **Simulation lifts to programs**, for every fuel: scripts keep the relation with the same
    stack; a loop keeps it with an advanced innermost position. -/
theorem execRL_sim (ok : SimOK M₁.toMachine M₂.toMachine Sim) (okR : ReviveOK M₁ M₂ Sim) (P : Prog) (n : Nat) :
    (∀ (K : Stack α₁ π₁ α₂ π₂) (as : List Action) (r₁ : Run σ₁) (r₂ : Run σ₂), RunRel Sim K r₁ r₂ →
        RunRel Sim K (execRL M₁ P n r₁ (.acts as)) (execRL M₂ P n r₂ (.acts as))) ∧
    (∀ (K : Stack α₁ π₁ α₂ π₂) (a : α₁) (p : π₁) (b : α₂) (q : π₂) (v : Arg) (r₁ : Run σ₁) (r₂ : Run σ₂),
        RunRel Sim (((a, p), (b, q)) :: K) r₁ r₂ →
        ∃ p' q', RunRel Sim (((a, p'), (b, q')) :: K) (execRL M₁ P n r₁ (.loop a p v)) (execRL M₂ P n r₂ (.loop b q v))) := by
  induction n with
  | zero =>
    constructor
    · intro K as r₁ r₂ h
      rw [execRL_zero, execRL_zero]
      exact ⟨h.sim, h.vars, h.inv, h.log, h.bad₁, h.bad₂, fun hh => by simp at hh⟩
    · intro K a p b q v r₁ r₂ h
      rw [execRL_zero, execRL_zero]
      exact ⟨p, q, h.sim, h.vars, h.inv, h.log, h.bad₁, h.bad₂, fun hh => by simp at hh⟩
  | succ n ih =>
    obtain ⟨ihA, ihL⟩ := ih
    constructor
    · intro K as r₁ r₂ h
      cases as with
      | nil => exact h
      | cons a as =>
        by_cases hem : ∃ e g v, a = .emit e g v
        · obtain ⟨e, g, v, rfl⟩ := hem
          rw [execRL_acts_emit, execRL_acts_emit]
          apply ihA K as _ _
          obtain ⟨hs, ⟨hv1, hv2, hv3, hv4, hv5⟩, hi, hl, hb1, hb2, ho⟩ := h
          cases r₁
          cases r₂
          simp only at hs hv1 hv2 hv3 hv4 hv5 hi hl hb1 hb2 ho
          subst hv1 hv2 hv3 hv4 hv5 hi hl hb1 hb2
          simp only [← ok.aliveE _ hs]
          split
          · rename_i c
            have hb := ok.begin _ g hs c
            rename_i m1 emId _ _ _ _ _ _ _ m2 _
            rcases h1 : M₁.begin (emId e) g m1 with ⟨m1', o1⟩
            rcases h2 : M₂.begin (emId e) g m2 with ⟨s1, o2⟩
            rw [h1, h2] at hb
            cases o1 with
            | none =>
              cases o2 with
              | none => exact ⟨hb, ⟨rfl, rfl, rfl, rfl, rfl⟩, rfl, rfl, rfl, rfl, ho⟩
              | some bq =>
                obtain ⟨b, q⟩ := bq
                obtain ⟨hd, hs'⟩ := hb
                simp only [Run.mark] at hd hs' ⊢
                cases n with
                | zero =>
                  simp only [execRL_zero]
                  exact ⟨hs', ⟨rfl, rfl, rfl, rfl, rfl⟩, rfl, rfl, rfl, rfl, fun hh => by simp at hh⟩
                | succ n =>
                  simp only [execRL_loop, hd]
                  exact ⟨hs', ⟨rfl, rfl, rfl, rfl, rfl⟩, rfl, rfl, rfl, rfl, ho⟩
            | some ap =>
              cases o2 with
              | none => exact absurd hb (by simp [BeginRel])
              | some bq =>
                obtain ⟨a, p⟩ := ap
                obtain ⟨b, q⟩ := bq
                simp only [Run.mark]
                obtain ⟨p', q', hr⟩ := ihL K a p b q ⟨v, P.ref g⟩ _ _
                  (⟨hb, ⟨rfl, rfl, rfl, rfl, rfl⟩, rfl, rfl, rfl, rfl, ho⟩ : RunRel Sim (((a, p), (b, q)) :: K)
                    { m := m1', emId := emId, lId := _, lIdx := _, nextE := _, nextL := _, inv := _, log := _, bad := false, oof := _ }
                    { m := s1, emId := emId, lId := _, lIdx := _, nextE := _, nextL := _, inv := _, log := _, bad := false, oof := _ })
                exact ⟨ok.finish hr.sim, hr.vars, hr.inv, by simp only [hr.log], hr.bad₁, hr.bad₂, hr.oof⟩
          · exact ⟨hs, ⟨rfl, rfl, rfl, rfl, rfl⟩, rfl, rfl, rfl, rfl, ho⟩
        · have hne : ∀ e g v, a ≠ .emit e g v := fun e g v he => hem ⟨e, g, v, he⟩
          rw [execRL_acts_prim _ _ _ _ _ _ hne, execRL_acts_prim _ _ _ _ _ _ hne]
          exact ihA K as _ _ (primRL_sim ok okR a h)
    · intro K a p b q v r₁ r₂ h
      rw [execRL_loop, execRL_loop]
      have hn := ok.next h.sim
      cases h1 : M₁.next r₁.m a p with
      | done =>
        cases h2 : M₂.next r₂.m b q with
        | done => exact ⟨p, q, h⟩
        | call l x q' => rw [h1, h2] at hn; exact absurd hn (by simp [StepRel])
        | fault => rw [h1, h2] at hn; exact absurd hn (by simp [StepRel])
      | fault => rw [h1] at hn; cases h2 : M₂.next r₂.m b q <;> (rw [h2] at hn; exact absurd hn (by simp [StepRel]))
      | call l x p' =>
        cases h2 : M₂.next r₂.m b q with
        | done => rw [h1, h2] at hn; exact absurd hn (by simp [StepRel])
        | fault => rw [h1, h2] at hn; exact absurd hn (by simp [StepRel])
        | call l' x' q' =>
          rw [h1, h2] at hn
          obtain ⟨rfl, rfl, hal, hs⟩ := hn
          simp only
          rw [← ok.aliveL l h.sim, hal]
          simp only [if_true]
          have hen : RunRel Sim (((a, p'), (b, q')) :: K) (r₁.enter (r₁.lIdx l) x v.val) (r₂.enter (r₁.lIdx l) x v.val) :=
            ⟨hs, h.vars, by simp only [Run.enter, h.inv], by simp only [Run.enter, h.log], h.bad₁, h.bad₂, h.oof⟩
          have hsc := ihA _ (P.script (r₁.lIdx l) x (r₁.inv (r₁.lIdx l) x)) _ _ hen
          rw [← h.inv, ← h.vars.2.2.1]
          refine ihL K a p' b q' _ _ _ ?_
          cases v.ref
          · exact hsc
          · exact ⟨hsc.sim, hsc.vars, hsc.inv, by simp only [Run.markIf, Run.mark, if_true, hsc.log], hsc.bad₁, hsc.bad₂, hsc.oof⟩

end simRL
end Nstd.Callback
