import Nstd.Callback.LemmasEnd
/-
  Obligation `SimOK.connect`.
-/
namespace Nstd.Callback
open Spec

theorem liveNode_append (xs : List Slot) (y : Slot) (u : Nat) :
    liveNode (xs ++ [y]) u = (liveNode xs u || (y.node == u && y.state != .disconnected)) := by
  simp [liveNode, List.any_append]

/-- appending an entry that is not `connected` and whose node is new keeps the loop invariant -/
theorem LI_append {xs : List Slot} {idx : Nat} {snap : List Nat} {y : Slot}
    (hy : y.state ≠ .connected) (hn : ∀ u ∈ snap, u ≠ y.node) (h : LI xs idx snap) : LI (xs ++ [y]) idx snap := by
  unfold LI at h ⊢
  have h1 : snap.filter (liveNode (xs ++ [y])) = snap.filter (liveNode xs) := by
    apply List.filter_congr
    intro u hu
    rw [liveNode_append]
    have : (y.node == u) = false := by
      have := hn u hu
      simp only [beq_eq_false_iff_ne, ne_eq]
      exact fun hh => this hh.symm
    simp [this]
  rw [h1, h, List.drop_append]
  have h2 : ([y].drop (idx - xs.length)).filter (fun x => x.state == .connected) = [] := by
    cases (idx - xs.length) with
    | zero => simp [hy]
    | succ k => simp
  rw [List.filter_append, h2, List.append_nil]

theorem liveSlots_append (xs : List Slot) (y : Slot) (hy : y.state ≠ .disconnected) :
    liveSlots (xs ++ [y]) = liveSlots xs ++ [y] := by
  simp [liveSlots, List.filter_append, hy]

theorem sim_connect {m : State} {s : SState} {K : MStack} (e g l x : Nat) (h : Sim m s K)
    (hae : machine.aliveE m e = true) (hal : machine.aliveL m l = true) :
    Sim (machine.connect e g l x m) (Spec.machine.connect e g l x s) K := by
  simp only [machine] at hae hal
  cases hem : m.emitters e with
  | none => rw [hem] at hae; simp at hae
  | some em =>
  cases hli : m.listeners l with
  | none => rw [hli] at hal; simp at hal
  | some li =>
  have halive : (m.emitters e).isSome = true := by simp [hem]
  -- the data found or inserted
  have key : ∀ d0 : SignalData, (m.data e g = some d0 ∨ (m.data e g = none ∧ d0 = SignalData.empty)) →
      Sim ((({ m with nextNode := m.nextNode + 1 } : State).setEmitter e (some (em.setSig g
          { d0 with slots := d0.slots ++ [({ receiver := l, object := l, slot := x, node := m.nextNode,
                                             state := if d0.activation.isSome then .connecting else .connected } : Slot)],
                    dirty := d0.dirty || d0.activation.isSome }))).setListener l
            (some (li.setSigs e (li.sigs e ++ [(g, x)]))))
        (Spec.connect e g l x s) K := by
    intro d0 hd0
    generalize hsl : ({ receiver := l, object := l, slot := x, node := m.nextNode,
                        state := if d0.activation.isSome then .connecting else .connected } : Slot) = sl
    have hslr : sl.receiver = l := by rw [← hsl]
    have hslo : sl.object = l := by rw [← hsl]
    have hsls : sl.slot = x := by rw [← hsl]
    have hsln : sl.node = m.nextNode := by rw [← hsl]
    have hslst : sl.state = if d0.activation.isSome then .connecting else .connected := by rw [← hsl]
    have hslnd : sl.state ≠ .disconnected := by
      rw [hslst]; by_cases c : d0.activation.isSome = true <;> simp [c]
    -- facts about d0
    have hcnt0 : m.data e g = none → countFrames m.frames (e, g) = 0 := by
      intro hdn
      apply Classical.byContradiction
      intro hne
      obtain ⟨f, hf, hfd⟩ := countFrames_pos hne
      have := h.f.hasData f hf (by rw [hfd]; exact halive)
      rw [hfd, hdn] at this
      simp at this
    have hA : d0.activation = topOf m.frames (e, g) := by
      rcases hd0 with hd0 | ⟨hd0, rfl⟩
      · exact h.f.act e g d0 hd0
      · rw [topOf_none_iff.2 (hcnt0 hd0)]; rfl
    have hclean : d0.activation = none → d0.dirty = false := by
      rcases hd0 with hd0 | ⟨_, rfl⟩
      · exact h.sl.clean e g d0 hd0
      · intro _; rfl
    have hallc : d0.dirty = false → ∀ y ∈ d0.slots, y.state = .connected := by
      rcases hd0 with hd0 | ⟨_, rfl⟩
      · exact h.sl.allConn e g d0 hd0
      · intro _ y hy; simp [SignalData.empty] at hy
    have hsorted : Sorted d0.slots := by
      rcases hd0 with hd0 | ⟨_, rfl⟩
      · exact h.sl.sorted e g d0 hd0
      · exact List.Pairwise.nil
    have hbnd : ∀ y ∈ d0.slots, y.node < m.nextNode := by
      rcases hd0 with hd0 | ⟨_, rfl⟩
      · exact h.sl.bound e g d0 hd0
      · intro y hy; simp [SignalData.empty] at hy
    have hobj : ∀ y ∈ d0.slots, y.object = y.receiver := by
      rcases hd0 with hd0 | ⟨_, rfl⟩
      · exact h.sl.obj e g d0 hd0
      · intro y hy; simp [SignalData.empty] at hy
    have hrecv0 : ∀ y ∈ d0.slots, y.state ≠ .disconnected → (m.listeners y.receiver).isSome := by
      rcases hd0 with hd0 | ⟨_, rfl⟩
      · exact h.b.recv e g d0 hd0
      · intro y hy; simp [SignalData.empty] at hy
    have hcount0 : ∀ l' li' s', m.listeners l' = some li' →
        (li'.sigs e).count (g, s') = d0.slots.countP (fun y => y.isMatch l' s') := by
      intro l' li' s' hl'
      have := h.b.count l' li' e g s' hl'
      rcases hd0 with hd0 | ⟨hd0, rfl⟩
      · rw [hd0] at this; exact this
      · rw [hd0] at this; simpa [SignalData.empty] using this
    have hlive0 : (s.sig e g).live = (liveSlots d0.slots).map Slot.toConn := by
      rw [h.abs.live]
      rcases hd0 with hd0 | ⟨hd0, rfl⟩
      · rw [hd0]; rfl
      · rw [hd0]; rfl
    have hborn0 : ∀ t, (s.sig e g).outerStart = some t → ∀ y ∈ d0.slots, y.state ≠ .disconnected →
        (y.state = .connected ↔ y.node < t) := by
      intro t ht
      rcases hd0 with hd0 | ⟨_, rfl⟩
      · exact h.abs.born e g d0 t hd0 ht
      · intro y hy; simp [SignalData.empty] at hy
    have hsame0 : ∀ d, m.data e g = some d → d = d0 := by
      intro d hd
      rcases hd0 with hd0 | ⟨hd0, _⟩
      · rw [hd0] at hd; cases hd; rfl
      · rw [hd0] at hd; cases hd
    have hactsome : countFrames m.frames (e, g) ≠ 0 → d0.activation.isSome = true := by
      intro hne
      rw [hA]
      cases htop : topOf m.frames (e, g) with
      | none => exact absurd (topOf_none_iff.1 htop) hne
      | some _ => rfl
    -- the new state
    generalize hd' : ({ d0 with slots := d0.slots ++ [sl], dirty := d0.dirty || d0.activation.isSome } : SignalData) = d'
    have hd'a : d'.activation = d0.activation := by rw [← hd']
    have hd's : d'.slots = d0.slots ++ [sl] := by rw [← hd']
    have hd'd : d'.dirty = (d0.dirty || d0.activation.isSome) := by rw [← hd']
    have hdata' : ∀ e' g', (((({ m with nextNode := m.nextNode + 1 } : State).setEmitter e (some (em.setSig g d'))).setListener l
        (some (li.setSigs e (li.sigs e ++ [(g, x)])))).data e' g') = if e' = e ∧ g' = g then some d' else m.data e' g' :=
      fun e' g' => data_put (st := { m with nextNode := m.nextNode + 1 }) d' hem e' g'
    have hems' : ∀ e', (((({ m with nextNode := m.nextNode + 1 } : State).setEmitter e (some (em.setSig g d'))).setListener l
        (some (li.setSigs e (li.sigs e ++ [(g, x)])))).emitters e').isSome = (m.emitters e').isSome :=
      fun e' => isSome_put (m0 := { m with nextNode := m.nextNode + 1 }) hem e'
    have hkeys := ekeys_put (m0 := { m with nextNode := m.nextNode + 1 }) (d' := d') (g := g) h.b hem rfl
    have hlis' : ∀ l', (((({ m with nextNode := m.nextNode + 1 } : State).setEmitter e (some (em.setSig g d'))).setListener l
        (some (li.setSigs e (li.sigs e ++ [(g, x)])))).listeners l') =
        if l' = l then some (li.setSigs e (li.sigs e ++ [(g, x)])) else m.listeners l' := fun l' => rfl
    have hfr' : (((({ m with nextNode := m.nextNode + 1 } : State).setEmitter e (some (em.setSig g d'))).setListener l
        (some (li.setSigs e (li.sigs e ++ [(g, x)])))).frames) = m.frames := rfl
    have hnn' : (((({ m with nextNode := m.nextNode + 1 } : State).setEmitter e (some (em.setSig g d'))).setListener l
        (some (li.setSigs e (li.sigs e ++ [(g, x)])))).nextNode) = m.nextNode + 1 := rfl
    have hfa' : (((({ m with nextNode := m.nextNode + 1 } : State).setEmitter e (some (em.setSig g d'))).setListener l
        (some (li.setSigs e (li.sigs e ++ [(g, x)])))).fault) = m.fault := rfl
    have hkeys' : ∀ e' em' g', (((({ m with nextNode := m.nextNode + 1 } : State).setEmitter e (some (em.setSig g d'))).setListener l
        (some (li.setSigs e (li.sigs e ++ [(g, x)])))).emitters e') = some em' → (em'.sig g').isSome → g' ∈ em'.sigKeys := hkeys
    clear hkeys
    generalize ((({ m with nextNode := m.nextNode + 1 } : State).setEmitter e (some (em.setSig g d'))).setListener l
        (some (li.setSigs e (li.sigs e ++ [(g, x)])))) = m' at hdata' hems' hkeys' hlis' hfr' hnn' hfa' ⊢
    have hnone : ∀ e', m'.emitters e' = none ↔ m.emitters e' = none := by
      intro e'
      have := hems' e'
      cases h1 : m'.emitters e' <;> cases h2 : m.emitters e' <;> simp [h1, h2] at this ⊢
    have hlmono : ∀ l', (m.listeners l').isSome → (m'.listeners l').isSome := by
      intro l' hl'
      rw [hlis']
      by_cases c : l' = l
      · simp [c]
      · simp only [c, if_false]; exact hl'
    have hsub : ∀ e' g' d'', m'.data e' g' = some d'' → ¬ (e' = e ∧ g' = g) → m.data e' g' = some d'' := by
      intro e' g' d'' hd'' c
      rw [hdata'] at hd''
      simpa only [c, if_false] using hd''
    refine ⟨by rw [hfa']; exact h.nofault, ⟨?_, ?_, ?_, ?_, ?_⟩, ?_, ⟨?_, ?_, hkeys', ?_⟩, ⟨?_, ?_, ?_, ?_, ?_, ?_, ?_, ?_⟩, ?_⟩
    · rw [hfr']; exact h.f.links
    · intro e' g' d'' hd''
      rw [hfr']
      by_cases c : e' = e ∧ g' = g
      · obtain ⟨rfl, rfl⟩ := c
        rw [hdata'] at hd''
        simp only [and_self, if_true, Option.some.injEq] at hd''
        subst hd''
        rw [hd'a, hA]
      · exact h.f.act e' g' d'' (hsub e' g' d'' hd'' c)
    · intro f' hf' hal'
      rw [hfr'] at hf'
      rw [hems'] at hal'
      rw [hdata']
      by_cases c : f'.data.1 = e ∧ f'.data.2 = g
      · simp [c]
      · simp only [c, if_false]; exact h.f.hasData f' hf' hal'
    · intro f' hf' hi
      rw [hfr'] at hf'
      exact (hnone _).2 (h.f.invDead f' hf' hi)
    · intro e' g' i he' htop
      rw [hfr'] at htop ⊢
      exact h.f.deadInv e' g' i ((hnone e').1 he') htop
    · -- SInv
      apply sinv_put h.sl hdata' (by rw [hnn']; omega)
      · intro ha
        rw [hd'a] at ha
        rw [hd'd, hclean ha, ha]; rfl
      · intro hdirty y hy
        rw [hd'd] at hdirty
        simp only [Bool.or_eq_false_iff] at hdirty
        rw [hd's] at hy
        rcases List.mem_append.1 hy with hy | hy
        · exact hallc hdirty.1 y hy
        · simp only [List.mem_singleton] at hy
          subst hy
          rw [hslst, hdirty.2]; rfl
      · rw [hd's]
        unfold Sorted
        rw [List.pairwise_append]
        refine ⟨hsorted, List.pairwise_singleton _ _, ?_⟩
        intro a ha b hb
        simp only [List.mem_singleton] at hb
        subst hb
        rw [hsln]; exact hbnd a ha
      · intro y hy
        rw [hd's] at hy
        rw [hnn']
        rcases List.mem_append.1 hy with hy | hy
        · have := hbnd y hy; omega
        · simp only [List.mem_singleton] at hy
          subst hy; rw [hsln]; omega
      · intro y hy
        rw [hd's] at hy
        rcases List.mem_append.1 hy with hy | hy
        · exact hobj y hy
        · simp only [List.mem_singleton] at hy
          subst hy; rw [hslo, hslr]
    · -- recv
      intro e' g' d'' hd'' y hy hnd
      by_cases c : e' = e ∧ g' = g
      · rw [hdata'] at hd''
        simp only [c, and_self, if_true, Option.some.injEq] at hd''
        subst hd''
        rw [hd's] at hy
        rcases List.mem_append.1 hy with hy | hy
        · exact hlmono _ (hrecv0 y hy hnd)
        · simp only [List.mem_singleton] at hy
          subst hy
          rw [hslr, hlis']; simp
      · exact hlmono _ (h.b.recv e' g' d'' (hsub e' g' d'' hd'' c) y hy hnd)
    · -- count
      intro l' li' e' g' s' hl'
      rw [hlis'] at hl'
      rw [hdata']
      by_cases cl : l' = l
      · subst cl
        simp only [if_true, Option.some.injEq] at hl'
        subst hl'
        simp only [Listener.setSigs]
        by_cases ce : e' = e
        · subst ce
          simp only [if_true, true_and, List.count_append]
          by_cases cg : g' = g
          · subst cg
            simp only [if_true]
            rw [hd's, List.countP_append, hcount0 l' li s' hli]
            simp only [List.countP_singleton, Slot.isMatch, hslr, hsls, beq_self_eq_true, Bool.true_and,
              List.count_singleton, beq_iff_eq, Prod.mk.injEq, true_and]
            have : (sl.state != SlotState.disconnected) = true := by simpa using hslnd
            simp only [this, Bool.and_true]
            by_cases cx : x = s'
            · simp [cx]
            · have : ¬ s' = x := fun hh => cx hh.symm
              simp [cx, this]
          · simp only [cg, if_false]
            rw [← h.b.count l' li e' g' s' hli]
            have : ¬ ((g, x) = (g', s')) := by
              intro hh; simp only [Prod.mk.injEq] at hh; exact cg hh.1.symm
            simp [List.count_singleton, this]
        · simp only [ce, if_false, false_and]
          exact h.b.count l' li e' g' s' hli
      · simp only [cl, if_false] at hl'
        by_cases c : e' = e ∧ g' = g
        · obtain ⟨rfl, rfl⟩ := c
          simp only [and_self, if_true]
          rw [hd's, List.countP_append, hcount0 l' li' s' hl']
          have : sl.isMatch l' s' = false := by
            simp only [Slot.isMatch, hslr]
            have : (l == l') = false := by simp; exact fun hh => cl hh.symm
            simp [this]
          simp [List.countP_singleton, this]
        · simp only [c, if_false]
          exact h.b.count l' li' e' g' s' hl'
    · -- lkeys
      intro l' li' e' hl' hne
      rw [hlis'] at hl'
      by_cases cl : l' = l
      · subst cl
        simp only [if_true, Option.some.injEq] at hl'
        subst hl'
        simp only [Listener.setSigs] at hne ⊢
        by_cases ce : e' = e
        · subst ce
          by_cases ck : e' ∈ li.emKeys
          · simp [ck]
          · simp [ck]
        · simp only [ce, if_false] at hne
          have := h.b.lkeys l' li e' hli hne
          by_cases ck : e ∈ li.emKeys
          · simp [ck, this]
          · simp [ck, this]
      · simp only [cl, if_false] at hl'
        exact h.b.lkeys l' li' e' hl' hne
    · rw [hnn']; show s.clock + 1 = _; rw [h.abs.clock]
    · intro e'; rw [hems']; exact h.abs.eAlive e'
    · intro l'
      show s.lAlive l' = _
      rw [hlis', h.abs.lAlive]
      by_cases c : l' = l
      · subst c; simp [hli]
      · simp [c]
    · intro e' g'
      rw [hdata']
      simp only [Spec.connect, SState.setSig]
      by_cases c : e' = e ∧ g' = g
      · obtain ⟨rfl, rfl⟩ := c
        simp only [and_self, if_true, liveOf]
        rw [hd's, liveSlots_append _ _ hslnd, List.map_append, hlive0]
        simp [Slot.toConn, hsln, hslr, hsls, h.abs.clock]
      · simp only [c, if_false]; exact h.abs.live e' g'
    · intro e' g' hal'
      rw [hems'] at hal'
      rw [hfr']
      simp only [Spec.connect, SState.setSig]
      by_cases c : e' = e ∧ g' = g
      · obtain ⟨rfl, rfl⟩ := c
        simp only [and_self, if_true]; exact h.abs.depth e' g' hal'
      · simp only [c, if_false]; exact h.abs.depth e' g' hal'
    · intro e' g' hal'
      rw [hems'] at hal'
      rw [hfr']
      simp only [Spec.connect, SState.setSig]
      by_cases c : e' = e ∧ g' = g
      · obtain ⟨rfl, rfl⟩ := c
        simp only [and_self, if_true]; exact h.abs.outer e' g' hal'
      · simp only [c, if_false]; exact h.abs.outer e' g' hal'
    · intro e' g' d'' t hd'' ht y hy hnd
      simp only [Spec.connect, SState.setSig] at ht
      by_cases c : e' = e ∧ g' = g
      · obtain ⟨rfl, rfl⟩ := c
        simp only [and_self, if_true] at ht
        rw [hdata'] at hd''
        simp only [and_self, if_true, Option.some.injEq] at hd''
        subst hd''
        rw [hd's] at hy
        rcases List.mem_append.1 hy with hy | hy
        · exact hborn0 t ht y hy hnd
        · simp only [List.mem_singleton] at hy
          subst hy
          have hle := h.abs.startLe e' g' t ht
          rw [h.abs.clock] at hle
          have hcnt : countFrames m.frames (e', g') ≠ 0 := by
            intro h0
            have := (h.abs.outer e' g' halive).2 h0
            rw [this] at ht; cases ht
          rw [hslst, hactsome hcnt, hsln]
          simp only [if_true]
          constructor
          · intro hh; cases hh
          · intro hh; omega
      · simp only [c, if_false] at ht
        exact h.abs.born e' g' d'' t (hsub e' g' d'' hd'' c) ht y hy hnd
    · intro e' g' t ht
      simp only [Spec.connect, SState.setSig] at ht
      show t ≤ s.clock + 1
      by_cases c : e' = e ∧ g' = g
      · obtain ⟨rfl, rfl⟩ := c
        simp only [and_self, if_true] at ht
        have := h.abs.startLe e' g' t ht; omega
      · simp only [c, if_false] at ht
        have := h.abs.startLe e' g' t ht; omega
    · rw [hfr']
      apply cursors_mono (m := m) (by rw [hnn']; omega) _ h.cur
      intro e' g' d'' hmem hal' hd''
      rw [hems'] at hal'
      refine ⟨hal', ?_⟩
      by_cases c : e' = e ∧ g' = g
      · obtain ⟨rfl, rfl⟩ := c
        rw [hdata'] at hd''
        simp only [and_self, if_true, Option.some.injEq] at hd''
        subst hd''
        have hc0 : countFrames m.frames (e', g') ≠ 0 := by
          simp only [List.mem_map] at hmem
          obtain ⟨f', hf', hfd'⟩ := hmem
          exact countFrames_ne_zero_of_mem hf' hfd'
        have hdsome : ∃ d, m.data e' g' = some d := by
          cases hx : m.data e' g' with
          | none => exact absurd (hcnt0 hx) hc0
          | some d => exact ⟨d, rfl⟩
        obtain ⟨d, hd⟩ := hdsome
        have := hsame0 d hd
        subst this
        refine ⟨d, hd, ?_⟩
        intro pos snap hsnap hLI
        rw [hd's]
        cases pos with
        | none => exact hLI
        | some idx =>
          apply LI_append (xs := d.slots) (idx := idx) _ _ hLI
          · rw [hslst, hactsome hc0]; simp
          · intro u hu; rw [hsln]; have := hsnap u hu; omega
      · exact ⟨d'', hsub e' g' d'' hd'' c, fun _ _ _ hh => hh⟩
  simp only [machine, Spec.machine, connect, hem, hli]
  cases hsg : em.sig g with
  | none =>
    have hdn : m.data e g = none := by simp [State.data, hem, hsg]
    exact key SignalData.empty (Or.inr ⟨hdn, rfl⟩)
  | some d =>
    have hdd : m.data e g = some d := by simp [State.data, hem, hsg]
    exact key d (Or.inl hdd)

end Nstd.Callback
