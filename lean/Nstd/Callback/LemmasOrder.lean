import Nstd.Callback.LemmasTop
/-
  The listener side in ORDER: `Ls` — the (signal, slot) list a listener stores under an emitter is,
  element by element, the listener's view `lsig` of the specification; `SpecInv` — that view holds
  exactly the live connections of the listener to the emitter, oldest first.  Both are carried along
  `Sim` through every primitive (`orderOK`), hence through every program.
-/
namespace Nstd.Callback
open Spec

/-! ### removing the first element that satisfies a predicate, in a list sorted by a key -/

theorem mem_rmFirst {α : Type} (p : α → Bool) (key : α → Nat) {L : List α}
    (hs : L.Pairwise (fun a b => key a < key b)) (b : α) :
    b ∈ rmFirst p L ↔ b ∈ L ∧ ¬ (p b = true ∧ ∀ c ∈ L, p c = true → key b ≤ key c) := by
  induction L with
  | nil => simp [rmFirst]
  | cons a as ih =>
    simp only [List.pairwise_cons] at hs
    simp only [rmFirst]
    by_cases hp : p a = true
    · simp only [hp, if_true]
      constructor
      · intro hb
        refine ⟨List.mem_cons_of_mem _ hb, ?_⟩
        rintro ⟨_, hmin⟩
        have := hmin a (List.mem_cons_self ..) hp
        have := hs.1 b hb
        omega
      · rintro ⟨hb, hn⟩
        rcases List.mem_cons.1 hb with rfl | hb
        · exfalso
          apply hn
          refine ⟨hp, ?_⟩
          intro c hc _
          rcases List.mem_cons.1 hc with rfl | hc
          · exact Nat.le_refl _
          · exact Nat.le_of_lt (hs.1 c hc)
        · exact hb
    · simp only [hp, Bool.false_eq_true, if_false, List.mem_cons]
      rw [ih hs.2]
      constructor
      · rintro (rfl | ⟨hb, hn⟩)
        · exact ⟨Or.inl rfl, fun hh => hp hh.1⟩
        · refine ⟨Or.inr hb, ?_⟩
          rintro ⟨hpb, hmin⟩
          exact hn ⟨hpb, fun c hc hpc => hmin c (Or.inr hc) hpc⟩
      · rintro ⟨hb, hn⟩
        rcases hb with rfl | hb
        · exact Or.inl rfl
        · refine Or.inr ⟨hb, ?_⟩
          rintro ⟨hpb, hmin⟩
          apply hn
          refine ⟨hpb, ?_⟩
          intro c hc hpc
          rcases hc with rfl | hc
          · exact absurd hpc hp
          · exact hmin c hc hpc

theorem rmFirst_sublist {α : Type} (p : α → Bool) (L : List α) : (rmFirst p L).Sublist L := by
  induction L with
  | nil => exact List.Sublist.slnil
  | cons a as ih =>
    simp only [rmFirst]
    by_cases hp : p a = true
    · simp only [hp, if_true]; exact List.sublist_cons_self a as
    · simp only [hp, Bool.false_eq_true, if_false]; exact ih.cons_cons a

theorem removeOldest_eq (l x : Nat) (L : List Conn) :
    removeOldest l x L = rmFirst (fun c => c.receiver == l && c.slot == x) L := by
  induction L with
  | nil => rfl
  | cons c cs ih =>
    simp only [removeOldest, rmFirst]
    by_cases h : c.receiver = l ∧ c.slot = x
    · simp [h]
    · have : (c.receiver == l && c.slot == x) = false := by
        simp only [Bool.and_eq_false_imp, beq_iff_eq, beq_eq_false_iff_ne, ne_eq]
        exact fun h1 h2 => h ⟨h1, h2⟩
      simp only [h, if_false, this, Bool.false_eq_true, ih]

theorem map_rmFirst_erase (g x : Nat) (L : List (Nat × Nat × Nat)) :
    (rmFirst (fun t => t.2.1 == g && t.2.2 == x) L).map (·.2) = (L.map (·.2)).erase (g, x) := by
  induction L with
  | nil => rfl
  | cons t ts ih =>
    simp only [rmFirst, List.map_cons, List.erase_cons]
    by_cases h : t.2 = (g, x)
    · have h1 : t.2.1 = g := by rw [h]
      have h2 : t.2.2 = x := by rw [h]
      simp [h, h1, h2]
    · have hb : (t.2 == (g, x)) = false := by simpa using h
      have hp : (t.2.1 == g && t.2.2 == x) = false := by
        simp only [Bool.and_eq_false_imp, beq_iff_eq, beq_eq_false_iff_ne, ne_eq]
        intro h1 h2
        exact h (Prod.ext h1 h2)
      simp only [hb, hp, Bool.false_eq_true, if_false, List.map_cons, ih]

/-! ### the relations -/

/-- the listener-side lists are the specification's views, in order -/
def Ls (m : State) (s : SState) : Prop :=
  ∀ l li e, m.listeners l = some li → li.sigs e = (s.lsig l e).map (·.2)

/-- the view holds exactly the live connections, oldest first -/
structure SpecInv (s : SState) : Prop where
  mem : ∀ l e u g x, (u, g, x) ∈ s.lsig l e ↔ ({ uid := u, receiver := l, slot := x } : Conn) ∈ (s.sig e g).live
  sorted : ∀ l e, (s.lsig l e).Pairwise (fun a b => a.1 < b.1)

structure SimO (m : State) (s : SState) (K : MStack) : Prop where
  sim : Sim m s K
  ls : Ls m s
  inv : SpecInv s

/-! ### what the model primitives do to the listener table -/

theorem dropSlot_listeners (l e : Nat) (m : State) (p : Nat × Nat) : (dropSlot l e m p).listeners = m.listeners := by
  simp only [dropSlot]
  split
  · rfl
  · split <;> rfl

theorem foldl_dropSlot_listeners (l e : Nat) (ps : List (Nat × Nat)) (m : State) :
    (ps.foldl (dropSlot l e) m).listeners = m.listeners := by
  induction ps generalizing m with
  | nil => rfl
  | cons p ps ih => simp only [List.foldl_cons, ih, dropSlot_listeners]

theorem outer_listeners (l : Nat) (li : Listener) (es : List Nat) (m : State) :
    (es.foldl (fun st e => (li.sigs e).foldl (dropSlot l e) st) m).listeners = m.listeners := by
  induction es generalizing m with
  | nil => rfl
  | cons e es ih => simp only [List.foldl_cons, ih, foldl_dropSlot_listeners]

theorem actBegin_listeners (e g : Nat) (m : State) : (actBegin e g m).1.listeners = m.listeners := by
  simp only [actBegin]
  split
  · rfl
  · split <;> rfl

theorem invalidate_listeners (m : State) (a : Nat) : (invalidate m a).listeners = m.listeners := by
  simp only [invalidate]
  cases frameAt m.frames a <;> rfl

theorem actEnd_listeners (fid : Nat) (m : State) : (actEnd fid m).listeners = m.listeners := by
  simp only [actEnd]
  cases frameAt m.frames fid with
  | none => rfl
  | some f =>
    simp only
    by_cases hi : f.invalidated = true
    · simp only [hi, Bool.not_true, Bool.false_eq_true, if_false]
      cases f.next with
      | none => rfl
      | some n => exact invalidate_listeners _ n
    · have hi' : f.invalidated = false := by simpa using hi
      simp only [hi', Bool.not_false, if_true]
      split
      · rfl
      · split <;> rfl

/-- `~Emitter` leaves the lists stored under other emitters alone -/
def SameOther (e : Nat) (st st' : State) : Prop :=
  ∀ l', match st.listeners l', st'.listeners l' with
    | some li, some li' => ∀ e', e' ≠ e → li'.sigs e' = li.sigs e'
    | none, none => True
    | _, _ => False

theorem SameOther.refl (e : Nat) (st : State) : SameOther e st st := by
  intro l'; cases st.listeners l' <;> simp

theorem SameOther.trans {e : Nat} {a b c : State} (h1 : SameOther e a b) (h2 : SameOther e b c) : SameOther e a c := by
  intro l'
  have x := h1 l'
  have y := h2 l'
  cases ha : a.listeners l' <;> cases hb : b.listeners l' <;> cases hc : c.listeners l' <;>
    rw [ha, hb] at x <;> rw [hb, hc] at y <;> simp at x y ⊢
  intro e' he'
  rw [y e' he', x e' he']

theorem dropSignal_other (e g : Nat) (st : State) (y : Slot) : SameOther e st (dropSignal e g st y) := by
  simp only [dropSignal]
  by_cases hd : y.state = .disconnected
  · simp only [hd, if_true]; exact SameOther.refl e st
  · simp only [hd, if_false]
    cases hr : st.listeners y.receiver with
    | none => exact SameOther.refl e st
    | some lir =>
      intro l'
      simp only [State.setListener]
      by_cases c : l' = y.receiver
      · subst c
        rw [hr, if_pos rfl]
        intro e' he'
        simp [he']
      · rw [if_neg c]
        cases st.listeners l' <;> simp

theorem foldl_dropSignal_other (e g : Nat) (xs : List Slot) (st : State) :
    SameOther e st (xs.foldl (dropSignal e g) st) := by
  induction xs generalizing st with
  | nil => exact SameOther.refl e st
  | cons x xs ih => exact (dropSignal_other e g st x).trans (ih _)

theorem invalidate_other (e : Nat) (st : State) (a : Nat) : SameOther e st (invalidate st a) := by
  intro l'
  rw [invalidate_listeners]
  cases st.listeners l' <;> simp

theorem delEmitterSig_other (e : Nat) (em : Emitter) (st : State) (g : Nat) :
    SameOther e st (delEmitterSig e em st g) := by
  simp only [delEmitterSig]
  cases em.sig g with
  | none => exact SameOther.refl e st
  | some d =>
    simp only
    cases d.activation with
    | none => exact foldl_dropSignal_other e g d.slots st
    | some a => exact (invalidate_other e st a).trans (foldl_dropSignal_other e g d.slots _)

theorem foldl_sig_other (e : Nat) (em : Emitter) (gs : List Nat) (st : State) :
    SameOther e st (gs.foldl (delEmitterSig e em) st) := by
  induction gs generalizing st with
  | nil => exact SameOther.refl e st
  | cons g gs ih => exact (delEmitterSig_other e em st g).trans (ih _)

/-! ### the obligations -/

theorem live_facts {m : State} {s : SState} {K : MStack} (h : Sim m s K) (e g : Nat) :
    (s.sig e g).live.Pairwise (fun a b => a.uid < b.uid) ∧ ∀ c ∈ (s.sig e g).live, c.uid < s.clock := by
  rw [h.abs.live, h.abs.clock]
  cases hd : m.data e g with
  | none => simp [liveOf]
  | some d =>
    simp only [liveOf]
    have hs := h.sl.sorted e g d hd
    have hb := h.sl.bound e g d hd
    constructor
    · rw [List.pairwise_map]
      exact List.Pairwise.sublist (List.filter_sublist) hs
    · intro c hc
      simp only [liveSlots, List.mem_map, List.mem_filter] at hc
      obtain ⟨x, ⟨hx, _⟩, rfl⟩ := hc
      exact hb x hx

theorem order_connect {m : State} {s : SState} {K : MStack} (e g l x : Nat) (h : SimO m s K)
    (he : machine.aliveE m e = true) (hl : machine.aliveL m l = true) :
    SimO (machine.connect e g l x m) (Spec.machine.connect e g l x s) K := by
  refine ⟨sim_connect e g l x h.sim he hl, ?_, ?_, ?_⟩
  · -- Ls
    simp only [machine] at he hl
    cases hem : m.emitters e with
    | none => rw [hem] at he; simp at he
    | some em =>
    cases hli : m.listeners l with
    | none => rw [hli] at hl; simp at hl
    | some li =>
    intro l' li' e' hl'
    simp only [machine, connect, hem, hli, State.setListener, State.setEmitter] at hl'
    simp only [Spec.machine, Spec.connect]
    by_cases c : l' = l
    · subst c
      simp only [if_true, Option.some.injEq] at hl'
      subst hl'
      simp only [Listener.setSigs]
      by_cases ce : e' = e
      · subst ce
        simp only [if_true, and_self, List.map_append, List.map_cons, List.map_nil]
        rw [h.ls l' li e' hli]
      · simp only [ce, if_false, and_false]
        exact h.ls l' li e' hli
    · simp only [c, if_false, false_and] at hl' ⊢
      exact h.ls l' li' e' hl'
  · -- mem
    intro l' e' u g' x'
    simp only [Spec.machine, Spec.connect, SState.setSig]
    by_cases c1 : l' = l ∧ e' = e
    · obtain ⟨rfl, rfl⟩ := c1
      simp only [and_self, if_true, List.mem_append, List.mem_singleton, Prod.mk.injEq, true_and]
      by_cases cg : g' = g
      · subst cg
        simp only [if_true, List.mem_append, List.mem_singleton, Conn.mk.injEq, true_and]
        rw [h.inv.mem]
      · simp only [cg, if_false, false_and, and_false, or_false]
        rw [h.inv.mem]
    · simp only [c1, if_false]
      by_cases c2 : e' = e ∧ g' = g
      · obtain ⟨rfl, rfl⟩ := c2
        simp only [and_self, if_true, List.mem_append, List.mem_singleton, Conn.mk.injEq]
        rw [h.inv.mem]
        have : ¬ l' = l := fun hh => c1 ⟨hh, rfl⟩
        simp [this]
      · simp only [c2, if_false]
        exact h.inv.mem l' e' u g' x'
  · -- sorted
    intro l' e'
    simp only [Spec.machine, Spec.connect]
    by_cases c1 : l' = l ∧ e' = e
    · obtain ⟨rfl, rfl⟩ := c1
      simp only [and_self, if_true]
      rw [List.pairwise_append]
      refine ⟨h.inv.sorted l' e', List.pairwise_singleton _ _, ?_⟩
      intro a ha b hb
      simp only [List.mem_singleton] at hb
      subst hb
      obtain ⟨u, g', x'⟩ := a
      have := (h.inv.mem l' e' u g' x').1 ha
      exact (live_facts h.sim e' g').2 _ this
    · simp only [c1, if_false]; exact h.inv.sorted l' e'

theorem order_disconnect {m : State} {s : SState} {K : MStack} (e g l x : Nat) (h : SimO m s K)
    (he : machine.aliveE m e = true) (hl : machine.aliveL m l = true) :
    SimO (machine.disconnect e g l x m) (Spec.machine.disconnect e g l x s) K := by
  have hsorted := h.inv.sorted l e
  have hlive := live_facts h.sim e g
  refine ⟨sim_disconnect e g l x h.sim he hl, ?_, ?_, ?_⟩
  · simp only [machine] at he hl
    cases hem : m.emitters e with
    | none => rw [hem] at he; simp at he
    | some em =>
    cases hli : m.listeners l with
    | none => rw [hli] at hl; simp at hl
    | some li =>
    intro l' li' e' hl'
    simp only [Spec.machine, Spec.disconnect]
    simp only [machine, disconnect, hem, hli] at hl'
    cases hsg : em.sig g with
    | none =>
      -- nothing stored for the signal: the pair is not in the list, the view loses nothing
      rw [hsg] at hl'
      simp only at hl'
      by_cases c : l' = l ∧ e' = e
      · obtain ⟨rfl, rfl⟩ := c
        rw [hli] at hl'; cases hl'
        simp only [and_self, if_true, map_rmFirst_erase, ← h.ls l' li e' hli]
        have hcnt := h.sim.b.count l' li e' g x hli
        have hdn : m.data e' g = none := by simp [State.data, hem, hsg]
        rw [hdn] at hcnt
        have : (g, x) ∉ li.sigs e' := List.count_eq_zero.1 hcnt
        rw [List.erase_of_not_mem this]
      · simp only [c, if_false]; exact h.ls l' li' e' hl'
    | some d =>
      rw [hsg] at hl'
      simp only [State.setListener, State.setEmitter] at hl'
      by_cases c : l' = l
      · subst c
        simp only [if_true, Option.some.injEq] at hl'
        subst hl'
        by_cases ce : e' = e
        · subst ce
          simp only [if_true, and_self, map_rmFirst_erase, ← h.ls l' li e' hli]
        · simp only [ce, if_false, and_false]; exact h.ls l' li e' hli
      · simp only [c, if_false, false_and] at hl' ⊢
        exact h.ls l' li' e' hl'
  · -- mem
    intro l' e' u g' x'
    simp only [Spec.machine, Spec.disconnect, SState.setSig]
    by_cases c1 : l' = l ∧ e' = e
    · obtain ⟨rfl, rfl⟩ := c1
      simp only [and_self, if_true]
      rw [mem_rmFirst _ (fun t => t.1) hsorted]
      by_cases cg : g' = g
      · subst cg
        simp only [and_self, if_true, removeOldest_eq]
        rw [mem_rmFirst _ (fun (c : Conn) => c.uid) hlive.1, h.inv.mem]
        apply and_congr_right
        intro _
        apply not_congr
        simp only [Bool.and_eq_true, beq_iff_eq, true_and]
        apply and_congr_right
        intro _
        constructor
        · intro hmin c hc hpc
          have hc' : ({ uid := c.uid, receiver := l', slot := c.slot } : Conn) ∈ (s.sig e' g').live := by
            have : c = { uid := c.uid, receiver := l', slot := c.slot } := by
              cases c; simp only [Conn.mk.injEq, true_and, and_true]; exact hpc.1
            rw [← this]; exact hc
          exact hmin (c.uid, g', c.slot) ((h.inv.mem l' e' c.uid g' c.slot).2 hc') ⟨rfl, hpc.2⟩
        · intro hmin t ht hpt
          obtain ⟨u', g'', x''⟩ := t
          simp only at hpt
          obtain ⟨rfl, rfl⟩ := hpt
          exact hmin _ ((h.inv.mem l' e' u' g'' x'').1 ht) ⟨rfl, rfl⟩
      · simp only [cg, if_false, and_false]
        rw [h.inv.mem]
        constructor
        · exact fun hh => hh.1
        · intro hh
          refine ⟨hh, ?_⟩
          simp only [Bool.and_eq_true, beq_iff_eq]
          exact fun hp => cg hp.1.1
    · simp only [c1, if_false]
      by_cases c2 : e' = e ∧ g' = g
      · obtain ⟨rfl, rfl⟩ := c2
        simp only [and_self, if_true, removeOldest_eq]
        rw [mem_rmFirst _ (fun (c : Conn) => c.uid) hlive.1, h.inv.mem]
        constructor
        · intro hh
          refine ⟨hh, ?_⟩
          simp only [Bool.and_eq_true, beq_iff_eq]
          exact fun hp => c1 ⟨hp.1.1, rfl⟩
        · exact fun hh => hh.1
      · simp only [c2, if_false]
        exact h.inv.mem l' e' u g' x'
  · intro l' e'
    simp only [Spec.machine, Spec.disconnect]
    by_cases c1 : l' = l ∧ e' = e
    · obtain ⟨rfl, rfl⟩ := c1
      simp only [and_self, if_true]
      exact List.Pairwise.sublist (rmFirst_sublist _ _) hsorted
    · simp only [c1, if_false]; exact h.inv.sorted l' e'

theorem order_delL {m : State} {s : SState} {K : MStack} (l : Nat) (h : SimO m s K)
    (hl : machine.aliveL m l = true) : SimO (machine.delL l m) (Spec.machine.delL l s) K := by
  refine ⟨sim_delL l h.sim hl, ?_, ?_, ?_⟩
  · simp only [machine] at hl
    cases hli : m.listeners l with
    | none => rw [hli] at hl; simp at hl
    | some li =>
    intro l' li' e' hl'
    simp only [machine, delListener, hli, State.setListener] at hl'
    simp only [Spec.machine, Spec.delL]
    by_cases c : l' = l
    · simp [c] at hl'
    · simp only [c, if_false] at hl' ⊢
      rw [outer_listeners] at hl'
      exact h.ls l' li' e' hl'
  · intro l' e' u g' x'
    simp only [Spec.machine, Spec.delL, List.mem_filter]
    by_cases c : l' = l
    · subst c; simp
    · simp only [c, if_false]
      rw [h.inv.mem]
      simp [c]
  · intro l' e'
    simp only [Spec.machine, Spec.delL]
    by_cases c : l' = l
    · simp [c]
    · simp only [c, if_false]; exact h.inv.sorted l' e'

theorem order_delE {m : State} {s : SState} {K : MStack} (e : Nat) (h : SimO m s K)
    (he : machine.aliveE m e = true) : SimO (machine.delE e m) (Spec.machine.delE e s) K := by
  have hsim := sim_delE e h.sim he
  refine ⟨hsim, ?_, ?_, ?_⟩
  · simp only [machine] at he
    cases hem : m.emitters e with
    | none => rw [hem] at he; simp at he
    | some em =>
    intro l' li' e' hl'
    simp only [Spec.machine, Spec.delE]
    by_cases c : e' = e
    · subst c
      simp only [if_true, List.map_nil]
      -- nothing is stored under a destroyed emitter
      apply eq_nil_of_count_zero
      intro a
      have := hsim.b.count l' li' e' a.1 a.2 hl'
      have hd : (machine.delE e' m).data e' a.1 = none := by
        simp [machine, delEmitter, hem, State.data, State.setEmitter]
      rw [hd] at this
      exact this
    · simp only [c, if_false]
      have hso := foldl_sig_other e em em.sigKeys m l'
      simp only [machine, delEmitter, hem, State.setEmitter] at hl'
      rw [hl'] at hso
      cases hli : m.listeners l' with
      | none => rw [hli] at hso; simp at hso
      | some li =>
        rw [hli] at hso
        rw [hso e' c]
        exact h.ls l' li e' hli
  · intro l' e' u g' x'
    simp only [Spec.machine, Spec.delE]
    by_cases c : e' = e
    · simp [c, Sig.empty]
    · simp only [c, if_false]; exact h.inv.mem l' e' u g' x'
  · intro l' e'
    simp only [Spec.machine, Spec.delE]
    by_cases c : e' = e
    · simp [c]
    · simp only [c, if_false]; exact h.inv.sorted l' e'

theorem specInv_setSig {s : SState} (h : SpecInv s) (e g : Nat) (x : Sig) (hx : x.live = (s.sig e g).live) :
    SpecInv (s.setSig e g x) := by
  refine ⟨?_, h.sorted⟩
  intro l' e' u g' x'
  simp only [SState.setSig]
  by_cases c : e' = e ∧ g' = g
  · obtain ⟨rfl, rfl⟩ := c
    simp only [and_self, if_true, hx]
    exact h.mem l' e' u g' x'
  · simp only [c, if_false]; exact h.mem l' e' u g' x'

theorem orderOK : SimOK machine Spec.machine SimO where
  aliveE := fun e h => simOK.aliveE e h.sim
  aliveL := fun l h => simOK.aliveL l h.sim
  connect := fun e g l x h he hl => order_connect e g l x h he hl
  disconnect := fun e g l x h he hl => order_disconnect e g l x h he hl
  delL := fun l h hl => order_delL l h hl
  delE := fun e h he => order_delE e h he
  next := by
    intro m s a p b q K h
    have hn := sim_next h.sim
    cases h1 : machine.next m a p with
    | done =>
      cases h2 : Spec.machine.next s b q with
      | done => trivial
      | call _ _ _ => rw [h1, h2] at hn; exact absurd hn (by simp [StepRel])
      | fault => rw [h1, h2] at hn; exact absurd hn (by simp [StepRel])
    | fault => rw [h1] at hn; cases h2 : Spec.machine.next s b q <;> (rw [h2] at hn; exact absurd hn (by simp [StepRel]))
    | call l x p' =>
      cases h2 : Spec.machine.next s b q with
      | done => rw [h1, h2] at hn; exact absurd hn (by simp [StepRel])
      | fault => rw [h1, h2] at hn; exact absurd hn (by simp [StepRel])
      | call l' x' q' =>
        rw [h1, h2] at hn
        obtain ⟨e1, e2, e3, e4⟩ := hn
        exact ⟨e1, e2, e3, e4, h.ls, h.inv⟩
  finish := by
    intro m s a p b q K h
    refine ⟨sim_finish h.sim, ?_, ?_⟩
    · intro l li e hl
      have hl' : m.listeners l = some li := by rw [← actEnd_listeners a m]; exact hl
      have : (Spec.machine.finish b s).lsig = s.lsig := by
        simp only [Spec.machine, Spec.finish]
        split <;> rfl
      rw [this]; exact h.ls l li e hl'
    · simp only [Spec.machine, Spec.finish]
      split
      · exact specInv_setSig h.inv _ _ _ rfl
      · exact h.inv
  begin := by
    intro m s K e g h he
    have hb := sim_begin e g h.sim he
    have hls : ∀ l li e', (machine.begin e g m).1.listeners l = some li →
        li.sigs e' = ((Spec.machine.begin e g s).1.lsig l e').map (·.2) := by
      intro l li e' hl
      have hl' : m.listeners l = some li := by rw [← actBegin_listeners e g m]; exact hl
      exact h.ls l li e' hl'
    have hinv : SpecInv (Spec.machine.begin e g s).1 := specInv_setSig h.inv _ _ _ rfl
    rcases h1 : machine.begin e g m with ⟨m1, o1⟩
    rcases h2 : Spec.machine.begin e g s with ⟨s1, o2⟩
    rw [h1, h2] at hb
    rw [h1, h2] at hls
    rw [h2] at hinv
    simp only at hls hinv
    cases o1 with
    | none =>
      cases o2 with
      | none => exact ⟨hb, hls, hinv⟩
      | some bq =>
        refine ⟨hb.1, hb.2, ?_, ?_⟩
        · intro l li e' hl
          have : (Spec.machine.finish bq.1 s1).lsig = s1.lsig := by
            simp only [Spec.machine, Spec.finish]
            split <;> rfl
          rw [this]; exact hls l li e' hl
        · simp only [Spec.machine, Spec.finish]
          split
          · exact specInv_setSig hinv _ _ _ rfl
          · exact hinv
    | some ap =>
      cases o2 with
      | none => exact absurd hb (by simp [BeginRel])
      | some bq => exact ⟨hb, hls, hinv⟩

theorem runOps_relO (P : Prog) (fuel : Nat) (ops : List Action) {r₁ : Run State} {r₂ : Run SState}
    (h : RunRel SimO [] r₁ r₂) : RunRel SimO [] (runOps machine P fuel r₁ ops) (runOps Spec.machine P fuel r₂ ops) := by
  induction ops generalizing r₁ r₂ with
  | nil => exact h
  | cons a as ih => exact ih ((exec_sim orderOK P fuel).1 [] [a] r₁ r₂ h)

theorem simO_init : SimO State.fresh SState.fresh [] :=
  ⟨sim_init, fun l li e hl => by
      simp only [State.fresh, Option.some.injEq] at hl
      subst hl; rfl,
    ⟨fun l e u g x => by simp [SState.fresh, Sig.empty], fun l e => List.Pairwise.nil⟩⟩

end Nstd.Callback
