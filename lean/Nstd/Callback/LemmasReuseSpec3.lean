import Nstd.Callback.LemmasReuseSpec2
/-
  The evaluator level: `execRL Spec.machineRL` (specification with listener reuse) against `exec Spec.machine`.
-/
set_option linter.unusedSimpArgs false
set_option linter.unusedVariables false
namespace Nstd.Callback
open Spec

/-- the action names listener variables the harness has (`li[i]`, i < nl) -/
def Action.lvarOK (nl : Nat) : Action → Prop
  | .connect _ _ l _ => l < nl
  | .disconnect _ _ l _ => l < nl
  | .delL l => l < nl
  | .newL l => l < nl
  | _ => True

def Prog.lvarOK (nl : Nat) (P : Prog) : Prop := ∀ l s k, ∀ a ∈ P.script l s k, a.lvarOK nl

/-- the run of the specification WITH listener reuse (`r'`) against the run WITHOUT (`r`) -/
structure SpecRel (nl : Nat) (r' r : Run SState) : Prop where
  sq : SQ nl r.lId r.lIdx r.nextL r'.m r.m
  emId : r'.emId = r.emId
  nextE : r'.nextE = r.nextE
  lId' : ∀ i, r'.lId i = i
  lIdx' : ∀ i, r'.lIdx i = i
  inv : r'.inv = r.inv
  log : r'.log = r.log
  bad : r'.bad = r.bad
  oof : r'.oof = r.oof

variable {nl : Nat}

theorem specrel_prim {r' r : Run SState} (a : Action) (ha : a.lvarOK nl) (h : SpecRel nl r' r) :
    SpecRel nl (r'.primRL Spec.machineRL a) (r.prim Spec.machine a) := by
  obtain ⟨hsq, h1, h2, h3, h4, h5, h6, h7, h8⟩ := h
  cases r' with
  | mk m' emId' lId' lIdx' nextE' nextL' inv' log' bad' oof' =>
  cases r with
  | mk m emId lId lIdx nextE nextL inv log bad oof =>
  simp only at hsq h1 h2 h3 h4 h5 h6 h7 h8
  subst h1 h2 h5 h6 h7 h8
  cases a with
  | connect e g l x =>
    have hl : l < nl := ha
    simp only [Run.primRL, Run.prim, Spec.machineRL, Spec.machine, h3 l, hsq.eAlive, hsq.lAlive l hl]
    by_cases c : (m.eAlive (emId' e) && m.lAlive (lId l)) = true
    · simp only [c, if_true]
      simp only [Bool.and_eq_true] at c
      exact ⟨sq_connect hsq _ g l x hl c.2, rfl, rfl, h3, h4, rfl, rfl, rfl, rfl⟩
    · simp only [c, if_false]
      exact ⟨hsq, rfl, rfl, h3, h4, rfl, rfl, rfl, rfl⟩
  | disconnect e g l x =>
    have hl : l < nl := ha
    simp only [Run.primRL, Run.prim, Spec.machineRL, Spec.machine, h3 l, hsq.eAlive, hsq.lAlive l hl]
    by_cases c : (m.eAlive (emId' e) && m.lAlive (lId l)) = true
    · simp only [c, if_true]
      exact ⟨sq_disconnect hsq _ g l x hl, rfl, rfl, h3, h4, rfl, rfl, rfl, rfl⟩
    · simp only [c, if_false]
      exact ⟨hsq, rfl, rfl, h3, h4, rfl, rfl, rfl, rfl⟩
  | delL l =>
    have hl : l < nl := ha
    simp only [Run.primRL, Run.prim, Spec.machineRL, Spec.machine, h3 l, hsq.lAlive l hl]
    by_cases c : m.lAlive (lId l) = true
    · simp only [c, if_true]
      exact ⟨sq_delL hsq l hl, rfl, rfl, h3, h4, rfl, rfl, rfl, rfl⟩
    · simp only [c, if_false]
      exact ⟨hsq, rfl, rfl, h3, h4, rfl, rfl, rfl, rfl⟩
  | delE e =>
    simp only [Run.primRL, Run.prim, Spec.machineRL, Spec.machine, hsq.eAlive]
    by_cases c : m.eAlive (emId' e) = true
    · simp only [c, if_true]
      exact ⟨sq_delE hsq _, rfl, rfl, h3, h4, rfl, rfl, rfl, rfl⟩
    · simp only [c, if_false]
      exact ⟨hsq, rfl, rfl, h3, h4, rfl, rfl, rfl, rfl⟩
  | newL l =>
    have hl : l < nl := ha
    simp only [Run.primRL, Run.prim, Spec.machineRL, Spec.machine, h3 l, hsq.lAlive l hl]
    by_cases c : m.lAlive (lId l) = true
    · simp only [c, if_true]
      exact ⟨hsq, rfl, rfl, h3, h4, rfl, rfl, rfl, rfl⟩
    · simp only [c, if_false]
      have hd : m.lAlive (lId l) = false := by simpa using c
      exact ⟨sq_newL hsq l hl hd, rfl, rfl, h3, h4, rfl, rfl, rfl, rfl⟩
  | newE e =>
    simp only [Run.primRL, Run.prim, Spec.machineRL, Spec.machine, hsq.eAlive]
    by_cases c : m.eAlive (emId' e) = true
    · simp only [c, if_true]
      exact ⟨hsq, rfl, rfl, h3, h4, rfl, rfl, rfl, rfl⟩
    · simp only [c, if_false]
      exact ⟨hsq, rfl, rfl, h3, h4, rfl, rfl, rfl, rfl⟩
  | emit e g v => exact ⟨hsq, rfl, rfl, h3, h4, rfl, rfl, rfl, rfl⟩
  | bump d => exact ⟨hsq, rfl, rfl, h3, h4, rfl, rfl, rfl, rfl⟩

theorem specrel_mark {r' r : Run SState} (h : SpecRel nl r' r) (ev : Ev) : SpecRel nl (r'.mark ev) (r.mark ev) :=
  ⟨h.sq, h.emId, h.nextE, h.lId', h.lIdx', h.inv, by simp only [Run.mark, h.log], h.bad, h.oof⟩

theorem specrel_oof {r' r : Run SState} (h : SpecRel nl r' r) : SpecRel nl { r' with oof := true } { r with oof := true } :=
  ⟨h.sq, h.emId, h.nextE, h.lId', h.lIdx', h.inv, h.log, h.bad, rfl⟩

/-- **The specification with listener reuse runs as the specification without**, for every program that names the listener
    variables the harness has: scripts and loops keep the relation. -/
theorem execRL_spec (P : Prog) (hP : P.lvarOK nl) (n : Nat) :
    (∀ (as : List Action) (r' r : Run SState), (∀ a ∈ as, a.lvarOK nl) → SpecRel nl r' r →
        SpecRel nl (execRL Spec.machineRL P n r' (.acts as)) (exec Spec.machine P n r (.acts as))) ∧
    (∀ (a : Nat × Nat) (p : List Nat) (v : Arg) (r' r : Run SState), SpecRel nl r' r →
        SpecRel nl (execRL Spec.machineRL P n r' (.loop a p v)) (exec Spec.machine P n r (.loop a p v))) := by
  induction n with
  | zero =>
    constructor
    · intro as r' r _ h
      rw [execRL_zero, exec_zero]; exact specrel_oof h
    · intro a p v r' r h
      rw [execRL_zero, exec_zero]; exact specrel_oof h
  | succ n ih =>
    obtain ⟨ihA, ihL⟩ := ih
    constructor
    · intro as r' r hwf h
      cases as with
      | nil => exact h
      | cons a as =>
        have hwf' : ∀ a ∈ as, a.lvarOK nl := fun b hb => hwf b (List.mem_cons_of_mem _ hb)
        by_cases hem : ∃ e g v, a = .emit e g v
        · obtain ⟨e, g, v, rfl⟩ := hem
          rw [execRL_acts_emit, exec_acts_emit]
          apply ihA as _ _ hwf'
          have hal : Spec.machineRL.aliveE r'.m (r'.emId e) = Spec.machine.aliveE r.m (r.emId e) := by
            simp only [Spec.machineRL, Spec.machine, h.emId, h.sq.eAlive]
          rw [hal]
          by_cases c : Spec.machine.aliveE r.m (r.emId e) = true
          · simp only [c, if_true]
            have hb := sq_begin h.sq (r.emId e) g
            have e1 : Spec.machineRL.begin (r'.emId e) g r'.m = Spec.begin (r.emId e) g r'.m := by
              simp only [Spec.machineRL, Spec.machine, h.emId]
            have e2 : Spec.machine.begin (r.emId e) g r.m = Spec.begin (r.emId e) g r.m := rfl
            rw [e1, e2]
            have hpos : ∃ sn, (Spec.begin (r.emId e) g r.m).2 = some ((r.emId e, g), sn) := ⟨_, rfl⟩
            obtain ⟨sn, hsn⟩ := hpos
            rcases hx : Spec.begin (r.emId e) g r.m with ⟨m1, o1⟩
            rcases hy : Spec.begin (r.emId e) g r'.m with ⟨m1', o1'⟩
            rw [hx, hy] at hb
            rw [hx] at hsn
            simp only at hb hsn
            obtain ⟨hb1, hb2⟩ := hb
            subst hsn
            subst hb1
            simp only
            have h0 : SpecRel nl ({ r' with m := m1' }.mark (.emitBegin e g v)) ({ r with m := m1 }.mark (.emitBegin e g v)) :=
              specrel_mark (⟨hb2, h.emId, h.nextE, h.lId', h.lIdx', h.inv, h.log, h.bad, h.oof⟩ :
                SpecRel nl { r' with m := m1' } { r with m := m1 }) _
            have hl := ihL (r.emId e, g) sn ⟨v, P.ref g⟩ _ _ h0
            have e3 : Spec.machineRL.finish = Spec.finish := rfl
            have e4 : Spec.machine.finish = Spec.finish := rfl
            rw [e3, e4]
            exact specrel_mark (r' := { (execRL Spec.machineRL P n ({ r' with m := m1' }.mark (.emitBegin e g v)) (.loop (r.emId e, g) sn ⟨v, P.ref g⟩)) with
                  m := Spec.finish (r.emId e, g) (execRL Spec.machineRL P n ({ r' with m := m1' }.mark (.emitBegin e g v)) (.loop (r.emId e, g) sn ⟨v, P.ref g⟩)).m })
              (r := { (exec Spec.machine P n ({ r with m := m1 }.mark (.emitBegin e g v)) (.loop (r.emId e, g) sn ⟨v, P.ref g⟩)) with
                  m := Spec.finish (r.emId e, g) (exec Spec.machine P n ({ r with m := m1 }.mark (.emitBegin e g v)) (.loop (r.emId e, g) sn ⟨v, P.ref g⟩)).m })
              ⟨sq_finish hl.sq _, hl.emId, hl.nextE, hl.lId', hl.lIdx', hl.inv, hl.log, hl.bad, hl.oof⟩ _
          · simp only [c, if_false, Bool.false_eq_true]
            exact h
        · have hne : ∀ e g v, a ≠ .emit e g v := fun e g v he => hem ⟨e, g, v, he⟩
          rw [execRL_acts_prim _ _ _ _ _ _ hne, exec_acts_prim _ _ _ _ _ _ hne]
          exact ihA as _ _ hwf' (specrel_prim a (hwf a (List.mem_cons_self ..)) h)
    · intro a p v r' r h
      rw [execRL_loop, exec_loop]
      have e1 : Spec.machineRL.next = Spec.next := rfl
      have e2 : Spec.machine.next = Spec.next := rfl
      rw [e1, e2]
      rcases sq_next h.sq a p with ⟨h1, h2⟩ | ⟨c, rest, hc, h2, h1⟩
      · rw [h1, h2]; exact h
      · rw [h1, h2]
        simp only
        obtain ⟨hc1, hc2, hc3⟩ := h.sq.cur a.1 a.2 c hc
        have ha1 : Spec.machineRL.aliveL r'.m (r.lIdx c.receiver) = true := by
          simp only [Spec.machineRL, Spec.machine, h.sq.lAlive _ hc1, hc2, hc3]
        have ha2 : Spec.machine.aliveL r.m c.receiver = true := hc3
        rw [ha1, ha2]
        simp only [if_true, h.lIdx', h.inv]
        have hen : SpecRel nl (r'.enter (r.lIdx c.receiver) c.slot v.val) (r.enter (r.lIdx c.receiver) c.slot v.val) :=
          ⟨h.sq, h.emId, h.nextE, h.lId', h.lIdx', by simp only [Run.enter, h.inv], by simp only [Run.enter, h.log], h.bad, h.oof⟩
        have hsc := ihA (P.script (r.lIdx c.receiver) c.slot (r.inv (r.lIdx c.receiver) c.slot)) _ _ (hP _ _ _) hen
        apply ihL
        cases v.ref
        · exact hsc
        · exact specrel_mark hsc _

end Nstd.Callback
