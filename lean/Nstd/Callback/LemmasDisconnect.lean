import Nstd.Callback.LemmasUnlink
/-
  `SimL`: `Sim` in which the (signal, slot) pairs of one listener `l` are an explicit argument
  `todo` (the pairs `~Listener` has not processed yet / the list `disconnect` is about to
  update).  The step shared by `disconnect` and `~Listener` (`simL_unlink`), and obligation
  `SimOK.disconnect`.
-/
namespace Nstd.Callback
open Spec

structure BInvL (m : State) (l : Nat) (todo : Nat → List (Nat × Nat)) : Prop where
  recv : ∀ e g d, m.data e g = some d → ∀ x ∈ d.slots, x.state ≠ .disconnected → (m.listeners x.receiver).isSome
  count : ∀ l' li e g s, m.listeners l' = some li →
    (if l' = l then todo e else li.sigs e).count (g, s) = match m.data e g with
      | none => 0
      | some d => d.slots.countP (fun x => x.isMatch l' s)
  ekeys : ∀ e em g, m.emitters e = some em → (em.sig g).isSome → g ∈ em.sigKeys
  lkeys : ∀ l li e, m.listeners l = some li → li.sigs e ≠ [] → e ∈ li.emKeys

structure SimL (l : Nat) (todo : Nat → List (Nat × Nat)) (m : State) (s : SState) (K : MStack) : Prop where
  nofault : m.fault = false
  f : FInv m
  sl : SInv m
  b : BInvL m l todo
  abs : Abs m s
  cur : Cursors m K m.frames

theorem Sim.toL {m : State} {s : SState} {K : MStack} {l : Nat} {li : Listener} (h : Sim m s K)
    (hl : m.listeners l = some li) : SimL l li.sigs m s K := by
  refine ⟨h.nofault, h.f, h.sl, ⟨h.b.recv, ?_, h.b.ekeys, h.b.lkeys⟩, h.abs, h.cur⟩
  intro l' li' e g x hl'
  by_cases c : l' = l
  · subst c
    rw [hl] at hl'; cases hl'
    simp only [if_true]
    exact h.b.count l' li e g x hl
  · simp only [c, if_false]
    exact h.b.count l' li' e g x hl'

theorem unlinkOrMark_mem {d : SignalData} {l x : Nat} {y : Slot} (h : y ∈ (unlinkOrMark d l x).slots) :
    ∃ z ∈ d.slots, y.node = z.node ∧ y.receiver = z.receiver ∧ y.object = z.object ∧ y.slot = z.slot ∧
      (y = z ∨ y.state = .disconnected) := by
  simp only [unlinkOrMark] at h
  by_cases hm : hasMatch l x d.slots = true
  · simp only [hm, if_true] at h
    by_cases ha : d.activation.isSome = true
    · simp only [ha, if_true] at h; exact mem_markFirst h
    · simp only [ha, Bool.false_eq_true, if_false] at h
      exact ⟨y, (eraseFirst_sublist l x d.slots).subset h, rfl, rfl, rfl, rfl, Or.inl rfl⟩
  · simp only [hm, Bool.false_eq_true, if_false] at h
    exact ⟨y, h, rfl, rfl, rfl, rfl, Or.inl rfl⟩

theorem unlinkOrMark_sorted {d : SignalData} (l x : Nat) (h : Sorted d.slots) : Sorted (unlinkOrMark d l x).slots := by
  simp only [unlinkOrMark]
  by_cases hm : hasMatch l x d.slots = true
  · simp only [hm, if_true]
    by_cases ha : d.activation.isSome = true
    · simp only [ha, if_true]
      rw [sorted_iff, markFirst_nodes, ← sorted_iff]; exact h
    · simp only [ha, Bool.false_eq_true, if_false]
      exact List.Pairwise.sublist (eraseFirst_sublist l x d.slots) h
  · simp only [hm, Bool.false_eq_true, if_false]; exact h

theorem unlinkOrMark_activation (d : SignalData) (l x : Nat) : (unlinkOrMark d l x).activation = d.activation := by
  simp only [unlinkOrMark]
  by_cases hm : hasMatch l x d.slots = true
  · by_cases ha : d.activation.isSome = true <;> simp [hm, ha]
  · simp [hm]

theorem unlinkOrMark_slots_active (d : SignalData) (l x : Nat) (ha : d.activation.isSome = true) :
    (unlinkOrMark d l x).slots = markFirst l x d.slots := by
  simp only [unlinkOrMark]
  by_cases hm : hasMatch l x d.slots = true
  · simp [hm, ha]
  · simp only [hm, Bool.false_eq_true, if_false]
    exact (markFirst_of_no_match (by simpa using hm)).symm

/-- one step of the search-and-unlink loop on the emitter side, against one `disconnect` of
    the specification -/
theorem simL_unlink {m : State} {s : SState} {K : MStack} {l : Nat} {todo : Nat → List (Nat × Nat)}
    (e g x : Nat) (h : SimL l todo m s K) (halive : (m.emitters e).isSome = true) :
    SimL l (fun e' => if e' = e then (todo e).erase (g, x) else todo e') (dropSlot l e m (g, x))
      (Spec.disconnect e g l x s) K := by
  cases hem : m.emitters e with
  | none => rw [hem] at halive; simp at halive
  | some em =>
  simp only [dropSlot, hem]
  cases hsg : em.sig g with
  | none =>
    have hdn : m.data e g = none := by simp [State.data, hem, hsg]
    have hlive : (s.sig e g).live = [] := by rw [h.abs.live, hdn]; rfl
    show SimL l _ m (Spec.disconnect e g l x s) K
    refine ⟨h.nofault, h.f, h.sl, ⟨h.b.recv, ?_, h.b.ekeys, h.b.lkeys⟩, ?_, h.cur⟩
    · intro l' li e' g' s' hl'
      have := h.b.count l' li e' g' s' hl'
      by_cases cl : l' = l
      · simp only [cl, if_true] at this ⊢
        by_cases ce : e' = e
        · subst ce
          simp only [if_true]
          rw [List.count_erase, this]
          by_cases cg : g' = g
          · subst cg; rw [hdn]; simp
          · have : ((g, x) == (g', s')) = false := by
              simp only [beq_eq_false_iff_ne, ne_eq, Prod.mk.injEq, not_and]
              exact fun hh => absurd hh.symm cg
            simp [this]
        · simp only [ce, if_false]; exact this
      · simp only [cl, if_false] at this ⊢; exact this
    · apply abs_congr (s' := Spec.disconnect e g l x s) h.abs rfl (fun _ => rfl) (fun _ => rfl)
      intro e' g'
      simp only [Spec.disconnect, SState.setSig]
      by_cases c : e' = e ∧ g' = g
      · obtain ⟨rfl, rfl⟩ := c
        simp only [and_self, if_true, hlive, removeOldest]
        cases hx : s.sig e' g' with
        | mk lv os dp => rw [hx] at hlive; simp only at hlive; simp [hlive]
      · simp only [c, if_false]
  | some d =>
    have hdd : m.data e g = some d := by simp [State.data, hem, hsg]
    simp only
    generalize hd' : unlinkOrMark d l x = d'
    have hd'a : d'.activation = d.activation := by rw [← hd']; exact unlinkOrMark_activation d l x
    have hmem : ∀ y ∈ d'.slots, ∃ z ∈ d.slots, y.node = z.node ∧ y.receiver = z.receiver ∧ y.object = z.object ∧
        y.slot = z.slot ∧ (y = z ∨ y.state = .disconnected) := by
      intro y hy; rw [← hd'] at hy; exact unlinkOrMark_mem hy
    have hdata' : ∀ e' g', ((m.setEmitter e (some (em.setSig g d'))).data e' g') =
        if e' = e ∧ g' = g then some d' else m.data e' g' := fun e' g' => data_put d' hem e' g'
    have hems' : ∀ e', ((m.setEmitter e (some (em.setSig g d'))).emitters e').isSome = (m.emitters e').isSome :=
      fun e' => isSome_put hem e'
    have hkeys' : ∀ e' em' g', (m.setEmitter e (some (em.setSig g d'))).emitters e' = some em' →
        (em'.sig g').isSome → g' ∈ em'.sigKeys := by
      intro e' em' g' hem' hsg'
      simp only [State.setEmitter] at hem'
      by_cases c : e' = e
      · subst c
        simp only [if_true, Option.some.injEq] at hem'
        subst hem'
        exact setSig_keys g _ (fun g'' => h.b.ekeys e' em g'' hem) g' hsg'
      · simp only [c, if_false] at hem'
        exact h.b.ekeys e' em' g' hem' hsg'
    have hli' : (m.setEmitter e (some (em.setSig g d'))).listeners = m.listeners := rfl
    have hfr' : (m.setEmitter e (some (em.setSig g d'))).frames = m.frames := rfl
    have hnn' : (m.setEmitter e (some (em.setSig g d'))).nextNode = m.nextNode := rfl
    have hfa' : (m.setEmitter e (some (em.setSig g d'))).fault = m.fault := rfl
    generalize (m.setEmitter e (some (em.setSig g d'))) = m' at hdata' hems' hkeys' hli' hfr' hnn' hfa' ⊢
    have hnone : ∀ e', m'.emitters e' = none ↔ m.emitters e' = none := by
      intro e'
      have := hems' e'
      cases h1 : m'.emitters e' <;> cases h2 : m.emitters e' <;> simp [h1, h2] at this ⊢
    have hsub : ∀ e' g' d'', m'.data e' g' = some d'' → ¬ (e' = e ∧ g' = g) → m.data e' g' = some d'' := by
      intro e' g' d'' hd'' c
      rw [hdata'] at hd''
      simpa only [c, if_false] using hd''
    have hactsome : countFrames m.frames (e, g) ≠ 0 → d.activation.isSome = true := by
      intro hne
      rw [h.f.act e g d hdd]
      cases htop : topOf m.frames (e, g) with
      | none => exact absurd (topOf_none_iff.1 htop) hne
      | some _ => rfl
    refine ⟨by rw [hfa']; exact h.nofault, ⟨?_, ?_, ?_, ?_, ?_⟩, ?_, ⟨?_, ?_, hkeys', ?_⟩, ⟨?_, ?_, ?_, ?_, ?_, ?_, ?_, ?_⟩, ?_⟩
    · rw [hfr']; exact h.f.links
    · intro e' g' d'' hd''
      rw [hfr']
      by_cases c : e' = e ∧ g' = g
      · obtain ⟨rfl, rfl⟩ := c
        rw [hdata'] at hd''
        simp only [and_self, if_true, Option.some.injEq] at hd''
        subst hd''
        rw [hd'a]; exact h.f.act e' g' d hdd
      · exact h.f.act e' g' d'' (hsub e' g' d'' hd'' c)
    · intro f' hf' hal'
      rw [hfr'] at hf'
      rw [hems'] at hal'
      rw [hdata']
      by_cases c : f'.data.1 = e ∧ f'.data.2 = g
      · simp [c]
      · simp only [c, if_false]; exact h.f.hasData f' hf' hal'
    · intro f' hf' hi
      rw [hfr'] at hf'
      exact (hnone _).2 (h.f.invDead f' hf' hi)
    · intro e' g' i he' htop
      rw [hfr'] at htop ⊢
      exact h.f.deadInv e' g' i ((hnone e').1 he') htop
    · -- SInv
      apply sinv_put h.sl hdata' (Nat.le_of_eq hnn'.symm)
      · intro ha
        rw [hd'a] at ha
        have hdirty := h.sl.clean e g d hdd ha
        rw [← hd']
        simp only [unlinkOrMark]
        have : d.activation.isSome = false := by rw [ha]; rfl
        by_cases hm : hasMatch l x d.slots = true <;> simp [hm, this, hdirty]
      · intro hdirty y hy
        rw [← hd'] at hdirty hy
        simp only [unlinkOrMark] at hdirty hy
        by_cases hm : hasMatch l x d.slots = true
        · by_cases ha : d.activation.isSome = true
          · simp [hm, ha] at hdirty
          · simp only [hm, ha, if_true, Bool.false_eq_true, if_false] at hdirty hy
            exact h.sl.allConn e g d hdd hdirty y ((eraseFirst_sublist l x d.slots).subset hy)
        · simp only [hm, Bool.false_eq_true, if_false] at hdirty hy
          exact h.sl.allConn e g d hdd hdirty y hy
      · rw [← hd']; exact unlinkOrMark_sorted l x (h.sl.sorted e g d hdd)
      · intro y hy
        obtain ⟨z, hz, hn, _⟩ := hmem y hy
        rw [hnn', hn]; exact h.sl.bound e g d hdd z hz
      · intro y hy
        obtain ⟨z, hz, _, hr, ho, _⟩ := hmem y hy
        rw [ho, hr]; exact h.sl.obj e g d hdd z hz
    · -- recv
      intro e' g' d'' hd'' y hy hnd
      rw [hli']
      by_cases c : e' = e ∧ g' = g
      · rw [hdata'] at hd''
        simp only [c, and_self, if_true, Option.some.injEq] at hd''
        subst hd''
        obtain ⟨z, hz, _, _, _, _, hyz⟩ := hmem y hy
        rcases hyz with rfl | hyz
        · exact h.b.recv e g d hdd y hz hnd
        · exact absurd hyz hnd
      · exact h.b.recv e' g' d'' (hsub e' g' d'' hd'' c) y hy hnd
    · -- count
      intro l' li e' g' s' hl'
      rw [hli'] at hl'
      have hold := h.b.count l' li e' g' s' hl'
      rw [hdata']
      by_cases c : e' = e ∧ g' = g
      · obtain ⟨rfl, rfl⟩ := c
        rw [hdd] at hold
        simp only [and_self, if_true]
        rw [← hd', unlinkOrMark_countP]
        by_cases cl : l' = l
        · subst cl
          simp only [if_true, true_and] at hold ⊢
          rw [List.count_erase, hold]
          by_cases cx : s' = x
          · subst cx
            simp only [beq_self_eq_true, if_true, true_and]
            by_cases hm : hasMatch l' s' d.slots = true
            · simp [hm]
            · have h0 : ¬ 0 < d.slots.countP (fun y => y.isMatch l' s') := fun hh => hm ((hasMatch_iff_countP _ _ _).2 hh)
              simp only [hm, Bool.false_eq_true, if_false]
              omega
          · have : ((g', x) == (g', s')) = false := by
              simp only [beq_eq_false_iff_ne, ne_eq, Prod.mk.injEq, true_and]
              exact fun hh => cx hh.symm
            simp [this, cx]
        · simp only [cl, if_false, false_and] at hold ⊢
          rw [hold]; simp
      · simp only [c, if_false]
        by_cases cl : l' = l
        · simp only [cl, if_true] at hold ⊢
          by_cases ce : e' = e
          · subst ce
            simp only [if_true]
            have cg : ¬ g' = g := fun hh => c ⟨rfl, hh⟩
            have : ((g, x) == (g', s')) = false := by
              simp only [beq_eq_false_iff_ne, ne_eq, Prod.mk.injEq, not_and]
              exact fun hh => absurd hh.symm cg
            rw [List.count_erase, this]
            simpa using hold
          · simp only [ce, if_false]; exact hold
        · simp only [cl, if_false] at hold ⊢; exact hold
    · intro l' li' e' hl'; rw [hli'] at hl'; exact h.b.lkeys l' li' e' hl'
    · rw [hnn']; exact h.abs.clock
    · intro e'; rw [hems']; exact h.abs.eAlive e'
    · intro l'; rw [hli']; exact h.abs.lAlive l'
    · intro e' g'
      rw [hdata']
      simp only [Spec.disconnect, SState.setSig]
      by_cases c : e' = e ∧ g' = g
      · obtain ⟨rfl, rfl⟩ := c
        simp only [and_self, if_true]
        rw [← hd', unlinkOrMark_live, h.abs.live, hdd]
      · simp only [c, if_false]; exact h.abs.live e' g'
    · intro e' g' hal'
      rw [hems'] at hal'
      rw [hfr']
      simp only [Spec.disconnect, SState.setSig]
      by_cases c : e' = e ∧ g' = g
      · obtain ⟨rfl, rfl⟩ := c
        simp only [and_self, if_true]; exact h.abs.depth e' g' hal'
      · simp only [c, if_false]; exact h.abs.depth e' g' hal'
    · intro e' g' hal'
      rw [hems'] at hal'
      rw [hfr']
      simp only [Spec.disconnect, SState.setSig]
      by_cases c : e' = e ∧ g' = g
      · obtain ⟨rfl, rfl⟩ := c
        simp only [and_self, if_true]; exact h.abs.outer e' g' hal'
      · simp only [c, if_false]; exact h.abs.outer e' g' hal'
    · intro e' g' d'' t hd'' ht y hy hnd
      simp only [Spec.disconnect, SState.setSig] at ht
      by_cases c : e' = e ∧ g' = g
      · obtain ⟨rfl, rfl⟩ := c
        simp only [and_self, if_true] at ht
        rw [hdata'] at hd''
        simp only [and_self, if_true, Option.some.injEq] at hd''
        subst hd''
        obtain ⟨z, hz, _, _, _, _, hyz⟩ := hmem y hy
        rcases hyz with rfl | hyz
        · exact h.abs.born e' g' d t hdd ht y hz hnd
        · exact absurd hyz hnd
      · simp only [c, if_false] at ht
        exact h.abs.born e' g' d'' t (hsub e' g' d'' hd'' c) ht y hy hnd
    · intro e' g' t ht
      simp only [Spec.disconnect, SState.setSig] at ht
      show t ≤ s.clock
      by_cases c : e' = e ∧ g' = g
      · obtain ⟨rfl, rfl⟩ := c
        simp only [and_self, if_true] at ht
        exact h.abs.startLe e' g' t ht
      · simp only [c, if_false] at ht
        exact h.abs.startLe e' g' t ht
    · rw [hfr']
      apply cursors_mono (m := m) (Nat.le_of_eq hnn'.symm) _ h.cur
      intro e' g' d'' hmemf hal' hd''
      rw [hems'] at hal'
      refine ⟨hal', ?_⟩
      by_cases c : e' = e ∧ g' = g
      · obtain ⟨rfl, rfl⟩ := c
        rw [hdata'] at hd''
        simp only [and_self, if_true, Option.some.injEq] at hd''
        subst hd''
        have hc0 : countFrames m.frames (e', g') ≠ 0 := by
          simp only [List.mem_map] at hmemf
          obtain ⟨f', hf', hfd'⟩ := hmemf
          exact countFrames_ne_zero_of_mem hf' hfd'
        refine ⟨d, hdd, ?_⟩
        intro pos snap _ hLI
        rw [← hd', unlinkOrMark_slots_active d l x (hactsome hc0)]
        cases pos with
        | none => exact hLI
        | some idx => exact LI_markFirst (idx := idx) l x (h.sl.sorted e' g' d hdd) hLI
      · exact ⟨d'', hsub e' g' d'' hd'' c, fun _ _ _ hh => hh⟩

/-- the pairs `todo` become the stored list of listener `l` -/
theorem simL_install {m : State} {s : SState} {K : MStack} {l : Nat} {todo : Nat → List (Nat × Nat)} {li : Listener}
    (h : SimL l todo m s K) (hl : m.listeners l = some li) (hk : ∀ e, todo e ≠ [] → e ∈ li.emKeys) :
    Sim (m.setListener l (some { li with sigs := todo })) s K := by
  have hlis : ∀ l', (m.setListener l (some { li with sigs := todo })).listeners l' =
      if l' = l then some { li with sigs := todo } else m.listeners l' := fun l' => rfl
  have hsome : ∀ l', ((m.setListener l (some { li with sigs := todo })).listeners l').isSome = (m.listeners l').isSome := by
    intro l'
    rw [hlis]
    by_cases c : l' = l
    · subst c; simp [hl]
    · simp [c]
  refine ⟨h.nofault, ⟨h.f.links, h.f.act, h.f.hasData, h.f.invDead, h.f.deadInv⟩,
    ⟨h.sl.clean, h.sl.allConn, h.sl.sorted, h.sl.bound, h.sl.obj⟩, ⟨?_, ?_, h.b.ekeys, ?_⟩,
    ⟨h.abs.clock, h.abs.eAlive, ?_, h.abs.live, h.abs.depth, h.abs.outer, h.abs.born, h.abs.startLe⟩, ?_⟩
  · intro e g d hd y hy hnd
    rw [hsome]
    exact h.b.recv e g d hd y hy hnd
  · intro l' li' e g x hl'
    rw [hlis] at hl'
    by_cases c : l' = l
    · subst c
      simp only [if_true, Option.some.injEq] at hl'
      subst hl'
      have := h.b.count l' li e g x hl
      simp only [if_true] at this
      exact this
    · simp only [c, if_false] at hl'
      have := h.b.count l' li' e g x hl'
      simp only [c, if_false] at this
      exact this
  · intro l' li' e hl' hne
    rw [hlis] at hl'
    by_cases c : l' = l
    · subst c
      simp only [if_true, Option.some.injEq] at hl'
      subst hl'
      exact hk e hne
    · simp only [c, if_false] at hl'
      exact h.b.lkeys l' li' e hl' hne
  · intro l'; rw [hsome]; exact h.abs.lAlive l'
  · exact cursors_mono (m := m) (Nat.le_refl _) (fun e' g' d' _ hal hd' => ⟨hal, d', hd', fun _ _ _ hh => hh⟩) h.cur

/-- obligation `SimOK.disconnect` -/
theorem sim_disconnect {m : State} {s : SState} {K : MStack} (e g l x : Nat) (h : Sim m s K)
    (hae : machine.aliveE m e = true) (hal : machine.aliveL m l = true) :
    Sim (machine.disconnect e g l x m) (Spec.machine.disconnect e g l x s) K := by
  simp only [machine] at hae hal
  cases hem : m.emitters e with
  | none => rw [hem] at hae; simp at hae
  | some em =>
  cases hli : m.listeners l with
  | none => rw [hli] at hal; simp at hal
  | some li =>
  have hstep := simL_unlink e g x (h.toL hli) hae
  simp only [machine, Spec.machine, disconnect, hem, hli]
  simp only [dropSlot, hem] at hstep
  cases hsg : em.sig g with
  | none =>
    -- no data for the signal: `disconnect` returns at once
    rw [hsg] at hstep
    simp only at hstep ⊢
    refine ⟨hstep.nofault, hstep.f, hstep.sl, ⟨hstep.b.recv, ?_, hstep.b.ekeys, hstep.b.lkeys⟩, hstep.abs, hstep.cur⟩
    intro l' li' e' g' s' hl'
    have hnew := hstep.b.count l' li' e' g' s' hl'
    have hold := h.b.count l' li' e' g' s' hl'
    by_cases cl : l' = l
    · exact hold
    · simp only [cl, if_false] at hnew; exact hnew
  | some d =>
    rw [hsg] at hstep
    simp only at hstep ⊢
    have hl1 : (m.setEmitter e (some (em.setSig g (unlinkOrMark d l x)))).listeners l = some li := hli
    have := simL_install hstep hl1 (by
      intro e' hne
      by_cases c : e' = e
      · subst c
        simp only [if_true] at hne
        apply h.b.lkeys l li e' hli
        intro hh; rw [hh] at hne; simp at hne
      · simp only [c, if_false] at hne
        exact h.b.lkeys l li e' hli hne)
    exact this

end Nstd.Callback
