import Nstd.Callback.LemmasTop
/-
  The fuel of the evaluator is only a device to make it total: a run that did not exhaust its
  fuel is the same for every larger fuel.
-/
namespace Nstd.Callback

variable {σ α π : Type}

theorem prim_oof (M : Machine σ α π) (r : Run σ) (a : Action) : (r.prim M a).oof = r.oof := by
  cases a <;> simp only [Run.prim] <;> (try split) <;> rfl

/-- the out-of-fuel flag is never reset -/
theorem exec_oof_sticky (M : Machine σ α π) (P : Prog) (n : Nat) :
    ∀ (r : Run σ) (t : Task α π), (exec M P n r t).oof = false → r.oof = false := by
  induction n with
  | zero => intro r t h; rw [exec_zero] at h; simp at h
  | succ n ih =>
    intro r t h
    cases t with
    | acts as =>
      cases as with
      | nil => exact h
      | cons a as =>
        by_cases hem : ∃ e g v, a = .emit e g v
        · obtain ⟨e, g, v, rfl⟩ := hem
          rw [exec_acts_emit] at h
          have h1 := ih _ _ h
          by_cases c : M.aliveE r.m (r.emId e) = true
          · simp only [c, if_true] at h1
            rcases hb : M.begin (r.emId e) g r.m with ⟨m1, o⟩
            rw [hb] at h1
            cases o with
            | none => exact h1
            | some ap =>
              obtain ⟨a, p⟩ := ap
              simp only [Run.mark] at h1
              have h2 := ih _ _ h1
              exact h2
          · simp only [c] at h1; exact h1
        · have hne : ∀ e g v, a ≠ .emit e g v := fun e g v he => hem ⟨e, g, v, he⟩
          rw [exec_acts_prim _ _ _ _ _ _ hne] at h
          have := ih _ _ h
          rw [prim_oof] at this
          exact this
    | loop a p v =>
      rw [exec_loop] at h
      cases hn : M.next r.m a p with
      | done => rw [hn] at h; exact h
      | fault => rw [hn] at h; exact h
      | call l s p' =>
        rw [hn] at h
        simp only at h
        by_cases c : M.aliveL r.m l = true
        · simp only [c, if_true] at h
          have h1 := ih _ _ h
          rw [markIf_oof] at h1
          have h2 := ih _ _ h1
          exact h2
        · simp only [c] at h; exact h

/-- **fuel is irrelevant once it suffices** -/
theorem exec_fuel_mono (M : Machine σ α π) (P : Prog) (n : Nat) :
    ∀ (r : Run σ) (t : Task α π), (exec M P n r t).oof = false →
      ∀ n', n ≤ n' → exec M P n' r t = exec M P n r t := by
  induction n with
  | zero => intro r t h; rw [exec_zero] at h; simp at h
  | succ n ih =>
    intro r t h n' hn'
    obtain ⟨k, rfl⟩ : ∃ k, n' = k + 1 := ⟨n' - 1, by omega⟩
    have hk : n ≤ k := by omega
    cases t with
    | acts as =>
      cases as with
      | nil => rfl
      | cons a as =>
        by_cases hem : ∃ e g v, a = .emit e g v
        · obtain ⟨e, g, v, rfl⟩ := hem
          rw [exec_acts_emit] at h ⊢
          rw [exec_acts_emit]
          have h1 := exec_oof_sticky M P n _ _ h
          by_cases c : M.aliveE r.m (r.emId e) = true
          · simp only [c, if_true] at h h1 ⊢
            rcases hb : M.begin (r.emId e) g r.m with ⟨m1, o⟩
            rw [hb] at h h1
            cases o with
            | none => simp only at h ⊢; exact ih _ _ h k hk
            | some ap =>
              obtain ⟨a, p⟩ := ap
              simp only at h h1 ⊢
              rw [ih _ _ h1 k hk]
              exact ih _ _ h k hk
          · simp only [c] at h ⊢; exact ih _ _ h k hk
        · have hne : ∀ e g v, a ≠ .emit e g v := fun e g v he => hem ⟨e, g, v, he⟩
          rw [exec_acts_prim _ _ _ _ _ _ hne] at h ⊢
          rw [exec_acts_prim _ _ _ _ _ _ hne]
          exact ih _ _ h k hk
    | loop a p v =>
      rw [exec_loop] at h ⊢
      rw [exec_loop]
      cases hn : M.next r.m a p with
      | done => rfl
      | fault => rfl
      | call l s p' =>
        rw [hn] at h
        simp only at h ⊢
        by_cases c : M.aliveL r.m l = true
        · simp only [c, if_true] at h ⊢
          have h1 := exec_oof_sticky M P n _ _ h
          rw [markIf_oof] at h1
          rw [ih _ _ h1 k hk]
          exact ih _ _ h k hk
        · simp only [c, Bool.false_eq_true, if_false]

theorem runOps_oof_sticky (M : Machine σ α π) (P : Prog) (n : Nat) (ops : List Action) :
    ∀ r : Run σ, (runOps M P n r ops).oof = false → r.oof = false := by
  induction ops with
  | nil => intro r h; exact h
  | cons a as ih => intro r h; exact exec_oof_sticky M P n _ _ (ih _ h)

theorem runOps_fuel_mono (M : Machine σ α π) (P : Prog) (n : Nat) (ops : List Action) :
    ∀ r : Run σ, (runOps M P n r ops).oof = false → ∀ n', n ≤ n' → runOps M P n' r ops = runOps M P n r ops := by
  induction ops with
  | nil => intro r _ n' _; rfl
  | cons a as ih =>
    intro r h n' hn'
    simp only [runOps] at h ⊢
    have h1 := runOps_oof_sticky M P n as _ h
    rw [exec_fuel_mono M P n r _ h1 n' hn']
    exact ih _ h n' hn'

end Nstd.Callback
