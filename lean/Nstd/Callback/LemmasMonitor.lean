import Nstd.Callback.LemmasTop
/-
  A run-time monitor for "never invoked after disconnection or destruction", stated on the
  model's own data: at the moment the emission loop invokes slot `x` of listener `l` for the
  activation `fid` of signal (e, g), the emitter `e` exists, the listener `l` exists and its
  own list for `e` contains the pair (g, x).  (The listener side is updated eagerly by
  `disconnect`, `~Listener` and `~Emitter`; only the emitter side defers.)  The monitored
  machine turns a violating invocation into a fault.  It is shown to be simulated by the
  specification as well (`monitoredOK`) and to behave exactly like the unmonitored model
  (`monitor_transparent_sim`).
-/
namespace Nstd.Callback
open Spec

def listed (m : State) (fid l x : Nat) : Bool :=
  match frameAt m.frames fid with
  | none => false
  | some f =>
    (m.emitters f.data.1).isSome &&
      match m.listeners l with
      | none => false
      | some li => (li.sigs f.data.1).contains (f.data.2, x)

def monitorNext (m : State) (fid : Nat) (idx : Option Nat) : Step (Option Nat) :=
  match next m fid idx with
  | .call l x p => if listed m fid l x then .call l x p else .fault
  | .done => .done
  | .fault => .fault

def monitored : Machine State Nat (Option Nat) := { machine with next := monitorNext }

/-- at every invocation decided in a `Sim` state the monitor's condition holds -/
theorem listed_of_sim {m : State} {s : SState} {K : MStack} {fid : Nat} {idx : Option Nat} {eg : Nat × Nat}
    {snap : List Nat} {l x : Nat} {p' : Option Nat} (h : Sim m s (((fid, idx), (eg, snap)) :: K))
    (hcall : next m fid idx = .call l x p') : listed m fid l x = true := by
  obtain ⟨e, g⟩ := eg
  have hc := h.cur
  cases hfr : m.frames with
  | nil => rw [hfr] at hc; exact absurd hc (by simp [Cursors])
  | cons f fs =>
    rw [hfr] at hc
    obtain ⟨rfl, hdata, _, _, _⟩ := hc
    -- reuse the state-level theorem through `sim_next`
    have hn := sim_next h
    simp only [machine] at hn
    rw [hcall] at hn
    cases hs : Spec.machine.next s (e, g) snap with
    | done => rw [hs] at hn; exact absurd hn (by simp [StepRel])
    | fault => rw [hs] at hn; exact absurd hn (by simp [StepRel])
    | call l' x' q' =>
      rw [hs] at hn
      obtain ⟨rfl, rfl, hal, _⟩ := hn
      simp only [Spec.machine, Spec.next] at hs
      by_cases hea : s.eAlive e = true
      · simp only [hea, if_true] at hs
        cases hnl : nextLive (s.sig e g).live snap with
        | none => rw [hnl] at hs; cases hs
        | some cr =>
          obtain ⟨c, rest⟩ := cr
          rw [hnl] at hs
          simp only [Step.call.injEq] at hs
          obtain ⟨hr, hx, _⟩ := hs
          have hcm := (nextLive_some hnl).1
          simp only [machine] at hal
          have heA : (m.emitters e).isSome = true := by rw [← h.abs.eAlive]; exact hea
          cases hli : m.listeners l with
          | none => rw [hli] at hal; simp at hal
          | some li =>
            have hcnt := h.b.count l li e g x hli
            rw [h.abs.live] at hcm
            cases hd : m.data e g with
            | none => rw [hd] at hcm; simp [liveOf] at hcm
            | some d =>
              rw [hd] at hcm hcnt
              obtain ⟨y, hy, hnd, rfl⟩ := mem_liveOf hcm
              have hpos : 0 < d.slots.countP (fun z => z.isMatch l x) := by
                rw [List.countP_pos_iff]
                refine ⟨y, hy, ?_⟩
                simp only [Slot.toConn] at hr hx
                simp [Slot.isMatch, hr, hx, hnd]
              have : 0 < (li.sigs e).count (g, x) := by rw [hcnt]; exact hpos
              have hmem := List.count_pos_iff.1 this
              simp only [listed, hfr, frameAt_top, hdata, heA, hli, Bool.true_and]
              exact List.contains_iff_mem.2 hmem
      · simp only [hea, if_false] at hs
        cases hs

theorem monitoredOK : SimOK monitored Spec.machine Sim where
  aliveE := simOK.aliveE
  aliveL := simOK.aliveL
  connect := simOK.connect
  disconnect := simOK.disconnect
  delL := simOK.delL
  delE := simOK.delE
  begin := simOK.begin
  finish := simOK.finish
  next := by
    intro m s a p b q K h
    have hn := sim_next h
    simp only [machine] at hn
    show StepRel monitored Sim m s a b K (monitorNext m a p) (Spec.machine.next s b q)
    unfold monitorNext
    cases hc : next m a p with
    | done => rw [hc] at hn; cases hs : Spec.machine.next s b q <;> (rw [hs] at hn; first | exact hn | exact absurd hn (by simp [StepRel]))
    | fault => rw [hc] at hn; cases hs : Spec.machine.next s b q <;> (rw [hs] at hn; exact absurd hn (by simp [StepRel]))
    | call l x p' =>
      rw [hc] at hn
      simp only [listed_of_sim h hc, if_true]
      cases hs : Spec.machine.next s b q with
      | done => rw [hs] at hn; exact absurd hn (by simp [StepRel])
      | fault => rw [hs] at hn; exact absurd hn (by simp [StepRel])
      | call l' x' q' => rw [hs] at hn; exact hn

/-- monitored model against plain model: same state, same loops, and some specification state
    the common state is related to -/
def SimM (m m' : State) (K : Stack Nat (Option Nat) Nat (Option Nat)) : Prop :=
  m = m' ∧ (∀ k ∈ K, k.1 = k.2) ∧ ∃ (s : SState) (Ks : MStack), Sim m s Ks ∧ Ks.map (·.1) = K.map (·.1)

theorem monitor_transparent_sim : SimOK monitored machine SimM where
  aliveE := by intro m m' K e h; obtain ⟨rfl, _⟩ := h; rfl
  aliveL := by intro m m' K l h; obtain ⟨rfl, _⟩ := h; rfl
  connect := by
    intro m m' K e g l x h he hl
    obtain ⟨rfl, hK, s, Ks, hs, hm⟩ := h
    exact ⟨rfl, hK, _, Ks, sim_connect e g l x hs he hl, hm⟩
  disconnect := by
    intro m m' K e g l x h he hl
    obtain ⟨rfl, hK, s, Ks, hs, hm⟩ := h
    exact ⟨rfl, hK, _, Ks, sim_disconnect e g l x hs he hl, hm⟩
  delL := by
    intro m m' K l h hl
    obtain ⟨rfl, hK, s, Ks, hs, hm⟩ := h
    exact ⟨rfl, hK, _, Ks, sim_delL l hs hl, hm⟩
  delE := by
    intro m m' K e h he
    obtain ⟨rfl, hK, s, Ks, hs, hm⟩ := h
    exact ⟨rfl, hK, _, Ks, sim_delE e hs he, hm⟩
  begin := by
    intro m m' K e g h he
    obtain ⟨rfl, hK, s, Ks, hs, hm⟩ := h
    have hb := sim_begin e g hs he
    show BeginRel machine SimM K (actBegin e g m) (actBegin e g m)
    simp only [machine] at hb
    rcases h1 : actBegin e g m with ⟨m1, o1⟩
    rcases h2 : Spec.machine.begin e g s with ⟨s1, o2⟩
    rw [h1, h2] at hb
    cases o1 with
    | none =>
      cases o2 with
      | none => exact ⟨rfl, hK, s1, Ks, hb, hm⟩
      | some bq => exact ⟨rfl, hK, _, Ks, hb.2, hm⟩
    | some ap =>
      cases o2 with
      | none => exact absurd hb (by simp [BeginRel])
      | some bq =>
        refine ⟨rfl, ?_, s1, (ap, bq) :: Ks, hb, by simp [hm]⟩
        intro k hk
        rcases List.mem_cons.1 hk with rfl | hk
        · rfl
        · exact hK k hk
  next := by
    intro m m' a p b q K h
    obtain ⟨rfl, hK, s, Ks, hs, hm⟩ := h
    have hab := hK ((a, p), (b, q)) (List.mem_cons_self ..)
    simp only [Prod.mk.injEq] at hab
    obtain ⟨rfl, rfl⟩ := hab
    cases Ks with
    | nil => simp at hm
    | cons k Ks =>
      obtain ⟨⟨a', p'⟩, ⟨b', q'⟩⟩ := k
      simp only [List.map_cons, List.cons.injEq, Prod.mk.injEq] at hm
      obtain ⟨⟨rfl, rfl⟩, hm⟩ := hm
      have hn := sim_next hs
      simp only [machine] at hn
      show StepRel monitored SimM m m a' a' K (monitorNext m a' p') (next m a' p')
      unfold monitorNext
      cases hc : next m a' p' with
      | done => trivial
      | fault => rw [hc] at hn; cases hsn : Spec.machine.next s b' q' <;> (rw [hsn] at hn; exact absurd hn (by simp [StepRel]))
      | call l x p'' =>
        rw [hc] at hn
        simp only [listed_of_sim hs hc, if_true]
        cases hsn : Spec.machine.next s b' q' with
        | done => rw [hsn] at hn; exact absurd hn (by simp [StepRel])
        | fault => rw [hsn] at hn; exact absurd hn (by simp [StepRel])
        | call l' x' q'' =>
          rw [hsn] at hn
          obtain ⟨_, _, hal, hs'⟩ := hn
          refine ⟨rfl, rfl, hal, rfl, ?_, s, ((a', p''), (b', q'')) :: Ks, hs', by simp [hm]⟩
          intro k hk
          rcases List.mem_cons.1 hk with rfl | hk
          · rfl
          · exact hK k (List.mem_cons_of_mem _ hk)
  finish := by
    intro m m' a p b q K h
    obtain ⟨rfl, hK, s, Ks, hs, hm⟩ := h
    have hab := hK ((a, p), (b, q)) (List.mem_cons_self ..)
    simp only [Prod.mk.injEq] at hab
    obtain ⟨rfl, rfl⟩ := hab
    cases Ks with
    | nil => simp at hm
    | cons k Ks =>
      obtain ⟨⟨a', p'⟩, ⟨b', q'⟩⟩ := k
      simp only [List.map_cons, List.cons.injEq, Prod.mk.injEq] at hm
      obtain ⟨⟨rfl, rfl⟩, hm⟩ := hm
      exact ⟨rfl, fun k hk => hK k (List.mem_cons_of_mem _ hk), _, Ks, sim_finish hs, hm⟩

theorem runOps_relM (P : Prog) (fuel : Nat) (ops : List Action) {r₁ r₂ : Run State}
    (h : RunRel SimM [] r₁ r₂) : RunRel SimM [] (runOps monitored P fuel r₁ ops) (runOps machine P fuel r₂ ops) := by
  induction ops generalizing r₁ r₂ with
  | nil => exact h
  | cons a as ih =>
    exact ih ((exec_sim monitor_transparent_sim P fuel).1 [] [a] r₁ r₂ h)

theorem runOps_relMon (P : Prog) (fuel : Nat) (ops : List Action) {r₁ : Run State} {r₂ : Run SState}
    (h : RunRel Sim [] r₁ r₂) : RunRel Sim [] (runOps monitored P fuel r₁ ops) (runOps Spec.machine P fuel r₂ ops) := by
  induction ops generalizing r₁ r₂ with
  | nil => exact h
  | cons a as ih =>
    exact ih ((exec_sim monitoredOK P fuel).1 [] [a] r₁ r₂ h)

end Nstd.Callback
