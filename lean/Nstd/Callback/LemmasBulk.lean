import Nstd.Callback.LemmasTie
/-
  A second form of `~Emitter` (harmless rewrite C12-h5): for every slot not marked `disconnected` the receiver's WHOLE list for this
  emitter is dropped (`Map::remove(this)`: key and list), with a `lastReceiver` shortcut for consecutive slots of one receiver.
  The resulting state differs from the model's (`delEmitter` erases pair by pair and keeps the keys) only in the key lists of
  the listeners' maps; `sim_bulk`: it is related to the same specification state.
-/
set_option linter.unusedSimpArgs false
set_option linter.unusedVariables false
namespace Nstd.Callback
open Spec

/-- `~Emitter`, second form: the receiver's whole list for this emitter is dropped at once -/
def dropAll (e : Nat) (st : State) (r : Nat) : State := H.lErase (H.derefL st r) r e

def bulkStep (e : Nat) (st : State) (x : Slot) : State := if x.state = .disconnected then st else dropAll e st x.receiver

theorem dropAll_dead {e r : Nat} {st : State} (h : st.listeners r = none) : dropAll e st r = st.faulted := by
  simp [dropAll, H.derefL, H.lErase, h, State.faulted]

theorem dropAll_live {e r : Nat} {st : State} {li : Listener} (h : st.listeners r = some li) :
    dropAll e st r = if e ∈ li.emKeys then
      st.setListener r (some { emKeys := li.emKeys.filter (· != e), sigs := fun e' => if e' = e then [] else li.sigs e' }) else st := by
  simp [dropAll, H.derefL, H.lErase, h]

theorem dropAll_idem (e r : Nat) (st : State) : dropAll e (dropAll e st r) r = dropAll e st r := by
  cases h : st.listeners r with
  | none => rw [dropAll_dead h, dropAll_dead (by simpa [State.faulted] using h)]; rfl
  | some li =>
    rw [dropAll_live h]
    by_cases hm : e ∈ li.emKeys
    · simp only [hm, if_true]
      rw [dropAll_live (setListener_listeners_self ..)]
      have : e ∉ li.emKeys.filter (· != e) := by simp
      simp [this]
    · simp only [hm, if_false]; rw [dropAll_live h]; simp [hm]

/-- the loop over the slots with the `lastReceiver` shortcut is the plain loop: dropping a receiver's list twice is dropping it once -/
theorem bulk_inner (e : Nat) (xs : List Slot) (h : State) (last : Option Nat)
    (hinv : ∀ r, last = some r → dropAll e h r = h) :
    (xs.foldl (fun (p : State × Option Nat) x2 =>
        if (x2.state == .disconnected) then (p.1, p.2)
        else if (p.2 == some x2.receiver) then (p.1, p.2)
        else (H.lErase (H.derefL p.1 x2.receiver) x2.receiver e, some x2.receiver)) (h, last)).1 = xs.foldl (bulkStep e) h := by
  induction xs generalizing h last with
  | nil => rfl
  | cons x xs ih =>
    simp only [List.foldl_cons, bulkStep]
    by_cases hs : x.state = .disconnected
    · have : (x.state == SlotState.disconnected) = true := by simp [hs]
      simp only [this, hs, if_true]
      exact ih h last hinv
    · have : (x.state == SlotState.disconnected) = false := by simpa using hs
      simp only [this, hs, if_false, Bool.false_eq_true]
      by_cases hl : last = some x.receiver
      · have : (last == some x.receiver) = true := by simp [hl]
        simp only [this, if_true]
        rw [hinv _ hl]
        exact ih h last hinv
      · have : (last == some x.receiver) = false := by simpa using hl
        simp only [this, if_false, Bool.false_eq_true]
        exact ih _ _ (fun r hr => by cases hr; exact dropAll_idem e x.receiver h)


/-! ### the bulk form against the model's `~Emitter`, step by step -/

/-- the state of the bulk form (`a`) and of the model (`b`) agree except in what listeners store under key `e` -/
structure BRel (e : Nat) (a b : State) : Prop where
  em : a.emitters = b.emitters
  fr : a.frames = b.frames
  nn : a.nextNode = b.nextNode
  fl : a.fault = b.fault
  li : ∀ l, match a.listeners l, b.listeners l with
    | none, none => True
    | some x, some y => ∀ e', e' ≠ e → x.sigs e' = y.sigs e' ∧ (e' ∈ x.emKeys ↔ e' ∈ y.emKeys)
    | _, _ => False

theorem BRel.refl (e : Nat) (a : State) : BRel e a a :=
  ⟨rfl, rfl, rfl, rfl, fun l => by cases a.listeners l <;> simp⟩

theorem brel_faulted {e : Nat} {a b : State} (h : BRel e a b) : BRel e a.faulted b.faulted :=
  ⟨h.em, h.fr, h.nn, rfl, h.li⟩

theorem brel_step {e g : Nat} {a b : State} (h : BRel e a b) (x : Slot) : BRel e (bulkStep e a x) (dropSignal e g b x) := by
  unfold bulkStep dropSignal
  by_cases hs : x.state = .disconnected
  · simp only [hs, if_true]; exact h
  · simp only [hs, if_false]
    have hl := h.li x.receiver
    cases ha : a.listeners x.receiver with
    | none =>
      cases hb : b.listeners x.receiver with
      | none => rw [dropAll_dead ha]; exact brel_faulted h
      | some y => rw [ha, hb] at hl; exact absurd hl (by simp)
    | some xa =>
      cases hb : b.listeners x.receiver with
      | none => rw [ha, hb] at hl; exact absurd hl (by simp)
      | some y =>
        rw [ha, hb] at hl
        simp only at hl
        rw [dropAll_live ha]
        refine ⟨?_, ?_, ?_, ?_, ?_⟩
        · split <;> simp [State.setListener, h.em]
        · split <;> simp [State.setListener, h.fr]
        · split <;> simp [State.setListener, h.nn]
        · split <;> simp [State.setListener, h.fl]
        · intro l
          by_cases hlr : l = x.receiver
          · subst hlr
            by_cases hm : e ∈ xa.emKeys
            · simp only [hm, if_true, setListener_listeners_self]
              intro e' he'
              simp only [he', if_false, List.mem_filter, bne_iff_ne, ne_eq, not_false_eq_true, and_true]
              exact hl e' he'
            · simp only [hm, if_false, ha, setListener_listeners_self]
              intro e' he'
              simp only [he', if_false]
              exact hl e' he'
          · have h1 : (if e ∈ xa.emKeys then a.setListener x.receiver (some { emKeys := xa.emKeys.filter (· != e), sigs := fun e' => if e' = e then [] else xa.sigs e' }) else a).listeners l = a.listeners l := by
              split <;> simp [State.setListener, hlr]
            have h2 : (b.setListener x.receiver (some { y with sigs := fun e' => if e' = e then (y.sigs e).erase (g, x.slot) else y.sigs e' })).listeners l = b.listeners l := by
              simp [State.setListener, hlr]
            rw [h1, h2]
            exact h.li l

theorem brel_fold {e g : Nat} (xs : List Slot) {a b : State} (h : BRel e a b) :
    BRel e (xs.foldl (bulkStep e) a) (xs.foldl (dropSignal e g) b) := by
  induction xs generalizing a b with
  | nil => exact h
  | cons x xs ih => exact ih (brel_step h x)

theorem brel_invalidate {e : Nat} {a b : State} (h : BRel e a b) (i : Nat) : BRel e (invalidate a i) (invalidate b i) := by
  unfold invalidate
  rw [h.fr]
  cases frameAt b.frames i with
  | none => exact brel_faulted h
  | some f => exact ⟨h.em, by simp [h.fr], h.nn, h.fl, h.li⟩

/-- one signal in the bulk form -/
def bulkSig (e : Nat) (em : Emitter) (st : State) (g : Nat) : State :=
  match em.sig g with
  | none => st
  | some d =>
    let st1 := match d.activation with
      | some a => invalidate st a
      | none => st
    d.slots.foldl (bulkStep e) st1

theorem brel_sig {e : Nat} (em : Emitter) {a b : State} (h : BRel e a b) (g : Nat) : BRel e (bulkSig e em a g) (delEmitterSig e em b g) := by
  unfold bulkSig delEmitterSig
  cases em.sig g with
  | none => exact h
  | some d =>
    simp only
    cases d.activation with
    | none => exact brel_fold d.slots h
    | some i => exact brel_fold d.slots (brel_invalidate h i)

theorem brel_keys {e : Nat} (em : Emitter) (ks : List Nat) {a b : State} (h : BRel e a b) :
    BRel e (ks.foldl (bulkSig e em) a) (ks.foldl (delEmitterSig e em) b) := by
  induction ks generalizing a b with
  | nil => exact h
  | cons k ks ih => exact ih (brel_sig em h k)


/-! ### what the bulk form leaves under key `e` -/

/-- `e` absent from a listener's map = no list -/
def LK (e : Nat) (h : State) : Prop := ∀ l li, h.listeners l = some li → e ∉ li.emKeys → li.sigs e = []

/-- from `h` to `h'` the listeners stay and their lists under `e` are kept or cleared -/
def Shr (e : Nat) (h h' : State) : Prop :=
  (∀ l, (h'.listeners l).isSome = (h.listeners l).isSome) ∧
  ∀ l li li', h.listeners l = some li → h'.listeners l = some li' → (li'.sigs e = [] ∨ li'.sigs e = li.sigs e)

theorem Shr.refl (e : Nat) (h : State) : Shr e h h :=
  ⟨fun _ => rfl, fun l li li' h1 h2 => by rw [h1] at h2; cases h2; exact Or.inr rfl⟩

theorem Shr.trans {e : Nat} {a b c : State} (h1 : Shr e a b) (h2 : Shr e b c) : Shr e a c := by
  refine ⟨fun l => by rw [h2.1, h1.1], ?_⟩
  intro l li li'' ha hc
  have hb : (b.listeners l).isSome := by rw [h1.1, ha]; rfl
  obtain ⟨li', hb'⟩ := Option.isSome_iff_exists.1 hb
  rcases h2.2 l li' li'' hb' hc with h | h
  · exact Or.inl h
  · rcases h1.2 l li li' ha hb' with h' | h'
    · exact Or.inl (h.trans h')
    · exact Or.inr (h.trans h')

theorem shr_step (e : Nat) (h : State) (x : Slot) : Shr e h (bulkStep e h x) ∧ (LK e h → LK e (bulkStep e h x)) := by
  unfold bulkStep
  by_cases hs : x.state = .disconnected
  · simp only [hs, if_true]; exact ⟨Shr.refl e h, id⟩
  · simp only [hs, if_false]
    cases hr : h.listeners x.receiver with
    | none => rw [dropAll_dead hr]; exact ⟨⟨fun _ => rfl, (Shr.refl e h).2⟩, id⟩
    | some lr =>
      rw [dropAll_live hr]
      by_cases hm : e ∈ lr.emKeys
      · simp only [hm, if_true]
        refine ⟨⟨?_, ?_⟩, ?_⟩
        · intro l; by_cases hl : l = x.receiver
          · subst hl; simp [hr]
          · simp [State.setListener, hl]
        · intro l li li' h1 h2
          by_cases hl : l = x.receiver
          · subst hl; simp only [setListener_listeners_self, Option.some.injEq] at h2; subst h2; exact Or.inl (by simp)
          · simp only [State.setListener, hl, if_false] at h2; rw [h1] at h2; cases h2; exact Or.inr rfl
        · intro hk l li h1 hne
          by_cases hl : l = x.receiver
          · subst hl; simp only [setListener_listeners_self, Option.some.injEq] at h1; subst h1; simp
          · simp only [State.setListener, hl, if_false] at h1; exact hk l li h1 hne
      · simp only [hm, if_false]; exact ⟨Shr.refl e h, id⟩

theorem shr_fold (e : Nat) (xs : List Slot) (h : State) : Shr e h (xs.foldl (bulkStep e) h) ∧ (LK e h → LK e (xs.foldl (bulkStep e) h)) := by
  induction xs generalizing h with
  | nil => exact ⟨Shr.refl e h, id⟩
  | cons x xs ih =>
    obtain ⟨h1, h2⟩ := shr_step e h x
    obtain ⟨h3, h4⟩ := ih (bulkStep e h x)
    exact ⟨h1.trans h3, fun hk => h4 (h2 hk)⟩

theorem shr_invalidate (e : Nat) (h : State) (i : Nat) : Shr e h (invalidate h i) ∧ (LK e h → LK e (invalidate h i)) := by
  unfold invalidate
  cases frameAt h.frames i <;> exact ⟨⟨fun _ => rfl, (Shr.refl e h).2⟩, id⟩

theorem shr_sig (e : Nat) (em : Emitter) (h : State) (g : Nat) : Shr e h (bulkSig e em h g) ∧ (LK e h → LK e (bulkSig e em h g)) := by
  unfold bulkSig
  cases em.sig g with
  | none => exact ⟨Shr.refl e h, id⟩
  | some d =>
    simp only
    cases d.activation with
    | none => exact shr_fold e d.slots h
    | some i =>
      obtain ⟨h1, h2⟩ := shr_invalidate e h i
      obtain ⟨h3, h4⟩ := shr_fold e d.slots (invalidate h i)
      exact ⟨h1.trans h3, fun hk => h4 (h2 hk)⟩

theorem shr_keys (e : Nat) (em : Emitter) (ks : List Nat) (h : State) :
    Shr e h (ks.foldl (bulkSig e em) h) ∧ (LK e h → LK e (ks.foldl (bulkSig e em) h)) := by
  induction ks generalizing h with
  | nil => exact ⟨Shr.refl e h, id⟩
  | cons k ks ih =>
    obtain ⟨h1, h2⟩ := shr_sig e em h k
    obtain ⟨h3, h4⟩ := ih (bulkSig e em h k)
    exact ⟨h1.trans h3, fun hk => h4 (h2 hk)⟩

/-- a cleared list stays cleared -/
theorem shr_nil {e : Nat} {a b : State} (h : Shr e a b) {l : Nat} {li li' : Listener} (ha : a.listeners l = some li)
    (hb : b.listeners l = some li') (hn : li.sigs e = []) : li'.sigs e = [] := by
  rcases h.2 l li li' ha hb with h | h
  · exact h
  · rw [h, hn]

theorem cleared_fold (e : Nat) (xs : List Slot) (h : State) (hk : LK e h) (y : Slot) (hy : y ∈ xs) (hs : y.state ≠ .disconnected)
    (li' : Listener) (hl : ((xs.foldl (bulkStep e) h).listeners y.receiver) = some li') : li'.sigs e = [] := by
  induction xs generalizing h with
  | nil => simp at hy
  | cons x xs ih =>
    simp only [List.foldl_cons] at hl
    rcases List.mem_cons.1 hy with rfl | hy
    · -- the step at `y` clears (or finds nothing), the rest keeps it
      obtain ⟨s1, _⟩ := shr_fold e xs (bulkStep e h y)
      have hsome : ((bulkStep e h y).listeners y.receiver).isSome := by rw [← s1.1, hl]; rfl
      obtain ⟨l1, hl1⟩ := Option.isSome_iff_exists.1 hsome
      refine shr_nil s1 hl1 hl ?_
      have h0 : (h.listeners y.receiver).isSome := by rw [← (shr_step e h y).1.1, hl1]; rfl
      obtain ⟨l0, hl0⟩ := Option.isSome_iff_exists.1 h0
      simp only [bulkStep, hs, if_false, dropAll_live hl0] at hl1
      by_cases hm : e ∈ l0.emKeys
      · simp only [hm, if_true, setListener_listeners_self, Option.some.injEq] at hl1; subst hl1; simp
      · simp only [hm, if_false] at hl1; rw [hl0] at hl1; cases hl1; exact hk _ _ hl0 hm
    · exact ih (bulkStep e h x) ((shr_step e h x).2 hk) hy hl


theorem cleared_keys (e : Nat) (em : Emitter) (ks : List Nat) (h : State) (hk : LK e h) (g : Nat) (hg : g ∈ ks) (d : SignalData)
    (hd : em.sig g = some d) (y : Slot) (hy : y ∈ d.slots) (hs : y.state ≠ .disconnected)
    (li' : Listener) (hl : ((ks.foldl (bulkSig e em) h).listeners y.receiver) = some li') : li'.sigs e = [] := by
  induction ks generalizing h with
  | nil => simp at hg
  | cons k ks ih =>
    simp only [List.foldl_cons] at hl
    rcases List.mem_cons.1 hg with rfl | hg
    · obtain ⟨s1, _⟩ := shr_keys e em ks (bulkSig e em h g)
      have hsome : ((bulkSig e em h g).listeners y.receiver).isSome := by rw [← s1.1, hl]; rfl
      obtain ⟨l1, hl1⟩ := Option.isSome_iff_exists.1 hsome
      refine shr_nil s1 hl1 hl ?_
      simp only [bulkSig, hd] at hl1
      cases ha : d.activation with
      | none => rw [ha] at hl1; exact cleared_fold e d.slots h hk y hy hs l1 hl1
      | some i => rw [ha] at hl1; exact cleared_fold e d.slots _ ((shr_invalidate e h i).2 hk) y hy hs l1 hl1
    · exact ih (bulkSig e em h k) ((shr_sig e em h k).2 hk) hg hl

/-- the simulation relation does not look at the key lists of the listeners' maps beyond "a non-empty list has its key" -/
theorem sim_setListeners {M : State} {s : SState} {K : MStack} (h : Sim M s K) (L : Nat → Option Listener)
    (hsome : ∀ l, (L l).isSome = (M.listeners l).isSome)
    (hsigs : ∀ l y x, M.listeners l = some y → L l = some x → x.sigs = y.sigs)
    (hkeys : ∀ l x e', L l = some x → x.sigs e' ≠ [] → e' ∈ x.emKeys) :
    Sim { M with listeners := L } s K where
  nofault := h.nofault
  f := ⟨h.f.links, h.f.act, h.f.hasData, h.f.invDead, h.f.deadInv⟩
  sl := ⟨h.sl.clean, h.sl.allConn, h.sl.sorted, h.sl.bound, h.sl.obj⟩
  b := by
    refine ⟨?_, ?_, h.b.ekeys, hkeys⟩
    · intro e g d hd x hx hn
      show (L x.receiver).isSome = true
      rw [hsome]; exact h.b.recv e g d hd x hx hn
    · intro l x e g sl hl
      have hl' : L l = some x := hl
      have hs : (M.listeners l).isSome := by rw [← hsome, hl']; rfl
      obtain ⟨y, hy⟩ := Option.isSome_iff_exists.1 hs
      rw [hsigs l y x hy hl']
      exact h.b.count l y e g sl hy
  abs := by
    refine ⟨h.abs.clock, h.abs.eAlive, ?_, h.abs.live, h.abs.depth, h.abs.outer, h.abs.born, h.abs.startLe⟩
    intro l
    show s.lAlive l = (L l).isSome
    rw [hsome]; exact h.abs.lAlive l
  cur := cursors_mono (m := M) (m' := { M with listeners := L }) (Nat.le_refl _)
    (fun e g d' _ hal hd' => ⟨hal, d', hd', fun _ _ _ hli => hli⟩) h.cur

/-- **The bulk form of `~Emitter` keeps the simulation**: dropping, for every slot not marked `disconnected`, the receiver's whole
    list for this emitter (key and all) leads to a state related to the same specification state as the model's `~Emitter`, which
    erases pair by pair and keeps the keys. -/
theorem sim_bulk {m : State} {s : SState} {K : MStack} (e : Nat) (em : Emitter) (hs : Sim m s K) (he : m.emitters e = some em) :
    Sim ((em.sigKeys.foldl (bulkSig e em) m).setEmitter e none) (Spec.delE e s) K := by
  have hM : Sim (delEmitter e m) (Spec.delE e s) K := sim_delE e hs (by simp [machine, he])
  have hrel := brel_keys em em.sigKeys (BRel.refl e m)
  have hMeq : delEmitter e m = (em.sigKeys.foldl (delEmitterSig e em) m).setEmitter e none := by simp [delEmitter, he]
  generalize hT0 : em.sigKeys.foldl (bulkSig e em) m = T0 at hrel ⊢
  generalize hM0 : em.sigKeys.foldl (delEmitterSig e em) m = M0 at hrel hMeq
  have hform : T0.setEmitter e none = { (delEmitter e m) with listeners := T0.listeners } := by
    rw [hMeq]
    simp only [State.setEmitter, hrel.em, hrel.fr, hrel.nn, hrel.fl]
  rw [hform]
  have hlk : LK e m := fun l li hl hne => by
    apply Classical.byContradiction; intro hn; exact hne (hs.b.lkeys l li e hl hn)
  have hshr := (shr_keys e em em.sigKeys m).1
  rw [hT0] at hshr
  have hMl : (delEmitter e m).listeners = M0.listeners := by rw [hMeq]; rfl
  -- under key `e` everything is gone, in both
  have hMnil : ∀ l y, M0.listeners l = some y → y.sigs e = [] := by
    intro l y hy
    apply eq_nil_of_count_zero
    intro a
    have := hM.b.count l y e a.1 a.2 (by rw [hMl]; exact hy)
    simpa [State.data, delEmitter, he, State.setEmitter] using this
  have hTnil : ∀ l x, T0.listeners l = some x → x.sigs e = [] := by
    intro l x hx
    have h0 : (m.listeners l).isSome := by rw [← hshr.1, hx]; rfl
    obtain ⟨l0, hl0⟩ := Option.isSome_iff_exists.1 h0
    rcases hshr.2 l l0 x hl0 hx with h | h
    · exact h
    · apply eq_nil_of_count_zero
      intro a
      apply Classical.byContradiction
      intro hne
      have hpos : 0 < (l0.sigs e).count (a.1, a.2) := by
        have : 0 < (l0.sigs e).count a := by rw [← h]; exact Nat.pos_of_ne_zero hne
        exact this
      have hc := hs.b.count l l0 e a.1 a.2 hl0
      cases hd : m.data e a.1 with
      | none => rw [hd] at hc; simp only at hc; omega
      | some d =>
        rw [hd] at hc
        simp only at hc
        have hp : 0 < d.slots.countP (fun z => z.isMatch l a.2) := by omega
        obtain ⟨y, hy, hmy⟩ := List.countP_pos_iff.1 hp
        simp only [Slot.isMatch, Bool.and_eq_true, beq_iff_eq, bne_iff_ne, ne_eq] at hmy
        have hsg : em.sig a.1 = some d := by simpa [State.data, he] using hd
        have hg : a.1 ∈ em.sigKeys := hs.b.ekeys e em a.1 he (by rw [hsg]; rfl)
        have hx' : T0.listeners y.receiver = some x := by rw [hmy.1.1]; exact hx
        rw [← hT0] at hx'
        have := cleared_keys e em em.sigKeys m hlk a.1 hg d hsg y hy hmy.2 x hx'
        rw [this] at hne
        exact hne (by simp)
  refine sim_setListeners hM T0.listeners ?_ ?_ ?_
  · intro l
    rw [hMl]
    have := hrel.li l
    cases ha : T0.listeners l <;> cases hb : M0.listeners l <;> simp_all
  · intro l y x hy hx
    rw [hMl] at hy
    have := hrel.li l
    rw [hx, hy] at this
    funext e'
    by_cases hee : e' = e
    · subst hee; rw [hTnil l x hx, hMnil l y hy]
    · exact (this e' hee).1
  · intro l x e' hx hne
    have hee : e' ≠ e := fun hh => hne (by rw [hh]; exact hTnil l x hx)
    have hs0 : (M0.listeners l).isSome := by
      have := hrel.li l
      cases hb : M0.listeners l with
      | some _ => rfl
      | none => rw [hx, hb] at this; exact absurd this (by simp)
    obtain ⟨y, hy⟩ := Option.isSome_iff_exists.1 hs0
    have := hrel.li l
    rw [hx, hy] at this
    obtain ⟨h1, h2⟩ := this e' hee
    exact h2.2 (hM.b.lkeys l y e' (by rw [hMl]; exact hy) (by rw [← h1]; exact hne))

end Nstd.Callback
