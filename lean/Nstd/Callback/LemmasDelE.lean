import Nstd.Callback.LemmasDelL
/-
  Obligation `SimOK.delE`: `Emitter::~Emitter` (invalidation of the innermost activation of every
  signal, removal of the (signal, slot) pairs from the receivers) against the removal of all
  connections of the emitter in the specification.
-/
namespace Nstd.Callback
open Spec

/-- what the loops of `~Emitter` may have changed between `m` and `st`: frames of emitter `e`
    invalidated, pairs under key `e` removed from listeners -/
structure ERel (e : Nat) (m st : State) : Prop where
  emitters : st.emitters = m.emitters
  nextNode : st.nextNode = m.nextNode
  fault : st.fault = m.fault
  fdata : st.frames.map (·.data) = m.frames.map (·.data)
  fnext : st.frames.map (·.next) = m.frames.map (·.next)
  fmem : ∀ f' ∈ st.frames, ∃ f0 ∈ m.frames, f'.data = f0.data ∧ (f' = f0 ∨ (f'.invalidated = true ∧ f0.data.1 = e))
  fmono : ∀ i f0, frameAt m.frames i = some f0 → ∃ f', frameAt st.frames i = some f' ∧ (f0.invalidated = true → f'.invalidated = true)
  lis : ∀ l', match m.listeners l', st.listeners l' with
    | some li, some li' => li'.emKeys = li.emKeys ∧ (∀ e', e' ≠ e → li'.sigs e' = li.sigs e') ∧
        (∀ a, (li'.sigs e).count a ≤ (li.sigs e).count a)
    | none, none => True
    | _, _ => False

theorem ERel.refl (e : Nat) (m : State) : ERel e m m := by
  refine ⟨rfl, rfl, rfl, rfl, rfl, fun f' hf' => ⟨f', hf', rfl, Or.inl rfl⟩, fun i f0 h => ⟨f0, h, fun hh => hh⟩, ?_⟩
  intro l'
  cases h : m.listeners l' with
  | none => trivial
  | some li => exact ⟨rfl, fun _ _ => rfl, fun _ => Nat.le_refl _⟩

theorem ERel.trans {e : Nat} {m st st' : State} (h1 : ERel e m st) (h2 : ERel e st st') : ERel e m st' := by
  refine ⟨h2.emitters.trans h1.emitters, h2.nextNode.trans h1.nextNode, h2.fault.trans h1.fault,
    h2.fdata.trans h1.fdata, h2.fnext.trans h1.fnext, ?_, ?_, ?_⟩
  · intro f' hf'
    obtain ⟨f1, hf1, hd1, hc1⟩ := h2.fmem f' hf'
    obtain ⟨f0, hf0, hd0, hc0⟩ := h1.fmem f1 hf1
    refine ⟨f0, hf0, hd1.trans hd0, ?_⟩
    rcases hc1 with rfl | ⟨hi, he⟩
    · exact hc0
    · exact Or.inr ⟨hi, by rw [← hd0]; exact he⟩
  · intro i f0 hf0
    obtain ⟨f1, hf1, hm1⟩ := h1.fmono i f0 hf0
    obtain ⟨f2, hf2, hm2⟩ := h2.fmono i f1 hf1
    exact ⟨f2, hf2, fun hh => hm2 (hm1 hh)⟩
  · intro l'
    have a := h1.lis l'
    have b := h2.lis l'
    cases hm : m.listeners l' with
    | none =>
      rw [hm] at a
      cases hs : st.listeners l' with
      | none => rw [hs] at b; exact b
      | some _ => rw [hs] at a; exact absurd a (by simp)
    | some li =>
      rw [hm] at a
      cases hs : st.listeners l' with
      | none => rw [hs] at a; exact absurd a (by simp)
      | some li1 =>
        rw [hs] at a b
        cases hs' : st'.listeners l' with
        | none => rw [hs'] at b; exact absurd b (by simp)
        | some li2 =>
          rw [hs'] at b
          exact ⟨b.1.trans a.1, fun e' he' => (b.2.1 e' he').trans (a.2.1 e' he'),
            fun x => Nat.le_trans (b.2.2 x) (a.2.2 x)⟩

theorem ERel.isSome {e : Nat} {m st : State} (h : ERel e m st) (l' : Nat) :
    (st.listeners l').isSome = (m.listeners l').isSome := by
  have := h.lis l'
  cases hm : m.listeners l' <;> cases hs : st.listeners l' <;> rw [hm, hs] at this <;> simp at this ⊢

/-- one `signals.remove(i)` at a live receiver -/
theorem dropSignal_rel (e g : Nat) (st : State) (y : Slot) (hy : y.state ≠ .disconnected → (st.listeners y.receiver).isSome) :
    ERel e st (dropSignal e g st y) ∧
    ∀ l' li li', st.listeners l' = some li → (dropSignal e g st y).listeners l' = some li' →
      ∀ a, (li'.sigs e).count a = (li.sigs e).count a -
        (if y.state ≠ .disconnected ∧ l' = y.receiver ∧ a = (g, y.slot) then 1 else 0) := by
  simp only [dropSignal]
  by_cases hd : y.state = .disconnected
  · simp only [hd, if_true]
    refine ⟨ERel.refl e st, ?_⟩
    intro l' li li' h1 h2 a
    rw [h1] at h2; cases h2
    simp
  · simp only [hd, if_false]
    cases hr : st.listeners y.receiver with
    | none => have := hy hd; rw [hr] at this; simp at this
    | some lir =>
      simp only
      constructor
      · refine ⟨rfl, rfl, rfl, rfl, rfl, fun f' hf' => ⟨f', hf', rfl, Or.inl rfl⟩, fun i f0 h => ⟨f0, h, fun hh => hh⟩, ?_⟩
        intro l'
        simp only [State.setListener]
        by_cases c : l' = y.receiver
        · subst c
          rw [hr, if_pos rfl]
          refine ⟨rfl, fun e' he' => by simp [he'], fun a => ?_⟩
          show ((if e = e then (lir.sigs e).erase (g, y.slot) else lir.sigs e)).count a ≤ _
          rw [if_pos rfl, List.count_erase]; omega
        · rw [if_neg c]
          cases h : st.listeners l' with
          | none => trivial
          | some li => exact ⟨rfl, fun _ _ => rfl, fun _ => Nat.le_refl _⟩
      · intro l' li li' h1 h2 a
        simp only [State.setListener] at h2
        by_cases c : l' = y.receiver
        · subst c
          rw [hr] at h1; cases h1
          simp only [if_true, Option.some.injEq] at h2
          subst h2
          simp only [if_true, List.count_erase, ne_eq, hd, not_false_eq_true, true_and]
          by_cases ca : a = (g, y.slot)
          · subst ca; simp
          · have : ((g, y.slot) == a) = false := by
              simp only [beq_eq_false_iff_ne, ne_eq]; exact fun hh => ca hh.symm
            simp [this, ca]
        · simp only [c, if_false] at h2
          rw [h1] at h2; cases h2
          simp [c]

/-- the slot loop of one signal -/
theorem dropSignals_rel (e g : Nat) (xs : List Slot) :
    ∀ st : State, (∀ y ∈ xs, y.state ≠ .disconnected → (st.listeners y.receiver).isSome) →
      ERel e st (xs.foldl (dropSignal e g) st) ∧
      ∀ l' li li', st.listeners l' = some li → (xs.foldl (dropSignal e g) st).listeners l' = some li' →
        ∀ s, (li'.sigs e).count (g, s) ≤ (li.sigs e).count (g, s) - xs.countP (fun y => y.isMatch l' s) := by
  induction xs with
  | nil =>
    intro st _
    refine ⟨ERel.refl e st, ?_⟩
    intro l' li li' h1 h2 s
    simp only [List.foldl_nil] at h2
    rw [h1] at h2; cases h2
    simp
  | cons y ys ih =>
    intro st hrecv
    obtain ⟨hrel1, hcnt1⟩ := dropSignal_rel e g st y (hrecv y (List.mem_cons_self ..))
    have hrecv' : ∀ z ∈ ys, z.state ≠ .disconnected → ((dropSignal e g st y).listeners z.receiver).isSome := by
      intro z hz hnd
      rw [hrel1.isSome]
      exact hrecv z (List.mem_cons_of_mem _ hz) hnd
    obtain ⟨hrel2, hcnt2⟩ := ih (dropSignal e g st y) hrecv'
    simp only [List.foldl_cons]
    refine ⟨hrel1.trans hrel2, ?_⟩
    intro l' li li' h1 h2 s
    have hsome : ((dropSignal e g st y).listeners l').isSome := by rw [hrel1.isSome, h1]; rfl
    cases hmid : (dropSignal e g st y).listeners l' with
    | none => rw [hmid] at hsome; simp at hsome
    | some li1 =>
      have a := hcnt1 l' li li1 h1 hmid (g, s)
      have b := hcnt2 l' li1 li' hmid h2 s
      rw [a] at b
      simp only [List.countP_cons]
      have hiff : (y.isMatch l' s = true) ↔ (y.state ≠ .disconnected ∧ l' = y.receiver ∧ (g, s) = (g, y.slot)) := by
        simp only [Slot.isMatch, Bool.and_eq_true, beq_iff_eq, bne_iff_ne, ne_eq, Prod.mk.injEq, true_and]
        constructor
        · rintro ⟨⟨h1, h2⟩, h3⟩; exact ⟨h3, h1.symm, h2.symm⟩
        · rintro ⟨h3, h1, h2⟩; exact ⟨⟨h1.symm, h2.symm⟩, h3⟩
      have : (if y.isMatch l' s = true then 1 else 0) =
          (if y.state ≠ .disconnected ∧ l' = y.receiver ∧ (g, s) = (g, y.slot) then 1 else 0) := by
        by_cases hc : y.isMatch l' s = true
        · rw [if_pos hc, if_pos (hiff.1 hc)]
        · rw [if_neg hc, if_neg (fun hh => hc (hiff.2 hh))]
      omega

theorem invalidate_rel (e : Nat) (st : State) (a : Nat) (f : Frame) (hf : frameAt st.frames a = some f) (hfe : f.data.1 = e) :
    ERel e st (invalidate st a) ∧ ∃ f', frameAt (invalidate st a).frames a = some f' ∧ f'.invalidated = true := by
  simp only [invalidate, hf]
  constructor
  · refine ⟨rfl, rfl, rfl, setInvalid_data _ _, setInvalid_next _ _, ?_, ?_, ?_⟩
    · intro f' hf'
      obtain ⟨f0, hf0, h1, _, h3⟩ := mem_setInvalid hf'
      refine ⟨f0, hf0, h1, ?_⟩
      rcases h3 with h3 | ⟨h3, h4⟩
      · exact Or.inl h3
      · rw [hf] at h4; cases h4; exact Or.inr ⟨h3, hfe⟩
    · intro i f0 hf0
      simp only [frameAt_setInvalid, hf0, Option.map_some, Option.some.injEq, exists_eq_left']
      by_cases c : i = a <;> simp [c]
    · intro l'
      cases h : st.listeners l' with
      | none => trivial
      | some li => exact ⟨rfl, fun _ _ => rfl, fun _ => Nat.le_refl _⟩
  · simp [frameAt_setInvalid, hf]

/-- facts about one signal that stay true under `ERel` -/
def SigDone (e : Nat) (em : Emitter) (m st : State) (g : Nat) : Prop :=
  ∀ d, em.sig g = some d →
    (∀ a, d.activation = some a → ∃ f', frameAt st.frames a = some f' ∧ f'.invalidated = true) ∧
    (∀ l' li li', m.listeners l' = some li → st.listeners l' = some li' →
      ∀ s, (li'.sigs e).count (g, s) ≤ (li.sigs e).count (g, s) - d.slots.countP (fun y => y.isMatch l' s))

theorem SigDone.mono {e : Nat} {em : Emitter} {m st st' : State} {g : Nat} (h : SigDone e em m st g)
    (h0 : ERel e m st) (hr : ERel e st st') : SigDone e em m st' g := by
  intro d hd
  obtain ⟨h1, h2⟩ := h d hd
  constructor
  · intro a ha
    obtain ⟨f1, hf1, hi1⟩ := h1 a ha
    obtain ⟨f2, hf2, hm⟩ := hr.fmono a f1 hf1
    exact ⟨f2, hf2, hm hi1⟩
  · intro l' li li' hl hl' s
    have hsome : (st.listeners l').isSome := by rw [h0.isSome, hl]; rfl
    cases hmid : st.listeners l' with
    | none => rw [hmid] at hsome; simp at hsome
    | some li1 =>
      have a := h2 l' li li1 hl hmid s
      have b := hr.lis l'
      rw [hmid, hl'] at b
      have := b.2.2 (g, s)
      omega

theorem sim_delE {m : State} {s : SState} {K : MStack} (e : Nat) (h : Sim m s K)
    (hal : machine.aliveE m e = true) :
    Sim (machine.delE e m) (Spec.machine.delE e s) K := by
  simp only [machine] at hal
  cases hem : m.emitters e with
  | none => rw [hem] at hal; simp at hal
  | some em =>
  simp only [machine, Spec.machine, delEmitter, hem]
  -- the loop over the signals
  have hsig : ∀ (gs : List Nat) (st : State), ERel e m st → (∀ g' , g' ∈ ([] : List Nat) → SigDone e em m st g') →
      True := fun _ _ _ _ => trivial
  have houter : ∀ (gs : List Nat) (st : State) (done : List Nat), ERel e m st → (∀ g' ∈ done, SigDone e em m st g') →
      ERel e m (gs.foldl (delEmitterSig e em) st) ∧ ∀ g' ∈ done ++ gs, SigDone e em m (gs.foldl (delEmitterSig e em) st) g' := by
    intro gs
    induction gs with
    | nil => intro st done hr hd; exact ⟨hr, by simpa using hd⟩
    | cons g gs ih =>
      intro st done hr hd
      -- one signal
      have hone : ERel e st (delEmitterSig e em st g) ∧ SigDone e em m (delEmitterSig e em st g) g := by
        simp only [delEmitterSig]
        cases hsg : em.sig g with
        | none => exact ⟨ERel.refl e st, fun d hd' => by rw [hsg] at hd'; cases hd'⟩
        | some d =>
          have hdd : m.data e g = some d := by simp [State.data, hem, hsg]
          simp only
          have cont : ∀ st1 : State, ERel e st st1 →
              (∀ a, d.activation = some a → ∃ f', frameAt st1.frames a = some f' ∧ f'.invalidated = true) →
              ERel e st (d.slots.foldl (dropSignal e g) st1) ∧ SigDone e em m (d.slots.foldl (dropSignal e g) st1) g := by
            intro st1 hrel1 hinv1
            have hrecv : ∀ y ∈ d.slots, y.state ≠ .disconnected → (st1.listeners y.receiver).isSome := by
              intro y hy hnd
              rw [hrel1.isSome, hr.isSome]
              exact h.b.recv e g d hdd y hy hnd
            obtain ⟨hrel2, hcnt2⟩ := dropSignals_rel e g d.slots st1 hrecv
            refine ⟨hrel1.trans hrel2, ?_⟩
            intro d' hd'
            rw [hsg] at hd'; cases hd'
            constructor
            · intro a ha
              obtain ⟨f1, hf1, hi1⟩ := hinv1 a ha
              obtain ⟨f2, hf2, hm⟩ := hrel2.fmono a f1 hf1
              exact ⟨f2, hf2, hm hi1⟩
            · intro l' li li' hl hl' x
              have hsome : (st1.listeners l').isSome := by rw [hrel1.isSome, hr.isSome, hl]; rfl
              cases hmid : st1.listeners l' with
              | none => rw [hmid] at hsome; simp at hsome
              | some li1 =>
                have a := hcnt2 l' li1 li' hmid hl' x
                have b := (hr.trans hrel1).lis l'
                rw [hl, hmid] at b
                have := b.2.2 (g, x)
                omega
          cases hact : d.activation with
          | none => exact cont st (ERel.refl e st) (fun a ha => by rw [hact] at ha; cases ha)
          | some a =>
            have htop : topOf m.frames (e, g) = some a := by rw [← h.f.act e g d hdd, hact]
            obtain ⟨f0, hf0⟩ := frameAt_of_lt (topOf_lt htop)
            obtain ⟨f1, hf1, _⟩ := hr.fmono a f0 hf0
            have hf1d : f1.data.1 = e := by
              have : topOf st.frames (e, g) = some a := by rw [topOf_congr hr.fdata]; exact htop
              rw [topOf_data this hf1]
            obtain ⟨hrel, hex⟩ := invalidate_rel e st a f1 hf1 hf1d
            exact cont (invalidate st a) hrel (fun a' ha' => by rw [hact] at ha'; cases ha'; exact hex)
      obtain ⟨hrel1, hdone1⟩ := hone
      have hd' : ∀ g' ∈ done ++ [g], SigDone e em m (delEmitterSig e em st g) g' := by
        intro g' hg'
        rcases List.mem_append.1 hg' with hg' | hg'
        · exact (hd g' hg').mono hr hrel1
        · simp only [List.mem_singleton] at hg'; subst hg'; exact hdone1
      have := ih (delEmitterSig e em st g) (done ++ [g]) (hr.trans hrel1) hd'
      simpa [List.foldl_cons] using this
  obtain ⟨hrel, hdone⟩ := houter em.sigKeys m [] (ERel.refl e m) (fun _ hg => by simp at hg)
  simp only [List.nil_append] at hdone
  clear hsig houter
  generalize em.sigKeys.foldl (delEmitterSig e em) m = mF at hrel hdone
  -- everything stored under key `e` is gone
  have hgone : ∀ l' li', mF.listeners l' = some li' → li'.sigs e = [] := by
    intro l' li' hl'
    apply eq_nil_of_count_zero
    intro a
    obtain ⟨a1, a2⟩ := a
    have hsome : (m.listeners l').isSome := by rw [← hrel.isSome, hl']; rfl
    cases hl : m.listeners l' with
    | none => rw [hl] at hsome; simp at hsome
    | some li =>
      have hc := h.b.count l' li e a1 a2 hl
      cases hd : m.data e a1 with
      | none =>
        rw [hd] at hc
        have b := hrel.lis l'
        rw [hl, hl'] at b
        have := b.2.2 (a1, a2)
        simp only at hc
        omega
      | some d =>
        rw [hd] at hc
        have hsg : em.sig a1 = some d := by simpa [State.data, hem] using hd
        have hk := h.b.ekeys e em a1 hem (by rw [hsg]; rfl)
        have := (hdone a1 hk d hsg).2 l' li li' hl hl' a2
        simp only at hc
        omega
  have hdataF : ∀ e' g', mF.data e' g' = m.data e' g' := by
    intro e' g'; simp only [State.data, hrel.emitters]
  have hdata' : ∀ e' g', (mF.setEmitter e none).data e' g' = if e' = e then none else m.data e' g' := by
    intro e' g'
    simp only [State.data, State.setEmitter, hrel.emitters]
    by_cases c : e' = e <;> simp [c]
  have hems' : ∀ e', (mF.setEmitter e none).emitters e' = if e' = e then none else m.emitters e' := by
    intro e'
    simp only [State.setEmitter, hrel.emitters]
  have hne : ∀ e' g', (m.emitters e').isSome → e' ≠ e → ∀ f ∈ m.frames, f.data = (e', g') → True := fun _ _ _ _ _ _ _ => trivial
  refine ⟨by show mF.fault = false; rw [hrel.fault]; exact h.nofault, ⟨?_, ?_, ?_, ?_, ?_⟩, ⟨?_, ?_, ?_, ?_, ?_⟩,
    ⟨?_, ?_, ?_, ?_⟩, ⟨?_, ?_, ?_, ?_, ?_, ?_, ?_, ?_⟩, ?_⟩
  · exact links_congr hrel.fdata.symm hrel.fnext.symm h.f.links
  · intro e' g' d hd
    rw [hdata'] at hd
    by_cases c : e' = e
    · simp [c] at hd
    · simp only [c, if_false] at hd
      show d.activation = topOf mF.frames (e', g')
      rw [topOf_congr hrel.fdata]; exact h.f.act e' g' d hd
  · intro f' hf' hal'
    obtain ⟨f0, hf0, hdat, _⟩ := hrel.fmem f' hf'
    rw [hems'] at hal'
    rw [hdata']
    by_cases c : f'.data.1 = e
    · simp [c] at hal'
    · simp only [c, if_false] at hal' ⊢
      rw [hdat] at hal' ⊢
      exact h.f.hasData f0 hf0 hal'
  · intro f' hf' hi
    obtain ⟨f0, hf0, hdat, hc⟩ := hrel.fmem f' hf'
    rw [hems']
    by_cases c : f'.data.1 = e
    · simp [c]
    · simp only [c, if_false]
      rcases hc with rfl | ⟨_, h0⟩
      · exact h.f.invDead f' hf0 hi
      · rw [hdat] at c; exact absurd h0 c
  · intro e' g' i he' htop
    rw [hems'] at he'
    have htop' : topOf m.frames (e', g') = some i := by rw [← topOf_congr hrel.fdata]; exact htop
    by_cases c : e' = e
    · subst c
      obtain ⟨f0, hf0⟩ := frameAt_of_lt (topOf_lt htop')
      have hfd := topOf_data htop' hf0
      have hsd := h.f.hasData f0 (frameAt_mem hf0) (by rw [hfd]; simp [hem])
      rw [hfd] at hsd
      cases hd : m.data e' g' with
      | none => rw [hd] at hsd; simp at hsd
      | some d =>
        have hsg : em.sig g' = some d := by simpa [State.data, hem] using hd
        have hk := h.b.ekeys e' em g' hem (by rw [hsg]; rfl)
        have hact := h.f.act e' g' d hd
        rw [htop'] at hact
        exact (hdone g' hk d hsg).1 i hact
    · simp only [c, if_false] at he'
      obtain ⟨f0, hf0, hi0⟩ := h.f.deadInv e' g' i he' htop'
      obtain ⟨f', hf', hm⟩ := hrel.fmono i f0 hf0
      exact ⟨f', hf', hm hi0⟩
  · intro e' g' d hd
    rw [hdata'] at hd
    by_cases c : e' = e
    · simp [c] at hd
    · simp only [c, if_false] at hd; exact h.sl.clean e' g' d hd
  · intro e' g' d hd
    rw [hdata'] at hd
    by_cases c : e' = e
    · simp [c] at hd
    · simp only [c, if_false] at hd; exact h.sl.allConn e' g' d hd
  · intro e' g' d hd
    rw [hdata'] at hd
    by_cases c : e' = e
    · simp [c] at hd
    · simp only [c, if_false] at hd; exact h.sl.sorted e' g' d hd
  · intro e' g' d hd
    rw [hdata'] at hd
    by_cases c : e' = e
    · simp [c] at hd
    · simp only [c, if_false] at hd
      show ∀ x ∈ d.slots, x.node < mF.nextNode
      rw [hrel.nextNode]; exact h.sl.bound e' g' d hd
  · intro e' g' d hd
    rw [hdata'] at hd
    by_cases c : e' = e
    · simp [c] at hd
    · simp only [c, if_false] at hd; exact h.sl.obj e' g' d hd
  · intro e' g' d hd y hy hnd
    rw [hdata'] at hd
    by_cases c : e' = e
    · simp [c] at hd
    · simp only [c, if_false] at hd
      show (mF.listeners y.receiver).isSome
      rw [hrel.isSome]; exact h.b.recv e' g' d hd y hy hnd
  · intro l' li' e' g' x hl'
    have hl'' : mF.listeners l' = some li' := hl'
    rw [hdata']
    by_cases c : e' = e
    · subst c
      simp [hgone l' li' hl'']
    · simp only [c, if_false]
      have hsome : (m.listeners l').isSome := by rw [← hrel.isSome, hl'']; rfl
      cases hl : m.listeners l' with
      | none => rw [hl] at hsome; simp at hsome
      | some li =>
        have b := hrel.lis l'
        rw [hl, hl''] at b
        rw [b.2.1 e' c]
        exact h.b.count l' li e' g' x hl
  · intro e' em' g' hem' hsg'
    rw [hems'] at hem'
    by_cases c : e' = e
    · simp [c] at hem'
    · simp only [c, if_false] at hem'; exact h.b.ekeys e' em' g' hem' hsg'
  · intro l' li' e' hl' hne'
    have hl'' : mF.listeners l' = some li' := hl'
    have hsome : (m.listeners l').isSome := by rw [← hrel.isSome, hl'']; rfl
    cases hl : m.listeners l' with
    | none => rw [hl] at hsome; simp at hsome
    | some li =>
      have b := hrel.lis l'
      rw [hl, hl''] at b
      rw [b.1]
      by_cases c : e' = e
      · subst c; exact absurd (hgone l' li' hl'') hne'
      · rw [b.2.1 e' c] at hne'
        exact h.b.lkeys l' li e' hl hne'
  · show s.clock = mF.nextNode
    rw [hrel.nextNode]; exact h.abs.clock
  · intro e'
    rw [hems']
    simp only [Spec.delE]
    by_cases c : e' = e
    · simp [c]
    · simp only [c, if_false]; exact h.abs.eAlive e'
  · intro l'
    show s.lAlive l' = (mF.listeners l').isSome
    rw [hrel.isSome]; exact h.abs.lAlive l'
  · intro e' g'
    rw [hdata']
    simp only [Spec.delE]
    by_cases c : e' = e
    · simp [c, Sig.empty, liveOf]
    · simp only [c, if_false]; exact h.abs.live e' g'
  · intro e' g' hal'
    rw [hems'] at hal'
    simp only [Spec.delE]
    by_cases c : e' = e
    · simp [c] at hal'
    · simp only [c, if_false] at hal' ⊢
      show _ = countFrames mF.frames (e', g')
      rw [countFrames_congr hrel.fdata]; exact h.abs.depth e' g' hal'
  · intro e' g' hal'
    rw [hems'] at hal'
    simp only [Spec.delE]
    by_cases c : e' = e
    · simp [c] at hal'
    · simp only [c, if_false] at hal' ⊢
      show _ ↔ countFrames mF.frames (e', g') = 0
      rw [countFrames_congr hrel.fdata]; exact h.abs.outer e' g' hal'
  · intro e' g' d t hd ht
    rw [hdata'] at hd
    simp only [Spec.delE] at ht
    by_cases c : e' = e
    · simp [c] at hd
    · simp only [c, if_false] at hd ht
      exact h.abs.born e' g' d t hd ht
  · intro e' g' t ht
    simp only [Spec.delE] at ht
    show t ≤ s.clock
    by_cases c : e' = e
    · simp [c, Sig.empty] at ht
    · simp only [c, if_false] at ht
      exact h.abs.startLe e' g' t ht
  · show Cursors (mF.setEmitter e none) K mF.frames
    apply cursors_frames_congr hrel.fdata.symm
    apply cursors_mono (m := m) (by show m.nextNode ≤ mF.nextNode; rw [hrel.nextNode]; exact Nat.le_refl _) _ h.cur
    intro e' g' d' _ hal' hd'
    rw [hems'] at hal'
    rw [hdata'] at hd'
    by_cases c : e' = e
    · simp [c] at hal'
    · simp only [c, if_false] at hal' hd'
      exact ⟨hal', d', hd', fun _ _ _ hh => hh⟩

end Nstd.Callback
