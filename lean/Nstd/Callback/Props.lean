import Nstd.Callback.Model
import Nstd.Callback.Spec
namespace Nstd.Callback
theorem placeholder : (State.create 3 3).frames = [] := rfl
end Nstd.Callback
