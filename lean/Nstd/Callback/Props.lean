import Nstd.Callback.LemmasMonitor
import Nstd.Callback.LemmasFuel
import Nstd.Callback.LemmasGhost
import Nstd.Callback.LemmasTerm
import Nstd.Callback.LemmasOrder
import Nstd.Callback.LemmasArgs
import Nstd.Callback.LemmasAudit
import Nstd.Callback.LemmasConnOrder
/-
  Property C12 — signals reach exactly the connected slots, safely under re-entrancy.

  `machine` is the model of Callback.cpp (Model.lean), `Spec.machine` the snapshot
  specification (Spec.lean); both are run by the same program evaluator `exec` (the `emit`
  template + the slot bodies = scripts of connect / disconnect / emit / delete listener /
  delete emitter / new listener / new emitter actions indexed by (listener, slot, invocation
  number); the actions name the harness's variables `em[i]`, `li[i]`, a destroyed object can be
  replaced by a new one).  `runOps` runs a list of top-level actions, each to completion with its
  own fuel, as the driver does; `Run.init _ ne nl` = the first `ne` / `nl` objects are held by the
  variables, every other object id is unused (an unused object is a freshly constructed one).
  Every theorem is for all programs `P`, all numbers of emitters/listeners, all action lists
  and all fuel (when the fuel runs out both evaluators stop at the same point, so the
  statements hold without a side condition; `fuel_irrelevant`: a run that did not run out is
  the same for every larger fuel).

  The proof is a simulation: `Sim m s K` (Inv.lean) relates a model state `m` — three slot
  states, dirty flags, the stack of activation frames with `next`/`invalidated` — to a
  specification state `s` and carries the stack `K` of the emission loops in progress; each
  of the nine primitives preserves it (Lemmas*.lean), `exec_sim` (Eval.lean) lifts that to
  programs of arbitrary nesting.
-/
namespace Nstd.Callback
open Spec

/-- **emit_refines.**  For every program and every history of top-level actions the invocation
    log of the model of Callback.cpp is the invocation log of the specification: an emission
    invokes, in connection order, exactly the connections made before the outermost emission of
    that signal in progress began and still live at their turn.
    The log also holds the argument every slot received and a mark for the start (emitter variable,
    signal, argument) and the return of every `emit` call, so the equality covers the arguments and
    the nesting structure of the emissions as well.
    The log labels an invocation by the harness index the listener object carries in its `id` field
    (`Run.lIdx`), as the C++ harness does, not by the object id: a listener re-created in the same
    variable (`newL`) is a new object id in both machines and logs under the same index as its
    predecessor.  That the invoked object is the live one and not the destroyed predecessor is not
    read off the log but stated separately: `no_use_after_free` (the evaluator flags any invocation
    of a destroyed object id) and `never_invoked_unless_listed`. -/
theorem emit_refines (P : Prog) (ne nl fuel : Nat) (ops : List Action) :
    (runOps machine P fuel (Run.init State.fresh ne nl) ops).log =
      (runOps Spec.machine P fuel (Run.init SState.fresh ne nl) ops).log :=
  (runOps_rel P fuel ops (init_rel ne nl)).log

/-- **invocation_order_is_connection_order.**  The uid of a connection is the value of the clock when
    `connect` made it (the clock only grows): older = smaller uid.  In every state reachable in the middle of
    any nesting of emissions of any program (`Sim m s K` with the loop of an emission of (e, g) pending):
    (1) the live connections of the signal are listed in connection order (uids strictly increasing) and all
    lie in the past, so the connection the next `connect` makes is the youngest and goes to the end;
    (2) the connections this emission will still invoke (snapshot, still live) are in connection order;
    (3) when the loop of the model decides to invoke (l, x), that is the OLDEST of them: every connection the
    emission invokes later is younger.  So each emission invokes its slots oldest connection first (with
    `emit_refines`: for every program the log of the code's model is the log of this ordered walk), and by
    `reconnect_is_youngest` a disconnect + connect of the same pair makes the youngest connection.
    The model-side form of (1), checked at every step of every run by `no_dangling` (`Audit.order`): every slot
    list is strictly increasing in the time stamp `connect` gave its entries. -/
theorem invocation_order_is_connection_order {m : State} {s : SState} {K : MStack} {fid e g : Nat} {idx : Option Nat}
    {snap : List Nat} (h : Sim m s (((fid, idx), ((e, g), snap)) :: K)) :
    (s.sig e g).live.Pairwise (fun a b => a.uid < b.uid) ∧ (∀ c ∈ (s.sig e g).live, c.uid < s.clock) ∧
    (snap.filter (isLive (s.sig e g).live)).Pairwise (· < ·) ∧
    ∀ l x p', machine.next m fid idx = .call l x p' →
      ∃ c rest, nextLive (s.sig e g).live snap = some (c, rest) ∧ c ∈ (s.sig e g).live ∧ c.receiver = l ∧ c.slot = x ∧
        ∀ u ∈ rest.filter (isLive (s.sig e g).live), c.uid < u :=
  ⟨(live_in_connection_order h e g).1, (live_in_connection_order h e g).2, pending_in_connection_order h,
    fun _ _ _ hc => next_is_oldest h hc⟩

/-- a disconnect followed by a connect of the same pair (inside or outside an emission) removes the oldest
    connection of that pair and appends a new one born now: the re-connected slot is the youngest connection -/
theorem reconnect_is_youngest (s : SState) (e g l x : Nat) :
    ((Spec.connect e g l x (Spec.disconnect e g l x s)).sig e g).live =
      removeOldest l x (s.sig e g).live ++ [{ uid := s.clock, receiver := l, slot := x }] := by
  simp [Spec.connect, Spec.disconnect, SState.setSig]

/-- **Connection order after every top-level call.**  After any history: every signal's live list in the
    specification is strictly increasing in the time of connection, and it is, entry by entry, the emitter's slot
    list (`bookkeeping_consistent`): the emitter side lists the connections in the order in which they were made
    (as the listener side does, `listener_side_exact`). -/
theorem connection_order_after_history (P : Prog) (ne nl fuel : Nat) (ops : List Action) (e g : Nat) :
    let m := (runOps machine P fuel (Run.init State.fresh ne nl) ops).m
    let s := (runOps Spec.machine P fuel (Run.init SState.fresh ne nl) ops).m
    (s.sig e g).live.Pairwise (fun a b => a.uid < b.uid) ∧ (∀ c ∈ (s.sig e g).live, c.uid < s.clock) ∧
      ∀ d, m.data e g = some d → d.slots.Pairwise (fun a b => a.node < b.node) := by
  intro m s
  have h : Sim m s [] := (runOps_rel P fuel ops (init_rel ne nl)).sim
  exact ⟨(live_in_connection_order h e g).1, (live_in_connection_order h e g).2, fun d hd => h.sl.sorted e g d hd⟩

/-- **Argument forwarding.**  `emit(signal, arg0, …)` takes its arguments by value of the declared
    parameter types and its loop hands them to every slot it invokes (Callback.hpp:42-59; in the
    evaluator the argument `v` is a parameter of the loop task, the log records every slot
    invocation with the argument received and the start / return of every `emit` call with the
    argument given).  For every program — emissions nested to any depth, on the same or on other
    emitters, with other arguments; slots that connect, disconnect, destroy — and every fuel: reading
    the log with the stack of the arguments of the `emit` calls in progress (`fwd`), every slot
    invocation happens inside an `emit` call and receives exactly the argument given to that call
    (the innermost one in progress: everything a slot starts has returned before the loop goes on),
    unchanged by whatever ran in between, and every `emit` call returns exactly once (also when the
    fuel runs out).  With `emit_refines` (the logs of model and specification are equal, arguments and
    `emit` marks included) the same holds for the specification.
    Parameter types that are references (`P.ref g`: the signal is declared `void sig(int&)`, so `emit` declares
    `int& arg0`): see `args_forwarded_ref`; `fwd` covers both kinds. -/
theorem args_forwarded (P : Prog) (ne nl fuel : Nat) (ops : List Action) :
    fwd P.ref [] (runOps machine P fuel (Run.init State.fresh ne nl) ops).log.reverse = some [] := by
  obtain ⟨new, h, hf⟩ := runOps_fwd machine P fuel ops (Run.init State.fresh ne nl)
  rw [h]
  simpa [Run.init] using hf []

/-- ... and inside one emission: whatever the loop of an emission with a BY-VALUE argument `v` adds to the log (from
    any state, any fuel) is accepted under `v` and leaves the stack, `v` included, as it was -/
theorem args_forwarded_loop (P : Prog) (fuel : Nat) (r : Run State) (fid : Nat) (idx : Option Nat) (v : Nat) :
    ∃ new, (exec machine P fuel r (.loop fid idx ⟨v, false⟩)).log = new ++ r.log ∧
      ∀ st, fwd P.ref (⟨v, false⟩ :: st) new.reverse = some (⟨v, false⟩ :: st) := by
  obtain ⟨new, v', h, hv, hf⟩ := (exec_fwd machine P fuel).2 r fid idx ⟨v, false⟩
  rw [hv rfl] at hf
  exact ⟨new, h, hf⟩

/-- **args_forwarded_ref — reference-typed arguments.**  When the parameter type of the signal is a reference
    (`A = int&`, `const T&`; a pointer behaves alike for the pointee) `emit` declares `A arg0`, i.e. a reference to the
    caller's object, and hands it to every slot: all slots of the emission work on ONE object.  In the evaluator the
    argument of the loop is a cell (`Arg`, `ref = true`): every slot is called with the current content, a slot body
    that adds to its parameter (`bump d`) leaves the sum in the cell (`ret w` in the log), and the loop goes on with
    that.  For every program, every fuel, from any state: what the loop adds to the log is accepted by `fwd` started
    with the cell `v` — the first slot sees the value the caller passed, each later slot sees exactly the value the
    previous slot of this emission left (whatever nested emissions, by value or by reference, ran in between: they
    have cells of their own), and the caller finds the value the last slot left (`v'`).  Whole runs: `args_forwarded`
    (the `fwd` there treats every emission according to `P.ref`).  With `emit_refines` the specification's log is the same. -/
theorem args_forwarded_ref (P : Prog) (fuel : Nat) (r : Run State) (fid : Nat) (idx : Option Nat) (v : Nat) :
    ∃ new v', (exec machine P fuel r (.loop fid idx ⟨v, true⟩)).log = new ++ r.log ∧
      ∀ st, fwd P.ref (⟨v, true⟩ :: st) new.reverse = some (v' :: st) := by
  obtain ⟨new, v', h, _, hf⟩ := (exec_fwd machine P fuel).2 r fid idx ⟨v, true⟩
  exact ⟨new, v', h, hf⟩

/-- the same from any pair of related states in the middle of arbitrarily nested emissions
    (`K` = the loops in progress), for any script -/
theorem emit_refines_nested (P : Prog) (fuel : Nat) (K : MStack) (script : List Action)
    (r₁ : Run State) (r₂ : Run SState) (h : RunRel Sim K r₁ r₂) :
    (exec machine P fuel r₁ (.acts script)).log = (exec Spec.machine P fuel r₂ (.acts script)).log ∧
      RunRel Sim K (exec machine P fuel r₁ (.acts script)) (exec Spec.machine P fuel r₂ (.acts script)) :=
  have hr := (exec_sim simOK P fuel).1 K script r₁ r₂ h
  ⟨hr.log, hr⟩

/-- the emission loop itself: from related states the rest of an emission produces the same log
    and ends in related states -/
theorem emit_refines_loop (P : Prog) (fuel : Nat) (K : MStack) (fid : Nat) (idx : Option Nat) (eg : Nat × Nat) (snap : List Nat)
    (v : Arg) (r₁ : Run State) (r₂ : Run SState) (h : RunRel Sim (((fid, idx), (eg, snap)) :: K) r₁ r₂) :
    (exec machine P fuel r₁ (.loop fid idx v)).log = (exec Spec.machine P fuel r₂ (.loop eg snap v)).log := by
  obtain ⟨_, _, hr⟩ := (exec_sim simOK P fuel).2 K fid idx eg snap v r₁ r₂ h
  exact hr.log

/-- **Safety.**  No run ever touches freed memory: the evaluator never invokes a slot of a
    destroyed listener and never reads the slot list of a destroyed emitter (`bad`), the model
    never reaches a destroyed emitter from `~Listener` / `~SignalActivation` nor a destroyed
    listener from `~Emitter` (`fault`), whatever the slots do (connect, disconnect, emit
    recursively, destroy listeners or emitters, their own included). -/
theorem no_use_after_free (P : Prog) (ne nl fuel : Nat) (ops : List Action) :
    (runOps machine P fuel (Run.init State.fresh ne nl) ops).bad = false ∧
      (runOps machine P fuel (Run.init State.fresh ne nl) ops).m.fault = false :=
  have h := runOps_rel P fuel ops (init_rel ne nl)
  ⟨h.bad₁, h.sim.nofault⟩

/-- **never_after_disconnect_or_destroy.**  Whenever the emission loop of the model decides to
    invoke slot `x` of listener `l` (in any state reachable in the middle of any nesting of
    emissions), that connection is live in the specification — it was connected and has been
    neither disconnected nor lost its listener or emitter — the listener and the emitter
    exist, and the listener's own bookkeeping still lists the pair. -/
theorem never_after_disconnect_or_destroy {m : State} {s : SState} {K : MStack} {fid e g : Nat} {idx : Option Nat}
    {snap : List Nat} {l x : Nat} {p' : Option Nat} (h : Sim m s (((fid, idx), ((e, g), snap)) :: K))
    (hcall : machine.next m fid idx = .call l x p') :
    s.eAlive e = true ∧ s.lAlive l = true ∧ (∃ c ∈ (s.sig e g).live, c.receiver = l ∧ c.slot = x) ∧
      (m.emitters e).isSome = true ∧ ∃ li, m.listeners l = some li ∧ (g, x) ∈ li.sigs e := by
  have hn := sim_next h
  rw [hcall] at hn
  cases hs : Spec.machine.next s (e, g) snap with
  | done => rw [hs] at hn; exact absurd hn (by simp [StepRel])
  | fault => rw [hs] at hn; exact absurd hn (by simp [StepRel])
  | call l' x' q' =>
    rw [hs] at hn
    obtain ⟨rfl, rfl, hal, _⟩ := hn
    simp only [Spec.machine, Spec.next] at hs
    by_cases hea : s.eAlive e = true
    · simp only [hea, if_true] at hs
      cases hnl : nextLive (s.sig e g).live snap with
      | none => rw [hnl] at hs; cases hs
      | some cr =>
        obtain ⟨c, rest⟩ := cr
        rw [hnl] at hs
        simp only [Step.call.injEq] at hs
        obtain ⟨hr, hx, _⟩ := hs
        have hcm := (nextLive_some hnl).1
        simp only [machine] at hal
        have hlA : s.lAlive l = true := by rw [h.abs.lAlive]; exact hal
        have heA : (m.emitters e).isSome = true := by rw [← h.abs.eAlive]; exact hea
        refine ⟨hea, hlA, ⟨c, hcm, hr, hx⟩, heA, ?_⟩
        cases hli : m.listeners l with
        | none => rw [hli] at hal; simp at hal
        | some li =>
          refine ⟨li, rfl, ?_⟩
          have hcnt := h.b.count l li e g x hli
          rw [h.abs.live] at hcm
          cases hd : m.data e g with
          | none => rw [hd] at hcm; simp [liveOf] at hcm
          | some d =>
            rw [hd] at hcm hcnt
            obtain ⟨y, hy, hnd, rfl⟩ := mem_liveOf hcm
            have hpos : 0 < d.slots.countP (fun z => z.isMatch l x) := by
              rw [List.countP_pos_iff]
              refine ⟨y, hy, ?_⟩
              simp only [Slot.toConn] at hr hx
              simp [Slot.isMatch, hr, hx, hnd]
            have : 0 < (li.sigs e).count (g, x) := by rw [hcnt]; exact hpos
            exact List.count_pos_iff.1 this
    · simp only [hea, if_false] at hs
      cases hs

/-- **never_after_disconnect_or_destroy, over whole runs.**  `monitored` is the model with a
    run-time check added to the emission loop: a slot `x` of listener `l` may be invoked for an
    emission of signal (e, g) only if, at that very moment, emitter `e` exists, listener `l` exists
    and the listener's own list for `e` contains the pair (g, x) — otherwise the run is flagged
    `bad`.  (The listener side is updated at once by `disconnect`, `~Listener`, `~Emitter`; only the
    emitter side defers.)  For every program the monitored run is never flagged and is, state
    and log, the run of the unmonitored model: no invocation anywhere in any run violates the
    condition. -/
theorem never_invoked_unless_listed (P : Prog) (ne nl fuel : Nat) (ops : List Action) :
    (runOps monitored P fuel (Run.init State.fresh ne nl) ops).bad = false ∧
      (runOps monitored P fuel (Run.init State.fresh ne nl) ops).m =
        (runOps machine P fuel (Run.init State.fresh ne nl) ops).m ∧
      (runOps monitored P fuel (Run.init State.fresh ne nl) ops).log =
        (runOps machine P fuel (Run.init State.fresh ne nl) ops).log := by
  have h0 : RunRel SimM [] (Run.init State.fresh ne nl) (Run.init State.fresh ne nl) :=
    ⟨⟨rfl, fun k hk => by simp at hk, SState.fresh, [], sim_init, rfl⟩, ⟨rfl, rfl, rfl, rfl, rfl⟩, rfl, rfl, rfl, rfl, fun hh => hh⟩
  have h := runOps_relM P fuel ops h0
  exact ⟨h.bad₁, h.sim.1, h.log⟩

/-- **no_dangling — memory safety and two-sided consistency at every step of every run.**
    `Audit m` (LemmasAudit.lean) states on the model's own data that every stored pointer that can
    still be followed is valid — `SignalActivation::next` and `SignalData::activation` point to live
    activations of the same signal; an activation that is not invalidated has its `SignalData` while its
    emitter exists; an invalidated activation belongs to a destroyed emitter and the innermost activation of
    every signal of a destroyed emitter is invalidated; `Slot::receiver`/`object` of every entry not marked
    `disconnected` is a live listener; every `Emitter*` under which a listener stores anything is a live
    emitter; the maps' key lists are complete — and that the two sides are inverse to each other as
    multisets: for every emitter, signal, listener, slot (destroyed objects included) the number of entries
    not marked `disconnected` on the emitter side = the number of pairs on the listener side.
    `audited` is the model whose every primitive — connect, disconnect, `~Listener`, `~Emitter`, the
    constructor of an activation, every step of every emission loop, the destructor of an activation — first
    evaluates the audit on the state it starts from and raises the fault flag when it fails; the
    destructor of an activation also checks that it is the innermost activation (so exactly one frame is
    popped: every activation is destroyed exactly once, in reverse order of construction).
    For every program, at any nesting depth and every fuel: the audited run is never flagged and is, state
    and log, the run of the plain model (no audit ever failed, at top level or inside any slot), and the
    state after the history passes the audit too.  Together with `bookkeeping_consistent` (no frame is left
    after a top-level call): every activation pushed is popped exactly once. -/
theorem no_dangling (P : Prog) (ne nl fuel : Nat) (ops : List Action) :
    (runOps audited P fuel (Run.init State.fresh ne nl) ops).bad = false ∧
      (runOps audited P fuel (Run.init State.fresh ne nl) ops).m.fault = false ∧
      (runOps audited P fuel (Run.init State.fresh ne nl) ops).m =
        (runOps machine P fuel (Run.init State.fresh ne nl) ops).m ∧
      (runOps audited P fuel (Run.init State.fresh ne nl) ops).log =
        (runOps machine P fuel (Run.init State.fresh ne nl) ops).log ∧
      Audit (runOps machine P fuel (Run.init State.fresh ne nl) ops).m := by
  have h0 : RunRel SimM [] (Run.init State.fresh ne nl) (Run.init State.fresh ne nl) :=
    ⟨⟨rfl, fun k hk => by simp at hk, SState.fresh, [], sim_init, rfl⟩, ⟨rfl, rfl, rfl, rfl, rfl⟩, rfl, rfl, rfl, rfl, fun hh => hh⟩
  have h := runOps_relA P fuel ops h0
  have hp := runOps_rel P fuel ops (init_rel ne nl)
  refine ⟨h.bad₁, ?_, h.sim.1, h.log, audit_of_sim hp.sim⟩
  rw [h.sim.1]
  exact hp.sim.nofault

/-- **What is left of a destroyed object.**  In every state that passes the audit (by `no_dangling`: every state any run
    reaches, at any nesting depth): the only places that still mention a destroyed listener are slot entries marked
    `disconnected` (which exist only while an emission of that signal runs; no loop of Callback.cpp follows or matches
    them: `Slot.isMatch`, `dropSignal`, `nextConnected`, `purge` test the state first); a destroyed emitter has no signal
    data, no listener stores a pair under its key (the key itself may stay in the listener's map with an empty list, which
    `~Listener` walks without following the key), and the innermost activation of each of its signals is invalidated (an
    invalidated activation reads neither its emitter nor its data).  So a new object that gets the address of a destroyed
    one finds nothing that is matched against or followed through that address.  (The model itself gives a new object a
    new id; the model that re-uses listener ids and its refinement are in PropsReuse.lean, emitter ids are OPEN there; the real code is
    run with exact address reuse by the `reuse` lines of the correspondence run.) -/
theorem stale_mentions_are_dead_data {m : State} (h : Audit m) :
    (∀ l, m.listeners l = none → ∀ e g d, m.data e g = some d → ∀ x ∈ d.slots,
      (x.receiver = l ∨ x.object = l) → x.state = .disconnected) ∧
    (∀ e, m.emitters e = none →
      (∀ g, m.data e g = none) ∧ (∀ l li, m.listeners l = some li → li.sigs e = []) ∧
      ∀ g i, topOf m.frames (e, g) = some i → ∃ f, frameAt m.frames i = some f ∧ f.invalidated = true) := by
  refine ⟨?_, ?_⟩
  · intro l hl e g d hd x hx hm
    apply Classical.byContradiction
    intro hn
    obtain ⟨hr, ho⟩ := h.recv e g d hd x hx hn
    rcases hm with hm | hm
    · rw [hm, hl] at hr; simp at hr
    · rw [ho] at hm; rw [hm, hl] at hr; simp at hr
  · intro e he
    refine ⟨fun g => by simp [State.data, he], ?_, fun g i => h.deadInv e g i he⟩
    intro l li hl
    apply Classical.byContradiction
    intro hne
    have := (h.lemit l li e hl hne).1
    rw [he] at this; simp at this

/-- **The two sides are inverse to each other after every top-level call.**  After any history (the
    statement is for every list `ops`, hence for every prefix of a history: after EVERY top-level call), for
    every emitter, signal, listener and slot, destroyed or never used objects included: the number of
    entries (receiver, slot) in the emitter's slot list of that signal = the number of (signal, slot) pairs
    the listener stores under that emitter — as multisets of (emitter, signal, listener, slot) the two sides
    are equal.  (All entries are `connected` then, `bookkeeping_consistent`; inside an emission the same
    holds for the entries not marked `disconnected`, `no_dangling`.) -/
theorem two_sides_inverse (P : Prog) (ne nl fuel : Nat) (ops : List Action) (e g l x : Nat) :
    let m := (runOps machine P fuel (Run.init State.fresh ne nl) ops).m
    (match m.data e g with
      | none => 0
      | some d => d.slots.countP (fun y => y.receiver == l && y.slot == x)) =
    (match m.listeners l with
      | none => 0
      | some li => (li.sigs e).count (g, x)) := by
  intro m
  have h : Sim m _ [] := (runOps_rel P fuel ops (init_rel ne nl)).sim
  have ha := (audit_of_sim h).inverse e g l x
  simp only [emitterSide, listenerSide] at ha
  refine Eq.trans ?_ ha
  cases hd : m.data e g with
  | none => rfl
  | some d =>
    simp only
    apply List.countP_congr
    intro y hy
    have := (sim_quiescent h).2 e g d hd |>.2.2 y hy
    simp [Slot.isMatch, this]

/-- what "live in the specification" means: a disconnect removes the oldest connection of that
    receiver/slot, destroying a listener or an emitter removes all of theirs -/
theorem spec_live_after_destroy (s : SState) :
    (∀ l e g c, c ∈ ((Spec.delL l s).sig e g).live → c.receiver ≠ l) ∧
    (∀ e g, ((Spec.delE e s).sig e g).live = []) ∧
    (∀ e g l x, ((Spec.disconnect e g l x s).sig e g).live = removeOldest l x (s.sig e g).live) := by
  refine ⟨?_, ?_, ?_⟩
  · intro l e g c hc
    simp only [Spec.delL, List.mem_filter] at hc
    simpa using hc.2
  · intro e g; simp [Spec.delE, Sig.empty]
  · intro e g l x; simp [Spec.disconnect, SState.setSig]

/-- **bookkeeping_consistent.**  After any history of top-level actions (every emission has
    ended): no activation is left; every slot list is clean — no activation pointer, dirty flag
    off, every entry `connected` (nothing `connecting` or `disconnected` remains) —; every
    entry's receiver exists (no dangling receiver); the listener side holds, for every emitter,
    exactly as many (signal, slot) pairs as the emitter side has entries for that listener and
    slot (nothing at all under a destroyed emitter); and the emitter side is, in order, the list
    of live connections of the specification. -/
theorem bookkeeping_consistent (P : Prog) (ne nl fuel : Nat) (ops : List Action) :
    let m := (runOps machine P fuel (Run.init State.fresh ne nl) ops).m
    let s := (runOps Spec.machine P fuel (Run.init SState.fresh ne nl) ops).m
    m.frames = [] ∧
    (∀ e g d, m.data e g = some d →
      d.activation = none ∧ d.dirty = false ∧
      ∀ x ∈ d.slots, x.state = .connected ∧ (m.listeners x.receiver).isSome = true) ∧
    (∀ l li e g x, m.listeners l = some li →
      (li.sigs e).count (g, x) = match m.data e g with
        | none => 0
        | some d => d.slots.countP (fun y => y.receiver == l && y.slot == x)) ∧
    (∀ l li e, m.listeners l = some li → m.emitters e = none → li.sigs e = []) ∧
    (∀ e g, (s.sig e g).live = match m.data e g with
        | none => []
        | some d => d.slots.map Slot.toConn) := by
  intro m s
  have h : Sim m s [] := (runOps_rel P fuel ops (init_rel ne nl)).sim
  obtain ⟨hfr, hq⟩ := sim_quiescent h
  refine ⟨hfr, ?_, ?_, ?_, ?_⟩
  · intro e g d hd
    obtain ⟨ha, hdirty, hall⟩ := hq e g d hd
    refine ⟨ha, hdirty, fun x hx => ⟨hall x hx, ?_⟩⟩
    exact h.b.recv e g d hd x hx (by rw [hall x hx]; simp)
  · intro l li e g x hl
    rw [h.b.count l li e g x hl]
    cases hd : m.data e g with
    | none => rfl
    | some d =>
      simp only
      apply List.countP_congr
      intro y hy
      have := (hq e g d hd).2.2 y hy
      simp [Slot.isMatch, this]
  · intro l li e hl he
    apply eq_nil_of_count_zero
    intro a
    have := h.b.count l li e a.1 a.2 hl
    simpa [State.data, he] using this
  · intro e g
    rw [h.abs.live]
    cases hd : m.data e g with
    | none => rfl
    | some d =>
      simp only [liveOf, liveSlots]
      congr 1
      apply List.filter_eq_self.2
      intro y hy
      have := (hq e g d hd).2.2 y hy
      simp [this]

/-- **The listener side, in order.**  After any history (and, by `orderOK`, at every point inside
    one): the list of (signal, slot) pairs a listener stores under an emitter is, element by element,
    the listener's view `lsig` of the specification; that view holds exactly the live connections of
    the listener to the emitter — `(u, g, x)` is in it iff the connection with uid `u` of that
    listener to slot `x` is live on signal `g` — sorted by uid, i.e. in order of connection.  So the
    listener side lists exactly the live connections, oldest first (not only the right number of
    each pair, as `bookkeeping_consistent` says). -/
theorem listener_side_exact (P : Prog) (ne nl fuel : Nat) (ops : List Action) :
    let m := (runOps machine P fuel (Run.init State.fresh ne nl) ops).m
    let s := (runOps Spec.machine P fuel (Run.init SState.fresh ne nl) ops).m
    (∀ l li e, m.listeners l = some li → li.sigs e = (s.lsig l e).map (·.2)) ∧
    (∀ l e u g x, (u, g, x) ∈ s.lsig l e ↔ ({ uid := u, receiver := l, slot := x } : Conn) ∈ (s.sig e g).live) ∧
    (∀ l e, (s.lsig l e).Pairwise (fun a b => a.1 < b.1)) := by
  intro m s
  have h0 : RunRel SimO [] (Run.init State.fresh ne nl) (Run.init SState.fresh ne nl) :=
    ⟨simO_init, ⟨rfl, rfl, rfl, rfl, rfl⟩, rfl, rfl, rfl, rfl, fun hh => hh⟩
  have h := (runOps_relO P fuel ops h0).sim
  exact ⟨h.ls, h.inv.mem, h.inv.sorted⟩

/-- **The fuel is only a device.**  A run of the model that did not exhaust its fuel is the same,
    state, log and all, for every larger fuel (so the theorems above, which hold for every fuel,
    speak about *the* behaviour of every terminating program; a program whose slots re-emit for
    ever exhausts every fuel, as it exhausts the C++ stack). -/
theorem fuel_irrelevant (P : Prog) (ne nl n : Nat) (ops : List Action)
    (h : (runOps machine P n (Run.init State.fresh ne nl) ops).oof = false) (n' : Nat) (hn : n ≤ n') :
    runOps machine P n' (Run.init State.fresh ne nl) ops = runOps machine P n (Run.init State.fresh ne nl) ops :=
  runOps_fuel_mono machine P n ops _ h n' hn

/-- **Termination.**  A program given by a finite script table (what the harness can express:
    each cell (listener, slot, invocation#) holds a finite script and is consumed by at most one
    invocation) terminates: some fuel is enough for the model to run every top-level action to
    completion, and every larger fuel gives the same run.  (Proved on the specification, whose
    emission loop walks a snapshot that gets shorter, and carried over by the simulation.) -/
theorem terminates (T : Table) (rf : Nat → Bool) (ne nl : Nat) (ops : List Action) :
    ∃ fuel, (runOps machine (Prog.ofTable T rf) fuel (Run.init State.fresh ne nl) ops).oof = false ∧
      ∀ fuel', fuel ≤ fuel' →
        runOps machine (Prog.ofTable T rf) fuel' (Run.init State.fresh ne nl) ops =
          runOps machine (Prog.ofTable T rf) fuel (Run.init State.fresh ne nl) ops := by
  obtain ⟨n, hn⟩ := spec_runOps_terminates T rf ops (Run.init SState.fresh ne nl) rfl
  have h := (runOps_rel (Prog.ofTable T rf) n ops (init_rel ne nl)).oof hn
  exact ⟨n, h, fun n' hn' => runOps_fuel_mono machine _ n ops _ h n' hn'⟩

/-- **The node numbers are ghosts.**  `Slot.node` (the identity of a list node, used by the proofs
    to speak about "the same connection") influences nothing: `machine0` is the model whose
    `connect` stores node 0 and never advances the allocation counter; for every program its run
    has the same invocation log and ends in the erasure (`State.strip`: all node numbers 0) of the
    state the model ends in. -/
theorem node_is_ghost (P : Prog) (ne nl fuel : Nat) (ops : List Action) :
    (runOps machine0 P fuel (Run.init State.fresh ne nl) ops).log =
        (runOps machine P fuel (Run.init State.fresh ne nl) ops).log ∧
      (runOps machine0 P fuel (Run.init State.fresh ne nl) ops).m =
        (runOps machine P fuel (Run.init State.fresh ne nl) ops).m.strip := by
  have h0 : RunRel SimG [] (Run.init State.fresh ne nl) (Run.init State.fresh ne nl) :=
    ⟨⟨fresh_strip.symm, fun k hk => by simp at hk, Spec.SState.fresh, [], sim_init, rfl⟩,
      ⟨rfl, rfl, rfl, rfl, rfl⟩, rfl, rfl, rfl, rfl, fun hh => hh⟩
  have h := runOps_relG P fuel ops h0
  exact ⟨h.log.symm, h.sim.1⟩

/-! ### non-vacuity: a concrete program in which a slot disconnects, re-connects and disconnects
    itself inside an emission (the input of defect D18), then is not invoked any more -/

def d18 : Prog :=
  { script := fun l s k => if l = 0 ∧ s = 0 ∧ k = 0 then
      [.disconnect 0 0 0 0, .connect 0 0 0 0, .disconnect 0 0 0 0, .connect 0 0 1 1, .emit 0 0 4] else [] }

def d18ops : List Action :=
  [.connect 0 0 0 0, .connect 0 0 1 0, .emit 0 0 3, .emit 0 0 5, .delL 1, .newL 1, .connect 0 0 1 1, .emit 0 0 6, .delE 0]

example : (runOps machine d18 20 (Run.init State.fresh 1 2) d18ops).log.reverse =
    [.emitBegin 0 0 3, .call 0 0 3, .emitBegin 0 0 4, .call 1 0 4, .emitEnd, .call 1 0 3, .emitEnd,
     .emitBegin 0 0 5, .call 1 0 5, .call 1 1 5, .emitEnd, .emitBegin 0 0 6, .call 1 1 6, .emitEnd] := by decide

example : (runOps Spec.machine d18 20 (Run.init SState.fresh 1 2) d18ops).log.reverse =
    [.emitBegin 0 0 3, .call 0 0 3, .emitBegin 0 0 4, .call 1 0 4, .emitEnd, .call 1 0 3, .emitEnd,
     .emitBegin 0 0 5, .call 1 0 5, .call 1 1 5, .emitEnd, .emitBegin 0 0 6, .call 1 1 6, .emitEnd] := by decide

/-! ### the situation of seeded change C12-5 (corpus/C12/s11): connections A.toggle, B.slot, C.slot in this order; in the
    second emission A disconnects B and connects it again: B is not invoked in that emission and is the youngest
    connection afterwards (A, C, B); toggling C outside an emission gives A, B, C again -/

def toggle : Prog :=
  { script := fun l s k => if l = 0 ∧ s = 0 ∧ k = 1 then [.disconnect 0 0 1 0, .connect 0 0 1 0] else [] }

def toggleOps : List Action :=
  [.connect 0 0 0 0, .connect 0 0 1 0, .connect 0 0 2 0, .emit 0 0 0, .emit 0 0 0, .emit 0 0 0, .emit 0 0 0,
   .disconnect 0 0 2 0, .connect 0 0 2 0, .emit 0 0 0]

example : (runOps machine toggle 20 (Run.init State.fresh 1 3) toggleOps).log.reverse =
    [.emitBegin 0 0 0, .call 0 0 0, .call 1 0 0, .call 2 0 0, .emitEnd,
     .emitBegin 0 0 0, .call 0 0 0, .call 2 0 0, .emitEnd,
     .emitBegin 0 0 0, .call 0 0 0, .call 2 0 0, .call 1 0 0, .emitEnd,
     .emitBegin 0 0 0, .call 0 0 0, .call 2 0 0, .call 1 0 0, .emitEnd,
     .emitBegin 0 0 0, .call 0 0 0, .call 1 0 0, .call 2 0 0, .emitEnd] := by decide

example : (runOps Spec.machine toggle 20 (Run.init SState.fresh 1 3) toggleOps).log =
    (runOps machine toggle 20 (Run.init State.fresh 1 3) toggleOps).log := by decide

/-- the live list after the three emissions: uids 0 (A), 2 (C), 3 (B, re-connected at clock 3 inside the second
    emission; its old connection had uid 1) -/
example : (((runOps Spec.machine toggle 20 (Run.init SState.fresh 1 3) (toggleOps.take 6)).m.sig 0 0).live.map
    (fun c => (c.uid, c.receiver))) = [(0, 0), (2, 2), (3, 1)] := by decide

/-! ### cross-emitter nesting (corpus/C12/s03): emitter 0 emits signal 1 at depth 2 (its slot re-emits), the
    inner slot emits on emitter 1, whose slot destroys emitter 0: both activations of emitter 0 stop, the later
    slot (2, 1) is never invoked; the logs of model and specification, computed -/

def cross : Prog :=
  { script := fun l s k =>
      if l = 0 ∧ s = 0 ∧ k = 0 then [.emit 0 1 6]
      else if l = 0 ∧ s = 0 ∧ k = 1 then [.emit 1 2 7]
      else if l = 1 ∧ s = 1 ∧ k = 0 then [.delE 0] else [] }

def crossOps : List Action :=
  [.connect 0 1 0 0, .connect 0 1 2 1, .connect 1 2 1 1, .emit 0 1 5, .emit 1 2 8]

example : (runOps machine cross 30 (Run.init State.fresh 2 3) crossOps).log.reverse =
    [.emitBegin 0 1 5, .call 0 0 5, .emitBegin 0 1 6, .call 0 0 6, .emitBegin 1 2 7, .call 1 1 7, .emitEnd, .emitEnd,
     .emitEnd, .emitBegin 1 2 8, .call 1 1 8, .emitEnd] := by decide

example : (runOps Spec.machine cross 30 (Run.init SState.fresh 2 3) crossOps).log.reverse =
    (runOps machine cross 30 (Run.init State.fresh 2 3) crossOps).log.reverse := by decide

example : (runOps machine cross 30 (Run.init State.fresh 2 3) crossOps).oof = false := by decide

/-- `fwd` is not trivially true: the D18 run is accepted, the same log with one argument changed or
    with an invocation outside every emission is rejected -/
example : fwd d18.ref [] (runOps machine d18 20 (Run.init State.fresh 1 2) d18ops).log.reverse = some [] := by decide
example : fwd (fun _ => false) [] [.emitBegin 0 0 3, .call 0 0 3, .emitBegin 0 0 4, .call 1 0 3, .emitEnd, .emitEnd] = none := by decide
example : fwd (fun _ => false) [] [.emitBegin 0 0 3, .emitEnd, .call 0 0 3] = none := by decide

/-! ### reference parameters: signal 9 is declared with `int&`; slot (0,0) adds 2, slot (1,1) adds 5 and emits the by-value
    signal 1 in between, slot (2,0) adds nothing: they see 3, 5, 10; the nested by-value emission is untouched -/

def refProg : Prog :=
  { script := fun l s _ =>
      if l = 0 ∧ s = 0 then [.bump 2]
      else if l = 1 ∧ s = 1 then [.bump 1, .emit 0 1 7, .bump 4]
      else if l = 2 ∧ s = 1 then [.bump 9] else []
    ref := fun g => g == 9 }

def refOps : List Action :=
  [.connect 0 9 0 0, .connect 0 9 1 1, .connect 0 9 2 0, .connect 0 1 2 1, .connect 0 1 0 0, .emit 0 9 3]

example : (runOps machine refProg 20 (Run.init State.fresh 1 3) refOps).log.reverse =
    [.emitBegin 0 9 3, .call 0 0 3, .ret 5, .call 1 1 5, .emitBegin 0 1 7, .call 2 1 7, .call 0 0 7, .emitEnd, .ret 10,
     .call 2 0 10, .ret 10, .emitEnd] := by decide

example : (runOps Spec.machine refProg 20 (Run.init SState.fresh 1 3) refOps).log =
    (runOps machine refProg 20 (Run.init State.fresh 1 3) refOps).log := by decide

/-- `fwd` rejects the same log when a later slot does not see what the previous one left, or when a by-value slot "returns" a value -/
example : fwd refProg.ref [] [.emitBegin 0 9 3, .call 0 0 3, .ret 5, .call 1 1 3, .ret 8, .emitEnd] = none := by decide
example : fwd refProg.ref [] [.emitBegin 0 1 7, .call 2 1 7, .ret 16, .emitEnd] = none := by decide

/-- the hypothesis of `emit_refines_nested` is met by the initial states -/
example : RunRel Sim [] (Run.init State.fresh 3 3) (Run.init SState.fresh 3 3) := init_rel 3 3

/-- ... and by a state in the middle of an emission (one connection, its emission begun): the
    hypotheses of `emit_refines_loop` and `never_after_disconnect_or_destroy` are met with a
    non-empty stack and an actual invocation -/
def midModel : State := (actBegin 0 0 (connect 0 0 0 0 State.fresh)).1
def midSpec : SState := (Spec.begin 0 0 (Spec.connect 0 0 0 0 SState.fresh)).1

example : Sim midModel midSpec [((0, some 0), ((0, 0), [0]))] :=
  sim_begin 0 0 (sim_connect 0 0 0 0 sim_init rfl rfl) rfl

example : machine.next midModel 0 (some 0) = .call 0 0 (some 1) := rfl

/-- ... so `invocation_order_is_connection_order` speaks about an actual invocation there: the connection with uid 0 -/
example : ∃ c rest, nextLive (midSpec.sig 0 0).live [0] = some (c, rest) ∧ c.uid = 0 ∧ c.receiver = 0 := ⟨_, _, rfl, rfl, rfl⟩

/-- the hypothesis of `fuel_irrelevant` is met by the D18 program with fuel 20 -/
example : (runOps machine d18 20 (Run.init State.fresh 1 2) d18ops).oof = false := by decide

/-! ### the fault flags are live: in the inconsistent state defect D18 used to produce — the emitter
    still holds a `connected` entry for a listener that is gone — `~Emitter` faults and an emission
    is flagged -/

def danglingData : SignalData :=
  { activation := none, dirty := false,
    slots := [{ receiver := 0, object := 0, slot := 0, node := 0, state := .connected }] }

def dangling : State :=
  { emitters := fun e => if e = 0 then some { sigKeys := [0], sig := fun g => if g = 0 then some danglingData else none } else none
    listeners := fun _ => none, frames := [], nextNode := 1, fault := false }

example : (delEmitter 0 dangling).fault = true := rfl

/-- ... and the audit is not trivially true: that state fails it, and the audited model flags it -/
theorem not_audit_dangling : ¬ Audit dangling := fun h => by
  have := (h.recv 0 0 danglingData rfl _ (List.mem_singleton.2 rfl) (by decide)).1
  simp [dangling] at this

example : (audited.connect 0 0 0 0 dangling).fault = true := by
  simp [audited, audit, auditOK, not_audit_dangling, State.faulted]

/-- ... while a state in the middle of an emission passes it -/
example : Audit midModel :=
  audit_of_sim (sim_begin 0 0 (sim_connect 0 0 0 0 sim_init rfl rfl) rfl : Sim midModel midSpec _)
example : (exec machine d18 5 (Run.init dangling 1 1) (.acts [.emit 0 0 0])).bad = true := rfl

/-
  Address reuse (a re-created Listener / Emitter at the address of its predecessor): see PropsReuse.lean — the model with
  re-used LISTENER ids refines the specification (`reuse_listener_refines_spec`), no loop reads the stale fields
  (`stale_receiver_never_read`); OPEN there: emitter ids, and the specification with vs without reuse.
-/

end Nstd.Callback
