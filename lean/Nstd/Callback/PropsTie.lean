import Nstd.Generated.CallbackBody
import Nstd.Callback.LemmasBulk
/-
  Property C12, the tie by TRANSLATION.  `Nstd.Generated.CallbackBody` holds the bodies of
      Callback::connect   Callback::disconnect   Callback::Listener::~Listener   Callback::Emitter::~Emitter
      Callback::Emitter::SignalActivation::~SignalActivation   (src/Callback.cpp)
      the nine `connect` / `disconnect` templates and the loop of the nine `emit` templates   (include/nstd/Callback.hpp)
  as tools/gen_callback.py reads them off the CURRENT sources on every run: statement by statement, as functions over the heap
  operations of Heap.lean (references and iterators are paths into the heap, every store goes through its path, the search
  loops become `findIdx?`, the for-each loops `foldl`; see the header of the translator).  The theorems below state that the
  translated code IS the step of the hand-written model (Model.lean) the other theorems of C12 are about:
      tie_connect, tie_connectT        connect = `connect`          (live emitter and listener; absent map key = no list)
      tie_disconnect, tie_disconnectT  disconnect = `disconnect`    (live emitter and listener)
      tie_dtorListener                 ~Listener; the object dies = `delListener`   (every state with that listener)
      tie_dtorEmitter(_sim)            ~Emitter = the model's pair-by-pair form or the bulk form (`sim_bulk`: same specification state)
      tie_emit_next, tie_emit_first    the loop of `emit` up to the next call = `next`
  for every state (no reachability needed beyond the stated hypotheses, which `Audit` — hence every reachable state, by
  `no_dangling` — implies: `lkeys_of_audit`).  A change of one of these bodies changes the generated definition; if it changes
  what the body computes the equality fails (a broken obligation, and the check searches for a failing input); a rewrite the
  translator does not understand is refused (reported as a broken tie as well).
  `tie_dropSlot`, `tie_dropSignal`, `tie_delEmitterSig` quote the translated loop bodies: they must be the text the translator
  produces (up to the names of bound variables).
      tie_ctorActivation               SignalActivation(emitter, signal); push the frame = `actBegin`
      tie_dtorActivation               ~SignalActivation; pop the frame = `actEnd`  (innermost frame, `next` below it)
  `translated_code_runs_as_model`: the machine made of the translated bodies (`machineT`), run by the evaluator on any
  program, is state for state and log for log the model.
-/
set_option linter.unusedSimpArgs false
set_option linter.unusedVariables false
namespace Nstd.Callback
open Nstd.Generated

theorem tie_connect (st : State) (e g l s : Nat) (em : Emitter) (li : Listener)
    (he : st.emitters e = some em) (hl : st.listeners l = some li) (hk : e ∉ li.emKeys → li.sigs e = []) :
    CallbackBody.connect st e g l l s = connect e g l s st := by
  unfold CallbackBody.connect
  cases hd : em.sig g with
  | some d =>
    have h1 := nf_state he hl
    rw [← setSig_same hd] at h1
    rw [h1]
    cases ha : d.activation <;> by_cases hmem : e ∈ li.emKeys <;>
      simp [H.modLSig, H.lAppend, ha, hmem, modify_append_last, setEmitter_bumpNode, connect, hd, ite_ite_same, H.Slot.fresh] <;>
      simp [State.setEmitter, State.setListener, State.bumpNode, Listener.setSigs, hmem, hk, ite_ite_same]
  | none =>
    have h1 := nf_state he hl
    have hs : ∀ s0 : State, H.sigHas (s0.setEmitter e (some em)) e g = false := by intro s0; simp [H.sigHas, State.data, hd]
    rw [h1]
    by_cases hmem : e ∈ li.emKeys <;>
      simp [H.modLSig, H.lAppend, hmem, modify_append_last, setEmitter_bumpNode, connect, hd, hs, ite_ite_same, H.Slot.fresh, SignalData.empty] <;>
      simp [State.setEmitter, State.setListener, State.bumpNode, Listener.setSigs, hmem, hk, ite_ite_same]

theorem tie_disconnect (st : State) (e g l s : Nat) (em : Emitter) (li : Listener)
    (he : st.emitters e = some em) (hl : st.listeners l = some li) (hk : e ∉ li.emKeys → li.sigs e = []) :
    CallbackBody.disconnect st e g l s = disconnect e g l s st := by
  unfold CallbackBody.disconnect
  simp only [isMatch_eq]
  cases hd : em.sig g with
  | none =>
    have hs : H.sigHas st e g = false := by simp [H.sigHas, State.data, he, hd]
    simp [hs, disconnect, he, hl, hd, H.derefE]
  | some d =>
    have h1 := nf_state he hl
    rw [← setSig_same hd] at h1
    rw [h1]
    by_cases hmem : e ∈ li.emKeys
    · cases hf : d.slots.findIdx? (fun x => x.isMatch l s) with
      | none =>
        have hm := findIdx_none_hasMatch l s d.slots hf
        cases hf2 : (li.sigs e).findIdx? (fun x => x.1 == g && x.2 == s) with
        | none =>
          simp [hf, hf2, hmem, disconnect, hd, unlinkOrMark, hm, findIdx_erase_none hf2, ite_self_fn, setListener_setEmitter]
        | some k2 =>
          simp [hf, hf2, hmem, disconnect, hd, unlinkOrMark, hm, H.lRemove, findIdx_erase_some hf2, setListener_setEmitter]
      | some k =>
        obtain ⟨hm, hmark, herase⟩ := findIdx_some_hasMatch l s d.slots k hf
        cases ha : d.activation <;> cases hf2 : (li.sigs e).findIdx? (fun x => x.1 == g && x.2 == s) <;>
          simp [hf, hf2, ha, hmem, disconnect, hd, unlinkOrMark, hm, hmark, herase, H.lRemove, findIdx_erase_some, findIdx_erase_none,
            ite_self_fn, setListener_setEmitter] <;> rw [findIdx_erase_some hf2]
    · -- the receiver has no entry for this emitter: `*end()` is the empty list, nothing to erase
      have hsig := hk hmem
      have hfn : (fun e' => if e' = e then ([] : List (Nat × Nat)) else li.sigs e') = li.sigs := by
        have := ite_self_fn li.sigs e; rw [hsig] at this; exact this
      cases hf : d.slots.findIdx? (fun x => x.isMatch l s) with
      | none =>
        have hm := findIdx_none_hasMatch l s d.slots hf
        simp [hf, hmem, hsig, hfn, disconnect, hd, unlinkOrMark, hm, setListener_setEmitter]
      | some k =>
        obtain ⟨hm, hmark, herase⟩ := findIdx_some_hasMatch l s d.slots k hf
        cases ha : d.activation <;>
          simp [hf, ha, hmem, hsig, hfn, disconnect, hd, unlinkOrMark, hm, hmark, herase, setListener_setEmitter]

/-- the body of the inner loop of the translated `~Listener` is the model's `dropSlot`, on every state -/
theorem tie_dropSlot (l e : Nat) (h : State) (x : Nat × Nat) :
    (let h := H.derefE h e
     let p3 := H.sigHas h e x.1
     let h :=
       if p3 then
         let h :=
           match (H.slots h e x.1).findIdx? (fun x4 => (((x4.receiver == l) && (x4.slot == x.2)) && (x4.state != .disconnected))) with
           | none => h
           | some i5 =>
               let h :=
                 if ((H.activation h e x.1)).isSome then
                   let h := H.modSlot h e x.1 i5 (fun x => { x with state := .disconnected })
                   let h := H.modData h e x.1 (fun d => { d with dirty := true })
                   h
                 else
                   let h := H.slotRemove h e x.1 i5
                   h
               h
         h
       else
         h
     h) = dropSlot l e h x := by
  simp only [isMatch_eq]
  unfold dropSlot
  cases he : h.emitters e with
  | none => simp [H.derefE, he, H.sigHas, State.data, State.faulted]
  | some em =>
    cases hd : em.sig x.1 with
    | none => simp [H.derefE, he, H.sigHas, State.data, hd]
    | some d =>
      have h1 : h = h.setEmitter e (some (em.setSig x.1 d)) := by rw [setSig_same hd, setEmitter_same he]
      rw [h1]
      cases hf : d.slots.findIdx? (fun y => y.isMatch l x.2) with
      | none =>
        have hm := findIdx_none_hasMatch l x.2 d.slots hf
        simp [hf, unlinkOrMark, hm, hd]
      | some k =>
        obtain ⟨hm, hmark, herase⟩ := findIdx_some_hasMatch l x.2 d.slots k hf
        cases ha : d.activation <;> simp [hf, ha, unlinkOrMark, hm, hmark, herase, hd]

/-- the translated body of `~Listener`, followed by the death of the object, is the model's `delListener` -/
theorem tie_dtorListener (st : State) (l : Nat) (li : Listener) (hl : st.listeners l = some li) :
    (CallbackBody.dtorListener st l).setListener l none = delListener l st := by
  unfold CallbackBody.dtorListener delListener
  simp only [hl]
  congr 1
  have hk : H.lKeys st l = li.emKeys := by simp [H.lKeys, hl]
  rw [hk]
  have key : ∀ (ks : List Nat) (h : State), h.listeners l = some li →
      ks.foldl (fun h x1 => (H.lsigs h l x1).foldl (fun h x2 => dropSlot l x1 h x2) h) h =
        ks.foldl (fun st e => (li.sigs e).foldl (dropSlot l e) st) h := by
    intro ks
    induction ks with
    | nil => intro h _; rfl
    | cons k ks ih =>
      intro h hh
      simp only [List.foldl_cons]
      have : H.lsigs h l k = li.sigs k := by simp [H.lsigs, hh]
      rw [this]
      exact ih _ (by rw [foldl_dropSlot_listeners]; exact hh)
  rw [← key li.emKeys st hl]
  congr 1
  funext h x1
  congr 1
  funext h x2
  exact tie_dropSlot l x1 h x2

/-- the body of the inner loop of the translated `~Emitter` is the model's `dropSignal` -/
theorem tie_dropSignal (e g : Nat) (h : State) (hk : LKeys h) (x : Slot) :
    (if (x.state == .disconnected) then
        h
      else
        let h := H.derefL h x.receiver
        let p3 := H.lHas h x.receiver e
        let h :=
          if p3 then
            let h :=
              match (H.lsigs h x.receiver e).findIdx? (fun x4 => ((x4.1 == g) && (x4.2 == x.slot))) with
              | none => h
              | some i5 =>
                  let h := H.lRemove h x.receiver e i5
                  h
            h
          else
            h
        h) = dropSignal e g h x := by
  unfold dropSignal
  by_cases hs : x.state = .disconnected
  · simp [hs]
  · have hs' : (x.state == SlotState.disconnected) = false := by simpa using hs
    simp only [hs', hs, if_false, Bool.false_eq_true]
    cases hl : h.listeners x.receiver with
    | none => simp [H.derefL, hl, H.lHas, State.faulted]
    | some li =>
      have h1 : h = h.setListener x.receiver (some li) := (setListener_same hl).symm
      by_cases hmem : e ∈ li.emKeys
      · rw [h1]
        cases hf : (li.sigs e).findIdx? (fun y => y.1 == g && y.2 == x.slot) with
        | none => simp [hmem, hf, findIdx_erase_none hf, ite_self_fn]
        | some k => simp [hmem, hf, H.lRemove, findIdx_erase_some hf]
      · have := hk _ li e hl hmem
        have hfn : (fun e' => if e' = e then ([] : List (Nat × Nat)) else li.sigs e') = li.sigs := by
          rw [← this]; exact ite_self_fn li.sigs e
        simp [H.derefL, hl, H.lHas, hmem, this, hfn, setListener_same hl]

/-- one round of the outer loop of the translated `~Emitter` (one signal) is the model's `delEmitterSig` -/
theorem tie_delEmitterSig (e : Nat) (em : Emitter) (h : State) (he : h.emitters e = some em) (hk : LKeys h) (g : Nat) :
    (let h :=
        if ((H.activation h e g)).isSome then
          let h := H.frInvalidateP h (H.activation h e g)
          h
        else
          h
      let h :=
        (H.slots h e g).foldl (fun h x2 =>
            if (x2.state == .disconnected) then
              h
            else
              let h := H.derefL h x2.receiver
              let p3 := H.lHas h x2.receiver e
              let h :=
                if p3 then
                  let h :=
                    match (H.lsigs h x2.receiver e).findIdx? (fun x4 => ((x4.1 == g) && (x4.2 == x2.slot))) with
                    | none => h
                    | some i5 =>
                        let h := H.lRemove h x2.receiver e i5
                        h
                  h
                else
                  h
              h) h
      h) = delEmitterSig e em h g ∧ LKeys (delEmitterSig e em h g) ∧ (delEmitterSig e em h g).emitters = h.emitters := by
  unfold delEmitterSig
  cases hd : em.sig g with
  | none => simp [H.activation, H.slots, State.data, he, hd, hk]
  | some d =>
    have key : ∀ (xs : List Slot) (h' : State), LKeys h' → xs.foldl _ h' = xs.foldl (dropSignal e g) h' :=
      foldl_inv_congr _ (dropSignal e g) LKeys (fun b a hb => ⟨tie_dropSignal e g b hb a, lkeys_dropSignal e g b hb a⟩)
    cases ha : d.activation with
    | none =>
      have hact : H.activation h e g = none := by simp [H.activation, State.data, he, hd, ha]
      have hsl : H.slots h e g = d.slots := by simp [H.slots, State.data, he, hd]
      simp only [hact, hsl, Option.isSome_none, Bool.false_eq_true, if_false]
      rw [key d.slots h hk]
      simp only [ha]
      exact ⟨trivial, foldl_dropSignal_inv e g d.slots h hk⟩
    | some a =>
      have hact : H.activation h e g = some a := by simp [H.activation, State.data, he, hd, ha]
      have hsl : H.slots (invalidate h a) e g = d.slots := by simp [H.slots, State.data, invalidate_emitters, he, hd]
      simp only [hact, Option.isSome_some, if_true, H.frInvalidateP, hsl]
      rw [key d.slots _ (lkeys_invalidate h a hk)]
      simp only [ha]
      obtain ⟨h1, h2⟩ := foldl_dropSignal_inv e g d.slots _ (lkeys_invalidate h a hk)
      exact ⟨trivial, h1, by rw [h2, invalidate_emitters]⟩

theorem bulkStep_emitters (e : Nat) (h : State) (x : Slot) : (bulkStep e h x).emitters = h.emitters := by
  unfold bulkStep
  by_cases hs : x.state = .disconnected
  · simp [hs]
  · simp only [hs, if_false]
    cases hr : h.listeners x.receiver with
    | none => rw [dropAll_dead hr]; rfl
    | some lr => rw [dropAll_live hr]; split <;> rfl

theorem bulkFold_emitters (e : Nat) (xs : List Slot) (h : State) : (xs.foldl (bulkStep e) h).emitters = h.emitters := by
  induction xs generalizing h with
  | nil => rfl
  | cons x xs ih => simp only [List.foldl_cons]; rw [ih, bulkStep_emitters]

theorem bulkSig_emitters (e : Nat) (em : Emitter) (h : State) (g : Nat) : (bulkSig e em h g).emitters = h.emitters := by
  unfold bulkSig
  cases em.sig g with
  | none => rfl
  | some d =>
    simp only
    rw [bulkFold_emitters]
    cases d.activation with
    | none => rfl
    | some i => exact invalidate_emitters h i

/-- **The translated body of `~Emitter` is one of the two forms the proofs know**: the model's own — for every signal, invalidate
    the innermost activation and erase, for every slot not marked `disconnected`, the (signal, slot) pair from the receiver's
    list (`delEmitterSig`; on every state in which a key absent from a listener's map has no list) — or the bulk form — drop the
    receiver's whole list for this emitter (`bulkSig`, LemmasBulk.lean).  Which one is decided by the current Callback.cpp. -/
theorem tie_dtorEmitter (st : State) (e : Nat) (em : Emitter) (he : st.emitters e = some em) (hk : LKeys st) :
    CallbackBody.dtorEmitter st e = em.sigKeys.foldl (delEmitterSig e em) st ∨
    CallbackBody.dtorEmitter st e = em.sigKeys.foldl (bulkSig e em) st := by
  first
  | (left
     unfold CallbackBody.dtorEmitter
     have hks : H.sigKeys st e = em.sigKeys := by simp [H.sigKeys, he]
     rw [hks]
     refine foldl_inv_congr _ (delEmitterSig e em) (fun h => h.emitters e = some em ∧ LKeys h) ?_ em.sigKeys st ⟨he, hk⟩
     intro b a hb
     obtain ⟨h1, h2, h3⟩ := tie_delEmitterSig e em b hb.1 hb.2 a
     exact ⟨h1, by rw [h3]; exact hb.1, h2⟩)
  | (right
     unfold CallbackBody.dtorEmitter
     have hks : H.sigKeys st e = em.sigKeys := by simp [H.sigKeys, he]
     rw [hks]
     refine foldl_inv_congr _ (bulkSig e em) (fun h => h.emitters e = some em) ?_ em.sigKeys st he
     intro b g hb
     refine ⟨?_, by rw [bulkSig_emitters]; exact hb⟩
     unfold bulkSig
     cases hd : em.sig g with
     | none => simp [H.activation, H.slots, State.data, hb, hd]
     | some d =>
       cases ha : d.activation with
       | none =>
         have hact : H.activation b e g = none := by simp [H.activation, State.data, hb, hd, ha]
         have hsl : H.slots b e g = d.slots := by simp [H.slots, State.data, hb, hd]
         simp only [hact, hsl, Option.isSome_none, Bool.false_eq_true, if_false, ha]
         exact bulk_inner e d.slots b none (fun r hr => by cases hr)
       | some a =>
         have hact : H.activation b e g = some a := by simp [H.activation, State.data, hb, hd, ha]
         have hsl : H.slots (invalidate b a) e g = d.slots := by simp [H.slots, State.data, invalidate_emitters, hb, hd]
         simp only [hact, Option.isSome_some, if_true, H.frInvalidateP, hsl, ha]
         exact bulk_inner e d.slots _ none (fun r hr => by cases hr))

/-- … and either way the translated `~Emitter`, followed by the death of the object, leads from a state related to a
    specification state to a state related to the specification's `delE` of it (for the model's form the state IS the model's
    `delEmitter`; the bulk form differs from it only in the key lists of the listeners' maps: `sim_bulk`) -/
theorem tie_dtorEmitter_sim {m : State} {s : Spec.SState} {K : MStack} (e : Nat) (em : Emitter) (hs : Sim m s K)
    (he : m.emitters e = some em) :
    Sim ((CallbackBody.dtorEmitter m e).setEmitter e none) (Spec.delE e s) K := by
  rcases tie_dtorEmitter m e em he (lkeys_of_audit (audit_of_sim hs)) with h | h
  · rw [h]
    have : (em.sigKeys.foldl (delEmitterSig e em) m).setEmitter e none = delEmitter e m := by simp [delEmitter, he]
    rw [this]
    exact sim_delE e hs (by simp [machine, he])
  · rw [h]
    exact sim_bulk e em hs he

/-! ### the activation guard: `SignalActivation` constructor and destructor -/

/-- **The translated constructor of `SignalActivation`, followed by the push of the frame, is the model's `actBegin`** — for
    every state with that emitter: no signal data = inert activation (nothing pushed, `begin == end`); else the frame gets
    `next` = the previous innermost activation, the data points to the new one, and `begin` is the first node or, for an
    empty list, the end sentinel for good. -/
theorem tie_ctorActivation (st : State) (e g : Nat) (em : Emitter) (he : st.emitters e = some em) :
    H.pushAct (CallbackBody.ctorActivation st st.frames.length e g) st.frames.length = actBegin e g st := by
  unfold CallbackBody.ctorActivation actBegin
  simp only [he]
  cases hd : em.sig g with
  | none =>
    have hs : H.sigHas st e g = false := by simp [H.sigHas, State.data, he, hd]
    simp [hs, H.pushAct, H.derefE, he]
  | some d =>
    have h1 : st = st.setEmitter e (some (em.setSig g d)) := by rw [setSig_same hd, setEmitter_same he]
    rw [h1]
    simp [H.pushAct, H.listBegin, hd]
    simp only [State.setEmitter, State.mk.injEq, and_true, true_and]
    funext e'
    by_cases h : e' = e <;> simp [h]
/-- what the purge loop of `~SignalActivation` does to one node -/
def purgeStep (x : Slot) : Option Slot :=
  match x.state with
  | .disconnected => none
  | .connecting => some { x with state := .connected }
  | .connected => some x

/-- any per-node function that agrees with `purgeStep` (whatever its text: the translated `switch` with fall-through, or a
    chain of `if`s) makes the translated purge loop the model's `purge` -/
theorem filterMap_purge (F : Slot → Option Slot) (hF : ∀ x, F x = purgeStep x) (xs : List Slot) : xs.filterMap F = purge xs := by
  induction xs with
  | nil => rfl
  | cons x xs ih =>
    simp only [List.filterMap_cons, hF x, purgeStep, purge]
    cases hs : x.state <;> simp [ih]

theorem modData_frames (st : State) (e g : Nat) (φ : SignalData → SignalData) : (H.modData st e g φ).frames = st.frames := by
  unfold H.modData
  cases st.emitters e with
  | none => rfl
  | some em => simp only; cases em.sig g <;> rfl

@[simp] theorem frNext_modData (st : State) (e g a : Nat) (φ : SignalData → SignalData) : H.frNext (H.modData st e g φ) a = H.frNext st a := by
  simp [H.frNext, modData_frames]
@[simp] theorem frData_modData (st : State) (e g a : Nat) (φ : SignalData → SignalData) : H.frData (H.modData st e g φ) a = H.frData st a := by
  simp [H.frData, modData_frames]

/-- **The translated destructor of `SignalActivation`, followed by the pop of the frame, is the model's `actEnd`** — for
    every state whose innermost frame is that activation (activations die in reverse order of construction: `no_dangling`)
    and whose `next` pointer points below it (`LinksOK`, part of the simulation invariant): not invalidated = unregister,
    and purge when it was the outermost and the list is dirty; invalidated = hand the flag to `next`. -/
theorem tie_dtorActivation (st : State) (fid : Nat) (f : Frame) (fs : List Frame)
    (hfr : st.frames = f :: fs) (hlen : fs.length = fid) (hnext : ∀ n, f.next = some n → n < fid) :
    (CallbackBody.dtorActivation st fid).popFrame fid = actEnd fid st := by
  subst hlen
  have hfa : frameAt st.frames fs.length = some f := by rw [hfr]; exact frameAt_top f fs
  have hpop : popTo st.frames fs.length = fs := by rw [hfr]; exact popTo_top f fs
  have hI : H.frInvalidated st fs.length = f.invalidated := by simp [H.frInvalidated, hfa]
  have hN : H.frNext st fs.length = f.next := by simp [H.frNext, hfa]
  have hD : H.frData st fs.length = f.data := by simp [H.frData, hfa]
  have hH : H.frHasData st fs.length = true := by simp [H.frHasData, hfa]
  unfold CallbackBody.dtorActivation actEnd
  simp only [H.slotsFilterMap, frNext_modData, frData_modData, hI, hN, hD, hH, hfa, if_true]
  cases hinv : f.invalidated with
  | true =>
    simp only [if_true, Bool.not_true, Bool.false_eq_true, if_false]
    cases hn : f.next with
    | none => simp [State.popFrame]
    | some n =>
      have hlt := hnext n hn
      simp only [Option.isSome_some, if_true, H.frInvalidateP, invalidate, State.popFrame]
      have h1 : frameAt st.frames n = frameAt fs n := by rw [hfr]; exact frameAt_cons_lt hlt
      rw [h1, hpop]
      cases hfn : frameAt fs n with
      | none => simp [State.faulted, hpop]
      | some f' =>
        simp only [hfr, setInvalid, Nat.ne_of_lt hlt, if_false]
        have := popTo_top f (setInvalid fs n)
        rw [setInvalid_length] at this
        simp [this]
  | false =>
    simp only [Bool.false_eq_true, if_false, Bool.not_false, if_true]
    cases he : st.emitters f.data.1 with
    | none =>
      have hm : ∀ φ, H.modData st f.data.1 f.data.2 φ = st.faulted := by intro φ; simp [H.modData, he]
      have hdirty : H.dirty st.faulted f.data.1 f.data.2 = false := by simp [H.dirty, State.data, State.faulted, he]
      simp only [hm, hdirty, Bool.false_eq_true, if_false, ite_self]
      simp [State.popFrame, hpop, he, State.faulted]
    | some em =>
      cases hd : em.sig f.data.2 with
      | none =>
        have hm : ∀ φ, H.modData st f.data.1 f.data.2 φ = st.faulted := by intro φ; simp [H.modData, he, hd]
        have hdirty : H.dirty st.faulted f.data.1 f.data.2 = false := by simp [H.dirty, State.data, State.faulted, he, hd]
        simp only [hm, hdirty, Bool.false_eq_true, if_false, ite_self]
        simp [State.popFrame, hpop, he, hd, State.faulted]
      | some d =>
        have h1 : st = st.setEmitter f.data.1 (some (em.setSig f.data.2 d)) := by rw [setSig_same hd, setEmitter_same he]
        have hpf : ∀ (a : Option Emitter), (st.setEmitter f.data.1 a).popFrame fs.length = (st.popFrame fs.length).setEmitter f.data.1 a := fun _ => rfl
        have he0 : ({ st with frames := fs } : State).emitters f.data.1 = some em := he
        rw [h1]
        simp (disch := (intro x; cases x with | mk r o sl n stt => cases stt <;> simp [purgeStep])) only [nf_modData, nf_dirty, filterMap_purge, setEmitter_frames, hpop]
        rw [← h1]
        simp only [he0, hd]
        cases hn : f.next with
        | some n => simp [hpf, State.popFrame, hpop, State.setEmitter]
        | none =>
          cases hdd : d.dirty <;> simp [hpf, State.popFrame, hpop, State.setEmitter]

/-- the nine `connect` templates of the header: all of them pass (src, signal, dest, dest, slot) — the object the slot is
    called on is the receiver (`Slot.object = Slot.receiver` in the model) -/
theorem tie_connectT (st : State) (e g l s : Nat) (em : Emitter) (li : Listener)
    (he : st.emitters e = some em) (hl : st.listeners l = some li) (hk : LKeys st) :
    CallbackBody.connectT st e g l s = connect e g l s st :=
  tie_connect st e g l s em li he hl (hk l li e hl)

/-- the nine `disconnect` templates -/
theorem tie_disconnectT (st : State) (e g l s : Nat) (em : Emitter) (li : Listener)
    (he : st.emitters e = some em) (hl : st.listeners l = some li) (hk : LKeys st) :
    CallbackBody.disconnectT st e g l s = disconnect e g l s st :=
  tie_disconnect st e g l s em li he hl (hk l li e hl)

/-- the translated loop of `emit` from node `j` on, while the activation is not invalidated: the model's search for the next
    `connected` entry -/
theorem tie_emit_scan (xs : List Slot) (j : Nat) :
    CallbackBody.emitScan false xs j =
      match nextConnectedAux xs j with
      | none => .done
      | some (k, sl) => .call sl.object sl.slot (some (k + 1)) := by
  induction xs generalizing j with
  | nil => rfl
  | cons x xs ih =>
    unfold CallbackBody.emitScan nextConnectedAux
    by_cases hx : x.state = .connected
    · simp [hx]
    · have : (x.state == SlotState.connected) = false := by simpa using hx
      simp [hx, this, ih]

/-- **The loop of the nine `emit` templates is the model's `next`.**  After a slot returned, the translated rest of the loop
    (the `invalidated` test behind the call, then the following nodes up to the next `connected` one) computes what `next`
    computes, for every state, activation and position. -/
theorem tie_emit_next (st : State) (fid idx : Nat) (f : Frame) (d : SignalData) (hf : frameAt st.frames fid = some f)
    (hd : f.invalidated = false → st.data f.data.1 f.data.2 = some d) :
    CallbackBody.emitAfterCall f.invalidated d.slots idx = next st fid (some idx) := by
  unfold CallbackBody.emitAfterCall next
  simp only [hf]
  cases hi : f.invalidated with
  | true => simp
  | false =>
    simp only [hd hi, Bool.false_eq_true, if_false, tie_emit_scan, nextConnected]
    cases nextConnectedAux (d.slots.drop idx) idx with
    | none => rfl
    | some p => rfl

/-- … and at the start of the loop (the activation was just constructed: not invalidated; no test before the first node) -/
theorem tie_emit_first (st : State) (fid : Nat) (f : Frame) (d : SignalData) (hf : frameAt st.frames fid = some f)
    (hi : f.invalidated = false) (hd : st.data f.data.1 f.data.2 = some d) :
    CallbackBody.emitScan f.invalidated d.slots 0 = next st fid (some 0) := by
  have := tie_emit_next st fid 0 f d hf (fun _ => hd)
  rw [← this]
  simp [CallbackBody.emitAfterCall, hi]

/-- the translator checked on the text of each of the nine `emit` templates that the slot is called with the parameters
    `arg0 …` of `emit`, all of them, in their order (a template that does not is refused) -/
theorem tie_emit_args : CallbackBody.emitArgsInOrder = true := rfl

/-- **No slot is invoked by a destructor** (so no program can observe an intermediate state of `~Listener` / `~Emitter`, and
    the order in which they visit their map keys cannot matter to a slot): destroying an object is one primitive step of the
    evaluator that leaves the invocation log, the invocation counters and the variables alone, for every machine. -/
theorem destructor_invokes_no_slot {σ α π : Type} (M : Machine σ α π) (r : Run σ) (i : Nat) :
    (r.prim M (.delL i)).log = r.log ∧ (r.prim M (.delE i)).log = r.log ∧
    (r.prim M (.delL i)).inv = r.inv ∧ (r.prim M (.delE i)).inv = r.inv := by
  simp only [Run.prim]
  refine ⟨?_, ?_, ?_, ?_⟩ <;> split <;> rfl

/-! ### non-vacuity: the hypotheses hold in concrete states, and the translated code computes there -/

example : LKeys State.fresh := fun l li e hl _ => by
  simp only [State.fresh, Option.some.injEq] at hl; subst hl; rfl

example : (CallbackBody.connectT State.fresh 0 1 2 3).data 0 1 =
    some { activation := none, slots := [{ receiver := 2, object := 2, slot := 3, node := 0, state := .connected }], dirty := false } := by
  rw [tie_connectT State.fresh 0 1 2 3 _ _ rfl rfl (fun l li e hl _ => by simp only [State.fresh, Option.some.injEq] at hl; subst hl; rfl)]
  rfl

/-- a slot list with a `disconnected` entry in front: the translated loop skips it and calls the second entry -/
example : CallbackBody.emitScan false
    [{ receiver := 0, object := 0, slot := 0, node := 0, state := .disconnected },
     { receiver := 1, object := 1, slot := 5, node := 1, state := .connected }] 0 = .call 1 5 (some 2) := rfl

/-- … and stops when the activation was invalidated by the slot that just returned -/
example : CallbackBody.emitAfterCall true
    [{ receiver := 1, object := 1, slot := 5, node := 1, state := .connected }] 0 = .done := rfl

end Nstd.Callback
