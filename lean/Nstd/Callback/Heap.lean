import Nstd.Callback.Model
/-
  The memory operations the TRANSLATED bodies of Callback.cpp / Callback.hpp are written in
  (lean/Nstd/Generated/CallbackBody.lean, produced by tools/gen_callback.py from the current sources).

  The heap is the model's `State`; a C++ reference / iterator is a *path*:
      SignalData&            (e, g)        the value stored under key `g` in `e->signalData`
      Slot& / List<Slot>::Iterator   (e, g, k)   the k-th node of that value's `slots`
      List<Signal>&          (l, e)        the value stored under key `e` in `l->slotData`
      Signal& / iterator     (l, e, k)     its k-th node
      SignalActivation*      a frame id
  Every store goes through the path into the heap (`mod…`), every load reads the current heap, so the
  translated code keeps the aliasing of the C++ references.  Dereferencing an object pointer
  (`p->signalData`, `p->slotData`) is `derefE` / `derefL`: a destroyed object raises the fault flag.  A store
  through a path that does not exist raises the fault flag as well; a load through such a path yields the
  value-initialised field (the translated bodies load only behind a `find != end` test, an `insert` or an
  `append`; the equalities of PropsTie.lean are about the whole result, so a load that went wrong would
  show).
-/
namespace Nstd.Callback.H

/-- the allocation counter of list nodes steps on -/
def _root_.Nstd.Callback.State.bumpNode (st : State) : State := { st with nextNode := st.nextNode + 1 }

/-- `p->signalData …` : the emitter must exist -/
def derefE (st : State) (e : Nat) : State := if (st.emitters e).isSome then st else st.faulted

/-- `p->slotData …` : the listener must exist -/
def derefL (st : State) (l : Nat) : State := if (st.listeners l).isSome then st else st.faulted

/-! ### `Map<MemberFuncPtr, SignalData> signalData` of emitter `e` -/

/-- `e->signalData.find(g) != e->signalData.end()` -/
def sigHas (st : State) (e g : Nat) : Bool := (st.data e g).isSome

/-- `e->signalData.insert(g, SignalData())` -/
def sigInsert (st : State) (e g : Nat) : State :=
  match st.emitters e with
  | none => st.faulted
  | some em => st.setEmitter e (some (em.setSig g SignalData.empty))

/-- the keys in the order `begin() … end()` visits them -/
def sigKeys (st : State) (e : Nat) : List Nat :=
  match st.emitters e with
  | none => []
  | some em => em.sigKeys

/-- a store into the `SignalData` at path (e, g) -/
def modData (st : State) (e g : Nat) (f : SignalData → SignalData) : State :=
  match st.emitters e with
  | none => st.faulted
  | some em =>
    match em.sig g with
    | none => st.faulted
    | some d => st.setEmitter e (some (em.setSig g (f d)))

def activation (st : State) (e g : Nat) : Option Nat :=
  match st.data e g with
  | none => none
  | some d => d.activation

def dirty (st : State) (e g : Nat) : Bool :=
  match st.data e g with
  | none => false
  | some d => d.dirty

def slots (st : State) (e g : Nat) : List Slot :=
  match st.data e g with
  | none => []
  | some d => d.slots

/-- `Slot()` in a new list node: the node gets the next number of the allocation counter (ghost, see
    `node_is_ghost`); the fields are assigned by the caller before anything reads them -/
def Slot.fresh (n : Nat) : Slot := { receiver := 0, object := 0, slot := 0, node := n, state := .connected }

/-- `data.slots.append(Slot())`; the new node is the last one: `slotLast` -/
def slotAppend (st : State) (e g : Nat) : State :=
  (modData st e g (fun d => { d with slots := d.slots ++ [Slot.fresh st.nextNode] })).bumpNode

def slotLast (st : State) (e g : Nat) : Nat := (slots st e g).length - 1

/-- a store into the node at path (e, g, k) -/
def modSlot (st : State) (e g k : Nat) (f : Slot → Slot) : State :=
  modData st e g (fun d => { d with slots := d.slots.modify k f })

/-- `data.slots.remove(i)` -/
def slotRemove (st : State) (e g k : Nat) : State :=
  modData st e g (fun d => { d with slots := d.slots.eraseIdx k })

/-- a loop `for(i = slots.begin(), end = slots.end(); i != end;) switch …` that visits every node once and either
    removes it or rewrites it and steps on: `f x = none` = removed -/
def slotsFilterMap (st : State) (e g : Nat) (f : Slot → Option Slot) : State :=
  modData st e g (fun d => { d with slots := d.slots.filterMap f })

/-! ### `Map<Emitter*, List<Signal>> slotData` of listener `l` -/

/-- `l->slotData.find(e) != l->slotData.end()` -/
def lHas (st : State) (l e : Nat) : Bool :=
  match st.listeners l with
  | none => false
  | some li => decide (e ∈ li.emKeys)

/-- `l->slotData.insert(e, List<Signal>())` -/
def lInsert (st : State) (l e : Nat) : State :=
  match st.listeners l with
  | none => st.faulted
  | some li => st.setListener l (some (li.setSigs e []))

def lKeys (st : State) (l : Nat) : List Nat :=
  match st.listeners l with
  | none => []
  | some li => li.emKeys

/-- the list at path (l, e); `*end()` of the map is the end item, whose value is an empty list -/
def lsigs (st : State) (l e : Nat) : List (Nat × Nat) :=
  match st.listeners l with
  | none => []
  | some li => li.sigs e

/-- a store into the list at path (l, e) (the map's keys stay) -/
def modL (st : State) (l e : Nat) (f : List (Nat × Nat) → List (Nat × Nat)) : State :=
  match st.listeners l with
  | none => st.faulted
  | some li => st.setListener l (some { li with sigs := fun e' => if e' = e then f (li.sigs e) else li.sigs e' })

/-- `list.append(Signal())` -/
def lAppend (st : State) (l e : Nat) : State := modL st l e (· ++ [(0, 0)])

def lLast (st : State) (l e : Nat) : Nat := (lsigs st l e).length - 1

def modLSig (st : State) (l e k : Nat) (f : Nat × Nat → Nat × Nat) : State := modL st l e (·.modify k f)

/-- `l->slotData.remove(e)` (Map::remove by key): the entry — key and list — goes; nothing happens when there is none -/
def lErase (st : State) (l e : Nat) : State :=
  match st.listeners l with
  | none => st.faulted
  | some li =>
    if e ∈ li.emKeys then
      st.setListener l (some { emKeys := li.emKeys.filter (· != e), sigs := fun e' => if e' = e then [] else li.sigs e' })
    else st

/-- `signals.remove(i)` -/
def lRemove (st : State) (l e k : Nat) : State := modL st l e (·.eraseIdx k)

/-! ### activations (frames of the C++ call stack) -/

def frInvalidated (st : State) (a : Nat) : Bool :=
  match frameAt st.frames a with
  | none => false
  | some f => f.invalidated

def frNext (st : State) (a : Nat) : Option Nat :=
  match frameAt st.frames a with
  | none => none
  | some f => f.next

/-- `p->invalidated = true` through an activation pointer `p` (null = fault) -/
def frInvalidateP (st : State) (p : Option Nat) : State :=
  match p with
  | none => st.faulted
  | some a => invalidate st a

/-- `data != 0` of an activation: the model pushes a frame only for an activation that found signal data (an activation
    constructed without is inert: constructor, loop and destructor touch nothing), so every frame has it -/
def frHasData (st : State) (a : Nat) : Bool := (frameAt st.frames a).isSome

/-- the path `data` of an activation points to -/
def frData (st : State) (a : Nat) : Nat × Nat :=
  match frameAt st.frames a with
  | none => (0, 0)
  | some f => f.data

/-- the members of a `SignalActivation` under construction (the constructor's view; the frame is pushed when it is done:
    `pushAct`).  `begin = none` = the end sentinel. -/
structure Act where
  invalidated : Bool := false
  data : Option (Nat × Nat) := none
  next : Option Nat := none
  begin : Option Nat := none
  /-- `end` was assigned the end of the list `begin` was taken from -/
  hasEnd : Bool := false

/-- `list.begin()`: the first node, or — for an empty list — the end sentinel itself: then `begin == end` holds for good and
    nodes appended later are never reached (List.hpp: `end()` is the address of the list's end item, `begin()` the first item
    or that same address) -/
def listBegin (xs : List Slot) : Option Nat := if xs.isEmpty then none else some 0

/-- the constructed activation becomes a frame of the call stack; an activation without signal data (`data = 0`) is inert and
    is not pushed -/
def pushAct (r : State × Act) (this : Nat) : State × Option (Nat × Option Nat) :=
  match r.2.data with
  | none => (r.1, none)
  | some dg => ({ r.1 with frames := ({ next := r.2.next, invalidated := r.2.invalidated, data := dg } : Frame) :: r.1.frames },
      some (this, r.2.begin))

/-- the activation's storage goes away after the body of its destructor: the frame is popped -/
def _root_.Nstd.Callback.State.popFrame (st : State) (fid : Nat) : State := { st with frames := popTo st.frames fid }

end Nstd.Callback.H
