import Nstd.Json.Model
import Nstd.Json.Rfc
import Nstd.Codec.Spec
/-
  What a syntax tree of the RFC 8259 grammar (`Rfc.Tree`) MEANS as an nstd `Variant`, written as a
  specification (arithmetic, `Codec.Spec.utf8` = RFC 3629), not through the tokenizer:

  * a string is the concatenation of its items: a byte is itself; a `\uXXXX` code unit outside
    D800..DBFF is the UTF-8 encoding of that code point (a lone LOW surrogate DC00..DFFF is encoded
    like any other BMP value: generalized three byte form); a high surrogate must be followed by a
    `\u` low surrogate and the pair is the UTF-8 encoding of 0x10000 + (hi − D800)·400h + (lo − DC00)
    (RFC 8259 section 7); a high surrogate followed by anything else has NO meaning (`none`);
  * a number token containing a decimal point is a double (opaque: it carries the token text);
    without one it is `numVal` of the token (theorems `number_token_value`, `number_token_exp_ignored`
    say what that is: the saturated decimal value of the digits before the first non-digit);
  * an array is the list of its elements; an object is built left to right with
    `HashMap::append` (a repeated name keeps the place of its first occurrence and takes the last value).
-/
namespace Nstd.Json

def isHighSur (w : Nat) : Bool := decide (0xD800 ≤ w) && decide (w < 0xDC00)
def isLowSur (w : Nat) : Bool := decide (0xDC00 ≤ w) && decide (w < 0xE000)

/-- RFC 8259 section 7 / UTF-16: the code point of a surrogate pair -/
def pairCp (w1 w2 : Nat) : Nat := 0x10000 + (w1 - 0xD800) * 0x400 + (w2 - 0xDC00)

def decodeItems : List Rfc.Item → Option (List Byte)
  | [] => some []
  | .byte b :: r => (decodeItems r).map (fun s => b :: s)
  | .unit w :: r =>
    if isHighSur w then
      match r with
      | .unit w2 :: r' =>
        if isLowSur w2 then (decodeItems r').map (fun s => Nstd.Codec.Spec.utf8 (pairCp w w2) ++ s) else none
      | _ => none
    else (decodeItems r).map (fun s => Nstd.Codec.Spec.utf8 w ++ s)

mutual
def interp : Rfc.Tree → Option Val
  | .null => some .null
  | .bool b => some (.bool b)
  | .num t => some (numVal t (t.contains 46))
  | .str s => (decodeItems s).map .str
  | .arr l => (interpList l).map .list
  | .obj m => (interpMembers m []).map .map
def interpList : List Rfc.Tree → Option (List Val)
  | [] => some []
  | t :: ts =>
    match interp t, interpList ts with
    | some v, some vs => some (v :: vs)
    | _, _ => none
/-- the members of an object appended to the map built so far -/
def interpMembers : List (List Rfc.Item × Rfc.Tree) → List (List Byte × Val) → Option (List (List Byte × Val))
  | [], acc => some acc
  | (k, t) :: m, acc =>
    match decodeItems k, interp t with
    | some kb, some v => interpMembers m (mapAppend acc kb v)
    | _, _ => none
end

end Nstd.Json
