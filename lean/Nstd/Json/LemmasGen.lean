import Nstd.Generated.JsonCode
import Nstd.Json.LemmasParse
/-
  Property C15, the tie by TRANSLATION (lemmas).  `Nstd.Generated.JsonCode` holds statements of the CURRENT
  src/Document/Json.cpp as tools/gen_json_cxx.py translates them on every run: `Json::stripComments` (three loops),
  the string block and the number block of `readToken`, `skipSpace`.  Here: each translated function IS the
  hand-written model function (`stripOuter/stripBlock/stripString`, `readStr`, `numLoop` + `numVal`, `skipSpace`),
  for every state.  The statements are repeated in PropsGen.lean (obligations).
-/
set_option linter.unusedSimpArgs false
set_option linter.unusedVariables false
namespace Nstd.Json
open Nstd.Generated


theorem gen_strip_loops (f : Nat) : ∀ out src,
    JsonCode.stripL0 f out src = stripOuter f out src ∧
    JsonCode.stripL1 f out src = stripBlock f out src ∧
    JsonCode.stripL2 f out src = stripString f out src := by
  induction f with
  | zero =>
    intro out src
    refine ⟨?_, ?_, ?_⟩
    · unfold JsonCode.stripL0 stripOuter; rfl
    · unfold JsonCode.stripL1 stripBlock; rfl
    · unfold JsonCode.stripL2 stripString; rfl
  | succ f ih =>
    intro out src
    have ih0 := fun o s => (ih o s).1
    have ih1 := fun o s => (ih o s).2.1
    have ih2 := fun o s => (ih o s).2.2
    refine ⟨?_, ?_, ?_⟩
    · unfold JsonCode.stripL0 stripOuter
      rcases src with _ | ⟨c, _ | ⟨d, r⟩⟩ <;>
        simp [Cxx.rdS, Cxx.findS, ih0, ih1, ih2]
      all_goals grind
    · unfold JsonCode.stripL1 stripBlock
      simp only [Cxx.findS]
      cases hf : findOneOf [13, 10, 42] src with
      | ok o =>
        cases o with
        | none => rfl
        | some e =>
          rcases e with _ | ⟨c, _ | ⟨d, r⟩⟩ <;> simp [Cxx.rdS, ih0, ih1, ih2]
          all_goals grind
      | _ => rfl
    · unfold JsonCode.stripL2 stripString
      rcases src with _ | ⟨c, _ | ⟨d, r⟩⟩ <;>
        simp [Cxx.rdS, ih0, ih1, ih2]
      all_goals grind

theorem gen_stripComments (buf : List Byte) : JsonCode.strip (stripFuel buf) buf = stripComments buf :=
  (gen_strip_loops _ [] buf).1

theorem gen_skipSpace : ∀ (f line : Nat) (r : List Byte), r.length < f →
    JsonCode.skipWs f line r = skipSpace line r := by
  intro f
  induction f with
  | zero => intro line r h; omega
  | succ f ih =>
    intro line r h
    unfold JsonCode.skipWs at ih ⊢
    unfold JsonCode.wsL0 skipSpace
    rcases r with _ | ⟨c, _ | ⟨d, r⟩⟩
    · simp [Cxx.rdR]
    · have h0 : ([] : List Byte).length < f := by simp at h ⊢; omega
      simp [Cxx.rdR, ih _ _ h0]
    · have h1 : r.length < f := by simp at h; omega
      have h2 : (d :: r).length < f := by simp at h ⊢; omega
      simp [Cxx.rdR, ih _ _ h1, ih _ _ h2]

theorem numVal_eq (n : List Byte) (dbl : Bool) : numVal n dbl =
    if dbl = true then .dbl n else if wrap32 (atoll n) = atoll n then .int (wrap32 (atoll n)) else .int64 (atoll n) := by
  unfold numVal; rfl

/-- the number block: alphabet loop + `isDouble` + `toInt64` and the narrowing to `int` -/
theorem gen_number : ∀ (f : Nat) (n : List Byte) (dbl : Bool) (r : List Byte), r.length < f →
    JsonCode.numL0 f n dbl r = (numLoop n dbl r).bind fun x => .ok (numVal x.1 x.2.1, x.2.2) := by
  intro f
  induction f with
  | zero => intro n dbl r h; omega
  | succ f ih =>
    intro n dbl r h
    unfold JsonCode.numL0 numLoop
    rcases r with _ | ⟨c, r⟩
    · simp [Cxx.rdR, Res.bind]
    · have h1 : r.length < f := by simp at h; omega
      simp only [Cxx.rdR, List.drop, ih _ _ _ h1]
      by_cases a1 : c = 69 ∨ c = 101 ∨ c = 45 ∨ c = 43
      · simp only [a1, if_true]
      · simp only [a1, if_false]
        by_cases a2 : c = 46
        · simp only [a2, if_true]
        · simp only [a2, if_false]
          by_cases a3 : isDigit c = true
          · simp only [a3, if_true]
          · simp only [a3, if_false, Res.bind, Bool.false_eq_true, numVal_eq]
            generalize atoll n = x
            cases dbl <;> simp only [wrap32, if_true, if_false, Bool.false_eq_true]
            by_cases hw : (x + 2147483648) % 4294967296 - 2147483648 = x <;>
              simp only [hw, if_true, if_false] <;> (try (repeat' split)) <;> first | rfl | (exfalso; omega)

open Nstd.Generated.Json in
theorem unesc_eq (e : Byte) : unesc e =
    if e = 34 ∨ e = 92 ∨ e = 47 then some e else if e = 98 then some 8 else if e = 102 then some 12
    else if e = 110 then some 10 else if e = 114 then some 13 else if e = 116 then some 9 else none := by
  simp only [unesc, unescTable, lookup]
  grind

theorem and1023_mod (x : Nat) : (x &&& 1023) % 4294967296 = x &&& 1023 :=
  Nat.mod_eq_of_lt (Nat.lt_of_le_of_lt Nat.and_le_right (by decide))

/-- a unit in D800..DBFF (`w & 0xFC00 == 0xD800`) passes the wider test `w & 0xF800 == 0xD800` too: the code may
    test either one or both -/
theorem sur_mask (w : Nat) (h : w &&& 64512 = 55296) : w &&& 63488 = 55296 := by
  have k : (64512 : Nat) &&& 63488 = 63488 := by decide
  have e : w &&& 63488 = (w &&& 64512) &&& 63488 := by rw [Nat.and_assoc, k]
  rw [e, h]; decide

/-- the value of one hexadecimal digit computed arithmetically (`c <= '9' ? c - '0' : (c | 0x20) - 'a' + 10`) -/
theorem hexdigit_arith (c : Byte) (h : isHexDigit c = true) :
    (if c ≤ 57 then c - 48 else (c ||| 32) - 97 + 10) = hexVal c ∧ hexVal c < 16 := by
  have hc : c < 103 := by
    simp only [isHexDigit, isDigit, Bool.or_eq_true, Bool.and_eq_true, decide_eq_true_eq] at h
    omega
  have key : ∀ c : Nat, c < 103 → isHexDigit c = true →
      (if c ≤ 57 then c - 48 else (c ||| 32) - 97 + 10) = hexVal c ∧ hexVal c < 16 := by decide
  exact key c hc h

theorem shl4_or (x y : Nat) (hy : y < 16) : x <<< 4 ||| y = x * 16 + y := by
  rw [← Nat.shiftLeft_add_eq_or_of_lt (by simpa using hy), Nat.shiftLeft_eq]

/-- four hexadecimal digits accumulated with shifts (`result = (result << 4) | digit`) are `sscanf("%x")` of them -/
theorem hexword_arith (a0 a1 a2 a3 : Byte) (h0 : isHexDigit a0 = true) (h1 : isHexDigit a1 = true)
    (h2 : isHexDigit a2 = true) (h3 : isHexDigit a3 = true) :
    (((if a0 ≤ 57 then a0 - 48 else (a0 ||| 32) - 97 + 10) <<< 4 ||| (if a1 ≤ 57 then a1 - 48 else (a1 ||| 32) - 97 + 10)) <<< 4 |||
        (if a2 ≤ 57 then a2 - 48 else (a2 ||| 32) - 97 + 10)) <<< 4 ||| (if a3 ≤ 57 then a3 - 48 else (a3 ||| 32) - 97 + 10)
      = scanHex [a0, a1, a2, a3] := by
  obtain ⟨e0, l0⟩ := hexdigit_arith a0 h0
  obtain ⟨e1, l1⟩ := hexdigit_arith a1 h1
  obtain ⟨e2, l2⟩ := hexdigit_arith a2 h2
  obtain ⟨e3, l3⟩ := hexdigit_arith a3 h3
  rw [e0, e1, e2, e3, shl4_or _ _ l1, shl4_or _ _ l2, shl4_or _ _ l3]
  simp [scanHex]

theorem pair_arith (w1 w2 : Nat) :
    ((w1 &&& 1023) % 4294967296) <<< 10 ||| (w2 &&& 1023) % 4294967296 = w2 &&& 1023 ||| (w1 &&& 1023) <<< 10 := by
  rw [and1023_mod, and1023_mod, Nat.or_comm]

theorem gen_string : ∀ (f line : Nat) (acc r : List Byte), JsonCode.strL0 f line acc r = readStr f line acc r := by
  intro f
  induction f with
  | zero => intro line acc r; unfold JsonCode.strL0 readStr; rfl
  | succ f ih =>
    intro line acc r
    unfold JsonCode.strL0 readStr
    rcases r with _ | ⟨c, _ | ⟨e, r⟩⟩
    · simp [Cxx.rdR]
    · simp [Cxx.rdR, ih]
    · simp only [Cxx.rdR, List.drop, ih, unesc_eq]
      by_cases c0 : c = 0
      · simp only [c0, if_true]
      by_cases c13 : c = 13
      · simp [c0, c13]
      by_cases c10 : c = 10
      · simp [c0, c13, c10]
      by_cases c92 : c = 92
      · subst c92
        simp only [show ¬ (92 : Nat) = 0 by decide, show ¬ (92 : Nat) = 13 by decide, show ¬ (92 : Nat) = 10 by decide,
          if_true, if_false]
        by_cases e1 : e = 34 ∨ e = 92 ∨ e = 47
        · simp only [e1, if_true]
        by_cases e2 : e = 98
        · simp [e1, e2]
        by_cases e3 : e = 102
        · simp [e1, e2, e3]
        by_cases e4 : e = 110
        · simp [e1, e2, e3, e4]
        by_cases e5 : e = 114
        · simp [e1, e2, e3, e4, e5]
        by_cases e6 : e = 116
        · simp [e1, e2, e3, e4, e5, e6]
        by_cases eu : e = 117
        · subst eu
          simp +decide only [if_true, if_false]
          rcases r with _ | ⟨a0, _ | ⟨a1, _ | ⟨a2, _ | ⟨a3, r⟩⟩⟩⟩
          · simp [hex4, Res.bind]
          · (simp [hex4, Res.bind] <;> grind)
          · (simp [hex4, Res.bind] <;> grind)
          · (simp [hex4, Res.bind] <;> grind)
          · by_cases h0 : isHexDigit a0 = true
            · by_cases h1 : isHexDigit a1 = true
              · by_cases h2 : isHexDigit a2 = true
                · by_cases h3 : isHexDigit a3 = true
                  · simp only [hex4, Res.bind, List.drop, h0, h1, h2, h3, if_true, List.nil_append, List.cons_append]
                    have w1e := hexword_arith a0 a1 a2 a3 h0 h1 h2 h3
                    try simp only [Nat.zero_or, w1e]
                    by_cases hs2 : scanHex [a0, a1, a2, a3] &&& 64512 = 55296
                    · have hs1 := sur_mask _ hs2
                      · simp only [hs1, hs2, and_self, if_true]
                        rcases r with _ | ⟨b1, _ | ⟨b2, _ | ⟨d0, _ | ⟨d1, _ | ⟨d2, _ | ⟨d3, r⟩⟩⟩⟩⟩⟩
                        · simp
                        · simp [hex4, Res.bind]
                        · (simp [hex4, Res.bind] <;> grind)
                        · (simp [hex4, Res.bind] <;> grind)
                        · (simp [hex4, Res.bind] <;> grind)
                        · (simp [hex4, Res.bind] <;> grind)
                        · by_cases g1 : b1 = 92
                          · by_cases g2 : b2 = 117
                            · by_cases k0 : isHexDigit d0 = true
                              · by_cases k1 : isHexDigit d1 = true
                                · by_cases k2 : isHexDigit d2 = true
                                  · by_cases k3 : isHexDigit d3 = true
                                    · have w2e := hexword_arith d0 d1 d2 d3 k0 k1 k2 k3
                                      simp [hex4, Res.bind, and1023_mod, g1, g2, k0, k1, k2, k3] <;>
                                        (simp only [w2e] <;> simp [Nat.or_comm])
                                    · simp [hex4, Res.bind, g1, g2, k0, k1, k2, k3]
                                  · simp [hex4, Res.bind, g1, g2, k0, k1, k2]
                                · simp [hex4, Res.bind, g1, g2, k0, k1]
                              · simp [hex4, Res.bind, g1, g2, k0]
                            · simp [g1, g2]
                          · simp [g1]
                    · simp [hs2]
                  · simp [hex4, Res.bind, h0, h1, h2, h3]
                · simp [hex4, Res.bind, h0, h1, h2]
              · simp [hex4, Res.bind, h0, h1]
            · simp [hex4, Res.bind, h0]
        · simp only [e1, e2, e3, e4, e5, e6, eu, if_true, if_false]
      · simp only [c0, c13, c10, c92, if_true, if_false]

/-! ### the whole `readToken` -/

theorem bind_rdR {α β : Type} (p : List Byte) (i : Nat) (k : Byte → Res α) (g : α → Res β) :
    (Cxx.rdR p i k).bind g = Cxx.rdR p i (fun c => (k c).bind g) := by
  unfold Cxx.rdR; cases p.drop i <;> rfl

theorem bind_ite {α β : Type} (c : Prop) [Decidable c] (a b : Res α) (g : α → Res β) :
    (if c then a else b).bind g = if c then a.bind g else b.bind g := by
  split <;> rfl

theorem fail_bind {α β : Type} (l : Nat) (p : List Byte) (g : α → Res β) : (Res.fail l p : Res α).bind g = .fail l p := rfl
theorem ok_bind {α β : Type} (a : α) (g : α → Res β) : (Res.ok a).bind g = g a := rfl

/-- the string loop inside the whole `readToken` is the separately translated string loop with the token built at the end -/
theorem tokL1_eq : ∀ (f line : Nat) (acc : List Byte) (tok : Nat) (r : List Byte),
    JsonCode.tokL1 f line acc tok r = (JsonCode.strL0 f line acc r).bind fun x => .ok ⟨tok, .str x.2.1, x.1, x.2.2⟩ := by
  intro f
  induction f with
  | zero => intros; unfold JsonCode.tokL1 JsonCode.strL0; rfl
  | succ f ih =>
    intro line acc tok r
    unfold JsonCode.tokL1 JsonCode.strL0
    simp only [bind_rdR, bind_ite, ih, fail_bind, ok_bind]

theorem tokL2_eq : ∀ (f line : Nat) (n : List Byte) (dbl : Bool) (tok : Nat) (r : List Byte),
    JsonCode.tokL2 f line n dbl tok r = (JsonCode.numL0 f n dbl r).bind fun x => .ok ⟨tok, x.1, line, x.2⟩ := by
  intro f
  induction f with
  | zero => intros; unfold JsonCode.tokL2 JsonCode.numL0; rfl
  | succ f ih =>
    intro line n dbl tok r
    unfold JsonCode.tokL2 JsonCode.numL0
    simp only [bind_rdR, bind_ite, ih, fail_bind, ok_bind]

/-- "more fuel only turns `.nofuel` into a result" -/
def FLe {α : Type} (x y : Res α) : Prop := x = .nofuel ∨ x = y

theorem FLe.refl {α : Type} (x : Res α) : FLe x x := Or.inr rfl
theorem FLe.trans {α : Type} {x y z : Res α} (h1 : FLe x y) (h2 : FLe y z) : FLe x z := by
  rcases h1 with h | h
  · exact Or.inl h
  · rw [h]; exact h2
theorem FLe_rd {α : Type} (p : List Byte) (i : Nat) (k k' : Byte → Res α) (h : ∀ c, FLe (k c) (k' c)) :
    FLe (Cxx.rdR p i k) (Cxx.rdR p i k') := by
  unfold Cxx.rdR; cases p.drop i with
  | nil => exact FLe.refl _
  | cons c _ => exact h c
theorem FLe_ite {α : Type} (c : Prop) [Decidable c] (a a' b b' : Res α) (h1 : FLe a a') (h2 : FLe b b') :
    FLe (if c then a else b) (if c then a' else b') := by
  split <;> assumption

theorem strL0_le : ∀ (f line : Nat) (acc r : List Byte),
    FLe (JsonCode.strL0 f line acc r) (JsonCode.strL0 (f + 1) line acc r) := by
  intro f
  induction f with
  | zero =>
    intro line acc r
    have e : JsonCode.strL0 0 line acc r = .nofuel := by simp only [JsonCode.strL0]
    exact Or.inl e
  | succ f ih =>
    intro line acc r
    rw [JsonCode.strL0, JsonCode.strL0]
    repeat (first | (apply FLe_rd; intro _) | apply FLe_ite | exact ih _ _ _ | exact Or.inr rfl)

theorem strL0_mono (f g line : Nat) (acc r : List Byte) (h : f ≤ g) :
    FLe (JsonCode.strL0 f line acc r) (JsonCode.strL0 g line acc r) := by
  induction g with
  | zero => have : f = 0 := by omega
            subst this; exact FLe.refl _
  | succ g ih =>
    by_cases e : f = g + 1
    · subst e; exact FLe.refl _
    · exact FLe.trans (ih (by omega)) (strL0_le g line acc r)

/-- fuel monotonicity of the model's string loop (through the translated one) -/
theorem readStr_fuel (f g line : Nat) (acc r : List Byte) (h : f ≤ g) (hn : readStr f line acc r ≠ .nofuel) :
    readStr g line acc r = readStr f line acc r := by
  have := strL0_mono f g line acc r h
  rw [gen_string, gen_string] at this
  rcases this with e | e
  · exact absurd e hn
  · exact e.symm

theorem litMatch_drop : ∀ (lit r q : List Byte), litMatch lit r = .ok (some q) → q = r.drop lit.length := by
  intro lit
  induction lit with
  | nil => intro r q h; simp [litMatch] at h; simp [h]
  | cons l ls ih =>
    intro r q h
    cases r with
    | nil => simp [litMatch] at h
    | cons c r =>
      simp only [litMatch] at h
      by_cases e : c = l
      · simp only [e, if_true] at h
        simpa using ih r q h
      · simp [e] at h

theorem litR_eq {α : Type} (lit r : List Byte) (f : List Byte → α) (l : Nat) :
    Cxx.litR lit r (Res.ok (f (r.drop lit.length))) (Res.fail l r) =
      (litMatch lit r).bind fun m => match m with
        | some r'' => Res.ok (f r'')
        | none => Res.fail l r := by
  unfold Cxx.litR
  cases h : litMatch lit r with
  | ok m =>
    cases m with
    | none => rfl
    | some q => simp only [Res.bind]; rw [litMatch_drop lit r q h]
  | _ => rfl

/-- THE WHOLE `readToken`, translated, is the model's `readToken` on every consistent position (cursor inside a
    NUL-terminated buffer) with any sufficient budget -/
theorem gen_readToken (buf : List Byte) : ∀ (f line : Nat) (r : List Byte), r.length + 2 ≤ f → Pos buf line r →
    JsonCode.tokL0 f line r = readToken line r := by
  intro f
  induction f with
  | zero => intro line r h; omega
  | succ f ih =>
    intro line r hf hp
    rcases r with _ | ⟨c, r⟩
    · exact absurd rfl hp.ne_nil
    · unfold JsonCode.tokL0 readToken
      rw [skipSpace_cons]
      by_cases c13 : c = 13
      · subst c13
        rcases r with _ | ⟨d, r⟩
        · simp [Cxx.rdR, Res.bind]
        · by_cases d10 : d = 10
          · subst d10
            have := ih (line + 1) r (by simp at hf ⊢; omega) hp.crlf
            simp [Cxx.rdR, this, readToken]
          · have := ih (line + 1) (d :: r) (by simp at hf ⊢; omega) (hp.cr d10)
            simp [Cxx.rdR, this, readToken, d10]
      · by_cases c10 : c = 10
        · subst c10
          have := ih (line + 1) r (by simp at hf ⊢; omega) hp.lf
          simp [Cxx.rdR, this, readToken]
        · by_cases csp : isSpace c = true
          · have := ih line r (by simp at hf ⊢; omega) (hp.step (isSpace_ne_zero csp) c10 c13)
            simp [Cxx.rdR, this, readToken, c13, c10, csp]
          · simp only [Cxx.rdR, List.drop, c13, c10, csp, if_false, Res.bind, Bool.false_eq_true]
            have hnum : JsonCode.tokL2 f line [] false 35 (c :: r) =
                match numLoop [] false (c :: r) with
                | Res.ok a => Res.ok { tok := 35, val := numVal a.fst a.2.fst, line := line, r := a.2.snd }
                | Res.fail l p => Res.fail l p
                | Res.oob => Res.oob
                | Res.nofuel => Res.nofuel := by
              rw [tokL2_eq, gen_number f [] false (c :: r) (by simp at hf ⊢; omega)]
              cases numLoop [] false (c :: r) <;> rfl
            by_cases c0 : c = 0
            · subst c0; simp
            by_cases cs : c = 123 ∨ c = 125 ∨ c = 91 ∨ c = 93 ∨ c = 44 ∨ c = 58
            · simp [c0, cs]
            by_cases c34 : c = 34
            · subst c34
              have hp' : Pos buf line r := hp.step (by decide) (by decide) (by decide)
              have hpost := readStr_post buf r.length line [] r (Nat.le_refl _) hp'
              have hn : readStr r.length line [] r ≠ .nofuel := by
                intro e; rw [e] at hpost; exact hpost
              have hfuel := readStr_fuel r.length f line [] r (by simp at hf; omega) hn
              simp only [c0, cs, if_true, if_false]
              rw [tokL1_eq, gen_string, hfuel]
              cases readStr r.length line [] r <;> rfl
            by_cases c116 : c = 116
            · subst c116
              simp only [c0, cs, c34, if_true, if_false]
              exact litR_eq [116, 114, 117, 101] (116 :: r) (fun q => (⟨116, .bool true, line, q⟩ : St)) line
            by_cases c102 : c = 102
            · subst c102
              simp only [c0, cs, c34, c116, if_true, if_false]
              exact litR_eq [102, 97, 108, 115, 101] (102 :: r) (fun q => (⟨102, .bool false, line, q⟩ : St)) line
            by_cases c110 : c = 110
            · subst c110
              simp only [c0, cs, c34, c116, c102, if_true, if_false]
              exact litR_eq [110, 117, 108, 108] (110 :: r) (fun q => (⟨110, .null, line, q⟩ : St)) line
            simp only [c0, cs, c34, c116, c102, c110, if_false, hnum]
            by_cases c45 : c = 45
            · simp only [c45, true_or, if_true]
              cases numLoop [] false (45 :: r) <;> rfl
            · by_cases cd : isDigit c = true
              · simp only [c45, cd, or_true, if_true, if_false]
                cases numLoop [] false (c :: r) <;> rfl
              · simp [c45, cd]


/-! ### `syntaxError` -/

def notBreak (c : Byte) : Bool := !(c == 10 || c == 13)

theorem tw_break (c : Byte) (v : List Byte) (h : c = 10 ∨ c = 13) :
    (c :: v).takeWhile notBreak = [] ∧ (c :: v).dropWhile notBreak = c :: v := by
  rcases h with h | h <;> subst h <;> simp [List.takeWhile, List.dropWhile, notBreak]

theorem tw_non (c : Byte) (v : List Byte) (h10 : c ≠ 10) (h13 : c ≠ 13) :
    (c :: v).takeWhile notBreak = c :: v.takeWhile notBreak ∧ (c :: v).dropWhile notBreak = v.dropWhile notBreak := by
  have : notBreak c = true := by simp [notBreak, h10, h13]
  simp [List.takeWhile, List.dropWhile, this]

theorem take_drop_len (v : List Byte) : (v.takeWhile notBreak).length + (v.dropWhile notBreak).length = v.length := by
  induction v with
  | nil => rfl
  | cons c v ih =>
    by_cases h : c = 10 ∨ c = 13
    · rw [(tw_break c v h).1, (tw_break c v h).2]; simp
    · have h10 : c ≠ 10 := fun e => h (Or.inl e)
      have h13 : c ≠ 13 := fun e => h (Or.inr e)
      rw [(tw_non c v h10 h13).1, (tw_non c v h10 h13).2]; simp; omega

theorem drop_len_le (v : List Byte) : (v.dropWhile notBreak).length ≤ v.length := by
  have := take_drop_len v; omega

/-- the translated `syntaxError` (the backwards walk to the previous CR / LF or to the start of the text; written with a
    counter or with a second pointer): errorLine = pos.line, errorColumn = 1 + number of bytes back to the line start -/
theorem gen_syntaxError (line : Nat) (back : List Byte) (f : Nat) (hf : back.length < f) :
    JsonCode.syntaxError f line back = .ok (line, 1 + (back.takeWhile notBreak).length) := by
  first
  | -- the column is counted while walking back
    have hA : ∀ (f col : Nat) (v : List Byte), v.length < f →
        JsonCode.colL0 f line back col v = .ok (line, col + (v.takeWhile notBreak).length) := by
      intro f
      induction f with
      | zero => intro col v h; omega
      | succ f ih =>
        intro col v h
        unfold JsonCode.colL0
        cases v with
        | nil => simp
        | cons c v =>
          have h1 : v.length < f := by simp at h; omega
          simp only [Cxx.rdR, List.drop, ih _ _ h1]
          by_cases c10 : c = 10
          · simp [c10, (tw_break 10 v (Or.inl rfl)).1]
          · by_cases c13 : c = 13
            · simp [c13, (tw_break 13 v (Or.inr rfl)).1]
            · simp [c10, c13, (tw_non c v c10 c13).1]; omega
    unfold JsonCode.syntaxError
    rw [hA f 1 back hf]
  | -- the line start is searched with a second pointer, the column is the distance
    have hB : ∀ (f : Nat) (v : List Byte), v.length < f →
        JsonCode.colL0 f line back v = .ok (line, (back.length - (v.dropWhile notBreak).length) + 1) := by
      intro f
      induction f with
      | zero => intro v h; omega
      | succ f ih =>
        intro v h
        unfold JsonCode.colL0
        cases v with
        | nil => simp
        | cons c v =>
          have h1 : v.length < f := by simp at h; omega
          simp only [Cxx.rdR, List.drop, ih _ h1]
          by_cases c10 : c = 10
          · simp [c10, (tw_break 10 v (Or.inl rfl)).2]
          · by_cases c13 : c = 13
            · simp [c13, (tw_break 13 v (Or.inr rfl)).2]
            · simp [c10, c13, (tw_non c v c10 c13).2]
    unfold JsonCode.syntaxError
    rw [hB f back hf]
    have := take_drop_len back
    congr 2
    omega


/-! ### the recursive-descent parser -/

theorem nextR_bind {α β : Type} (x : Res α) (k : α → Res β) :
    Cxx.nextR x k (fun l p => Res.fail l p) = x.bind k := by
  cases x <;> rfl

theorem callR_bind {β : Type} (x : Res (Val × St)) (k : Val → St → Res β) :
    Cxx.callR x k (fun l p => Res.fail l p) = x.bind fun a => k a.1 a.2 := by
  cases x <;> rfl

theorem gen_parser : ∀ f : Nat,
    (∀ st, JsonCode.parseValue f st = parseValue f st) ∧
    (∀ st acc, JsonCode.pvL0 f st acc = arrLoop f acc st) ∧
    (∀ st acc key, JsonCode.pvL1 f st acc key = objLoop f acc st) := by
  intro f
  induction f with
  | zero =>
    refine ⟨?_, ?_, ?_⟩
    · intro st; rw [JsonCode.parseValue, parseValue]
    · intro st acc; rw [JsonCode.pvL0, arrLoop]
    · intro st acc key; rw [JsonCode.pvL1, objLoop]
  | succ f ih =>
    obtain ⟨ihV, ihA, ihO⟩ := ih
    refine ⟨?_, ?_, ?_⟩
    · intro st
      rw [JsonCode.parseValue, parseValue]
      simp only [nextR_bind, ihA, ihO]
      by_cases hs : st.tok = 34 ∨ st.tok = 35 ∨ st.tok = 116 ∨ st.tok = 102 ∨ st.tok = 110
      · have : isScalarTok st.tok = true := by
          simp only [isScalarTok]; rcases hs with h | h | h | h | h <;> simp [h]
        simp only [hs, this, if_true]
      · have : ¬ isScalarTok st.tok = true := by
          simp only [isScalarTok]; simp; omega
        simp only [hs, this, if_false]
        by_cases h91 : st.tok = 91
        · simp [h91]
        · by_cases h123 : st.tok = 123
          · simp [h91, h123]
          · simp [h91, h123]
    · intro st acc
      rw [JsonCode.pvL0, arrLoop]
      simp only [nextR_bind, callR_bind, ihV, ihA]
      by_cases h93 : st.tok = 93
      · simp only [h93, if_true]
      · simp only [h93, if_false]
        congr 1
        funext a
        obtain ⟨v, st1⟩ := a
        simp only
        by_cases q93 : st1.tok = 93
        · simp only [q93, if_true]
        · by_cases q44 : st1.tok = 44
          · simp [q93, q44]
          · simp [q93, q44]
    · intro st acc key
      rw [JsonCode.pvL1, objLoop]
      simp only [nextR_bind, callR_bind, ihV, ihO]
      by_cases h125 : st.tok = 125
      · simp only [h125, if_true]
      · simp only [h125, if_false]
        by_cases h34 : st.tok = 34
        · simp only [h34, if_true, ne_eq, not_true_eq_false, if_false]
          congr 1
          funext st1
          by_cases q58 : st1.tok = 58
          · simp only [q58, if_true, ne_eq, not_true_eq_false, if_false]
            congr 1
            funext st2
            congr 1
            funext a
            obtain ⟨v, st3⟩ := a
            simp only
            by_cases q125 : st3.tok = 125
            · simp only [q125, if_true]
            · by_cases q44 : st3.tok = 44
              · simp [q125, q44]
              · simp [q125, q44]
          · simp [q58]
        · simp [h34]

end Nstd.Json
