import Nstd.Generated.JsonCode
/-
  Property C15, the tie by TRANSLATION (lemmas).  `Nstd.Generated.JsonCode` holds statements of the CURRENT
  src/Document/Json.cpp as tools/gen_json_cxx.py translates them on every run: `Json::stripComments` (three loops),
  the string block and the number block of `readToken`, `skipSpace`.  Here: each translated function IS the
  hand-written model function (`stripOuter/stripBlock/stripString`, `readStr`, `numLoop` + `numVal`, `skipSpace`),
  for every state.  The statements are repeated in PropsGen.lean (obligations).
-/
set_option linter.unusedSimpArgs false
set_option linter.unusedVariables false
namespace Nstd.Json
open Nstd.Generated


theorem gen_strip_loops (f : Nat) : ∀ out src,
    JsonCode.stripL0 f out src = stripOuter f out src ∧
    JsonCode.stripL1 f out src = stripBlock f out src ∧
    JsonCode.stripL2 f out src = stripString f out src := by
  induction f with
  | zero =>
    intro out src
    refine ⟨?_, ?_, ?_⟩
    · unfold JsonCode.stripL0 stripOuter; rfl
    · unfold JsonCode.stripL1 stripBlock; rfl
    · unfold JsonCode.stripL2 stripString; rfl
  | succ f ih =>
    intro out src
    have ih0 := fun o s => (ih o s).1
    have ih1 := fun o s => (ih o s).2.1
    have ih2 := fun o s => (ih o s).2.2
    refine ⟨?_, ?_, ?_⟩
    · unfold JsonCode.stripL0 stripOuter
      rcases src with _ | ⟨c, _ | ⟨d, r⟩⟩ <;>
        simp [Cxx.rdS, Cxx.findS, ih0, ih1, ih2]
      all_goals grind
    · unfold JsonCode.stripL1 stripBlock
      simp only [Cxx.findS]
      cases hf : findOneOf [13, 10, 42] src with
      | ok o =>
        cases o with
        | none => rfl
        | some e =>
          rcases e with _ | ⟨c, _ | ⟨d, r⟩⟩ <;> simp [Cxx.rdS, ih0, ih1, ih2]
          all_goals grind
      | _ => rfl
    · unfold JsonCode.stripL2 stripString
      rcases src with _ | ⟨c, _ | ⟨d, r⟩⟩ <;>
        simp [Cxx.rdS, ih0, ih1, ih2]
      all_goals grind

theorem gen_stripComments (buf : List Byte) : JsonCode.strip (stripFuel buf) buf = stripComments buf :=
  (gen_strip_loops _ [] buf).1

theorem gen_skipSpace : ∀ (f line : Nat) (r : List Byte), r.length < f →
    JsonCode.skipWs f line r = skipSpace line r := by
  intro f
  induction f with
  | zero => intro line r h; omega
  | succ f ih =>
    intro line r h
    unfold JsonCode.skipWs at ih ⊢
    unfold JsonCode.wsL0 skipSpace
    rcases r with _ | ⟨c, _ | ⟨d, r⟩⟩
    · simp [Cxx.rdR]
    · have h0 : ([] : List Byte).length < f := by simp at h ⊢; omega
      simp [Cxx.rdR, ih _ _ h0]
    · have h1 : r.length < f := by simp at h; omega
      have h2 : (d :: r).length < f := by simp at h ⊢; omega
      simp [Cxx.rdR, ih _ _ h1, ih _ _ h2]

theorem numVal_eq (n : List Byte) (dbl : Bool) : numVal n dbl =
    if dbl = true then .dbl n else if wrap32 (atoll n) = atoll n then .int (wrap32 (atoll n)) else .int64 (atoll n) := by
  unfold numVal; rfl

/-- the number block: alphabet loop + `isDouble` + `toInt64` and the narrowing to `int` -/
theorem gen_number : ∀ (f : Nat) (n : List Byte) (dbl : Bool) (r : List Byte), r.length < f →
    JsonCode.numL0 f n dbl r = (numLoop n dbl r).bind fun x => .ok (numVal x.1 x.2.1, x.2.2) := by
  intro f
  induction f with
  | zero => intro n dbl r h; omega
  | succ f ih =>
    intro n dbl r h
    unfold JsonCode.numL0 numLoop
    rcases r with _ | ⟨c, r⟩
    · simp [Cxx.rdR, Res.bind]
    · have h1 : r.length < f := by simp at h; omega
      simp only [Cxx.rdR, List.drop, ih _ _ _ h1]
      by_cases a1 : c = 69 ∨ c = 101 ∨ c = 45 ∨ c = 43
      · simp only [a1, if_true]
      · simp only [a1, if_false]
        by_cases a2 : c = 46
        · simp only [a2, if_true]
        · simp only [a2, if_false]
          by_cases a3 : isDigit c = true
          · simp only [a3, if_true]
          · simp only [a3, if_false, Res.bind, Bool.false_eq_true, numVal_eq]
            generalize atoll n = x
            cases dbl <;> simp only [wrap32, if_true, if_false, Bool.false_eq_true]
            by_cases hw : (x + 2147483648) % 4294967296 - 2147483648 = x <;>
              simp only [hw, if_true, if_false] <;> (try (repeat' split)) <;> first | rfl | (exfalso; omega)

open Nstd.Generated.Json in
theorem unesc_eq (e : Byte) : unesc e =
    if e = 34 ∨ e = 92 ∨ e = 47 then some e else if e = 98 then some 8 else if e = 102 then some 12
    else if e = 110 then some 10 else if e = 114 then some 13 else if e = 116 then some 9 else none := by
  simp only [unesc, unescTable, lookup]
  grind

theorem and1023_mod (x : Nat) : (x &&& 1023) % 4294967296 = x &&& 1023 :=
  Nat.mod_eq_of_lt (Nat.lt_of_le_of_lt Nat.and_le_right (by decide))

/-- a unit in D800..DBFF (`w & 0xFC00 == 0xD800`) passes the wider test `w & 0xF800 == 0xD800` too: the code may
    test either one or both -/
theorem sur_mask (w : Nat) (h : w &&& 64512 = 55296) : w &&& 63488 = 55296 := by
  have k : (64512 : Nat) &&& 63488 = 63488 := by decide
  have e : w &&& 63488 = (w &&& 64512) &&& 63488 := by rw [Nat.and_assoc, k]
  rw [e, h]; decide

theorem gen_string : ∀ (f line : Nat) (acc r : List Byte), JsonCode.strL0 f line acc r = readStr f line acc r := by
  intro f
  induction f with
  | zero => intro line acc r; unfold JsonCode.strL0 readStr; rfl
  | succ f ih =>
    intro line acc r
    unfold JsonCode.strL0 readStr
    rcases r with _ | ⟨c, _ | ⟨e, r⟩⟩
    · simp [Cxx.rdR]
    · simp [Cxx.rdR, ih]
    · simp only [Cxx.rdR, List.drop, ih, unesc_eq]
      by_cases c0 : c = 0
      · simp only [c0, if_true]
      by_cases c13 : c = 13
      · simp [c0, c13]
      by_cases c10 : c = 10
      · simp [c0, c13, c10]
      by_cases c92 : c = 92
      · subst c92
        simp only [show ¬ (92 : Nat) = 0 by decide, show ¬ (92 : Nat) = 13 by decide, show ¬ (92 : Nat) = 10 by decide,
          if_true, if_false]
        by_cases e1 : e = 34 ∨ e = 92 ∨ e = 47
        · simp only [e1, if_true]
        by_cases e2 : e = 98
        · simp [e1, e2]
        by_cases e3 : e = 102
        · simp [e1, e2, e3]
        by_cases e4 : e = 110
        · simp [e1, e2, e3, e4]
        by_cases e5 : e = 114
        · simp [e1, e2, e3, e4, e5]
        by_cases e6 : e = 116
        · simp [e1, e2, e3, e4, e5, e6]
        by_cases eu : e = 117
        · subst eu
          simp +decide only [if_true, if_false]
          rcases r with _ | ⟨a0, _ | ⟨a1, _ | ⟨a2, _ | ⟨a3, r⟩⟩⟩⟩
          · simp [hex4, Res.bind]
          · (simp [hex4, Res.bind] <;> grind)
          · (simp [hex4, Res.bind] <;> grind)
          · (simp [hex4, Res.bind] <;> grind)
          · by_cases h0 : isHexDigit a0 = true
            · by_cases h1 : isHexDigit a1 = true
              · by_cases h2 : isHexDigit a2 = true
                · by_cases h3 : isHexDigit a3 = true
                  · simp only [hex4, Res.bind, List.drop, h0, h1, h2, h3, if_true, List.nil_append, List.cons_append]
                    by_cases hs2 : scanHex [a0, a1, a2, a3] &&& 64512 = 55296
                    · have hs1 := sur_mask _ hs2
                      · simp only [hs1, hs2, and_self, if_true]
                        rcases r with _ | ⟨b1, _ | ⟨b2, _ | ⟨d0, _ | ⟨d1, _ | ⟨d2, _ | ⟨d3, r⟩⟩⟩⟩⟩⟩
                        · simp
                        · simp [hex4, Res.bind]
                        · (simp [hex4, Res.bind] <;> grind)
                        · (simp [hex4, Res.bind] <;> grind)
                        · (simp [hex4, Res.bind] <;> grind)
                        · (simp [hex4, Res.bind] <;> grind)
                        · by_cases g1 : b1 = 92
                          · by_cases g2 : b2 = 117
                            · by_cases k0 : isHexDigit d0 = true
                              · by_cases k1 : isHexDigit d1 = true
                                · by_cases k2 : isHexDigit d2 = true
                                  · by_cases k3 : isHexDigit d3 = true
                                    · simp [hex4, Res.bind, and1023_mod, g1, g2, k0, k1, k2, k3]
                                    · simp [hex4, Res.bind, g1, g2, k0, k1, k2, k3]
                                  · simp [hex4, Res.bind, g1, g2, k0, k1, k2]
                                · simp [hex4, Res.bind, g1, g2, k0, k1]
                              · simp [hex4, Res.bind, g1, g2, k0]
                            · simp [g1, g2]
                          · simp [g1]
                    · simp [hs2]
                  · simp [hex4, Res.bind, h0, h1, h2, h3]
                · simp [hex4, Res.bind, h0, h1, h2]
              · simp [hex4, Res.bind, h0, h1]
            · simp [hex4, Res.bind, h0]
        · simp only [e1, e2, e3, e4, e5, e6, eu, if_true, if_false]
      · simp only [c0, c13, c10, c92, if_true, if_false]
end Nstd.Json
