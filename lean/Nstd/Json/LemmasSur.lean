import Nstd.Json.LemmasRfcRT
/-
  The failing side of the `\u` logic: a high surrogate escape is rejected unless a `\u` low surrogate
  escape follows, and a string token of the RFC grammar whose items have no meaning (`decodeItems = none`)
  is a syntax error.
-/
set_option linter.unusedSimpArgs false
set_option linter.unusedVariables false
namespace Nstd.Json
open Nstd.Generated.Json

/-- high surrogate, then a backslash that does not start a `\u` escape: error at that backslash -/
theorem high_then_escape (f line : Nat) (acc : List Byte) (a b c d y : Byte) (X : List Byte)
    (ha : Rfc.isHex a) (hb : Rfc.isHex b) (hc : Rfc.isHex c) (hd : Rfc.isHex d)
    (hw : isHighSur (((hexVal a * 16 + hexVal b) * 16 + hexVal c) * 16 + hexVal d) = true) (hy : y ≠ 117) :
    readStr (f + 1) line acc (92 :: 117 :: a :: b :: c :: d :: 92 :: y :: X) = .fail line (92 :: y :: X) := by
  have h1 := hexVal_lt ha; have h2 := hexVal_lt hb; have h3 := hexVal_lt hc; have h4 := hexVal_lt hd
  have hlt : ((hexVal a * 16 + hexVal b) * 16 + hexVal c) * 16 + hexVal d < 65536 := by omega
  have hyes := (high_iff _ hlt).mpr hw
  rw [readStr_cons]
  simp only [(by decide : (92:Nat) ≠ 0), (by decide : (92:Nat) ≠ 13), (by decide : (92:Nat) ≠ 10), if_false, if_true,
    unesc_u, hex4_ok line a b c d _ ha hb hc hd, Res.bind, scanHex4, hyes, and_self, ne_eq, not_true_eq_false, hy,
    not_false_eq_true]

/-- high surrogate, then a `\u` escape that is not a low surrogate: `pos.pos -= 6`, the error is reported at
    the backslash of the second escape -/
theorem high_then_nonlow (f line : Nat) (acc : List Byte) (a b c d a2 b2 c2 d2 : Byte) (X : List Byte)
    (ha : Rfc.isHex a) (hb : Rfc.isHex b) (hc : Rfc.isHex c) (hd : Rfc.isHex d)
    (ha2 : Rfc.isHex a2) (hb2 : Rfc.isHex b2) (hc2 : Rfc.isHex c2) (hd2 : Rfc.isHex d2)
    (hw : isHighSur (((hexVal a * 16 + hexVal b) * 16 + hexVal c) * 16 + hexVal d) = true)
    (hw2 : isLowSur (((hexVal a2 * 16 + hexVal b2) * 16 + hexVal c2) * 16 + hexVal d2) = false) :
    readStr (f + 1) line acc (92 :: 117 :: a :: b :: c :: d :: 92 :: 117 :: a2 :: b2 :: c2 :: d2 :: X)
      = .fail line (92 :: 117 :: a2 :: b2 :: c2 :: d2 :: X) := by
  have h1 := hexVal_lt ha; have h2 := hexVal_lt hb; have h3 := hexVal_lt hc; have h4 := hexVal_lt hd
  have g1 := hexVal_lt ha2; have g2 := hexVal_lt hb2; have g3 := hexVal_lt hc2; have g4 := hexVal_lt hd2
  have hlt : ((hexVal a * 16 + hexVal b) * 16 + hexVal c) * 16 + hexVal d < 65536 := by omega
  have hlt2 : ((hexVal a2 * 16 + hexVal b2) * 16 + hexVal c2) * 16 + hexVal d2 < 65536 := by omega
  have hyes := (high_iff _ hlt).mpr hw
  have hno : ¬((((hexVal a2 * 16 + hexVal b2) * 16 + hexVal c2) * 16 + hexVal d2) &&& 0xFC00 = 0xDC00) := by
    rw [low_iff _ hlt2, hw2]; simp
  rw [readStr_cons]
  simp only [(by decide : (92:Nat) ≠ 0), (by decide : (92:Nat) ≠ 13), (by decide : (92:Nat) ≠ 10), if_false, if_true,
    unesc_u, hex4_ok line a b c d _ ha hb hc hd, hex4_ok line a2 b2 c2 d2 X ha2 hb2 hc2 hd2, Res.bind, scanHex4, hyes,
    and_self, ne_eq, not_true_eq_false, hno, not_false_eq_true]

theorem char_byte_inv {c : List Byte} {b : Byte} (h : Rfc.Char c (.byte b)) :
    (c = [b] ∧ b ≠ 92) ∨ ∃ e, c = [92, e] ∧ e ≠ 117 := by
  cases h with
  | unescaped _ h32 h34 h92 => exact Or.inl ⟨rfl, h92⟩
  | quote => exact Or.inr ⟨_, rfl, by decide⟩
  | backslash => exact Or.inr ⟨_, rfl, by decide⟩
  | slash => exact Or.inr ⟨_, rfl, by decide⟩
  | backspace => exact Or.inr ⟨_, rfl, by decide⟩
  | formfeed => exact Or.inr ⟨_, rfl, by decide⟩
  | linefeed => exact Or.inr ⟨_, rfl, by decide⟩
  | cr => exact Or.inr ⟨_, rfl, by decide⟩
  | tab => exact Or.inr ⟨_, rfl, by decide⟩

theorem map_none {α β : Type} {o : Option α} {g : α → β} (h : o.map g = none) : o = none := by
  cases o with
  | none => rfl
  | some x => simp at h

set_option maxRecDepth 4000 in
theorem readStr_chars_none : ∀ (n : Nat) (is : List Rfc.Item), is.length ≤ n → ∀ (body : List Byte),
    Rfc.Chars body is → decodeItems is = none → ∀ (f line : Nat) (acc rest : List Byte), body.length + 1 ≤ f →
    ∃ p, readStr f line acc (body ++ 34 :: rest) = .fail line p := by
  intro n
  induction n with
  | zero =>
    intro is hn body hch hd
    have : is = [] := List.eq_nil_of_length_eq_zero (by omega)
    subst this
    simp [decodeItems] at hd
  | succ n ih =>
    intro is hn body hch hd f line acc rest hf
    cases is with
    | nil => simp [decodeItems] at hd
    | cons i is' =>
      obtain ⟨c, r, hbody, hchar, hrest⟩ := chars_cons_inv hch
      subst hbody
      have hclen := char_len hchar
      obtain ⟨f', rfl⟩ : ∃ f', f = f' + 1 := ⟨f - 1, by omega⟩
      simp only [List.length_append] at hf
      simp only [List.length_cons] at hn
      cases i with
      | byte b =>
        simp only [decodeItems] at hd
        have hd' := map_none hd
        rw [List.append_assoc, step_byte hchar]
        exact ih is' (by omega) r hrest hd' f' line _ rest (by omega)
      | unit w =>
        obtain ⟨a, b, c', d, hc, ha, hb, hc', hdd, hw⟩ := char_unit_inv hchar
        subst hc
        by_cases hhigh : isHighSur w = true
        · subst hw
          cases is' with
          | nil =>
            have := chars_nil_inv hrest
            subst this
            exact ⟨_, lone_high_rejected f' line acc a b c' d 34 rest ha hb hc' hdd hhigh (by decide)⟩
          | cons i2 is'' =>
            obtain ⟨c2, r2, hr, hchar2, hrest2⟩ := chars_cons_inv hrest
            subst hr
            cases i2 with
            | byte b2 =>
              rcases char_byte_inv hchar2 with ⟨hc2, hb2⟩ | ⟨e, hc2, he⟩
              · subst hc2
                exact ⟨_, lone_high_rejected f' line acc a b c' d b2 (r2 ++ 34 :: rest) ha hb hc' hdd hhigh hb2⟩
              · subst hc2
                exact ⟨_, high_then_escape f' line acc a b c' d e (r2 ++ 34 :: rest) ha hb hc' hdd hhigh he⟩
            | unit w2 =>
              obtain ⟨a2, b2, c2', d2, hc2, ha2, hb2, hc2', hd2, hw2⟩ := char_unit_inv hchar2
              subst hc2
              subst hw2
              by_cases hlow : isLowSur (((hexVal a2 * 16 + hexVal b2) * 16 + hexVal c2') * 16 + hexVal d2) = true
              · simp only [decodeItems, hhigh, hlow, if_true] at hd
                have hd' := map_none hd
                simp only [List.length_cons, List.length_append, List.length_nil] at hf hn
                rw [List.append_assoc, List.append_assoc,
                  step_pair f' line acc a b c' d a2 b2 c2' d2 _ ha hb hc' hdd ha2 hb2 hc2' hd2 hhigh hlow]
                exact ih is'' (by omega) r2 hrest2 hd' f' line _ rest (by omega)
              · have hlow' : isLowSur (((hexVal a2 * 16 + hexVal b2) * 16 + hexVal c2') * 16 + hexVal d2) = false := by
                  simpa using hlow
                exact ⟨_, high_then_nonlow f' line acc a b c' d a2 b2 c2' d2 (r2 ++ 34 :: rest) ha hb hc' hdd ha2 hb2 hc2' hd2
                  hhigh hlow'⟩
        · have hhigh' : isHighSur w = false := by simpa using hhigh
          rw [decodeItems_unit_plain w _ hhigh'] at hd
          have hd' := map_none hd
          subst hw
          rw [List.append_assoc, step_unit f' line acc a b c' d _ ha hb hc' hdd hhigh']
          exact ih is' (by omega) r hrest hd' f' line _ rest (by omega)

/-- a string token of the grammar without a meaning is a syntax error on the line where it starts -/
theorem tok_rfc_str_none {t : List Byte} {is : List Rfc.Item} (h : Rfc.Str t is) (hd : decodeItems is = none)
    (line : Nat) (rest : List Byte) : ∃ p, readToken line (t ++ rest) = .fail line p := by
  cases h with
  | mk hch =>
    rename_i body
    obtain ⟨p, hp⟩ := readStr_chars_none is.length is (Nat.le_refl _) body hch hd (body.length + (rest.length + 1)) line [] rest
      (by omega)
    refine ⟨p, ?_⟩
    unfold readToken
    simp only [List.cons_append, List.append_assoc, List.nil_append]
    rw [skipSpace_stop line 34 _ (by decide) (by decide) (by decide)]
    simp [Res.bind]
    rw [hp]

end Nstd.Json
