import Nstd.Json.Spec
namespace Nstd.Json

theorem cstr_cons (c : Byte) (r : List Byte) : cstr (c :: r) = if c = 0 then [] else c :: cstr r := rfl

theorem zero_mem_tail {c : Byte} {r : List Byte} (h : 0 ∈ c :: r) (hc : c ≠ 0) : 0 ∈ r := by
  rcases List.mem_cons.mp h with h | h
  · exact absurd h.symm hc
  · exact h

theorem stripSpec_normal (c : Byte) (r : List Byte) :
    stripSpec .normal (c :: r) =
      if c = 47 then
        match r with
        | [] => [c]
        | d :: r' =>
          if d = 47 then stripSpec .line r' else if d = 42 then stripSpec .block r' else c :: stripSpec .normal r
      else if c = 34 then c :: stripSpec .string r
      else c :: stripSpec .normal r := by
  cases r <;> simp [stripSpec]

theorem stripSpec_line (c : Byte) (r : List Byte) :
    stripSpec .line (c :: r) = if c = 13 ∨ c = 10 then c :: stripSpec .normal r else stripSpec .line r := by
  simp [stripSpec]

theorem stripSpec_block (c : Byte) (r : List Byte) :
    stripSpec .block (c :: r) =
      if c = 42 then
        match r with
        | [] => []
        | d :: r' => if d = 47 then stripSpec .normal r' else stripSpec .block r
      else if c = 13 ∨ c = 10 then c :: stripSpec .block r
      else stripSpec .block r := by
  cases r <;> simp [stripSpec]

theorem stripSpec_string (c : Byte) (r : List Byte) :
    stripSpec .string (c :: r) =
      if c = 92 then
        match r with
        | [] => [c]
        | d :: r' => c :: d :: stripSpec .string r'
      else if c = 34 then c :: stripSpec .normal r
      else c :: stripSpec .string r := by
  cases r <;> simp [stripSpec]

theorem findOneOf_line : ∀ r : List Byte, 0 ∈ r →
    (findOneOf [13, 10] r = .ok none ∧ stripSpec .line (cstr r) = []) ∨
    (∃ e, findOneOf [13, 10] r = .ok (some e) ∧ stripSpec .line (cstr r) = stripSpec .normal (cstr e)
      ∧ 0 ∈ e ∧ e.length ≤ r.length) := by
  intro r
  induction r with
  | nil => intro h; cases h
  | cons c r ih =>
    intro h
    by_cases h0 : c = 0
    · left; subst h0; simp [findOneOf, cstr, stripSpec]
    · by_cases hb : c = 13 ∨ c = 10
      · right
        refine ⟨c :: r, ?_, ?_, h, Nat.le_refl _⟩
        · rcases hb with hb | hb <;> subst hb <;> simp [findOneOf]
        · rcases hb with hb | hb <;> subst hb <;> simp [cstr_cons, stripSpec_normal, stripSpec_line]
      · have hb1 : c ≠ 13 := fun e => hb (Or.inl e)
        have hb2 : c ≠ 10 := fun e => hb (Or.inr e)
        rcases ih (zero_mem_tail h h0) with ⟨h1, h2⟩ | ⟨e, h1, h2, h3, h4⟩
        · left
          refine ⟨?_, ?_⟩
          · simp [findOneOf, h0, hb1, hb2, h1]
          · simp [cstr_cons, h0, stripSpec_line, hb1, hb2, h2]
        · right
          refine ⟨e, ?_, ?_, h3, Nat.le_succ_of_le h4⟩
          · simp [findOneOf, h0, hb1, hb2, h1]
          · simp [cstr_cons, h0, stripSpec_line, hb1, hb2, h2]

theorem findOneOf_block : ∀ r : List Byte, 0 ∈ r →
    (findOneOf [13, 10, 42] r = .ok none ∧ stripSpec .block (cstr r) = []) ∨
    (∃ c e1, findOneOf [13, 10, 42] r = .ok (some (c :: e1)) ∧ (c = 13 ∨ c = 10 ∨ c = 42)
      ∧ stripSpec .block (cstr r) = stripSpec .block (cstr (c :: e1)) ∧ 0 ∈ e1 ∧ e1.length < r.length) := by
  intro r
  induction r with
  | nil => intro h; cases h
  | cons c r ih =>
    intro h
    by_cases h0 : c = 0
    · left; subst h0; simp [findOneOf, cstr, stripSpec]
    · by_cases hb : c = 13 ∨ c = 10 ∨ c = 42
      · right
        refine ⟨c, r, ?_, hb, rfl, zero_mem_tail h h0, Nat.lt_succ_self _⟩
        rcases hb with hb | hb | hb <;> subst hb <;> simp [findOneOf]
      · have hb1 : c ≠ 13 := fun e => hb (Or.inl e)
        have hb2 : c ≠ 10 := fun e => hb (Or.inr (Or.inl e))
        have hb3 : c ≠ 42 := fun e => hb (Or.inr (Or.inr e))
        rcases ih (zero_mem_tail h h0) with ⟨h1, h2⟩ | ⟨d, e1, h1, h2, h3, h4, h5⟩
        · left
          refine ⟨?_, ?_⟩
          · simp [findOneOf, h0, hb1, hb2, hb3, h1]
          · simp [cstr_cons, h0, stripSpec_block, hb1, hb2, hb3, h2]
        · right
          refine ⟨d, e1, ?_, h2, ?_, h4, Nat.lt_succ_of_lt h5⟩
          · simp [findOneOf, h0, hb1, hb2, hb3, h1]
          · simp [cstr_cons, h0, stripSpec_block, hb1, hb2, hb3, h3]

/-- all three loops of the model compute the reference, for every fuel above the cursor length -/
theorem strip_loops : ∀ f : Nat,
    (∀ out r, 0 ∈ r → r.length + 1 ≤ f → stripOuter f out r = .ok (out ++ stripSpec .normal (cstr r))) ∧
    (∀ out r, 0 ∈ r → r.length + 1 ≤ f → stripBlock f out r = .ok (out ++ stripSpec .block (cstr r))) ∧
    (∀ out r, 0 ∈ r → r.length + 1 ≤ f → stripString f out r = .ok (out ++ stripSpec .string (cstr r))) := by
  intro f
  induction f with
  | zero =>
    refine ⟨?_, ?_, ?_⟩ <;> intro out r _ hl <;> omega
  | succ f ih =>
    obtain ⟨ihO, ihB, ihS⟩ := ih
    refine ⟨?_, ?_, ?_⟩
    · -- outer
      intro out r h hl
      cases r with
      | nil => cases h
      | cons c r =>
        by_cases h0 : c = 0
        · subst h0; simp [stripOuter, cstr, stripSpec]
        · have hr := zero_mem_tail h h0
          simp only [List.length_cons] at hl
          by_cases h47 : c = 47
          · subst h47
            cases r with
            | nil => cases hr
            | cons d r' =>
              simp only [List.length_cons] at hl
              by_cases hd47 : d = 47
              · subst hd47
                have hr' : 0 ∈ r' := zero_mem_tail hr (by decide)
                have hfo : findOneOf [13, 10] (47 :: 47 :: r') = findOneOf [13, 10] r' := by
                  simp [findOneOf]
                rcases findOneOf_line r' hr' with ⟨h1, h2⟩ | ⟨e, h1, h2, h3, h4⟩
                · simp [stripOuter, hfo, h1, cstr_cons, stripSpec_normal, h2]
                · have := ihO out e h3 (by omega)
                  simp [stripOuter, hfo, h1, cstr_cons, stripSpec_normal, h2, this]
              · by_cases hd42 : d = 42
                · subst hd42
                  have hr' : 0 ∈ r' := zero_mem_tail hr (by decide)
                  have := ihB out r' hr' (by omega)
                  simp [stripOuter, this, cstr_cons, stripSpec_normal]
                · have := ihO (out ++ [47]) (d :: r') hr (by simp; omega)
                  by_cases hd0 : d = 0
                  · subst hd0
                    simp [stripOuter, this, cstr, stripSpec]
                  · simp [stripOuter, hd47, hd42, hd0, this, cstr_cons, stripSpec_normal]
          · by_cases h34 : c = 34
            · subst h34
              have := ihS (out ++ [34]) r hr (by omega)
              simp [stripOuter, this, cstr_cons, stripSpec_normal]
            · have := ihO (out ++ [c]) r hr (by omega)
              simp [stripOuter, h0, h47, h34, this, cstr_cons, stripSpec_normal]
    · -- block
      intro out r h hl
      rcases findOneOf_block r h with ⟨h1, h2⟩ | ⟨c, e1, h1, hc, h3, h4, h5⟩
      · simp [stripBlock, h1, h2]
      · have hc0 : c ≠ 0 := by rcases hc with hc | hc | hc <;> subst hc <;> decide
        by_cases h42 : c = 42
        · subst h42
          cases e1 with
          | nil => cases h4
          | cons d e2 =>
            simp only [List.length_cons] at h5
            by_cases hd : d = 47
            · subst hd
              have he2 : 0 ∈ e2 := zero_mem_tail h4 (by decide)
              have := ihO out e2 he2 (by omega)
              simp [stripBlock, h1, h3, this, cstr_cons, stripSpec_block]
            · have := ihB out (d :: e2) h4 (by simp; omega)
              by_cases hd0 : d = 0
              · subst hd0
                simp [stripBlock, h1, h3, this, stripSpec_block, cstr, stripSpec]
              · simp [stripBlock, h1, h3, this, cstr_cons, stripSpec_block, hd, hd0]
        · have := ihB (out ++ [c]) e1 h4 (by omega)
          have hc' : c = 13 ∨ c = 10 := by
            rcases hc with hc | hc | hc
            · exact Or.inl hc
            · exact Or.inr hc
            · exact absurd hc h42
          simp [stripBlock, h1, h3, this, cstr_cons, stripSpec_block, h42, hc0, hc']
    · -- string
      intro out r h hl
      cases r with
      | nil => cases h
      | cons c r =>
        simp only [List.length_cons] at hl
        by_cases h0 : c = 0
        · subst h0
          cases f with
          | zero => omega
          | succ f' => simp [stripString, stripOuter, cstr, stripSpec]
        · have hr := zero_mem_tail h h0
          by_cases h92 : c = 92
          · subst h92
            cases r with
            | nil => cases hr
            | cons d r' =>
              simp only [List.length_cons] at hl
              by_cases hd0 : d = 0
              · subst hd0
                have := ihS (out ++ [92]) (0 :: r') hr (by simp; omega)
                simp [stripString, this, stripSpec_string, cstr, stripSpec]
              · have hr' : 0 ∈ r' := zero_mem_tail hr hd0
                have := ihS (out ++ [92, d]) r' hr' (by omega)
                simp [stripString, hd0, this, cstr_cons, stripSpec_string]
          · by_cases h34 : c = 34
            · subst h34
              have := ihO (out ++ [34]) r hr (by omega)
              simp [stripString, this, cstr_cons, stripSpec_string]
            · have := ihS (out ++ [c]) r hr (by omega)
              simp [stripString, h0, h92, h34, this, cstr_cons, stripSpec_string]

theorem stripSpec_breaks (m : Mode) (t : List Byte) :
    (stripSpec m t).filter isBreak = t.filter isBreak := by
  fun_induction stripSpec m t <;>
    first | (simp_all [isBreak]; done) | (simp only [List.filter_cons, *]; done)

theorem stripSpec_no_slash (m : Mode) (t : List Byte) (hm : m = .normal ∨ m = .string) (h : 47 ∉ t) :
    stripSpec m t = t := by
  fun_induction stripSpec m t <;> simp_all

theorem stripSpec_sublist (m : Mode) (t : List Byte) : (stripSpec m t).Sublist t := by
  fun_induction stripSpec m t <;> simp_all

end Nstd.Json
