import Nstd.Json.LemmasStrip
/-
  Property C15 (JSON: total, safe, round trip; stripComments removes exactly the comments).
  Only the property theorems and their non-vacuity examples live here.
-/
namespace Nstd.Json

/-! ## stripComments -/

/-- `Json::stripComments` equals the reference stripper on the C string of ANY buffer that
    contains a NUL: it never reads behind the buffer (`.oob`), never runs out of fuel, and its
    result depends only on the bytes before the first NUL. -/
theorem strip_spec (buf : List Byte) (h : 0 ∈ buf) :
    stripComments buf = .ok (stripSpec .normal (cstr buf)) := by
  have := (strip_loops (stripFuel buf)).1 [] buf h (by unfold stripFuel; omega)
  simpa [stripComments] using this

/-- the reference keeps every line break (the CR/LF bytes, in order), in every mode -/
theorem strip_keeps_line_breaks (buf : List Byte) (h : 0 ∈ buf) :
    ∃ out, stripComments buf = .ok out ∧ out.filter isBreak = (cstr buf).filter isBreak :=
  ⟨_, strip_spec buf h, stripSpec_breaks _ _⟩

/-- nothing is invented or reordered: the result is a subsequence of the text -/
theorem strip_sublist (buf : List Byte) (h : 0 ∈ buf) :
    ∃ out, stripComments buf = .ok out ∧ out.Sublist (cstr buf) :=
  ⟨_, strip_spec buf h, stripSpec_sublist _ _⟩

-- non-vacuity / the four repaired inputs: `/** x */1`, `"a\nb // x"`, `"\\" // c`
example : stripComments [47, 42, 42, 32, 120, 32, 42, 47, 49, 0] = .ok [49] := by decide
example : stripComments [34, 97, 92, 110, 98, 32, 47, 47, 32, 120, 34, 0]
    = .ok [34, 97, 92, 110, 98, 32, 47, 47, 32, 120, 34] := by decide
example : stripComments [34, 92, 92, 34, 32, 47, 47, 32, 99, 0] = .ok [34, 92, 92, 34, 32] := by decide
example : stripSpec .normal [49, 47, 47, 120, 10, 50, 47, 42, 13, 42, 47, 51] = [49, 10, 50, 13, 51] := by decide

end Nstd.Json
