import Nstd.Json.LemmasStrip
import Nstd.Json.LemmasParse
import Nstd.Json.LemmasRT
import Nstd.Json.LemmasAgree
import Nstd.Json.LemmasTokInv
import Nstd.Json.LemmasBytes
/-
  Property C15 (JSON: total, safe, round trip; stripComments removes exactly the comments).
  Only the property theorems and their non-vacuity examples live here.
-/
namespace Nstd.Json

/-! ## parse: total, safe, error position inside the text

  `buf` is the memory handed to `Json::parse`; the hypothesis `0 ∈ buf` says it is NUL-terminated
  somewhere (for the exactly sized buffer `t ++ [0]` of a NUL-free `t` the terminator is the last
  byte).  `.oob` = a read behind the end of `buf`; `.nofuel` = the recursion/loop budget
  `parseFuel buf = 2·|buf| + 4` did not suffice. -/

/-- `Json::parse` terminates on every NUL-terminated buffer: the budget always suffices
    (no bound on size or nesting depth). -/
theorem parse_total (buf : List Byte) (h : 0 ∈ buf) : parse buf ≠ .nofuel := by
  have := parse_safe buf h
  intro e; rw [e] at this; exact this

/-- `Json::parse` never reads behind the end of a buffer that contains a NUL; applied to
    `t ++ [0]`: it reads nothing beyond the terminator. -/
theorem parse_no_oob (buf : List Byte) (h : 0 ∈ buf) : parse buf ≠ .oob := by
  have := parse_safe buf h
  intro e; rw [e] at this; exact this

/-- nothing behind the first NUL influences the result: `parse` of any buffer equals `parse` of
    the exactly sized C string it holds (together with `parse_no_oob` on that exact buffer: the
    bytes after the terminator are never read) -/
theorem parse_reads_only_cstr (buf : List Byte) (h : 0 ∈ buf) : parse buf = parse (cstr buf ++ [0]) :=
  parse_agree _ _ (agree_cstr buf h)

/-- a token `"` always carries a string value.  Every parser state is produced by `readToken`
    (`parse`, `St.next`), so `parseObject`'s `token.value.toString()` is only ever applied to a
    string: the `Val.strOf` default of the model is unreachable. -/
theorem string_token_has_string_value (line : Nat) (r : List Byte) (st : St)
    (h : readToken line r = .ok st) (ht : st.tok = 34) : ∃ s, st.val = .str s :=
  readToken_str_val line r st h ht

/-- a reported syntax error carries the line and column of an offset inside the text
    (`off ≤ strlen`, i.e. at a byte of the text or at its terminator) -/
theorem error_pos_inside (buf : List Byte) (h : 0 ∈ buf) (l c : Nat) (he : parse buf = .err l c) :
    ∃ off, off ≤ (cstr buf).length ∧ l = lineOf (cstr buf) off ∧ c = colOf (cstr buf) off := by
  have := parse_safe buf h
  rw [he] at this; exact this

/-- the position is that of the cursor at which the parser stopped: `parseRaw` is `parse` before the
    column is computed (its failure carries the cursor `p` handed to `syntaxError`); `p` is a suffix of the
    buffer, the bytes before it are NUL-free (so its offset `|pre|` is ≤ strlen), and the reported
    line / column are exactly the line / column of that offset -/
theorem error_pos_at_cursor (buf : List Byte) (h : 0 ∈ buf) (l c : Nat) (he : parse buf = .err l c) :
    ∃ pre p, parseRaw buf = .fail l p ∧ buf = pre ++ p ∧ 0 ∉ pre ∧ 0 ∈ p ∧ pre.length ≤ (cstr buf).length ∧
      l = lineOf (cstr buf) pre.length ∧ c = colOf (cstr buf) pre.length := by
  have hpost := parseRaw_post buf h
  rw [parse_eq_raw] at he
  cases hr : parseRaw buf with
  | ok v => rw [hr] at he; cases he
  | fail l' p =>
    rw [hr] at he hpost
    simp only [PRes.err.injEq] at he
    obtain ⟨pre, h1, h2, h3, h4, h5, h6⟩ := Pos.located_at hpost
    exact ⟨pre, p, by rw [he.1], h1, h2, h3, h4, by rw [← he.1]; exact h5, by rw [← he.2]; exact h6⟩
  | oob => rw [hr] at he; cases he
  | nofuel => rw [hr] at he; cases he

-- the error of `[1,` LF ` x` is reported at the cursor of the `x` (offset 5: line 2, column 2), where the tokenizer gave up
example : parseRaw [91, 49, 44, 10, 32, 120, 0] = .fail 2 [120, 0] := by rfl

/-- hence 1 ≤ line ≤ number of lines, and 1 ≤ column ≤ length of that line + 1 -/
theorem error_pos_bounds (buf : List Byte) (h : 0 ∈ buf) (l c : Nat) (he : parse buf = .err l c) :
    1 ≤ l ∧ l ≤ lineCount (cstr buf) ∧ 1 ≤ c ∧
      ∃ off, off ≤ (cstr buf).length ∧ l = lineOf (cstr buf) off ∧ c ≤ lineLenAt (cstr buf) off + 1 := by
  obtain ⟨off, ho, hl, hc⟩ := error_pos_inside buf h l c he
  refine ⟨by rw [hl]; unfold lineOf; omega, by rw [hl]; exact lineOf_le_lineCount _ _,
    by rw [hc]; unfold colOf; omega, off, ho, hl, by rw [hc]; unfold colOf lineLenAt; omega⟩

-- non-vacuity: the repaired input `"\` + NUL (D21) and an error on the second line
example : parse [34, 92, 0] = .err 1 3 := by rfl
example : parse [91, 49, 44, 10, 32, 120, 0] = .err 2 2 := by rfl
example : lineOf [91, 49, 44, 10, 32, 120] 5 = 2 ∧ colOf [91, 49, 44, 10, 32, 120] 5 = 2 := by decide
example : ∃ v, parse [91, 49, 44, 34, 97, 34, 93, 0] = .ok v := ⟨_, rfl⟩

/-! ## serialising then parsing is the identity

  `wf v`: `v` is built from null, booleans, 32-bit ints, 64-bit ints, NUL-free strings, lists and
  maps with NUL-free pairwise different keys (no doubles).  `toString v ++ [0]` is the exactly
  sized C string of `Json::toString(v)`.  `veq` is `Variant::operator==`; `norm` only re-tags a
  64-bit integer that fits 32 bits (the parser stores it as `int`), which `operator==` ignores. -/

/-- for every tree of the property: parsing the text produced by `toString` succeeds and yields a
    tree `v'` that is equal to `v` (`Variant::operator==`); `v'` is exactly `norm v` -/
theorem roundtrip (v : Val) (h : wf v) :
    ∃ v', parse (toString v ++ [0]) = .ok v' ∧ veq v' v = some true ∧ v' = norm v :=
  ⟨norm v, roundtrip_norm v h, veq_norm v h, rfl⟩

/-- on trees without 64-bit integers in the 32-bit range the round trip is the literal identity -/
theorem roundtrip_exact (v : Val) (h : wf v) (hn : norm v = v) : parse (toString v ++ [0]) = .ok v := by
  rw [roundtrip_norm v h, hn]

/-- in particular the text written by `toString` is accepted by `parse` (this, not RFC validity, is
    what is proved about the serialiser; validity for Python's `json.loads` is tested by the check) -/
theorem toString_accepted (v : Val) (h : wf v) : ∃ v', parse (toString v ++ [0]) = .ok v' :=
  ⟨norm v, roundtrip_norm v h⟩

/-! Bytes are `Nat` in the model (notation `Byte`), so all theorems of this file quantify over a
    superset of the byte strings and hold in particular for every list of numbers < 256; no statement
    needs the bound.  Where the model CREATES bytes they are bytes: -/

/-- `Unicode::append` produces bytes for every code point -/
theorem utf8_is_bytes (ch : Nat) : ∀ b ∈ utf8 ch, b < 256 := utf8_bytes ch

/-- serialising a tree whose strings and keys are bytes gives bytes -/
theorem toString_is_bytes (v : Val) (h : vbytes v) : ∀ b ∈ toString v, b < 256 := toString_bytes v h

example : vbytes (.map [([97, 255], .list [.str [0, 200], .int 5])]) := by
  simp [vbytes, vbytesMap, vbytesList, BytesOK]

-- non-vacuity: a tree with control characters, quotes, backslashes, a 64-bit integer, nesting
example : wf (.map [([97, 10, 34], .list [.int (-5), .int64 5000000000, .str [1, 92, 31, 200], .null, .bool true]),
    ([], .map [])]) := by
  simp [wf, wfMap, wfList]
example : parse (toString (.list [.str [97, 10, 98], .int64 7]) ++ [0]) = .ok (.list [.str [97, 10, 98], .int 7]) := by
  rw [roundtrip_norm _ (by simp [wf, wfList])]; simp [norm, normList, wrap32]

/-! ## stripComments -/

/-- `Json::stripComments` equals the reference stripper on the C string of ANY buffer that
    contains a NUL: it never reads behind the buffer (`.oob`), never runs out of fuel, and its
    result depends only on the bytes before the first NUL. -/
theorem strip_spec (buf : List Byte) (h : 0 ∈ buf) :
    stripComments buf = .ok (stripSpec .normal (cstr buf)) := by
  have := (strip_loops (stripFuel buf)).1 [] buf h (by unfold stripFuel; omega)
  simpa [stripComments] using this

/-- the reference keeps every line break (the CR/LF bytes, in order), in every mode -/
theorem strip_keeps_line_breaks (buf : List Byte) (h : 0 ∈ buf) :
    ∃ out, stripComments buf = .ok out ∧ out.filter isBreak = (cstr buf).filter isBreak :=
  ⟨_, strip_spec buf h, stripSpec_breaks _ _⟩

/-- nothing is invented or reordered: the result is a subsequence of the text -/
theorem strip_sublist (buf : List Byte) (h : 0 ∈ buf) :
    ∃ out, stripComments buf = .ok out ∧ out.Sublist (cstr buf) :=
  ⟨_, strip_spec buf h, stripSpec_sublist _ _⟩

/-- the result is never longer than the text: the writes through `dest` stay inside the
    `String result(data.length())` that `stripComments` allocates -/
theorem strip_length_le (buf : List Byte) (h : 0 ∈ buf) :
    ∃ out, stripComments buf = .ok out ∧ out.length ≤ (cstr buf).length :=
  ⟨_, strip_spec buf h, (stripSpec_sublist _ _).length_le⟩

/-- a text without any `/` (in particular JSON without comments and without `/` in strings) is
    returned unchanged -/
theorem strip_no_slash_id (buf : List Byte) (h : 0 ∈ buf) (hs : 47 ∉ cstr buf) :
    stripComments buf = .ok (cstr buf) := by
  rw [strip_spec buf h, stripSpec_no_slash _ _ (Or.inl rfl) hs]

-- non-vacuity / the four repaired inputs: `/** x */1`, `"a\nb // x"`, `"\\" // c`
example : stripComments [47, 42, 42, 32, 120, 32, 42, 47, 49, 0] = .ok [49] := by decide
example : stripComments [34, 97, 92, 110, 98, 32, 47, 47, 32, 120, 34, 0]
    = .ok [34, 97, 92, 110, 98, 32, 47, 47, 32, 120, 34] := by decide
example : stripComments [34, 92, 92, 34, 32, 47, 47, 32, 99, 0] = .ok [34, 92, 92, 34, 32] := by decide
example : stripSpec .normal [49, 47, 47, 120, 10, 50, 47, 42, 13, 42, 47, 51] = [49, 10, 50, 13, 51] := by decide

end Nstd.Json
