import Nstd.Json.LemmasStrip
import Nstd.Json.LemmasParse
import Nstd.Json.LemmasRT
import Nstd.Json.LemmasAgree
import Nstd.Json.LemmasTokInv
import Nstd.Json.LemmasBytes
import Nstd.Json.LemmasRfcOut
import Nstd.Json.LemmasNum
import Nstd.Json.LemmasSur
import Nstd.Json.LemmasRfcNot
import Nstd.Json.LemmasStripRfc
/-
  Property C15 (JSON: total, safe, round trip; stripComments removes exactly the comments).
  Only the property theorems and their non-vacuity examples live here.
-/
namespace Nstd.Json

/-! ## parse: total, safe, error position inside the text

  `buf` is the memory handed to `Json::parse`; the hypothesis `0 ∈ buf` says it is NUL-terminated
  somewhere (for the exactly sized buffer `t ++ [0]` of a NUL-free `t` the terminator is the last
  byte).  `.oob` = a read behind the end of `buf`; `.nofuel` = the recursion/loop budget
  `parseFuel buf = 2·|buf| + 4` did not suffice. -/

/-- `Json::parse` terminates on every NUL-terminated buffer: the budget always suffices
    (no bound on size or nesting depth). -/
theorem parse_total (buf : List Byte) (h : 0 ∈ buf) : parse buf ≠ .nofuel := by
  have := parse_safe buf h
  intro e; rw [e] at this; exact this

/-- `Json::parse` never reads behind the end of a buffer that contains a NUL; applied to
    `t ++ [0]`: it reads nothing beyond the terminator. -/
theorem parse_no_oob (buf : List Byte) (h : 0 ∈ buf) : parse buf ≠ .oob := by
  have := parse_safe buf h
  intro e; rw [e] at this; exact this

/-- nothing behind the first NUL influences the result: `parse` of any buffer equals `parse` of
    the exactly sized C string it holds (together with `parse_no_oob` on that exact buffer: the
    bytes after the terminator are never read) -/
theorem parse_reads_only_cstr (buf : List Byte) (h : 0 ∈ buf) : parse buf = parse (cstr buf ++ [0]) :=
  parse_agree _ _ (agree_cstr buf h)

/-- a token `"` always carries a string value.  Every parser state is produced by `readToken`
    (`parse`, `St.next`), so `parseObject`'s `token.value.toString()` is only ever applied to a
    string: the `Val.strOf` default of the model is unreachable. -/
theorem string_token_has_string_value (line : Nat) (r : List Byte) (st : St)
    (h : readToken line r = .ok st) (ht : st.tok = 34) : ∃ s, st.val = .str s :=
  readToken_str_val line r st h ht

/-- a reported syntax error carries the line and column of an offset inside the text
    (`off ≤ strlen`, i.e. at a byte of the text or at its terminator) -/
theorem error_pos_inside (buf : List Byte) (h : 0 ∈ buf) (l c : Nat) (he : parse buf = .err l c) :
    ∃ off, off ≤ (cstr buf).length ∧ l = lineOf (cstr buf) off ∧ c = colOf (cstr buf) off := by
  have := parse_safe buf h
  rw [he] at this; exact this

/-- the position is that of the cursor at which the parser stopped: `parseRaw` is `parse` before the
    column is computed (its failure carries the cursor `p` handed to `syntaxError`); `p` is a suffix of the
    buffer, the bytes before it are NUL-free (so its offset `|pre|` is ≤ strlen), and the reported
    line / column are exactly the line / column of that offset -/
theorem error_pos_at_cursor (buf : List Byte) (h : 0 ∈ buf) (l c : Nat) (he : parse buf = .err l c) :
    ∃ pre p, parseRaw buf = .fail l p ∧ buf = pre ++ p ∧ 0 ∉ pre ∧ 0 ∈ p ∧ pre.length ≤ (cstr buf).length ∧
      l = lineOf (cstr buf) pre.length ∧ c = colOf (cstr buf) pre.length := by
  have hpost := parseRaw_post buf h
  rw [parse_eq_raw] at he
  cases hr : parseRaw buf with
  | ok v => rw [hr] at he; cases he
  | fail l' p =>
    rw [hr] at he hpost
    simp only [PRes.err.injEq] at he
    obtain ⟨pre, h1, h2, h3, h4, h5, h6⟩ := Pos.located_at hpost
    exact ⟨pre, p, by rw [he.1], h1, h2, h3, h4, by rw [← he.1]; exact h5, by rw [← he.2]; exact h6⟩
  | oob => rw [hr] at he; cases he
  | nofuel => rw [hr] at he; cases he

-- the error of `[1,` LF ` x` is reported at the cursor of the `x` (offset 5: line 2, column 2), where the tokenizer gave up
example : parseRaw [91, 49, 44, 10, 32, 120, 0] = .fail 2 [120, 0] := by rfl

/-- hence 1 ≤ line ≤ number of lines, and 1 ≤ column ≤ length of that line + 1 -/
theorem error_pos_bounds (buf : List Byte) (h : 0 ∈ buf) (l c : Nat) (he : parse buf = .err l c) :
    1 ≤ l ∧ l ≤ lineCount (cstr buf) ∧ 1 ≤ c ∧
      ∃ off, off ≤ (cstr buf).length ∧ l = lineOf (cstr buf) off ∧ c ≤ lineLenAt (cstr buf) off + 1 := by
  obtain ⟨off, ho, hl, hc⟩ := error_pos_inside buf h l c he
  refine ⟨by rw [hl]; unfold lineOf; omega, by rw [hl]; exact lineOf_le_lineCount _ _,
    by rw [hc]; unfold colOf; omega, off, ho, hl, by rw [hc]; unfold colOf lineLenAt; omega⟩

-- non-vacuity: the repaired input `"\` + NUL (D21) and an error on the second line
example : parse [34, 92, 0] = .err 1 3 := by rfl
example : parse [91, 49, 44, 10, 32, 120, 0] = .err 2 2 := by rfl
example : lineOf [91, 49, 44, 10, 32, 120] 5 = 2 ∧ colOf [91, 49, 44, 10, 32, 120] 5 = 2 := by decide
example : ∃ v, parse [91, 49, 44, 34, 97, 34, 93, 0] = .ok v := ⟨_, rfl⟩

/-! ## serialising then parsing is the identity

  `wf v`: `v` is built from null, booleans, 32-bit ints, 64-bit ints, NUL-free strings, lists and
  maps with NUL-free pairwise different keys (no doubles).  `toString v ++ [0]` is the exactly
  sized C string of `Json::toString(v)`.  `veq` is `Variant::operator==`; `norm` only re-tags a
  64-bit integer that fits 32 bits (the parser stores it as `int`), which `operator==` ignores. -/

/-- for every tree of the property: parsing the text produced by `toString` succeeds and yields a
    tree `v'` that is equal to `v` (`Variant::operator==`); `v'` is exactly `norm v` -/
theorem roundtrip (v : Val) (h : wf v) :
    ∃ v', parse (toString v ++ [0]) = .ok v' ∧ veq v' v = some true ∧ v' = norm v :=
  ⟨norm v, roundtrip_norm v h, veq_norm v h, rfl⟩

/-- on trees without 64-bit integers in the 32-bit range the round trip is the literal identity -/
theorem roundtrip_exact (v : Val) (h : wf v) (hn : norm v = v) : parse (toString v ++ [0]) = .ok v := by
  rw [roundtrip_norm v h, hn]

/-- in particular the text written by `toString` is accepted by `parse` -/
theorem toString_accepted (v : Val) (h : wf v) : ∃ v', parse (toString v ++ [0]) = .ok v' :=
  ⟨norm v, roundtrip_norm v h⟩

/-! ## RFC 8259

  `Nstd/Json/Rfc.lean` is a declarative grammar of RFC 8259 over byte strings (`Rfc.Text t tr`: the text
  `t` is a JSON-text with syntax tree `tr`); it imports nothing and is not the model of the nstd parser.
  `RfcSem.lean` says what a syntax tree means as a Variant (`interp`, partial: a high surrogate escape
  that is not followed by a low surrogate escape has no meaning). -/

/-- the serialiser writes RFC 8259 JSON: for every tree of the property the text of `Json::toString`
    is a JSON-text of the grammar; `treeOf v` is its syntax tree (strings: `\u00XX` for the control
    characters without a two-character escape, the RFC's two-character escapes, every other byte raw) -/
theorem toString_is_rfc8259 (v : Val) (h : wf v) : Rfc.Text (toString v) (treeOf v) :=
  toString_rfc v h

/-- the parser accepts RFC 8259: every JSON-text whose syntax tree has a meaning is parsed
    successfully and the result IS that meaning (strings decoded per section 7 with surrogate pairs
    to UTF-8 as specified for C18, objects built with `HashMap::append`, numbers by `numVal`, see
    `number_token_value`).  No bound on size or depth. -/
theorem accepts_rfc (t : List Byte) (tr : Rfc.Tree) (v : Val) (h : Rfc.Text t tr) (hv : interp tr = some v) :
    parse (t ++ [0]) = .ok v :=
  accepts_text h hv

/-- strings: a string token of the grammar whose items decode (`decodeItems`: bytes, two-character escapes,
    `\uXXXX` of every BMP value incl. lone low surrogates as UTF-8, surrogate pairs as the UTF-8 of the
    combined code point) is read as exactly those bytes, wherever it stands; `decodeItems` is `none` only
    for a high surrogate escape that is not followed by a low surrogate escape -/
theorem string_token_decodes (t : List Byte) (is : List Rfc.Item) (bs : List Byte) (h : Rfc.Str t is)
    (hd : decodeItems is = some bs) (line : Nat) (rest : List Byte) :
    readToken line (t ++ rest) = .ok ⟨34, .str bs, line, rest⟩ :=
  tok_rfc_str h hd line rest

/-- the model's `Unicode::append` (shifts and masks) is the RFC 3629 encoding specified arithmetically
    for property C18 (`Nstd.Codec.Spec.utf8`; `Nstd.Codec.utf8_agrees` ties that to Unicode.hpp), for
    every code point incl. the surrogate range (generalized three byte form) -/
theorem unicode_escape_is_utf8 (ch : Nat) (h : ch < 0x110000) : utf8 ch = Nstd.Codec.Spec.utf8 ch :=
  utf8_eq_spec ch h

/-- the surrogate tests of the tokenizer are the ranges D800..DBFF and DC00..DFFF, and the pair
    arithmetic is the UTF-16 formula, for all 16-bit code units -/
theorem surrogate_logic (w1 w2 : Nat) (h1 : w1 < 65536) (h2 : w2 < 65536) :
    ((w1 &&& 0xF800 = 0xD800 ∧ w1 &&& 0xFC00 = 0xD800) ↔ (0xD800 ≤ w1 ∧ w1 < 0xDC00)) ∧
    ((w2 &&& 0xFC00 = 0xDC00) ↔ (0xDC00 ≤ w2 ∧ w2 < 0xE000)) ∧
    ((0xD800 ≤ w1 ∧ w1 < 0xDC00) → (0xDC00 ≤ w2 ∧ w2 < 0xE000) →
      ((w2 &&& 0x3FF) ||| ((w1 &&& 0x3FF) <<< 10)) + 0x10000 = 0x10000 + (w1 - 0xD800) * 0x400 + (w2 - 0xDC00)) := by
  refine ⟨?_, ?_, ?_⟩
  · rw [high_iff w1 h1]; simp [isHighSur]
  · rw [low_iff w2 h2]; simp [isLowSur]
  · intro a b
    exact pair_eq w1 w2 (by simp [isHighSur]; omega) (by simp [isLowSur]; omega)

/-- a `\uD800`..`\uDBFF` escape followed by anything but a backslash is a syntax error reported at the
    byte behind the escape (the one restriction of nstd against the RFC grammar) -/
theorem lone_high_surrogate_rejected (f line : Nat) (acc : List Byte) (a b c d x : Byte) (X : List Byte)
    (ha : Rfc.isHex a) (hb : Rfc.isHex b) (hc : Rfc.isHex c) (hd : Rfc.isHex d)
    (hw : isHighSur (((hexVal a * 16 + hexVal b) * 16 + hexVal c) * 16 + hexVal d) = true) (hx : x ≠ 92) :
    readStr (f + 1) line acc (92 :: 117 :: a :: b :: c :: d :: x :: X) = .fail line (x :: X) :=
  lone_high_rejected f line acc a b c d x X ha hb hc hd hw hx

/-! ### the round trip a second time, THROUGH the RFC semantics

  `roundtrip` above is proved on the parser model positioned inside the serialiser's text.  The three
  theorems below prove it again without that argument: (1) the serialiser's text is a JSON-text with the
  syntax tree `treeOf v` (`toString_is_rfc8259`), (2) the MEANING of that tree is `norm v` — a statement
  about the two specifications only, the parser does not occur in it —, (3) the parser reads every
  JSON-text to its meaning (`accepts_rfc`). -/

/-- the items `appendEscapedString` writes decode (section 7) to the string, for EVERY byte string -/
theorem serialised_string_decodes (s : List Byte) : decodeItems (s.map itemOf) = some s :=
  decodeItems_itemOf s

/-- the RFC meaning of the text `toString` writes is the value (an int64 that fits 32 bits ↦ int) -/
theorem toString_rfc_meaning (v : Val) (h : wf v) : interp (treeOf v) = some (norm v) :=
  interp_treeOf v h

/-- serialising then parsing is the identity, composed from (1), (2), (3) -/
theorem roundtrip_through_rfc (v : Val) (h : wf v) : parse (toString v ++ [0]) = .ok (norm v) :=
  accepts_rfc _ _ _ (toString_is_rfc8259 v h) (toString_rfc_meaning v h)

/-- the serialiser loses nothing beyond what `norm` identifies, for ALL pairs of well-formed values: two values with the same text
    have the same normal form (so two values that parse back differently never print alike) -/
theorem toString_injective_up_to_norm (v w : Val) (hv : wf v) (hw : wf w) (h : toString v = toString w) : norm v = norm w := by
  have h1 := roundtrip_through_rfc v hv
  have h2 := roundtrip_through_rfc w hw
  rw [h, h2] at h1
  injection h1 with h1
  exact h1.symm

/-! ### the failing side of `\u` -/

/-- high surrogate escape followed by a `\u` escape that is not a low surrogate: `pos.pos -= 6`, the syntax
    error is reported at the backslash of the SECOND escape -/
theorem high_surrogate_then_non_low_rejected (f line : Nat) (acc : List Byte) (a b c d a2 b2 c2 d2 : Byte) (X : List Byte)
    (ha : Rfc.isHex a) (hb : Rfc.isHex b) (hc : Rfc.isHex c) (hd : Rfc.isHex d)
    (ha2 : Rfc.isHex a2) (hb2 : Rfc.isHex b2) (hc2 : Rfc.isHex c2) (hd2 : Rfc.isHex d2)
    (hw : isHighSur (((hexVal a * 16 + hexVal b) * 16 + hexVal c) * 16 + hexVal d) = true)
    (hw2 : isLowSur (((hexVal a2 * 16 + hexVal b2) * 16 + hexVal c2) * 16 + hexVal d2) = false) :
    readStr (f + 1) line acc (92 :: 117 :: a :: b :: c :: d :: 92 :: 117 :: a2 :: b2 :: c2 :: d2 :: X)
      = .fail line (92 :: 117 :: a2 :: b2 :: c2 :: d2 :: X) :=
  high_then_nonlow f line acc a b c d a2 b2 c2 d2 X ha hb hc hd ha2 hb2 hc2 hd2 hw hw2

/-- the converse of `string_token_decodes`: a string token of the grammar whose items have NO meaning (a high
    surrogate escape followed by the closing quote, a raw character, a two-character escape or a `\u`
    escape that is not a low surrogate) is a syntax error on its line, wherever it stands.  So on RFC
    strings the tokenizer succeeds exactly when `decodeItems` is defined, with that value. -/
theorem string_without_meaning_rejected (t : List Byte) (is : List Rfc.Item) (h : Rfc.Str t is)
    (hd : decodeItems is = none) (line : Nat) (rest : List Byte) : ∃ p, readToken line (t ++ rest) = .fail line p :=
  tok_rfc_str_none h hd line rest

example : decodeItems [.unit 0xD800, .unit 0x41] = none := by decide
example : decodeItems [.unit 0xD800] = none := by decide

/-! ### nstd accepts a strict SUPERSET of the meaningful RFC texts: the relaxations are outside the grammar

  `Rfc.textNec` (LemmasRfcNot.lean, imports only the grammar) is a computable necessary condition of
  `Rfc.Text` (strict number syntax, string bytes ≥ 0x20 and valid escape letters, first/last
  non-white-space character of the inside of arrays and objects, nothing but white space around the
  value), proved by induction over the grammar; each text below fails it. -/

/-- every JSON-text of the grammar passes the check -/
theorem rfc_necessary (t : List Byte) (tr : Rfc.Tree) (h : Rfc.Text t tr) : Rfc.textNec t = true :=
  Rfc.text_nec h

theorem not_rfc {t : List Byte} (h : Rfc.textNec t = false) : ¬ Rfc.IsText t := by
  intro ⟨tr, ht⟩
  rw [Rfc.text_nec ht] at h
  cases h

/-- each relaxation: accepted by nstd (with this value), NOT a JSON-text of RFC 8259 -/
theorem accepted_beyond_rfc :
    -- leading zeros `007`
    (parse [48, 48, 55, 0] = .ok (.int 7) ∧ ¬ Rfc.IsText [48, 48, 55]) ∧
    -- a lone minus `-`, `1-2`, `1.2.3`
    (parse [45, 0] = .ok (.int 0) ∧ ¬ Rfc.IsText [45]) ∧
    (parse [49, 45, 50, 0] = .ok (.int 1) ∧ ¬ Rfc.IsText [49, 45, 50]) ∧
    (parse [49, 46, 50, 46, 51, 0] = .ok (.dbl [49, 46, 50, 46, 51]) ∧ ¬ Rfc.IsText [49, 46, 50, 46, 51]) ∧
    -- trailing commas `[1,]`, `{"a":1,}`
    (parse [91, 49, 44, 93, 0] = .ok (.list [.int 1]) ∧ ¬ Rfc.IsText [91, 49, 44, 93]) ∧
    (parse [123, 34, 97, 34, 58, 49, 44, 125, 0] = .ok (.map [([97], .int 1)]) ∧
      ¬ Rfc.IsText [123, 34, 97, 34, 58, 49, 44, 125]) ∧
    -- a raw line feed inside a string, an unknown escape `"\x"`
    (parse [34, 97, 10, 98, 34, 0] = .ok (.str [97, 10, 98]) ∧ ¬ Rfc.IsText [34, 97, 10, 98, 34]) ∧
    (parse [34, 92, 120, 34, 0] = .ok (.str [92, 120]) ∧ ¬ Rfc.IsText [34, 92, 120, 34]) ∧
    -- vertical tab / form feed as white space
    (parse [11, 12, 49, 0] = .ok (.int 1) ∧ ¬ Rfc.IsText [11, 12, 49]) ∧
    -- text behind the value: `1 2`, `[] ]`
    (parse [49, 32, 50, 0] = .ok (.int 1) ∧ ¬ Rfc.IsText [49, 32, 50]) ∧
    (parse [91, 93, 32, 93, 0] = .ok (.list []) ∧ ¬ Rfc.IsText [91, 93, 32, 93]) := by
  refine ⟨⟨rfl, not_rfc (by decide)⟩, ⟨rfl, not_rfc (by decide)⟩, ⟨rfl, not_rfc (by decide)⟩, ⟨rfl, not_rfc (by decide)⟩,
    ⟨rfl, not_rfc (by decide)⟩, ⟨rfl, not_rfc (by decide)⟩, ⟨rfl, not_rfc (by decide)⟩, ⟨rfl, not_rfc (by decide)⟩,
    ⟨rfl, not_rfc (by decide)⟩, ⟨rfl, not_rfc (by decide)⟩, ⟨rfl, not_rfc (by decide)⟩⟩

-- the check is not vacuous: it passes RFC texts (`1e5`, and a nested document with white space)
example : Rfc.textNec [49, 101, 53] = true := by decide
example : Rfc.textNec [32, 91, 49, 44, 32, 123, 34, 97, 92, 117, 48, 48, 101, 57, 34, 58, 32, 110, 117, 108, 108, 125, 93, 10]
    = true := by decide

/-! ### numbers: token, kind and value (all tokens, not only RFC numbers) -/

/-- the number branch: any run of bytes of `0-9 e E + - .` that starts with `-` or a digit and is
    followed by a byte outside that alphabet is ONE token `#`; it is a double exactly when it contains
    a decimal point (then its value is opaque), else `numVal` decides int / int64 -/
theorem number_token (d : Byte) (ds : List Byte) (hch : ∀ x ∈ d :: ds, NumCh x) (hd : d = 45 ∨ isDigit d = true)
    (line : Nat) (c : Byte) (r : List Byte) (hc : NumStop c) :
    readToken line ((d :: ds) ++ c :: r) = .ok ⟨35, numVal (d :: ds) ((d :: ds).contains 46), line, c :: r⟩ :=
  tok_num_any d ds hch hd line c r hc

/-- the value of EVERY token without a decimal point: optional minus, then the digits up to the first
    non-digit (the `tail`: an exponent, a second sign, nothing) are read as a decimal number, saturated
    at the int64 range (`atoll` = glibc `strtoll`), and stored as `int` exactly when it fits 32 bits.
    All digit strings: no bound on the length (beyond int64 the code saturates). -/
theorem number_token_value (neg : Bool) (ds tail : List Byte) (hds : ∀ d ∈ ds, isDigit d = true)
    (htail : ∀ c r, tail = c :: r → isDigit c = false) (hstart : neg = true ∨ ds ≠ []) :
    numVal ((if neg then [45] else []) ++ ds ++ tail) false
      = intVal (clamp64 (if neg then -(digitsVal ds : Int) else (digitsVal ds : Int))) := by
  rw [numVal_int, atoll_token neg ds tail hds htail hstart]

/-- hence an exponent without a decimal point is ignored (`1e5` is the int 1): a deviation from the
    RFC meaning that the code has (observed, outside C15) -/
theorem number_token_exp_ignored (ds e : List Byte) (hds : ∀ d ∈ ds, isDigit d = true) (hne : ds ≠ []) :
    numVal (ds ++ 101 :: e) false = numVal ds false := by
  have h1 := number_token_value false ds (101 :: e) hds (by intro c r h; cases h; decide) (Or.inr hne)
  have h2 := number_token_value false ds [] hds (by intro c r h; cases h) (Or.inr hne)
  simp only [Bool.false_eq_true, if_false, List.nil_append, List.append_nil] at h1 h2
  rw [h1, h2]

example : numVal [50, 49, 52, 55, 52, 56, 51, 54, 52, 56] false = .int64 2147483648 := by rfl
example : numVal [45, 50, 49, 52, 55, 52, 56, 51, 54, 52, 56] false = .int (-2147483648) := by rfl
example : digitsVal [48, 48, 55] = 7 := by decide

/-! ### what nstd accepts beyond RFC 8259, and the one thing it rejects (witnesses; Python's
    `json.loads` rejects each of the accepted ones, which the correspondence run checks) -/

-- leading zeros `007`
example : parse [48, 48, 55, 0] = .ok (.int 7) := by rfl
-- exponent without fraction `1e5` is the int 1 (RFC: 100000)
example : parse [49, 101, 53, 0] = .ok (.int 1) := by rfl
-- malformed numbers are one token: `1-2` is 1, `-` is 0, `1.2.3` is a double
example : parse [49, 45, 50, 0] = .ok (.int 1) := by rfl
example : parse [45, 0] = .ok (.int 0) := by rfl
example : parse [49, 46, 50, 46, 51, 0] = .ok (.dbl [49, 46, 50, 46, 51]) := by rfl
-- beyond int64 the value saturates: `9223372036854775808`
example : parse [57, 50, 50, 51, 51, 55, 50, 48, 51, 54, 56, 53, 52, 55, 55, 53, 56, 48, 56, 0]
    = .ok (.int64 9223372036854775807) := by rfl
-- trailing commas `[1,]` and `{"a":1,}`
example : parse [91, 49, 44, 93, 0] = .ok (.list [.int 1]) := by rfl
example : parse [123, 34, 97, 34, 58, 49, 44, 125, 0] = .ok (.map [([97], .int 1)]) := by rfl
-- raw control characters in a string: `"a` LF `b"`
example : parse [34, 97, 10, 98, 34, 0] = .ok (.str [97, 10, 98]) := by rfl
-- unknown escape `"\x"` keeps the backslash
example : parse [34, 92, 120, 34, 0] = .ok (.str [92, 120]) := by rfl
-- vertical tab and form feed are white space
example : parse [11, 12, 49, 0] = .ok (.int 1) := by rfl
-- text behind the value is only tokenised one token ahead: `1 2` and `[] ]` are accepted, `1 x` is not
example : parse [49, 32, 50, 0] = .ok (.int 1) := by rfl
example : parse [91, 93, 32, 93, 0] = .ok (.list []) := by rfl
example : parse [49, 32, 120, 0] = .err 1 3 := by rfl
-- a lone LOW surrogate escape `"\udc00"` is encoded like a BMP character (RFC: unpredictable)
example : parse [34, 92, 117, 100, 99, 48, 48, 34, 0] = .ok (.str [0xED, 0xB0, 0x80]) := by rfl
-- REJECTED although in the RFC grammar: a lone HIGH surrogate escape `"\ud800"`
example : parse [34, 92, 117, 100, 56, 48, 48, 34, 0] = .err 1 8 := by rfl
-- repeated member names `{"a":1,"b":2,"a":3}`: first position, last value (RFC: unspecified)
example : parse [123, 34, 97, 34, 58, 49, 44, 34, 98, 34, 58, 50, 44, 34, 97, 34, 58, 51, 125, 0]
    = .ok (.map [([97], .int 3), ([98], .int 2)]) := by rfl
-- non-vacuity of `accepts_rfc`: the surrogate pair `"\ud83d\ude00"` is U+1F600 in UTF-8
example : decodeItems [.unit 0xD83D, .unit 0xDE00] = some [0xF0, 0x9F, 0x98, 0x80] := by decide
example : interp (.obj [([.byte 97], .num [49]), ([.byte 97], .arr [.null])]) = some (.map [([97], .list [.null])]) := by
  rfl

/-! Bytes are `Nat` in the model (notation `Byte`), so all theorems of this file quantify over a
    superset of the byte strings and hold in particular for every list of numbers < 256; no statement
    needs the bound.  Where the model CREATES bytes they are bytes: -/

/-- `Unicode::append` produces bytes for every code point -/
theorem utf8_is_bytes (ch : Nat) : ∀ b ∈ utf8 ch, b < 256 := utf8_bytes ch

/-- serialising a tree whose strings and keys are bytes gives bytes -/
theorem toString_is_bytes (v : Val) (h : vbytes v) : ∀ b ∈ toString v, b < 256 := toString_bytes v h

example : vbytes (.map [([97, 255], .list [.str [0, 200], .int 5])]) := by
  simp [vbytes, vbytesMap, vbytesList, BytesOK]

-- non-vacuity: a tree with control characters, quotes, backslashes, a 64-bit integer, nesting
example : wf (.map [([97, 10, 34], .list [.int (-5), .int64 5000000000, .str [1, 92, 31, 200], .null, .bool true]),
    ([], .map [])]) := by
  simp [wf, wfMap, wfList]
example : parse (toString (.list [.str [97, 10, 98], .int64 7]) ++ [0]) = .ok (.list [.str [97, 10, 98], .int 7]) := by
  rw [roundtrip_norm _ (by simp [wf, wfList])]; simp [norm, normList, wrap32]

/-! ## stripComments -/

/-- `Json::stripComments` equals the reference stripper on the C string of ANY buffer that
    contains a NUL: it never reads behind the buffer (`.oob`), never runs out of fuel, and its
    result depends only on the bytes before the first NUL. -/
theorem strip_spec (buf : List Byte) (h : 0 ∈ buf) :
    stripComments buf = .ok (stripSpec .normal (cstr buf)) := by
  have := (strip_loops (stripFuel buf)).1 [] buf h (by unfold stripFuel; omega)
  simpa [stripComments] using this

/-- the reference keeps every line break (the CR/LF bytes, in order), in every mode -/
theorem strip_keeps_line_breaks (buf : List Byte) (h : 0 ∈ buf) :
    ∃ out, stripComments buf = .ok out ∧ out.filter isBreak = (cstr buf).filter isBreak :=
  ⟨_, strip_spec buf h, stripSpec_breaks _ _⟩

/-- nothing is invented or reordered: the result is a subsequence of the text -/
theorem strip_sublist (buf : List Byte) (h : 0 ∈ buf) :
    ∃ out, stripComments buf = .ok out ∧ out.Sublist (cstr buf) :=
  ⟨_, strip_spec buf h, stripSpec_sublist _ _⟩

/-- the result is never longer than the text: the writes through `dest` stay inside the
    `String result(data.length())` that `stripComments` allocates -/
theorem strip_length_le (buf : List Byte) (h : 0 ∈ buf) :
    ∃ out, stripComments buf = .ok out ∧ out.length ≤ (cstr buf).length :=
  ⟨_, strip_spec buf h, (stripSpec_sublist _ _).length_le⟩

/-- a text without any `/` (in particular JSON without comments and without `/` in strings) is
    returned unchanged -/
theorem strip_no_slash_id (buf : List Byte) (h : 0 ∈ buf) (hs : 47 ∉ cstr buf) :
    stripComments buf = .ok (cstr buf) := by
  rw [strip_spec buf h, stripSpec_no_slash _ _ (Or.inl rfl) hs]

/-- the declarative specification: `Stripped t t'` (LemmasStripRfc.lean) describes comment removal as a
    relation over the text — plain bytes, a `/` that starts no comment, string literals (`StrBody`: `\x`
    pairs for ANY x, so escaped quotes and escaped backslashes stay inside the literal) copied verbatim,
    `//` comments removed up to the CR/LF which is kept, `/* */` comments removed except their CR/LF bytes,
    unterminated comments/literals extend to the end — and `stripComments` computes it, for every text -/
theorem strip_declarative (t t' : List Byte) (h : Stripped t t') (h0 : 0 ∉ t) : stripComments (t ++ [0]) = .ok t' := by
  rw [strip_spec _ (by simp), cstr_append_nf t [0] h0]
  simp only [cstr, if_true, List.append_nil]
  rw [stripped_spec h]

/-- a comment-free text is unchanged: EVERY JSON-text of RFC 8259 (where `/`, `//`, `/*` can only occur
    inside string literals) is returned as it is -/
theorem strip_rfc_text_unchanged (t : List Byte) (tr : Rfc.Tree) (h : Rfc.Text t tr) :
    stripComments (t ++ [0]) = .ok t := by
  obtain ⟨h1, h0⟩ := strip_text h
  rw [strip_spec _ (by simp), cstr_append_nf t [0] h0]
  simp only [cstr, if_true, List.append_nil]
  rw [h1]

/-- strip, then parse: if removing the comments of `t` (keeping the line breaks of block comments, i.e.
    reading a comment as white space) leaves a JSON-text with meaning `v`, then parsing the output of
    `stripComments` yields `v` -/
theorem strip_then_parse (t t' : List Byte) (tr : Rfc.Tree) (v : Val) (h : Stripped t t') (h0 : 0 ∉ t)
    (ht : Rfc.Text t' tr) (hv : interp tr = some v) :
    ∃ out, stripComments (t ++ [0]) = .ok out ∧ parse (out ++ [0]) = .ok v :=
  ⟨t', strip_declarative t t' h h0, accepts_rfc t' tr v ht hv⟩

-- `1//c` LF  ↦  `1` LF ;  `/*a` LF `*/1`  ↦  LF `1` ;  `"\\" // c` keeps the literal `"\\"` and drops the comment
example : Stripped [49, 47, 47, 99, 10] [49, 10] :=
  .plain 49 (by decide) (by decide) (.line [99] 10 (by intro x hx; simp at hx; omega) (Or.inr rfl) .nil)
example : Stripped [47, 42, 97, 10, 42, 47, 49] [10, 49] :=
  .block [97, 10] (r := [49]) (r' := [49]) (by decide) (.plain 49 (by decide) (by decide) .nil)
example : Stripped [34, 92, 92, 34, 32, 47, 47, 32, 99] [34, 92, 92, 34, 32] :=
  .str (body := [92, 92]) (.esc 92 .nil) (.plain 32 (by decide) (by decide) (.lineOpen [32, 99] (by intro x hx; simp at hx; omega)))

-- non-vacuity / the four repaired inputs: `/** x */1`, `"a\nb // x"`, `"\\" // c`
example : stripComments [47, 42, 42, 32, 120, 32, 42, 47, 49, 0] = .ok [49] := by decide
example : stripComments [34, 97, 92, 110, 98, 32, 47, 47, 32, 120, 34, 0]
    = .ok [34, 97, 92, 110, 98, 32, 47, 47, 32, 120, 34] := by decide
example : stripComments [34, 92, 92, 34, 32, 47, 47, 32, 99, 0] = .ok [34, 92, 92, 34, 32] := by decide
example : stripSpec .normal [49, 47, 47, 120, 10, 50, 47, 42, 13, 42, 47, 51] = [49, 10, 50, 13, 51] := by decide

end Nstd.Json
