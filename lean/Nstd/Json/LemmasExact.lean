import Nstd.Json.LemmasParse
set_option linter.unusedSimpArgs false
set_option linter.unusedVariables false
/-
  Property C15, exactness of the error position (lemmas).  `parse` reports `(line, column)` of the cursor handed to
  `syntaxError`; here: WHICH cursor that is, by error class.
-/
namespace Nstd.Json

/-- `st` is a token read by the tokenizer from a consistent position of `buf` -/
def Reached (buf : List Byte) (st : St) : Prop :=
  ∃ line0 r0, Pos buf line0 r0 ∧ readToken line0 r0 = .ok st

/-- the two classes of syntax errors: the tokenizer gave up while reading the token that starts (after white space) at a
    consistent position `(line0, r0)` — or a complete token was read and is not what the grammar allows there: the error is
    reported with the line and the cursor immediately BEHIND that token (the code passes `pos`, not `token.pos`) -/
inductive ErrAt (buf : List Byte) (l : Nat) (p : List Byte) : Prop
  | tokenizer (line0 : Nat) (r0 : List Byte) (hp : Pos buf line0 r0) (h : readToken line0 r0 = .fail l p)
  | behindToken (st : St) (hr : Reached buf st) (hl : st.line = l) (hc : st.r = p)

def EPost {α : Type} (buf : List Byte) (Q : α → Prop) : Res α → Prop
  | .ok a => Q a
  | .fail l p => ErrAt buf l p
  | .oob => True
  | .nofuel => True

theorem EPost_bind {α β : Type} {buf : List Byte} {Q : α → Prop} {Q' : β → Prop} {x : Res α} {k : α → Res β}
    (hx : EPost buf Q x) (hk : ∀ a, Q a → EPost buf Q' (k a)) : EPost buf Q' (x.bind k) := by
  cases x with
  | ok a => exact hk a hx
  | fail l p => exact hx
  | oob => trivial
  | nofuel => trivial

theorem Reached.pos {buf : List Byte} {st : St} (h : Reached buf st) : Pos buf st.line st.r := by
  obtain ⟨line0, r0, hp, he⟩ := h
  have := readToken_post buf line0 r0 hp
  rw [he] at this
  exact this.1

theorem next_exact (buf : List Byte) (st : St) (h : Reached buf st) : EPost buf (Reached buf) st.next := by
  unfold St.next
  cases e : readToken st.line st.r with
  | ok st' => exact ⟨st.line, st.r, h.pos, e⟩
  | fail l p => exact .tokenizer st.line st.r h.pos e
  | oob => trivial
  | nofuel => trivial

theorem parser_exact (buf : List Byte) : ∀ f : Nat,
    (∀ st, Reached buf st → EPost buf (fun x => Reached buf x.2) (parseValue f st)) ∧
    (∀ acc st, Reached buf st → EPost buf (fun x => Reached buf x.2) (arrLoop f acc st)) ∧
    (∀ acc st, Reached buf st → EPost buf (fun x => Reached buf x.2) (objLoop f acc st)) := by
  intro f
  induction f with
  | zero =>
    refine ⟨?_, ?_, ?_⟩
    · intro st _; rw [parseValue]; trivial
    · intro acc st _; rw [arrLoop]; trivial
    · intro acc st _; rw [objLoop]; trivial
  | succ f ih =>
    obtain ⟨ihV, ihA, ihO⟩ := ih
    refine ⟨?_, ?_, ?_⟩
    · intro st h
      rw [parseValue]
      by_cases hs : isScalarTok st.tok = true
      · simp only [hs, if_true]
        exact EPost_bind (next_exact buf st h) (fun st' hi => hi)
      simp only [hs]
      by_cases h91 : st.tok = 91
      · simp only [h91, if_true]
        exact EPost_bind (next_exact buf st h) (fun st1 hi => ihA [] st1 hi)
      by_cases h123 : st.tok = 123
      · simp only [h123, if_true]
        exact EPost_bind (next_exact buf st h) (fun st1 hi => ihO [] st1 hi)
      · simp only [h91, h123, if_false]
        exact .behindToken st h rfl rfl
    · intro acc st h
      rw [arrLoop]
      by_cases h93 : st.tok = 93
      · simp only [h93, if_true]
        exact EPost_bind (next_exact buf st h) (fun st' hi => hi)
      simp only [h93, if_false]
      refine EPost_bind (ihV st h) ?_
      intro ⟨v, st1⟩ hi1
      simp only at hi1 ⊢
      by_cases q93 : st1.tok = 93
      · simp only [q93, if_true]
        exact EPost_bind (next_exact buf st1 hi1) (fun st' hi => hi)
      simp only [q93, if_false]
      by_cases q44 : st1.tok ≠ 44
      · rw [if_pos q44]; exact .behindToken st1 hi1 rfl rfl
      rw [if_neg q44]
      exact EPost_bind (next_exact buf st1 hi1) (fun st2 hi2 => ihA _ st2 hi2)
    · intro acc st h
      rw [objLoop]
      by_cases h125 : st.tok = 125
      · simp only [h125, if_true]
        exact EPost_bind (next_exact buf st h) (fun st' hi => hi)
      simp only [h125, if_false]
      by_cases h34 : st.tok ≠ 34
      · rw [if_pos h34]; exact .behindToken st h rfl rfl
      rw [if_neg h34]
      refine EPost_bind (next_exact buf st h) ?_
      intro st1 hi1
      by_cases q58 : st1.tok ≠ 58
      · rw [if_pos q58]; exact .behindToken st1 hi1 rfl rfl
      rw [if_neg q58]
      refine EPost_bind (next_exact buf st1 hi1) ?_
      intro st2 hi2
      refine EPost_bind (ihV st2 hi2) ?_
      intro ⟨v, st3⟩ hi3
      simp only at hi3 ⊢
      by_cases q125 : st3.tok = 125
      · simp only [q125, if_true]
        exact EPost_bind (next_exact buf st3 hi3) (fun st' hi => hi)
      simp only [q125, if_false]
      by_cases q44 : st3.tok ≠ 44
      · rw [if_pos q44]; exact .behindToken st3 hi3 rfl rfl
      rw [if_neg q44]
      exact EPost_bind (next_exact buf st3 hi3) (fun st4 hi4 => ihO _ st4 hi4)

/-- `parseRaw` (= `parse` before the column is computed): every failure is of one of the two classes -/
theorem parseRaw_exact (buf : List Byte) (h : 0 ∈ buf) (l : Nat) (p : List Byte) (he : parseRaw buf = .fail l p) :
    ErrAt buf l p := by
  unfold parseRaw at he
  cases e : readToken 1 buf with
  | ok st =>
    have hr : Reached buf st := ⟨1, buf, Pos.init buf h, e⟩
    have := (parser_exact buf (parseFuel buf)).1 st hr
    rw [e] at he
    simp only [Res.bind] at he
    cases e2 : parseValue (parseFuel buf) st with
    | ok x => rw [e2] at he; cases he
    | fail l' p' =>
      rw [e2] at he this
      simp only [Res.fail.injEq] at he
      rw [← he.1, ← he.2]; exact this
    | oob => rw [e2] at he; cases he
    | nofuel => rw [e2] at he; cases he
  | fail l' p' =>
    rw [e] at he
    simp only [Res.bind, Res.fail.injEq] at he
    rw [← he.1, ← he.2]
    exact .tokenizer 1 buf (Pos.init buf h) e
  | oob => rw [e] at he; cases he
  | nofuel => rw [e] at he; cases he

theorem litMatch_not_fail : ∀ (lit r : List Byte) (l : Nat) (p : List Byte), litMatch lit r ≠ .fail l p := by
  intro lit
  induction lit with
  | nil => intro r l p h; simp [litMatch] at h
  | cons x xs ih =>
    intro r l p h
    cases r with
    | nil => simp [litMatch] at h
    | cons c r =>
      simp only [litMatch] at h
      by_cases hx : c = x
      · simp only [hx, if_true] at h; exact ih r l p h
      · simp [hx] at h

theorem numLoop_not_fail : ∀ (r n : List Byte) (dbl : Bool) (l : Nat) (p : List Byte), numLoop n dbl r ≠ .fail l p := by
  intro r
  induction r with
  | nil => intro n dbl l p h; simp [numLoop] at h
  | cons c r ih =>
    intro n dbl l p h
    simp only [numLoop] at h
    by_cases a1 : c = 69 ∨ c = 101 ∨ c = 45 ∨ c = 43
    · simp only [a1, if_true] at h; exact ih _ _ l p h
    simp only [a1, if_false] at h
    by_cases a2 : c = 46
    · simp only [a2, if_true] at h; exact ih _ _ l p h
    simp only [a2, if_false] at h
    by_cases a3 : isDigit c = true
    · simp only [a3, if_true] at h; exact ih _ _ l p h
    · simp [a3] at h

theorem skipSpace_not_fail : ∀ (n : Nat) (r : List Byte) (line l : Nat) (p : List Byte), r.length ≤ n →
    skipSpace line r ≠ .fail l p := by
  intro n
  induction n with
  | zero => intro r line l p hn h; cases r with
            | nil => simp [skipSpace] at h
            | cons c r => simp at hn
  | succ n ih =>
    intro r line l p hn h
    cases r with
    | nil => simp [skipSpace] at h
    | cons c r =>
      rw [skipSpace_cons] at h
      by_cases c13 : c = 13
      · simp only [c13, if_true] at h
        cases r with
        | nil => simp at h
        | cons d r =>
          simp only at h
          by_cases d10 : d = 10
          · simp only [d10, if_true] at h; exact ih r _ l p (by simp at hn ⊢; omega) h
          · simp only [d10, if_false] at h; exact ih (d :: r) _ l p (by simp at hn ⊢; omega) h
      simp only [c13, if_false] at h
      by_cases c10 : c = 10
      · simp only [c10, if_true] at h; exact ih r _ l p (by simp at hn ⊢; omega) h
      simp only [c10, if_false] at h
      by_cases csp : isSpace c = true
      · simp only [csp, if_true] at h; exact ih r _ l p (by simp at hn ⊢; omega) h
      · simp [csp] at h

/-- where the tokenizer gives up: after the white space, either at the FIRST byte of the token (a byte that cannot start
    a token, or a `t` / `f` / `n` that does not start `true` / `false` / `null`), or inside a string literal at the cursor
    where the string loop stops -/
theorem readToken_fail_cases (line : Nat) (r : List Byte) (l : Nat) (p : List Byte) (h : readToken line r = .fail l p) :
    ∃ line1 t, skipSpace line r = .ok (line1, t) ∧
      ((t = p ∧ l = line1 ∧ t.head? ≠ some 34) ∨
       (∃ r', t = 34 :: r' ∧ readStr r'.length line1 [] r' = .fail l p)) := by
  unfold readToken at h
  cases e : skipSpace line r with
  | ok x =>
    obtain ⟨line1, t⟩ := x
    refine ⟨line1, t, rfl, ?_⟩
    rw [e] at h
    simp only [Res.bind] at h
    cases t with
    | nil => simp at h
    | cons c r' =>
      simp only at h
      by_cases c0 : c = 0
      · simp [c0] at h
      by_cases cs : c = 123 ∨ c = 125 ∨ c = 91 ∨ c = 93 ∨ c = 44 ∨ c = 58
      · simp [c0, cs] at h
      by_cases c34 : c = 34
      · right
        refine ⟨r', by rw [c34], ?_⟩
        simp only [c0, cs, c34, if_true, if_false] at h
        cases e2 : readStr r'.length line1 [] r' with
        | ok x => rw [e2] at h; simp at h
        | fail l' p' => rw [e2] at h; simpa using h
        | oob => rw [e2] at h; simp at h
        | nofuel => rw [e2] at h; simp at h
      left
      have h34 : (c :: r').head? ≠ some 34 := by simp [c34]
      simp only [c0, cs, c34, if_false] at h
      by_cases c116 : c = 116
      · subst c116
        simp only [if_true] at h
        cases e3 : litMatch [116, 114, 117, 101] (116 :: r') with
        | ok a =>
          rw [e3] at h
          cases a with
          | some q => simp at h
          | none => simp at h; exact ⟨h.2, h.1.symm, h34⟩
        | fail l2 p2 => exact absurd e3 (litMatch_not_fail _ _ _ _)
        | oob => rw [e3] at h; simp at h
        | nofuel => rw [e3] at h; simp at h
      simp only [c116, if_false] at h
      by_cases c102 : c = 102
      · subst c102
        simp only [if_true] at h
        cases e3 : litMatch [102, 97, 108, 115, 101] (102 :: r') with
        | ok a =>
          rw [e3] at h
          cases a with
          | some q => simp at h
          | none => simp at h; exact ⟨h.2, h.1.symm, h34⟩
        | fail l2 p2 => exact absurd e3 (litMatch_not_fail _ _ _ _)
        | oob => rw [e3] at h; simp at h
        | nofuel => rw [e3] at h; simp at h
      simp only [c102, if_false] at h
      by_cases c110 : c = 110
      · subst c110
        simp only [if_true] at h
        cases e3 : litMatch [110, 117, 108, 108] (110 :: r') with
        | ok a =>
          rw [e3] at h
          cases a with
          | some q => simp at h
          | none => simp at h; exact ⟨h.2, h.1.symm, h34⟩
        | fail l2 p2 => exact absurd e3 (litMatch_not_fail _ _ _ _)
        | oob => rw [e3] at h; simp at h
        | nofuel => rw [e3] at h; simp at h
      simp only [c110, if_false] at h
      by_cases cn : c = 45 ∨ isDigit c = true
      · simp only [cn, if_true] at h
        cases e4 : numLoop [] false (c :: r') with
        | ok a => rw [e4] at h; simp at h
        | fail l2 p2 => exact absurd e4 (numLoop_not_fail _ _ _ _ _)
        | oob => rw [e4] at h; simp at h
        | nofuel => rw [e4] at h; simp at h
      · simp only [cn, if_false] at h
        simp at h
        exact ⟨h.2, h.1.symm, h34⟩
  | fail l' p' => exact absurd e (skipSpace_not_fail r.length r line l' p' (Nat.le_refl _))
  | oob => rw [e] at h; simp [Res.bind] at h
  | nofuel => rw [e] at h; simp [Res.bind] at h


/-! ### where the string loop stops -/

/-- why the string loop of `readToken` stops with an error at cursor `p`; `pre` = the bytes of the literal in front of `p` -/
inductive StrStop : List Byte → List Byte → Prop
  /-- the text ends inside the literal: the error is AT the terminating NUL -/
  | eof (pre p : List Byte) (h : p.head? = some 0) : StrStop pre p
  /-- a `\u` escape with fewer than four hexadecimal digits: the error is AT the first byte that is not one -/
  | badHex (pre ds p : List Byte) (c : Byte) (hl : ds.length < 4) (hd : ∀ d ∈ ds, isHexDigit d = true)
      (hc : p.head? = some c) (hn : isHexDigit c = false) : StrStop (pre ++ [92, 117] ++ ds) p
  /-- a high surrogate escape `\uD800`..`\uDBFF` that is not followed by a low surrogate escape: the error is
      immediately BEHIND the high surrogate escape -/
  | loneHigh (pre ds p : List Byte) (hl : ds.length = 4) (hd : ∀ d ∈ ds, isHexDigit d = true)
      (hs : scanHex ds &&& 0xF800 = 0xD800 ∧ scanHex ds &&& 0xFC00 = 0xD800) : StrStop (pre ++ [92, 117] ++ ds) p

theorem StrStop.prepend (x : List Byte) {pre p : List Byte} (h : StrStop pre p) : StrStop (x ++ pre) p := by
  cases h with
  | eof _ _ h => exact .eof _ _ h
  | badHex pre ds p c hl hd hc hn =>
    have := StrStop.badHex (x ++ pre) ds p c hl hd hc hn
    simpa [List.append_assoc] using this
  | loneHigh pre ds p hl hd hs =>
    have := StrStop.loneHigh (x ++ pre) ds p hl hd hs
    simpa [List.append_assoc] using this

theorem hex4_cases (line : Nat) : ∀ (n : Nat) (k r : List Byte),
    match hex4 line n k r with
    | .ok (k', r2) => ∃ ds, r = ds ++ r2 ∧ ds.length = n ∧ (∀ d ∈ ds, isHexDigit d = true) ∧ k' = k ++ ds
    | .fail l p => ∃ ds c, r = ds ++ p ∧ ds.length < n ∧ (∀ d ∈ ds, isHexDigit d = true) ∧ p.head? = some c ∧
        isHexDigit c = false ∧ l = line
    | _ => True := by
  intro n
  induction n with
  | zero => intro k r; simp only [hex4]; exact ⟨[], by simp⟩
  | succ n ih =>
    intro k r
    cases r with
    | nil => simp only [hex4]
    | cons c r =>
      simp only [hex4]
      by_cases hc : isHexDigit c = true
      · simp only [hc, if_true]
        have := ih (k ++ [c]) r
        cases e : hex4 line n (k ++ [c]) r with
        | ok x =>
          rw [e] at this
          obtain ⟨ds, h1, h2, h3, h4⟩ := this
          exact ⟨c :: ds, by simp [h1], by simp [h2], by
            intro d hd; simp at hd; rcases hd with rfl | hd
            · exact hc
            · exact h3 d hd, by simp [h4]⟩
        | fail l p =>
          rw [e] at this
          obtain ⟨ds, c', h1, h2, h3, h4, h5, h6⟩ := this
          exact ⟨c :: ds, c', by simp [h1], by simp; omega, by
            intro d hd; simp at hd; rcases hd with rfl | hd
            · exact hc
            · exact h3 d hd, h4, h5, h6⟩
        | oob => trivial
        | nofuel => trivial
      · simp only [hc, if_false]
        exact ⟨[], c, by simp, by simp, by simp, by simp, by simpa using hc, rfl⟩

/-- where the string loop stops: the consumed part `pre` of the literal and the reason -/
theorem readStr_stop : ∀ (f line : Nat) (acc r : List Byte) (l : Nat) (p : List Byte),
    readStr f line acc r = .fail l p → ∃ pre, r = pre ++ p ∧ StrStop pre p := by
  intro f
  induction f with
  | zero => intro line acc r l p h; simp [readStr] at h
  | succ f ih =>
    intro line acc r l p h
    cases r with
    | nil => simp [readStr] at h
    | cons c r =>
      rw [readStr_cons] at h
      -- a recursive call on a later cursor: prepend what was consumed
      have recur : ∀ (line' : Nat) (acc' r' x : List Byte), c :: r = x ++ r' →
          readStr f line' acc' r' = .fail l p → ∃ pre, c :: r = pre ++ p ∧ StrStop pre p := by
        intro line' acc' r' x hx hh
        obtain ⟨pre, h1, h2⟩ := ih line' acc' r' l p hh
        exact ⟨x ++ pre, by rw [hx, h1, List.append_assoc], h2.prepend x⟩
      by_cases c0 : c = 0
      · simp only [c0, if_true, Res.fail.injEq] at h
        exact ⟨[], by simp [← h.2, c0], .eof _ _ (by simp [← h.2])⟩
      simp only [c0, if_false] at h
      by_cases c13 : c = 13
      · simp only [c13, if_true] at h
        cases r with
        | nil => simp at h
        | cons d r' =>
          simp only at h
          by_cases d10 : d = 10
          · simp only [d10, if_true] at h
            exact recur _ _ r' [c, d] (by simp) h
          · simp only [d10, if_false] at h
            exact recur _ _ (d :: r') [c] (by simp) h
      simp only [c13, if_false] at h
      by_cases c10 : c = 10
      · simp only [c10, if_true] at h
        exact recur _ _ r [c] (by simp) h
      simp only [c10, if_false] at h
      by_cases c92 : c = 92
      · simp only [c92, if_true] at h
        cases r with
        | nil => simp at h
        | cons e r' =>
          simp only at h
          cases hu : unesc e with
          | some b =>
            rw [hu] at h
            exact recur _ _ r' [c, e] (by simp) h
          | none =>
            rw [hu] at h
            simp only at h
            by_cases e117 : e = 117
            · simp only [e117, if_true] at h
              have h4 := hex4_cases line 4 [] r'
              cases e1 : hex4 line 4 [] r' with
              | ok x =>
                obtain ⟨k, r2⟩ := x
                rw [e1] at h h4
                obtain ⟨ds, hr, hl, hd, hk⟩ := h4
                simp only [List.nil_append] at hk
                rw [hk] at h
                simp only [Res.bind] at h
                by_cases hs : scanHex ds &&& 0xF800 = 0xD800 ∧ scanHex ds &&& 0xFC00 = 0xD800
                · simp only [hs, and_self, if_true] at h
                  -- every failure of the surrogate branch that is reported at `r2`
                  have lone : l = line → p = r2 → ∃ pre, c :: e :: r' = pre ++ p ∧ StrStop pre p := by
                    intro _ hp
                    refine ⟨[] ++ [92, 117] ++ ds, ?_, .loneHigh [] ds p hl hd hs⟩
                    rw [hp, hr, c92, e117]; simp
                  cases r2 with
                  | nil => simp at h
                  | cons b1 r3 =>
                    simp only at h
                    by_cases g1 : b1 ≠ 92
                    · simp only [g1, if_true, Res.fail.injEq, ne_eq, not_false_eq_true] at h
                      exact lone h.1.symm h.2.symm
                    simp only [g1, if_false] at h
                    cases r3 with
                    | nil => simp at h
                    | cons b2 r4 =>
                      simp only at h
                      by_cases g2 : b2 ≠ 117
                      · simp only [g2, if_true, Res.fail.injEq, ne_eq, not_false_eq_true] at h
                        exact lone h.1.symm h.2.symm
                      simp only [g2, if_false] at h
                      have h4' := hex4_cases line 4 [] r4
                      cases e2 : hex4 line 4 [] r4 with
                      | ok y =>
                        obtain ⟨k2, r5⟩ := y
                        rw [e2] at h h4'
                        obtain ⟨ds2, hr2, hl2, hd2, hk2⟩ := h4'
                        simp only [Res.bind] at h
                        by_cases g3 : scanHex k2 &&& 0xFC00 ≠ 0xDC00
                        · simp only [g3, if_true, Res.fail.injEq, ne_eq, not_false_eq_true] at h
                          exact lone h.1.symm h.2.symm
                        · simp only [g3, if_false] at h
                          exact recur _ _ r5 ([c, e] ++ ds ++ [b1, b2] ++ ds2) (by rw [hr, hr2]; simp) h
                      | fail l2 p2 =>
                        rw [e2] at h h4'
                        obtain ⟨ds2, c2, hr2, hl2, hd2, hh2, hn2, _⟩ := h4'
                        simp only [Res.bind, Res.fail.injEq] at h
                        have b1e : b1 = 92 := by simpa using g1
                        have b2e : b2 = 117 := by simpa using g2
                        refine ⟨([c, e] ++ ds) ++ [92, 117] ++ ds2, ?_, ?_⟩
                        · rw [hr, hr2, ← h.2, b1e, b2e]; simp
                        · rw [← h.2]; exact .badHex _ ds2 p2 c2 hl2 hd2 hh2 hn2
                      | oob => rw [e2] at h; simp [Res.bind] at h
                      | nofuel => rw [e2] at h; simp [Res.bind] at h
                · simp only [hs, if_false] at h
                  exact recur _ _ r2 ([c, e] ++ ds) (by rw [hr]; simp) h
              | fail l2 p2 =>
                rw [e1] at h h4
                obtain ⟨ds, c2, hr, hl, hd, hh, hn, _⟩ := h4
                simp only [Res.bind, Res.fail.injEq] at h
                refine ⟨[] ++ [92, 117] ++ ds, ?_, ?_⟩
                · rw [hr, ← h.2, c92, e117]; simp
                · rw [← h.2]; exact .badHex [] ds p2 c2 hl hd hh hn
              | oob => rw [e1] at h; simp [Res.bind] at h
              | nofuel => rw [e1] at h; simp [Res.bind] at h
            · simp only [e117, if_false] at h
              exact recur _ _ (e :: r') [c] (by simp) h
      simp only [c92, if_false] at h
      by_cases c34 : c = 34
      · simp [c34] at h
      · simp only [c34, if_false] at h
        exact recur _ _ r [c] (by simp) h

end Nstd.Json
