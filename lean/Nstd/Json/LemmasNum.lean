import Nstd.Json.LemmasRfcIn
/-
  The number branch of `readToken`: which bytes form the token, when it is a double, and the integer
  value of EVERY token without a decimal point (`atoll` semantics: optional minus, the decimal value of
  the digits before the first non-digit, saturated at the int64 range, then narrowed to `int` when it
  fits 32 bits).  Lone high surrogates are rejected.
-/
set_option linter.unusedSimpArgs false
set_option linter.unusedVariables false
namespace Nstd.Json
open Nstd.Generated.Json

/-- decimal value of a digit string (specification) -/
def digitsVal (ds : List Byte) : Nat := ds.foldl (fun a c => a * 10 + (c - 48)) 0

/-- the Variant kind chosen for an int64 result: `int` when `(int64)(int)result == result` -/
def intVal (i : Int) : Val := if -2147483648 ≤ i ∧ i ≤ 2147483647 then .int i else .int64 i

theorem atollDigits_prefix : ∀ (ds : List Byte) (a : Nat) (tail : List Byte), (∀ d ∈ ds, isDigit d = true) →
    (∀ c r, tail = c :: r → isDigit c = false) →
    atollDigits a (ds ++ tail) = ds.foldl (fun a c => a * 10 + (c - 48)) a := by
  intro ds
  induction ds with
  | nil =>
    intro a tail _ ht
    cases tail with
    | nil => rfl
    | cons c r => simp [atollDigits, ht c r rfl]
  | cons d ds ih =>
    intro a tail hd ht
    have h1 := hd d List.mem_cons_self
    simp only [List.cons_append, atollDigits, h1, if_true, List.foldl_cons]
    exact ih _ tail (fun x hx => hd x (List.mem_cons_of_mem _ hx)) ht

theorem numVal_int (n : List Byte) : numVal n false = intVal (atoll n) := by
  simp only [numVal, Bool.false_eq_true, if_false, intVal]
  by_cases h : -2147483648 ≤ atoll n ∧ atoll n ≤ 2147483647
  · have : wrap32 (atoll n) = atoll n := wrap32_id _ h.1 h.2
    simp [this, h]
  · have : wrap32 (atoll n) ≠ atoll n := by
      intro e; apply h; unfold wrap32 at e; omega
    simp [this, h]

theorem atoll_token (neg : Bool) (ds tail : List Byte) (hds : ∀ d ∈ ds, isDigit d = true)
    (htail : ∀ c r, tail = c :: r → isDigit c = false) (hstart : neg = true ∨ ds ≠ []) :
    atoll ((if neg then [45] else []) ++ ds ++ tail)
      = clamp64 (if neg then -(digitsVal ds : Int) else (digitsVal ds : Int)) := by
  cases neg with
  | true =>
    simp only [if_true, List.cons_append, List.nil_append, List.append_assoc]
    unfold atoll
    simp only [List.dropWhile, (by decide : isSpace 45 = false)]
    simp only [if_true]
    rw [atollDigits_prefix ds 0 tail hds htail]
    rfl
  | false =>
    have hne : ds ≠ [] := by rcases hstart with h | h; cases h; exact h
    cases ds with
    | nil => exact absurd rfl hne
    | cons d ds' =>
      have hd := hds d List.mem_cons_self
      have hsp : isSpace d = false := by simp [isDigit] at hd; simp [isSpace]; omega
      have h45 : d ≠ 45 := by simp [isDigit] at hd; omega
      have h43 : d ≠ 43 := by simp [isDigit] at hd; omega
      simp only [Bool.false_eq_true, if_false, List.nil_append, List.cons_append]
      unfold atoll
      simp only [List.dropWhile, hsp, h45, h43, if_false]
      have := atollDigits_prefix (d :: ds') 0 tail hds htail
      simp only [List.cons_append] at this
      rw [this]
      rfl

/-- the number branch for ANY token: bytes of the number alphabet starting with `-` or a digit, followed by a
    byte outside the alphabet; the token is a double exactly when it contains a decimal point -/
theorem tok_num_any (d : Byte) (ds : List Byte) (hch : ∀ x ∈ d :: ds, NumCh x) (hd : d = 45 ∨ isDigit d = true)
    (line : Nat) (c : Byte) (r : List Byte) (hc : NumStop c) :
    readToken line ((d :: ds) ++ c :: r) = .ok ⟨35, numVal (d :: ds) ((d :: ds).contains 46), line, c :: r⟩ := by
  have hrange : d = 45 ∨ (48 ≤ d ∧ d ≤ 57) := by
    rcases hd with h | h
    · left; exact h
    · right; simpa [isDigit] using h
  have hs : isSpace d = false := by simp [isSpace]; omega
  unfold readToken
  rw [List.cons_append, skipSpace_stop line d _ (by omega) (by omega) hs]
  have := numLoop_all (d :: ds) [] false c r hch hc
  simp only [List.cons_append, List.nil_append, Bool.false_or] at this
  have h0 : d ≠ 0 := by omega
  have hp : ¬(d = 123 ∨ d = 125 ∨ d = 91 ∨ d = 93 ∨ d = 44 ∨ d = 58) := by omega
  have h34 : d ≠ 34 := by omega
  have h116 : d ≠ 116 := by omega
  have h102 : d ≠ 102 := by omega
  have h110 : d ≠ 110 := by omega
  simp only [Res.bind, h0, hp, h34, h116, h102, h110, hd, if_false, if_true, this]

/-- a high surrogate escape that is not followed by `\u` is a syntax error at the cursor behind it -/
theorem lone_high_rejected (f line : Nat) (acc : List Byte) (a b c d x : Byte) (X : List Byte)
    (ha : Rfc.isHex a) (hb : Rfc.isHex b) (hc : Rfc.isHex c) (hd : Rfc.isHex d)
    (hw : isHighSur (((hexVal a * 16 + hexVal b) * 16 + hexVal c) * 16 + hexVal d) = true) (hx : x ≠ 92) :
    readStr (f + 1) line acc (92 :: 117 :: a :: b :: c :: d :: x :: X) = .fail line (x :: X) := by
  have h1 := hexVal_lt ha; have h2 := hexVal_lt hb; have h3 := hexVal_lt hc; have h4 := hexVal_lt hd
  have hlt : ((hexVal a * 16 + hexVal b) * 16 + hexVal c) * 16 + hexVal d < 65536 := by omega
  have hyes := (high_iff _ hlt).mpr hw
  rw [readStr_cons]
  simp only [(by decide : (92:Nat) ≠ 0), (by decide : (92:Nat) ≠ 13), (by decide : (92:Nat) ≠ 10), if_false, if_true,
    unesc_u, hex4_ok line a b c d _ ha hb hc hd, Res.bind, scanHex4, hyes, and_self, ne_eq, hx, not_false_eq_true]

end Nstd.Json
