import Nstd.Json.LemmasParse
/-
  The token `"` always carries a string value: the `strOf` default of the model (the C++ code's
  `token.value.toString()` on a non-string Variant) is unreachable.
-/
set_option linter.unusedSimpArgs false
set_option linter.unusedVariables false
namespace Nstd.Json

theorem bind_ok {α β : Type} {x : Res α} {k : α → Res β} {b : β} (h : x.bind k = .ok b) :
    ∃ a, x = .ok a ∧ k a = .ok b := by
  cases x with
  | ok a => exact ⟨a, rfl, h⟩
  | fail l p => simp [Res.bind] at h
  | oob => simp [Res.bind] at h
  | nofuel => simp [Res.bind] at h

theorem lit_tok {lit r : List Byte} {line : Nat} {t : Byte} {v : Val} {p : List Byte} {st : St}
    (h : ((litMatch lit r).bind fun m =>
      match m with
      | some r'' => Res.ok (⟨t, v, line, r''⟩ : St)
      | none => .fail line p) = .ok st) : st.tok = t := by
  obtain ⟨m, _, hm⟩ := bind_ok h
  cases m with
  | none => simp at hm
  | some r'' => simp at hm; rw [← hm]

theorem readToken_str_val (line : Nat) (r : List Byte) (st : St) (h : readToken line r = .ok st)
    (ht : st.tok = 34) : ∃ s, st.val = .str s := by
  unfold readToken at h
  obtain ⟨⟨l1, r1⟩, _, h⟩ := bind_ok h
  simp only at h
  cases r1 with
  | nil => simp at h
  | cons c r' =>
    simp only at h
    by_cases h0 : c = 0
    · simp only [h0, if_true] at h; simp at h; rw [← h] at ht; simp at ht
    simp only [h0, if_false] at h
    by_cases hp : c = 123 ∨ c = 125 ∨ c = 91 ∨ c = 93 ∨ c = 44 ∨ c = 58
    · simp only [hp, if_true] at h; simp at h; rw [← h] at ht; simp at ht; omega
    simp only [hp, if_false] at h
    by_cases h34 : c = 34
    · simp only [h34, if_true] at h
      obtain ⟨⟨l2, v, r2⟩, _, h⟩ := bind_ok h
      simp at h; rw [← h]; exact ⟨v, rfl⟩
    simp only [h34, if_false] at h
    by_cases h116 : c = 116
    · simp only [h116, if_true] at h; have := lit_tok h; omega
    simp only [h116, if_false] at h
    by_cases h102 : c = 102
    · simp only [h102, if_true] at h; have := lit_tok h; omega
    simp only [h102, if_false] at h
    by_cases h110 : c = 110
    · simp only [h110, if_true] at h; have := lit_tok h; omega
    simp only [h110, if_false] at h
    by_cases hn : c = 45 ∨ isDigit c = true
    · simp only [hn, if_true] at h
      obtain ⟨⟨n, d, r2⟩, _, h⟩ := bind_ok h
      simp at h; rw [← h] at ht; simp at ht
    · simp only [hn, if_false] at h; simp at h

end Nstd.Json
