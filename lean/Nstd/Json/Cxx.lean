import Nstd.Json.Model
/-
  Memory primitives of the TRANSLATED code (`Nstd/Generated/JsonCode.lean`, written by tools/gen_json_cxx.py from
  the current Json.cpp).  A `const char*` is a Lean variable holding a suffix of the buffer plus a static offset;
  `p[i]` reads the head of `p.drop i`; the empty suffix is a read behind the buffer (`.oob`), exactly the memory
  model of `Model.lean`.
-/
namespace Nstd.Json.Cxx
open Nstd.Json

/-- `p[i]` inside `Json::stripComments` -/
@[inline] def rdS (p : List Byte) (i : Nat) (k : Byte → SRes) : SRes :=
  match p.drop i with
  | [] => .oob
  | c :: _ => k c

/-- `p[i]` inside the tokenizer -/
@[inline] def rdR {α : Type} (p : List Byte) (i : Nat) (k : Byte → Res α) : Res α :=
  match p.drop i with
  | [] => .oob
  | c :: _ => k c

/-- `const char* e = String::findOneOf(p, set); if(e) … else …` (`findOneOf` = `strpbrk`, Model.lean) -/
def findS (set : List Byte) (p : List Byte) (knull : SRes) (kfound : List Byte → SRes) : SRes :=
  match findOneOf set p with
  | .ok (some e) => kfound e
  | .ok none => knull
  | .oob => .oob
  | _ => .nofuel

def findR {α : Type} (set : List Byte) (p : List Byte) (knull : Res α) (kfound : List Byte → Res α) : Res α :=
  match findOneOf set p with
  | .ok (some e) => kfound e
  | .ok none => knull
  | .oob => .oob
  | _ => .nofuel

/-- `if(String::compare(p, lit, |lit|) == 0) … else …` (`litMatch`, Model.lean: stops at the first difference, in
    particular at a NUL of the text) -/
def litR {α : Type} (lit : List Byte) (p : List Byte) (kmatch kmis : Res α) : Res α :=
  match litMatch lit p with
  | .ok (some _) => kmatch
  | .ok none => kmis
  | .fail l q => .fail l q
  | .oob => .oob
  | .nofuel => .nofuel

/-- `if(!readToken()) …`: the call either yields the next parser state or has already recorded an error (line, cursor) -/
def nextR {α β : Type} (x : Res α) (kok : α → Res β) (kfail : Nat → List Byte → Res β) : Res β :=
  match x with
  | .ok a => kok a
  | .fail l p => kfail l p
  | .oob => .oob
  | .nofuel => .nofuel

/-- `if(!parseValue(place)) …`: the recursive call yields (value stored into `place`, next parser state) or an error -/
def callR {β : Type} (x : Res (Val × St)) (kok : Val → St → Res β) (kfail : Nat → List Byte → Res β) : Res β :=
  match x with
  | .ok (v, st) => kok v st
  | .fail l p => kfail l p
  | .oob => .oob
  | .nofuel => .nofuel

end Nstd.Json.Cxx
