import Nstd.Json.Model
/-
  What the theorems need of the escape tables that `tools/gen_json.py` regenerates from
  Json.cpp on every run.  Each fact is a closed check (`decide`) over the GENERATED tables, so a
  changed table in the C++ source re-checks them; the proofs of the property theorems use the
  tables only through the lemmas of this file.
-/
namespace Nstd.Json
open Nstd.Generated.Json

theorem lookup_mem {β : Type} : ∀ (t : List (Nat × β)) (k : Nat) (v : β), lookup k t = some v → (k, v) ∈ t := by
  intro t
  induction t with
  | nil => intro k v h; simp [lookup] at h
  | cons p t ih =>
    intro k v h
    obtain ⟨k', v'⟩ := p
    simp only [lookup] at h
    by_cases hk : k' = k
    · simp only [hk, if_true, Option.some.injEq] at h; subst h; subst hk; exact List.mem_cons_self
    · simp only [hk, if_false] at h; exact List.mem_cons_of_mem _ (ih k v h)

/-- no escape letter is NUL, LF, CR (it is stepped over like an ordinary byte) or `u` -/
theorem unescTable_plain :
    unescTable.all (fun p => p.1 != 0 && p.1 != 10 && p.1 != 13 && p.1 != 117) = true := by decide

theorem unesc_plain {e b : Nat} (h : unesc e = some b) : e ≠ 0 ∧ e ≠ 10 ∧ e ≠ 13 ∧ e ≠ 117 := by
  have hm := lookup_mem _ _ _ h
  have := List.all_eq_true.mp unescTable_plain _ hm
  simp at this
  omega

theorem unesc_zero : unesc 0 = none := by
  cases h : unesc 0 with
  | none => rfl
  | some b => exact absurd rfl (unesc_plain h).1

theorem unesc_u : unesc 117 = none := by
  cases h : unesc 117 with
  | none => rfl
  | some b => exact absurd rfl (unesc_plain h).2.2.2

/-- every escape text written by `appendEscapedString` is a backslash and a letter that the
    tokenizer's escape switch maps back to the escaped byte -/
theorem escTable_inverts :
    escTable.all (fun p => match p.2 with
      | [a, e] => a == 92 && lookup e unescTable == some p.1
      | _ => false) = true := by decide

theorem esc_inverts {c : Nat} {t : List Nat} (h : lookup c escTable = some t) :
    ∃ e, t = [92, e] ∧ unesc e = some c := by
  have hm := lookup_mem _ _ _ h
  have := List.all_eq_true.mp escTable_inverts _ hm
  simp only at this
  match t, this with
  | [a, e], this =>
    simp only [Bool.and_eq_true, beq_iff_eq] at this
    exact ⟨e, by rw [this.1], this.2⟩

/-- the set of bytes that get escaped contains the quote, the backslash and every control character -/
theorem escSet_covers :
    ((List.range 32).all (fun c => c == 0 || escSet.contains c) && escSet.contains 34 && escSet.contains 92) = true := by
  decide

theorem escSet_raw {c : Nat} (h : escSet.contains c = false) : c ≠ 34 ∧ c ≠ 92 ∧ (c = 0 ∨ 32 ≤ c) := by
  have hc := escSet_covers
  simp only [Bool.and_eq_true] at hc
  obtain ⟨⟨h1, h2⟩, h3⟩ := hc
  refine ⟨fun e => ?_, fun e => ?_, ?_⟩
  · subst e; rw [h2] at h; cases h
  · subst e; rw [h3] at h; cases h
  · by_cases hlt : c < 32
    · have := List.all_eq_true.mp h1 c (List.mem_range.mpr hlt)
      simp only [Bool.or_eq_true, beq_iff_eq] at this
      rcases this with h0 | hin
      · exact Or.inl h0
      · rw [hin] at h; cases h
    · exact Or.inr (by omega)

/-- a byte of the set without a case of its own (`default:` → `\u00XX`) is a control character -/
theorem escDefault_small :
    escSet.all (fun c => (lookup c escTable).isSome || (decide (c < 32) && c != 0)) = true := by decide

theorem escDefault_ctrl {c : Nat} (hs : escSet.contains c = true) (hl : lookup c escTable = none) : c < 32 ∧ c ≠ 0 := by
  have hm : c ∈ escSet := by simpa using hs
  have := List.all_eq_true.mp escDefault_small c hm
  simpa [hl] using this

theorem escDefaultPrefix_eq : escDefaultPrefix = [92, 117, 48, 48] := by decide

end Nstd.Json
