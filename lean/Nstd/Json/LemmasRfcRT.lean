import Nstd.Json.LemmasRfcOut
import Nstd.Json.LemmasNum
/-
  The RFC meaning of the text that `toString` writes is the value itself (`norm v`): a statement about
  the two SPECIFICATIONS (`treeOf` = syntax tree of the serialiser's output, `interp` = meaning of a
  syntax tree); the parser model does not occur in it.  Together with `toString_rfc` and `accepts_text`
  it gives the round trip a second, independent proof.
-/
set_option linter.unusedSimpArgs false
set_option linter.unusedVariables false
namespace Nstd.Json
open Nstd.Generated.Json

theorem decodeItems_unit_plain (w : Nat) (r : List Rfc.Item) (h : isHighSur w = false) :
    decodeItems (.unit w :: r) = (decodeItems r).map (fun s => Nstd.Codec.Spec.utf8 w ++ s) := by
  cases r with
  | nil => simp [decodeItems, h]
  | cons i2 r' => cases i2 <;> simp [decodeItems, h]

/-- the items `appendEscapedString` writes decode to the string, for EVERY byte string -/
theorem decodeItems_itemOf : ∀ s : List Byte, decodeItems (s.map itemOf) = some s := by
  intro s
  induction s with
  | nil => rfl
  | cons c s ih =>
    rw [List.map_cons]
    by_cases hset : escSet.contains c = true
    · cases hl : lookup c escTable with
      | some t =>
        have e : itemOf c = .byte c := by simp only [itemOf, hset, hl, if_true]
        rw [e]; simp only [decodeItems, ih, Option.map_some]
      | none =>
        have e : itemOf c = .unit c := by simp only [itemOf, hset, hl, if_true]
        obtain ⟨hlt, _⟩ := escDefault_ctrl hset hl
        have hh : isHighSur c = false := by simp [isHighSur]; omega
        have hu : Nstd.Codec.Spec.utf8 c = [c] := by
          unfold Nstd.Codec.Spec.utf8; simp [show c < 0x80 by omega]
        rw [e, decodeItems_unit_plain c _ hh, ih, hu]
        rfl
    · have hset' : escSet.contains c = false := by simpa using hset
      have e : itemOf c = .byte c := by simp only [itemOf, hset', Bool.false_eq_true, if_false]
      rw [e]; simp only [decodeItems, ih, Option.map_some]

theorem fromInt_no_point (i : Int) : (fromInt i).contains 46 = false := by
  have h := fromInt_chars i
  cases hc : (fromInt i).contains 46 with
  | false => rfl
  | true =>
    have hm : 46 ∈ fromInt i := by simpa using hc
    rcases h 46 hm with h1 | h1
    · simp [isDigit] at h1
    · omega

mutual
theorem interp_treeOf : (v : Val) → wf v → interp (treeOf v) = some (norm v)
  | .null, _ => rfl
  | .bool _, _ => rfl
  | .dbl _, h => by simp [wf] at h
  | .int i, h => by
    simp only [wf] at h
    simp only [treeOf, interp, fromInt_no_point, norm]
    simp only [numVal, Bool.false_eq_true, if_false]
    rw [atoll_fromInt i (by omega) (by omega), wrap32_id i h.1 h.2]; simp
  | .int64 i, h => by
    simp only [wf] at h
    simp only [treeOf, interp, fromInt_no_point, norm]
    simp only [numVal, Bool.false_eq_true, if_false]
    rw [atoll_fromInt i h.1 h.2]
  | .str s, _ => by simp only [treeOf, interp, decodeItems_itemOf, Option.map_some, norm]
  | .list l, h => by
    simp only [wf] at h
    simp only [treeOf, interp, interp_treeOfList l h, Option.map_some, norm]
  | .map m, h => by
    simp only [wf] at h
    have := interp_treeOfMap m h [] (by intro kv _ ka hka; cases hka)
    simp only [treeOf, interp, this, Option.map_some, norm, List.nil_append]
theorem interp_treeOfList : (l : List Val) → wfList l → interpList (treeOfList l) = some (normList l)
  | [], _ => rfl
  | v :: vs, h => by
    simp only [wfList] at h
    simp only [treeOfList, interpList, interp_treeOf v h.1, interp_treeOfList vs h.2, normList]
theorem interp_treeOfMap : (m : List (List Byte × Val)) → wfMap m → ∀ acc : List (List Byte × Val),
    (∀ kv ∈ m, ∀ ka ∈ acc, ka.1 ≠ kv.1) → interpMembers (treeOfMap m) acc = some (acc ++ normMap m)
  | [], _, acc, _ => by simp [treeOfMap, interpMembers, normMap]
  | (k, v) :: m, h, acc, hk => by
    simp only [wfMap] at h
    obtain ⟨_, hwv, hkm, hwm⟩ := h
    have hnew : mapAppend acc k (norm v) = acc ++ [(k, norm v)] :=
      mapAppend_new acc k (norm v) (fun ka hka => hk (k, v) (List.mem_cons_self) ka hka)
    have hk' : ∀ kv ∈ m, ∀ ka ∈ acc ++ [(k, norm v)], ka.1 ≠ kv.1 := by
      intro kv hkv ka hka
      rcases List.mem_append.mp hka with hka | hka
      · exact hk kv (List.mem_cons_of_mem _ hkv) ka hka
      · simp at hka; subst hka; exact fun e => hkm kv hkv e.symm
    simp only [treeOfMap, interpMembers, decodeItems_itemOf, interp_treeOf v hwv, hnew,
      interp_treeOfMap m hwm _ hk', normMap]
    simp
end

/-- the round trip THROUGH the RFC semantics: the serialiser's text is a JSON-text whose RFC meaning is
    `norm v`, and the parser reads every JSON-text to its meaning -/
theorem roundtrip_rfc (v : Val) (h : wf v) : parse (toString v ++ [0]) = .ok (norm v) :=
  accepts_text (toString_rfc v h) (interp_treeOf v h)

end Nstd.Json
