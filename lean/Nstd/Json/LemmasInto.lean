import Nstd.Json.ModelInto
import Nstd.Json.LemmasParse
set_option linter.unusedSimpArgs false
namespace Nstd.Json

/-- the items that were in the Variant before stay in front -/
def prependList (l : List Val) : Val → Val
  | .list xs => .list (l ++ xs)
  | v => v

theorem arr_prefix (l : List Val) : ∀ (f : Nat) (acc : List Val) (st : St),
    arrLoop f (l ++ acc) st = (arrLoop f acc st).bind fun x => .ok (prependList l x.1, x.2) := by
  intro f
  induction f with
  | zero => intro acc st; rw [arrLoop, arrLoop]; rfl
  | succ f ih =>
    intro acc st
    rw [arrLoop, arrLoop]
    by_cases h93 : st.tok = 93
    · simp only [h93, if_true]
      cases st.next <;> rfl
    · simp only [h93, if_false]
      cases parseValue f st with
      | ok x =>
        obtain ⟨v, st1⟩ := x
        simp only [Res.bind]
        by_cases q93 : st1.tok = 93
        · simp only [q93, if_true]
          cases st1.next <;> simp [Res.bind, prependList, List.append_assoc]
        · simp only [q93, if_false]
          by_cases q44 : st1.tok ≠ 44
          · rw [if_pos q44, if_pos q44]
          · rw [if_neg q44, if_neg q44]
            cases st1.next with
            | ok st2 =>
              simp only [Res.bind]
              have := ih (acc ++ [v]) st2
              rw [← List.append_assoc] at this
              simpa [Res.bind] using this
            | _ => rfl
      | _ => rfl

/-- a Variant that is neither a list nor a map (or an empty one) is simply replaced: `parse` into it is `parse` -/
theorem parseInto_fresh_eq (init : Val) (buf : List Byte) (h1 : initList init = []) (h2 : initMap init = []) :
    parseInto init buf = parse buf := by
  unfold parseInto parse
  cases readToken 1 buf with
  | ok st =>
    have : parseValueInto (parseFuel buf) init st = parseValue (parseFuel buf) st := by
      unfold parseFuel
      rw [parseValueInto, parseValue, h1, h2]
    simp only [this]
    cases parseValue (parseFuel buf) st <;> rfl
  | _ => rfl

/-- a Variant that already holds the list `l`: when the text is an array its items are appended behind `l` -/
theorem parseInto_array (l : List Val) (buf : List Byte) (st : St) (hst : readToken 1 buf = .ok st) (h91 : st.tok = 91) :
    parseInto (.list l) buf = match parse buf with
      | .ok v => .ok (prependList l v)
      | e => e := by
  unfold parseInto parse
  rw [hst]
  simp only
  have hs : ¬ isScalarTok st.tok = true := by rw [h91]; decide
  unfold parseFuel
  rw [parseValueInto, parseValue]
  simp only [hs, h91, if_true, if_false, initList, Bool.false_eq_true]
  cases st.next with
  | ok st1 =>
    simp only [Res.bind]
    have := arr_prefix l (2 * buf.length + 3) [] st1
    simp only [List.append_nil] at this
    rw [this]
    cases arrLoop (2 * buf.length + 3) [] st1 <;> rfl
  | _ => rfl

example : parseInto (.list [.null]) [91, 49, 44, 50, 93, 0] = .ok (.list [.null, .int 1, .int 2]) := by rfl
example : parseInto (.map [([97], .int 1), ([98], .null)]) [123, 34, 99, 34, 58, 49, 44, 34, 97, 34, 58, 50, 125, 0]
    = .ok (.map [([97], .int 2), ([98], .null), ([99], .int 1)]) := by rfl
example : parseInto (.list [.null]) [55, 0] = .ok (.int 7) := by rfl

end Nstd.Json
