import Nstd.Json.ModelInto
import Nstd.Json.LemmasParse
set_option linter.unusedSimpArgs false
set_option linter.unusedVariables false
namespace Nstd.Json

/-- the items that were in the Variant before stay in front -/
def prependList (l : List Val) : Val → Val
  | .list xs => .list (l ++ xs)
  | v => v

theorem arr_prefix (l : List Val) : ∀ (f : Nat) (acc : List Val) (st : St),
    arrLoop f (l ++ acc) st = (arrLoop f acc st).bind fun x => .ok (prependList l x.1, x.2) := by
  intro f
  induction f with
  | zero => intro acc st; rw [arrLoop, arrLoop]; rfl
  | succ f ih =>
    intro acc st
    rw [arrLoop, arrLoop]
    by_cases h93 : st.tok = 93
    · simp only [h93, if_true]
      cases st.next <;> rfl
    · simp only [h93, if_false]
      cases parseValue f st with
      | ok x =>
        obtain ⟨v, st1⟩ := x
        simp only [Res.bind]
        by_cases q93 : st1.tok = 93
        · simp only [q93, if_true]
          cases st1.next <;> simp [Res.bind, prependList, List.append_assoc]
        · simp only [q93, if_false]
          by_cases q44 : st1.tok ≠ 44
          · rw [if_pos q44, if_pos q44]
          · rw [if_neg q44, if_neg q44]
            cases st1.next with
            | ok st2 =>
              simp only [Res.bind]
              have := ih (acc ++ [v]) st2
              rw [← List.append_assoc] at this
              simpa [Res.bind] using this
            | _ => rfl
      | _ => rfl

/-- a Variant that is neither a list nor a map (or an empty one) is simply replaced: `parse` into it is `parse` -/
theorem parseInto_fresh_eq (init : Val) (buf : List Byte) (h1 : initList init = []) (h2 : initMap init = []) :
    parseInto init buf = parse buf := by
  unfold parseInto parse
  cases readToken 1 buf with
  | ok st =>
    have : parseValueInto (parseFuel buf) init st = parseValue (parseFuel buf) st := by
      unfold parseFuel
      rw [parseValueInto, parseValue, h1, h2]
    simp only [this]
    cases parseValue (parseFuel buf) st <;> rfl
  | _ => rfl

/-- a Variant that already holds the list `l`: when the text is an array its items are appended behind `l` -/
theorem parseInto_array (l : List Val) (buf : List Byte) (st : St) (hst : readToken 1 buf = .ok st) (h91 : st.tok = 91) :
    parseInto (.list l) buf = match parse buf with
      | .ok v => .ok (prependList l v)
      | e => e := by
  unfold parseInto parse
  rw [hst]
  simp only
  have hs : ¬ isScalarTok st.tok = true := by rw [h91]; decide
  unfold parseFuel
  rw [parseValueInto, parseValue]
  simp only [hs, h91, if_true, if_false, initList, Bool.false_eq_true]
  cases st.next with
  | ok st1 =>
    simp only [Res.bind]
    have := arr_prefix l (2 * buf.length + 3) [] st1
    simp only [List.append_nil] at this
    rw [this]
    cases arrLoop (2 * buf.length + 3) [] st1 <;> rfl
  | _ => rfl

example : parseInto (.list [.null]) [91, 49, 44, 50, 93, 0] = .ok (.list [.null, .int 1, .int 2]) := by rfl
example : parseInto (.map [([97], .int 1), ([98], .null)]) [123, 34, 99, 34, 58, 49, 44, 34, 97, 34, 58, 50, 125, 0]
    = .ok (.map [([97], .int 2), ([98], .null), ([99], .int 1)]) := by rfl
example : parseInto (.list [.null]) [55, 0] = .ok (.int 7) := by rfl


/-! ### a Variant that already holds a map -/

abbrev JMap := List (List Byte × Val)

/-- `HashMap::append` of every member of `m'`, in order, into `m` -/
def mergeMap (m m' : JMap) : JMap := m'.foldl (fun a kv => mapAppend a kv.1 kv.2) m

def mergeInto (m : JMap) : Val → Val
  | .map m' => .map (mergeMap m m')
  | v => v

def mkeys (m : JMap) : List (List Byte) := m.map Prod.fst

theorem mkeys_mapAppend (m : JMap) (k : List Byte) (v : Val) :
    mkeys (mapAppend m k v) = if k ∈ mkeys m then mkeys m else mkeys m ++ [k] := by
  induction m with
  | nil => simp [mapAppend, mkeys]
  | cons a t ih =>
    obtain ⟨k', v'⟩ := a
    simp only [mapAppend]
    by_cases e : k' = k
    · simp [e, mkeys]
    · simp only [e, if_false]
      have : mkeys ((k', v') :: mapAppend t k v) = k' :: mkeys (mapAppend t k v) := rfl
      rw [this, ih]
      have e' : ¬ k = k' := fun h => e h.symm
      have mk : mkeys ((k', v') :: t) = k' :: mkeys t := rfl
      rw [mk]
      by_cases hk : k ∈ mkeys t
      · simp [hk]
      · simp [hk, e']

theorem nodup_mapAppend (m : JMap) (k : List Byte) (v : Val) (h : (mkeys m).Nodup) : (mkeys (mapAppend m k v)).Nodup := by
  rw [mkeys_mapAppend]
  by_cases hk : k ∈ mkeys m
  · simp [hk, h]
  · simp only [hk, if_false]
    exact List.nodup_append.mpr ⟨h, by simp, by intro a ha b hb; simp at hb; subst hb; intro e; exact hk (e ▸ ha)⟩

theorem mapAppend_twice (m : JMap) (k : List Byte) (v' v : Val) : mapAppend (mapAppend m k v') k v = mapAppend m k v := by
  induction m with
  | nil => simp [mapAppend]
  | cons a t ih =>
    obtain ⟨k1, v1⟩ := a
    simp only [mapAppend]
    by_cases e : k1 = k
    · simp [e, mapAppend]
    · simp [e, mapAppend, ih]

theorem mapAppend_comm (m : JMap) (k k1 : List Byte) (v v1 : Val) (hne : k ≠ k1) (hk : k ∈ mkeys m) :
    mapAppend (mapAppend m k1 v1) k v = mapAppend (mapAppend m k v) k1 v1 := by
  induction m with
  | nil => simp [mkeys] at hk
  | cons a t ih =>
    obtain ⟨k2, v2⟩ := a
    by_cases e : k2 = k
    · subst e
      have : ¬ k2 = k1 := hne
      simp [mapAppend, this]
    · have hk' : k ∈ mkeys t := by
        simp [mkeys] at hk
        rcases hk with h | h
        · exact absurd h.symm e
        · simpa [mkeys] using h
      by_cases e1 : k2 = k1
      · simp [mapAppend, e, e1]
        subst e1
        simp [mapAppend, e]
      · simp [mapAppend, e, e1, ih hk']

theorem mem_mkeys_mapAppend (m : JMap) (k k1 : List Byte) (v1 : Val) (hk : k ∈ mkeys m) : k ∈ mkeys (mapAppend m k1 v1) := by
  rw [mkeys_mapAppend]; by_cases h : k1 ∈ mkeys m <;> simp [h, hk]

theorem merge_then_set (t : JMap) : ∀ (M : JMap) (k : List Byte) (v : Val), k ∈ mkeys M → k ∉ mkeys t →
    mapAppend (mergeMap M t) k v = mergeMap (mapAppend M k v) t := by
  induction t with
  | nil => intro M k v _ _; rfl
  | cons a t ih =>
    intro M k v hk hn
    obtain ⟨k1, v1⟩ := a
    have hne : k ≠ k1 := by intro e; apply hn; simp [mkeys, e]
    have hn' : k ∉ mkeys t := by intro e; apply hn; simp [mkeys] at e ⊢; exact Or.inr e
    show mapAppend (mergeMap (mapAppend M k1 v1) t) k v = mergeMap (mapAppend (mapAppend M k v) k1 v1) t
    rw [ih (mapAppend M k1 v1) k v (mem_mkeys_mapAppend M k k1 v1 hk) hn', mapAppend_comm M k k1 v v1 hne hk]

theorem merge_mapAppend (acc : JMap) : ∀ (m : JMap) (k : List Byte) (v : Val), (mkeys acc).Nodup →
    mergeMap m (mapAppend acc k v) = mapAppend (mergeMap m acc) k v := by
  induction acc with
  | nil => intro m k v _; rfl
  | cons a t ih =>
    intro m k v hnd
    obtain ⟨k', v'⟩ := a
    have hnd' : (mkeys t).Nodup := by simp [mkeys] at hnd ⊢; exact hnd.2
    have hnot : k' ∉ mkeys t := by simp [mkeys] at hnd ⊢; exact hnd.1
    by_cases e : k' = k
    · subst e
      simp only [mapAppend, if_true]
      show mergeMap (mapAppend m k' v) t = mapAppend (mergeMap (mapAppend m k' v') t) k' v
      rw [merge_then_set t (mapAppend m k' v') k' v (by rw [mkeys_mapAppend]; by_cases h : k' ∈ mkeys m <;> simp [h]) hnot,
        mapAppend_twice]
    · simp only [mapAppend, e, if_false]
      show mergeMap (mapAppend m k' v') (mapAppend t k v) = mapAppend (mergeMap (mapAppend m k' v') t) k v
      exact ih (mapAppend m k' v') k v hnd'

theorem obj_prefix (m : JMap) : ∀ (f : Nat) (acc : JMap) (st : St), (mkeys acc).Nodup →
    objLoop f (mergeMap m acc) st = (objLoop f acc st).bind fun x => .ok (mergeInto m x.1, x.2) := by
  intro f
  induction f with
  | zero => intro acc st _; rw [objLoop, objLoop]; rfl
  | succ f ih =>
    intro acc st hnd
    rw [objLoop, objLoop]
    by_cases h125 : st.tok = 125
    · simp only [h125, if_true]
      cases st.next <;> rfl
    simp only [h125, if_false]
    by_cases h34 : st.tok ≠ 34
    · rw [if_pos h34, if_pos h34]; rfl
    rw [if_neg h34, if_neg h34]
    cases st.next with
    | ok st1 =>
      simp only [Res.bind]
      by_cases q58 : st1.tok ≠ 58
      · rw [if_pos q58, if_pos q58]
      rw [if_neg q58, if_neg q58]
      cases st1.next with
      | ok st2 =>
        simp only []
        cases parseValue f st2 with
        | ok x =>
          obtain ⟨v, st3⟩ := x
          simp only []
          by_cases q125 : st3.tok = 125
          · simp only [q125, if_true]
            rw [← merge_mapAppend acc m _ v hnd]
            cases st3.next <;> rfl
          simp only [q125, if_false]
          by_cases q44 : st3.tok ≠ 44
          · rw [if_pos q44, if_pos q44]
          rw [if_neg q44, if_neg q44]
          cases st3.next with
          | ok st4 =>
            simp only []
            rw [← merge_mapAppend acc m _ v hnd]
            exact ih _ st4 (nodup_mapAppend acc _ v hnd)
          | _ => rfl
        | _ => rfl
      | _ => rfl
    | _ => rfl

/-- a Variant that already holds the map `m`, text = an object: same outcome as `parse`; the parsed members are
    `HashMap::append`ed to `m` in order (a name that `m` already has keeps its place and takes the new value) -/
theorem parseInto_object (m : JMap) (buf : List Byte) (st : St) (hst : readToken 1 buf = .ok st) (h123 : st.tok = 123) :
    parseInto (.map m) buf = match parse buf with
      | .ok v => .ok (mergeInto m v)
      | e => e := by
  unfold parseInto parse
  rw [hst]
  simp only
  have hs : ¬ isScalarTok st.tok = true := by rw [h123]; decide
  have h91 : ¬ st.tok = 91 := by rw [h123]; decide
  unfold parseFuel
  rw [parseValueInto, parseValue]
  simp only [hs, h91, h123, if_true, if_false, initMap, Bool.false_eq_true]
  cases st.next with
  | ok st1 =>
    simp only [Res.bind]
    have := obj_prefix m (2 * buf.length + 3) [] st1 (by simp [mkeys])
    simp only [mergeMap, List.foldl_nil] at this
    rw [this]
    cases objLoop (2 * buf.length + 3) [] st1 <;> rfl
  | _ => rfl

end Nstd.Json
