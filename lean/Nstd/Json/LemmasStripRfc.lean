import Nstd.Json.LemmasStrip
import Nstd.Json.LemmasRfcIn
import Nstd.Json.LemmasRfcNot
/-
  `stripComments` leaves every JSON-text of RFC 8259 unchanged (a `/`, `//` or `/*` can occur in such a
  text only inside a string literal, where the reference scanner copies verbatim, escaped quotes and
  escaped backslashes included).
-/
set_option linter.unusedSimpArgs false
set_option linter.unusedVariables false
namespace Nstd.Json

/-- the scanner in normal mode copies `t` and is in normal mode again behind it; `t` holds no NUL -/
def Q (t : List Byte) : Prop :=
  (∀ rest, stripSpec .normal (t ++ rest) = t ++ stripSpec .normal rest) ∧ 0 ∉ t

theorem Q.append {a b : List Byte} (ha : Q a) (hb : Q b) : Q (a ++ b) := by
  refine ⟨fun rest => ?_, ?_⟩
  · rw [List.append_assoc, ha.1, hb.1, List.append_assoc]
  · intro h; rcases List.mem_append.mp h with h | h
    · exact ha.2 h
    · exact hb.2 h

theorem Q.plain : ∀ seg : List Byte, (∀ x ∈ seg, x ≠ 47 ∧ x ≠ 34 ∧ x ≠ 0) → Q seg := by
  intro seg
  induction seg with
  | nil => intro _; exact ⟨fun _ => rfl, by simp⟩
  | cons c seg ih =>
    intro h
    obtain ⟨h47, h34, h0⟩ := h c List.mem_cons_self
    obtain ⟨i1, i2⟩ := ih (fun x hx => h x (List.mem_cons_of_mem _ hx))
    refine ⟨fun rest => ?_, ?_⟩
    · rw [List.cons_append, stripSpec_normal]; simp only [h47, h34, if_false]; rw [i1]; rfl
    · intro hm; rcases List.mem_cons.mp hm with hm | hm
      · exact h0 hm.symm
      · exact i2 hm

theorem Q.ws {a : List Byte} (h : Rfc.Ws a) : Q a :=
  Q.plain a (fun x hx => by have := h x hx; unfold Rfc.isWs at this; omega)

theorem strip_chars {body : List Byte} {is : List Rfc.Item} (h : Rfc.Chars body is) :
    ∀ rest, stripSpec .string (body ++ 34 :: rest) = body ++ 34 :: stripSpec .normal rest := by
  induction h with
  | nil => intro rest; rw [List.nil_append, stripSpec_string]; simp
  | cons hc hr ih =>
    intro rest
    have plain : ∀ (c : Byte) (X : List Byte), c ≠ 92 → c ≠ 34 →
        stripSpec .string (c :: X) = c :: stripSpec .string X := by
      intro c X h1 h2; rw [stripSpec_string]; simp [h1, h2]
    have pair : ∀ (e : Byte) (X : List Byte), stripSpec .string (92 :: e :: X) = 92 :: e :: stripSpec .string X := by
      intro e X; rw [stripSpec_string]; simp
    cases hc with
    | unescaped c h32 h34 h92 => simp only [List.cons_append, List.nil_append]; rw [plain c _ h92 h34, ih]
    | u a b c d ha hb hc hd =>
      have na := Rfc.hex_ne ha; have nb := Rfc.hex_ne hb; have nc := Rfc.hex_ne hc; have nd := Rfc.hex_ne hd
      simp only [List.cons_append, List.nil_append]
      rw [pair, plain a _ na.1 na.2.2, plain b _ nb.1 nb.2.2, plain c _ nc.1 nc.2.2, plain d _ nd.1 nd.2.2, ih]
    | _ => simp only [List.cons_append, List.nil_append]; rw [pair, ih]

theorem Q.str {t : List Byte} {s : List Rfc.Item} (h : Rfc.Str t s) : Q t := by
  cases h with
  | mk hch =>
    rename_i body
    refine ⟨fun rest => ?_, ?_⟩
    · simp only [List.cons_append, List.append_assoc, List.nil_append]
      rw [stripSpec_normal]; simp only [(by decide : (34:Nat) ≠ 47), if_false, if_true]
      rw [strip_chars hch]
    · have hall := (Rfc.chars_ok hch).2.1
      intro hm
      simp only [List.cons_append, List.mem_cons, List.mem_append, List.not_mem_nil, or_false] at hm
      rcases hm with hm | hm | hm
      · cases hm
      · have := List.all_eq_true.mp hall 0 hm; simp at this
      · cases hm

theorem Q.num {t : List Byte} (h : Rfc.Number t) : Q t :=
  Q.plain t (fun x hx => by
    have := (number_chars h).1 x hx
    unfold NumCh at this
    rcases this with e | e | e | e | e | e
    · omega
    · omega
    · omega
    · omega
    · omega
    · simp [isDigit] at e; omega)

theorem Q.one (c : Byte) (h : c ≠ 47 ∧ c ≠ 34 ∧ c ≠ 0) : Q [c] :=
  Q.plain [c] (fun x hx => by simp at hx; subst hx; exact h)

theorem strip_G {k : Rfc.Kind} {t : List Byte} {tr : Rfc.Tree} (h : Rfc.G k t tr) : Q t := by
  induction h with
  | null => exact Q.plain _ (by intro x hx; simp at hx; omega)
  | true_ => exact Q.plain _ (by intro x hx; simp at hx; omega)
  | false_ => exact Q.plain _ (by intro x hx; simp at hx; omega)
  | num hn => exact Q.num hn
  | str hs => exact Q.str hs
  | @arrEmpty w hw =>
    have := ((Q.one 91 (by omega)).append (Q.ws hw)).append (Q.one 93 (by omega))
    simpa using this
  | @arr t l he ih =>
    have := ((Q.one 91 (by omega)).append ih).append (Q.one 93 (by omega))
    simpa using this
  | @objEmpty w hw =>
    have := ((Q.one 123 (by omega)).append (Q.ws hw)).append (Q.one 125 (by omega))
    simpa using this
  | @obj t m he ih =>
    have := ((Q.one 123 (by omega)).append ih).append (Q.one 125 (by omega))
    simpa using this
  | @elemsOne a v b tv ha hv hb ihv => exact ((Q.ws ha).append ihv).append (Q.ws hb)
  | @elemsCons a v b r tv l ha hv hb hr ihv ihr =>
    have := ((((Q.ws ha).append ihv).append (Q.ws hb)).append (Q.one 44 (by omega))).append ihr
    simpa using this
  | @memOne a k b c v d ks tv ha hk hb hc hv hd ihv =>
    have := ((((Q.ws ha).append (Q.str hk)).append (Q.ws hb)).append (Q.one 58 (by omega))).append
      (((Q.ws hc).append ihv).append (Q.ws hd))
    simpa using this
  | @memCons a k b c v d r ks tv m ha hk hb hc hv hd hr ihv ihr =>
    have := ((((((Q.ws ha).append (Q.str hk)).append (Q.ws hb)).append (Q.one 58 (by omega))).append
      (((Q.ws hc).append ihv).append (Q.ws hd))).append (Q.one 44 (by omega))).append ihr
    simpa using this

theorem strip_text {t : List Byte} {tr : Rfc.Tree} (h : Rfc.Text t tr) : stripSpec .normal t = t ∧ 0 ∉ t := by
  obtain ⟨a, v, b, ha, hv, hb, ht⟩ := h
  subst ht
  have q := ((Q.ws ha).append (strip_G hv)).append (Q.ws hb)
  have := q.1 []
  simp only [List.append_nil] at this
  exact ⟨by simpa [stripSpec] using this, q.2⟩

end Nstd.Json

/-! ### declarative specification of comment stripping -/
namespace Nstd.Json

/-- no `*/` inside -/
def noClose : List Byte → Bool
  | [] => true
  | [_] => true
  | c :: d :: r => !(c == 42 && d == 47) && noClose (d :: r)

/-- the inside of a string literal as `stripComments` sees it: `\x` pairs (any `x`) and bytes other than
    the quote and the backslash -/
inductive StrBody : List Byte → Prop
  | nil : StrBody []
  | esc (e : Byte) {r : List Byte} : StrBody r → StrBody (92 :: e :: r)
  | plain (c : Byte) {r : List Byte} : c ≠ 92 → c ≠ 34 → StrBody r → StrBody (c :: r)

/-- `Stripped t t'`: `t'` is `t` without its comments.  Outside string literals `//` up to (not including) the
    next CR or LF and `/*` up to the next `*/` are comments; of a block comment only the CR/LF bytes stay; string
    literals are copied verbatim; a comment or literal that is not closed extends to the end of the text. -/
inductive Stripped : List Byte → List Byte → Prop
  | nil : Stripped [] []
  | plain (c : Byte) {r r' : List Byte} : c ≠ 47 → c ≠ 34 → Stripped r r' → Stripped (c :: r) (c :: r')
  | slash (d : Byte) {r r' : List Byte} : d ≠ 47 → d ≠ 42 → Stripped (d :: r) r' → Stripped (47 :: d :: r) (47 :: r')
  | slashEnd : Stripped [47] [47]
  | str {body r r' : List Byte} : StrBody body → Stripped r r' → Stripped (34 :: body ++ 34 :: r) (34 :: body ++ 34 :: r')
  | strOpen {body : List Byte} : StrBody body → Stripped (34 :: body) (34 :: body)
  | strOpenBs {body : List Byte} : StrBody body → Stripped (34 :: body ++ [92]) (34 :: body ++ [92])
  | line (cs : List Byte) (e : Byte) {r r' : List Byte} : (∀ x ∈ cs, x ≠ 13 ∧ x ≠ 10) → (e = 13 ∨ e = 10) → Stripped r r' →
      Stripped (47 :: 47 :: cs ++ e :: r) (e :: r')
  | lineOpen (cs : List Byte) : (∀ x ∈ cs, x ≠ 13 ∧ x ≠ 10) → Stripped (47 :: 47 :: cs) []
  | block (cs : List Byte) {r r' : List Byte} : noClose cs = true → Stripped r r' →
      Stripped (47 :: 42 :: cs ++ 42 :: 47 :: r) (cs.filter isBreak ++ r')
  | blockOpen (cs : List Byte) : noClose (cs ++ [0]) = true → Stripped (47 :: 42 :: cs) (cs.filter isBreak)

theorem strip_line : ∀ (cs : List Byte), (∀ x ∈ cs, x ≠ 13 ∧ x ≠ 10) →
    (∀ (e : Byte) (rest : List Byte), (e = 13 ∨ e = 10) → stripSpec .line (cs ++ e :: rest) = e :: stripSpec .normal rest) ∧
    stripSpec .line cs = [] := by
  intro cs
  induction cs with
  | nil =>
    intro _
    exact ⟨fun e rest he => by rw [List.nil_append, stripSpec_line]; simp [he], rfl⟩
  | cons c cs ih =>
    intro h
    have hc := h c List.mem_cons_self
    have hn : ¬(c = 13 ∨ c = 10) := by omega
    obtain ⟨i1, i2⟩ := ih (fun x hx => h x (List.mem_cons_of_mem _ hx))
    exact ⟨fun e rest he => by rw [List.cons_append, stripSpec_line, if_neg hn]; exact i1 e rest he,
      by rw [stripSpec_line, if_neg hn]; exact i2⟩

theorem isBreak_iff (c : Byte) : isBreak c = true ↔ (c = 13 ∨ c = 10) := by
  simp [isBreak]; omega

theorem strip_block : ∀ (cs : List Byte), noClose cs = true → ∀ rest,
    stripSpec .block (cs ++ 42 :: 47 :: rest) = cs.filter isBreak ++ stripSpec .normal rest := by
  intro cs
  induction cs with
  | nil => intro _ rest; rw [List.nil_append, stripSpec_block]; simp
  | cons c cs ih =>
    intro h rest
    have hcs : noClose cs = true := by
      cases cs with
      | nil => rfl
      | cons d cs' => simp [noClose] at h; exact h.2
    have IH := ih hcs rest
    rw [List.cons_append, stripSpec_block]
    by_cases h42 : c = 42
    · subst h42
      have hnb : isBreak 42 = false := by decide
      simp only [if_true, List.filter_cons, hnb]
      cases cs with
      | nil => simp only [List.nil_append, (by decide : (42:Nat) ≠ 47), if_false] ; exact IH
      | cons d cs' =>
        have hd : d ≠ 47 := by simp [noClose] at h; exact h.1
        simp only [List.cons_append, hd, if_false]; exact IH
    · simp only [h42, if_false]
      by_cases hb : c = 13 ∨ c = 10
      · have : isBreak c = true := (isBreak_iff c).mpr hb
        simp only [hb, if_true, List.filter_cons, this, List.cons_append]; rw [IH]
      · have : isBreak c = false := by
          cases hq : isBreak c with
          | false => rfl
          | true => exact absurd ((isBreak_iff c).mp hq) hb
        simp only [hb, if_false, List.filter_cons, this]; exact IH

theorem strip_block_open : ∀ (cs : List Byte), noClose (cs ++ [0]) = true → stripSpec .block cs = cs.filter isBreak := by
  intro cs
  induction cs with
  | nil => intro _; rfl
  | cons c cs ih =>
    intro h
    have hcs : noClose (cs ++ [0]) = true := by
      cases cs with
      | nil => rfl
      | cons d cs' => simp [noClose] at h; exact h.2
    have IH := ih hcs
    rw [stripSpec_block]
    by_cases h42 : c = 42
    · subst h42
      have hnb : isBreak 42 = false := by decide
      simp only [if_true, List.filter_cons, hnb]
      cases cs with
      | nil => rfl
      | cons d cs' =>
        have hd : d ≠ 47 := by simp [noClose] at h; exact h.1
        simp only [hd, if_false]; exact IH
    · simp only [h42, if_false]
      by_cases hb : c = 13 ∨ c = 10
      · have : isBreak c = true := (isBreak_iff c).mpr hb
        simp only [hb, if_true, List.filter_cons, this]; rw [IH]
      · have : isBreak c = false := by
          cases hq : isBreak c with
          | false => rfl
          | true => exact absurd ((isBreak_iff c).mp hq) hb
        simp only [hb, if_false, List.filter_cons, this]; exact IH

theorem strip_body {body : List Byte} (h : StrBody body) :
    (∀ rest, stripSpec .string (body ++ 34 :: rest) = body ++ 34 :: stripSpec .normal rest) ∧
    stripSpec .string body = body ∧ stripSpec .string (body ++ [92]) = body ++ [92] := by
  induction h with
  | nil => exact ⟨fun rest => by rw [List.nil_append, stripSpec_string]; simp, rfl, by rfl⟩
  | esc e hr ih =>
    obtain ⟨i1, i2, i3⟩ := ih
    refine ⟨fun rest => ?_, ?_, ?_⟩
    · simp only [List.cons_append]; rw [stripSpec_string]; simp only [if_true]; rw [i1]
    · rw [stripSpec_string]; simp only [if_true]; rw [i2]
    · simp only [List.cons_append]; rw [stripSpec_string]; simp only [if_true]; rw [i3]
  | plain c h92 h34 hr ih =>
    obtain ⟨i1, i2, i3⟩ := ih
    refine ⟨fun rest => ?_, ?_, ?_⟩
    · simp only [List.cons_append]; rw [stripSpec_string]; simp only [h92, h34, if_false]; rw [i1]
    · rw [stripSpec_string]; simp only [h92, h34, if_false]; rw [i2]
    · simp only [List.cons_append]; rw [stripSpec_string]; simp only [h92, h34, if_false]; rw [i3]

/-- the reference scanner computes the declarative relation -/
theorem stripped_spec {t t' : List Byte} (h : Stripped t t') : stripSpec .normal t = t' := by
  induction h with
  | nil => rfl
  | plain c h47 h34 hr ih => rw [stripSpec_normal]; simp only [h47, h34, if_false]; rw [ih]
  | slash d h47 h42 hr ih => rw [stripSpec_normal]; simp only [if_true, h47, h42, if_false]; rw [ih]
  | slashEnd => rfl
  | str hb hr ih =>
    rw [List.cons_append, stripSpec_normal]; simp only [(by decide : (34:Nat) ≠ 47), if_false, if_true]
    rw [(strip_body hb).1, ih]; rfl
  | strOpen hb =>
    rw [stripSpec_normal]; simp only [(by decide : (34:Nat) ≠ 47), if_false, if_true]; rw [(strip_body hb).2.1]
  | strOpenBs hb =>
    rw [List.cons_append, stripSpec_normal]; simp only [(by decide : (34:Nat) ≠ 47), if_false, if_true]
    rw [(strip_body hb).2.2]
  | line cs e hcs he hr ih =>
    simp only [List.cons_append]
    rw [stripSpec_normal]; simp only [if_true]
    rw [(strip_line cs hcs).1 e _ he, ih]
  | lineOpen cs hcs => rw [stripSpec_normal]; simp only [if_true]; exact (strip_line cs hcs).2
  | block cs hcs hr ih =>
    simp only [List.cons_append]
    rw [stripSpec_normal]; simp only [if_true, (by decide : (42:Nat) ≠ 47), if_false]
    rw [strip_block cs hcs, ih]
  | blockOpen cs hcs =>
    rw [stripSpec_normal]; simp only [if_true, (by decide : (42:Nat) ≠ 47), if_false]
    exact strip_block_open cs hcs

end Nstd.Json
