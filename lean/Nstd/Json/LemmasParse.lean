import Nstd.Json.Spec
import Nstd.Json.LemmasTables
/-
  Invariant of the tokenizer / parser: the cursor is a suffix of the buffer that still holds
  the NUL, the line counter equals the number of separators passed, the cursor never sits
  between a CR and its LF.  Everything C15 says about safety follows from it.
-/
set_option linter.unusedSimpArgs false
set_option linter.unusedVariables false
namespace Nstd.Json

/-- `(line, r)` is a consistent position inside `buf` -/
def Pos (buf : List Byte) (line : Nat) (r : List Byte) : Prop :=
  ∃ p : List Byte, buf = p.reverse ++ r ∧ 0 ∈ r ∧ 0 ∉ p ∧ line = 1 + breaksR p ∧
    ¬(p.head? = some 13 ∧ r.head? = some 10)

/-- post-condition of a model function: a result, or an error at a consistent position;
    never an out-of-bounds read, never out of fuel -/
def Post {α : Type} (buf : List Byte) (Q : α → Prop) : Res α → Prop
  | .ok a => Q a
  | .fail l p => Pos buf l p
  | .oob => False
  | .nofuel => False

theorem Post_bind {α β : Type} {buf : List Byte} {Q : α → Prop} {Q' : β → Prop} {x : Res α} {k : α → Res β}
    (hx : Post buf Q x) (hk : ∀ a, Q a → Post buf Q' (k a)) : Post buf Q' (x.bind k) := by
  cases x with
  | ok a => exact hk a hx
  | fail l p => exact hx
  | oob => exact hx
  | nofuel => exact hx

theorem Post_mono {α : Type} {buf : List Byte} {Q Q' : α → Prop} {x : Res α}
    (hx : Post buf Q x) (h : ∀ a, Q a → Q' a) : Post buf Q' x := by
  cases x with
  | ok a => exact h a hx
  | fail l p => exact hx
  | oob => exact hx
  | nofuel => exact hx

theorem breaksR_cons (c : Byte) (p : List Byte) :
    breaksR (c :: p) =
      if c = 13 then 1 + breaksR p
      else if c = 10 then (if p.head? = some 13 then breaksR p else 1 + breaksR p)
      else breaksR p := rfl

theorem Pos.mem {buf : List Byte} {line : Nat} {r : List Byte} (h : Pos buf line r) : 0 ∈ r := by
  obtain ⟨p, _, h0, _⟩ := h; exact h0

theorem Pos.ne_nil {buf : List Byte} {line : Nat} {r : List Byte} (h : Pos buf line r) : r ≠ [] := by
  intro e; have := h.mem; rw [e] at this; cases this

theorem mem_tail_of_ne {c : Byte} {r : List Byte} (h : 0 ∈ c :: r) (hc : c ≠ 0) : 0 ∈ r := by
  rcases List.mem_cons.mp h with h | h
  · exact absurd h.symm hc
  · exact h

/-- step over an ordinary byte -/
theorem Pos.step {buf : List Byte} {line : Nat} {c : Byte} {r : List Byte}
    (h : Pos buf line (c :: r)) (h0 : c ≠ 0) (h10 : c ≠ 10) (h13 : c ≠ 13) : Pos buf line r := by
  obtain ⟨p, hb, hm, hp, hl, _⟩ := h
  refine ⟨c :: p, by simp [hb], mem_tail_of_ne hm h0, ?_, ?_, ?_⟩
  · simp [hp, Ne.symm h0]
  · simp [breaksR_cons, h10, h13, hl]
  · simp [h13]

/-- step over an LF -/
theorem Pos.lf {buf : List Byte} {line : Nat} {r : List Byte}
    (h : Pos buf line (10 :: r)) : Pos buf (line + 1) r := by
  obtain ⟨p, hb, hm, hp, hl, hc⟩ := h
  have hh : ¬ p.head? = some 13 := fun e => hc ⟨e, rfl⟩
  refine ⟨10 :: p, by simp [hb], mem_tail_of_ne hm (by decide), ?_, ?_, ?_⟩
  · simp [hp]
  · simp [breaksR_cons, hh, hl]; omega
  · simp

/-- step over a lone CR -/
theorem Pos.cr {buf : List Byte} {line : Nat} {d : Byte} {r : List Byte}
    (h : Pos buf line (13 :: d :: r)) (hd : d ≠ 10) : Pos buf (line + 1) (d :: r) := by
  obtain ⟨p, hb, hm, hp, hl, _⟩ := h
  refine ⟨13 :: p, by simp [hb], mem_tail_of_ne hm (by decide), ?_, ?_, ?_⟩
  · simp [hp]
  · simp [breaksR_cons, hl]; omega
  · simp [hd]

/-- step over CR LF -/
theorem Pos.crlf {buf : List Byte} {line : Nat} {r : List Byte}
    (h : Pos buf line (13 :: 10 :: r)) : Pos buf (line + 1) r := by
  obtain ⟨p, hb, hm, hp, hl, _⟩ := h
  refine ⟨10 :: 13 :: p, by simp [hb], mem_tail_of_ne (mem_tail_of_ne hm (by decide)) (by decide), ?_, ?_, ?_⟩
  · simp [hp]
  · simp [breaksR_cons, hl]; omega
  · simp

theorem isSpace_ne_zero {c : Byte} (h : isSpace c = true) : c ≠ 0 := by
  intro e; subst e; simp [isSpace] at h

theorem skipSpace_cons (line : Nat) (c : Byte) (r : List Byte) :
    skipSpace line (c :: r) =
      if c = 13 then
        match r with
        | [] => .oob
        | d :: r' => if d = 10 then skipSpace (line + 1) r' else skipSpace (line + 1) (d :: r')
      else if c = 10 then skipSpace (line + 1) r
      else if isSpace c then skipSpace line r
      else .ok (line, c :: r) := by
  cases r <;> simp [skipSpace]

theorem skipSpace_post (buf : List Byte) : ∀ (n : Nat) (r : List Byte) (line : Nat), r.length ≤ n →
    Pos buf line r →
    Post buf (fun x => Pos buf x.1 x.2 ∧ x.2.length ≤ r.length) (skipSpace line r) := by
  intro n
  induction n with
  | zero =>
    intro r line hl h
    cases r with
    | nil => exact absurd rfl h.ne_nil
    | cons c r => simp at hl
  | succ n ih =>
    intro r line hl h
    cases r with
    | nil => exact absurd rfl h.ne_nil
    | cons c r =>
      simp only [List.length_cons] at hl
      by_cases h13 : c = 13
      · subst h13
        cases r with
        | nil => have := mem_tail_of_ne h.mem (by decide); cases this
        | cons d r' =>
          simp only [List.length_cons] at hl
          by_cases hd : d = 10
          · subst hd
            have := ih r' (line + 1) (by omega) h.crlf
            simp only [skipSpace, if_true]
            exact Post_mono this (fun a ha => ⟨ha.1, by simp only [List.length_cons]; omega⟩)
          · have := ih (d :: r') (line + 1) (by simp only [List.length_cons]; omega) (h.cr hd)
            simp only [skipSpace, if_true, hd, if_false]
            exact Post_mono this (fun a ha => ⟨ha.1, by have := ha.2; simp only [List.length_cons] at *; omega⟩)
      · by_cases h10 : c = 10
        · subst h10
          have := ih r (line + 1) (by omega) h.lf
          rw [skipSpace_cons]; simp only [h13, if_false, if_true]
          exact Post_mono this (fun a ha => ⟨ha.1, by simp only [List.length_cons]; omega⟩)
        · by_cases hs : isSpace c = true
          · have := ih r line (by omega) (h.step (isSpace_ne_zero hs) h10 h13)
            rw [skipSpace_cons]; simp only [h13, h10, if_false, hs, if_true]
            exact Post_mono this (fun a ha => ⟨ha.1, by simp only [List.length_cons]; omega⟩)
          · rw [skipSpace_cons]; simp only [h13, h10, if_false, hs]
            exact ⟨h, Nat.le_refl _⟩

theorem isDigit_ne {c : Byte} (h : isDigit c = true) : c ≠ 0 ∧ c ≠ 10 ∧ c ≠ 13 := by
  simp [isDigit] at h; omega

theorem isHexDigit_ne {c : Byte} (h : isHexDigit c = true) : c ≠ 0 ∧ c ≠ 10 ∧ c ≠ 13 := by
  simp [isHexDigit, isDigit] at h; omega

theorem hex4_post (buf : List Byte) (line : Nat) : ∀ (n : Nat) (k r : List Byte), Pos buf line r →
    Post buf (fun x => Pos buf line x.2 ∧ x.2.length ≤ r.length) (hex4 line n k r) := by
  intro n
  induction n with
  | zero => intro k r h; exact ⟨h, Nat.le_refl _⟩
  | succ n ih =>
    intro k r h
    cases r with
    | nil => exact absurd rfl h.ne_nil
    | cons c r =>
      by_cases hx : isHexDigit c = true
      · obtain ⟨h0, h10, h13⟩ := isHexDigit_ne hx
        have := ih (k ++ [c]) r (h.step h0 h10 h13)
        simp only [hex4, hx, if_true]
        exact Post_mono this (fun a ha => ⟨ha.1, by simp only [List.length_cons]; omega⟩)
      · simp only [hex4, hx]
        exact h

/-- the literal is free of NUL, CR, LF -/
def PlainLit (lit : List Byte) : Prop := ∀ c ∈ lit, c ≠ 0 ∧ c ≠ 10 ∧ c ≠ 13

theorem litMatch_post (buf : List Byte) (line : Nat) : ∀ (lit r : List Byte), PlainLit lit → Pos buf line r →
    Post buf (fun m => ∀ r', m = some r' → Pos buf line r' ∧ r'.length + lit.length = r.length) (litMatch lit r) := by
  intro lit
  induction lit with
  | nil => intro r _ h r' e; simp [] at e; subst e; exact ⟨h, by simp⟩
  | cons l ls ih =>
    intro r hp h
    cases r with
    | nil => exact absurd rfl h.ne_nil
    | cons c r =>
      by_cases hc : c = l
      · subst hc
        obtain ⟨h0, h10, h13⟩ := hp c (List.mem_cons_self)
        have := ih r (fun x hx => hp x (List.mem_cons_of_mem _ hx)) (h.step h0 h10 h13)
        simp only [litMatch, if_true]
        exact Post_mono this (fun m hm r' e => ⟨(hm r' e).1, by have := (hm r' e).2; simp only [List.length_cons]; omega⟩)
      · simp only [litMatch, hc, if_false]
        intro r' e; cases e

theorem numLoop_post (buf : List Byte) (line : Nat) : ∀ (r n : List Byte) (dbl : Bool), Pos buf line r →
    Post buf (fun x => Pos buf line x.2.2 ∧ x.2.2.length ≤ r.length) (numLoop n dbl r) := by
  intro r
  induction r with
  | nil => intro n dbl h; exact absurd rfl h.ne_nil
  | cons c r ih =>
    intro n dbl h
    by_cases h1 : c = 69 ∨ c = 101 ∨ c = 45 ∨ c = 43
    · have hne : c ≠ 0 ∧ c ≠ 10 ∧ c ≠ 13 := by omega
      have := ih (n ++ [c]) dbl (h.step hne.1 hne.2.1 hne.2.2)
      simp only [numLoop, h1, if_true]
      exact Post_mono this (fun a ha => ⟨ha.1, by simp only [List.length_cons]; omega⟩)
    · by_cases h2 : c = 46
      · have hne : c ≠ 0 ∧ c ≠ 10 ∧ c ≠ 13 := by omega
        have := ih (n ++ [c]) true (h.step hne.1 hne.2.1 hne.2.2)
        rw [numLoop, if_neg h1, if_pos h2]
        exact Post_mono this (fun a ha => ⟨ha.1, by simp only [List.length_cons]; omega⟩)
      · by_cases h3 : isDigit c = true
        · have hne := isDigit_ne h3
          have := ih (n ++ [c]) dbl (h.step hne.1 hne.2.1 hne.2.2)
          simp only [numLoop, h1, h2, h3, if_true, if_false]
          exact Post_mono this (fun a ha => ⟨ha.1, by simp only [List.length_cons]; omega⟩)
        · simp only [numLoop, h1, h2, h3, if_false]
          exact ⟨h, Nat.le_refl _⟩

theorem readStr_cons (f line : Nat) (acc : List Byte) (c : Byte) (r : List Byte) :
    readStr (f + 1) line acc (c :: r) =
    if c = 0 then .fail line (c :: r)
    else if c = 13 then
      match r with
      | [] => .oob
      | d :: r' =>
        if d = 10 then readStr f (line + 1) (acc ++ [13, 10]) r'
        else readStr f (line + 1) (acc ++ [13]) (d :: r')
    else if c = 10 then readStr f (line + 1) (acc ++ [10]) r
    else if c = 92 then
      match r with
      | [] => .oob
      | e :: r' =>
        match unesc e with
        | some b => readStr f line (acc ++ [b]) r'
        | none =>
        if e = 117 then
          (hex4 line 4 [] r').bind fun (k, r2) =>
            let w1 := scanHex k
            if w1 &&& 0xF800 = 0xD800 ∧ w1 &&& 0xFC00 = 0xD800 then
              match r2 with
              | [] => .oob
              | b1 :: r3 =>
                if b1 ≠ 92 then .fail line r2
                else
                  match r3 with
                  | [] => .oob
                  | b2 :: r4 =>
                    if b2 ≠ 117 then .fail line r2
                    else
                      (hex4 line 4 [] r4).bind fun (k2, r5) =>
                        let w2 := scanHex k2
                        if w2 &&& 0xFC00 ≠ 0xDC00 then .fail line r2
                        else readStr f line (acc ++ utf8 (((w2 &&& 0x3FF) ||| ((w1 &&& 0x3FF) <<< 10)) + 0x10000)) r5
            else readStr f line (acc ++ utf8 w1) r2
        else readStr f line (acc ++ [92]) (e :: r')
    else if c = 34 then .ok (line, acc, r)
    else readStr f line (acc ++ [c]) r := by
  cases r <;> rfl

theorem Post_lt {buf : List Byte} {n m : Nat} {x : Res (Nat × List Byte × List Byte)}
    (h : Post buf (fun x => Pos buf x.1 x.2.2 ∧ x.2.2.length < n) x) (hl : n ≤ m) :
    Post buf (fun x => Pos buf x.1 x.2.2 ∧ x.2.2.length < m) x :=
  Post_mono h (fun _ ha => ⟨ha.1, Nat.lt_of_lt_of_le ha.2 hl⟩)

theorem readStr_post (buf : List Byte) : ∀ (f line : Nat) (acc r : List Byte), r.length ≤ f → Pos buf line r →
    Post buf (fun x => Pos buf x.1 x.2.2 ∧ x.2.2.length < r.length) (readStr f line acc r) := by
  intro f
  induction f with
  | zero =>
    intro line acc r hl h
    cases r with
    | nil => exact absurd rfl h.ne_nil
    | cons c r => simp at hl
  | succ f ih =>
    intro line acc r hl h
    cases r with
    | nil => exact absurd rfl h.ne_nil
    | cons c r =>
      simp only [List.length_cons] at hl
      rw [readStr_cons]
      by_cases h0 : c = 0
      · rw [if_pos h0]; exact h
      rw [if_neg h0]
      by_cases h13 : c = 13
      · rw [if_pos h13]; subst h13
        cases r with
        | nil => have := mem_tail_of_ne h.mem (by decide); cases this
        | cons d r' =>
          simp only [List.length_cons] at hl
          by_cases hd : d = 10
          · subst hd
            simp only [if_true]
            exact Post_lt (ih _ _ r' (by omega) h.crlf) (by simp only [List.length_cons]; omega)
          · simp only [hd, if_false]
            exact Post_lt (ih _ _ (d :: r') (by simp only [List.length_cons]; omega) (h.cr hd))
              (by simp only [List.length_cons]; omega)
      rw [if_neg h13]
      by_cases h10 : c = 10
      · rw [if_pos h10]; subst h10
        exact Post_lt (ih _ _ r (by omega) h.lf) (by simp only [List.length_cons]; omega)
      rw [if_neg h10]
      have hr : Pos buf line r := h.step h0 h10 h13
      by_cases h92 : c = 92
      · rw [if_pos h92]
        cases r with
        | nil => exact absurd rfl hr.ne_nil
        | cons e r' =>
          simp only [List.length_cons] at hl
          have hlen : r'.length < (c :: e :: r').length := by simp only [List.length_cons]; omega
          have simple : ∀ (a : List Byte), e ≠ 0 → e ≠ 10 → e ≠ 13 →
              Post buf (fun x => Pos buf x.1 x.2.2 ∧ x.2.2.length < (c :: e :: r').length) (readStr f line a r') :=
            fun a e0 e10 e13 => Post_lt (ih _ a r' (by omega) (hr.step e0 e10 e13)) (Nat.le_of_lt hlen)
          cases hu : unesc e with
          | some b =>
            simp only [hu]
            obtain ⟨u0, u10, u13, _⟩ := unesc_plain hu
            exact simple _ u0 u10 u13
          | none =>
          simp only [hu]
          by_cases e7 : e = 117
          · simp only [e7, if_true]; subst e7
            have hr' : Pos buf line r' := hr.step (by decide) (by decide) (by decide)
            refine Post_bind (hex4_post buf line 4 [] r' hr') ?_
            intro ⟨k, r2⟩ ⟨hp2, hl2⟩
            simp only at hp2 hl2 ⊢
            by_cases hs : scanHex k &&& 0xF800 = 0xD800 ∧ scanHex k &&& 0xFC00 = 0xD800
            · simp only [hs, and_self, if_true]
              cases r2 with
              | nil => exact absurd rfl hp2.ne_nil
              | cons b1 r3 =>
                by_cases hb1 : b1 = 92
                · subst hb1
                  simp only [ne_eq, not_true_eq_false, if_false]
                  have hp3 : Pos buf line r3 := hp2.step (by decide) (by decide) (by decide)
                  cases r3 with
                  | nil => exact absurd rfl hp3.ne_nil
                  | cons b2 r4 =>
                    by_cases hb2 : b2 = 117
                    · subst hb2
                      simp only [ne_eq, not_true_eq_false, if_false]
                      have hp4 : Pos buf line r4 := hp3.step (by decide) (by decide) (by decide)
                      refine Post_bind (hex4_post buf line 4 [] r4 hp4) ?_
                      intro ⟨k2, r5⟩ ⟨hp5, hl5⟩
                      simp only at hp5 hl5 ⊢
                      by_cases hw : scanHex k2 &&& 0xFC00 ≠ 0xDC00
                      · simp only [hw]; exact hp2
                      · simp only [hw, if_false]
                        simp only [List.length_cons] at hl2 hl5
                        exact Post_lt (ih _ _ r5 (by omega) hp5) (by simp only [List.length_cons]; omega)
                    · simp only [ne_eq, hb2, not_false_eq_true, if_true]; exact hp2
                · simp only [ne_eq, hb1, not_false_eq_true, if_true]; exact hp2
            · simp only [hs, if_false]
              exact Post_lt (ih _ _ r2 (by omega) hp2) (by simp only [List.length_cons]; omega)
          · simp only [e7, if_false]
            exact Post_lt (ih _ _ (e :: r') (by simp only [List.length_cons]; omega) hr)
              (by simp only [List.length_cons]; omega)
      rw [if_neg h92]
      by_cases h34 : c = 34
      · rw [if_pos h34]
        exact ⟨hr, by simp only [List.length_cons]; omega⟩
      rw [if_neg h34]
      exact Post_lt (ih _ _ r (by omega) hr) (by simp only [List.length_cons]; omega)

/-- what a successfully read token guarantees, relative to the cursor it was read from -/
def TokPost (buf : List Byte) (n : Nat) (st : St) : Prop :=
  Pos buf st.line st.r ∧ st.r.length ≤ n ∧ (st.tok ≠ 0 → st.r.length < n)

theorem plain_true : PlainLit [116, 114, 117, 101] := by intro c hc; simp at hc; omega
theorem plain_false : PlainLit [102, 97, 108, 115, 101] := by intro c hc; simp at hc; omega
theorem plain_null : PlainLit [110, 117, 108, 108] := by intro c hc; simp at hc; omega

theorem lit_case (buf : List Byte) (line : Nat) (lit : List Byte) (c : Byte) (r' : List Byte) (n : Nat)
    (t : Byte) (v : Val) (ht : t ≠ 0)
    (hlit : PlainLit lit) (hne : lit ≠ []) (h : Pos buf line (c :: r')) (hn : (c :: r').length ≤ n) :
    Post buf (TokPost buf n)
      ((litMatch lit (c :: r')).bind fun m =>
        match m with
        | some r'' => .ok ⟨t, v, line, r''⟩
        | none => .fail line (c :: r')) := by
  refine Post_bind (litMatch_post buf line lit (c :: r') hlit h) ?_
  intro m hm
  cases m with
  | none => exact h
  | some r'' =>
    obtain ⟨hp, hl⟩ := hm r'' rfl
    have : 0 < lit.length := by cases lit with | nil => exact absurd rfl hne | cons _ _ => simp
    exact ⟨hp, by simp only; omega, fun _ => by simp only; omega⟩

theorem readToken_post (buf : List Byte) (line : Nat) (r : List Byte) (h : Pos buf line r) :
    Post buf (TokPost buf r.length) (readToken line r) := by
  unfold readToken
  refine Post_bind (skipSpace_post buf r.length r line (Nat.le_refl _) h) ?_
  intro ⟨line1, r1⟩ ⟨hp, hl⟩
  simp only at hp hl ⊢
  cases r1 with
  | nil => exact absurd rfl hp.ne_nil
  | cons c r' =>
    simp only [List.length_cons] at hl
    by_cases h0 : c = 0
    · simp only [h0, if_true]
      exact ⟨by rw [← h0]; exact hp, by simp only [List.length_cons]; omega, fun hc => absurd rfl hc⟩
    simp only [h0, if_false]
    by_cases hp1 : c = 123 ∨ c = 125 ∨ c = 91 ∨ c = 93 ∨ c = 44 ∨ c = 58
    · simp only [hp1, if_true]
      exact ⟨hp.step h0 (by omega) (by omega), by simp only; omega, fun _ => by simp only; omega⟩
    simp only [hp1, if_false]
    by_cases h34 : c = 34
    · simp only [h34, if_true]
      subst h34
      have hr' : Pos buf line1 r' := hp.step (by decide) (by decide) (by decide)
      refine Post_bind (readStr_post buf r'.length line1 [] r' (Nat.le_refl _) hr') ?_
      intro ⟨l2, v, r2⟩ ⟨hp2, hl2⟩
      simp only at hp2 hl2 ⊢
      exact ⟨hp2, by simp only; omega, fun _ => by simp only; omega⟩
    simp only [h34, if_false]
    by_cases h116 : c = 116
    · simp only [h116, if_true]
      exact lit_case buf line1 _ 116 r' r.length 116 _ (by decide) plain_true (by simp) (by rw [← h116]; exact hp)
        (by simp only [List.length_cons]; omega)
    simp only [h116, if_false]
    by_cases h102 : c = 102
    · simp only [h102, if_true]
      exact lit_case buf line1 _ 102 r' r.length 102 _ (by decide) plain_false (by simp) (by rw [← h102]; exact hp)
        (by simp only [List.length_cons]; omega)
    simp only [h102, if_false]
    by_cases h110 : c = 110
    · simp only [h110, if_true]
      exact lit_case buf line1 _ 110 r' r.length 110 _ (by decide) plain_null (by simp) (by rw [← h110]; exact hp)
        (by simp only [List.length_cons]; omega)
    simp only [h110, if_false]
    by_cases hnum : c = 45 ∨ isDigit c = true
    · simp only [hnum, if_true]
      have hne : c ≠ 0 ∧ c ≠ 10 ∧ c ≠ 13 := by
        rcases hnum with hn | hn
        · omega
        · exact isDigit_ne hn
      have hr' : Pos buf line1 r' := hp.step hne.1 hne.2.1 hne.2.2
      have hstep : ∃ d, numLoop [] false (c :: r') = numLoop [c] d r' := by
        rw [numLoop]
        by_cases q1 : c = 69 ∨ c = 101 ∨ c = 45 ∨ c = 43
        · exact ⟨false, by simp [q1]⟩
        · by_cases q2 : c = 46
          · exact ⟨true, by simp [q2]⟩
          · rcases hnum with hn | hn
            · exact absurd (Or.inr (Or.inr (Or.inl hn))) q1
            · exact ⟨false, by simp [q1, q2, hn]⟩
      obtain ⟨d, hd⟩ := hstep
      rw [hd]
      refine Post_bind (numLoop_post buf line1 r' [c] d hr') ?_
      intro ⟨n, dbl, r2⟩ ⟨hp2, hl2⟩
      simp only at hp2 hl2 ⊢
      exact ⟨hp2, by simp only; omega, fun _ => by simp only; omega⟩
    · simp only [hnum, if_false]
      exact hp

/-- bytes left, counting the current (already consumed) token as one -/
def meas (st : St) : Nat := st.r.length + (if st.tok = 0 then 0 else 1)

def StInv (buf : List Byte) (st : St) : Prop := Pos buf st.line st.r

theorem next_post (buf : List Byte) (st : St) (h : StInv buf st) :
    Post buf (fun st' => StInv buf st' ∧ meas st' ≤ st.r.length) st.next := by
  refine Post_mono (readToken_post buf st.line st.r h) ?_
  intro st' ⟨hp, hl, hlt⟩
  refine ⟨hp, ?_⟩
  unfold meas
  by_cases h0 : st'.tok = 0
  · simp only [h0, if_true]; omega
  · simp only [h0, if_false]; have := hlt h0; omega

theorem meas_pos {st : St} (h : st.tok ≠ 0) : meas st = st.r.length + 1 := by
  unfold meas; simp only [h, if_false]

theorem parser_post (buf : List Byte) : ∀ f : Nat,
    (∀ st, StInv buf st → 2 * meas st + 1 ≤ f →
      Post buf (fun x => StInv buf x.2 ∧ meas x.2 < meas st) (parseValue f st)) ∧
    (∀ acc st, StInv buf st → 2 * meas st + 2 ≤ f →
      Post buf (fun x => StInv buf x.2 ∧ meas x.2 < meas st) (arrLoop f acc st)) ∧
    (∀ acc st, StInv buf st → 2 * meas st + 2 ≤ f →
      Post buf (fun x => StInv buf x.2 ∧ meas x.2 < meas st) (objLoop f acc st)) := by
  intro f
  induction f with
  | zero =>
    refine ⟨?_, ?_, ?_⟩
    · intro st _ hf; omega
    · intro acc st _ hf; omega
    · intro acc st _ hf; omega
  | succ f ih =>
    obtain ⟨ihV, ihA, ihO⟩ := ih
    refine ⟨?_, ?_, ?_⟩
    · intro st h hf
      rw [parseValue]
      by_cases hs : isScalarTok st.tok = true
      · have h0 : st.tok ≠ 0 := by intro e; rw [e] at hs; simp [isScalarTok] at hs
        simp only [hs, if_true]
        refine Post_bind (next_post buf st h) ?_
        intro st' ⟨hi, hm⟩
        exact ⟨hi, by rw [meas_pos h0]; simp only; omega⟩
      simp only [hs]
      by_cases h91 : st.tok = 91
      · have h0 : st.tok ≠ 0 := by omega
        simp only [h91, if_true]
        refine Post_bind (next_post buf st h) ?_
        intro st1 ⟨hi, hm⟩
        rw [meas_pos h0] at hf ⊢
        exact Post_mono (ihA [] st1 hi (by omega)) (fun x hx => ⟨hx.1, by omega⟩)
      by_cases h123 : st.tok = 123
      · have h0 : st.tok ≠ 0 := by omega
        simp only [h123, if_true]
        refine Post_bind (next_post buf st h) ?_
        intro st1 ⟨hi, hm⟩
        rw [meas_pos h0] at hf ⊢
        exact Post_mono (ihO [] st1 hi (by omega)) (fun x hx => ⟨hx.1, by omega⟩)
      · simp only [h91, h123, if_false]
        exact h
    · intro acc st h hf
      rw [arrLoop]
      by_cases h93 : st.tok = 93
      · have h0 : st.tok ≠ 0 := by omega
        simp only [h93, if_true]
        refine Post_bind (next_post buf st h) ?_
        intro st' ⟨hi, hm⟩
        exact ⟨hi, by rw [meas_pos h0]; simp only; omega⟩
      simp only [h93, if_false]
      refine Post_bind (ihV st h (by omega)) ?_
      intro ⟨v, st1⟩ ⟨hi1, hm1⟩
      simp only at hi1 hm1 ⊢
      by_cases q93 : st1.tok = 93
      · simp only [q93, if_true]
        refine Post_bind (next_post buf st1 hi1) ?_
        intro st' ⟨hi, hm⟩
        have : st1.r.length ≤ meas st1 := by unfold meas; omega
        exact ⟨hi, by simp only; omega⟩
      simp only [q93, if_false]
      by_cases q44 : st1.tok ≠ 44
      · rw [if_pos q44]; exact hi1
      rw [if_neg q44]
      have q0 : st1.tok ≠ 0 := by omega
      refine Post_bind (next_post buf st1 hi1) ?_
      intro st2 ⟨hi2, hm2⟩
      rw [meas_pos q0] at hm1
      exact Post_mono (ihA (acc ++ [v]) st2 hi2 (by omega)) (fun x hx => ⟨hx.1, by omega⟩)
    · intro acc st h hf
      rw [objLoop]
      by_cases h125 : st.tok = 125
      · have h0 : st.tok ≠ 0 := by omega
        simp only [h125, if_true]
        refine Post_bind (next_post buf st h) ?_
        intro st' ⟨hi, hm⟩
        exact ⟨hi, by rw [meas_pos h0]; simp only; omega⟩
      simp only [h125, if_false]
      by_cases h34 : st.tok ≠ 34
      · rw [if_pos h34]; exact h
      rw [if_neg h34]
      have h0 : st.tok ≠ 0 := by omega
      rw [meas_pos h0] at hf ⊢
      refine Post_bind (next_post buf st h) ?_
      intro st1 ⟨hi1, hm1⟩
      by_cases q58 : st1.tok ≠ 58
      · rw [if_pos q58]; exact hi1
      rw [if_neg q58]
      have q0 : st1.tok ≠ 0 := by omega
      rw [meas_pos q0] at hm1
      refine Post_bind (next_post buf st1 hi1) ?_
      intro st2 ⟨hi2, hm2⟩
      refine Post_bind (ihV st2 hi2 (by omega)) ?_
      intro ⟨v, st3⟩ ⟨hi3, hm3⟩
      simp only at hi3 hm3 ⊢
      by_cases q125 : st3.tok = 125
      · simp only [q125, if_true]
        refine Post_bind (next_post buf st3 hi3) ?_
        intro st' ⟨hi, hm⟩
        have : st3.r.length ≤ meas st3 := by unfold meas; omega
        exact ⟨hi, by simp only; omega⟩
      simp only [q125, if_false]
      by_cases q44 : st3.tok ≠ 44
      · rw [if_pos q44]; exact hi3
      rw [if_neg q44]
      have q0' : st3.tok ≠ 0 := by omega
      refine Post_bind (next_post buf st3 hi3) ?_
      intro st4 ⟨hi4, hm4⟩
      rw [meas_pos q0'] at hm3
      exact Post_mono (ihO _ st4 hi4 (by omega)) (fun x hx => ⟨hx.1, by omega⟩)

theorem Pos.init (buf : List Byte) (h : 0 ∈ buf) : Pos buf 1 buf :=
  ⟨[], by simp, h, by simp, by simp [breaksR], by simp⟩

theorem cstr_append_nf : ∀ (a b : List Byte), 0 ∉ a → cstr (a ++ b) = a ++ cstr b := by
  intro a
  induction a with
  | nil => intro b _; rfl
  | cons c a ih =>
    intro b h
    have hc : c ≠ 0 := fun e => h (by simp [e])
    have ha : 0 ∉ a := fun e => h (List.mem_cons_of_mem _ e)
    simp [cstr, hc, ih b ha]

/-- an error position of the model is the (line, column) of an offset inside the C string -/
theorem Pos.located {buf : List Byte} {l : Nat} {p : List Byte} (h : Pos buf l p) :
    ∃ off, off ≤ (cstr buf).length ∧ l = lineOf (cstr buf) off ∧ column buf p = colOf (cstr buf) off := by
  obtain ⟨q, hb, _, hq, hl, _⟩ := h
  have hq' : 0 ∉ q.reverse := by simpa using hq
  have hc : cstr buf = q.reverse ++ cstr p := by rw [hb]; exact cstr_append_nf _ _ hq'
  refine ⟨q.length, ?_, ?_, ?_⟩
  · rw [hc]; simp
  · rw [hc, hl]; simp [lineOf]
  · rw [hc]
    have : buf.length - p.length = q.reverse.length := by rw [hb]; simp
    unfold column colOf
    rw [this]
    conv => lhs; rw [hb]
    simp [isBreak]

/-- the same, naming the offset: it is the length of the part of the buffer before the cursor -/
theorem Pos.located_at {buf : List Byte} {l : Nat} {p : List Byte} (h : Pos buf l p) :
    ∃ pre, buf = pre ++ p ∧ 0 ∉ pre ∧ 0 ∈ p ∧ pre.length ≤ (cstr buf).length ∧
      l = lineOf (cstr buf) pre.length ∧ column buf p = colOf (cstr buf) pre.length := by
  obtain ⟨q, hb, hp, hq, hl, _⟩ := h
  have hq' : 0 ∉ q.reverse := by simpa using hq
  have hc : cstr buf = q.reverse ++ cstr p := by rw [hb]; exact cstr_append_nf _ _ hq'
  refine ⟨q.reverse, hb, hq', hp, ?_, ?_, ?_⟩
  · rw [hc]; simp
  · rw [hc, hl]; simp [lineOf]
  · rw [hc]
    have : buf.length - p.length = q.reverse.length := by rw [hb]; simp
    unfold column colOf
    rw [this]
    conv => lhs; rw [hb]
    simp [isBreak]

theorem parseRaw_post (buf : List Byte) (h : 0 ∈ buf) : Post buf (fun _ => True) (parseRaw buf) := by
  unfold parseRaw
  refine Post_bind (readToken_post buf 1 buf (Pos.init buf h)) ?_
  intro st ⟨hp, hl, hlt⟩
  have hm : 2 * meas st + 1 ≤ parseFuel buf := by
    unfold meas parseFuel
    by_cases h0 : st.tok = 0
    · simp only [h0, if_true]; omega
    · simp only [h0, if_false]; have := hlt h0; omega
  refine Post_bind ((parser_post buf (parseFuel buf)).1 st hp hm) ?_
  intro x _; trivial

theorem parse_eq_raw (buf : List Byte) :
    parse buf = match parseRaw buf with
      | .ok v => .ok v
      | .fail l p => .err l (column buf p)
      | .oob => .oob
      | .nofuel => .nofuel := by
  unfold parse parseRaw
  cases readToken 1 buf with
  | ok st =>
    simp only [Res.bind]
    cases parseValue (parseFuel buf) st <;> rfl
  | fail l p => rfl
  | oob => rfl
  | nofuel => rfl

/-- everything C15 says about the safety of `parse`, in one statement -/
theorem parse_safe (buf : List Byte) (h : 0 ∈ buf) :
    match parse buf with
    | .ok _ => True
    | .err l c => ∃ off, off ≤ (cstr buf).length ∧ l = lineOf (cstr buf) off ∧ c = colOf (cstr buf) off
    | .oob => False
    | .nofuel => False := by
  unfold parse
  have h1 := readToken_post buf 1 buf (Pos.init buf h)
  cases hr : readToken 1 buf with
  | ok st =>
    rw [hr] at h1
    obtain ⟨hp, hl, hlt⟩ := h1
    have hm : meas st ≤ buf.length := by
      unfold meas
      by_cases h0 : st.tok = 0
      · simp only [h0, if_true]; omega
      · simp only [h0, if_false]; have := hlt h0; omega
    have h2 := (parser_post buf (parseFuel buf)).1 st hp (by unfold parseFuel; omega)
    simp only
    cases hv : parseValue (parseFuel buf) st with
    | ok x => simp only
    | fail l p => rw [hv] at h2; simp only; exact Pos.located h2
    | oob => rw [hv] at h2; exact h2
    | nofuel => rw [hv] at h2; exact h2
  | fail l p => rw [hr] at h1; simp only; exact Pos.located h1
  | oob => rw [hr] at h1; exact h1
  | nofuel => rw [hr] at h1; exact h1

theorem breaksR_mono : ∀ (a b : List Byte), breaksR b ≤ breaksR (a ++ b) := by
  intro a
  induction a with
  | nil => intro b; exact Nat.le_refl _
  | cons c a ih =>
    intro b
    have := ih b
    simp only [List.cons_append, breaksR_cons]
    split <;> (try split) <;> (try split) <;> omega

theorem lineOf_le_lineCount (t : List Byte) (off : Nat) : lineOf t off ≤ lineCount t := by
  unfold lineOf lineCount
  have : t.reverse = (t.drop off).reverse ++ (t.take off).reverse := by
    rw [← List.reverse_append, List.take_append_drop]
  rw [this]
  have := breaksR_mono (t.drop off).reverse (t.take off).reverse
  omega

end Nstd.Json
