import Nstd.Json.LemmasRT
/-
  `Byte` is `Nat` in the model, so every theorem quantifies over a superset of the byte strings.
  Here: what the model PRODUCES from bytes are bytes again (`utf8`, `toString`).
-/
set_option linter.unusedSimpArgs false
set_option linter.unusedVariables false
namespace Nstd.Json
open Nstd.Generated.Json

def BytesOK (l : List Byte) : Prop := ∀ b ∈ l, b < 256

theorem BytesOK.append {a b : List Byte} (ha : BytesOK a) (hb : BytesOK b) : BytesOK (a ++ b) := by
  intro x hx
  rcases List.mem_append.mp hx with h | h
  · exact ha x h
  · exact hb x h

theorem bytesOK_of_all {l : List Byte} (h : l.all (fun b => decide (b < 256)) = true) : BytesOK l := by
  intro b hb
  simpa using List.all_eq_true.mp h b hb

mutual
/-- all strings and keys of the tree consist of bytes -/
def vbytes : Val → Prop
  | .str s => BytesOK s
  | .dbl t => BytesOK t
  | .list l => vbytesList l
  | .map m => vbytesMap m
  | _ => True
def vbytesList : List Val → Prop
  | [] => True
  | v :: vs => vbytes v ∧ vbytesList vs
def vbytesMap : List (List Byte × Val) → Prop
  | [] => True
  | (k, v) :: m => BytesOK k ∧ vbytes v ∧ vbytesMap m
end

theorem utf8_bytes (ch : Nat) : BytesOK (utf8 ch) := by
  have or_lt : ∀ a b : Nat, a < 256 → b < 256 → a ||| b < 256 := fun a b ha hb => Nat.or_lt_two_pow (n := 8) ha hb
  have and_lt : ∀ a : Nat, a &&& 0x3F < 256 := fun a => Nat.lt_of_le_of_lt Nat.and_le_right (by decide)
  intro b hb
  unfold utf8 at hb
  simp only [Nat.shiftRight_eq_div_pow] at hb
  split at hb
  · simp at hb; omega
  · split at hb
    · simp at hb
      rcases hb with h | h <;> subst h
      · exact or_lt _ _ (by omega) (by decide)
      · exact or_lt _ _ (and_lt _) (by decide)
    · split at hb
      · simp at hb
        rcases hb with h | h | h <;> subst h
        · exact or_lt _ _ (by omega) (by decide)
        · exact or_lt _ _ (and_lt _) (by decide)
        · exact or_lt _ _ (and_lt _) (by decide)
      · split at hb
        · simp at hb
          rcases hb with h | h | h | h <;> subst h
          · exact or_lt _ _ (by omega) (by decide)
          · exact or_lt _ _ (and_lt _) (by decide)
          · exact or_lt _ _ (and_lt _) (by decide)
          · exact or_lt _ _ (and_lt _) (by decide)
        · simp at hb

/-- closed checks over the generated tables -/
theorem escTable_bytes : escTable.all (fun p => p.2.all (fun b => decide (b < 256))) = true := by decide
theorem escPrefix_bytes : escDefaultPrefix.all (fun b => decide (b < 256)) = true := by decide
theorem hexAlphabet_bytes : hexAlphabet.all (fun b => decide (b < 256)) = true := by decide

theorem hexLower_byte (n : Nat) : hexLower n < 256 := by
  unfold hexLower
  rw [List.getD_eq_getElem?_getD]
  cases h : hexAlphabet[n]? with
  | none => simp
  | some b => simp only [Option.getD_some]; exact bytesOK_of_all hexAlphabet_bytes _ (List.mem_of_getElem? h)

theorem escLoop_bytes : ∀ s : List Byte, BytesOK s → BytesOK (escLoop s) := by
  intro s
  induction s with
  | nil => intro _ b hb; simp [escLoop] at hb
  | cons c s ih =>
    intro h
    have hc : c < 256 := h c List.mem_cons_self
    have hs : BytesOK s := fun b hb => h b (List.mem_cons_of_mem _ hb)
    have cons_ok : ∀ l, BytesOK l → BytesOK (c :: l) := by
      intro l hl b hb
      rcases List.mem_cons.mp hb with e | e
      · rw [e]; exact hc
      · exact hl b e
    rw [escLoop]
    split
    · exact cons_ok _ hs
    · split
      · cases hl : lookup c escTable with
        | some t =>
          simp only
          have ht : BytesOK t := by
            have := List.all_eq_true.mp escTable_bytes _ (lookup_mem _ _ _ hl)
            exact bytesOK_of_all this
          exact ht.append (ih hs)
        | none =>
          simp only
          refine ((bytesOK_of_all escPrefix_bytes).append ?_).append (ih hs)
          intro b hb
          simp at hb
          rcases hb with e | e <;> rw [e] <;> exact hexLower_byte _
      · exact cons_ok _ (ih hs)

theorem escaped_bytes (s : List Byte) (h : BytesOK s) : BytesOK (escaped s) := by
  unfold escaped
  refine (BytesOK.append ?_ (escLoop_bytes s h)).append ?_ <;> (intro b hb; simp at hb; omega)

theorem fromInt_bytes (i : Int) : BytesOK (fromInt i) := by
  intro b hb
  rcases fromInt_chars i b hb with h | h
  · simp [isDigit] at h; omega
  · omega

theorem lit_bytes {l : List Byte} (h : l.all (fun b => decide (b < 256)) = true) : BytesOK l := bytesOK_of_all h

mutual
theorem toStr_bytes : (v : Val) → ∀ ind : List Byte, BytesOK ind → vbytes v → BytesOK (toStr ind v)
  | .null, _, _, _ => by simp only [toStr]; exact lit_bytes (by decide)
  | .bool true, _, _, _ => by simp only [toStr, if_true]; exact lit_bytes (by decide)
  | .bool false, _, _, _ => by simp only [toStr, Bool.false_eq_true, if_false]; exact lit_bytes (by decide)
  | .dbl t, _, _, h => by simpa only [toStr, vbytes] using h
  | .int i, _, _, _ => by simp only [toStr]; exact fromInt_bytes i
  | .int64 i, _, _, _ => by simp only [toStr]; exact fromInt_bytes i
  | .str s, _, _, h => by simp only [toStr]; exact escaped_bytes s (by simpa only [vbytes] using h)
  | .list [], _, _, _ => by simp only [toStr]; exact lit_bytes (by decide)
  | .list (v :: vs), ind, hi, h => by
    have hni : BytesOK (ind ++ [9]) := hi.append (lit_bytes (by decide))
    have := listItems_bytes (v :: vs) (ind ++ [9]) hni (by simpa only [vbytes] using h)
    simp only [toStr]
    exact ((((lit_bytes (l := [91, 10]) (by decide)).append this).append (lit_bytes (l := [10]) (by decide))).append hi).append
      (lit_bytes (l := [93]) (by decide))
  | .map [], _, _, _ => by simp only [toStr]; exact lit_bytes (by decide)
  | .map (kv :: m), ind, hi, h => by
    have hni : BytesOK (ind ++ [9]) := hi.append (lit_bytes (by decide))
    have := mapItems_bytes (kv :: m) (ind ++ [9]) hni (by simpa only [vbytes] using h)
    simp only [toStr]
    exact ((((lit_bytes (l := [123, 10]) (by decide)).append this).append (lit_bytes (l := [10]) (by decide))).append hi).append
      (lit_bytes (l := [125]) (by decide))
theorem listItems_bytes : (l : List Val) → ∀ ni : List Byte, BytesOK ni → vbytesList l → BytesOK (listItems ni l)
  | [], _, _, _ => by intro b hb; simp [listItems] at hb
  | v :: vs, ni, hi, h => by
    simp only [vbytesList] at h
    have h1 := toStr_bytes v ni hi h.1
    have h2 := listItems_bytes vs ni hi h.2
    cases vs with
    | nil => rw [listItems_single]; exact hi.append h1
    | cons w ws =>
      rw [listItems_cons_cons]
      exact (hi.append h1).append ((lit_bytes (l := [44, 10]) (by decide)).append h2)
theorem mapItems_bytes : (m : List (List Byte × Val)) → ∀ ni : List Byte, BytesOK ni → vbytesMap m →
    BytesOK (mapItems ni m)
  | [], _, _, _ => by intro b hb; simp [mapItems] at hb
  | (k, v) :: m, ni, hi, h => by
    simp only [vbytesMap] at h
    have h1 := toStr_bytes v ni hi h.2.1
    have h2 := mapItems_bytes m ni hi h.2.2
    have h0 := ((hi.append (escaped_bytes k h.1)).append (lit_bytes (l := [58, 32]) (by decide))).append h1
    cases m with
    | nil => rw [mapItems_single]; exact h0
    | cons w ws =>
      rw [mapItems_cons_cons]
      exact h0.append ((lit_bytes (l := [44, 10]) (by decide)).append h2)
end

theorem toString_bytes (v : Val) (h : vbytes v) : BytesOK (toString v) := by
  unfold toString
  exact (toStr_bytes v [] (by intro b hb; cases hb) h).append (lit_bytes (l := [10]) (by decide))

end Nstd.Json
