import Nstd.Json.LemmasParse
/-
  Two buffers that hold the same C string (they agree up to and including the first NUL) are
  indistinguishable for the parser: nothing behind the terminator influences the result.
-/
set_option linter.unusedSimpArgs false
set_option linter.unusedVariables false
namespace Nstd.Json

/-- same bytes up to and including the first NUL -/
inductive Agree : List Byte → List Byte → Prop
  | nul (j j' : List Byte) : Agree (0 :: j) (0 :: j')
  | cons (c : Byte) (r r' : List Byte) (hc : c ≠ 0) (h : Agree r r') : Agree (c :: r) (c :: r')

theorem Agree.refl_of_mem : ∀ r : List Byte, 0 ∈ r → Agree r r := by
  intro r
  induction r with
  | nil => intro h; cases h
  | cons c r ih =>
    intro h
    by_cases hc : c = 0
    · subst hc; exact .nul _ _
    · exact .cons c r r hc (ih (mem_tail_of_ne h hc))

theorem Agree.cstr_eq {r r' : List Byte} (h : Agree r r') : cstr r = cstr r' := by
  induction h with
  | nul j j' => simp [cstr]
  | cons c r r' hc _ ih => simp [cstr, hc, ih]

theorem Agree.mem {r r' : List Byte} (h : Agree r r') : 0 ∈ r ∧ 0 ∈ r' := by
  induction h with
  | nul j j' => simp
  | cons c r r' hc _ ih => exact ⟨List.mem_cons_of_mem _ ih.1, List.mem_cons_of_mem _ ih.2⟩

theorem agree_cstr (buf : List Byte) (h : 0 ∈ buf) : Agree buf (cstr buf ++ [0]) := by
  induction buf with
  | nil => cases h
  | cons c r ih =>
    by_cases hc : c = 0
    · subst hc; simp [cstr]; exact .nul _ _
    · simp [cstr, hc]; exact .cons c _ _ hc (ih (mem_tail_of_ne h hc))

/-- related results: equal data, agreeing cursors -/
def RRel {α : Type} (R : α → α → Prop) : Res α → Res α → Prop
  | .ok a, .ok a' => R a a'
  | .fail l p, .fail l' p' => l = l' ∧ Agree p p'
  | .oob, .oob => True
  | .nofuel, .nofuel => True
  | _, _ => False

theorem RRel_bind {α β : Type} {R : α → α → Prop} {R' : β → β → Prop} {x x' : Res α} {k k' : α → Res β}
    (hx : RRel R x x') (hk : ∀ a a', R a a' → RRel R' (k a) (k' a')) : RRel R' (x.bind k) (x'.bind k') := by
  cases x <;> cases x' <;> simp_all [RRel, Res.bind]

theorem RRel_bind' {α β : Type} {R : α → α → Prop} {R' : β → β → Prop} {x x' : Res α} {k k' : α → Res β}
    (hx : RRel R x x') (hk : ∀ a a', x = .ok a → x' = .ok a' → R a a' → RRel R' (k a) (k' a')) :
    RRel R' (x.bind k) (x'.bind k') := by
  cases x <;> cases x' <;> simp_all [RRel, Res.bind]

theorem RRel_mono {α : Type} {R R' : α → α → Prop} {x x' : Res α}
    (hx : RRel R x x') (h : ∀ a a', R a a' → R' a a') : RRel R' x x' := by
  cases x <;> cases x' <;> simp_all [RRel]

theorem skipSpace_rel : ∀ (n : Nat) (r r' : List Byte) (line : Nat), r.length ≤ n → Agree r r' →
    RRel (fun x x' => x.1 = x'.1 ∧ Agree x.2 x'.2) (skipSpace line r) (skipSpace line r') := by
  intro n
  induction n with
  | zero => intro r r' line hl h; cases h <;> simp at hl
  | succ n ih =>
    intro r r' line hl h
    cases h with
    | nul j j' =>
      rw [skipSpace_cons, skipSpace_cons]
      simp [isSpace, RRel]; exact .nul _ _
    | cons c t t' hc ht =>
      simp only [List.length_cons] at hl
      rw [skipSpace_cons, skipSpace_cons]
      by_cases h13 : c = 13
      · simp only [h13, if_true]
        cases ht with
        | nul j j' =>
          simp only [List.length_cons] at hl
          simp only [(by decide : (0:Nat) ≠ 10), if_false]; exact ih _ _ _ (by simp only [List.length_cons]; omega) (.nul _ _)
        | cons d u u' hd hu =>
          simp only [List.length_cons] at hl
          by_cases hd10 : d = 10
          · simp only [hd10, if_true]; exact ih _ _ _ (by omega) hu
          · simp only [hd10, if_false]; exact ih _ _ _ (by simp only [List.length_cons]; omega) (.cons d u u' hd hu)
      · simp only [h13, if_false]
        by_cases h10 : c = 10
        · simp only [h10, if_true]; exact ih _ _ _ (by omega) ht
        · simp only [h10, if_false]
          by_cases hs : isSpace c = true
          · simp only [hs, if_true]; exact ih _ _ _ (by omega) ht
          · simp only [hs]; exact ⟨rfl, .cons c t t' hc ht⟩

theorem hex4_rel (line : Nat) : ∀ (n : Nat) (k r r' : List Byte), Agree r r' →
    RRel (fun x x' => x.1 = x'.1 ∧ Agree x.2 x'.2) (hex4 line n k r) (hex4 line n k r') := by
  intro n
  induction n with
  | zero => intro k r r' h; exact ⟨rfl, h⟩
  | succ n ih =>
    intro k r r' h
    cases h with
    | nul j j' => simp [hex4, isHexDigit, isDigit, RRel]; exact .nul _ _
    | cons c t t' hc ht =>
      by_cases hx : isHexDigit c = true
      · simp only [hex4, hx, if_true]; exact ih _ _ _ ht
      · simp only [hex4, hx]; exact ⟨rfl, .cons c t t' hc ht⟩

theorem hex4_len (line : Nat) : ∀ (n : Nat) (k r k' r' : List Byte), hex4 line n k r = .ok (k', r') →
    r'.length ≤ r.length := by
  intro n
  induction n with
  | zero => intro k r k' r' h; simp [hex4] at h; rw [h.2]; exact Nat.le_refl _
  | succ n ih =>
    intro k r k' r' h
    cases r with
    | nil => simp [hex4] at h
    | cons c r =>
      by_cases hx : isHexDigit c = true
      · simp only [hex4, hx, if_true] at h
        have := ih _ _ _ _ h
        simp only [List.length_cons]; omega
      · simp [hex4, hx] at h

theorem litMatch_rel : ∀ (lit r r' : List Byte), (∀ c ∈ lit, c ≠ 0) → Agree r r' →
    RRel (fun m m' => (m = none ∧ m' = none) ∨ ∃ x x', m = some x ∧ m' = some x' ∧ Agree x x')
      (litMatch lit r) (litMatch lit r') := by
  intro lit
  induction lit with
  | nil => intro r r' _ h; exact Or.inr ⟨r, r', rfl, rfl, h⟩
  | cons l ls ih =>
    intro r r' hl h
    have hl0 : l ≠ 0 := hl l (List.mem_cons_self)
    cases h with
    | nul j j' =>
      have : ¬ (0 : Nat) = l := fun e => hl0 e.symm
      simp only [litMatch, this, if_false]; exact Or.inl ⟨rfl, rfl⟩
    | cons c t t' hc ht =>
      by_cases hcl : c = l
      · simp only [litMatch, hcl, if_true]
        exact ih _ _ (fun x hx => hl x (List.mem_cons_of_mem _ hx)) ht
      · simp only [litMatch, hcl, if_false]; exact Or.inl ⟨rfl, rfl⟩

theorem numLoop_rel : ∀ (r r' n : List Byte) (dbl : Bool), Agree r r' →
    RRel (fun x x' => x.1 = x'.1 ∧ x.2.1 = x'.2.1 ∧ Agree x.2.2 x'.2.2) (numLoop n dbl r) (numLoop n dbl r') := by
  intro r
  induction r with
  | nil => intro r' n dbl h; cases h
  | cons c t ih =>
    intro r' n dbl h
    cases h with
    | nul j j' => simp [numLoop, isDigit, RRel]; exact .nul _ _
    | cons c t t' hc ht =>
      rw [numLoop, numLoop]
      by_cases h1 : c = 69 ∨ c = 101 ∨ c = 45 ∨ c = 43
      · rw [if_pos h1, if_pos h1]; exact ih _ _ _ ht
      · rw [if_neg h1, if_neg h1]
        by_cases h2 : c = 46
        · rw [if_pos h2, if_pos h2]; exact ih _ _ _ ht
        · rw [if_neg h2, if_neg h2]
          by_cases h3 : isDigit c = true
          · rw [if_pos h3, if_pos h3]; exact ih _ _ _ ht
          · rw [if_neg h3, if_neg h3]; exact ⟨rfl, rfl, .cons c t t' hc ht⟩

def StrRel (x x' : Nat × List Byte × List Byte) : Prop := x.1 = x'.1 ∧ x.2.1 = x'.2.1 ∧ Agree x.2.2 x'.2.2

theorem readStr_rel : ∀ (f f' line : Nat) (acc r r' : List Byte), r.length ≤ f → r'.length ≤ f' → Agree r r' →
    RRel StrRel (readStr f line acc r) (readStr f' line acc r') := by
  intro f
  induction f with
  | zero => intro f' line acc r r' hl _ h; cases h <;> simp at hl
  | succ f ih =>
    intro f' line acc r r' hl hl' h
    cases f' with
    | zero => cases h <;> simp at hl'
    | succ f' =>
      cases h with
      | nul j j' =>
        rw [readStr_cons, readStr_cons]; simp only [if_true]; exact ⟨rfl, .nul _ _⟩
      | cons c t t' hc ht =>
        simp only [List.length_cons] at hl hl'
        rw [readStr_cons, readStr_cons]
        rw [if_neg hc, if_neg hc]
        by_cases h13 : c = 13
        · rw [if_pos h13, if_pos h13]
          cases ht with
          | nul j j' =>
            simp only [List.length_cons] at hl hl'
            simp only [(by decide : (0:Nat) ≠ 10), if_false]
            exact ih _ _ _ _ _ (by simp only [List.length_cons]; omega) (by simp only [List.length_cons]; omega) (.nul _ _)
          | cons d u u' hd hu =>
            simp only [List.length_cons] at hl hl'
            by_cases hd10 : d = 10
            · simp only [hd10, if_true]; exact ih _ _ _ _ _ (by omega) (by omega) hu
            · simp only [hd10, if_false]
              exact ih _ _ _ _ _ (by simp only [List.length_cons]; omega) (by simp only [List.length_cons]; omega)
                (.cons d u u' hd hu)
        rw [if_neg h13, if_neg h13]
        by_cases h10 : c = 10
        · rw [if_pos h10, if_pos h10]; exact ih _ _ _ _ _ (by omega) (by omega) ht
        rw [if_neg h10, if_neg h10]
        by_cases h92 : c = 92
        · rw [if_pos h92, if_pos h92]
          cases ht with
          | nul j j' =>
            simp only [List.length_cons] at hl hl'
            simp only [unesc_zero, (by decide : (0:Nat) ≠ 117), if_false]
            exact ih _ _ _ _ _ (by simp only [List.length_cons]; omega) (by simp only [List.length_cons]; omega) (.nul _ _)
          | cons e u u' he hu =>
            simp only [List.length_cons] at hl hl'
            have recur : ∀ a : List Byte, RRel StrRel (readStr f line a u) (readStr f' line a u') :=
              fun a => ih _ _ _ _ _ (by omega) (by omega) hu
            cases hue : unesc e with
            | some b => simp only [hue]; exact recur _
            | none =>
            simp only [hue]
            by_cases e7 : e = 117
            · simp only [e7, if_true]
              refine RRel_bind' (hex4_rel line 4 [] u u' hu) ?_
              intro ⟨k, r2⟩ ⟨k', r2'⟩ hx hx' ⟨hk, ha2⟩
              simp only at hk ha2 ⊢
              subst hk
              have hl2 := hex4_len _ _ _ _ _ _ hx
              have hl2' := hex4_len _ _ _ _ _ _ hx'
              by_cases hs : scanHex k &&& 0xF800 = 0xD800 ∧ scanHex k &&& 0xFC00 = 0xD800
              · simp only [hs, and_self, if_true]
                cases ha2 with
                | nul j j' => simp only [ne_eq, (by decide : ¬(0:Nat) = 92), not_false_eq_true, if_true]; exact ⟨rfl, .nul _ _⟩
                | cons b1 r3 r3' hb1 ha3 =>
                  by_cases q1 : b1 = 92
                  · subst q1
                    simp only [ne_eq, not_true_eq_false, if_false]
                    cases ha3 with
                    | nul j j' =>
                      simp only [ne_eq, (by decide : ¬(0:Nat) = 117), not_false_eq_true, if_true]
                      exact ⟨rfl, .cons 92 _ _ hb1 (.nul _ _)⟩
                    | cons b2 r4 r4' hb2 ha4 =>
                      by_cases q2 : b2 = 117
                      · subst q2
                        simp only [ne_eq, not_true_eq_false, if_false]
                        refine RRel_bind' (hex4_rel line 4 [] r4 r4' ha4) ?_
                        intro ⟨k2, r5⟩ ⟨k2', r5'⟩ hy hy' ⟨hk2, ha5⟩
                        simp only at hk2 ha5 ⊢
                        subst hk2
                        have hl5 := hex4_len _ _ _ _ _ _ hy
                        have hl5' := hex4_len _ _ _ _ _ _ hy'
                        simp only [List.length_cons] at hl2 hl2'
                        by_cases hw : scanHex k2 &&& 0xFC00 ≠ 0xDC00
                        · simp only [hw, if_true]
                          exact ⟨rfl, .cons 92 _ _ hb1 (.cons 117 _ _ hb2 ha4)⟩
                        · simp only [hw, if_false]
                          exact ih _ _ _ _ _ (by omega) (by omega) ha5
                      · simp only [ne_eq, q2, not_false_eq_true, if_true]
                        exact ⟨rfl, .cons 92 _ _ hb1 (.cons b2 _ _ hb2 ha4)⟩
                  · simp only [ne_eq, q1, not_false_eq_true, if_true]
                    exact ⟨rfl, .cons b1 _ _ hb1 ha3⟩
              · simp only [hs, if_false]
                exact ih _ _ _ _ _ (by omega) (by omega) ha2
            · simp only [e7, if_false]
              exact ih _ _ _ _ _ (by simp only [List.length_cons]; omega) (by simp only [List.length_cons]; omega)
                (.cons e u u' he hu)
        rw [if_neg h92, if_neg h92]
        by_cases h34 : c = 34
        · rw [if_pos h34, if_pos h34]; exact ⟨rfl, rfl, ht⟩
        rw [if_neg h34, if_neg h34]
        exact ih _ _ _ _ _ (by omega) (by omega) ht

def StRel (st st' : St) : Prop := st.tok = st'.tok ∧ st.val = st'.val ∧ st.line = st'.line ∧ Agree st.r st'.r

theorem lit_rel (line : Nat) (lit : List Byte) (c : Byte) (t t' : List Byte) (tk : Byte) (v : Val)
    (hlit : ∀ x ∈ lit, x ≠ 0) (h : Agree (c :: t) (c :: t')) :
    RRel StRel
      ((litMatch lit (c :: t)).bind fun m =>
        match m with
        | some r'' => .ok ⟨tk, v, line, r''⟩
        | none => .fail line (c :: t))
      ((litMatch lit (c :: t')).bind fun m =>
        match m with
        | some r'' => .ok ⟨tk, v, line, r''⟩
        | none => .fail line (c :: t')) := by
  refine RRel_bind (litMatch_rel lit _ _ hlit h) ?_
  intro m m' hm
  rcases hm with ⟨h1, h2⟩ | ⟨x, x', h1, h2, hx⟩
  · subst h1; subst h2; exact ⟨rfl, h⟩
  · subst h1; subst h2; exact ⟨rfl, rfl, rfl, hx⟩

theorem readToken_rel (line : Nat) (r r' : List Byte) (h : Agree r r') :
    RRel StRel (readToken line r) (readToken line r') := by
  unfold readToken
  refine RRel_bind (skipSpace_rel r.length r r' line (Nat.le_refl _) h) ?_
  intro ⟨l1, r1⟩ ⟨l1', r1'⟩ ⟨hl, ha⟩
  simp only at hl ha ⊢
  subst hl
  cases ha with
  | nul j j' => simp only [if_true]; exact ⟨rfl, rfl, rfl, .nul _ _⟩
  | cons c t t' hc ht =>
    simp only [hc, if_false]
    by_cases hp1 : c = 123 ∨ c = 125 ∨ c = 91 ∨ c = 93 ∨ c = 44 ∨ c = 58
    · simp only [hp1, if_true]; exact ⟨rfl, rfl, rfl, ht⟩
    simp only [hp1, if_false]
    by_cases h34 : c = 34
    · simp only [h34, if_true]
      refine RRel_bind (readStr_rel _ _ l1 [] t t' (Nat.le_refl _) (Nat.le_refl _) ht) ?_
      intro ⟨a1, a2, a3⟩ ⟨b1, b2, b3⟩ ⟨e1, e2, e3⟩
      simp only at e1 e2 e3 ⊢
      subst e1; subst e2
      exact ⟨rfl, rfl, rfl, e3⟩
    simp only [h34, if_false]
    have hA : Agree (c :: t) (c :: t') := .cons c t t' hc ht
    by_cases h116 : c = 116
    · simp only [h116, if_true]
      rw [h116] at hA
      exact lit_rel l1 _ 116 t t' 116 _ (by intro x hx; simp at hx; omega) hA
    simp only [h116, if_false]
    by_cases h102 : c = 102
    · simp only [h102, if_true]
      rw [h102] at hA
      exact lit_rel l1 _ 102 t t' 102 _ (by intro x hx; simp at hx; omega) hA
    simp only [h102, if_false]
    by_cases h110 : c = 110
    · simp only [h110, if_true]
      rw [h110] at hA
      exact lit_rel l1 _ 110 t t' 110 _ (by intro x hx; simp at hx; omega) hA
    simp only [h110, if_false]
    by_cases hnum : c = 45 ∨ isDigit c = true
    · simp only [hnum, if_true]
      refine RRel_bind (numLoop_rel _ _ [] false hA) ?_
      intro ⟨a1, a2, a3⟩ ⟨b1, b2, b3⟩ ⟨e1, e2, e3⟩
      simp only at e1 e2 e3 ⊢
      subst e1; subst e2
      exact ⟨rfl, rfl, rfl, e3⟩
    · simp only [hnum, if_false]
      exact ⟨rfl, hA⟩

def VRel (x x' : Val × St) : Prop := x.1 = x'.1 ∧ StRel x.2 x'.2

theorem next_rel {st st' : St} (h : StRel st st') : RRel StRel st.next st'.next := by
  obtain ⟨_, _, hl, ha⟩ := h
  unfold St.next; rw [hl]; exact readToken_rel _ _ _ ha

theorem parser_rel : ∀ f : Nat,
    (∀ st st', StRel st st' → RRel VRel (parseValue f st) (parseValue f st')) ∧
    (∀ acc st st', StRel st st' → RRel VRel (arrLoop f acc st) (arrLoop f acc st')) ∧
    (∀ acc st st', StRel st st' → RRel VRel (objLoop f acc st) (objLoop f acc st')) := by
  intro f
  induction f with
  | zero =>
    refine ⟨?_, ?_, ?_⟩
    · intro st st' _; simp [parseValue, RRel]
    · intro acc st st' _; simp [arrLoop, RRel]
    · intro acc st st' _; simp [objLoop, RRel]
  | succ f ih =>
    obtain ⟨ihV, ihA, ihO⟩ := ih
    refine ⟨?_, ?_, ?_⟩
    · intro st st' h
      have ht : st.tok = st'.tok := h.1
      have hv : st.val = st'.val := h.2.1
      rw [parseValue, parseValue, ← ht]
      by_cases hs : isScalarTok st.tok = true
      · simp only [hs, if_true]
        refine RRel_bind (next_rel h) ?_
        intro a a' ha; exact ⟨hv, ha⟩
      simp only [hs]
      by_cases h91 : st.tok = 91
      · simp only [h91, if_true]
        exact RRel_bind (next_rel h) (fun a a' ha => ihA [] a a' ha)
      by_cases h123 : st.tok = 123
      · simp only [h123, if_true]
        exact RRel_bind (next_rel h) (fun a a' ha => ihO [] a a' ha)
      · simp only [h91, h123, if_false]
        exact ⟨h.2.2.1, h.2.2.2⟩
    · intro acc st st' h
      have ht : st.tok = st'.tok := h.1
      rw [arrLoop, arrLoop, ← ht]
      by_cases h93 : st.tok = 93
      · simp only [h93, if_true]
        refine RRel_bind (next_rel h) ?_
        intro a a' ha; exact ⟨rfl, ha⟩
      simp only [h93, if_false]
      refine RRel_bind (ihV st st' h) ?_
      intro ⟨v, st1⟩ ⟨v', st1'⟩ ⟨hvv, h1⟩
      simp only at hvv h1 ⊢
      subst hvv
      have ht1 : st1.tok = st1'.tok := h1.1
      rw [← ht1]
      by_cases q93 : st1.tok = 93
      · simp only [q93, if_true]
        refine RRel_bind (next_rel h1) ?_
        intro a a' ha; exact ⟨rfl, ha⟩
      simp only [q93, if_false]
      by_cases q44 : st1.tok ≠ 44
      · rw [if_pos q44, if_pos q44]; exact ⟨h1.2.2.1, h1.2.2.2⟩
      rw [if_neg q44, if_neg q44]
      exact RRel_bind (next_rel h1) (fun a a' ha => ihA _ a a' ha)
    · intro acc st st' h
      have ht : st.tok = st'.tok := h.1
      have hv : st.val = st'.val := h.2.1
      rw [objLoop, objLoop, ← ht, ← hv]
      by_cases h125 : st.tok = 125
      · simp only [h125, if_true]
        refine RRel_bind (next_rel h) ?_
        intro a a' ha; exact ⟨rfl, ha⟩
      simp only [h125, if_false]
      by_cases h34 : st.tok ≠ 34
      · rw [if_pos h34, if_pos h34]; exact ⟨h.2.2.1, h.2.2.2⟩
      rw [if_neg h34, if_neg h34]
      refine RRel_bind (next_rel h) ?_
      intro st1 st1' h1
      have ht1 : st1.tok = st1'.tok := h1.1
      rw [← ht1]
      by_cases q58 : st1.tok ≠ 58
      · rw [if_pos q58, if_pos q58]; exact ⟨h1.2.2.1, h1.2.2.2⟩
      rw [if_neg q58, if_neg q58]
      refine RRel_bind (next_rel h1) ?_
      intro st2 st2' h2
      refine RRel_bind (ihV st2 st2' h2) ?_
      intro ⟨v, st3⟩ ⟨v', st3'⟩ ⟨hvv, h3⟩
      simp only at hvv h3 ⊢
      subst hvv
      have ht3 : st3.tok = st3'.tok := h3.1
      rw [← ht3]
      by_cases q125 : st3.tok = 125
      · simp only [q125, if_true]
        refine RRel_bind (next_rel h3) ?_
        intro a a' ha; exact ⟨rfl, ha⟩
      simp only [q125, if_false]
      by_cases q44 : st3.tok ≠ 44
      · rw [if_pos q44, if_pos q44]; exact ⟨h3.2.2.1, h3.2.2.2⟩
      rw [if_neg q44, if_neg q44]
      exact RRel_bind (next_rel h3) (fun a a' ha => ihO _ a a' ha)

/-! ### more fuel does not change a result -/

theorem bind_mono {α β : Type} {x x' : Res α} {k k' : α → Res β}
    (h : x.bind k ≠ .nofuel) (hx : x ≠ .nofuel → x' = x)
    (hk : ∀ a, x = .ok a → k a ≠ .nofuel → k' a = k a) : x'.bind k' = x.bind k := by
  cases x with
  | ok a =>
    rw [hx (by simp)]
    simp only [Res.bind] at h ⊢
    exact hk a rfl h
  | fail l p => rw [hx (by simp)]; rfl
  | oob => rw [hx (by simp)]; rfl
  | nofuel => simp [Res.bind] at h

theorem parser_mono : ∀ f : Nat,
    (∀ st, parseValue f st ≠ .nofuel → parseValue (f + 1) st = parseValue f st) ∧
    (∀ acc st, arrLoop f acc st ≠ .nofuel → arrLoop (f + 1) acc st = arrLoop f acc st) ∧
    (∀ acc st, objLoop f acc st ≠ .nofuel → objLoop (f + 1) acc st = objLoop f acc st) := by
  intro f
  induction f with
  | zero =>
    refine ⟨?_, ?_, ?_⟩
    · intro st h; simp [parseValue] at h
    · intro acc st h; simp [arrLoop] at h
    · intro acc st h; simp [objLoop] at h
  | succ f ih =>
    obtain ⟨ihV, ihA, ihO⟩ := ih
    refine ⟨?_, ?_, ?_⟩
    · intro st h
      rw [parseValue] at h
      rw [parseValue, parseValue]
      by_cases hs : isScalarTok st.tok = true
      · simp only [hs, if_true]
      simp only [hs] at h ⊢
      by_cases h91 : st.tok = 91
      · simp only [h91, if_true] at h ⊢
        exact bind_mono h (fun _ => rfl) (fun a _ ha => ihA [] a ha)
      by_cases h123 : st.tok = 123
      · simp only [h123, if_true] at h ⊢
        exact bind_mono h (fun _ => rfl) (fun a _ ha => ihO [] a ha)
      · simp only [h91, h123, if_false]
    · intro acc st h
      rw [arrLoop] at h
      rw [arrLoop, arrLoop]
      by_cases h93 : st.tok = 93
      · simp only [h93, if_true]
      simp only [h93, if_false] at h ⊢
      refine bind_mono h (fun hx => ihV st hx) ?_
      intro ⟨v, st1⟩ _ ha
      simp only at ha ⊢
      by_cases q93 : st1.tok = 93
      · simp only [q93, if_true]
      simp only [q93, if_false] at ha ⊢
      by_cases q44 : st1.tok ≠ 44
      · rw [if_pos q44]; rw [if_pos q44]
      rw [if_neg q44] at ha
      rw [if_neg q44, if_neg q44]
      exact bind_mono ha (fun _ => rfl) (fun a _ hb => ihA _ a hb)
    · intro acc st h
      rw [objLoop] at h
      rw [objLoop, objLoop]
      by_cases h125 : st.tok = 125
      · simp only [h125, if_true]
      simp only [h125, if_false] at h ⊢
      by_cases h34 : st.tok ≠ 34
      · rw [if_pos h34, if_pos h34]
      rw [if_neg h34] at h
      rw [if_neg h34, if_neg h34]
      refine bind_mono h (fun _ => rfl) ?_
      intro st1 _ h1
      by_cases q58 : st1.tok ≠ 58
      · rw [if_pos q58, if_pos q58]
      rw [if_neg q58] at h1
      rw [if_neg q58, if_neg q58]
      refine bind_mono h1 (fun _ => rfl) ?_
      intro st2 _ h2
      refine bind_mono h2 (fun hx => ihV st2 hx) ?_
      intro ⟨v, st3⟩ _ h3
      simp only at h3 ⊢
      by_cases q125 : st3.tok = 125
      · simp only [q125, if_true]
      simp only [q125, if_false] at h3 ⊢
      by_cases q44 : st3.tok ≠ 44
      · rw [if_pos q44]; rw [if_pos q44]
      rw [if_neg q44] at h3
      rw [if_neg q44, if_neg q44]
      exact bind_mono h3 (fun _ => rfl) (fun a _ hb => ihO _ a hb)

theorem parseValue_mono_add (f : Nat) (st : St) (h : parseValue f st ≠ .nofuel) :
    ∀ k, parseValue (f + k) st = parseValue f st := by
  intro k
  induction k with
  | zero => rfl
  | succ k ih =>
    have := (parser_mono (f + k)).1 st (by rw [ih]; exact h)
    rw [← Nat.add_assoc, this, ih]

theorem Pos.column_eq {buf : List Byte} {l : Nat} {p : List Byte} (h : Pos buf l p) :
    column buf p = colOf (cstr buf) ((cstr buf).length - (cstr p).length) := by
  obtain ⟨q, hb, _, hq, _, _⟩ := h
  have hq' : 0 ∉ q.reverse := by simpa using hq
  have hc : cstr buf = q.reverse ++ cstr p := by rw [hb]; exact cstr_append_nf _ _ hq'
  have hlen : (cstr buf).length - (cstr p).length = q.reverse.length := by rw [hc]; simp
  have : buf.length - p.length = q.reverse.length := by rw [hb]; simp
  unfold column colOf
  rw [this, hlen, hc]
  conv => lhs; rw [hb]
  simp [isBreak]

theorem column_agree {buf buf' p p' : List Byte} {l l' : Nat} (h : Pos buf l p) (h' : Pos buf' l' p')
    (hb : Agree buf buf') (hp : Agree p p') : column buf p = column buf' p' := by
  rw [h.column_eq, h'.column_eq, hb.cstr_eq, hp.cstr_eq]

/-- the parser cannot tell two buffers apart that agree up to their first NUL -/
theorem parse_agree (buf buf' : List Byte) (h : Agree buf buf') : parse buf = parse buf' := by
  have hT := readToken_rel 1 buf buf' h
  have h1 := readToken_post buf 1 buf (Pos.init buf h.mem.1)
  have h1' := readToken_post buf' 1 buf' (Pos.init buf' h.mem.2)
  unfold parse
  cases hr : readToken 1 buf with
  | ok st =>
    cases hr' : readToken 1 buf' with
    | ok st' =>
      rw [hr, hr'] at hT
      rw [hr] at h1; rw [hr'] at h1'
      have hm : ∀ (b : List Byte) (s : St), TokPost b b.length s → 2 * meas s + 1 ≤ parseFuel b := by
        intro b s ⟨_, hl, hlt⟩
        unfold meas parseFuel
        by_cases h0 : s.tok = 0
        · simp only [h0, if_true]; omega
        · simp only [h0, if_false]; have := hlt h0; omega
      have h2 := (parser_post buf (parseFuel buf)).1 st h1.1 (hm buf st h1)
      have h2' := (parser_post buf' (parseFuel buf')).1 st' h1'.1 (hm buf' st' h1')
      have n2 : parseValue (parseFuel buf) st ≠ .nofuel := by
        intro e; rw [e] at h2; exact h2
      have n2' : parseValue (parseFuel buf') st' ≠ .nofuel := by
        intro e; rw [e] at h2'; exact h2'
      have e1 := parseValue_mono_add _ st n2 (parseFuel buf')
      have e2 := parseValue_mono_add _ st' n2' (parseFuel buf)
      have hR := (parser_rel (parseFuel buf + parseFuel buf')).1 st st' hT
      rw [e1, Nat.add_comm, e2] at hR
      simp only
      cases hv : parseValue (parseFuel buf) st with
      | ok x =>
        cases hv' : parseValue (parseFuel buf') st' with
        | ok x' => rw [hv, hv'] at hR; simp only; rw [hR.1]
        | fail l p => rw [hv, hv'] at hR; exact hR.elim
        | oob => rw [hv, hv'] at hR; exact hR.elim
        | nofuel => rw [hv, hv'] at hR; exact hR.elim
      | fail l p =>
        cases hv' : parseValue (parseFuel buf') st' with
        | ok x' => rw [hv, hv'] at hR; exact hR.elim
        | fail l' p' =>
          rw [hv, hv'] at hR
          rw [hv] at h2; rw [hv'] at h2'
          simp only
          rw [hR.1, column_agree h2 h2' h hR.2]
        | oob => rw [hv, hv'] at hR; exact hR.elim
        | nofuel => rw [hv, hv'] at hR; exact hR.elim
      | oob => rw [hv] at h2; exact h2.elim
      | nofuel => exact absurd hv n2
    | fail l p => rw [hr, hr'] at hT; exact hT.elim
    | oob => rw [hr, hr'] at hT; exact hT.elim
    | nofuel => rw [hr, hr'] at hT; exact hT.elim
  | fail l p =>
    cases hr' : readToken 1 buf' with
    | ok st' => rw [hr, hr'] at hT; exact hT.elim
    | fail l' p' =>
      rw [hr, hr'] at hT
      rw [hr] at h1; rw [hr'] at h1'
      simp only
      rw [hT.1, column_agree h1 h1' h hT.2]
    | oob => rw [hr, hr'] at hT; exact hT.elim
    | nofuel => rw [hr, hr'] at hT; exact hT.elim
  | oob => rw [hr] at h1; exact h1.elim
  | nofuel => rw [hr] at h1; exact h1.elim

end Nstd.Json
