import Nstd.Json.LemmasParse
/-
  Two buffers that hold the same C string (they agree up to and including the first NUL) are
  indistinguishable for the parser: nothing behind the terminator influences the result.
-/
set_option linter.unusedSimpArgs false
set_option linter.unusedVariables false
namespace Nstd.Json

/-- same bytes up to and including the first NUL -/
inductive Agree : List Byte → List Byte → Prop
  | nul (j j' : List Byte) : Agree (0 :: j) (0 :: j')
  | cons (c : Byte) (r r' : List Byte) (hc : c ≠ 0) (h : Agree r r') : Agree (c :: r) (c :: r')

theorem Agree.refl_of_mem : ∀ r : List Byte, 0 ∈ r → Agree r r := by
  intro r
  induction r with
  | nil => intro h; cases h
  | cons c r ih =>
    intro h
    by_cases hc : c = 0
    · subst hc; exact .nul _ _
    · exact .cons c r r hc (ih (mem_tail_of_ne h hc))

theorem Agree.cstr_eq {r r' : List Byte} (h : Agree r r') : cstr r = cstr r' := by
  induction h with
  | nul j j' => simp [cstr]
  | cons c r r' hc _ ih => simp [cstr, hc, ih]

theorem Agree.mem {r r' : List Byte} (h : Agree r r') : 0 ∈ r ∧ 0 ∈ r' := by
  induction h with
  | nul j j' => simp
  | cons c r r' hc _ ih => exact ⟨List.mem_cons_of_mem _ ih.1, List.mem_cons_of_mem _ ih.2⟩

theorem agree_cstr (buf : List Byte) (h : 0 ∈ buf) : Agree buf (cstr buf ++ [0]) := by
  induction buf with
  | nil => cases h
  | cons c r ih =>
    by_cases hc : c = 0
    · subst hc; simp [cstr]; exact .nul _ _
    · simp [cstr, hc]; exact .cons c _ _ hc (ih (mem_tail_of_ne h hc))

/-- related results: equal data, agreeing cursors -/
def RRel {α : Type} (R : α → α → Prop) : Res α → Res α → Prop
  | .ok a, .ok a' => R a a'
  | .fail l p, .fail l' p' => l = l' ∧ Agree p p'
  | .oob, .oob => True
  | .nofuel, .nofuel => True
  | _, _ => False

theorem RRel_bind {α β : Type} {R : α → α → Prop} {R' : β → β → Prop} {x x' : Res α} {k k' : α → Res β}
    (hx : RRel R x x') (hk : ∀ a a', R a a' → RRel R' (k a) (k' a')) : RRel R' (x.bind k) (x'.bind k') := by
  cases x <;> cases x' <;> simp_all [RRel, Res.bind]

theorem RRel_mono {α : Type} {R R' : α → α → Prop} {x x' : Res α}
    (hx : RRel R x x') (h : ∀ a a', R a a' → R' a a') : RRel R' x x' := by
  cases x <;> cases x' <;> simp_all [RRel]

theorem skipSpace_rel : ∀ (n : Nat) (r r' : List Byte) (line : Nat), r.length ≤ n → Agree r r' →
    RRel (fun x x' => x.1 = x'.1 ∧ Agree x.2 x'.2) (skipSpace line r) (skipSpace line r') := by
  intro n
  induction n with
  | zero => intro r r' line hl h; cases h <;> simp at hl
  | succ n ih =>
    intro r r' line hl h
    cases h with
    | nul j j' =>
      rw [skipSpace_cons, skipSpace_cons]
      simp [isSpace, RRel]; exact .nul _ _
    | cons c t t' hc ht =>
      simp only [List.length_cons] at hl
      rw [skipSpace_cons, skipSpace_cons]
      by_cases h13 : c = 13
      · simp only [h13, if_true]
        cases ht with
        | nul j j' =>
          simp only [List.length_cons] at hl
          simp only [(by decide : (0:Nat) ≠ 10), if_false]; exact ih _ _ _ (by simp only [List.length_cons]; omega) (.nul _ _)
        | cons d u u' hd hu =>
          simp only [List.length_cons] at hl
          by_cases hd10 : d = 10
          · simp only [hd10, if_true]; exact ih _ _ _ (by omega) hu
          · simp only [hd10, if_false]; exact ih _ _ _ (by simp only [List.length_cons]; omega) (.cons d u u' hd hu)
      · simp only [h13, if_false]
        by_cases h10 : c = 10
        · simp only [h10, if_true]; exact ih _ _ _ (by omega) ht
        · simp only [h10, if_false]
          by_cases hs : isSpace c = true
          · simp only [hs, if_true]; exact ih _ _ _ (by omega) ht
          · simp only [hs]; exact ⟨rfl, .cons c t t' hc ht⟩

end Nstd.Json
