import Nstd.Json.LemmasParse
/-
  Token-level facts for the round trip: what the tokenizer reads back from the text that
  `toString` writes (escaped strings, decimal numbers, indentation).
-/
set_option linter.unusedSimpArgs false
set_option linter.unusedVariables false
namespace Nstd.Json
open Nstd.Generated.Json

/-! ### white space -/

theorem skipSpace_stop (line : Nat) (c : Byte) (r : List Byte)
    (h13 : c ≠ 13) (h10 : c ≠ 10) (hs : isSpace c = false) :
    skipSpace line (c :: r) = .ok (line, c :: r) := by
  rw [skipSpace_cons]; simp [h13, h10, hs]

theorem skipSpace_tabs (line : Nat) : ∀ (ind rest : List Byte), (∀ x ∈ ind, x = 9) →
    skipSpace line (ind ++ rest) = skipSpace line rest := by
  intro ind
  induction ind with
  | nil => intro rest _; rfl
  | cons c ind ih =>
    intro rest h
    have hc : c = 9 := h c (List.mem_cons_self)
    subst hc
    rw [List.cons_append, skipSpace_cons]
    simp [isSpace]
    exact ih rest (fun x hx => h x (List.mem_cons_of_mem _ hx))

theorem skipSpace_lf (line : Nat) (r : List Byte) : skipSpace line (10 :: r) = skipSpace (line + 1) r := by
  rw [skipSpace_cons]; simp

theorem readToken_tabs (line : Nat) (ind rest : List Byte) (h : ∀ x ∈ ind, x = 9) :
    readToken line (ind ++ rest) = readToken line rest := by
  unfold readToken; rw [skipSpace_tabs line ind rest h]

theorem readToken_lf (line : Nat) (r : List Byte) : readToken line (10 :: r) = readToken (line + 1) r := by
  unfold readToken; rw [skipSpace_lf]

theorem readToken_sp (line : Nat) (r : List Byte) : readToken line (32 :: r) = readToken line r := by
  unfold readToken; rw [skipSpace_cons]; simp [isSpace]

/-! ### strings -/

/-- `\u00XX` for a control character is read back as that character -/
theorem readStr_ctrl (c : Byte) (hc : c < 32) (h0 : c ≠ 0) (f line : Nat) (acc rest : List Byte) :
    readStr (f + 1) line acc (escDefaultPrefix ++ [hexLower (c / 16 % 16), hexLower (c % 16)] ++ rest)
      = readStr f line (acc ++ [c]) rest := by
  rw [escDefaultPrefix_eq]
  have : c = 1 ∨ c = 2 ∨ c = 3 ∨ c = 4 ∨ c = 5 ∨ c = 6 ∨ c = 7 ∨ c = 8 ∨ c = 9 ∨ c = 10 ∨ c = 11 ∨ c = 12 ∨
      c = 13 ∨ c = 14 ∨ c = 15 ∨ c = 16 ∨ c = 17 ∨ c = 18 ∨ c = 19 ∨ c = 20 ∨ c = 21 ∨ c = 22 ∨ c = 23 ∨
      c = 24 ∨ c = 25 ∨ c = 26 ∨ c = 27 ∨ c = 28 ∨ c = 29 ∨ c = 30 ∨ c = 31 := by omega
  rcases this with h | h | h | h | h | h | h | h | h | h | h | h | h | h | h | h | h | h | h | h | h | h | h | h |
    h | h | h | h | h | h | h <;> subst h <;> rfl

theorem readStr_esc : ∀ (s : List Byte), 0 ∉ s → ∀ (f line : Nat) (acc rest : List Byte), s.length + 1 ≤ f →
    readStr f line acc (escLoop s ++ 34 :: rest) = .ok (line, acc ++ s, rest) := by
  intro s
  induction s with
  | nil =>
    intro _ f line acc rest hf
    cases f with
    | zero => omega
    | succ f => simp [escLoop, readStr_cons]
  | cons c s ih =>
    intro h0 f line acc rest hf
    have hc : c ≠ 0 := fun e => h0 (by simp [e])
    have hs : 0 ∉ s := fun e => h0 (List.mem_cons_of_mem _ e)
    cases f with
    | zero => omega
    | succ f =>
      simp only [List.length_cons] at hf
      have IH := fun acc' => ih hs f line acc' rest (by omega)
      have app : ∀ x : Byte, acc ++ [x] ++ s = acc ++ x :: s := by intro x; simp
      rw [escLoop]
      simp only [hc, if_false]
      by_cases hset : escSet.contains c = true
      · simp only [hset, if_true]
        cases hl : lookup c escTable with
        | some t =>
          obtain ⟨e, ht, hu⟩ := esc_inverts hl
          subst ht
          simp only [List.cons_append, List.nil_append, List.append_assoc]
          rw [readStr_cons]
          simp only [(by decide : (92:Nat) ≠ 0), (by decide : (92:Nat) ≠ 13), (by decide : (92:Nat) ≠ 10), if_false,
            if_true, hu]
          rw [IH, app]
        | none =>
          obtain ⟨hlt, _⟩ := escDefault_ctrl hset hl
          simp only
          rw [List.append_assoc, readStr_ctrl c hlt hc, IH, app]
      · have hset' : escSet.contains c = false := by simpa using hset
        obtain ⟨h34, h92, hge⟩ := escSet_raw hset'
        have hge' : 32 ≤ c := by rcases hge with h | h; exact absurd h hc; exact h
        simp only [hset', Bool.false_eq_true, if_false]
        rw [List.cons_append, readStr_cons]
        have h13 : c ≠ 13 := by omega
        have h10 : c ≠ 10 := by omega
        simp only [hc, h34, h92, h10, h13, if_false]
        rw [IH, app]

/-! ### numbers -/

theorem natDigits_digits (n : Nat) : ∀ x ∈ natDigits n, isDigit x = true := by
  fun_induction natDigits n with
  | case1 n h => intro x hx; simp at hx; subst hx; simp [isDigit]; omega
  | case2 n h ih =>
    intro x hx
    rcases List.mem_append.mp hx with hx | hx
    · exact ih x hx
    · simp at hx; subst hx; simp [isDigit]; omega

theorem natDigits_ne_nil (n : Nat) : natDigits n ≠ [] := by
  rw [natDigits]; split <;> simp

theorem atollDigits_snoc : ∀ (xs : List Byte) (a d : Nat), (∀ x ∈ xs, isDigit x = true) → d < 10 →
    atollDigits a (xs ++ [48 + d]) = 10 * atollDigits a xs + d := by
  intro xs
  induction xs with
  | nil =>
    intro a d _ hd
    have : 48 + d ≤ 57 := by omega
    simp [atollDigits, isDigit, this]; omega
  | cons c xs ih =>
    intro a d h hd
    have hc := h c (List.mem_cons_self)
    simp only [List.cons_append, atollDigits, hc, if_true]
    exact ih _ d (fun x hx => h x (List.mem_cons_of_mem _ hx)) hd

theorem atollDigits_natDigits (n : Nat) : atollDigits 0 (natDigits n) = n := by
  fun_induction natDigits n with
  | case1 n h => simp [atollDigits, isDigit]; omega
  | case2 n h ih =>
    rw [atollDigits_snoc _ _ _ (natDigits_digits _) (Nat.mod_lt _ (by decide)), ih]; omega

/-- a byte that ends a number token -/
def NumStop (c : Byte) : Prop := ¬(c = 69 ∨ c = 101 ∨ c = 45 ∨ c = 43) ∧ c ≠ 46 ∧ isDigit c = false

theorem numLoop_digits : ∀ (ds n : List Byte) (dbl : Bool) (c : Byte) (r : List Byte),
    (∀ x ∈ ds, isDigit x = true ∨ x = 45) → NumStop c →
    numLoop n dbl (ds ++ c :: r) = .ok (n ++ ds, dbl, c :: r) := by
  intro ds
  induction ds with
  | nil =>
    intro n dbl c r _ hc
    obtain ⟨h1, h2, h3⟩ := hc
    simp [numLoop, h1, h2, h3]
  | cons d ds ih =>
    intro n dbl c r h hc
    have hd := h d (List.mem_cons_self)
    have IH := ih (n ++ [d]) dbl c r (fun x hx => h x (List.mem_cons_of_mem _ hx)) hc
    rw [List.cons_append, numLoop]
    by_cases q1 : d = 69 ∨ d = 101 ∨ d = 45 ∨ d = 43
    · rw [if_pos q1, IH]; simp
    · rw [if_neg q1]
      have hdig : isDigit d = true := by
        rcases hd with hd | hd
        · exact hd
        · exact absurd (Or.inr (Or.inr (Or.inl hd))) q1
      have q2 : d ≠ 46 := by simp [isDigit] at hdig; omega
      rw [if_neg q2, if_pos hdig, IH]; simp

theorem fromInt_chars (i : Int) : ∀ x ∈ fromInt i, isDigit x = true ∨ x = 45 := by
  intro x hx
  unfold fromInt at hx
  split at hx
  · rcases List.mem_cons.mp hx with hx | hx
    · exact Or.inr hx
    · exact Or.inl (natDigits_digits _ x hx)
  · exact Or.inl (natDigits_digits _ x hx)

theorem fromInt_ne_nil (i : Int) : fromInt i ≠ [] := by
  unfold fromInt; split
  · simp
  · exact natDigits_ne_nil _

theorem atoll_fromInt (i : Int) (hlo : -9223372036854775808 ≤ i) (hhi : i ≤ 9223372036854775807) :
    atoll (fromInt i) = i := by
  unfold fromInt
  by_cases hneg : i < 0
  · simp only [hneg, if_true]
    unfold atoll
    simp [List.dropWhile, isSpace, atollDigits_natDigits, clamp64]
    omega
  · simp only [hneg, if_false]
    unfold atoll
    cases hd : natDigits i.toNat with
    | nil => exact absurd hd (natDigits_ne_nil _)
    | cons d ds =>
      have hdig : isDigit d = true := natDigits_digits i.toNat d (by rw [hd]; exact List.mem_cons_self)
      have hsp : isSpace d = false := by simp [isDigit] at hdig; simp [isSpace]; omega
      have h45 : d ≠ 45 := by simp [isDigit] at hdig; omega
      have h43 : d ≠ 43 := by simp [isDigit] at hdig; omega
      simp only [List.dropWhile, hsp, h45, h43, if_false]
      rw [← hd, atollDigits_natDigits]
      simp [clamp64]
      omega

theorem wrap32_id (i : Int) (hlo : -2147483648 ≤ i) (hhi : i ≤ 2147483647) : wrap32 i = i := by
  unfold wrap32; omega

end Nstd.Json
