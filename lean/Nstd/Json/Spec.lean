import Nstd.Json.Model
/-
  Specifications the C15 theorems refer to: the C string of a buffer, the reference comment
  stripper (a four-mode, byte-at-a-time scanner), line/column of an offset.
-/
namespace Nstd.Json

/-- the C string held by a buffer: the bytes before the first NUL -/
def cstr : List Byte → List Byte
  | [] => []
  | c :: r => if c = 0 then [] else c :: cstr r

inductive Mode where
  | normal | line | block | string

/-- Reference for `stripComments` on a NUL-free text: `//` comments end before the next CR/LF
    (which is kept), `/* */` comments keep only their CR/LF bytes, string literals (with `\x`
    escapes) are copied verbatim, every other byte is copied.  An unterminated comment or
    literal extends to the end of the text. -/
def stripSpec : Mode → List Byte → List Byte
  | _, [] => []
  | .normal, c :: r =>
    if c = 47 then
      match r with
      | [] => [c]
      | d :: r' =>
        if d = 47 then stripSpec .line r'
        else if d = 42 then stripSpec .block r'
        else c :: stripSpec .normal (d :: r')
    else if c = 34 then c :: stripSpec .string r
    else c :: stripSpec .normal r
  | .line, c :: r =>
    if c = 13 ∨ c = 10 then c :: stripSpec .normal r else stripSpec .line r
  | .block, c :: r =>
    if c = 42 then
      match r with
      | [] => []
      | d :: r' => if d = 47 then stripSpec .normal r' else stripSpec .block (d :: r')
    else if c = 13 ∨ c = 10 then c :: stripSpec .block r
    else stripSpec .block r
  | .string, c :: r =>
    if c = 92 then
      match r with
      | [] => [c]
      | d :: r' => c :: d :: stripSpec .string r'
    else if c = 34 then c :: stripSpec .normal r
    else c :: stripSpec .string r

def isBreak (c : Byte) : Bool := c == 10 || c == 13

/-! ### line and column of an offset.  Line separators are CR LF, a lone CR, or LF. -/

/-- number of line separators in a prefix, given REVERSED (last byte first): every CR counts,
    an LF counts unless the byte before it is a CR -/
def breaksR : List Byte → Nat
  | [] => 0
  | c :: p =>
    if c = 13 then 1 + breaksR p
    else if c = 10 then (if p.head? = some 13 then breaksR p else 1 + breaksR p)
    else breaksR p

/-- 1-based line of the offset `off` of the text `t` -/
def lineOf (t : List Byte) (off : Nat) : Nat := 1 + breaksR (t.take off).reverse

/-- 1-based column of the offset: one more than the number of bytes since the last CR/LF -/
def colOf (t : List Byte) (off : Nat) : Nat :=
  1 + (((t.take off).reverse).takeWhile (fun c => !isBreak c)).length

/-- length of the line that contains the offset (bytes between the surrounding separators) -/
def lineLenAt (t : List Byte) (off : Nat) : Nat :=
  (((t.take off).reverse).takeWhile (fun c => !isBreak c)).length +
    ((t.drop off).takeWhile (fun c => !isBreak c)).length

/-- number of lines of a text -/
def lineCount (t : List Byte) : Nat := 1 + breaksR t.reverse

/-! ### the value trees of the round-trip claim -/

mutual
/-- built from null, booleans, 32/64-bit signed integers, NUL-free strings, lists and maps with
    NUL-free, pairwise different keys (a `HashMap` has no repeated key) -/
def wf : Val → Prop
  | .null => True
  | .bool _ => True
  | .dbl _ => False
  | .int i => -2147483648 ≤ i ∧ i ≤ 2147483647
  | .int64 i => -9223372036854775808 ≤ i ∧ i ≤ 9223372036854775807
  | .str s => 0 ∉ s
  | .list l => wfList l
  | .map m => wfMap m
def wfList : List Val → Prop
  | [] => True
  | v :: vs => wf v ∧ wfList vs
def wfMap : List (List Byte × Val) → Prop
  | [] => True
  | (k, v) :: m => 0 ∉ k ∧ wf v ∧ (∀ kv ∈ m, kv.1 ≠ k) ∧ wfMap m
end

mutual
/-- what comes back: a 64-bit integer that fits 32 bits is read as a 32-bit integer -/
def norm : Val → Val
  | .int64 i => if wrap32 i = i then .int (wrap32 i) else .int64 i
  | .list l => .list (normList l)
  | .map m => .map (normMap m)
  | v => v
def normList : List Val → List Val
  | [] => []
  | v :: vs => norm v :: normList vs
def normMap : List (List Byte × Val) → List (List Byte × Val)
  | [] => []
  | (k, v) :: m => (k, norm v) :: normMap m
end

end Nstd.Json
