import Nstd.Json.Model
/-
  Specifications the C15 theorems refer to: the C string of a buffer, the reference comment
  stripper (a four-mode, byte-at-a-time scanner), line/column of an offset.
-/
namespace Nstd.Json

/-- the C string held by a buffer: the bytes before the first NUL -/
def cstr : List Byte → List Byte
  | [] => []
  | c :: r => if c = 0 then [] else c :: cstr r

inductive Mode where
  | normal | line | block | string

/-- Reference for `stripComments` on a NUL-free text: `//` comments end before the next CR/LF
    (which is kept), `/* */` comments keep only their CR/LF bytes, string literals (with `\x`
    escapes) are copied verbatim, every other byte is copied.  An unterminated comment or
    literal extends to the end of the text. -/
def stripSpec : Mode → List Byte → List Byte
  | _, [] => []
  | .normal, c :: r =>
    if c = 47 then
      match r with
      | [] => [c]
      | d :: r' =>
        if d = 47 then stripSpec .line r'
        else if d = 42 then stripSpec .block r'
        else c :: stripSpec .normal (d :: r')
    else if c = 34 then c :: stripSpec .string r
    else c :: stripSpec .normal r
  | .line, c :: r =>
    if c = 13 ∨ c = 10 then c :: stripSpec .normal r else stripSpec .line r
  | .block, c :: r =>
    if c = 42 then
      match r with
      | [] => []
      | d :: r' => if d = 47 then stripSpec .normal r' else stripSpec .block (d :: r')
    else if c = 13 ∨ c = 10 then c :: stripSpec .block r
    else stripSpec .block r
  | .string, c :: r =>
    if c = 92 then
      match r with
      | [] => [c]
      | d :: r' => c :: d :: stripSpec .string r'
    else if c = 34 then c :: stripSpec .normal r
    else c :: stripSpec .string r

def isBreak (c : Byte) : Bool := c == 10 || c == 13

end Nstd.Json
