import Nstd.Json.LemmasTok
/-
  Round trip: the parser positioned at the text `toStr ind v ++ rest` (inside a larger
  document) reads `norm v` and arrives at the token that follows.
-/
set_option linter.unusedSimpArgs false
set_option linter.unusedVariables false
namespace Nstd.Json

def Tabs (ind : List Byte) : Prop := ∀ x ∈ ind, x = 9

/-- what follows a serialised value: a line feed or a comma -/
def Follow (rest : List Byte) : Prop := ∃ c r, rest = c :: r ∧ (c = 10 ∨ c = 44)

def isValueTok (t : Byte) : Prop := t = 34 ∨ t = 35 ∨ t = 116 ∨ t = 102 ∨ t = 110 ∨ t = 91 ∨ t = 123

theorem Tabs.snoc {ind : List Byte} (h : Tabs ind) : Tabs (ind ++ [9]) := by
  intro x hx
  rcases List.mem_append.mp hx with hx | hx
  · exact h x hx
  · simpa using hx

theorem escLoop_length : ∀ s : List Byte, s.length ≤ (escLoop s).length := by
  intro s
  induction s with
  | nil => simp [escLoop]
  | cons c s ih =>
    rw [escLoop]
    by_cases hc : c = 0
    · simp [hc]
    simp only [hc, if_false]
    by_cases hset : Nstd.Generated.Json.escSet.contains c = true
    · simp only [hset, if_true]
      cases hl : lookup c Nstd.Generated.Json.escTable with
      | some t =>
        obtain ⟨e, ht, _⟩ := esc_inverts hl
        subst ht
        simp only [List.length_cons, List.length_append, List.length_nil]; omega
      | none =>
        simp only [List.length_cons, List.length_append, List.length_nil]; omega
    · have hset' : Nstd.Generated.Json.escSet.contains c = false := by simpa using hset
      simp only [hset', Bool.false_eq_true, if_false, List.length_cons]; omega

/-! ### first tokens -/

theorem tok_punct (line : Nat) (c : Byte) (rest : List Byte)
    (h : c = 123 ∨ c = 125 ∨ c = 91 ∨ c = 93 ∨ c = 44 ∨ c = 58) :
    readToken line (c :: rest) = .ok ⟨c, .null, line, rest⟩ := by
  have hs : isSpace c = false := by simp [isSpace]; omega
  unfold readToken
  rw [skipSpace_stop line c rest (by omega) (by omega) hs]
  have h0 : c ≠ 0 := by omega
  simp [Res.bind, h0, h]

theorem tok_str (line : Nat) (s rest : List Byte) (h : 0 ∉ s) :
    readToken line (escaped s ++ rest) = .ok ⟨34, .str s, line, rest⟩ := by
  unfold readToken escaped
  simp only [List.cons_append, List.nil_append, List.append_assoc]
  rw [skipSpace_stop line 34 _ (by decide) (by decide) (by decide)]
  have := readStr_esc s h ((escLoop s).length + (rest.length + 1)) line [] rest
    (by have := escLoop_length s; omega)
  simp [Res.bind, this]

theorem tok_null (line : Nat) (rest : List Byte) :
    readToken line (110 :: 117 :: 108 :: 108 :: rest) = .ok ⟨110, .null, line, rest⟩ := by
  unfold readToken
  rw [skipSpace_stop line 110 _ (by decide) (by decide) (by decide)]
  simp [Res.bind, litMatch]

theorem tok_true (line : Nat) (rest : List Byte) :
    readToken line (116 :: 114 :: 117 :: 101 :: rest) = .ok ⟨116, .bool true, line, rest⟩ := by
  unfold readToken
  rw [skipSpace_stop line 116 _ (by decide) (by decide) (by decide)]
  simp [Res.bind, litMatch]

theorem tok_false (line : Nat) (rest : List Byte) :
    readToken line (102 :: 97 :: 108 :: 115 :: 101 :: rest) = .ok ⟨102, .bool false, line, rest⟩ := by
  unfold readToken
  rw [skipSpace_stop line 102 _ (by decide) (by decide) (by decide)]
  simp [Res.bind, litMatch]

theorem tok_num (line : Nat) (i : Int) (c : Byte) (r : List Byte) (hc : NumStop c) :
    readToken line (fromInt i ++ c :: r) = .ok ⟨35, numVal (fromInt i) false, line, c :: r⟩ := by
  have hch := fromInt_chars i
  cases hd : fromInt i with
  | nil => exact absurd hd (fromInt_ne_nil i)
  | cons d ds =>
    rw [hd] at hch
    have hdd : isDigit d = true ∨ d = 45 := hch d (List.mem_cons_self)
    have hrange : d = 45 ∨ (48 ≤ d ∧ d ≤ 57) := by
      rcases hdd with h | h
      · right; simpa [isDigit] using h
      · left; exact h
    have hs : isSpace d = false := by simp [isSpace]; omega
    unfold readToken
    rw [List.cons_append, skipSpace_stop line d _ (by omega) (by omega) hs]
    have hnum : d = 45 ∨ isDigit d = true := by
      rcases hdd with h | h
      · exact Or.inr h
      · exact Or.inl h
    have := numLoop_digits (d :: ds) [] false c r hch hc
    simp only [List.cons_append, List.nil_append] at this
    have h0 : d ≠ 0 := by omega
    have hp : ¬(d = 123 ∨ d = 125 ∨ d = 91 ∨ d = 93 ∨ d = 44 ∨ d = 58) := by omega
    have h34 : d ≠ 34 := by omega
    have h116 : d ≠ 116 := by omega
    have h102 : d ≠ 102 := by omega
    have h110 : d ≠ 110 := by omega
    simp only [Res.bind, h0, hp, h34, h116, h102, h110, hnum, if_false, if_true, this]

theorem numStop_follow {rest : List Byte} (h : Follow rest) : ∃ c r, rest = c :: r ∧ NumStop c := by
  obtain ⟨c, r, e, hc⟩ := h
  refine ⟨c, r, e, ?_⟩
  rcases hc with hc | hc <;> subst hc <;> simp [NumStop, isDigit]

/-! ### fuel needed by the parser for a value -/

mutual
def need : Val → Nat
  | .list l => 2 + needList l
  | .map m => 2 + needMap m
  | _ => 1
def needList : List Val → Nat
  | [] => 0
  | v :: vs => 1 + max (need v) (needList vs)
def needMap : List (List Byte × Val) → Nat
  | [] => 0
  | (_, v) :: m => 1 + max (need v) (needMap m)
end

theorem need_pos (v : Val) : 1 ≤ need v := by
  cases v <;> simp [need] <;> omega

/-- the generalised round-trip statement: from `line`, the text `text ++ rest` starts with a
    token `st0` satisfying `P` from which `run` produces `result` and arrives at the token that
    `rest` starts with -/
def RT (line : Nat) (text rest : List Byte) (P : St → Prop) (run : St → Res (Val × St)) (result : Val) : Prop :=
  ∃ line', ∀ st', readToken line' rest = .ok st' →
    ∃ st0, readToken line (text ++ rest) = .ok st0 ∧ P st0 ∧ run st0 = .ok (result, st')

theorem scalar_case (f : Nat) (st0 st' : St) (hf : 1 ≤ f) (hs : isScalarTok st0.tok = true)
    (hn : readToken st0.line st0.r = .ok st') : parseValue f st0 = .ok (st0.val, st') := by
  cases f with
  | zero => omega
  | succ f => rw [parseValue]; simp [hs, St.next, hn, Res.bind]

theorem mapAppend_new : ∀ (acc : List (List Byte × Val)) (k : List Byte) (v : Val),
    (∀ ka ∈ acc, ka.1 ≠ k) → mapAppend acc k v = acc ++ [(k, v)] := by
  intro acc
  induction acc with
  | nil => intro k v _; rfl
  | cons a acc ih =>
    intro k v h
    obtain ⟨k', v'⟩ := a
    have hk : k' ≠ k := h (k', v') (List.mem_cons_self)
    simp only [mapAppend, hk, if_false, List.cons_append]
    rw [ih k v (fun ka hka => h ka (List.mem_cons_of_mem _ hka))]

theorem toStr_list_cons (ind : List Byte) (v : Val) (vs : List Val) :
    toStr ind (.list (v :: vs)) = [91, 10] ++ listItems (ind ++ [9]) (v :: vs) ++ [10] ++ ind ++ [93] := by
  simp [toStr]

theorem toStr_map_cons (ind : List Byte) (kv : List Byte × Val) (m : List (List Byte × Val)) :
    toStr ind (.map (kv :: m)) = [123, 10] ++ mapItems (ind ++ [9]) (kv :: m) ++ [10] ++ ind ++ [125] := by
  simp [toStr]

theorem isValueTok_ne {t : Byte} (h : isValueTok t) : t ≠ 93 ∧ t ≠ 125 ∧ t ≠ 0 := by
  unfold isValueTok at h; omega

theorem listItems_cons_cons (ni : List Byte) (v w : Val) (ws : List Val) :
    listItems ni (v :: w :: ws) = ni ++ toStr ni v ++ ([44, 10] ++ listItems ni (w :: ws)) := by
  rw [listItems]

theorem listItems_single (ni : List Byte) (v : Val) : listItems ni [v] = ni ++ toStr ni v := by
  simp [listItems]

theorem mapItems_cons_cons (ni k : List Byte) (v : Val) (kw : List Byte × Val) (ws : List (List Byte × Val)) :
    mapItems ni ((k, v) :: kw :: ws) =
      ni ++ escaped k ++ [58, 32] ++ toStr ni v ++ ([44, 10] ++ mapItems ni (kw :: ws)) := by
  rw [mapItems]

theorem mapItems_single (ni k : List Byte) (v : Val) :
    mapItems ni [(k, v)] = ni ++ escaped k ++ [58, 32] ++ toStr ni v := by
  simp [mapItems]

mutual
theorem rt_val : (v : Val) → wf v → ∀ (ind rest : List Byte) (f line : Nat), Tabs ind → Follow rest → need v ≤ f →
    RT line (toStr ind v) rest (fun st0 => isValueTok st0.tok) (parseValue f) (norm v)
  | .null, _, ind, rest, f, line, _, _, hf => by
    refine ⟨line, fun st' hst => ⟨⟨110, .null, line, rest⟩, ?_, ?_, ?_⟩⟩
    · simp only [toStr, List.cons_append, List.nil_append]; exact tok_null line rest
    · simp [isValueTok]
    · exact scalar_case f _ st' (by simpa [need] using hf) rfl hst
  | .bool true, _, ind, rest, f, line, _, _, hf => by
    refine ⟨line, fun st' hst => ⟨⟨116, .bool true, line, rest⟩, ?_, ?_, ?_⟩⟩
    · simp only [toStr, if_true, List.cons_append, List.nil_append]; exact tok_true line rest
    · simp [isValueTok]
    · exact scalar_case f _ st' (by simpa [need] using hf) rfl hst
  | .bool false, _, ind, rest, f, line, _, _, hf => by
    refine ⟨line, fun st' hst => ⟨⟨102, .bool false, line, rest⟩, ?_, ?_, ?_⟩⟩
    · simp only [toStr, Bool.false_eq_true, if_false, List.cons_append, List.nil_append]; exact tok_false line rest
    · simp [isValueTok]
    · exact scalar_case f _ st' (by simpa [need] using hf) rfl hst
  | .dbl _, h, _, _, _, _, _, _, _ => by simp [wf] at h
  | .int i, h, ind, rest, f, line, _, hfo, hf => by
    obtain ⟨c, r, hr, hc⟩ := numStop_follow hfo
    subst hr
    simp only [wf] at h
    have hv : numVal (fromInt i) false = .int i := by
      simp only [numVal, Bool.false_eq_true, if_false]
      rw [atoll_fromInt i (by omega) (by omega), wrap32_id i h.1 h.2]; simp
    refine ⟨line, fun st' hst => ⟨⟨35, .int i, line, c :: r⟩, ?_, ?_, ?_⟩⟩
    · simp only [toStr]; rw [tok_num line i c r hc, hv]
    · simp [isValueTok]
    · exact scalar_case f _ st' (by simpa [need] using hf) rfl hst
  | .int64 i, h, ind, rest, f, line, _, hfo, hf => by
    obtain ⟨c, r, hr, hc⟩ := numStop_follow hfo
    subst hr
    simp only [wf] at h
    have hv : numVal (fromInt i) false = norm (.int64 i) := by
      simp only [numVal, Bool.false_eq_true, if_false, norm]
      rw [atoll_fromInt i h.1 h.2]
    refine ⟨line, fun st' hst => ⟨⟨35, norm (.int64 i), line, c :: r⟩, ?_, ?_, ?_⟩⟩
    · simp only [toStr]; rw [tok_num line i c r hc, hv]
    · simp [isValueTok]
    · exact scalar_case f _ st' (by simpa [need] using hf) rfl hst
  | .str s, h, ind, rest, f, line, _, _, hf => by
    simp only [wf] at h
    refine ⟨line, fun st' hst => ⟨⟨34, .str s, line, rest⟩, ?_, ?_, ?_⟩⟩
    · simp only [toStr]; exact tok_str line s rest h
    · simp [isValueTok]
    · exact scalar_case f _ st' (by simpa [need] using hf) rfl hst
  | .list [], _, ind, rest, f, line, _, _, hf => by
    refine ⟨line, fun st' hst => ⟨⟨91, .null, line, 93 :: rest⟩, ?_, ?_, ?_⟩⟩
    · simp only [toStr, List.cons_append, List.nil_append]; exact tok_punct line 91 _ (by omega)
    · simp [isValueTok]
    · simp only [need, needList] at hf
      obtain ⟨f1, rfl⟩ : ∃ f1, f = f1 + 1 + 1 := ⟨f - 2, by omega⟩
      rw [parseValue]
      simp only [isScalarTok, St.next, tok_punct line 93 rest (by omega), Res.bind, arrLoop, hst, norm, normList]
      simp
  | .list (v :: vs), h, ind, rest, f, line, hind, _, hf => by
    simp only [need] at hf
    obtain ⟨f1, rfl⟩ : ∃ f1, f = f1 + 1 := ⟨f - 1, by omega⟩
    obtain ⟨line', h1⟩ := rt_list (v :: vs) (by simp) h (ind ++ [9]) ind rest f1 (line + 1) [] hind.snoc hind (by omega)
    refine ⟨line', fun st' hst => ?_⟩
    obtain ⟨st1, hr1, _, hp1⟩ := h1 st' hst
    refine ⟨⟨91, .null, line, 10 :: (listItems (ind ++ [9]) (v :: vs) ++ 10 :: ind ++ [93]) ++ rest⟩, ?_, ?_, ?_⟩
    · rw [toStr_list_cons]
      simp only [List.cons_append, List.nil_append, List.append_assoc]
      exact tok_punct line 91 _ (by omega)
    · simp [isValueTok]
    · rw [parseValue]
      simp only [isScalarTok, St.next, List.cons_append, readToken_lf, hr1, Res.bind, hp1, norm, List.nil_append]
      simp
  | .map [], _, ind, rest, f, line, _, _, hf => by
    refine ⟨line, fun st' hst => ⟨⟨123, .null, line, 125 :: rest⟩, ?_, ?_, ?_⟩⟩
    · simp only [toStr, List.cons_append, List.nil_append]; exact tok_punct line 123 _ (by omega)
    · simp [isValueTok]
    · simp only [need, needMap] at hf
      obtain ⟨f1, rfl⟩ : ∃ f1, f = f1 + 1 + 1 := ⟨f - 2, by omega⟩
      rw [parseValue]
      simp only [isScalarTok, St.next, tok_punct line 125 rest (by omega), Res.bind, objLoop, hst, norm, normMap]
      simp
  | .map (kv :: m), h, ind, rest, f, line, hind, _, hf => by
    simp only [need] at hf
    obtain ⟨f1, rfl⟩ : ∃ f1, f = f1 + 1 := ⟨f - 1, by omega⟩
    obtain ⟨line', h1⟩ := rt_map (kv :: m) (by simp) h (ind ++ [9]) ind rest f1 (line + 1) [] hind.snoc hind
      (by omega) (by simp)
    refine ⟨line', fun st' hst => ?_⟩
    obtain ⟨st1, hr1, _, hp1⟩ := h1 st' hst
    refine ⟨⟨123, .null, line, 10 :: (mapItems (ind ++ [9]) (kv :: m) ++ 10 :: ind ++ [125]) ++ rest⟩, ?_, ?_, ?_⟩
    · rw [toStr_map_cons]
      simp only [List.cons_append, List.nil_append, List.append_assoc]
      exact tok_punct line 123 _ (by omega)
    · simp [isValueTok]
    · rw [parseValue]
      simp only [isScalarTok, St.next, List.cons_append, readToken_lf, hr1, Res.bind, hp1, norm, List.nil_append]
      simp
theorem rt_list : (l : List Val) → l ≠ [] → wfList l →
    ∀ (ni ind0 rest : List Byte) (f line : Nat) (acc : List Val), Tabs ni → Tabs ind0 → needList l ≤ f →
    RT line (listItems ni l ++ 10 :: ind0 ++ [93]) rest (fun st0 => st0.tok ≠ 93) (arrLoop f acc)
      (.list (acc ++ normList l))
  | [], hne, _, _, _, _, _, _, _, _, _, _ => absurd rfl hne
  | v :: vs, _, h, ni, ind0, rest, f, line, acc, hni, hind0, hf => by
    simp only [wfList] at h
    simp only [needList] at hf
    obtain ⟨f1, rfl⟩ : ∃ f1, f = f1 + 1 := ⟨f - 1, by omega⟩
    have IHl := rt_list vs
    cases vs with
    | nil =>
      obtain ⟨line1, h1⟩ := rt_val v h.1 ni (10 :: ind0 ++ 93 :: rest) f1 line hni ⟨10, _, rfl, Or.inl rfl⟩ (by omega)
      refine ⟨line1 + 1, fun st' hst => ?_⟩
      have hst1 : readToken line1 (10 :: ind0 ++ 93 :: rest) = .ok ⟨93, .null, line1 + 1, rest⟩ := by
        rw [List.cons_append, readToken_lf, readToken_tabs _ _ _ hind0, tok_punct _ 93 rest (by omega)]
      obtain ⟨st0, hr0, hv0, hp0⟩ := h1 _ hst1
      refine ⟨st0, ?_, (isValueTok_ne hv0).1, ?_⟩
      · rw [listItems_single]
        simp only [List.append_assoc, List.cons_append, List.nil_append]
        rw [readToken_tabs _ _ _ hni]
        simpa only [List.append_assoc, List.cons_append, List.nil_append] using hr0
      · rw [arrLoop]
        simp only [(isValueTok_ne hv0).1, if_false, hp0, Res.bind, if_true, St.next, hst, normList]
    | cons w ws =>
      obtain ⟨line1, h1⟩ := rt_val v h.1 ni (44 :: 10 :: (listItems ni (w :: ws) ++ 10 :: ind0 ++ [93]) ++ rest)
        f1 line hni ⟨44, _, rfl, Or.inr rfl⟩ (by omega)
      obtain ⟨line', h2⟩ := IHl (by simp) h.2 ni ind0 rest f1 (line1 + 1) (acc ++ [norm v]) hni hind0 (by omega)
      refine ⟨line', fun st' hst => ?_⟩
      obtain ⟨st2, hr2, _, hp2⟩ := h2 st' hst
      have hst1 := tok_punct line1 44 (10 :: (listItems ni (w :: ws) ++ 10 :: ind0 ++ [93]) ++ rest) (by omega)
      obtain ⟨st0, hr0, hv0, hp0⟩ := h1 _ hst1
      refine ⟨st0, ?_, (isValueTok_ne hv0).1, ?_⟩
      · rw [listItems_cons_cons]
        simp only [List.append_assoc, List.cons_append, List.nil_append]
        rw [readToken_tabs _ _ _ hni]
        simpa only [List.append_assoc, List.cons_append, List.nil_append] using hr0
      · rw [arrLoop]
        simp only [(isValueTok_ne hv0).1, if_false, hp0, Res.bind, St.next, List.cons_append, readToken_lf, hr2, hp2,
          normList]
        simp
theorem rt_map : (m : List (List Byte × Val)) → m ≠ [] → wfMap m →
    ∀ (ni ind0 rest : List Byte) (f line : Nat) (acc : List (List Byte × Val)), Tabs ni → Tabs ind0 →
    needMap m ≤ f → (∀ kv ∈ m, ∀ ka ∈ acc, ka.1 ≠ kv.1) →
    RT line (mapItems ni m ++ 10 :: ind0 ++ [125]) rest (fun st0 => st0.tok ≠ 125) (objLoop f acc)
      (.map (acc ++ normMap m))
  | [], hne, _, _, _, _, _, _, _, _, _, _, _ => absurd rfl hne
  | (k, v) :: m, _, h, ni, ind0, rest, f, line, acc, hni, hind0, hf, hk => by
    simp only [wfMap] at h
    simp only [needMap] at hf
    obtain ⟨hk0, hwv, hkm, hwm⟩ := h
    obtain ⟨f1, rfl⟩ : ∃ f1, f = f1 + 1 := ⟨f - 1, by omega⟩
    have IHm := rt_map m
    have hnew : mapAppend acc k (norm v) = acc ++ [(k, norm v)] :=
      mapAppend_new acc k (norm v) (fun ka hka => hk (k, v) (List.mem_cons_self) ka hka)
    -- the key token and the colon, whatever follows
    have key : ∀ (X : List Byte) (st2 : St), readToken line X = .ok st2 →
        ∀ Y, Y = ni ++ (escaped k ++ (58 :: 32 :: X)) →
        readToken line Y = .ok ⟨34, .str k, line, 58 :: 32 :: X⟩ ∧
        readToken line (58 :: 32 :: X) = .ok ⟨58, .null, line, 32 :: X⟩ ∧
        readToken line (32 :: X) = .ok st2 := by
      intro X st2 hX Y hY
      subst hY
      refine ⟨?_, ?_, ?_⟩
      · rw [readToken_tabs _ _ _ hni, tok_str line k _ hk0]
      · exact tok_punct line 58 _ (by omega)
      · rw [readToken_sp]; exact hX
    cases m with
    | nil =>
      obtain ⟨line1, h1⟩ := rt_val v hwv ni (10 :: (ind0 ++ 125 :: rest)) f1 line hni ⟨10, _, rfl, Or.inl rfl⟩ (by omega)
      refine ⟨line1 + 1, fun st' hst => ?_⟩
      have hst3 : readToken line1 (10 :: (ind0 ++ 125 :: rest)) = .ok ⟨125, .null, line1 + 1, rest⟩ := by
        rw [readToken_lf, readToken_tabs _ _ _ hind0, tok_punct _ 125 rest (by omega)]
      obtain ⟨st2, hr2, hv2, hp2⟩ := h1 _ hst3
      obtain ⟨k1, k2, k3⟩ := key _ st2 hr2 (mapItems ni [(k, v)] ++ 10 :: ind0 ++ [125] ++ rest)
        (by rw [mapItems_single]; simp only [List.append_assoc, List.cons_append, List.nil_append])
      refine ⟨_, k1, by simp, ?_⟩
      rw [objLoop]
      simp only [Val.strOf, St.next, k2, k3, Res.bind, hp2, hst, hnew, normMap]
      simp
    | cons kw ws =>
      obtain ⟨line1, h1⟩ := rt_val v hwv ni (44 :: 10 :: ((mapItems ni (kw :: ws) ++ 10 :: ind0 ++ [125]) ++ rest))
        f1 line hni ⟨44, _, rfl, Or.inr rfl⟩ (by omega)
      have hk' : ∀ kv ∈ kw :: ws, ∀ ka ∈ acc ++ [(k, norm v)], ka.1 ≠ kv.1 := by
        intro kv hkv ka hka
        rcases List.mem_append.mp hka with hka | hka
        · exact hk kv (List.mem_cons_of_mem _ hkv) ka hka
        · simp at hka; subst hka; exact fun e => hkm kv hkv e.symm
      obtain ⟨line', h2⟩ := IHm (by simp) hwm ni ind0 rest f1 (line1 + 1) (acc ++ [(k, norm v)]) hni hind0
        (by omega) hk'
      refine ⟨line', fun st' hst => ?_⟩
      obtain ⟨st4, hr4, _, hp4⟩ := h2 st' hst
      have hst3 := tok_punct line1 44 (10 :: ((mapItems ni (kw :: ws) ++ 10 :: ind0 ++ [125]) ++ rest)) (by omega)
      obtain ⟨st2, hr2, hv2, hp2⟩ := h1 _ hst3
      obtain ⟨k1, k2, k3⟩ := key _ st2 hr2 (mapItems ni ((k, v) :: kw :: ws) ++ 10 :: ind0 ++ [125] ++ rest)
        (by rw [mapItems_cons_cons]; simp only [List.append_assoc, List.cons_append, List.nil_append])
      refine ⟨_, k1, by simp, ?_⟩
      rw [objLoop]
      simp only [Val.strOf, St.next, k2, k3, Res.bind, hp2, readToken_lf, hr4, hnew, hp4, normMap]
      simp
end

mutual
theorem need_le : (v : Val) → ∀ ind : List Byte, need v ≤ 2 * (toStr ind v).length + 2
  | .null, _ => by simp [need]
  | .bool _, _ => by simp [need]
  | .dbl _, _ => by simp [need]
  | .int _, _ => by simp [need]
  | .int64 _, _ => by simp [need]
  | .str _, _ => by simp [need]
  | .list [], _ => by simp [need, needList, toStr]
  | .list (v :: vs), ind => by
    have := needList_le (v :: vs) (ind ++ [9])
    rw [toStr_list_cons]
    simp only [need, List.length_append, List.length_cons, List.length_nil] at *
    omega
  | .map [], _ => by simp [need, needMap, toStr]
  | .map (kv :: m), ind => by
    have := needMap_le (kv :: m) (ind ++ [9])
    rw [toStr_map_cons]
    simp only [need, List.length_append, List.length_cons, List.length_nil] at *
    omega
theorem needList_le : (l : List Val) → ∀ ni : List Byte, needList l ≤ 2 * (listItems ni l).length + 3
  | [], _ => by simp [needList]
  | v :: vs, ni => by
    have h1 := need_le v ni
    have h2 := needList_le vs ni
    cases vs with
    | nil =>
      rw [listItems_single]
      simp only [needList, List.length_append] at *
      omega
    | cons w ws =>
      rw [listItems_cons_cons]
      simp only [needList, List.length_append, List.length_cons, List.length_nil] at *
      omega
theorem needMap_le : (m : List (List Byte × Val)) → ∀ ni : List Byte, needMap m ≤ 2 * (mapItems ni m).length + 3
  | [], _ => by simp [needMap]
  | (k, v) :: m, ni => by
    have h1 := need_le v ni
    have h2 := needMap_le m ni
    cases m with
    | nil =>
      rw [mapItems_single]
      simp only [needMap, List.length_append] at *
      omega
    | cons kw ws =>
      rw [mapItems_cons_cons]
      simp only [needMap, List.length_append, List.length_cons, List.length_nil] at *
      omega
end

theorem normList_length : ∀ l : List Val, (normList l).length = l.length
  | [] => rfl
  | _ :: vs => by simp [normList, normList_length vs]

theorem normMap_length : ∀ m : List (List Byte × Val), (normMap m).length = m.length
  | [] => rfl
  | (_, _) :: m => by simp [normMap, normMap_length m]

mutual
theorem veq_norm : (v : Val) → wf v → veq (norm v) v = some true
  | .null, _ => by simp [norm, veq]
  | .bool _, _ => by simp [norm, veq, Val.toBoolV]
  | .dbl _, h => by simp [wf] at h
  | .int _, _ => by simp [norm, veq, Val.toIntV]
  | .int64 i, _ => by
    simp only [norm]
    split <;> simp [veq, Val.toIntV, Val.toInt64V]
  | .str _, _ => by simp [norm, veq]
  | .list l, h => by
    simp only [wf] at h
    simp [norm, veq, normList_length, veqList_norm l h]
  | .map m, h => by
    simp only [wf] at h
    simp [norm, veq, normMap_length, veqMap_norm m h]
theorem veqList_norm : (l : List Val) → wfList l → veqList (normList l) l = some true
  | [], _ => by simp [normList, veqList]
  | v :: vs, h => by
    simp only [wfList] at h
    simp [normList, veqList, veq_norm v h.1, veqList_norm vs h.2]
theorem veqMap_norm : (m : List (List Byte × Val)) → wfMap m → veqMap (normMap m) m = some true
  | [], _ => by simp [normMap, veqMap]
  | (k, v) :: m, h => by
    simp only [wfMap] at h
    simp [normMap, veqMap, veq_norm v h.2.1, veqMap_norm m h.2.2.2]
end

theorem readToken_end (line : Nat) : readToken line [10, 0] = .ok ⟨0, .null, line + 1, [0]⟩ := by
  rw [readToken_lf]
  unfold readToken
  rw [skipSpace_stop _ 0 [] (by decide) (by decide) (by decide)]
  simp [Res.bind]

/-- parsing the serialised text gives the normalised tree -/
theorem roundtrip_norm (v : Val) (h : wf v) : parse (toString v ++ [0]) = .ok (norm v) := by
  have hbuf : toString v ++ [0] = toStr [] v ++ [10, 0] := by simp [toString]
  have hf : need v ≤ parseFuel (toString v ++ [0]) := by
    have := need_le v []
    rw [hbuf]
    simp only [parseFuel, List.length_append, List.length_cons, List.length_nil]
    omega
  obtain ⟨line', h1⟩ := rt_val v h [] [10, 0] (parseFuel (toString v ++ [0])) 1 (by intro x hx; cases hx)
    ⟨10, [0], rfl, Or.inl rfl⟩ hf
  obtain ⟨st0, hr0, _, hp0⟩ := h1 _ (readToken_end line')
  unfold parse
  rw [hbuf] at hp0 ⊢
  rw [hr0]
  simp only [hp0]

end Nstd.Json
