import Nstd.Json.Rfc
/-
  Necessary conditions of the RFC 8259 grammar, as a computable check: `Rfc.Text t tr → textNec t = true`.
  `textNec` is NOT a recogniser of the grammar (it accepts more), but it is strong enough to show by
  evaluation that the texts nstd accepts beyond the RFC really are outside `Rfc.Text`.
  Imports only the grammar.
-/
set_option linter.unusedSimpArgs false
set_option linter.unusedVariables false
namespace Nstd.Json.Rfc

def wsB (c : Nat) : Bool := c == 32 || c == 9 || c == 10 || c == 13
def dB (c : Nat) : Bool := decide (48 ≤ c) && decide (c ≤ 57)

theorem wsB_of {c : Nat} (h : isWs c) : wsB c = true := by
  unfold isWs at h; rcases h with h | h | h | h <;> subst h <;> rfl

theorem dB_of {c : Nat} (h : isDigit c) : dB c = true := by
  unfold isDigit at h; simp [dB]; omega

/-! ### numbers: a strict recogniser, complete for `Number` -/

def signDigits : List Nat → Bool
  | [] => false
  | s :: ds => if s = 45 ∨ s = 43 then (!ds.isEmpty && ds.all dB) else (s :: ds).all dB

def expOK : List Nat → Bool
  | [] => true
  | e :: r => (decide (e = 101 ∨ e = 69)) && signDigits r

def fracExpOK : List Nat → Bool
  | [] => true
  | c :: r => if c = 46 then (!(r.takeWhile dB).isEmpty && expOK (r.dropWhile dB)) else expOK (c :: r)

def intOK : List Nat → Bool
  | [] => false
  | c :: r => if c = 48 then fracExpOK r else (decide (49 ≤ c) && decide (c ≤ 57) && fracExpOK (r.dropWhile dB))

def numOK : List Nat → Bool
  | [] => false
  | c :: r => if c = 45 then intOK r else intOK (c :: r)

/-- a list that does not start with a digit -/
def NoDigitHead (e : List Nat) : Prop := e = [] ∨ ∃ c r, e = c :: r ∧ dB c = false

theorem span_digits : ∀ (ds e : List Nat), (∀ d ∈ ds, dB d = true) → NoDigitHead e →
    (ds ++ e).takeWhile dB = ds ∧ (ds ++ e).dropWhile dB = e := by
  intro ds
  induction ds with
  | nil =>
    intro e _ he
    rcases he with he | ⟨c, r, he, hc⟩
    · subst he; simp
    · subst he; simp [List.takeWhile, List.dropWhile, hc]
  | cons d ds ih =>
    intro e h he
    have hd := h d List.mem_cons_self
    have := ih e (fun x hx => h x (List.mem_cons_of_mem _ hx)) he
    simp [List.takeWhile, List.dropWhile, hd, this.1, this.2]

theorem all_dB {ds : List Nat} (h : ∀ c ∈ ds, isDigit c) : ∀ d ∈ ds, dB d = true := fun d hd => dB_of (h d hd)

theorem exp_ok {e : List Nat} (h : Exp e) : expOK e = true ∧ NoDigitHead e ∧ (e = [] ∨ ∃ c r, e = c :: r ∧ c ≠ 46) := by
  cases h with
  | none => exact ⟨rfl, Or.inl rfl, Or.inl rfl⟩
  | some e' sign ds h1 h2 hds =>
    obtain ⟨hne, hall⟩ := hds
    have hd := all_dB hall
    have hall' : ds.all dB = true := by simpa using hd
    have hne' : ds.isEmpty = false := by cases ds with | nil => exact absurd rfl hne | cons _ _ => rfl
    refine ⟨?_, Or.inr ⟨e', _, rfl, by simp [dB]; omega⟩, Or.inr ⟨e', _, rfl, by omega⟩⟩
    have he' : decide (e' = 101 ∨ e' = 69) = true := by simpa using h1
    rcases h2 with h2 | h2 | h2 <;> subst h2
    · cases ds with
      | nil => exact absurd rfl hne
      | cons s ds' =>
        have hs := hd s List.mem_cons_self
        have hs' : ¬(s = 45 ∨ s = 43) := by simp [dB] at hs; omega
        simp only [List.cons_append, List.nil_append, expOK, he', signDigits, hs', if_false, Bool.true_and]
        exact hall'
    · simp only [List.cons_append, List.nil_append, expOK, he', signDigits, true_or, or_true, if_true, hne', hall']; rfl
    · simp only [List.cons_append, List.nil_append, expOK, he', signDigits, true_or, or_true, if_true, hne', hall']; rfl

theorem fracExp_ok {f e : List Nat} (hf : Frac f) (he : Exp e) :
    fracExpOK (f ++ e) = true ∧ NoDigitHead (f ++ e) := by
  obtain ⟨h1, h2, h3⟩ := exp_ok he
  cases hf with
  | none =>
    refine ⟨?_, h2⟩
    rcases h3 with h3 | ⟨c, r, h3, hc⟩
    · subst h3; rfl
    · subst h3; simp only [List.nil_append, fracExpOK, hc, if_false]; exact h1
  | some ds hds =>
    obtain ⟨hne, hall⟩ := hds
    have sp := span_digits ds e (all_dB hall) h2
    refine ⟨?_, Or.inr ⟨46, _, rfl, by decide⟩⟩
    have hne' : ds.isEmpty = false := by cases ds with | nil => exact absurd rfl hne | cons _ _ => rfl
    simp only [List.cons_append, fracExpOK, if_true, sp.1, sp.2, hne', h1]
    rfl

theorem number_ok {t : List Nat} (h : Number t) :
    numOK t = true ∧ ∃ d r, t = d :: r ∧ (d = 45 ∨ dB d = true) := by
  cases h with
  | mk minus i f e hm hi hf he =>
    obtain ⟨g1, g2⟩ := fracExp_ok hf he
    have hint : intOK (i ++ f ++ e) = true ∧ ∃ d r, i = d :: r ∧ dB d = true := by
      cases hi with
      | zero => exact ⟨by simp only [List.cons_append, List.nil_append, List.append_assoc, intOK, if_true]; exact g1, 48, [], rfl, by decide⟩
      | nonzero c ds h1 h2 h3 =>
        have sp := span_digits ds (f ++ e) (all_dB h3) g2
        have hc : c ≠ 48 := by omega
        refine ⟨?_, c, ds, rfl, by simp [dB]; omega⟩
        simp only [List.cons_append, List.append_assoc, intOK, hc, if_false, sp.2, g1]
        simp; omega
    obtain ⟨hi1, d, r, hi2, hd⟩ := hint
    rcases hm with hm | hm <;> subst hm
    · subst hi2
      have hd45 : d ≠ 45 := by simp [dB] at hd; omega
      refine ⟨?_, d, r ++ f ++ e, by simp, Or.inr hd⟩
      simp only [List.nil_append, List.cons_append, numOK, hd45, if_false]
      simpa using hi1
    · refine ⟨?_, 45, i ++ f ++ e, by simp, Or.inl rfl⟩
      simp only [List.cons_append, List.nil_append, List.append_assoc, numOK, if_true]
      simpa using hi1

theorem number_last {t : List Nat} (h : Number t) : ∃ pre d, t = pre ++ [d] ∧ dB d = true := by
  have last_of : ∀ ds : List Nat, ds ≠ [] → (∀ c ∈ ds, isDigit c) → ∃ pre d, ds = pre ++ [d] ∧ dB d = true := by
    intro ds hne hall
    refine ⟨ds.dropLast, ds.getLast hne, (List.dropLast_concat_getLast hne).symm, dB_of (hall _ (List.getLast_mem hne))⟩
  cases h with
  | mk minus i f e hm hi hf he =>
    cases he with
    | some e' sign ds h1 h2 hds =>
      obtain ⟨pre, d, hp, hd⟩ := last_of ds hds.1 hds.2
      exact ⟨minus ++ i ++ f ++ (e' :: sign ++ pre), d, by rw [hp]; simp, hd⟩
    | none =>
      cases hf with
      | some ds hds =>
        obtain ⟨pre, d, hp, hd⟩ := last_of ds hds.1 hds.2
        exact ⟨minus ++ i ++ (46 :: pre), d, by rw [hp]; simp, hd⟩
      | none =>
        cases hi with
        | zero => exact ⟨minus, 48, by simp, by decide⟩
        | nonzero c ds h1 h2 h3 =>
          cases ds with
          | nil => exact ⟨minus, c, by simp, by simp [dB]; omega⟩
          | cons x xs =>
            obtain ⟨pre, d, hp, hd⟩ := last_of (x :: xs) (by simp) h3
            exact ⟨minus ++ (c :: pre), d, by rw [hp]; simp, hd⟩

/-! ### strings -/

def escLetter (e : Nat) : Bool :=
  e == 34 || e == 92 || e == 47 || e == 98 || e == 102 || e == 110 || e == 114 || e == 116 || e == 117

/-- every backslash is followed by one of the nine escape letters -/
def escOK : List Nat → Bool
  | [] => true
  | [c] => decide (c ≠ 92)
  | c :: e :: r => if c = 92 then escLetter e && escOK r else escOK (e :: r)

theorem escOK_plain (c : Nat) (r : List Nat) (h : c ≠ 92) : escOK (c :: r) = escOK r := by
  cases r with
  | nil => simp [escOK, h]
  | cons e r' => simp [escOK, h]

theorem escOK_pair (e : Nat) (r : List Nat) : escOK (92 :: e :: r) = (escLetter e && escOK r) := by
  simp [escOK]

theorem hex_ne {c : Nat} (h : isHex c) : c ≠ 92 ∧ 32 ≤ c ∧ c ≠ 34 := by
  unfold isHex isDigit at h; omega

theorem chars_ok {body : List Nat} {is : List Item} (h : Chars body is) :
    escOK body = true ∧ body.all (fun x => decide (32 ≤ x)) = true ∧ body.all (fun x => decide (x ≠ 34) || true) = true := by
  induction h with
  | nil => exact ⟨rfl, rfl, rfl⟩
  | cons hc hr ih =>
    obtain ⟨i1, i2, _⟩ := ih
    refine ⟨?_, ?_, by simp⟩
    · cases hc with
      | unescaped c h32 h34 h92 => simp only [List.cons_append, List.nil_append]; rw [escOK_plain c _ h92]; exact i1
      | u a b c d ha hb hc hd =>
        simp only [List.cons_append, List.nil_append]
        rw [escOK_pair, escOK_plain a _ (hex_ne ha).1, escOK_plain b _ (hex_ne hb).1, escOK_plain c _ (hex_ne hc).1,
          escOK_plain d _ (hex_ne hd).1, i1]; rfl
      | _ => simp only [List.cons_append, List.nil_append]; rw [escOK_pair, i1]; rfl
    · cases hc with
      | unescaped c h32 h34 h92 => simpa [h32] using i2
      | u a b c d ha hb hc hd =>
        simpa [(hex_ne ha).2.1, (hex_ne hb).2.1, (hex_ne hc).2.1, (hex_ne hd).2.1] using i2
      | _ => simpa using i2

/-! ### first / last character that is not white space -/

def firstNonWs (t : List Nat) : Option Nat := (t.dropWhile wsB).head?
def lastNonWs (t : List Nat) : Option Nat := firstNonWs t.reverse

def vFirst (c : Nat) : Bool :=
  c == 110 || c == 116 || c == 102 || c == 34 || c == 91 || c == 123 || c == 45 || dB c
def vLast (c : Nat) : Bool := c == 108 || c == 101 || c == 34 || c == 93 || c == 125 || dB c

theorem vFirst_nws {c : Nat} (h : vFirst c = true) : wsB c = false := by
  simp [vFirst, dB] at h; simp [wsB]; omega
theorem vLast_nws {c : Nat} (h : vLast c = true) : wsB c = false := by
  simp [vLast, dB] at h; simp [wsB]; omega

theorem wsAll {a : List Nat} (h : Ws a) : ∀ x ∈ a, wsB x = true := fun x hx => wsB_of (h x hx)

theorem dw_ws : ∀ (a X : List Nat), (∀ x ∈ a, wsB x = true) → (a ++ X).dropWhile wsB = X.dropWhile wsB := by
  intro a
  induction a with
  | nil => intro X _; rfl
  | cons c a ih =>
    intro X h
    have hc := h c List.mem_cons_self
    simp only [List.cons_append, List.dropWhile, hc]
    exact ih X (fun x hx => h x (List.mem_cons_of_mem _ hx))

theorem fn_ws (a X : List Nat) (h : ∀ x ∈ a, wsB x = true) : firstNonWs (a ++ X) = firstNonWs X := by
  unfold firstNonWs; rw [dw_ws a X h]

theorem fn_head (c : Nat) (r : List Nat) (h : wsB c = false) : firstNonWs (c :: r) = some c := by
  simp [firstNonWs, List.dropWhile, h]

theorem fn_append : ∀ (X Y : List Nat) (c : Nat), firstNonWs X = some c → firstNonWs (X ++ Y) = some c := by
  intro X
  induction X with
  | nil => intro Y c h; simp [firstNonWs] at h
  | cons x X ih =>
    intro Y c h
    by_cases hx : wsB x = true
    · have e1 : firstNonWs (x :: X) = firstNonWs X := by simp [firstNonWs, List.dropWhile, hx]
      have e2 : firstNonWs (x :: X ++ Y) = firstNonWs (X ++ Y) := by simp [firstNonWs, List.dropWhile, hx]
      rw [e2]; exact ih Y c (by rw [← e1]; exact h)
    · have hx' : wsB x = false := by simpa using hx
      rw [fn_head x X hx'] at h
      rw [List.cons_append, fn_head x _ hx']; exact h

theorem revAll {b : List Nat} (h : ∀ x ∈ b, wsB x = true) : ∀ x ∈ b.reverse, wsB x = true :=
  fun x hx => h x (List.mem_reverse.mp hx)

theorem ln_ws (X b : List Nat) (h : ∀ x ∈ b, wsB x = true) : lastNonWs (X ++ b) = lastNonWs X := by
  unfold lastNonWs; rw [List.reverse_append, fn_ws _ _ (revAll h)]

theorem ln_append (X Y : List Nat) (c : Nat) (h : lastNonWs Y = some c) : lastNonWs (X ++ Y) = some c := by
  unfold lastNonWs at *; rw [List.reverse_append]; exact fn_append _ _ c h

theorem ln_last (pre : List Nat) (c : Nat) (h : wsB c = false) : lastNonWs (pre ++ [c]) = some c := by
  unfold lastNonWs; rw [List.reverse_append]; exact fn_head c _ h

/-! ### the necessary conditions -/

def innerOK (first : Nat → Bool) (inner : List Nat) : Bool :=
  (firstNonWs inner).any first && (lastNonWs inner).any vLast

def valueNec (t : List Nat) : Bool :=
  match t with
  | [] => false
  | c :: r =>
    if c = 110 then t == [110, 117, 108, 108]
    else if c = 116 then t == [116, 114, 117, 101]
    else if c = 102 then t == [102, 97, 108, 115, 101]
    else if c = 34 then r.getLast? == some 34 && r.dropLast.all (fun x => decide (32 ≤ x)) && escOK r.dropLast
    else if c = 91 then r.getLast? == some 93 && (r.dropLast.all wsB || innerOK vFirst r.dropLast)
    else if c = 123 then r.getLast? == some 125 && (r.dropLast.all wsB || innerOK (fun x => x == 34) r.dropLast)
    else numOK t

/-- strip the white space around the value -/
def trim (t : List Nat) : List Nat := ((t.dropWhile wsB).reverse.dropWhile wsB).reverse

def textNec (t : List Nat) : Bool := valueNec (trim t)

def Shape : Kind → List Nat → Prop
  | .value, t => (∃ c r, t = c :: r ∧ vFirst c = true) ∧ (∃ pre c, t = pre ++ [c] ∧ vLast c = true) ∧ valueNec t = true
  | .elems, t => innerOK vFirst t = true
  | .members, t => innerOK (fun x => x == 34) t = true

theorem str_shape {t : List Nat} {s : List Item} (h : Str t s) :
    ∃ body, t = 34 :: body ++ [34] ∧ escOK body = true ∧ body.all (fun x => decide (32 ≤ x)) = true := by
  cases h with
  | mk hch => exact ⟨_, rfl, (chars_ok hch).1, (chars_ok hch).2.1⟩

theorem innerOK_intro (first : Nat → Bool) (t : List Nat) (c d : Nat) (h1 : firstNonWs t = some c) (hc : first c = true)
    (h2 : lastNonWs t = some d) (hd : vLast d = true) : innerOK first t = true := by
  simp [innerOK, h1, h2, hc, hd]

theorem innerOK_elim {first : Nat → Bool} {t : List Nat} (h : innerOK first t = true) :
    ∃ c d, firstNonWs t = some c ∧ first c = true ∧ lastNonWs t = some d ∧ vLast d = true := by
  unfold innerOK at h
  cases h1 : firstNonWs t with
  | none => simp [h1] at h
  | some c =>
    cases h2 : lastNonWs t with
    | none => simp [h1, h2] at h
    | some d => simp [h1, h2] at h; exact ⟨c, d, rfl, h.1, rfl, h.2⟩

theorem shape {k : Kind} {t : List Nat} {tr : Tree} (h : G k t tr) : Shape k t := by
  induction h with
  | null => exact ⟨⟨110, _, rfl, rfl⟩, ⟨[110, 117, 108], 108, rfl, rfl⟩, rfl⟩
  | true_ => exact ⟨⟨116, _, rfl, rfl⟩, ⟨[116, 114, 117], 101, rfl, rfl⟩, rfl⟩
  | false_ => exact ⟨⟨102, _, rfl, rfl⟩, ⟨[102, 97, 108, 115], 101, rfl, rfl⟩, rfl⟩
  | @num t hn =>
    obtain ⟨hok, d, r, ht, hd⟩ := number_ok hn
    obtain ⟨pre, l, hl, hld⟩ := number_last hn
    refine ⟨⟨d, r, ht, ?_⟩, ⟨pre, l, hl, by simp [vLast, hld]⟩, ?_⟩
    · rcases hd with hd | hd
      · subst hd; rfl
      · simp [vFirst, hd]
    · subst ht
      have hne : d ≠ 110 ∧ d ≠ 116 ∧ d ≠ 102 ∧ d ≠ 34 ∧ d ≠ 91 ∧ d ≠ 123 := by
        rcases hd with hd | hd
        · omega
        · simp [dB] at hd; omega
      simp only [valueNec, hne.1, hne.2.1, hne.2.2.1, hne.2.2.2.1, hne.2.2.2.2.1, hne.2.2.2.2.2, if_false]
      exact hok
  | @str t s hs =>
    obtain ⟨body, ht, h1, h2⟩ := str_shape hs
    subst ht
    refine ⟨⟨34, _, rfl, rfl⟩, ⟨34 :: body, 34, by simp, rfl⟩, ?_⟩
    simp [valueNec, h1]
    simpa using h2
  | @arrEmpty w hw =>
    refine ⟨⟨91, _, rfl, rfl⟩, ⟨91 :: w, 93, by simp, rfl⟩, ?_⟩
    have : w.all wsB = true := by simpa using wsAll hw
    simp [valueNec, this]
    try (left; simpa using wsAll hw)
  | @arr t l he ih =>
    refine ⟨⟨91, _, rfl, rfl⟩, ⟨91 :: t, 93, by simp, rfl⟩, ?_⟩
    have ih' : innerOK vFirst t = true := ih
    simp [valueNec, ih']
  | @objEmpty w hw =>
    refine ⟨⟨123, _, rfl, rfl⟩, ⟨123 :: w, 125, by simp, rfl⟩, ?_⟩
    have : w.all wsB = true := by simpa using wsAll hw
    simp [valueNec, this]
    try (left; simpa using wsAll hw)
  | @obj t m he ih =>
    refine ⟨⟨123, _, rfl, rfl⟩, ⟨123 :: t, 125, by simp, rfl⟩, ?_⟩
    have ih' : innerOK (fun x => x == 34) t = true := ih
    simp [valueNec, ih']
  | @elemsOne a v b tv ha hv hb ihv =>
    obtain ⟨⟨c, r, hv1, hc⟩, ⟨pre, d, hv2, hd⟩, _⟩ := ihv
    refine innerOK_intro _ _ c d ?_ hc ?_ hd
    · rw [List.append_assoc, fn_ws a _ (wsAll ha), hv1, List.cons_append, fn_head c _ (vFirst_nws hc)]
    · rw [ln_ws _ b (wsAll hb)]; exact ln_append a v d (by rw [hv2]; exact ln_last pre d (vLast_nws hd))
  | @elemsCons a v b r tv l ha hv hb hr ihv ihr =>
    obtain ⟨⟨c, r0, hv1, hc⟩, _, _⟩ := ihv
    obtain ⟨c2, d2, _, _, hl2, hd2⟩ := innerOK_elim (show innerOK vFirst r = true from ihr)
    refine innerOK_intro _ _ c d2 ?_ hc ?_ hd2
    · rw [List.append_assoc, List.append_assoc, fn_ws a _ (wsAll ha), hv1, List.cons_append, fn_head c _ (vFirst_nws hc)]
    · exact ln_append _ (44 :: r) d2 (by
        have := ln_append [44] r d2 hl2
        simpa using this)
  | @memOne a k b c v d ks tv ha hk hb hc hv hd ihv =>
    obtain ⟨body, hk1, _, _⟩ := str_shape hk
    obtain ⟨_, ⟨pre, l, hv2, hl⟩, _⟩ := ihv
    refine innerOK_intro _ _ 34 l ?_ rfl ?_ hl
    · rw [List.append_assoc, List.append_assoc, fn_ws a _ (wsAll ha), hk1]
      simp only [List.cons_append]
      exact fn_head 34 _ rfl
    · have e : a ++ k ++ b ++ 58 :: (c ++ v ++ d) = (a ++ k ++ b ++ 58 :: c ++ v) ++ d := by simp
      rw [e, ln_ws _ d (wsAll hd)]
      exact ln_append _ v l (by rw [hv2]; exact ln_last pre l (vLast_nws hl))
  | @memCons a k b c v d r ks tv m ha hk hb hc hv hd hr ihv ihr =>
    obtain ⟨body, hk1, _, _⟩ := str_shape hk
    obtain ⟨c2, d2, _, _, hl2, hd2⟩ := innerOK_elim (show innerOK (fun x => x == 34) r = true from ihr)
    refine innerOK_intro _ _ 34 d2 ?_ rfl ?_ hd2
    · rw [List.append_assoc, List.append_assoc, List.append_assoc, fn_ws a _ (wsAll ha), hk1]
      simp only [List.cons_append]
      exact fn_head 34 _ rfl
    · exact ln_append _ (44 :: r) d2 (by
        have := ln_append [44] r d2 hl2
        simpa using this)

/-- every JSON-text of the grammar passes the necessary-condition check -/
theorem text_nec {t : List Nat} {tr : Tree} (h : Text t tr) : textNec t = true := by
  obtain ⟨a, v, b, ha, hv, hb, ht⟩ := h
  subst ht
  obtain ⟨⟨c, r, hv1, hc⟩, ⟨pre, d, hv2, hd⟩, hnec⟩ := shape hv
  have e1 : (a ++ v ++ b).dropWhile wsB = v ++ b := by
    rw [List.append_assoc, dw_ws a _ (wsAll ha), hv1]
    simp [List.dropWhile, vFirst_nws hc]
  have e2 : ((v ++ b).reverse).dropWhile wsB = v.reverse := by
    rw [List.reverse_append, dw_ws _ _ (revAll (wsAll hb)), hv2]
    simp [List.dropWhile, vLast_nws hd]
  unfold textNec trim
  rw [e1, e2, List.reverse_reverse]
  exact hnec

end Nstd.Json.Rfc
