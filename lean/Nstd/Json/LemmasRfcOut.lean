import Nstd.Json.Rfc
import Nstd.Json.LemmasRT
/-
  The text written by `Json::toString` is a JSON text in the sense of RFC 8259 (grammar of
  `Nstd/Json/Rfc.lean`), for every value tree of the property.
-/
set_option linter.unusedSimpArgs false
set_option linter.unusedVariables false
namespace Nstd.Json
open Nstd.Generated.Json

/-! ### facts about the generated escape tables (closed checks, re-run when Json.cpp changes) -/

/-- the two-character escape texts of RFC 8259 section 7: escaped byte ↦ text -/
def rfcEscapes : List (Nat × List Nat) :=
  [(34, [92, 34]), (92, [92, 92]), (47, [92, 47]), (8, [92, 98]), (12, [92, 102]), (10, [92, 110]), (13, [92, 114]),
   (9, [92, 116])]

/-- every two-character escape that `appendEscapedString` writes is one of the RFC's, with the RFC's meaning -/
theorem escTable_rfc : escTable.all (fun p => rfcEscapes.contains p) = true := by decide

theorem rfcEscapes_char {c : Nat} {t : List Nat} (h : (c, t) ∈ rfcEscapes) : Rfc.Char t (.byte c) := by
  simp only [rfcEscapes, List.mem_cons, Prod.mk.injEq, List.not_mem_nil, or_false] at h
  rcases h with ⟨rfl, rfl⟩ | ⟨rfl, rfl⟩ | ⟨rfl, rfl⟩ | ⟨rfl, rfl⟩ | ⟨rfl, rfl⟩ | ⟨rfl, rfl⟩ | ⟨rfl, rfl⟩ | ⟨rfl, rfl⟩
  · exact .quote
  · exact .backslash
  · exact .slash
  · exact .backspace
  · exact .formfeed
  · exact .linefeed
  · exact .cr
  · exact .tab

theorem esc_rfc {c : Nat} {t : List Nat} (h : lookup c escTable = some t) : Rfc.Char t (.byte c) := by
  have hm := lookup_mem _ _ _ h
  have := List.all_eq_true.mp escTable_rfc _ hm
  exact rfcEscapes_char (by simpa using this)

def isHexB (c : Nat) : Bool := (48 ≤ c && c ≤ 57) || (65 ≤ c && c ≤ 70) || (97 ≤ c && c ≤ 102)

theorem isHexB_rfc {c : Nat} (h : isHexB c = true) : Rfc.isHex c := by
  simp only [isHexB, Bool.or_eq_true, Bool.and_eq_true, decide_eq_true_eq] at h
  unfold Rfc.isHex Rfc.isDigit
  omega

/-- the digits of the `\u00XX` escapes are hexadecimal digits with the value of their index -/
theorem hexAlphabet_rfc :
    (List.range 16).all (fun k => isHexB (hexLower k) && Rfc.hexVal (hexLower k) == k) = true := by decide

theorem hexLower_rfc {k : Nat} (h : k < 16) : Rfc.isHex (hexLower k) ∧ Rfc.hexVal (hexLower k) = k := by
  have := List.all_eq_true.mp hexAlphabet_rfc k (List.mem_range.mpr h)
  simp only [Bool.and_eq_true, beq_iff_eq] at this
  exact ⟨isHexB_rfc this.1, this.2⟩

/-! ### strings -/

/-- the items `appendEscapedString` writes for a byte: `\u00XX` is a code unit, everything else a byte -/
def itemOf (c : Nat) : Rfc.Item :=
  if escSet.contains c then
    match lookup c escTable with
    | some _ => .byte c
    | none => .unit c
  else .byte c

theorem escLoop_chars : ∀ s : List Byte, 0 ∉ s → Rfc.Chars (escLoop s) (s.map itemOf) := by
  intro s
  induction s with
  | nil => intro _; simp only [escLoop, List.map_nil]; exact .nil
  | cons c s ih =>
    intro h0
    have hc : c ≠ 0 := fun e => h0 (by simp [e])
    have hs : 0 ∉ s := fun e => h0 (List.mem_cons_of_mem _ e)
    have IH := ih hs
    rw [escLoop, List.map_cons]
    simp only [hc, if_false]
    unfold itemOf
    by_cases hset : escSet.contains c = true
    · simp only [hset, if_true]
      cases hl : lookup c escTable with
      | some t => exact .cons (esc_rfc hl) IH
      | none =>
        obtain ⟨hlt, _⟩ := escDefault_ctrl hset hl
        simp only [escDefaultPrefix_eq]
        have h1 := hexLower_rfc (k := c / 16 % 16) (by omega)
        have h2 := hexLower_rfc (k := c % 16) (by omega)
        have hv : (((Rfc.hexVal 48 * 16 + Rfc.hexVal 48) * 16 + Rfc.hexVal (hexLower (c / 16 % 16))) * 16
            + Rfc.hexVal (hexLower (c % 16))) = c := by
          rw [h1.2, h2.2]; simp [Rfc.hexVal]; omega
        have hch := Rfc.Char.u 48 48 (hexLower (c / 16 % 16)) (hexLower (c % 16))
          (by simp [Rfc.isHex, Rfc.isDigit]) (by simp [Rfc.isHex, Rfc.isDigit]) h1.1 h2.1
        rw [hv] at hch
        exact .cons hch IH
    · have hset' : escSet.contains c = false := by simpa using hset
      obtain ⟨h34, h92, hge⟩ := escSet_raw hset'
      have hge' : 32 ≤ c := by rcases hge with h | h; exact absurd h hc; exact h
      simp only [hset', Bool.false_eq_true, if_false]
      exact .cons (c := [c]) (.unescaped c hge' h34 h92) IH

theorem escaped_str (s : List Byte) (h : 0 ∉ s) : Rfc.Str (escaped s) (s.map itemOf) := by
  unfold escaped
  exact .mk (escLoop_chars s h)

/-! ### numbers -/

theorem natDigits_shape (n : Nat) :
    natDigits n = [48] ∨ ∃ c ds, natDigits n = c :: ds ∧ 49 ≤ c ∧ c ≤ 57 ∧ ∀ d ∈ ds, Rfc.isDigit d := by
  fun_induction natDigits n with
  | case1 n h =>
    by_cases h0 : n = 0
    · left; simp [h0]
    · right; exact ⟨48 + n, [], rfl, by omega, by omega, by intro d hd; cases hd⟩
  | case2 n h ih =>
    right
    have hdig : Rfc.isDigit (48 + n % 10) := by unfold Rfc.isDigit; omega
    rcases ih with h0 | ⟨c, ds, hcd, h1, h2, h3⟩
    · exact ⟨48, [48 + n % 10], by rw [h0]; rfl, by
        -- natDigits (n / 10) = [48] means n / 10 = 0, impossible for n ≥ 10
        exfalso
        have := atollDigits_natDigits (n / 10)
        rw [h0] at this
        simp [atollDigits, isDigit] at this
        omega, by omega, by intro d hd; simp at hd; subst hd; exact hdig⟩
    · refine ⟨c, ds ++ [48 + n % 10], by rw [hcd]; rfl, h1, h2, ?_⟩
      intro d hd
      rcases List.mem_append.mp hd with hd | hd
      · exact h3 d hd
      · simp at hd; subst hd; exact hdig

theorem natDigits_int (n : Nat) : Rfc.IntPart (natDigits n) := by
  rcases natDigits_shape n with h | ⟨c, ds, h, h1, h2, h3⟩
  · rw [h]; exact .zero
  · rw [h]; exact .nonzero c ds h1 h2 h3

theorem fromInt_number (i : Int) : Rfc.Number (fromInt i) := by
  unfold fromInt
  split
  · have := Rfc.Number.mk [45] (natDigits (-i).toNat) [] [] (Or.inr rfl) (natDigits_int _) .none .none
    simpa using this
  · have := Rfc.Number.mk [] (natDigits i.toNat) [] [] (Or.inl rfl) (natDigits_int _) .none .none
    simpa using this

/-! ### value trees -/

theorem ws_tabs {ind : List Byte} (h : Tabs ind) : Rfc.Ws ind := by
  intro c hc; rw [h c hc]; simp [Rfc.isWs]

theorem ws_lf : Rfc.Ws [10] := by intro c hc; simp at hc; subst hc; simp [Rfc.isWs]
theorem ws_sp : Rfc.Ws [32] := by intro c hc; simp at hc; subst hc; simp [Rfc.isWs]

mutual
/-- the syntax tree of the text `toString` writes for a value -/
def treeOf : Val → Rfc.Tree
  | .null => .null
  | .bool b => .bool b
  | .dbl t => .num t
  | .int i => .num (fromInt i)
  | .int64 i => .num (fromInt i)
  | .str s => .str (s.map itemOf)
  | .list l => .arr (treeOfList l)
  | .map m => .obj (treeOfMap m)
def treeOfList : List Val → List Rfc.Tree
  | [] => []
  | v :: vs => treeOf v :: treeOfList vs
def treeOfMap : List (List Byte × Val) → List (List Rfc.Item × Rfc.Tree)
  | [] => []
  | (k, v) :: m => (k.map itemOf, treeOf v) :: treeOfMap m
end

mutual
theorem toStr_rfc : (v : Val) → wf v → ∀ ind : List Byte, Tabs ind → Rfc.G .value (toStr ind v) (treeOf v)
  | .null, _, _, _ => by simp only [toStr, treeOf]; exact .null
  | .bool true, _, _, _ => by simp only [toStr, treeOf, if_true]; exact .true_
  | .bool false, _, _, _ => by simp only [toStr, treeOf, Bool.false_eq_true, if_false]; exact .false_
  | .dbl _, h, _, _ => by simp [wf] at h
  | .int i, _, _, _ => by simp only [toStr, treeOf]; exact .num (fromInt_number i)
  | .int64 i, _, _, _ => by simp only [toStr, treeOf]; exact .num (fromInt_number i)
  | .str s, h, _, _ => by
    simp only [wf] at h
    simp only [toStr, treeOf]; exact .str (escaped_str s h)
  | .list [], _, _, _ => by
    simp only [toStr, treeOf, treeOfList]
    exact Rfc.G.arrEmpty (w := []) Rfc.Ws.nil
  | .list (v :: vs), h, ind, hind => by
    simp only [wf] at h
    have := listItems_rfc (v :: vs) (by simp) h (ind ++ [9]) [10] (10 :: ind) hind.snoc ws_lf
      (Rfc.Ws.append ws_lf (ws_tabs hind))
    rw [toStr_list_cons, treeOf]
    have e : [91, 10] ++ listItems (ind ++ [9]) (v :: vs) ++ [10] ++ ind ++ [93]
        = 91 :: ([10] ++ listItems (ind ++ [9]) (v :: vs) ++ 10 :: ind) ++ [93] := by simp
    rw [e]
    exact .arr this
  | .map [], _, _, _ => by
    simp only [toStr, treeOf, treeOfMap]
    exact Rfc.G.objEmpty (w := []) Rfc.Ws.nil
  | .map (kv :: m), h, ind, hind => by
    simp only [wf] at h
    have := mapItems_rfc (kv :: m) (by simp) h (ind ++ [9]) [10] (10 :: ind) hind.snoc ws_lf
      (Rfc.Ws.append ws_lf (ws_tabs hind))
    rw [toStr_map_cons, treeOf]
    have e : [123, 10] ++ mapItems (ind ++ [9]) (kv :: m) ++ [10] ++ ind ++ [125]
        = 123 :: ([10] ++ mapItems (ind ++ [9]) (kv :: m) ++ 10 :: ind) ++ [125] := by simp
    rw [e]
    exact .obj this
theorem listItems_rfc : (l : List Val) → l ≠ [] → wfList l → ∀ ni pre suf : List Byte, Tabs ni → Rfc.Ws pre → Rfc.Ws suf →
    Rfc.G .elems (pre ++ listItems ni l ++ suf) (.arr (treeOfList l))
  | [], hne, _, _, _, _, _, _, _ => absurd rfl hne
  | v :: vs, _, h, ni, pre, suf, hni, hpre, hsuf => by
    simp only [wfList] at h
    have hv := toStr_rfc v h.1 ni hni
    have IHl := listItems_rfc vs
    cases vs with
    | nil =>
      rw [listItems_single]
      simp only [treeOfList]
      have := Rfc.G.elemsOne (Rfc.Ws.append hpre (ws_tabs hni)) hv hsuf
      simpa only [List.append_assoc] using this
    | cons w ws =>
      have ih := IHl (by simp) h.2 ni [10] suf hni ws_lf hsuf
      rw [listItems_cons_cons]
      rw [treeOfList]
      have := Rfc.G.elemsCons (b := []) (Rfc.Ws.append hpre (ws_tabs hni)) hv Rfc.Ws.nil ih
      simpa only [List.append_assoc, List.cons_append, List.nil_append, List.append_nil] using this
theorem mapItems_rfc : (m : List (List Byte × Val)) → m ≠ [] → wfMap m → ∀ ni pre suf : List Byte, Tabs ni → Rfc.Ws pre →
    Rfc.Ws suf → Rfc.G .members (pre ++ mapItems ni m ++ suf) (.obj (treeOfMap m))
  | [], hne, _, _, _, _, _, _, _ => absurd rfl hne
  | (k, v) :: m, _, h, ni, pre, suf, hni, hpre, hsuf => by
    simp only [wfMap] at h
    obtain ⟨hk0, hwv, _, hwm⟩ := h
    have hv := toStr_rfc v hwv ni hni
    have hk := escaped_str k hk0
    have IHm := mapItems_rfc m
    cases m with
    | nil =>
      rw [mapItems_single]
      simp only [treeOfMap]
      have := Rfc.G.memOne (b := []) (Rfc.Ws.append hpre (ws_tabs hni)) hk Rfc.Ws.nil ws_sp hv hsuf
      simpa only [List.append_assoc, List.cons_append, List.nil_append, List.append_nil] using this
    | cons kw ws =>
      have ih := IHm (by simp) hwm ni [10] suf hni ws_lf hsuf
      rw [mapItems_cons_cons]
      rw [treeOfMap]
      have := Rfc.G.memCons (b := []) (d := []) (Rfc.Ws.append hpre (ws_tabs hni)) hk Rfc.Ws.nil ws_sp hv Rfc.Ws.nil ih
      simpa only [List.append_assoc, List.cons_append, List.nil_append, List.append_nil] using this
end

theorem toString_rfc (v : Val) (h : wf v) : Rfc.Text (toString v) (treeOf v) := by
  refine ⟨[], toStr [] v, [10], Rfc.Ws.nil, toStr_rfc v h [] (by intro x hx; cases hx), ws_lf, ?_⟩
  simp [toString]

end Nstd.Json
