import Nstd.Json.Model
/-
  `Json::Parser::parse(data, result)` on a `result` that already holds a value (property C15, coverage row "parse into a
  non-empty result").  `parseValue` overwrites a scalar (`result = token.value`), but `parseArray` / `parseObject` take
  `result.toList()` / `result.toMap()`: a Variant that already is a list / map keeps its items and the parsed ones are
  appended (`List::append`, `HashMap::append` with its repeated-key rule); any other kind becomes an empty container first.
  Only the top-level value is concerned: nested values are parsed into fresh `Variant()`s.
-/
namespace Nstd.Json

/-- `result.toList()` on the Variant handed to `parse` -/
def initList : Val → List Val
  | .list l => l
  | _ => []

/-- `result.toMap()` -/
def initMap : Val → List (List Byte × Val)
  | .map m => m
  | _ => []

/-- `parseValue(result)` for the top-level value, `result` holding `init` -/
def parseValueInto (f : Nat) (init : Val) (st : St) : Res (Val × St) :=
  match f with
  | 0 => .nofuel
  | f + 1 =>
    if isScalarTok st.tok then st.next.bind fun st' => .ok (st.val, st')
    else if st.tok = 91 then st.next.bind fun st1 => arrLoop f (initList init) st1
    else if st.tok = 123 then st.next.bind fun st1 => objLoop f (initMap init) st1
    else .fail st.line st.r

/-- `Json::Parser::parse(const char*, Variant&)` on a Variant holding `init` -/
def parseInto (init : Val) (buf : List Byte) : PRes :=
  match readToken 1 buf with
  | .ok st =>
    match parseValueInto (parseFuel buf) init st with
    | .ok (v, _) => .ok v
    | .fail l p => .err l (column buf p)
    | .oob => .oob
    | .nofuel => .nofuel
  | .fail l p => .err l (column buf p)
  | .oob => .oob
  | .nofuel => .nofuel

end Nstd.Json
