import Nstd.Json.LemmasBits
import Nstd.Json.LemmasAgree
/-
  Every JSON text of the RFC 8259 grammar (`Rfc.Text t tr`) whose tree has a meaning
  (`interp tr = some v`) is accepted by the model of `Json::parse`, with that meaning.
-/
set_option linter.unusedSimpArgs false
set_option linter.unusedVariables false
namespace Nstd.Json
open Nstd.Generated.Json

/-! ### white space -/

theorem skipSpace_ws : ∀ a : List Byte, Rfc.Ws a → ∀ (line : Nat) (X : List Byte), X ≠ [] →
    ∃ line', skipSpace line (a ++ X) = skipSpace line' X := by
  intro a
  induction a with
  | nil => intro _ line X _; exact ⟨line, rfl⟩
  | cons c a ih =>
    intro h line X hX
    have hc : Rfc.isWs c := h c List.mem_cons_self
    have ha : Rfc.Ws a := fun x hx => h x (List.mem_cons_of_mem _ hx)
    rw [List.cons_append, skipSpace_cons]
    by_cases h13 : c = 13
    · simp only [h13, if_true]
      cases a with
      | nil =>
        cases X with
        | nil => exact absurd rfl hX
        | cons d r' =>
          simp only [List.nil_append]
          by_cases hd : d = 10
          · subst hd; simp only [if_true]; exact ⟨line, (skipSpace_lf line r').symm⟩
          · simp only [hd, if_false]; exact ⟨line + 1, rfl⟩
      | cons d a' =>
        simp only [List.cons_append]
        by_cases hd : d = 10
        · subst hd
          simp only [if_true]
          obtain ⟨l', e⟩ := ih ha line X hX
          rw [List.cons_append, skipSpace_lf] at e
          exact ⟨l', e⟩
        · simp only [hd, if_false]
          exact ih ha (line + 1) X hX
    · simp only [h13, if_false]
      by_cases h10 : c = 10
      · simp only [h10, if_true]; exact ih ha (line + 1) X hX
      · simp only [h10, if_false]
        have hs : isSpace c = true := by
          unfold Rfc.isWs at hc
          rcases hc with e | e | e | e
          · subst e; decide
          · subst e; decide
          · exact absurd e h10
          · exact absurd e h13
        simp only [hs, if_true]
        exact ih ha line X hX

theorem readToken_ws (a : List Byte) (h : Rfc.Ws a) (line : Nat) (X : List Byte) (hX : X ≠ []) :
    ∃ line', readToken line (a ++ X) = readToken line' X := by
  obtain ⟨l', e⟩ := skipSpace_ws a h line X hX
  exact ⟨l', by unfold readToken; rw [e]⟩

/-! ### strings -/

theorem isHex_digit {c : Nat} (h : Rfc.isHex c) : isHexDigit c = true := by
  unfold Rfc.isHex Rfc.isDigit at h
  simp only [isHexDigit, isDigit, Bool.or_eq_true, Bool.and_eq_true, decide_eq_true_eq]
  omega

theorem hexVal_lt {c : Nat} (h : Rfc.isHex c) : hexVal c < 16 := by
  unfold Rfc.isHex Rfc.isDigit at h
  unfold hexVal
  split
  · omega
  · split <;> omega

theorem hexVal_eq (c : Nat) : Rfc.hexVal c = hexVal c := rfl

theorem hex4_ok (line : Nat) (a b c d : Byte) (r : List Byte) (ha : Rfc.isHex a) (hb : Rfc.isHex b)
    (hc : Rfc.isHex c) (hd : Rfc.isHex d) : hex4 line 4 [] (a :: b :: c :: d :: r) = .ok ([a, b, c, d], r) := by
  simp [hex4, isHex_digit ha, isHex_digit hb, isHex_digit hc, isHex_digit hd]

theorem scanHex4 (a b c d : Byte) :
    scanHex [a, b, c, d] = ((hexVal a * 16 + hexVal b) * 16 + hexVal c) * 16 + hexVal d := by
  simp [scanHex]

theorem readStr_plain (f line : Nat) (acc : List Byte) (c : Byte) (r : List Byte)
    (h32 : 32 ≤ c) (h34 : c ≠ 34) (h92 : c ≠ 92) :
    readStr (f + 1) line acc (c :: r) = readStr f line (acc ++ [c]) r := by
  rw [readStr_cons]
  have h0 : c ≠ 0 := by omega
  have h13 : c ≠ 13 := by omega
  have h10 : c ≠ 10 := by omega
  simp only [h0, h13, h10, h34, h92, if_false]

theorem readStr_escape (f line : Nat) (acc : List Byte) (e b : Byte) (r : List Byte) (h : unesc e = some b) :
    readStr (f + 1) line acc (92 :: e :: r) = readStr f line (acc ++ [b]) r := by
  rw [readStr_cons]
  simp [h]

/-- the eight two-character escapes of the RFC are cases of the tokenizer's switch, with the RFC's meaning
    (closed checks over the generated table) -/
theorem unesc_rfc : unesc 34 = some 34 ∧ unesc 92 = some 92 ∧ unesc 47 = some 47 ∧ unesc 98 = some 8 ∧
    unesc 102 = some 12 ∧ unesc 110 = some 10 ∧ unesc 114 = some 13 ∧ unesc 116 = some 9 := by decide

theorem step_byte {c : List Byte} {b : Byte} (h : Rfc.Char c (.byte b)) (f line : Nat) (acc X : List Byte) :
    readStr (f + 1) line acc (c ++ X) = readStr f line (acc ++ [b]) X := by
  obtain ⟨u1, u2, u3, u4, u5, u6, u7, u8⟩ := unesc_rfc
  cases h with
  | unescaped _ h32 h34 h92 => exact readStr_plain f line acc b X h32 h34 h92
  | quote => exact readStr_escape f line acc _ _ X u1
  | backslash => exact readStr_escape f line acc _ _ X u2
  | slash => exact readStr_escape f line acc _ _ X u3
  | backspace => exact readStr_escape f line acc _ _ X u4
  | formfeed => exact readStr_escape f line acc _ _ X u5
  | linefeed => exact readStr_escape f line acc _ _ X u6
  | cr => exact readStr_escape f line acc _ _ X u7
  | tab => exact readStr_escape f line acc _ _ X u8

theorem char_unit_inv {c : List Byte} {w : Nat} (h : Rfc.Char c (.unit w)) :
    ∃ a b c' d, c = [92, 117, a, b, c', d] ∧ Rfc.isHex a ∧ Rfc.isHex b ∧ Rfc.isHex c' ∧ Rfc.isHex d ∧
      w = ((hexVal a * 16 + hexVal b) * 16 + hexVal c') * 16 + hexVal d := by
  cases h with
  | u a b c' d ha hb hc hd => exact ⟨a, b, c', d, rfl, ha, hb, hc, hd, rfl⟩

theorem chars_nil_inv {body : List Byte} (h : Rfc.Chars body []) : body = [] := by
  cases h; rfl

theorem chars_cons_inv {body : List Byte} {i : Rfc.Item} {is : List Rfc.Item} (h : Rfc.Chars body (i :: is)) :
    ∃ c r, body = c ++ r ∧ Rfc.Char c i ∧ Rfc.Chars r is := by
  cases h with
  | cons h1 h2 => exact ⟨_, _, rfl, h1, h2⟩

theorem char_len {c : List Byte} {i : Rfc.Item} (h : Rfc.Char c i) : 1 ≤ c.length := by
  cases h <;> simp

/-- a `\uXXXX` that is not a high surrogate -/
theorem step_unit (f line : Nat) (acc : List Byte) (a b c d : Byte) (X : List Byte)
    (ha : Rfc.isHex a) (hb : Rfc.isHex b) (hc : Rfc.isHex c) (hd : Rfc.isHex d)
    (hw : isHighSur (((hexVal a * 16 + hexVal b) * 16 + hexVal c) * 16 + hexVal d) = false) :
    readStr (f + 1) line acc ([92, 117, a, b, c, d] ++ X)
      = readStr f line (acc ++ Nstd.Codec.Spec.utf8 (((hexVal a * 16 + hexVal b) * 16 + hexVal c) * 16 + hexVal d)) X := by
  have h1 := hexVal_lt ha; have h2 := hexVal_lt hb; have h3 := hexVal_lt hc; have h4 := hexVal_lt hd
  have hlt : ((hexVal a * 16 + hexVal b) * 16 + hexVal c) * 16 + hexVal d < 65536 := by omega
  have hnot : ¬((((hexVal a * 16 + hexVal b) * 16 + hexVal c) * 16 + hexVal d) &&& 0xF800 = 0xD800 ∧
      (((hexVal a * 16 + hexVal b) * 16 + hexVal c) * 16 + hexVal d) &&& 0xFC00 = 0xD800) := by
    rw [high_iff _ hlt, hw]; simp
  simp only [List.cons_append, List.nil_append]
  rw [readStr_cons]
  simp only [(by decide : (92:Nat) ≠ 0), (by decide : (92:Nat) ≠ 13), (by decide : (92:Nat) ≠ 10), if_false, if_true,
    unesc_u, hex4_ok line a b c d X ha hb hc hd, Res.bind, scanHex4, hnot]
  rw [utf8_eq_spec _ (by omega)]

/-- a high surrogate followed by a `\u` low surrogate -/
theorem step_pair (f line : Nat) (acc : List Byte) (a b c d a2 b2 c2 d2 : Byte) (X : List Byte)
    (ha : Rfc.isHex a) (hb : Rfc.isHex b) (hc : Rfc.isHex c) (hd : Rfc.isHex d)
    (ha2 : Rfc.isHex a2) (hb2 : Rfc.isHex b2) (hc2 : Rfc.isHex c2) (hd2 : Rfc.isHex d2)
    (hw : isHighSur (((hexVal a * 16 + hexVal b) * 16 + hexVal c) * 16 + hexVal d) = true)
    (hw2 : isLowSur (((hexVal a2 * 16 + hexVal b2) * 16 + hexVal c2) * 16 + hexVal d2) = true) :
    readStr (f + 1) line acc ([92, 117, a, b, c, d] ++ ([92, 117, a2, b2, c2, d2] ++ X))
      = readStr f line (acc ++ Nstd.Codec.Spec.utf8 (pairCp (((hexVal a * 16 + hexVal b) * 16 + hexVal c) * 16 + hexVal d)
          (((hexVal a2 * 16 + hexVal b2) * 16 + hexVal c2) * 16 + hexVal d2))) X := by
  have h1 := hexVal_lt ha; have h2 := hexVal_lt hb; have h3 := hexVal_lt hc; have h4 := hexVal_lt hd
  have g1 := hexVal_lt ha2; have g2 := hexVal_lt hb2; have g3 := hexVal_lt hc2; have g4 := hexVal_lt hd2
  have hlt : ((hexVal a * 16 + hexVal b) * 16 + hexVal c) * 16 + hexVal d < 65536 := by omega
  have hlt2 : ((hexVal a2 * 16 + hexVal b2) * 16 + hexVal c2) * 16 + hexVal d2 < 65536 := by omega
  have hyes := (high_iff _ hlt).mpr hw
  have hlow := (low_iff _ hlt2).mpr hw2
  have hpair := pair_eq _ _ hw hw2
  have hcp : pairCp (((hexVal a * 16 + hexVal b) * 16 + hexVal c) * 16 + hexVal d)
      (((hexVal a2 * 16 + hexVal b2) * 16 + hexVal c2) * 16 + hexVal d2) < 0x110000 := by
    simp only [isHighSur, isLowSur, Bool.and_eq_true, decide_eq_true_eq] at hw hw2
    unfold pairCp; omega
  simp only [List.cons_append, List.nil_append]
  rw [readStr_cons]
  simp only [(by decide : (92:Nat) ≠ 0), (by decide : (92:Nat) ≠ 13), (by decide : (92:Nat) ≠ 10), if_false, if_true,
    unesc_u, hex4_ok line a b c d _ ha hb hc hd, hex4_ok line a2 b2 c2 d2 X ha2 hb2 hc2 hd2, Res.bind, scanHex4, hyes,
    and_self, ne_eq, not_true_eq_false, hlow, hpair]
  rw [utf8_eq_spec _ hcp]

theorem map_some {α β : Type} {o : Option α} {g : α → β} {y : β} (h : o.map g = some y) : ∃ x, o = some x ∧ y = g x := by
  cases o with
  | none => simp at h
  | some x => simp at h; exact ⟨x, rfl, h.symm⟩

set_option maxRecDepth 4000 in
theorem readStr_chars : ∀ (n : Nat) (is : List Rfc.Item), is.length ≤ n → ∀ (body bs : List Byte),
    Rfc.Chars body is → decodeItems is = some bs → ∀ (f line : Nat) (acc rest : List Byte), body.length + 1 ≤ f →
    readStr f line acc (body ++ 34 :: rest) = .ok (line, acc ++ bs, rest) := by
  intro n
  induction n with
  | zero =>
    intro is hn body bs hch hd f line acc rest hf
    have : is = [] := List.eq_nil_of_length_eq_zero (by omega)
    subst this
    have hb := chars_nil_inv hch
    subst hb
    simp only [decodeItems, Option.some.injEq] at hd
    subst hd
    obtain ⟨f', rfl⟩ : ∃ f', f = f' + 1 := ⟨f - 1, by simp at hf; omega⟩
    simp [readStr_cons]
  | succ n ih =>
    intro is hn body bs hch hd f line acc rest hf
    cases is with
    | nil => exact ih [] (by simp) body bs hch hd f line acc rest hf
    | cons i is' =>
      obtain ⟨c, r, hbody, hchar, hrest⟩ := chars_cons_inv hch
      subst hbody
      have hclen := char_len hchar
      obtain ⟨f', rfl⟩ : ∃ f', f = f' + 1 := ⟨f - 1, by omega⟩
      simp only [List.length_append] at hf
      simp only [List.length_cons] at hn
      cases i with
      | byte b =>
        simp only [decodeItems] at hd
        obtain ⟨bs', hd', hbs⟩ := map_some hd
        subst hbs
        rw [List.append_assoc, step_byte hchar, ih is' (by omega) r bs' hrest hd' f' line _ rest (by omega)]
        simp
      | unit w =>
        obtain ⟨a, b, c', d, hc, ha, hb, hc', hdd, hw⟩ := char_unit_inv hchar
        subst hc
        by_cases hhigh : isHighSur w = true
        · cases is' with
          | nil => simp [decodeItems, hhigh] at hd
          | cons i2 is'' =>
            cases i2 with
            | byte b2 => simp [decodeItems, hhigh] at hd
            | unit w2 =>
              simp only [decodeItems, hhigh, if_true] at hd
              by_cases hlow : isLowSur w2 = true
              · simp only [hlow, if_true] at hd
                obtain ⟨bs', hd', hbs⟩ := map_some hd
                rw [hbs]
                clear hbs hd
                obtain ⟨c2, r2, hr, hchar2, hrest2⟩ := chars_cons_inv hrest
                subst hr
                obtain ⟨a2, b2, c2', d2, hc2, ha2, hb2, hc2', hd2, hw2⟩ := char_unit_inv hchar2
                subst hc2
                subst hw
                subst hw2
                simp only [List.length_cons, List.length_append, List.length_nil] at hf hn
                rw [List.append_assoc, List.append_assoc, step_pair f' line acc a b c' d a2 b2 c2' d2 _ ha hb hc' hdd ha2 hb2 hc2' hd2 hhigh hlow,
                  ih is'' (by omega) r2 bs' hrest2 hd' f' line _ rest (by omega)]
                simp
              · simp only [hlow, Bool.false_eq_true, if_false] at hd
                cases hd
        · have hhigh' : isHighSur w = false := by simpa using hhigh
          have hd2 : decodeItems (.unit w :: is') = (decodeItems is').map (fun s => Nstd.Codec.Spec.utf8 w ++ s) := by
            cases is' with
            | nil => simp [decodeItems, hhigh']
            | cons i2 is'' => cases i2 <;> simp [decodeItems, hhigh']
          rw [hd2] at hd
          obtain ⟨bs', hd', hbs⟩ := map_some hd
          subst hbs
          subst hw
          rw [List.append_assoc, step_unit f' line acc a b c' d _ ha hb hc' hdd hhigh',
            ih is' (by omega) r bs' hrest hd' f' line _ rest (by omega)]
          simp

theorem tok_rfc_str {t : List Byte} {is : List Rfc.Item} {bs : List Byte} (h : Rfc.Str t is)
    (hd : decodeItems is = some bs) (line : Nat) (rest : List Byte) :
    readToken line (t ++ rest) = .ok ⟨34, .str bs, line, rest⟩ := by
  cases h with
  | mk hch =>
    rename_i body
    unfold readToken
    simp only [List.cons_append, List.append_assoc, List.nil_append]
    rw [skipSpace_stop line 34 _ (by decide) (by decide) (by decide)]
    have key : ∀ f, body.length + 1 ≤ f → readStr f line [] (body ++ 34 :: rest) = .ok (line, bs, rest) := by
      intro f hf; simpa using readStr_chars is.length is (Nat.le_refl _) body bs hch hd f line [] rest hf
    simp [Res.bind]
    rw [key _ (by omega)]

/-! ### numbers -/

def NumCh (c : Byte) : Prop := c = 69 ∨ c = 101 ∨ c = 45 ∨ c = 43 ∨ c = 46 ∨ isDigit c = true

theorem numLoop_all : ∀ (ds n : List Byte) (dbl : Bool) (c : Byte) (r : List Byte),
    (∀ x ∈ ds, NumCh x) → NumStop c →
    numLoop n dbl (ds ++ c :: r) = .ok (n ++ ds, dbl || ds.contains 46, c :: r) := by
  intro ds
  induction ds with
  | nil =>
    intro n dbl c r _ hc
    obtain ⟨h1, h2, h3⟩ := hc
    simp [numLoop, h1, h2, h3]
  | cons d ds ih =>
    intro n dbl c r h hc
    have hd := h d (List.mem_cons_self)
    have IH := fun dbl' => ih (n ++ [d]) dbl' c r (fun x hx => h x (List.mem_cons_of_mem _ hx)) hc
    rw [List.cons_append, numLoop]
    by_cases q1 : d = 69 ∨ d = 101 ∨ d = 45 ∨ d = 43
    · rw [if_pos q1, IH]
      have : d ≠ 46 := by omega
      simp [List.contains_cons, this, Ne.symm this]
    · rw [if_neg q1]
      by_cases q2 : d = 46
      · rw [if_pos q2, IH]; subst q2; simp [List.contains_cons]
      · rw [if_neg q2]
        have hdig : isDigit d = true := by
          unfold NumCh at hd
          rcases hd with h | h | h | h | h | h
          · exact absurd (Or.inl h) q1
          · exact absurd (Or.inr (Or.inl h)) q1
          · exact absurd (Or.inr (Or.inr (Or.inl h))) q1
          · exact absurd (Or.inr (Or.inr (Or.inr h))) q1
          · exact absurd h q2
          · exact h
        rw [if_pos hdig, IH]
        simp [List.contains_cons, q2, Ne.symm q2]

theorem rfcDigit {d : Byte} (h : Rfc.isDigit d) : isDigit d = true := by
  unfold Rfc.isDigit at h; simp [isDigit]; omega

theorem number_chars {t : List Byte} (h : Rfc.Number t) :
    (∀ x ∈ t, NumCh x) ∧ ∃ d ds, t = d :: ds ∧ (d = 45 ∨ isDigit d = true) := by
  cases h with
  | mk minus i f e hm hi hf he =>
    have hI : (∀ x ∈ i, NumCh x) ∧ ∃ d ds, i = d :: ds ∧ isDigit d = true := by
      cases hi with
      | zero => exact ⟨by intro x hx; simp at hx; subst hx; simp [NumCh, isDigit], 48, [], rfl, by decide⟩
      | nonzero c ds h1 h2 h3 =>
        refine ⟨?_, c, ds, rfl, by simp [isDigit]; omega⟩
        intro x hx
        rcases List.mem_cons.mp hx with hx | hx
        · subst hx; right; right; right; right; right; simp [isDigit]; omega
        · right; right; right; right; right; exact rfcDigit (h3 x hx)
    have hF : ∀ x ∈ f, NumCh x := by
      cases hf with
      | none => intro x hx; cases hx
      | some ds hds =>
        intro x hx
        rcases List.mem_cons.mp hx with hx | hx
        · subst hx; simp [NumCh]
        · right; right; right; right; right; exact rfcDigit (hds.2 x hx)
    have hE : ∀ x ∈ e, NumCh x := by
      cases he with
      | none => intro x hx; cases hx
      | some e' sign ds h1 h2 hds =>
        intro x hx
        rcases List.mem_cons.mp hx with hx | hx
        · subst hx; unfold NumCh; omega
        · rcases List.mem_append.mp hx with hx | hx
          · rcases h2 with h2 | h2 | h2 <;> subst h2 <;> simp at hx <;> subst hx <;> simp [NumCh]
          · right; right; right; right; right; exact rfcDigit (hds.2 x hx)
    have hM : ∀ x ∈ minus, NumCh x := by
      rcases hm with hm | hm <;> subst hm <;> intro x hx <;> simp at hx
      subst hx; simp [NumCh]
    refine ⟨?_, ?_⟩
    · intro x hx
      simp only [List.mem_append] at hx
      rcases hx with ((hx | hx) | hx) | hx
      · exact hM x hx
      · exact hI.1 x hx
      · exact hF x hx
      · exact hE x hx
    · obtain ⟨d, ds, hi', hd⟩ := hI.2
      rcases hm with hm | hm <;> subst hm
      · exact ⟨d, ds ++ f ++ e, by rw [hi']; simp, Or.inr hd⟩
      · exact ⟨45, i ++ f ++ e, by simp, Or.inl rfl⟩

theorem tok_rfc_num {t : List Byte} (h : Rfc.Number t) (line : Nat) (c : Byte) (r : List Byte) (hc : NumStop c) :
    readToken line (t ++ c :: r) = .ok ⟨35, numVal t (t.contains 46), line, c :: r⟩ := by
  obtain ⟨hch, d, ds, ht, hd⟩ := number_chars h
  subst ht
  have hrange : d = 45 ∨ (48 ≤ d ∧ d ≤ 57) := by
    rcases hd with h | h
    · left; exact h
    · right; simpa [isDigit] using h
  have hs : isSpace d = false := by simp [isSpace]; omega
  unfold readToken
  rw [List.cons_append, skipSpace_stop line d _ (by omega) (by omega) hs]
  have := numLoop_all (d :: ds) [] false c r hch hc
  simp only [List.cons_append, List.nil_append, Bool.false_or] at this
  have h0 : d ≠ 0 := by omega
  have hp : ¬(d = 123 ∨ d = 125 ∨ d = 91 ∨ d = 93 ∨ d = 44 ∨ d = 58) := by omega
  have h34 : d ≠ 34 := by omega
  have h116 : d ≠ 116 := by omega
  have h102 : d ≠ 102 := by omega
  have h110 : d ≠ 110 := by omega
  simp only [Res.bind, h0, hp, h34, h116, h102, h110, hd, if_false, if_true, this]

/-! ### values -/

/-- what follows a value in a JSON text: white space, `,`, `]`, `}` or the terminator -/
def Delim (rest : List Byte) : Prop :=
  ∃ c r, rest = c :: r ∧ (Rfc.isWs c ∨ c = 44 ∨ c = 93 ∨ c = 125 ∨ c = 0)

theorem Delim.numStop {rest : List Byte} (h : Delim rest) : ∃ c r, rest = c :: r ∧ NumStop c := by
  obtain ⟨c, r, e, hc⟩ := h
  refine ⟨c, r, e, ?_⟩
  unfold Rfc.isWs at hc
  rcases hc with (hc | hc | hc | hc) | hc | hc | hc | hc <;> subst hc <;> simp [NumStop, isDigit]

theorem delim_ws {b : List Byte} (hb : Rfc.Ws b) (c : Byte) (R : List Byte)
    (hc : c = 44 ∨ c = 93 ∨ c = 125 ∨ c = 0) : Delim (b ++ c :: R) := by
  cases b with
  | nil => exact ⟨c, R, rfl, Or.inr hc⟩
  | cons x b' => exact ⟨x, b' ++ c :: R, rfl, Or.inl (hb x List.mem_cons_self)⟩

/-- `RT` of LemmasRT with the fuel quantified: every budget from `f0` on works -/
def RTe (line : Nat) (text rest : List Byte) (P : St → Prop) (run : Nat → St → Res (Val × St)) (result : Val) : Prop :=
  ∃ line' f0, ∀ st', readToken line' rest = .ok st' →
    ∃ st0, readToken line (text ++ rest) = .ok st0 ∧ P st0 ∧ ∀ f, f0 ≤ f → run f st0 = .ok (result, st')

def Acc : Rfc.Kind → List Byte → Rfc.Tree → Prop
  | .value, t, tr => ∀ v, interp tr = some v → ∀ line rest, Delim rest →
      RTe line t rest (fun st0 => isValueTok st0.tok) parseValue v
  | .elems, t, tr => ∀ l vs, tr = .arr l → interpList l = some vs → ∀ line rest acc,
      RTe line (t ++ [93]) rest (fun st0 => st0.tok ≠ 93) (fun f => arrLoop f acc) (.list (acc ++ vs))
  | .members, t, tr => ∀ m, tr = .obj m → ∀ acc res, interpMembers m acc = some res → ∀ line rest,
      RTe line (t ++ [125]) rest (fun st0 => st0.tok ≠ 125) (fun f => objLoop f acc) (.map res)

theorem scalar_RTe (line : Nat) (t rest : List Byte) (tok : Byte) (v : Val) (r0 : List Byte)
    (htok : readToken line (t ++ rest) = .ok ⟨tok, v, line, r0⟩) (hr0 : r0 = rest)
    (hs : isScalarTok tok = true) (hv : isValueTok tok) :
    RTe line t rest (fun st0 => isValueTok st0.tok) parseValue v := by
  subst hr0
  exact ⟨line, 1, fun st' hst => ⟨_, htok, hv, fun f hf => scalar_case f _ st' hf hs hst⟩⟩

theorem interpList_cons {t : Rfc.Tree} {ts : List Rfc.Tree} {vs : List Val} (h : interpList (t :: ts) = some vs) :
    ∃ v vs', interp t = some v ∧ interpList ts = some vs' ∧ vs = v :: vs' := by
  rw [interpList] at h
  cases h1 : interp t with
  | none => simp [h1] at h
  | some v =>
    cases h2 : interpList ts with
    | none => simp [h1, h2] at h
    | some vs' => simp [h1, h2] at h; exact ⟨v, vs', rfl, rfl, h.symm⟩

theorem interpMembers_cons {k : List Rfc.Item} {t : Rfc.Tree} {m : List (List Rfc.Item × Rfc.Tree)}
    {acc res : List (List Byte × Val)} (h : interpMembers ((k, t) :: m) acc = some res) :
    ∃ kb v, decodeItems k = some kb ∧ interp t = some v ∧ interpMembers m (mapAppend acc kb v) = some res := by
  rw [interpMembers] at h
  cases h1 : decodeItems k with
  | none => simp [h1] at h
  | some kb =>
    cases h2 : interp t with
    | none => simp [h1, h2] at h
    | some v => simp [h1, h2] at h; exact ⟨kb, v, rfl, rfl, h⟩

theorem cons_ne_nil' {α : Type} (a : α) (l : List α) : a :: l ≠ [] := by simp

theorem accept_G {k : Rfc.Kind} {t : List Byte} {tr : Rfc.Tree} (h : Rfc.G k t tr) : Acc k t tr := by
  induction h with
  | null =>
    intro v hv line rest _
    simp only [interp, Option.some.injEq] at hv; subst hv
    exact scalar_RTe line _ rest 110 .null rest (tok_null line rest) rfl rfl (by simp [isValueTok])
  | true_ =>
    intro v hv line rest _
    simp only [interp, Option.some.injEq] at hv; subst hv
    exact scalar_RTe line _ rest 116 (.bool true) rest (tok_true line rest) rfl rfl (by simp [isValueTok])
  | false_ =>
    intro v hv line rest _
    simp only [interp, Option.some.injEq] at hv; subst hv
    exact scalar_RTe line _ rest 102 (.bool false) rest (tok_false line rest) rfl rfl (by simp [isValueTok])
  | num hn =>
    intro v hv line rest hd
    simp only [interp, Option.some.injEq] at hv; subst hv
    obtain ⟨c, r, hr, hc⟩ := hd.numStop
    subst hr
    exact scalar_RTe line _ (c :: r) 35 _ (c :: r) (tok_rfc_num hn line c r hc) rfl rfl (by simp [isValueTok])
  | str hs =>
    intro v hv line rest _
    simp only [interp] at hv
    obtain ⟨bs, hd, hv'⟩ := map_some hv
    subst hv'
    exact scalar_RTe line _ rest 34 (.str bs) rest (tok_rfc_str hs hd line rest) rfl rfl (by simp [isValueTok])
  | @arrEmpty w hw =>
    intro v hv line rest _
    simp only [interp, interpList, Option.map_some, Option.some.injEq] at hv; subst hv
    obtain ⟨l1, e1⟩ := readToken_ws w hw line (93 :: rest) (cons_ne_nil' _ _)
    refine ⟨l1, 2, fun st' hst => ⟨⟨91, .null, line, w ++ 93 :: rest⟩, ?_, by simp [isValueTok], ?_⟩⟩
    · simp only [List.cons_append, List.append_assoc, List.nil_append]
      exact tok_punct line 91 _ (by omega)
    · intro f hf
      obtain ⟨f1, rfl⟩ : ∃ f1, f = f1 + 1 + 1 := ⟨f - 2, by omega⟩
      rw [parseValue]
      simp only [isScalarTok, St.next, e1, tok_punct l1 93 rest (by omega), Res.bind, arrLoop, hst]
      simp
  | @arr t l hel ih =>
    intro v hv line rest _
    simp only [interp] at hv
    obtain ⟨vs, hvs, hv'⟩ := map_some hv
    subst hv'
    obtain ⟨l', f0, h1⟩ := ih l vs rfl hvs line rest []
    refine ⟨l', f0 + 1, fun st' hst => ?_⟩
    obtain ⟨st0, hr0, _, hp0⟩ := h1 st' hst
    refine ⟨⟨91, .null, line, t ++ [93] ++ rest⟩, ?_, by simp [isValueTok], ?_⟩
    · simp only [List.cons_append, List.append_assoc, List.nil_append]
      exact tok_punct line 91 _ (by omega)
    · intro f hf
      obtain ⟨f1, rfl⟩ : ∃ f1, f = f1 + 1 := ⟨f - 1, by omega⟩
      rw [parseValue]
      simp only [isScalarTok, St.next, hr0, Res.bind, hp0 f1 (by omega), List.nil_append]
      simp
  | @objEmpty w hw =>
    intro v hv line rest _
    simp only [interp, interpMembers, Option.map_some, Option.some.injEq] at hv; subst hv
    obtain ⟨l1, e1⟩ := readToken_ws w hw line (125 :: rest) (cons_ne_nil' _ _)
    refine ⟨l1, 2, fun st' hst => ⟨⟨123, .null, line, w ++ 125 :: rest⟩, ?_, by simp [isValueTok], ?_⟩⟩
    · simp only [List.cons_append, List.append_assoc, List.nil_append]
      exact tok_punct line 123 _ (by omega)
    · intro f hf
      obtain ⟨f1, rfl⟩ : ∃ f1, f = f1 + 1 + 1 := ⟨f - 2, by omega⟩
      rw [parseValue]
      simp only [isScalarTok, St.next, e1, tok_punct l1 125 rest (by omega), Res.bind, objLoop, hst]
      simp
  | @obj t m hel ih =>
    intro v hv line rest _
    simp only [interp] at hv
    obtain ⟨res, hres, hv'⟩ := map_some hv
    subst hv'
    obtain ⟨l', f0, h1⟩ := ih m rfl [] res hres line rest
    refine ⟨l', f0 + 1, fun st' hst => ?_⟩
    obtain ⟨st0, hr0, _, hp0⟩ := h1 st' hst
    refine ⟨⟨123, .null, line, t ++ [125] ++ rest⟩, ?_, by simp [isValueTok], ?_⟩
    · simp only [List.cons_append, List.append_assoc, List.nil_append]
      exact tok_punct line 123 _ (by omega)
    · intro f hf
      obtain ⟨f1, rfl⟩ : ∃ f1, f = f1 + 1 := ⟨f - 1, by omega⟩
      rw [parseValue]
      simp only [isScalarTok, St.next, hr0, Res.bind, hp0 f1 (by omega)]
      simp
  | @elemsOne a v b tv ha hv hb ihv =>
    intro l vs hl hvs line rest acc
    simp only [Rfc.Tree.arr.injEq] at hl; subst hl
    obtain ⟨x, vs', hx, hvs', hvs''⟩ := interpList_cons hvs
    simp only [interpList, Option.some.injEq] at hvs'; subst hvs'; subst hvs''
    obtain ⟨l1, e1⟩ := readToken_ws a ha line (v ++ (b ++ 93 :: rest)) (by
      intro e; have := congrArg List.length e; simp at this)
    obtain ⟨l2, f0, h1⟩ := ihv x hx l1 (b ++ 93 :: rest) (delim_ws hb 93 rest (by omega))
    obtain ⟨l3, e3⟩ := readToken_ws b hb l2 (93 :: rest) (cons_ne_nil' _ _)
    have hst93 : readToken l2 (b ++ 93 :: rest) = .ok ⟨93, .null, l3, rest⟩ := by
      rw [e3, tok_punct l3 93 rest (by omega)]
    obtain ⟨st0, hr0, hv0, hp0⟩ := h1 _ hst93
    refine ⟨l3, f0 + 1, fun st' hst => ⟨st0, ?_, (isValueTok_ne hv0).1, ?_⟩⟩
    · simp only [List.append_assoc, List.cons_append, List.nil_append]
      rw [e1]; exact hr0
    · intro f hf
      obtain ⟨f1, rfl⟩ : ∃ f1, f = f1 + 1 := ⟨f - 1, by omega⟩
      simp only
      rw [arrLoop]
      simp only [(isValueTok_ne hv0).1, if_false, hp0 f1 (by omega), Res.bind, if_true, St.next, hst]
  | @elemsCons a v b r tv l ha hv hb hr ihv ihr =>
    intro l0 vs hl hvs line rest acc
    simp only [Rfc.Tree.arr.injEq] at hl; subst hl
    obtain ⟨x, vs', hx, hvs', hvs''⟩ := interpList_cons hvs
    subst hvs''
    obtain ⟨l1, e1⟩ := readToken_ws a ha line (v ++ (b ++ 44 :: (r ++ [93] ++ rest))) (by
      intro e; have := congrArg List.length e; simp at this)
    obtain ⟨l2, f1, h1⟩ := ihv x hx l1 (b ++ 44 :: (r ++ [93] ++ rest)) (delim_ws hb 44 _ (by omega))
    obtain ⟨l3, e3⟩ := readToken_ws b hb l2 (44 :: (r ++ [93] ++ rest)) (cons_ne_nil' _ _)
    have hst44 : readToken l2 (b ++ 44 :: (r ++ [93] ++ rest)) = .ok ⟨44, .null, l3, r ++ [93] ++ rest⟩ := by
      rw [e3, tok_punct l3 44 _ (by omega)]
    obtain ⟨st0, hr0, hv0, hp0⟩ := h1 _ hst44
    obtain ⟨l4, f2, h2⟩ := ihr l vs' rfl hvs' l3 rest (acc ++ [x])
    refine ⟨l4, f1 + f2 + 1, fun st' hst => ?_⟩
    obtain ⟨st2, hr2, _, hp2⟩ := h2 st' hst
    refine ⟨st0, ?_, (isValueTok_ne hv0).1, ?_⟩
    · simp only [List.append_assoc, List.cons_append, List.nil_append] at hr0 e1 ⊢
      rw [e1]; exact hr0
    · intro f hf
      obtain ⟨f', rfl⟩ : ∃ f', f = f' + 1 := ⟨f - 1, by omega⟩
      simp only
      rw [arrLoop]
      simp only [(isValueTok_ne hv0).1, if_false, hp0 f' (by omega), Res.bind, St.next, hr2, hp2 f' (by omega)]
      simp
  | @memOne a k b c v d ks tv ha hk hb hc hv hd ihv =>
    intro m hm acc res hres line rest
    simp only [Rfc.Tree.obj.injEq] at hm; subst hm
    obtain ⟨kb, x, hkb, hx, hres'⟩ := interpMembers_cons hres
    simp only [interpMembers, Option.some.injEq] at hres'; subst hres'
    obtain ⟨l1, e1⟩ := readToken_ws a ha line (k ++ (b ++ 58 :: (c ++ (v ++ (d ++ 125 :: rest))))) (by
      cases hk; simp)
    have hkey := tok_rfc_str hk hkb l1 (b ++ 58 :: (c ++ (v ++ (d ++ 125 :: rest))))
    obtain ⟨l2, e2⟩ := readToken_ws b hb l1 (58 :: (c ++ (v ++ (d ++ 125 :: rest)))) (cons_ne_nil' _ _)
    obtain ⟨l3, e3⟩ := readToken_ws c hc l2 (v ++ (d ++ 125 :: rest)) (by
      intro e; have := congrArg List.length e; simp at this)
    obtain ⟨l4, f0, h1⟩ := ihv x hx l3 (d ++ 125 :: rest) (delim_ws hd 125 rest (by omega))
    obtain ⟨l5, e5⟩ := readToken_ws d hd l4 (125 :: rest) (cons_ne_nil' _ _)
    have hst125 : readToken l4 (d ++ 125 :: rest) = .ok ⟨125, .null, l5, rest⟩ := by
      rw [e5, tok_punct l5 125 rest (by omega)]
    obtain ⟨st2, hr2, hv2, hp2⟩ := h1 _ hst125
    refine ⟨l5, f0 + 1, fun st' hst => ⟨⟨34, .str kb, l1, b ++ 58 :: (c ++ (v ++ (d ++ 125 :: rest)))⟩, ?_, ?_, ?_⟩⟩
    · simp only [List.append_assoc, List.cons_append, List.nil_append] at hkey e1 ⊢
      rw [e1]; exact hkey
    · simp
    · intro f hf
      obtain ⟨f', rfl⟩ : ∃ f', f = f' + 1 := ⟨f - 1, by omega⟩
      simp only
      rw [objLoop]
      simp only [Val.strOf, St.next, e2, tok_punct l2 58 _ (by omega : (58:Nat) = 123 ∨ 58 = 125 ∨ 58 = 91 ∨ 58 = 93 ∨ 58 = 44 ∨ 58 = 58),
        e3, hr2, Res.bind, hp2 f' (by omega), hst]
      simp
  | @memCons a k b c v d r ks tv m ha hk hb hc hv hd hr ihv ihr =>
    intro m0 hm acc res hres line rest
    simp only [Rfc.Tree.obj.injEq] at hm; subst hm
    obtain ⟨kb, x, hkb, hx, hres'⟩ := interpMembers_cons hres
    obtain ⟨l1, e1⟩ := readToken_ws a ha line (k ++ (b ++ 58 :: (c ++ (v ++ (d ++ 44 :: (r ++ [125] ++ rest)))))) (by
      cases hk; simp)
    have hkey := tok_rfc_str hk hkb l1 (b ++ 58 :: (c ++ (v ++ (d ++ 44 :: (r ++ [125] ++ rest)))))
    obtain ⟨l2, e2⟩ := readToken_ws b hb l1 (58 :: (c ++ (v ++ (d ++ 44 :: (r ++ [125] ++ rest))))) (cons_ne_nil' _ _)
    obtain ⟨l3, e3⟩ := readToken_ws c hc l2 (v ++ (d ++ 44 :: (r ++ [125] ++ rest))) (by
      intro e; have := congrArg List.length e; simp at this)
    obtain ⟨l4, f1, h1⟩ := ihv x hx l3 (d ++ 44 :: (r ++ [125] ++ rest)) (delim_ws hd 44 _ (by omega))
    obtain ⟨l5, e5⟩ := readToken_ws d hd l4 (44 :: (r ++ [125] ++ rest)) (cons_ne_nil' _ _)
    have hst44 : readToken l4 (d ++ 44 :: (r ++ [125] ++ rest)) = .ok ⟨44, .null, l5, r ++ [125] ++ rest⟩ := by
      rw [e5, tok_punct l5 44 _ (by omega)]
    obtain ⟨st2, hr2, hv2, hp2⟩ := h1 _ hst44
    obtain ⟨l6, f2, h2⟩ := ihr m rfl (mapAppend acc kb x) res hres' l5 rest
    refine ⟨l6, f1 + f2 + 1, fun st' hst => ?_⟩
    obtain ⟨st4, hr4, _, hp4⟩ := h2 st' hst
    refine ⟨⟨34, .str kb, l1, b ++ 58 :: (c ++ (v ++ (d ++ 44 :: (r ++ [125] ++ rest))))⟩, ?_, ?_, ?_⟩
    · simp only [List.append_assoc, List.cons_append, List.nil_append] at hkey e1 ⊢
      rw [e1]; exact hkey
    · simp
    · intro f hf
      obtain ⟨f', rfl⟩ : ∃ f', f = f' + 1 := ⟨f - 1, by omega⟩
      simp only
      rw [objLoop]
      simp only [Val.strOf, St.next, e2, tok_punct l2 58 _ (by omega : (58:Nat) = 123 ∨ 58 = 125 ∨ 58 = 91 ∨ 58 = 93 ∨ 58 = 44 ∨ 58 = 58),
        e3, hr2, Res.bind, hp2 f' (by omega), hr4, hp4 f' (by omega)]
      simp

theorem value_ne_nil {t : List Byte} {tr : Rfc.Tree} (h : Rfc.G .value t tr) : t ≠ [] := by
  cases h with
  | null => simp
  | true_ => simp
  | false_ => simp
  | num hn => obtain ⟨_, d, ds, e, _⟩ := number_chars hn; rw [e]; simp
  | str hs => cases hs; simp
  | arrEmpty => simp
  | arr => simp
  | objEmpty => simp
  | obj => simp

/-- a JSON text whose tree has a meaning is parsed to that meaning -/
theorem accepts_text {t : List Byte} {tr : Rfc.Tree} {v : Val} (h : Rfc.Text t tr) (hv : interp tr = some v) :
    parse (t ++ [0]) = .ok v := by
  obtain ⟨a, val, b, ha, hval, hb, ht⟩ := h
  subst ht
  have hne := value_ne_nil hval
  obtain ⟨l1, e1⟩ := readToken_ws a ha 1 (val ++ (b ++ [0])) (by
    intro e; exact hne (List.append_eq_nil_iff.mp e).1)
  obtain ⟨l2, f0, h1⟩ := accept_G hval v hv l1 (b ++ [0]) (delim_ws hb 0 [] (by omega))
  obtain ⟨l3, e3⟩ := readToken_ws b hb l2 [0] (cons_ne_nil' _ _)
  have hend : readToken l2 (b ++ [0]) = .ok ⟨0, .null, l3, [0]⟩ := by
    rw [e3]; unfold readToken
    rw [skipSpace_stop _ 0 [] (by decide) (by decide) (by decide)]
    simp [Res.bind]
  obtain ⟨st0, hr0, _, hp0⟩ := h1 _ hend
  have hbuf : a ++ val ++ b ++ [0] = a ++ (val ++ (b ++ [0])) := by simp
  have hr : readToken 1 (a ++ val ++ b ++ [0]) = .ok st0 := by rw [hbuf, e1]; exact hr0
  have hmem : (0 : Byte) ∈ a ++ val ++ b ++ [0] := by simp
  have hsafe := parse_safe _ hmem
  have hnf : parseValue (parseFuel (a ++ val ++ b ++ [0])) st0 ≠ .nofuel := by
    intro e
    unfold parse at hsafe
    rw [hr] at hsafe
    simp only [e] at hsafe
  have hmono := parseValue_mono_add _ st0 hnf f0
  rw [hp0 _ (by omega)] at hmono
  unfold parse
  rw [hr]
  simp only [← hmono]

end Nstd.Json
