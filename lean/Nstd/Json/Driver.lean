import Nstd.Common.Basic
import Nstd.Json.Model
import Nstd.Json.ModelInto
/-
  Line protocol of the Json area (same as harness/json.cpp):
    parse <hex>   ->  ok <dump> | err <line> <col>
    strip <hex>   ->  <hex>
    tostr <dump>  ->  <hex of toString>     (tostr only: u<dec> / U<dec> unsigned kinds print like integers, <V,...> an
                                            Array<Variant> prints like a list)
    tostr D<hex>  ->  dbl                   (a double is opaque in the model: it carries its text; "%f" of a finite value
                                            is digits '.' six digits, the only thing the harness observes)
    rt <dump>     ->  ok <dump of parse (toString v)> <v' == v> | err <line> <col>
    parseinto <dump> <hex> -> ok <dump> | err <line> <col>   (parse into a Variant that already holds <dump>)
  dump: n | t | f | d | i<dec> | l<dec> | s<hex> | [V,...] | {<hex>:V,...}
-/
open Nstd.Common
namespace Nstd.Json

def hexOf (bs : List Byte) : String := toHex bs

partial def dumpVal : Val → String
  | .null => "n"
  | .bool b => if b then "t" else "f"
  | .dbl _ => "d"
  | .int i => s!"i{i}"
  | .int64 i => s!"l{i}"
  | .str s => "s" ++ hexOf s
  | .list l => "[" ++ ",".intercalate (l.map dumpVal) ++ "]"
  | .map m => "{" ++ ",".intercalate (m.map (fun kv => hexOf kv.1 ++ ":" ++ dumpVal kv.2)) ++ "}"

def isHexChar (c : Char) : Bool := (Nstd.Common.hexVal c).isSome

def readHexStr (cs : List Char) : Option (List Byte × List Char) :=
  match cs with
  | '-' :: r => some ([], r)
  | _ =>
    let h := cs.takeWhile isHexChar
    let r := cs.dropWhile isHexChar
    if h.isEmpty then none
    else match fromHexChars h with
      | some bs => some (bs, r)
      | none => none

def readDec (cs : List Char) (lo hi : Int) : Option (Int × List Char) :=
  let (neg, ds) := match cs with
    | '-' :: r => (true, r)
    | _ => (false, cs)
  let d := ds.takeWhile Char.isDigit
  let r := ds.dropWhile Char.isDigit
  if d.isEmpty || d.length > 19 then none
  else
    let n : Nat := d.foldl (fun a c => a * 10 + (c.toNat - 48)) 0
    let i : Int := if neg then -(n : Int) else n
    if i < lo || i > hi then none else some (i, r)

def readUDec (cs : List Char) (hi : Nat) : Option (Int × List Char) :=
  let d := cs.takeWhile Char.isDigit
  let r := cs.dropWhile Char.isDigit
  if d.isEmpty || d.length > 20 || (d.length > 1 && d.head? == some '0') then none
  else
    let n : Nat := d.foldl (fun a c => a * 10 + (c.toNat - 48)) 0
    if n > hi then none else some ((n : Int), r)

mutual
partial def readVal (ext : Bool) (cs : List Char) : Option (Val × List Char) :=
  match cs with
  | 'u' :: r => if ext then (readUDec r 4294967295).map (fun (i, r) => (.int64 i, r)) else none
  | 'U' :: r => if ext then (readUDec r 18446744073709551615).map (fun (i, r) => (.int64 i, r)) else none
  | '<' :: '>' :: r => if ext then some (.list [], r) else none
  | '<' :: r => if ext then readItems ext '>' r [] else none
  | 'n' :: r => some (.null, r)
  | 't' :: r => some (.bool true, r)
  | 'f' :: r => some (.bool false, r)
  | 'i' :: r => (readDec r (-2147483648) 2147483647).map (fun (i, r) => (.int i, r))
  | 'l' :: r => (readDec r (-9223372036854775808) 9223372036854775807).map (fun (i, r) => (.int64 i, r))
  | 's' :: r => (readHexStr r).map (fun (s, r) => (.str s, r))
  | '[' :: ']' :: r => some (.list [], r)
  | '[' :: r => readItems ext ']' r []
  | '{' :: '}' :: r => some (.map [], r)
  | '{' :: r => readEntries ext r []
  | _ => none
partial def readItems (ext : Bool) (close : Char) (cs : List Char) (acc : List Val) : Option (Val × List Char) :=
  match readVal ext cs with
  | some (v, c :: r) =>
    if c == ',' then readItems ext close r (acc ++ [v])
    else if c == close then some (.list (acc ++ [v]), r)
    else none
  | _ => none
partial def readEntries (ext : Bool) (cs : List Char) (acc : List (List Byte × Val)) : Option (Val × List Char) :=
  match readHexStr cs with
  | some (k, ':' :: r) =>
    match readVal ext r with
    | some (v, ',' :: r) => readEntries ext r (mapAppend acc k v)
    | some (v, '}' :: r) => some (.map (mapAppend acc k v), r)
    | _ => none
  | _ => none
end

def readDump (s : String) (ext : Bool := false) : Option Val :=
  match readVal ext s.toList with
  | some (v, []) => some v
  | _ => none

/-- the buffer handed to the C++ code: the bytes and the terminating NUL -/
def cbuf (bs : List Byte) : List Byte := bs ++ [0]

def showParse (buf : List Byte) (orig : Option Val) : String :=
  match parse buf with
  | .ok v =>
    "ok " ++ dumpVal v ++
      (match orig with
       | none => ""
       | some o => match veq v o with
         | some true => " 1"
         | some false => " 0"
         | none => " unmodelled")
  | .err l c => s!"err {l} {c}"
  | .oob => "OOB"
  | .nofuel => "NOFUEL"

def stepLine (_ : Unit) (ws : List String) : Unit × String :=
  match ws with
  | ["reset"] => ((), "ready")
  | ["parse", h] =>
    match fromHex h with
    | some bs => ((), showParse (cbuf bs) none)
    | none => ((), "bad-op")
  | ["parseinto", d, h] =>
    match readDump d, fromHex h with
    | some init, some bs =>
      ((), match parseInto init (cbuf bs) with
           | .ok v => "ok " ++ dumpVal v
           | .err l c => s!"err {l} {c}"
           | .oob => "OOB"
           | .nofuel => "NOFUEL")
    | _, _ => ((), "bad-op")
  | ["strip", h] =>
    match fromHex h with
    | some bs =>
      ((), match stripComments (cbuf bs) with
           | .ok out => hexOf out
           | .oob => "OOB"
           | .nofuel => "NOFUEL")
    | none => ((), "bad-op")
  | ["tostr", d] =>
    match d.toList with
    | 'D' :: h =>
      match readHexStr h with
      | some (_, []) => ((), "dbl")
      | _ => ((), "bad-op")
    | _ =>
      match readDump d true with
      | some v => ((), hexOf (toString v))
      | none => ((), "bad-op")
  | ["rt", d] =>
    match readDump d with
    | some v => ((), showParse (cbuf (toString v)) (some v))
    | none => ((), "bad-op")
  | _ => ((), "bad-op")

end Nstd.Json

def main : IO Unit := Nstd.Common.ioLoop () Nstd.Json.stepLine
