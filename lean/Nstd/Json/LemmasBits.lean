import Nstd.Json.RfcSem
import Nstd.Json.LemmasRT
/-
  Bit-level facts behind the `\u` escapes of the tokenizer: the surrogate tests of `readToken` are the
  ranges D800..DBFF / DC00..DFFF, the pair arithmetic is the UTF-16 formula, and the model's
  `Unicode::append` (`utf8`, shifts and masks) is RFC 3629 as specified arithmetically for C18
  (`Nstd.Codec.Spec.utf8`).
-/
set_option linter.unusedSimpArgs false
set_option linter.unusedVariables false
namespace Nstd.Json
theorem and_shl (w m k : Nat) : w &&& (m <<< k) = ((w >>> k) &&& m) <<< k := by
  apply Nat.eq_of_testBit_eq; intro j
  simp only [Nat.testBit_and, Nat.testBit_shiftLeft, Nat.testBit_shiftRight]
  by_cases h : k ≤ j
  · have e : k + (j - k) = j := by omega
    simp [h, e]
  · simp [h]

theorem q64 : ∀ q, q < 64 → (((q &&& 63) <<< 10 = 0xD800) ↔ q = 54) := by decide
theorem q64b : ∀ q, q < 64 → (((q &&& 63) <<< 10 = 0xDC00) ↔ q = 55) := by decide
theorem p32 : ∀ p, p < 32 → (((p &&& 31) <<< 11 = 0xD800) ↔ p = 27) := by decide

theorem high_iff (w : Nat) (h : w < 65536) :
    (w &&& 0xF800 = 0xD800 ∧ w &&& 0xFC00 = 0xD800) ↔ isHighSur w = true := by
  have e1 : (0xF800 : Nat) = 31 <<< 11 := by decide
  have e2 : (0xFC00 : Nat) = 63 <<< 10 := by decide
  rw [e1, e2, and_shl, and_shl, Nat.shiftRight_eq_div_pow, Nat.shiftRight_eq_div_pow]
  have a := p32 (w / 2 ^ 11) (by omega)
  have b := q64 (w / 2 ^ 10) (by omega)
  rw [a, b]
  simp only [isHighSur, Bool.and_eq_true, decide_eq_true_eq]
  omega

theorem low_iff (w : Nat) (h : w < 65536) : (w &&& 0xFC00 = 0xDC00) ↔ isLowSur w = true := by
  have e2 : (0xFC00 : Nat) = 63 <<< 10 := by decide
  rw [e2, and_shl, Nat.shiftRight_eq_div_pow]
  have b := q64b (w / 2 ^ 10) (by omega)
  rw [b]
  simp only [isLowSur, Bool.and_eq_true, decide_eq_true_eq]
  omega

theorem pair_eq (w1 w2 : Nat) (h1 : isHighSur w1 = true) (h2 : isLowSur w2 = true) :
    ((w2 &&& 0x3FF) ||| ((w1 &&& 0x3FF) <<< 10)) + 0x10000 = pairCp w1 w2 := by
  simp only [isHighSur, isLowSur, Bool.and_eq_true, decide_eq_true_eq] at h1 h2
  have e : (0x3FF : Nat) = 2 ^ 10 - 1 := by decide
  rw [e, Nat.and_two_pow_sub_one_eq_mod, Nat.and_two_pow_sub_one_eq_mod, Nat.or_comm,
    ← Nat.shiftLeft_add_eq_or_of_lt (Nat.mod_lt _ (by decide)), Nat.shiftLeft_eq]
  unfold pairCp
  omega

theorem O1 : ∀ a, a < 32 → a ||| 0xC0 = 0xC0 + a := by decide
theorem O2 : ∀ a, a < 64 → a ||| 0x80 = 0x80 + a := by decide
theorem O3 : ∀ a, a < 16 → a ||| 0xE0 = 0xE0 + a := by decide
theorem O4 : ∀ a, a < 8 → a ||| 0xF0 = 0xF0 + a := by decide

theorem or80 (a : Nat) : (a &&& 0x3F) ||| 0x80 = 0x80 + a % 64 := by
  have e : (0x3F : Nat) = 2 ^ 6 - 1 := by decide
  rw [e, Nat.and_two_pow_sub_one_eq_mod]
  exact O2 _ (Nat.mod_lt _ (by decide))

theorem utf8_eq_spec (ch : Nat) (h : ch < 0x110000) : utf8 ch = Nstd.Codec.Spec.utf8 ch := by
  unfold utf8 Nstd.Codec.Spec.utf8
  by_cases h1 : ch < 0x80
  · simp only [h1, if_true]
  simp only [h1, if_false]
  by_cases h2 : ch < 0x800
  · simp only [h2, if_true]
    rw [or80, Nat.shiftRight_eq_div_pow, O1 _ (by omega)]
  simp only [h2, if_false]
  by_cases h3 : ch < 0x10000
  · simp only [h3, if_true]
    rw [or80, or80, Nat.shiftRight_eq_div_pow, Nat.shiftRight_eq_div_pow, O3 _ (by omega)]
  simp only [h3, h, if_false, if_true]
  rw [or80, or80, or80, Nat.shiftRight_eq_div_pow, Nat.shiftRight_eq_div_pow, Nat.shiftRight_eq_div_pow, O4 _ (by omega)]
end Nstd.Json
