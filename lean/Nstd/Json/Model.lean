import Nstd.Generated.JsonTables
/-
  Executable model of src/Document/Json.cpp (property C15), mirroring the control flow of the
  repaired code (fixes/json/01..04).

  Memory model.  The text handed to `Json::parse` / `Json::stripComments` is a buffer
  `buf : List Byte`; a cursor (`const char*`) is the suffix of the buffer that starts at the
  pointer.  Dereferencing the cursor `[]` is a read behind the end of the buffer: every
  function then answers `.oob`.  For a NUL-terminated buffer `t ++ [0]` "reads nothing
  beyond the terminator" is therefore the theorem "the result is never `.oob`".
  Loops whose step is not a single byte take a fuel argument; running out of fuel is the
  distinct outcome `.nofuel` (theorem: never happens with the fuel `parse` supplies).

  libc assumptions (Lean definitions of the documented behaviour): `atoll` (optional sign,
  decimal digits, saturating at the int64 range), `sscanf("%x")` of four hexadecimal digits
  yields their value, `printf("%d"/"%lld")` prints the decimal representation,
  `isdigit/isxdigit` in the C locale, `strpbrk`.  Doubles (`atof`, `"%f"`) are opaque: a
  double value carries the token text.

  The escape tables (`unescTable`, `escSet`, `escTable`, `escDefaultPrefix`, `hexAlphabet`) are
  NOT written here: `tools/gen_json.py` regenerates `Nstd/Generated/JsonTables.lean` from the
  current Json.cpp on every run.
-/
namespace Nstd.Json
open Nstd.Generated.Json

scoped notation "Byte" => Nat

/-- the part of `Variant` the JSON code produces / the property speaks about -/
inductive Val where
  | null
  | bool (b : Bool)
  | dbl (txt : List Byte)
  | int (i : Int)
  | int64 (i : Int)
  | str (s : List Byte)
  | list (l : List Val)
  | map (m : List (List Byte × Val))
  deriving Inhabited

inductive Res (α : Type) where
  | ok (a : α)
  | fail (line : Nat) (pos : List Byte)   -- syntaxError(pos, ..): line and cursor; the column is computed by `parse`
  | oob                                   -- a read behind the end of the buffer
  | nofuel

/-- error / oob / nofuel propagate (`if(!f()) return false;`) -/
@[inline] def Res.bind {α β : Type} (x : Res α) (k : α → Res β) : Res β :=
  match x with
  | .ok a => k a
  | .fail l p => .fail l p
  | .oob => .oob
  | .nofuel => .nofuel

/-! ### character classes, small libc pieces -/

def isSpace (c : Byte) : Bool := (9 ≤ c && c ≤ 13) || c == 32
def isDigit (c : Byte) : Bool := 48 ≤ c && c ≤ 57
def isHexDigit (c : Byte) : Bool := isDigit c || (65 ≤ c && c ≤ 70) || (97 ≤ c && c ≤ 102)
def hexVal (c : Byte) : Nat := if c ≤ 57 then c - 48 else if c ≤ 70 then c - 55 else c - 87

def lookup {β : Type} (k : Nat) : List (Nat × β) → Option β
  | [] => none
  | (k', v) :: t => if k' = k then some v else lookup k t

/-- the escape switch of `readToken` (generated table): letter after the backslash ↦ byte appended -/
def unesc (e : Nat) : Option Nat := lookup e unescTable

/-- `sscanf(k, "%x", &w)` for a string of hexadecimal digits -/
def scanHex (k : List Byte) : Nat := k.foldl (fun a c => a * 16 + hexVal c) 0

/-- `Unicode::append` (UTF-8 build); appends nothing for ch ≥ 0x110000 -/
def utf8 (ch : Nat) : List Byte :=
  if ch < 0x80 then [ch]
  else if ch < 0x800 then [(ch >>> 6) ||| 0xC0, (ch &&& 0x3F) ||| 0x80]
  else if ch < 0x10000 then [(ch >>> 12) ||| 0xE0, ((ch >>> 6) &&& 0x3F) ||| 0x80, (ch &&& 0x3F) ||| 0x80]
  else if ch < 0x110000 then
    [(ch >>> 18) ||| 0xF0, ((ch >>> 12) &&& 0x3F) ||| 0x80, ((ch >>> 6) &&& 0x3F) ||| 0x80, (ch &&& 0x3F) ||| 0x80]
  else []

def atollDigits : Nat → List Byte → Nat
  | acc, [] => acc
  | acc, c :: r => if isDigit c then atollDigits (acc * 10 + (c - 48)) r else acc

def clamp64 (i : Int) : Int :=
  if i < -9223372036854775808 then -9223372036854775808
  else if i > 9223372036854775807 then 9223372036854775807 else i

/-- `atoll`: white space, optional sign, digits; saturates (glibc `strtoll`) -/
def atoll (n : List Byte) : Int :=
  match n.dropWhile isSpace with
  | [] => 0
  | c :: r =>
    if c = 45 then clamp64 (-(atollDigits 0 r : Int))
    else if c = 43 then clamp64 (atollDigits 0 r)
    else clamp64 (atollDigits 0 (c :: r))

/-- `(int)x` for an int64 `x` -/
def wrap32 (i : Int) : Int := (i + 2147483648) % 4294967296 - 2147483648

/-! ### tokenizer -/

/-- `Json::Private::skipSpace` -/
def skipSpace : Nat → List Byte → Res (Nat × List Byte)
  | _, [] => .oob
  | line, c :: r =>
    if c = 13 then
      match r with
      | [] => .oob
      | d :: r' => if d = 10 then skipSpace (line + 1) r' else skipSpace (line + 1) (d :: r')
    else if c = 10 then skipSpace (line + 1) r
    else if isSpace c then skipSpace line r
    else .ok (line, c :: r)

/-- the loop `for(i < 4) if(isHexDigit(*pos)) k.append(*pos), ++pos; else error` -/
def hex4 (line : Nat) : Nat → List Byte → List Byte → Res (List Byte × List Byte)
  | 0, k, r => .ok (k, r)
  | _ + 1, _, [] => .oob
  | n + 1, k, c :: r => if isHexDigit c then hex4 line n (k ++ [c]) r else .fail line (c :: r)

/-- the string loop of `readToken` (after the opening quote).  Result: line, value, cursor. -/
def readStr : Nat → Nat → List Byte → List Byte → Res (Nat × List Byte × List Byte)
  | 0, _, _, _ => .nofuel
  | _ + 1, _, _, [] => .oob
  | f + 1, line, acc, c :: r =>
    if c = 0 then .fail line (c :: r)
    else if c = 13 then
      match r with
      | [] => .oob
      | d :: r' =>
        if d = 10 then readStr f (line + 1) (acc ++ [13, 10]) r'
        else readStr f (line + 1) (acc ++ [13]) (d :: r')
    else if c = 10 then readStr f (line + 1) (acc ++ [10]) r
    else if c = 92 then
      match r with
      | [] => .oob
      | e :: r' =>
        match unesc e with
        | some b => readStr f line (acc ++ [b]) r'       -- a case of the escape switch: `value.append(b); ++pos.pos;`
        | none =>
        if e = 117 then
          (hex4 line 4 [] r').bind fun (k, r2) =>
            let w1 := scanHex k
            if w1 &&& 0xF800 = 0xD800 ∧ w1 &&& 0xFC00 = 0xD800 then
              -- `if(*pos.pos != '\\' || pos.pos[1] != 'u')`
              match r2 with
              | [] => .oob
              | b1 :: r3 =>
                if b1 ≠ 92 then .fail line r2
                else
                  match r3 with
                  | [] => .oob
                  | b2 :: r4 =>
                    if b2 ≠ 117 then .fail line r2
                    else
                      (hex4 line 4 [] r4).bind fun (k2, r5) =>
                        let w2 := scanHex k2
                        if w2 &&& 0xFC00 ≠ 0xDC00 then .fail line r2     -- `pos.pos -= 6`
                        else readStr f line (acc ++ utf8 (((w2 &&& 0x3FF) ||| ((w1 &&& 0x3FF) <<< 10)) + 0x10000)) r5
            else readStr f line (acc ++ utf8 w1) r2
        else readStr f line (acc ++ [92]) (e :: r')   -- unknown escape: keep the backslash, look at `e` again
    else if c = 34 then .ok (line, acc, r)
    else readStr f line (acc ++ [c]) r

/-- `String::compare(pos, lit, len) == 0`: `some rest` when the text starts with `lit` -/
def litMatch : List Byte → List Byte → Res (Option (List Byte))
  | [], r => .ok (some r)
  | _ :: _, [] => .oob
  | l :: ls, c :: r => if c = l then litMatch ls r else .ok none

/-- the number loop of `readToken` -/
def numLoop : List Byte → Bool → List Byte → Res (List Byte × Bool × List Byte)
  | _, _, [] => .oob
  | n, dbl, c :: r =>
    if c = 69 ∨ c = 101 ∨ c = 45 ∨ c = 43 then numLoop (n ++ [c]) dbl r
    else if c = 46 then numLoop (n ++ [c]) true r
    else if isDigit c then numLoop (n ++ [c]) dbl r
    else .ok (n, dbl, c :: r)

def numVal (n : List Byte) (dbl : Bool) : Val :=
  if dbl then .dbl n
  else
    let result := atoll n
    let resultInt := wrap32 result
    if resultInt = result then .int resultInt else .int64 result

/-- parser state: current token (`token.token`, `token.value`) and `pos` (line, cursor) -/
structure St where
  tok : Byte
  val : Val
  line : Nat
  r : List Byte

/-- `Json::Private::readToken` -/
def readToken (line : Nat) (r : List Byte) : Res St :=
  (skipSpace line r).bind fun (line, r) =>
    match r with
    | [] => .oob
    | c :: r' =>
      if c = 0 then .ok ⟨0, .null, line, c :: r'⟩
      else if c = 123 ∨ c = 125 ∨ c = 91 ∨ c = 93 ∨ c = 44 ∨ c = 58 then .ok ⟨c, .null, line, r'⟩
      else if c = 34 then
        (readStr (r'.length) line [] r').bind fun (line', v, r'') => .ok ⟨34, .str v, line', r''⟩
      else if c = 116 then
        (litMatch [116, 114, 117, 101] (c :: r')).bind fun m =>
          match m with
          | some r'' => .ok ⟨116, .bool true, line, r''⟩
          | none => .fail line (c :: r')
      else if c = 102 then
        (litMatch [102, 97, 108, 115, 101] (c :: r')).bind fun m =>
          match m with
          | some r'' => .ok ⟨102, .bool false, line, r''⟩
          | none => .fail line (c :: r')
      else if c = 110 then
        (litMatch [110, 117, 108, 108] (c :: r')).bind fun m =>
          match m with
          | some r'' => .ok ⟨110, .null, line, r''⟩
          | none => .fail line (c :: r')
      else if c = 45 ∨ isDigit c then
        (numLoop [] false (c :: r')).bind fun (n, dbl, r'') => .ok ⟨35, numVal n dbl, line, r''⟩
      else .fail line (c :: r')

/-! ### recursive descent -/

def Val.strOf : Val → List Byte
  | .str s => s
  | _ => []

/-- `HashMap::append(key, value)`: an existing key keeps its place and takes the new value -/
def mapAppend : List (List Byte × Val) → List Byte → Val → List (List Byte × Val)
  | [], k, v => [(k, v)]
  | (k', v') :: m, k, v => if k' = k then (k', v) :: m else (k', v') :: mapAppend m k v

def isScalarTok (t : Byte) : Bool := t == 34 || t == 35 || t == 116 || t == 102 || t == 110

/-- read the next token from the position of `st` -/
def St.next (st : St) : Res St := readToken st.line st.r

mutual
/-- `parseValue` (with `parseArray` / `parseObject` entered when the token is `[` / `{`) -/
def parseValue : Nat → St → Res (Val × St)
  | 0, _ => .nofuel
  | f + 1, st =>
    if isScalarTok st.tok then st.next.bind fun st' => .ok (st.val, st')
    else if st.tok = 91 then st.next.bind fun st1 => arrLoop f [] st1
    else if st.tok = 123 then st.next.bind fun st1 => objLoop f [] st1
    else .fail st.line st.r
/-- the `while(token.token != ']')` loop of `parseArray` and the final `readToken` -/
def arrLoop : Nat → List Val → St → Res (Val × St)
  | 0, _, _ => .nofuel
  | f + 1, acc, st =>
    if st.tok = 93 then st.next.bind fun st' => .ok (.list acc, st')
    else
      (parseValue f st).bind fun (v, st1) =>
        if st1.tok = 93 then st1.next.bind fun st' => .ok (.list (acc ++ [v]), st')
        else if st1.tok ≠ 44 then .fail st1.line st1.r
        else st1.next.bind fun st2 => arrLoop f (acc ++ [v]) st2
/-- the `while(token.token != '}')` loop of `parseObject` and the final `readToken` -/
def objLoop : Nat → List (List Byte × Val) → St → Res (Val × St)
  | 0, _, _ => .nofuel
  | f + 1, acc, st =>
    if st.tok = 125 then st.next.bind fun st' => .ok (.map acc, st')
    else if st.tok ≠ 34 then .fail st.line st.r
    else
      let key := st.val.strOf
      st.next.bind fun st1 =>
        if st1.tok ≠ 58 then .fail st1.line st1.r
        else
          st1.next.bind fun st2 =>
            (parseValue f st2).bind fun (v, st3) =>
              if st3.tok = 125 then st3.next.bind fun st' => .ok (.map (mapAppend acc key v), st')
              else if st3.tok ≠ 44 then .fail st3.line st3.r
              else st3.next.bind fun st4 => objLoop f (mapAppend acc key v) st4
end

/-- `syntaxError`: walk back from the error cursor to the previous CR/LF or the start -/
def column (buf pos : List Byte) : Nat :=
  1 + (((buf.take (buf.length - pos.length)).reverse).takeWhile (fun c => !(c == 10 || c == 13))).length

inductive PRes where
  | ok (v : Val)
  | err (line col : Nat)
  | oob
  | nofuel

def parseFuel (buf : List Byte) : Nat := 2 * buf.length + 4

/-- `Json::Parser::parse(const char*, Variant&)` on a fresh Variant -/
def parse (buf : List Byte) : PRes :=
  match readToken 1 buf with
  | .ok st =>
    match parseValue (parseFuel buf) st with
    | .ok (v, _) => .ok v
    | .fail l p => .err l (column buf p)
    | .oob => .oob
    | .nofuel => .nofuel
  | .fail l p => .err l (column buf p)
  | .oob => .oob
  | .nofuel => .nofuel

/-- `parse` before the column is computed: a failure still carries the cursor (`pos.pos`) at which
    `syntaxError` was called -/
def parseRaw (buf : List Byte) : Res Val :=
  (readToken 1 buf).bind fun st => (parseValue (parseFuel buf) st).bind fun x => .ok x.1

/-! ### serialisation -/

/-- `"0123456789abcdef"[n]` (generated alphabet) -/
def hexLower (n : Nat) : Byte := hexAlphabet.getD n 0

/-- the body of `appendEscapedString`: `strpbrk` stops at the first NUL of the string, the
    rest is appended unescaped -/
def escLoop : List Byte → List Byte
  | [] => []
  | c :: s =>
    if c = 0 then c :: s
    else if escSet.contains c then
      match lookup c escTable with
      | some t => t ++ escLoop s                  -- a case of `switch(*e)`
      | none => escDefaultPrefix ++ [hexLower (c / 16 % 16), hexLower (c % 16)] ++ escLoop s
    else c :: escLoop s

def escaped (s : List Byte) : List Byte := [34] ++ escLoop s ++ [34]

/-- decimal digits of a natural number (`printf("%u")`) -/
def natDigits (n : Nat) : List Byte :=
  if n < 10 then [48 + n] else natDigits (n / 10) ++ [48 + n % 10]

/-- `printf("%d")` / `printf("%lld")` -/
def fromInt (i : Int) : List Byte :=
  if i < 0 then 45 :: natDigits (-i).toNat else natDigits i.toNat

mutual
/-- `Json::Private::appendVariant(data, indentation, result)` (what it appends) -/
def toStr : List Byte → Val → List Byte
  | _, .null => [110, 117, 108, 108]
  | _, .bool b => if b then [116, 114, 117, 101] else [102, 97, 108, 115, 101]
  | _, .dbl t => t
  | _, .int i => fromInt i
  | _, .int64 i => fromInt i
  | _, .str s => escaped s
  | ind, .list l =>
    match l with
    | [] => [91, 93]
    | _ :: _ => [91, 10] ++ listItems (ind ++ [9]) l ++ [10] ++ ind ++ [93]
  | ind, .map m =>
    match m with
    | [] => [123, 125]
    | _ :: _ => [123, 10] ++ mapItems (ind ++ [9]) m ++ [10] ++ ind ++ [125]
/-- the items of a non-empty list, each on its own line, separated by `,\n` -/
def listItems : List Byte → List Val → List Byte
  | _, [] => []
  | ni, v :: vs =>
    ni ++ toStr ni v ++
      (match vs with
       | [] => []
       | _ :: _ => [44, 10] ++ listItems ni vs)
def mapItems : List Byte → List (List Byte × Val) → List Byte
  | _, [] => []
  | ni, (k, v) :: m =>
    ni ++ escaped k ++ [58, 32] ++ toStr ni v ++
      (match m with
       | [] => []
       | _ :: _ => [44, 10] ++ mapItems ni m)
end

/-- `Json::toString` -/
def toString (v : Val) : List Byte := toStr [] v ++ [10]

/-! ### `Variant::operator==` on the value kinds of the property (`none`: a combination that
    needs `String::toBool/toInt`, not modelled) -/

def Val.toBoolV : Val → Option Bool
  | .bool b => some b
  | .int i => some (i != 0)
  | .int64 i => some (i != 0)
  | .str _ => none
  | .dbl _ => none
  | _ => some false

def Val.toIntV : Val → Option Int
  | .bool b => some (if b then 1 else 0)
  | .int i => some i
  | .int64 i => some (wrap32 i)
  | .str _ => none
  | .dbl _ => none
  | _ => some 0

def Val.toInt64V : Val → Option Int
  | .bool b => some (if b then 1 else 0)
  | .int i => some i
  | .int64 i => some i
  | .str _ => none
  | .dbl _ => none
  | _ => some 0

mutual
def veq : Val → Val → Option Bool
  | .null, b => some (match b with | .null => true | _ => false)
  | .bool x, b => b.toBoolV.map (fun y => x == y)
  | .dbl _, _ => none
  | .int x, b => b.toIntV.map (fun y => x == y)
  | .int64 x, b => b.toInt64V.map (fun y => x == y)
  | .str s, .str t => some (s == t)
  | .str _, _ => none
  | .list l, .list l' => if l.length ≠ l'.length then some false else veqList l l'
  | .list _, _ => some false
  | .map m, .map m' => if m.length ≠ m'.length then some false else veqMap m m'
  | .map _, _ => some false
def veqList : List Val → List Val → Option Bool
  | a :: l, b :: l' =>
    match veq a b with
    | some true => veqList l l'
    | r => r
  | _, _ => some true
def veqMap : List (List Byte × Val) → List (List Byte × Val) → Option Bool
  | (k, a) :: m, (k', b) :: m' =>
    if k ≠ k' then some false
    else match veq a b with
      | some true => veqMap m m'
      | r => r
  | _, _ => some true
end

/-! ### `Json::stripComments` -/

/-- `strpbrk(p, set)`: the suffix starting at the first byte of `set`; `none` when the NUL comes first -/
def findOneOf (set : List Byte) : List Byte → Res (Option (List Byte))
  | [] => .oob
  | c :: r => if c = 0 then .ok none else if set.contains c then .ok (some (c :: r)) else findOneOf set r

inductive SRes where
  | ok (out : List Byte)
  | oob
  | nofuel
  deriving DecidableEq

mutual
/-- label `checkStr` (outer loop); `out` = bytes written so far -/
def stripOuter : Nat → List Byte → List Byte → SRes
  | 0, _, _ => .nofuel
  | _ + 1, _, [] => .oob
  | f + 1, out, c :: r =>
    if c = 0 then .ok out
    else if c = 47 then
      match r with
      | [] => .oob
      | d :: r' =>
        if d = 47 then
          match findOneOf [13, 10] (c :: r) with
          | .ok (some e) => stripOuter f out e
          | .ok none => .ok out
          | .oob => .oob
          | _ => .nofuel
        else if d = 42 then stripBlock f out r'
        else stripOuter f (out ++ [c]) r          -- `*src != '"'`: copy
    else if c ≠ 34 then stripOuter f (out ++ [c]) r
    else stripString f (out ++ [c]) r
/-- the loop inside a block comment -/
def stripBlock : Nat → List Byte → List Byte → SRes
  | 0, _, _ => .nofuel
  | f + 1, out, src =>
    match findOneOf [13, 10, 42] src with
    | .ok (some e) =>
      match e with
      | [] => .oob
      | c :: e1 =>
        if c = 42 then
          match e1 with
          | [] => .oob
          | d :: e2 => if d = 47 then stripOuter f out e2 else stripBlock f out e1
        else stripBlock f (out ++ [c]) e1      -- CR / LF: the line break is kept
    | .ok none => .ok out
    | .oob => .oob
    | _ => .nofuel
/-- the loop inside a string literal (after the opening quote has been copied) -/
def stripString : Nat → List Byte → List Byte → SRes
  | 0, _, _ => .nofuel
  | _ + 1, _, [] => .oob
  | f + 1, out, c :: r =>
    if c = 92 then
      match r with
      | [] => .oob
      | d :: r' =>
        if d ≠ 0 then stripString f (out ++ [c, d]) r'
        else stripString f (out ++ [c]) r           -- `\` before the NUL: copied by the loop increment
    else if c = 34 then stripOuter f (out ++ [c]) r
    else if c = 0 then stripOuter f out (c :: r)
    else stripString f (out ++ [c]) r
end

def stripFuel (buf : List Byte) : Nat := 2 * buf.length + 2

def stripComments (buf : List Byte) : SRes := stripOuter (stripFuel buf) [] buf

end Nstd.Json
